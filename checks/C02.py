#!/usr/bin/env python3
"""C02 - infeasible/unbounded verdicts are never wrong; rays and Farkas proofs are valid; with ENSURERAY they are offered."""
import os
import sys
from fractions import Fraction

sys.path.insert(0, os.path.dirname(os.path.abspath(__file__)))
sys.path.insert(0, os.path.dirname(os.path.dirname(os.path.abspath(__file__))))
import vlib
import lpgen
import solvecommon as sc

HARNESSES = ["C01"]
MODEL = False        # uses the checker runner extracted for C01


def main():
    ck = vlib.Check("C02", "proof")
    ck.prove()
    exe = vlib.build_harness("C01")
    model = vlib.build_model("C01")
    nlp, ncfg, nmax = (130, 4, 12) if ck.tier == "quick" else (1200, 6, 25)
    r = ck.rng
    lps = []
    for _ in range(nlp):
        k = r.randrange(10)
        if k < 4:
            lps.append(lpgen.gen_infeasible(r, nmax))
        elif k < 7:
            lps.append(lpgen.gen_unbounded(r, nmax))
        elif k < 9:
            lps.append(lpgen.gen_random(r, nmax))
        else:
            lps.append(lpgen.gen_around_point(r, nmax))
    # systematic family: a costed column singleton with one-sided bounds in an equation with one partner (and possibly a fixed third
    # entry) - the presolve reduction that moves the singleton's bounds onto the partner; a lost bound turns a finite optimum into
    # UNBOUNDED, and presolve verdicts are reported without a proof unless ENSURERAY is set
    if not ck.args.replay:
        lps += lpgen.gen_singleton_equations(r, 60 if ck.tier == "quick" else 288)
    corpus = lpgen.load_corpus("C02")
    if ck.args.replay:
        import json
        rp = json.load(open(ck.args.replay))
        corpus = [(lpgen.parse_lp_text(rp["lp"]), [{a: b for a, b in rp.get("config", {}).items() if a != "history"}])]
        lps = []
    lps = [c[0] for c in corpus] + lps
    # branch-and-bound style warm starts: the case LP has one column fixed at a value inside its original bounds; the history relaxes the
    # column to the original bounds, solves (unreported), fixes it again and solves: every reported answer is an answer about the case LP,
    # reached from a basis in which the fixed column is often basic and outside its collapsed bounds
    fixed_hist = {}
    if not ck.args.replay:
        from fractions import Fraction as F_
        for _ in range(40 if ck.tier == "quick" else 600):
            p0 = lpgen.gen_lp(r, nmax)
            if p0.n < 1:
                continue
            j = r.randrange(p0.n)
            o_, lo_, up_ = p0.cols[j]
            basev = lo_ if lo_ is not None else (up_ if up_ is not None else F_(0))
            v = basev + (r.choice([0, 1, 2, 3, 7]) if lo_ is not None else -r.choice([0, 1, 2, 3, 7]))
            if up_ is not None and v > up_:
                v = up_
            cols = list(p0.cols)
            cols[j] = (o_, v, v)
            q = lpgen.LP(p0.maxi, p0.offset, cols, p0.rows, "fixed-column:" + p0.family)
            tk = lambda x, neg: ("-inf" if neg else "inf") if x is None else lpgen.qs(x)
            pre = [r.choice(["simplifier=0", "simplifier=0", "simplifier=1"]), "algorithm=%d" % r.randrange(2), "representation=%d" % r.randrange(3)]
            if r.random() < 0.5:
                pre.append("ensureray=1")
            fixed_hist[len(lps)] = pre + ["CHB:%d:%s:%s" % (j, tk(lo_, True), tk(up_, False)), "OPTQ", "CHB:%d:%s:%s" % (j, lpgen.qs(v), lpgen.qs(v)), "OPT",
                                          "CLB", "OPT"]
            lps.append(q)
    cfgs = {}
    for k in range(len(lps)):
        cfgs[k] = [{}, {"ensureray": 1}]
        for _ in range(ncfg):
            cfgs[k].append(lpgen.rand_config(r, {"ensureray": [0, 1]}))
    for k, c in enumerate(corpus):
        cfgs[k] = [{}] + c[1]
    # histories: several solves of one LP on one object with parameter changes in between; every answer is judged as for a
    # single solve and every optimize() call's control trace is replayed through the Coq model of the solve driver
    hists = {k: ([] if ck.args.replay else [sc.gen_history(r) for _ in range(2 if k % 2 == 0 else 1)]) for k in range(len(lps))}
    for k_, h_ in fixed_hist.items():
        hists[k_] = [h_]
    if ck.args.replay and (rp.get("history") or rp.get("config", {}).get("history")):
        hh = rp.get("history") or rp["config"]["history"]
        hists[0] = [hh.split() if isinstance(hh, str) else hh]
    classes, exs, runs, ans, crashes, skipped = sc.run_in_chunks(ck, exe, model, lps, cfgs, hists=hists)
    sc.driver_verdicts(ck, lps, cfgs, runs, ck.hruns, ans, skipped, hists)
    if not ck.args.replay:
        # presolve-rich LPs (generator of C08): only their driver traces are used here, their answers are C08's business
        import C08 as c08gen
        plps = [c08gen.gen_presolve_lp(r, 10)[0] for _ in range(60 if ck.tier == "quick" else 600)]
        sc.driver_only(ck, exe, model, plps, {k: [{}, {"scaler": r.choice([1, 3, 5]), "persistentscaling": 1}, {"ensureray": 1},
                                                  lpgen.rand_config(r, {"ensureray": [0, 1]})] for k in range(len(plps))})
    for (k, c, rc) in crashes:
        if isinstance(c, str):
            hs = hists[k][int(c[1:])]
            ck.violation("crash:history", "the solver crashed (rc=%d) on LP %d in the solve history %s" % (rc, k, " ".join(hs)),
                         {"lp": lps[k].text("replay"), "lp_format": lps[k].lp_format(), "history": hs, "kind": "crash"})
            continue
        ck.violation("crash", "the solver crashed (rc=%d) on LP %d under %s" % (rc, k, cfgs[k][c]),
                     {"lp": lps[k].text("replay"), "lp_format": lps[k].lp_format(), "config": cfgs[k][c], "kind": "crash"})
    def judge(k, p, cfg, ru, rid):
        cl = classes[k]
        st = ru["status"]
        ck.count("status:" + st)
        ck.count("family:" + p.family)
        ck.evaluated((p.key(), lpgen.cfg_text(cfg), rid if rid.startswith("h") else ""), nontrivial=(p.n + p.m >= 3))
        tags, steps = sc.presolve_tags(ru, cfg)
        cname = cl[0] if cl else None
        # verdicts must not contradict the certified class
        if st == "INFEASIBLE" and cname in ("optimal", "unbounded"):
            ck.violation("infeasible-for-feasible-lp", "INFEASIBLE returned for an LP with a certified feasible point (class %s) under %s" % (cname, cfg),
                         sc.replay_of(p, cfg, ru, {"certified_class": cname, "exact": exs[k]}))
        if st in ("UNBOUNDED", "INForUNBD") and cname == "optimal":
            ck.violation("unbounded-for-bounded-lp", "%s returned for an LP with certified finite optimum %s under %s" % (st, float(cl[1]), cfg),
                         sc.replay_of(p, cfg, ru, {"certified_optimum": lpgen.qs(cl[1])}))
        if st == "OPTIMAL" and cname in ("infeasible", "unbounded"):
            ck.violation("optimal-for-%s-lp:%s" % (cname, ("polish" if "polish" in tags else ("sumstarter" if cfg.get("starter") == 2 else "plain"))),
                         "OPTIMAL returned for an LP certified %s under %s" % (cname, cfg),
                         sc.replay_of(p, cfg, ru, {"certified_class": cname, "exact": exs[k]}))
        # every offered vector must be a valid proof
        if "farkas" in ru:
            ck.count("farkas-offered")
            if ans[k].get("f" + rid) != "true":
                neg = ans[k].get("fn" + rid) == "true"
                # where the vector was computed: representation and algorithm type the solver ended in
                site = "rep%s:alg%s" % (ru.get("rep", "?"), ru.get("alg", "?"))
                ck.violation("farkas-%s:%s%s" % ("negated" if neg else "rejected", site, ":polish" if "polish" in tags else ""),
                             "the Farkas vector offered with status %s is not a proof of infeasibility of the user's LP (rejected by check_farkas on the 1e6-box) under %s" % (st, cfg),
                             sc.replay_of(p, cfg, ru, {"theorem": "Cert_Proofs.farkas_box_sound"}))
        if "ray" in ru:
            ck.count("ray-offered")
            if ans[k].get("r" + rid) != "true":
                ck.violation("ray-rejected:%s:rep%s" % ("+".join(tags) or "plain", ru.get("rep", "?")),
                             "the primal ray offered with status %s violates a finite bound/side direction or does not improve the objective (rejected by check_ray_tol) under %s" % (st, cfg),
                             sc.replay_of(p, cfg, ru, {"theorem": "Cert_Proofs.ray_tol_sound"}))
        # with ENSURERAY the proof must be offered
        if cfg.get("ensureray", 0) == 1:
            if st == "INFEASIBLE" and "farkas" not in ru:
                ck.violation("ensureray-no-farkas", "INFEASIBLE with ENSURERAY but no Farkas vector is offered under %s" % cfg, sc.replay_of(p, cfg, ru))
            if st == "UNBOUNDED" and "ray" not in ru:
                ck.violation("ensureray-no-ray", "UNBOUNDED with ENSURERAY but no primal ray is offered under %s" % cfg, sc.replay_of(p, cfg, ru))

    for k, p in enumerate(lps):
        if k in skipped:
            continue
        cl = classes[k]
        for ru in runs[k]:
            c = int(ru["_id"].split("!")[0])
            judge(k, p, cfgs[k][c], ru, str(c))
        for ru in ck.hruns.get(k, []):
            rid = ru["_id"].split("!")[0]
            if ru["status"] == "EXCEPTION":
                continue
            h, n = rid[1:].split(".")
            cfg = sc.hist_cfg(hists[k][int(h)], int(n))
            cfg["history"] = " ".join(hists[k][int(h)])
            ck.count("history-solve")
            judge(k, p, cfg, ru, rid)
        if k < 2:
            ck.sample({"lp": p.text(str(k)), "class": (cl[0] if cl else None), "configs": cfgs[k][:2],
                       "statuses": [ru["status"] for ru in runs[k]]})
    ck.cov["tolerances"] = {"farkas_box_M": float(sc.BOX_M), "ray_direction_tolerance_after_max_norm_scaling": float(sc.RAY_E)}
    ck.cov["rule"] = ("LPs constructed infeasible (contradicting row pairs / row sums / row vs bounds, margin >= 1), unbounded (feasible point + improving free "
                      "direction), random small-integer and feasible-bounded, sizes up to %d, each under default, ENSURERAY and %d sampled configurations "
                      "(ensure-ray on/off, simplifier on/off, all algorithmic parameters); a case is (LP, configuration), non-trivial when rows+columns >= 3" % (nmax, ncfg))
    ck.cov["trusted_base"] = ["Coq 8.16.1 kernel; theorems of Properties_C02.v closed under the global context",
                              "extraction (ExtrOcamlBasic) + extract/C01/driver.ml", "harness/C01.cpp",
                              "SoPlex's exact mode as UNTRUSTED producer of classification certificates (accepted only through the proved checkers)",
                              "convention: a Farkas vector y is read with y_i > 0 weighting the left-hand side and y_i < 0 the right-hand side of row i, for both "
                              "objective senses (this is what the floating-point path returns); vectors are scaled to max-norm 1"]
    ck.assumptions = ["floating-point Farkas vectors are judged on the box |x_j| <= 1e6 for unbounded columns (theorem C02_farkas_on_box); the constructed LPs have "
                      "feasible regions (when non-empty) far inside that box",
                      "INForUNBD / UNBOUNDED are accepted for LPs certified infeasible or unbounded, as the property states"]
    ck.finish()


if __name__ == "__main__":
    main()
