#!/usr/bin/env python3
"""C13 - file readers survive arbitrary input without memory errors and fail cleanly.

Level "other/partial":
  * proved (Coq, Properties_C13): control logic of the three hand-written lexers (settings line cursor, MPSInput::readLine
    with the getline flag semantics, the LP-format copy loops and keyword matcher), incl. refutation witnesses;
  * tie: the extracted models against MPSInput::readLine (field level) and LPFreadValue / LPFreadColName / LPFhasRowName /
    LPFhasKeyword (token level) on generated lines (the settings-line tokeniser is tied by C15);
  * explored: readFile (LP/MPS x real/rational), readBasisFile, loadSettingsFile, parseSettingsString on shipped,
    grammar-generated and mutated files, each in its own process with a 10 s alarm, followed by a fixed post-read API
    sequence; plain g++ build always, clang++ AddressSanitizer+UBSan+LeakSanitizer build in thorough (and in quick when the
    binary is cached).  Findings are de-duplicated by (kind, reader, top SoPlex frame).
"""
import hashlib
import json
import os
import re
import shutil
import subprocess
import sys
import threading
import time

sys.path.insert(0, os.path.dirname(os.path.dirname(os.path.abspath(__file__))))
import vlib

ASAN = dict(name="C13", cxx="clang++", extra=["-fsanitize=address,undefined", "-g", "-fno-sanitize-recover=undefined",
                                               "-fno-omit-frame-pointer"], tag="lib-asan")
PLAIN = dict(name="C13", extra=["-g", "-fstack-protector-all"])
HARNESSES = [PLAIN, ASAN]
MODEL = True
TIMEOUT = 10

INST = os.path.join(vlib.REPO, "check", "instances")
SETDIR = os.path.join(vlib.REPO, "settings")
GOOD = os.path.join(INST, "afiro.mps")
# 6 x 2: min -x0 - x1, rows a.x <= rhs, x >= 0, optimum -4
TALL_MPS = b"""NAME          tall
ROWS
 N  obj
 L  C0
 L  C1
 L  C2
 L  C3
 L  C4
 L  C5
COLUMNS
    x0        obj       -1.0   C0        1.0
    x0        C1        1.0   C3        1.0
    x0        C4        -1.0   C5        1.0
    x1        obj       -1.0   C0        1.0
    x1        C2        1.0   C3        -1.0
    x1        C4        1.0   C5        2.0
RHS
    rhs       C0        4.0   C1        3.0
    rhs       C2        3.0   C3        2.0
    rhs       C4        2.0   C5        7.0
ENDATA
"""


def hexs(b):
    return b.hex() if b else "e"


class KeepAlive:
    """other agents' builds garbage-collect old tree directories; keep ours fresh while we compile / run"""

    def __enter__(self):
        self.stop = False

        def loop():
            while not self.stop:
                try:
                    os.utime(vlib.tree_dir(), None)
                except OSError:
                    pass
                time.sleep(10)
        self.t = threading.Thread(target=loop, daemon=True)
        self.t.start()
        return self

    def __exit__(self, *a):
        self.stop = True


def asan_cached():
    """path of the sanitizer binary if it is already built for this tree state (same key as vlib.build_harness)"""
    hh = hashlib.sha256()
    for s in [os.path.join(vlib.ROOT, "harness", "C13.cpp"), os.path.join(vlib.ROOT, "harness", "common.hpp")]:
        hh.update(open(s, "rb").read())
    hh.update(" ".join([ASAN["cxx"], "-O1"] + list(ASAN["extra"])).encode())
    exe = os.path.join(vlib.tree_dir(), "h-C13-%s" % hh.hexdigest()[:12], "C13")
    return exe if os.path.exists(exe) else None


# ----------------------------------------------------------------------------------------------------------------------
# generators
# ----------------------------------------------------------------------------------------------------------------------

NUMS = [b"1", b"0", b"-1", b"2.5", b"-0.5", b"1e3", b"1E-3", b".5", b"5.", b"+4", b"100", b"3.25e+2", b"7", b"12", b"-3"]
WEIRD_NUMS = [b"1e999999", b"-1e999999", b"1e-999999", b"3/0", b"0/0", b"1/3", b"-7/2", b"inf", b"-inf", b"+inf", b"Inf", b"-Inf",
              b"infinity", b"+Infinity", b"nan", b"NaN", b"-nan", b"0x1p3", b"1e", b"1e+", b".", b"-", b"+", b"1.2.3", b"--1", b"1d5",
              b"1" * 300, b"1" * 9000, b"0." + b"3" * 600, b"1e" + b"9" * 300, b"1/" + b"7" * 9000, b"1e5/3", b"1.5/2", b"2/", b"99999999999999999999999999"]
KEYWORDS = [b"max[imize]", b"min[imize]", b"s[ubject][   ]t[o]", b"s[uch][    ]t[hat]", b"s[.][    ]t[.]", b"lazy con[straints]",
            b"bound[s]", b"bin[ary]", b"bin[aries]", b"gen[erals]", b"int[egers]", b"end", b"inf[inity]"]


def name_of(r, k):
    return r.choice([b"x", b"y", b"z", b"c", b"R", b"COL", b"v_"]) + str(k).encode()


def long_name(r, n):
    return (b"N" + bytes(r.choice(b"abcdefghijklmnopqrstuvwxyz_0123456789") for _ in range(n - 1)))[:n]


def gen_lp(r):
    n = r.randint(1, 6)
    m = r.randint(0, 5)
    cols = [b"x%d" % j for j in range(n)]
    out = []
    out.append(r.choice([b"Maximize", b"Minimize", b"max", b"min", b"MAXIMIZE", b"minimize", b"\\ comment\nMaximize"]))

    def lin():
        ts = []
        for j in r.sample(range(n), r.randint(1, n)):
            c = r.choice(NUMS + [b"", b"+", b"-", b"+ 2", b"- 3"])
            ts.append((c + b" " if c else b"") + cols[j])
        s = ts[0]
        for t in ts[1:]:
            s += (b" " if t[:1] in b"+-" else b" + ") + t
        return s
    out.append(b" " + r.choice([b"obj: ", b"", b"cost:", b"o : "]) + lin())
    out.append(r.choice([b"Subject To", b"st", b"s.t.", b"such that", b"ST", b"subject to"]))
    for i in range(m):
        nm = r.choice([b"c%d: " % i, b"", b"row%d : " % i, b"r_%d:" % i])
        sense = r.choice([b"<=", b">=", b"=", b"<", b">", b"=<", b"=>", b"=="])
        rhs = r.choice(NUMS + [b"-inf", b"+inf", b"1e30"])
        if r.random() < 0.15:
            out.append(b" " + nm + lin())
            out.append(b"   " + sense + b" " + rhs)
        else:
            out.append(b" " + nm + lin() + b" " + sense + b" " + rhs)
    if r.random() < 0.7:
        out.append(r.choice([b"Bounds", b"bounds", b"BOUND"]))
        for j in range(n):
            k = r.randrange(9)
            c = cols[j]
            v, w = r.choice(NUMS), r.choice(NUMS)
            if k == 0:
                out.append(b" %s <= %s <= %s" % (v, c, w))
            elif k == 1:
                out.append(b" %s free" % c)
            elif k == 2:
                out.append(b" %s >= %s" % (c, v))
            elif k == 3:
                out.append(b" %s <= %s" % (c, v))
            elif k == 4:
                out.append(b" %s = %s" % (c, v))
            elif k == 5:
                out.append(b" -inf <= %s <= +inf" % c)
            elif k == 6:
                out.append(b" %s >= -Inf" % c)
            elif k == 7:
                out.append(b" -infinity <= %s" % c)
    if r.random() < 0.3:
        out.append(r.choice([b"General", b"Generals", b"Integers", b"int", b"Binary", b"Binaries", b"bin"]))
        out.append(b" " + b" ".join(r.sample(cols, r.randint(1, n))))
    out.append(r.choice([b"End", b"end", b"END"]))
    return b"\n".join(out) + b"\n"


def mps_line(fixed, f1, f2, f3=b"", v1=b"", f4=b"", v2=b""):
    if fixed:
        s = b" %-2s %-8s  %-8s  %12s   %-8s  %12s" % (f1, f2, f3, v1, f4, v2)
        return s.rstrip()
    parts = [p for p in (f1, f2, f3, v1, f4, v2) if p]
    return b"    " + b"  ".join(parts)


def gen_mps(r, fixed=None):
    if fixed is None:
        fixed = r.random() < 0.5
    n = r.randint(1, 6)
    m = r.randint(1, 5)
    rows = [b"R%d" % i for i in range(m)]
    cols = [b"X%d" % j for j in range(n)]
    types = [r.choice(b"LGE") for _ in range(m)]
    out = [b"NAME          " + r.choice([b"TEST", b"", b"a b", b"P1"])]
    if r.random() < 0.25:
        out += [r.choice([b"OBJSENSE", b"OBJSENSE"]), r.choice([b"    MAX", b"    MIN", b"  MAXIMIZE"])]
    if r.random() < 0.1:
        out += [b"OBJNAME", b"    obj"]
    out.append(b"ROWS")
    out.append(b" N  obj")
    for i in range(m):
        out.append(b" %c  %s" % (types[i], rows[i]))
    if r.random() < 0.1:
        out.append(b" N  free2")
    out.append(b"COLUMNS")
    for j in range(n):
        if r.random() < 0.15:
            out.append(mps_line(fixed, b"", b"MARKER", b"'MARKER'", b"", b"'INTORG'"))
        ents = [(b"obj", r.choice(NUMS))] + [(rows[i], r.choice(NUMS)) for i in r.sample(range(m), r.randint(0, m))]
        k = 0
        while k < len(ents):
            if k + 1 < len(ents) and r.random() < 0.6:
                out.append(mps_line(fixed, b"", cols[j], ents[k][0], ents[k][1], ents[k + 1][0], ents[k + 1][1]))
                k += 2
            else:
                out.append(mps_line(fixed, b"", cols[j], ents[k][0], ents[k][1]))
                k += 1
        if r.random() < 0.1:
            out.append(mps_line(fixed, b"", b"MARKER", b"'MARKER'", b"", b"'INTEND'"))
    out.append(b"RHS")
    for i in range(m):
        if r.random() < 0.7:
            out.append(mps_line(fixed, b"", r.choice([b"RHS", b"RHS", b"B"]), rows[i], r.choice(NUMS)))
    if r.random() < 0.5:
        out.append(b"RANGES")
        for i in range(m):
            if r.random() < 0.5:
                out.append(mps_line(fixed, b"", b"RNG", rows[i], r.choice(NUMS + [b"-4", b"-2.5", b"0"])))
    if r.random() < 0.7:
        out.append(b"BOUNDS")
        for j in range(n):
            t = r.choice([b"UP", b"LO", b"FX", b"FR", b"MI", b"PL", b"BV", b"LI", b"UI", b"XX"])
            withval = r.random() < (0.9 if t in (b"UP", b"LO", b"FX", b"LI", b"UI") else 0.3)
            if r.random() < 0.1:
                withval = not withval
            out.append(mps_line(fixed, t, b"BND", cols[j], r.choice(NUMS + [b"-1", b"1e30", b"-1e30", b"Inf", b"-Inf"]) if withval else b""))
    out.append(b"ENDATA")
    return b"\n".join(out) + b"\n"


def gen_bas(r, rn, cn):
    out = [b"NAME  " + r.choice([b"afiro", b"x", b""])]
    rows = list(rn)
    r.shuffle(rows)
    for c in r.sample(cn, r.randint(0, min(len(cn), 12))):
        k = r.randrange(6)
        if k <= 1 and rows:
            # the writer's layout (column name padded to eight characters); short lines are taken as fixed format by the reader
            out.append((b" %s %-8s  %s" if r.random() < 0.8 else b" %s %s  %s") % (r.choice([b"XU", b"XL"]), c, rows.pop()))
        elif k == 2:
            out.append(b" UL %s" % c)
        elif k == 3:
            out.append(b" LL %s" % c)
        elif k == 4:
            out.append(b" %s %s" % (r.choice([b"XU", b"XL", b"BS", b"ZZ", b"X"]), r.choice([c, b"nosuch"])))
        else:
            out.append(b" XU %s  %s" % (c, r.choice([b"nosuch", rn[0], b""])))
    if r.random() < 0.85:
        out.append(b"ENDATA")
    return b"\n".join(out) + b"\n"


def setting_names():
    names = {"bool": set(), "int": set(), "real": set()}
    for f in sorted(os.listdir(SETDIR)):
        for l in open(os.path.join(SETDIR, f), errors="replace"):
            m = re.match(r"\s*(bool|int|real)\s*:\s*(\S+)\s*=", l)
            if m:
                names[m.group(1)].add(m.group(2))
    return {k: sorted(v) for k, v in names.items()}


def gen_set(r, names):
    out = []
    for _ in range(r.randint(1, 12)):
        k = r.randrange(12)
        if k <= 2 and names["bool"]:
            out.append("bool:%s = %s" % (r.choice(names["bool"]), r.choice(["true", "false", "1", "0", "T", "x", "2"])))
        elif k <= 5 and names["int"]:
            nm = r.choice([x for x in names["int"] if x not in ("verbosity",)] or names["int"])
            out.append("int:%s = %s" % (nm, r.choice(["0", "1", "2", "3", "-1", "5", "abc", "99999999999", "2147483648", "1e3", ""])))
        elif k <= 8 and names["real"]:
            out.append("real:%s = %s" % (r.choice(names["real"]), r.choice(["1e-6", "0", "1", "1e-9", "nan", "inf", "-1", "1e999", "1e-320",
                                                                                "abc", "1e100", "0.5", ""])))
        elif k == 9:
            out.append("uint:random_seed = %s" % r.choice(["0", "42", "4294967296", "-1", "x"]))
        elif k == 10:
            out.append(r.choice(["# comment", "", "   ", "bool", "int:", "real:feastol", "real:feastol =", "foo:bar = 1", "int : iterlimit : 3",
                                 "bool:lifting = true extra", "\tint:iterlimit\t=\t7\t# c", "int:iterlimit=1#", "=", ":", "x" * 498, "y" * 499,
                                 "int:iterlimit = " + "1" * 600, "real:" + "n" * 300 + " = 1", "int:iterlimit = 5\r"]))
        else:
            out.append("int:iterlimit = %d" % r.randint(-2, 100))
    return ("\n".join(out) + r.choice(["\n", "", "\n\n"])).encode("latin-1")



# assignments whose value differs from the default, so that a line that wrongly takes effect is visible
SET_ASSIGN = [("int", "iterlimit", ["0", "1", "7"]), ("int", "simplifier", ["0"]), ("int", "scaler", ["0", "1"]), ("int", "pricer", ["1", "3"]),
              ("int", "representation", ["1", "2"]), ("bool", "lifting", ["true", "1"]), ("bool", "rowboundflips", ["true"]),
              ("bool", "iterative_refinement", ["false", "0"]), ("real", "timelimit", ["5", "0.5"]), ("real", "feastol", ["1e-3"]),
              ("real", "opttol", ["1e-2"]), ("uint", "random_seed", ["42", "7"])]


def trunc_forms(ty, name, val, layout=0):
    """the line 'ty:name = val' cut after the type, the ':', the name, the '=' (each with and without the blank that may
    follow): every form must be rejected and must change nothing.  Returns [(form name, truncated line, rest of the full line)]"""
    if layout == 0:
        parts = [ty, ":", name, " ", "=", " ", val]
    elif layout == 1:
        parts = [ty, ":", name, "=", val]
    else:
        parts = [ty, " ", ":", " ", name, "\t", "=", "\t", val]
    full = "".join(parts)
    out = []
    pos = 0
    for k, t in enumerate(parts[:-1]):
        pos += len(t)
        what = {ty: "type", ":": "colon", name: "name", "=": "equals"}.get(t, "blank")
        out.append(("after-%s%d" % (what, k), full[:pos], full[pos:]))
    return out, full


def settings_trunc_file(r, ty, name, val, form, layout, style):
    """a settings file in which a truncated line follows a longer line whose tail, seen through the truncated line's
    terminator, completes the assignment"""
    forms, full = trunc_forms(ty, name, val, layout)
    fname, cut, rest = forms[form % len(forms)]
    n = len(cut)
    if style == "comment":
        prev = "#" + "c" * n + rest                      # prev[n+1:] == rest
    elif style == "assign":
        # a valid assignment to another parameter, padded so that its tail lines up
        other = "int:verbosity" if name != "verbosity" else "int:displayfreq"
        if len(other) <= n and rest.lstrip(" \t").startswith("=") :
            prev = other + " " * (n + 1 - len(other)) + rest.lstrip(" \t")
        else:
            prev = "#" + "c" * n + rest
    elif style == "nul":
        # the rest behind a NUL byte on the same line
        return ("int:iterlimit = 3\n" + cut + "\x00" + rest + "\n").encode("latin-1"), fname + ":nul"
    elif style == "long":
        prev = "#" + "x" * 498
    else:
        prev = "# short"
    lines = ["int:iterlimit = 3" if name != "iterlimit" else "int:displayfreq = 3", prev, cut]
    if r.random() < 0.5:
        lines.append(r.choice(["# end", "", "bool:lifting = false" if name != "lifting" else "# x"]))
    eol = r.choice(["\n", "\n", "\r\n"])
    data = eol.join(lines) + r.choice([eol, "", eol])
    return data.encode("latin-1"), fname + ":" + style + (":crlf" if eol == "\r\n" else "")


def settings_boundary_files():
    """every truncation form at line lengths 497..502 (the line buffer has 500 bytes: 499 characters + NUL)"""
    out = []
    forms, full = trunc_forms("int", "iterlimit", "0", 0)
    for L in (497, 498, 499, 500, 501, 502):
        for fname, cut, rest in forms + [("full", full, "")]:
            pad = L - len(cut)
            out.append(("bl-%d-%s.set" % (L, fname), ("int:iterlimit = 3\n" + " " * pad + cut + "\n" + "int:simplifier = 0\n").encode()))
        out.append(("bl-%d-name.set" % L, ("int:iterlimit = 3\n" + "int:" + "a" * (L - 4) + "\n").encode()))
        out.append(("bl-%d-type.set" % L, ("t" * L + "\nint:iterlimit = 3\n").encode()))
        out.append(("bl-%d-value.set" % L, ("int:iterlimit = " + "1" * (L - 16)).encode()))
        out.append(("bl-%d-noeol.set" % L, ("# c\n" + "int:" + "b" * (L - 4)).encode()))
    return out


def settings_witnesses():
    out = [("t-verbosity-iterlimit.set", b"int:verbosity = 0\nint:iterlimit\n"),
           ("t-comment-simplifier.set", b"#23456789012345= 0\nint:simplifier\n"),
           ("t-nul-iterlimit.set", b"int:iterlimit\x00= 0\n"),
           ("t-type-only.set", b"#cc:iterlimit = 0\nint\n"),
           ("t-equals-only.set", b"#ccccccccccccccc 0\nint:iterlimit =\n"),
           ("t-noeol.set", b"bool:lifting                 = true\nbool:rowboundflips"),
           ("t-crlf.set", b"int:verbosity = 0\r\nint:iterlimit\r\n")]
    return out


DICT = [b"]", b"[", b":", b"$", b"\\", b"'MARKER'", b"'INTORG'", b"'INTEND'", b"\x00", b"\t", b"\r", b"*", b" free", b"<=", b">=", b"=", b"+", b"-",
        b"ENDATA", b"RHS", b"ROWS", b"COLUMNS", b"BOUNDS", b"RANGES", b"NAME", b"End", b"st", b"maximize]", b"subject]", b"\xff", b"\x80", b"e",
        b"inf", b"-inf", b"bounds", b"bounds]", b"generals]", b"binary]", b"end]", b"min[", b"/", b"1e", b"<", b">"]

SECTION_RE = re.compile(rb"(?mi)^(NAME|ROWS|COLUMNS|RHS|RANGES|BOUNDS|ENDATA|OBJSENSE|OBJSEN|max\w*|min\w*|subject to|st|s\.t\.|such that|bounds?|generals?|integers?|binar\w*|end)\b")
NUM_RE = re.compile(rb"(?<![A-Za-z_0-9.])[-+]?(\d+\.?\d*|\.\d+)([eE][-+]?\d+)?(?![A-Za-z_])")
NAME_RE = re.compile(rb"(?<![A-Za-z_0-9'])[A-Za-z_][A-Za-z_0-9]*")


def mutate(r, data, kind=None):
    """one structured mutation; returns (bytes, family)"""
    lines = data.split(b"\n")
    fams = ["trunc-section", "trunc-random", "drop-section", "dup-line", "nul", "weird-num", "long-num", "long-name", "long-line",
            "byte", "dict", "swap-lines", "crlf", "tabs", "no-eol", "drop-line", "dup-name", "dollar", "neg-range", "empty-field"]
    fam = kind or r.choice(fams)
    secs = [m.start() for m in SECTION_RE.finditer(data)]
    if fam == "trunc-section" and secs:
        p = r.choice(secs)
        return data[:p + r.choice([0, 0, 3, 6])], fam
    if fam == "trunc-random" and data:
        return data[:r.randrange(len(data))], fam
    if fam == "drop-section" and len(secs) >= 2:
        i = r.randrange(len(secs) - 1)
        return data[:secs[i]] + data[secs[i + 1]:], fam
    if fam == "dup-line" and lines:
        i = r.randrange(len(lines))
        return b"\n".join(lines[:i + 1] + [lines[i]] + lines[i + 1:]), fam
    if fam == "drop-line" and len(lines) > 1:
        i = r.randrange(len(lines))
        return b"\n".join(lines[:i] + lines[i + 1:]), fam
    if fam == "swap-lines" and len(lines) > 2:
        i, j = r.randrange(len(lines)), r.randrange(len(lines))
        lines[i], lines[j] = lines[j], lines[i]
        return b"\n".join(lines), fam
    if fam == "nul":
        p = r.randrange(len(data) + 1)
        return data[:p] + b"\x00" * r.choice([1, 1, 3]) + data[p + r.choice([0, 1]):], fam
    if fam in ("weird-num", "long-num"):
        ms = list(NUM_RE.finditer(data))
        if ms:
            m = r.choice(ms)
            rep = r.choice(WEIRD_NUMS) if fam == "weird-num" else r.choice([b"1" * 300, b"1" * 600, b"1" * 9000, b"0." + b"5" * 9000,
                                                                             b"1e" + b"0" * 8200 + b"1", b"-" + b"9" * 8191, b"9" * 8192])
            return data[:m.start()] + rep + data[m.end():], fam
    if fam in ("long-name", "dup-name"):
        ms = [m for m in NAME_RE.finditer(data) if m.group(0).upper() not in (b"NAME", b"ROWS", b"COLUMNS", b"RHS", b"RANGES", b"BOUNDS", b"ENDATA",
                                                                              b"E", b"L", b"G", b"N", b"UP", b"LO", b"FX", b"FR", b"MI", b"PL", b"BV")]
        if ms:
            m = r.choice(ms)
            if fam == "long-name":
                rep = long_name(r, r.choice([9, 40, 90, 300, 9000, 8191, 8192, 255, 256]))
                if r.random() < 0.5:      # every occurrence, so that the file stays coherent
                    return re.sub(rb"(?<![A-Za-z_0-9])" + re.escape(m.group(0)) + rb"(?![A-Za-z_0-9])", rep, data), fam
                return data[:m.start()] + rep + data[m.end():], fam
            m2 = r.choice(ms)
            return data[:m.start()] + m2.group(0) + data[m.end():], fam
    if fam == "long-line" and lines:
        i = r.randrange(len(lines))
        n = r.choice([300, 600, 9000, 81, 255, 256, 257, 8191, 8192, 16400])
        pad = r.choice([b" ", b"x", b" + 1 x0", b" 1", b"\t"])
        lines[i] = (lines[i] + pad * n)[:max(n, len(lines[i]))]
        return b"\n".join(lines), fam
    if fam == "byte" and data:
        b = bytearray(data)
        for _ in range(r.randint(1, 4)):
            p = r.randrange(len(b))
            k = r.randrange(3)
            if k == 0:
                b[p] = r.randrange(256)
            elif k == 1:
                del b[p]
                if not b:
                    break
            else:
                b.insert(p, r.choice(b" \t\n:=<>+-.$*'[]\\/eE0123456789xN"))
        return bytes(b), fam
    if fam == "dict":
        p = r.randrange(len(data) + 1)
        if r.random() < 0.5 and lines:
            # at a line start / end
            i = r.randrange(len(lines))
            t = r.choice(DICT)
            lines[i] = (t + lines[i]) if r.random() < 0.5 else (lines[i] + t)
            return b"\n".join(lines), fam
        return data[:p] + r.choice(DICT) + data[p:], fam
    if fam == "crlf":
        return data.replace(b"\n", b"\r\n"), fam
    if fam == "tabs":
        return data.replace(b"  ", b"\t"), fam
    if fam == "no-eol":
        return data.rstrip(b"\n"), fam
    if fam == "dollar" and lines:
        i = r.randrange(len(lines))
        lines.insert(i, r.choice([b" " * 14 + b"$ comment", b" " * 39 + b"$ c", b"    X1        $", b" $", b"              $", b" UP           $ x"]))
        return b"\n".join(lines), fam
    if fam == "neg-range":
        ms = list(re.finditer(rb"(?m)^RANGES\n", data))
        if ms:
            p = ms[0].end()
            return data[:p] + mps_line(True, b"", b"RNG", b"R0", b"-7") + b"\n" + mps_line(False, b"", b"RNG", b"R1", b"-1e30") + b"\n" + data[p:], fam
    if fam == "empty-field" and lines:
        i = r.randrange(len(lines))
        t = lines[i].split()
        if len(t) > 1:
            del t[r.randrange(len(t))]
            lines[i] = b" " + b" ".join(t)
            return b"\n".join(lines), fam
    # fall back
    p = r.randrange(len(data) + 1)
    return data[:p] + r.choice(DICT) + data[p:], "dict"


def hand_made():
    """(name, test kind, bytes): witnesses of the Coq refutations and of the defects seen while reading the readers"""
    fx = lambda *a: mps_line(True, *a) + b"\n"
    mps_head = b"NAME          T\nROWS\n N  obj\n L  r1\nCOLUMNS\n" + fx(b"", b"x", b"obj", b"1", b"r1", b"1") + b"RHS\n" + fx(b"", b"RHS", b"r1", b"4")
    out = [
        ("w-empty.mps", "model", b"NAME\n"),
        ("w-trunc.mps", "model", mps_head),
        ("w-trunc-comment.mps", "model", mps_head + b"* the rest is missing\n\n"),
        ("w-bounds-null.mps", "model", mps_head + b"BOUNDS\n              $ comment\nENDATA\n"),
        ("w-longnum.lp", "model", b"max\n x\nst\n c: " + b"1" * 8192 + b" x <= 1\nend\n"),
        ("w-longname.lp", "model", b"max\n x\nst\n c: " + b"y" * 8192 + b" <= 1\nend\n"),
        ("w-longrow.lp", "model", b"max\n x\nst\n " + b"r" * 8192 + b": x <= 1\nend\n"),
        ("w-keyword.lp", "model", b"maximize]\n x\nst\n c: x <= 1\nend\n"),
        ("w-tworow.lp", "model", b"max\n x\nst\n c1: x\n c2: + y <= 3\nend\n"),
        ("w-duprow.lp", "model", b"max\n x\nst\n c1: x <= 1\n c1: x + y <= 3\nend\n"),
        ("w-noend.lp", "model", b"max\n x\nst\n c1: x <= 1\n"),
        ("w-empty.lp", "model", b""),
        ("w-nul.lp", "model", b"max\n x\x00y\nst\n c1: x <= 1\nend\n"),
        ("w-8191.lp", "model", b"max\n x\nst\n c: " + b"1" * 8191 + b" x <= 1\nend\n"),
        ("w-line8191.lp", "model", b"max\n x\nst\n c: x" + b" " * 8170 + b"<= 1\nend\n"),
        ("w-threezero.lp", "model", b"max\n 3/0 x\nst\n c: 1/0 x <= 0/0\nend\n"),
        ("w-hugeexp.lp", "model", b"max\n 1e999999 x\nst\n c: 1e-999999 x <= -1e999999\nbounds\n x <= 1e999999\nend\n"),
        ("w-line256.mps", "model", mps_head.replace(b"ROWS\n", b"ROWS" + b" " * 300 + b"\n")),
        ("w-nan.mps", "model", mps_head.replace(b"   4", b" nan") + b"ENDATA\n"),
        ("w-trunc.bas", "bas", b"NAME  afiro\n XU X01       R09\n UL X02\n"),
        ("w-unknown.bas", "bas", b"NAME  afiro\n XU X01       NOSUCH\nENDATA\n"),
        ("w-nofield.bas", "bas", b"NAME  afiro\n XU X01\n XL\nENDATA\n"),
        ("w-long.set", "set", b"int:iterlimit = 5\n" + b"x" * 600 + b"\nint:iterlimit = 7\n"),
        ("w-499.set", "set", b"y" * 499 + b"\n"),
        ("w-498.set", "set", b"bool:lifting = " + b"t" * 483 + b"\n"),
        ("w-ends.set", "set", b"bool\nint:iterlimit\nreal:feastol =\nbool"),
        ("w-nan.set", "set", b"real:feastol = nan\nreal:timelimit = nan\nint:iterlimit = abc\nuint:random_seed = -5\n"),
    ]
    return out


# ----------------------------------------------------------------------------------------------------------------------
# ties
# ----------------------------------------------------------------------------------------------------------------------

def gen_mps_lines(r):
    """content for the readLine tie: a few lines in every layout the splitter distinguishes"""
    def field(n=8):
        k = r.randrange(10)
        if k == 0:
            return b"'MARKER'"
        if k == 1:
            return r.choice([b"'INTORG'", b"'INTEND'", b"'INTXXX'"])
        if k == 2:
            return b"$" + r.choice([b"", b"c"])
        if k == 3:
            return r.choice(NUMS)
        if k == 4:
            return r.choice([b"A B", b"A  B", b"X Y Z"])       # embedded blanks (fixed format patches them)
        return bytes(r.choice(b"ABCXYZabc_019.-") for _ in range(r.randint(1, n)))
    lines = []
    for _ in range(r.randint(0, 6)):
        k = r.randrange(19)
        if k == 16:
            # few long fields: the fifth one lies behind column 80
            l = b" " + b" ".join(bytes(r.choice(b"ABCxyz_01") for _ in range(r.randint(15, 60))) for _ in range(r.randint(2, 6)))
        elif k == 17:
            # a field that starts before column 80 and ends behind it
            l = b" " * r.randint(1, 70) + b"F" * r.randint(5, 100) + b" " + field() + b"  " + field()
        elif k == 18:
            l = mps_line(True, b"", field(), field(), r.choice(NUMS)).ljust(r.choice([79, 80, 81, 90])) + b" " + field() + b" " + r.choice(NUMS)
        elif k == 0:
            l = r.choice([b"", b" ", b"   \t ", b"\r", b"\t"])
        elif k == 1:
            l = r.choice([b"*", b"* comment", b"*ROWS", b" * not a comment"])
        elif k == 2:
            l = r.choice([b"NAME", b"ROWS", b"COLUMNS", b"RHS", b"RANGES", b"BOUNDS", b"ENDATA", b"OBJSENSE", b"NAME  prob  extra", b"X", b"ROWS\t x"])
        elif k <= 6:
            l = mps_line(True, r.choice([b"", b"N", b"UP", b"E"]), field(), field() if r.random() < 0.8 else b"", r.choice(NUMS + [b""]),
                         field() if r.random() < 0.4 else b"", r.choice(NUMS + [b""]) if r.random() < 0.4 else b"")
        elif k <= 9:
            l = b" " * r.randint(1, 5) + (b" " * r.randint(1, 3)).join(field() for _ in range(r.randint(1, 7)))
        elif k == 10:
            l = b" " * 14 + b"$" + field()
        elif k == 11:
            l = mps_line(True, b"", field(), field(), r.choice(NUMS)) .ljust(39) + b"$ " + field()
        elif k == 12:
            l = mps_line(True, b"", b"M", b"'MARKER'", b"", r.choice([b"'INTORG'", b"'INTEND'", b"'X'"]))
        elif k == 13:
            l = b" " + bytes(r.choice(b" AB1.\t") for _ in range(r.choice([70, 79, 80, 81, 120, 254, 255, 256, 300])))
        elif k == 14:
            l = b" " + field() + r.choice([b"\x00", b"\x00 B", b" \x00"]) + field()
        else:
            l = bytes(r.randrange(256) for _ in range(r.randint(1, 40))).replace(b"\n", b" ")
        if r.random() < 0.08:
            l = l.replace(b"  ", b"\t", 1)
        lines.append(l)
    data = b"\n".join(lines)
    if lines and r.random() < 0.8:
        data += b"\n"
    return data, len(lines)


def run_tie_mps(ck, exe, model, rundir, n):
    r = ck.rng
    # probe which give-up condition the tree has: an empty stream
    pf = os.path.join(rundir, "mpsline.probe")
    with open(pf, "w") as f:
        f.write("CASE 0 0 0 1 \n")
    rc, pout, perr = vlib.sh([exe, "mpsline", pf], timeout=120)
    pb = blocks(pout)
    eofcheck = 1 if (pb and pb[0] == ["ret=0"]) else 0
    ck.cov["mps_readLine_variant"] = "repaired (returns false at end of input)" if eofcheck else "original (spins at end of input)"
    if not eofcheck:
        if pb and pb[0] == ["hang"]:
            ck.violation("hang:mps:readLine", "MPSInput::readLine never returns once the stream is at its end (empty stream; the model "
                         "LexersModel.readLine false agrees: OutOfFuel for every fuel, theorem C13_mps_readLine_terminates_on_finite_stream_refuted)",
                         {"content_hex": "", "implementation": pb[0], "theorem": "C13_mps_readLine_terminates_on_finite_stream_refuted",
                          "input": "empty stream / any MPS file that ends before ENDATA"})
        else:
            ck.violation("tie-mismatch:mpsline-probe", "readLine on an empty stream neither returns false nor spins: %r" % (pb[:1],), {"output": pout[-500:]})
    cases = [(3, 0, 3, b"ROWS\n N obj\n")]
    for _ in range(n):
        data, nl = gen_mps_lines(r)
        cases.append((r.randrange(9), r.randrange(2), nl + 2, data))
    cf = os.path.join(rundir, "mpsline.cases")
    with open(cf, "w") as f:
        for k, (sec, nf, nc, data) in enumerate(cases):
            f.write("CASE %d %d %d %d %s\n" % (k, sec, nf, nc, data.hex()))
    rc2, mout, merr = vlib.sh([model, "mpsline", str(eofcheck), cf], timeout=600)
    if rc2 != 0:
        ck.violation("model-crash", "model runner failed rc=%d: %s" % (rc2, merr[-300:]), {"kind": "model"}, no_input=True)
        return eofcheck
    mb = blocks(mout)
    # a predicted hang costs 150 ms of CPU in the harness: keep a sample of them, stop the other cases one call earlier
    keep = 40 if n <= 2000 else 200
    hangs = 0
    for k in range(len(cases)):
        if k < len(mb) and "hang" in mb[k]:
            hangs += 1
            if hangs > keep:
                sec, nf, nc, data = cases[k]
                cases[k] = (sec, nf, len(mb[k]) - 1, data)
                mb[k] = mb[k][:-1]
    with open(cf, "w") as f:
        for k, (sec, nf, nc, data) in enumerate(cases):
            f.write("CASE %d %d %d %d %s\n" % (k, sec, nf, nc, data.hex()))
    rc, hout, herr = vlib.sh([exe, "mpsline", cf], timeout=900)
    if rc != 0:
        ck.violation("tie-crash:mpsline", "the readLine tie harness ended abnormally rc=%d: %s" % (rc, herr[-300:]), {"kind": "harness", "stderr": herr[-2000:]})
    hb = blocks(hout)
    for k, (sec, nf, nc, data) in enumerate(cases):
        if k >= len(hb) or k >= len(mb):
            break
        ck.evaluated(("mpsline", sec, nf, data), nontrivial=bool(data))
        ck.count("tie:mpsline")
        if hb[k] != mb[k]:
            j = next((i for i, (a, b) in enumerate(zip(hb[k] + ["<none>"], mb[k] + ["<none>"])) if a != b), 0)
            ck.violation("tie-mismatch:mpsline", "MPSInput::readLine and the model disagree on call %d of %r (section %d, newformat %d)\n impl : %s\n model: %s"
                         % (j, data[:200], sec, nf, (hb[k] + ["<none>"])[j], (mb[k] + ["<none>"])[j]),
                         {"content_hex": data.hex(), "section": sec, "newformat": nf, "implementation": hb[k], "model": mb[k],
                          "correspondence": "LexersModel.readLine vs MPSInput::readLine"})
            break
    ck.cov["mpsline_cases"] = len(cases)
    ck.cov["mpsline_cases_ending_in_the_eof_spin"] = hangs
    if cases:
        ck.sample({"mpsline": [c[3][:60].decode("latin-1") for c in cases[1:4]]})
    return eofcheck


def blocks(out):
    res, cur = [], None
    for l in out.splitlines():
        if l.startswith("CASE "):
            cur = []
            res.append(cur)
        elif cur is not None:
            cur.append(l)
    return res


FLOAT_PREFIX = re.compile(r"^[+-]?(\d+\.?\d*|\.\d+)([eE][+-]?\d+)?")


def dy(x):
    import math
    if x != x:
        return "nan"
    if math.isinf(x):
        return "inf" if x > 0 else "-inf"
    m, e = vlib.dyadic(x)
    return "%d:%d" % (m, e)


def gen_tok_cases(r, n):
    cases = []
    tails = [b"", b" ", b" x", b"x", b"<=", b" <= 3", b"+", b"\t", b"\n", b":", b"/2", b"e", b"E5", b".5", b"\x00", b"  "]
    for _ in range(n):
        k = r.randrange(10)
        if k <= 2:
            body = r.choice([b"", b"+", b"-"]) + r.choice([b"", b"1", b"12", b"007", b"9" * r.randint(1, 40)]) + r.choice([b"", b".", b".5", b".25", b"." + b"3" * r.randint(1, 30)]) \
                + r.choice([b"", b"", b"e", b"e5", b"E-3", b"e+", b"e+12", b"E", b"e999999", b"e-999999"]) + r.choice([b"", b"", b"", b"/", b"/3", b"/0", b"/12x"])
            if not body or body[:1] not in b"+-.0123456789":
                body = b"1" + body
            cases.append((r.choice(["V", "Q"]), body + r.choice(tails)))
        elif k == 3:
            cases.append((r.choice(["V", "Q"]), r.choice(WEIRD_NUMS[:30]) + r.choice(tails)))
        elif k <= 5:
            nm = bytes(r.choice(b"abcXYZ_019!#$%&()/,;?@'`{}|~[]^*\\\":") for _ in range(r.randint(0, 12)))
            cases.append((r.choice(["N", "M"]), r.choice([nm, b"known", b"known", b"knownx", b"x" + nm]) + r.choice(tails + [b"+y", b"-1", b".z", b"<", b">", b"="])))
        elif k <= 7:
            nm = bytes(r.choice(b"abcXYZ_019 ") for _ in range(r.randint(0, 10)))
            cases.append(("R", r.choice([b"", b" ", b"  "]) + nm + r.choice([b":", b" :", b"  : ", b"", b"::", b": x + y <= 2", b":c2: x"])))
        else:
            kw = r.choice(KEYWORDS)
            full = kw.replace(b"[", b"").replace(b"]", b"")
            short = re.sub(rb"\[[^\]]*\]", b"", kw)
            w = r.choice([full, short, full[:r.randint(0, len(full))], full + b"x", short + b" x", full.upper(), full + b"<=", full + b"]", short + b"]",
                          kw, full[:-1] + b"]", full + b" ]"])
            cases.append(("K", w + r.choice([b"", b" ", b" x", b":"]), kw))
    # ratFromString multiplies by the double pow(10, exponent): exponents beyond the double range kill the process (finding
    # crash:lpf:signal8, file-level witness w-hugeexp.lp); the in-process tie keeps them to the real reader
    cases = [(("V",) + c[1:]) if (c[0] == "Q" and re.search(rb"[eE][+-]?\d{3,}", c[1])) else c for c in cases]
    # lengths around the array size (safe side only: the overflow side is a file-level witness)
    cases.append(("V", b"1" * 8191 + b" x"))
    cases.append(("N", b"y" * 8191 + b" <= 1"))
    cases.append(("R", b"r" * 8191 + b": x"))
    cases.append(("V", b"1" * 8192 + b" x"))
    cases.append(("N", b"y" * 9000))
    cases.append(("R", b"r" * 8192 + b":"))
    cases.append(("K", b"maximize]", b"max[imize]"))
    return cases


def run_tie_tok(ck, exe, model, rundir, n):
    r = ck.rng
    cases = gen_tok_cases(r, n)
    cf = os.path.join(rundir, "lpftok.cases")
    with open(cf, "w") as f:
        for c in cases:
            # the C string ends at the first NUL
            txt = c[1].split(b"\x00")[0]
            f.write("%s %s%s\n" % (c[0], hexs(txt), (" " + c[2].hex()) if len(c) > 2 else ""))
    rc2, mout, merr = vlib.sh([model, "lpftok", cf], timeout=600)
    if rc2 != 0:
        ck.violation("model-crash", "model runner failed rc=%d: %s" % (rc2, merr[-300:]), {"kind": "model"}, no_input=True)
        return
    ml = mout.splitlines()
    # only the cases the model calls safe go through the in-process harness
    safe = [k for k, l in enumerate(ml) if not l.endswith("overflow") and l != "K oob"]
    unsafe = [k for k in range(len(ml)) if k not in set(safe)]
    ck.cov["lpftok_cases"] = len(cases)
    ck.cov["lpftok_model_overflow_or_oob"] = len(unsafe)
    cf2 = os.path.join(rundir, "lpftok.safe.cases")
    src = open(cf).read().splitlines()
    with open(cf2, "w") as f:
        for k in safe:
            f.write(src[k] + "\n")
    rc, hout, herr = vlib.sh([exe, "lpftok", cf2], timeout=600)
    hl = hout.splitlines()
    if rc != 0:
        ck.violation("tie-crash:lpftok", "the LP token tie harness ended abnormally rc=%d after %d of %d cases: %s" % (rc, len(hl), len(safe), herr[-300:]),
                     {"kind": "harness", "case": src[safe[len(hl)]] if len(hl) < len(safe) else "", "stderr": herr[-2000:]})
    for pos, k in enumerate(safe):
        if pos >= len(hl):
            break
        kind, txt = cases[k][0], cases[k][1].split(b"\x00")[0]
        ck.evaluated(("lpftok", kind, txt) + tuple(cases[k][2:]))
        ck.count("tie:lpftok:" + kind)
        h = dict(t.split("=", 1) for t in hl[pos].split()[1:] if "=" in t)
        m = dict(t.split("=", 1) for t in ml[k].split()[1:] if "=" in t)
        exp = None
        if kind in ("V", "Q"):
            if m["tok"] == "none":
                val = -1.0 if txt[:1] == b"-" else 1.0
                exp = {"consumed": m["consumed"], "val": dy(val) if kind == "V" else ("-1" if val < 0 else "1")}
            else:
                tok = bytes.fromhex(m["tok"]).decode("latin-1")
                exp = {"consumed": m["consumed"]}
                if kind == "V":
                    mm = FLOAT_PREFIX.match(tok)
                    exp["val"] = dy(float(mm.group(0))) if mm else "?"
            got = {"consumed": h.get("consumed")}
            if "val" in exp:
                got["val"] = h.get("val")
        elif kind in ("N", "M"):
            name = m["name"][:2 * 1023]          # NameSet::add stores at most SPX_MAXSTRLEN - 1 = 1023 characters
            if name == b"known".hex():
                exp = {"consumed": m["consumed"], "idx": "0", "names": "1", "cols": "1", "name": name}
            elif kind == "N":
                exp = {"consumed": m["consumed"], "idx": "1", "names": "2", "cols": "2", "name": name}
            else:
                exp = {"consumed": m["consumed"], "idx": "-1", "names": "1", "cols": "1", "name": "-"}
            got = {x: h.get(x) for x in exp}
        elif kind == "R":
            if m["name"] == "none":
                exp = {"ret": "0", "consumed": m["consumed"], "names": "0", "name": "-"}
            else:
                exp = {"ret": "1", "consumed": m["consumed"], "names": "1", "name": m["name"][:2 * 1023]}
            got = {x: h.get(x) for x in exp}
        else:
            t = ml[k].split()
            exp = {"ret": "1", "consumed": t[2]} if t[1] == "yes" else {"ret": "0", "consumed": "0"}
            got = {x: h.get(x) for x in exp}
        if exp != got:
            fn = {"V": "LPFreadValue<double>", "Q": "LPFreadValue (rational)", "N": "LPFreadColName", "M": "LPFreadColName (lookup)", "R": "LPFhasRowName",
                  "K": "LPFhasKeyword"}[kind]
            ck.violation("tie-mismatch:lpftok:" + kind, "%s and the model disagree on %r%s\n impl : %s\n model: %s (expected %s)"
                         % (fn, txt[:120], (" keyword %r" % cases[k][2]) if len(cases[k]) > 2 else "", hl[pos], ml[k], exp),
                         {"text_hex": txt.hex(), "implementation": hl[pos], "model": ml[k], "expected": exp,
                          "correspondence": "LexersModel.lpf_* vs %s" % fn})
            break
    if len(cases) > 3:
        ck.sample({"lpftok": [(c[0], c[1][:30].decode("latin-1")) for c in cases[:4]]})


# ----------------------------------------------------------------------------------------------------------------------
# runtime exploration
# ----------------------------------------------------------------------------------------------------------------------

SKIP_FRAMES = re.compile(r"__sanitizer|__asan|__interceptor|__ubsan|__lsan|stackToStderr|onSignal|^operator new|^operator delete|^malloc$|^realloc$|^calloc$|^free$|"
                         r"^testModel|^testBasis|^testSettings|^childMain|^runList|^main$|^checkLP|^touchAccessors|^solveAndReport|^clearReloadSolve|^_start|^__libc")
READER_FILES = ("spxlpbase_real.hpp", "spxlpbase_rational.hpp", "mpsinput.cpp", "mpsinput.h", "spxlpbase.h", "spxbasis.hpp", "spxfileio.hpp", "rational.h")
READER_FUNCS = ("_parseSettingsLine", "parseSettingsString", "loadSettingsFile", "_readFileReal", "_readFileRational", "readBasisFile", "readFile")


def clean_fn(sym):
    """'double soplex::LPFreadValue<double>(char*&, soplex::SPxOut*)' -> 'LPFreadValue'"""
    s = sym
    s = re.sub(r"\(boost::multiprecision::expression_template_option\)\d", "0", s)
    prev = None
    while prev != s:          # drop template arguments, innermost first
        prev = s
        s = re.sub(r"<[^<>]*>", "", s)
    s = s.split("(")[0].strip()
    s = s.split(" ")[-1]
    return s.split("::")[-1] or sym[:40]


def frames_of(text):
    """[(function, raw symbol, location)] from a sanitizer report / __sanitizer_print_stack_trace output"""
    out = []
    for l in text.splitlines():
        m = re.match(r"\s*#\d+ 0x[0-9a-f]+ in (.+)$", l)
        if not m:
            continue
        rest = re.sub(r"\s*\(BuildId: [0-9a-f]+\)\s*$", "", m.group(1))
        if " " in rest:
            fn, loc = rest.rsplit(" ", 1)
        else:
            fn, loc = rest, ""
        c = clean_fn(fn)
        if SKIP_FRAMES.search(c) or SKIP_FRAMES.search(fn):
            continue
        out.append((c, fn, loc))
    return out


def plain_frames(exe, text):
    """plain build: backtrace_symbols_fd lines 'exe(+0x1234)[0x...]' -> [(function, raw, location)] through addr2line -i"""
    offs = re.findall(r"C13\.plain\(\+(0x[0-9a-f]+)\)", text)
    if not offs:
        return []
    try:
        p = subprocess.run(["addr2line", "-a", "-f", "-C", "-i", "-e", exe] + offs[:24], stdout=subprocess.PIPE, stderr=subprocess.DEVNULL, text=True, timeout=120)
    except Exception:
        return []
    out = []
    ls = p.stdout.splitlines()
    k = 0
    while k < len(ls):
        if ls[k].startswith("0x"):
            k += 1
            continue
        fn = ls[k]
        loc = ls[k + 1] if k + 1 < len(ls) else ""
        k += 2
        c = clean_fn(fn)
        if fn == "??" or SKIP_FRAMES.search(c):
            continue
        out.append((c, fn, loc))
    return out


def pick_top(frames):
    for c, fn, loc in frames:
        base = os.path.basename(loc.split(":")[0])
        if base in READER_FILES or c in READER_FUNCS or "MPSInput::" in fn:
            return c
    for c, fn, loc in frames:
        if "soplex::" in fn or "/src/soplex" in loc:
            return c
    return frames[0][0] if frames else "?"


def top_soplex(text):
    return pick_top(frames_of(text))


def reader_of(test, data):
    if test.startswith("bas"):
        return "bas"
    if test == "set":
        return "set"
    return "mps" if data[:1] in (b"*", b"N") else "lpf"


def classify(exe, asan, test, data, lines, end):
    """-> list of (signature, short description)"""
    rd = reader_of(test, data)
    res = []
    m = re.match(r"END \S+ (exit|signal)=(\d+)(?: stderr=(\S+))?", end)
    how, code = m.group(1), int(m.group(2))
    err = bytes.fromhex(m.group(3)).decode("latin-1") if m.group(3) else ""
    for l in lines:
        if l.startswith("inconsistent ") or l.startswith("unusable "):
            t = l.split()
            res.append(("%s:%s:%s" % (t[0], rd, t[1]), l))
        if l.startswith("exception "):
            res.append(("exception:%s:%s" % (rd, l.split()[1]), l))
    # an LP that came out of the reader with duplicate entries / NaN / unmirrored storage is the finding; what the solver does
    # with it afterwards (exceptions, overruns in the presolver) is a consequence and would only multiply signatures
    broken_lp = [x for x in res if re.search(r":(duplicate-entries|mirror|index-range|nan-in-data|infinite-coefficient|infinite-wrong-side|zero-denominator)$", x[0])]
    if broken_lp and not (how == "exit" and code == 0):
        res = [(sg, w + " [the later %s=%d of the post-read sequence is attributed to this]" % (how, code)) for sg, w in broken_lp]
        return res, "ok"
    if how == "exit" and code == 0:
        if "done" not in lines:
            res.append(("early-exit:%s" % rd, "child exited 0 before the end of the sequence"))
        return res, "ok"
    outcome = "crash"
    if how == "exit" and code == 3:
        return res, "exception"
    if "C13-SIGNAL 14" in err or (how == "exit" and code == 124) or (how == "signal" and code == 14):
        fr = frames_of(err) if asan else plain_frames(exe, err)
        res.append(("hang:%s:%s" % (rd, pick_top(fr)), "no result within %d s; stack: %s" % (TIMEOUT, " < ".join([f[0] for f in fr][:6]))))
        return res, "hang"
    k = re.search(r"ERROR: AddressSanitizer: (\S+)", err)
    if k:
        kind = k.group(1)
        res.append(("asan:%s:%s:%s" % (rd, top_soplex(err[k.start():]), kind), "AddressSanitizer: %s; stack: %s" % (kind, " < ".join([f[0] for f in frames_of(err[k.start():])][:6]))))
        return res, "asan"
    k = re.search(r"runtime error: (.*)", err)
    if k:
        msg = k.group(1)
        cat = ("index-out-of-bounds" if "out of bounds" in msg else "null-argument" if "null pointer passed" in msg else
               "null-deref" if "null pointer" in msg else "signed-overflow" if "signed integer overflow" in msg else
               "float-cast-overflow" if "outside the range of representable" in msg else "misaligned" if "misaligned" in msg else
               "shift" if "shift" in msg else "invalid-bool-enum" if "not a valid value" in msg else re.sub(r"[^a-z]+", "-", msg.lower())[:30])
        res.append(("ubsan:%s:%s:%s" % (rd, top_soplex(err[k.start():]), cat), "UBSan: %s; stack: %s" % (msg[:160], " < ".join([f[0] for f in frames_of(err[k.start():])][:6]))))
        return res, "ubsan"
    k = re.search(r"ERROR: LeakSanitizer: detected memory leaks", err)
    if k:
        blocks_ = err[k.start():].split("\n\n")
        tops = []
        for b in blocks_:
            if "leak of" in b:
                tops.append(top_soplex(b))
        top = tops[0] if tops else "?"
        res.append(("leak:%s:%s" % (rd, top), "LeakSanitizer: %s; allocation stacks: %s" % (re.search(r"SUMMARY: (.*)", err).group(1) if "SUMMARY" in err else "", ", ".join(sorted(set(tops))[:5]))))
        return res, "leak"
    sig = code if how == "signal" else code - 100
    fr = frames_of(err) if asan else plain_frames(exe, err)
    if "stack smashing detected" in err:
        res.append(("crash:%s:stack-smashing" % rd, "*** stack smashing detected *** (a stack array was overrun), then signal %d" % sig))
        return res, outcome
    res.append(("crash:%s:signal%d:%s" % (rd, sig, pick_top(fr)), "process died with signal %d (%s=%d)%s; stack: %s"
                % (sig, how, code, " [stack smashing detected]" if "stack smashing" in err else "", " < ".join([f[0] for f in fr][:6]))))
    return res, outcome


ck_slines = {}


def check_settings_lines(ck, model, rundir):
    """oracle from the proved lexer: a line the cursor machine (= SettingsLexer.tokenise) rejects must be rejected by
    _parseSettingsLine and by parseSettingsString and must change no parameter; a blank / comment line is accepted and
    changes nothing"""
    if not ck_slines:
        return
    keys = sorted(ck_slines)
    cf = os.path.join(rundir, "settok.cases")
    with open(cf, "w") as f:
        for h, a, b in keys:
            f.write(h + "\n")
    rc, out, err = vlib.sh([model, "settok", cf], timeout=600)
    ml = out.splitlines()
    if rc != 0 or len(ml) != len(keys):
        ck.violation("model-crash", "model runner (settok) failed rc=%d: %s" % (rc, err[-300:]), {"kind": "model"}, no_input=True)
        return
    nrej = 0
    for (h, a, b), m in zip(keys, ml):
        line = b"" if h == "e" else bytes.fromhex(h)
        ck.evaluated(("settings-line", h), nontrivial=bool(line))
        ck.count("tie:settings-line:" + m.split()[0])
        ga = a.split("=")[1]
        tb = b.split("=")[1]
        want = {"error": "0,0", "blank": "1,0"}.get(m.split()[0])
        if want is None:
            continue
        nrej += 1
        twin = len(line) <= 498
        if ga != want or (twin and tb != want):
            it = ck_slines[(h, a, b)]
            ck.violation("tie-mismatch:settings-line:%s" % m.split()[0],
                         "the proved tokeniser says %r is %s (return %s, no parameter changes) but _parseSettingsLine gives (return,changed)=%s and "
                         "parseSettingsString %s" % (line[:120], m.split()[0], want[0], ga, tb if twin else "n/a"),
                         {"line_hex": h, "model": m, "file_line": a, "string": b, "file_name": os.path.basename(it["path"]),
                          "file_hex": it["data"].hex() if len(it["data"]) < 20000 else "", "test": "set",
                          "correspondence": "LexersModel.c_parse false (= SettingsLexer.tokenise) vs _parseSettingsLine / parseSettingsString on exact-size guarded buffers"})
    ck.cov["settings_lines_checked_against_model"] = len(keys)
    ck.cov["settings_lines_model_rejects_or_blank"] = nrej


def run_files(ck, exe, asan, items, rundir, workers, tag):
    """items: list of dict(test, path, data, aux, family).  Runs them through 'C13 run' in parallel chunks."""
    env = dict(os.environ)
    env["ASAN_OPTIONS"] = "detect_leaks=1:handle_abort=1:allocator_may_return_null=1:detect_stack_use_after_return=0:malloc_context_size=12"
    env["UBSAN_OPTIONS"] = "print_stacktrace=1"
    env["LSAN_OPTIONS"] = "exitcode=78"
    env["MALLOC_CHECK_"] = "3"
    env["MALLOC_PERTURB_"] = "165"
    chunks = [[] for _ in range(workers)]
    for k, it in enumerate(items):
        chunks[k % workers].append((k, it))
    procs = []
    for w, ch in enumerate(chunks):
        if not ch:
            continue
        lf = os.path.join(rundir, "%s.%d.list" % (tag, w))
        with open(lf, "w") as f:
            for k, it in ch:
                f.write("%d %s %s %s\n" % (k, it["test"], it["path"], it.get("aux", "")))
        of = open(lf + ".out", "w")
        procs.append((subprocess.Popen([exe, "run", lf, GOOD, str(TIMEOUT)], stdout=of, stderr=subprocess.DEVNULL, env=env), of, lf))
    for p, of, lf in procs:
        try:
            p.wait(timeout=3600)
        except subprocess.TimeoutExpired:
            p.kill()
        of.close()
    results = {}
    for p, of, lf in procs:
        cur = None
        for l in open(lf + ".out", errors="replace"):
            l = l.rstrip("\n")
            if l.startswith("BEGIN "):
                cur = (int(l.split()[1]), [])
            elif l.startswith("END ") and cur is not None:
                results[cur[0]] = (cur[1], l)
                cur = None
            elif cur is not None:
                cur[1].append(l)
            elif l.startswith("GOOD ") and "status=OPTIMAL" not in l:
                ck.violation("good-file", "the reference file does not solve to optimality: %s" % l, {"kind": "harness"}, no_input=True)
    found = {}
    for k, it in enumerate(items):
        if k not in results:
            ck.violation("harness-lost:%s" % tag, "no result for input %d (%s)" % (k, it["path"]), {"kind": "harness"}, no_input=True)
            continue
        lines, end = results[k]
        if it["test"] == "set" and not asan:
            for l in lines:
                if l.startswith("sline "):
                    t = l.split()
                    ck_slines.setdefault((t[2], t[3], t[4]), it)
        sigs, outcome = classify(exe, asan, it["test"], it["data"], lines, end)
        rd = reader_of(it["test"], it["data"])
        rl = next((l for l in lines if l.startswith(("read ", "readbasis ", "load "))), "")
        okflag = re.search(r"ok=(\d)", rl)
        if outcome == "ok":
            outcome = "ok-success" if (okflag and okflag.group(1) == "1") else "ok-failure-clean"
            if any(l.startswith("skipped") for l in lines):
                outcome = "inconsistent-lp"
        ck.count("%s:%s:%s" % (tag, rd, outcome))
        ck.count("family:" + it["family"])
        ck.evaluated((it["test"], hashlib.sha1(it["data"]).hexdigest(), tag), nontrivial=bool(it["data"]))
        for sig, what in sigs:
            if sig not in found or len(it["data"]) < len(found[sig][0]["data"]):
                found[sig] = (it, what, lines, end)
    return found


def report(ck, found, tag, exe, asan, rundir):
    for sig, (it, what, lines, end) in sorted(found.items()):
        data = it["data"]
        rp = {"test": it["test"], "family": it["family"], "build": tag, "file_name": os.path.basename(it["path"]),
              "file_size": len(data), "file_hex": data.hex() if len(data) <= 40000 else data[:2000].hex() + "...",
              "file_text": data[:600].decode("latin-1"), "observed": lines[-8:], "end": end[:200],
              "replay_hint": "write file_hex to <f>; %s run <list with '0 %s <f> %s'> %s %d" % ("C13(asan)" if asan else "C13", it["test"], it.get("aux", ""), GOOD, TIMEOUT)}
        m = re.search(r"stderr=(\S+)", end)
        if m:
            rp["stderr"] = bytes.fromhex(m.group(1)).decode("latin-1")[:3000]
        ck.violation(sig, "[%s] %s on %s (%d bytes, family %s): %s" % (tag, sig, os.path.basename(it["path"]), len(data), it["family"], what[:400]), rp)


def build_inputs(ck, rundir, quick):
    r = ck.rng
    items = []

    def add(name, test, data, family, aux=""):
        p = os.path.join(rundir, "in", name)
        with open(p, "wb") as f:
            f.write(data)
        items.append({"test": test, "path": p, "data": data, "aux": aux, "family": family})

    os.makedirs(os.path.join(rundir, "in"), exist_ok=True)
    modes = ["lp-real", "lp-rat", "lp-ratauto"]
    # 1. corpus and hand-made witnesses
    cdir = os.path.join(vlib.ROOT, "corpus", "C13")
    seen = set()
    if os.path.isdir(cdir):
        for f in sorted(os.listdir(cdir)):
            if not f.endswith((".lp", ".mps", ".bas", ".set")):
                continue
            data = open(os.path.join(cdir, f), "rb").read()
            seen.add(f)
            if f.endswith(".set"):
                add("c-" + f, "set", data, "corpus")
            elif f.endswith(".bas"):
                for t in ("bas0", "bas1"):
                    add("c-%s-%s" % (t, f), t, data, "corpus", GOOD)
            else:
                for t in modes[:2]:
                    add("c-%s-%s" % (t, f), t, data, "corpus")
    have = set(hashlib.sha1(it["data"]).hexdigest() for it in items)
    for name, kind, data in hand_made():
        if hashlib.sha1(data).hexdigest() in have:
            continue
        if kind == "set":
            add(name, "set", data, "witness")
        elif kind == "bas":
            for t in ("bas0", "bas1"):
                add("%s-%s" % (t, name), t, data, "witness", GOOD)
        else:
            for t in (modes if not quick else modes[:2]):
                add("%s-%s" % (t, name), t, data, "witness")
    # 2. shipped instances and settings
    inst = sorted(f for f in os.listdir(INST) if f.endswith((".mps", ".lp")))
    for k, f in enumerate(inst):
        data = open(os.path.join(INST, f), "rb").read()
        if quick and len(data) > 150000 and f not in ("afiro.mps",):
            continue
        items.append({"test": "lp-real", "path": os.path.join(INST, f), "data": data, "aux": "", "family": "shipped"})
        if not quick or k % 5 == 0:
            items.append({"test": r.choice(modes[1:]), "path": os.path.join(INST, f), "data": data, "aux": "", "family": "shipped"})
    for f in sorted(os.listdir(SETDIR)):
        data = open(os.path.join(SETDIR, f), "rb").read()
        items.append({"test": "set", "path": os.path.join(SETDIR, f), "data": data, "aux": "", "family": "shipped"})
    # names of the base LP for basis files
    rn, cn = [], []
    sec = None
    for l in open(GOOD, "rb").read().split(b"\n"):
        t = l.split()
        if l[:1] not in (b" ", b"") and t:
            sec = t[0]
        elif sec == b"ROWS" and len(t) == 2 and t[0] != b"N":
            rn.append(t[1])
        elif sec == b"COLUMNS" and t and t[0] not in cn:
            cn.append(t[0])
    names = setting_names()
    # 3. grammar-generated files and their mutations
    ngen = 30 if quick else 400
    nmut = 4 if quick else 12
    seeds = []
    for k in range(ngen):
        seeds.append(("g%d.lp" % k, gen_lp(r)))
        seeds.append(("g%d.mps" % k, gen_mps(r)))
    for f in ("afiro.mps", "afiro.lp") + (() if quick else ("sc50a.mps", "kb2.mps", "scagr25.lp")):
        seeds.append((f, open(os.path.join(INST, f), "rb").read()))
    hangprone = 0
    hcap = 6 if quick else 60     # inputs that cost a full timeout on the unrepaired tree are rationed
    for name, data in seeds:
        if not name.startswith("afiro") and not name.startswith("sc") and not name.startswith("kb"):
            add(name, r.choice(modes), data, "generated")
        reps = nmut if name[0] == "g" else nmut * (6 if quick else 20)
        for j in range(reps):
            d2, fam = mutate(r, data)
            if r.random() < 0.25:
                d2, fam2 = mutate(r, d2)
                fam = fam + "+" + fam2
            # a file in MPS format that lost its ENDATA line costs a full timeout on the unrepaired tree: ration them in quick
            if d2[:1] in (b"*", b"N") and b"ENDATA" not in d2:
                hangprone += 1
                if hangprone > hcap:
                    continue
            add("m%d-%s" % (j, name), r.choice(modes), d2, "mut:" + fam)
    # every mutation family at least once on one LP and one MPS seed
    for fam in ["trunc-section", "drop-section", "dup-line", "nul", "weird-num", "long-num", "long-name", "long-line", "dict", "crlf", "tabs", "no-eol",
                "dup-name", "dollar", "neg-range", "empty-field"]:
        for name, data in (seeds[0], seeds[1]):
            d2, f2 = mutate(r, data, fam)
            if d2[:1] in (b"*", b"N") and b"ENDATA" not in d2:
                hangprone += 1
                if hangprone > hcap + 2:
                    continue
            add("f-%s-%s" % (fam, name), r.choice(modes[:2]), d2, "mut:" + f2)
    # 4. basis files
    nb = 25 if quick else 300
    for k in range(nb):
        d = gen_bas(r, rn, cn)
        if r.random() < 0.5:
            d, fam = mutate(r, d)
        else:
            fam = "valid-ish"
        if b"ENDATA" not in d:
            hangprone += 1
            if hangprone > hcap + 4:
                continue
        add("b%d.bas" % k, r.choice(["bas0", "bas1", "bas1"]), d, "bas:" + fam, GOOD)
    # 4b. basis files for a tall LP (more rows than columns) in both representations: in row representation the basis matrix has
    #     dimension nCols, so a file with more X-lines (distinct rows) than columns must be rejected or repaired, not stored
    tall = os.path.join(rundir, "in", "tall.mps")
    with open(tall, "wb") as f:
        f.write(TALL_MPS)
    trn = [b"C%d" % i for i in range(6)]
    tcn = [b"x0", b"x1"]
    nt = 0
    for nx in range(0, 7):
        for variant in range(2 if quick else 6):
            rows = list(trn)
            r.shuffle(rows)
            out = [b"NAME  tall"]
            for i in range(nx):
                out.append(b" %s %-8s  %s" % (r.choice([b"XU", b"XL"]), tcn[i % 2] if variant % 2 == 0 else r.choice(tcn), rows.pop()))
            for c in tcn:
                if r.random() < 0.3:
                    out.append(b" %s %s" % (r.choice([b"UL", b"LL"]), c))
            out.append(b"ENDATA")
            d = b"\n".join(out) + b"\n"
            for t in (("bas1r", "bas0", "bas1s") if quick else ("bas0", "bas1", "bas0r", "bas1r", "bas1c", "bas0s", "bas1s", "bas1rs", "bas1cs")):
                add("t%d-%s.bas" % (nt, t), t, d, "bas-tall:%d-xlines" % nx, tall)
                nt += 1
    # 4c. basis files for LPs whose column / row number is one of the sizes in DataHashTable's prime table (read from the header): the default
    #     name sets readBasis builds (no names given) then have exactly that many slots - the probing step must not be a multiple of it
    primes = []
    try:
        import re as _re
        primes = [int(x) for x in _re.findall(r"primes\[\d+\]\s*=\s*(\d+)\s*;", open(os.path.join(vlib.REPO, "src", "soplex", "datahashtable.h")).read())]
    except OSError:
        pass
    for pk, pr in enumerate(primes[:2] if quick else primes[:4]):
        for shape in ("cols", "rows"):
            name = "prime%d%s.mps" % (pr, shape)
            pth = os.path.join(rundir, "in", name)
            with open(pth, "wb") as f:
                if shape == "cols":
                    f.write(b"NAME p\nROWS\n N obj\n L C0\nCOLUMNS\n" + b"".join(b"    x%d obj 1.0 C0 1.0\n" % j for j in range(pr)) + b"RHS\n    rhs C0 10.0\nENDATA\n")
                else:
                    f.write(b"NAME p\nROWS\n N obj\n" + b"".join(b" L C%d\n" % i for i in range(pr)) + b"COLUMNS\n" +
                            b"".join(b"    x0 C%d 1.0\n" % i for i in range(pr)) + b"    x0 obj -1.0\nRHS\n" + b"".join(b"    rhs C%d %d.0\n" % (i, 5 + i % 7) for i in range(pr)) + b"ENDATA\n")
            d = b"NAME  p\n XU x0        C0\nENDATA\n"
            for t in ("bas0", "bas1"):
                add("pr%d%s-%s.bas" % (pr, shape, t), t, d, "bas-prime-size:%s" % shape, pth)
    # 5. settings files
    ns = 25 if quick else 300
    for k in range(ns):
        d = gen_set(r, names)
        fam = "generated"
        if r.random() < 0.4:
            d, fam = mutate(r, d)
        add("s%d.set" % k, "set", d, "set:" + fam)
    for f in sorted(os.listdir(SETDIR))[:3 if quick else 20]:
        d, fam = mutate(r, open(os.path.join(SETDIR, f), "rb").read())
        add("ms-" + f, "set", d, "set:" + fam)
    # 6. settings files with truncated lines behind longer lines, and the line-length boundary
    for name, d in settings_witnesses():
        add(name, "set", d, "set-trunc:witness")
    for name, d in settings_boundary_files():
        add(name, "set", d, "set-boundary")
    k = 0
    for ty, nm, vals in SET_ASSIGN:
        for layout in ((0, 1, 2) if not quick else (0, r.choice((1, 2)))):
            nforms = len(trunc_forms(ty, nm, vals[0], layout)[0])
            for form in range(nforms):
                styles = ["comment", "assign", "nul", "long", "short"]
                for style in (styles if not quick else [styles[(k + form) % 2], r.choice(styles[2:])]):
                    d, fam = settings_trunc_file(r, ty, nm, r.choice(vals), form, layout, style)
                    add("tr%d.set" % k, "set", d, "set-trunc:" + fam.split(":")[1])
                    k += 1
    return items


def main():
    ck = vlib.Check("C13", "other")
    quick = ck.tier == "quick"
    rundir = os.path.join(vlib.BUILD, "run", "C13.%d" % os.getpid())
    os.makedirs(rundir, exist_ok=True)
    with KeepAlive():
        proved = ck.prove()
        try:
            exe0 = vlib.build_harness(**PLAIN)
        except vlib.BuildError as e:
            ck.violation("harness-build", "the harness does not compile against the current tree: %s" % str(e)[-600:], {"kind": "build"}, no_input=True)
            ck.finish()
        exe = os.path.join(rundir, "C13.plain")
        shutil.copy(exe0, exe)
        try:
            model = vlib.build_model("C13")
        except vlib.BuildError as e:
            ck.violation("model-build", "extracted model does not build: %s" % str(e)[-800:], {"kind": "extraction"}, no_input=True)
            ck.finish()

        # ---- ties
        run_tie_mps(ck, exe, model, rundir, 1500 if quick else 20000)
        run_tie_tok(ck, exe, model, rundir, 1500 if quick else 20000)

        # ---- runtime exploration
        if ck.args.replay:
            rp = json.load(open(ck.args.replay))
            items = []
            if "file_hex" in rp and not rp["file_hex"].endswith("..."):
                p = os.path.join(rundir, rp.get("file_name", "replay.in"))
                data = bytes.fromhex(rp["file_hex"])
                open(p, "wb").write(data)
                items = [{"test": rp["test"], "path": p, "data": data, "aux": GOOD if rp["test"].startswith("bas") else "", "family": "replay"}]
        else:
            items = build_inputs(ck, rundir, quick)
        ck.cov["inputs"] = len(items)
        workers = 6 if quick else 10
        t1 = time.time()
        found = run_files(ck, exe, False, items, rundir, workers, "plain")
        ck.cov["plain_run_s"] = round(time.time() - t1, 1)
        report(ck, found, "plain", exe, False, rundir)
        check_settings_lines(ck, model, rundir)

        asan_exe = None
        if quick and not ck.args.replay:
            asan_exe = asan_cached()
            if asan_exe is None:
                ck.cov["sanitizer_build"] = "not cached for this tree state: quick tier ran the plain build only (thorough always builds it)"
        else:
            try:
                asan_exe = vlib.build_harness(**ASAN)
            except vlib.BuildError as e:
                ck.violation("asan-build", "the sanitizer build failed: %s" % str(e)[-600:], {"kind": "build"}, no_input=True)
        if asan_exe:
            ex2 = os.path.join(rundir, "C13.asan")
            shutil.copy(asan_exe, ex2)
            sel = items
            if quick:
                # time budget: everything that is small, witnesses first
                budget = 500
                first = ("witness", "corpus", "set-trunc:witness", "set-boundary")
                sel = [it for it in items if it["family"] in first] + [it for it in items if it["family"] not in first and len(it["data"]) < 60000]
                sel = sel[:budget + 70]
            t1 = time.time()
            found2 = run_files(ck, ex2, True, sel, rundir, workers, "asan")
            ck.cov["asan_run_s"] = round(time.time() - t1, 1)
            ck.cov["sanitizer_build"] = "clang++ -fsanitize=address,undefined (+LeakSanitizer), %d inputs" % len(sel)
            report(ck, found2, "asan", ex2, True, rundir)

    if not os.environ.get("VERIF_KEEP"):
        shutil.rmtree(rundir, ignore_errors=True)
    ck.cov["rule"] = ("an evaluation is one (reader test, input file) pair run to completion in its own process, or one tie case "
                      "(readLine call sequence / LP token); distinct = distinct (test, file content); non-trivial = non-empty content")
    ck.cov["trusted_base"] = ["Coq 8.16.1 kernel (coqc), vm_compute for the refutation witnesses and examples",
                              "axioms: none (Print Assumptions: closed under the global context)" if not ck.coq["axioms"] else "axioms: " + ", ".join(ck.coq["axioms"]),
                              "extraction: ExtrOcamlBasic only; OCaml 4.13.1; extract/zutil.ml + extract/C13/driver.ml",
                              "harness/C13.cpp (g++ -fno-access-control; clang++ -fsanitize=address,undefined), fork per input, alarm(%d)" % TIMEOUT,
                              "libstdc++ istream::getline flag semantics as modelled in LexersModel.getline (tied through readLine on generated streams)",
                              "AddressSanitizer / UBSan / LeakSanitizer of clang 14 as the oracle for memory errors; llvm-symbolizer / addr2line for frame names",
                              "python generators and mutators in this file"]
    ck.assumptions = ["the absence of memory errors is explored (sanitizer runs on generated and mutated files), not proved",
                      "uninitialised reads are only seen when they change control flow or reach a sanitizer check (no MemorySanitizer / valgrind run)",
                      "gz input is not exercised",
                      "the settings-line tokeniser is tied to the code by C15's correspondence check, not again here"]
    ck.finish("proved: lexer control logic (12 theorems incl. 4 refutations); tied: readLine fields, LP tokens; explored: readers under sanitizers")


if __name__ == "__main__":
    main()
