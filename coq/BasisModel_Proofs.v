(* Lemmas about the basis descriptor model (C04, C14). *)
From Coq Require Import QArith Bool List ZArith Lia.
From SV Require Import BasisModel.
Import ListNotations.
Local Open Scope nat_scope.

(* ---------------------------------------------------------------------------------------------------------- *)
(* generic list facts                                                                                         *)
(* ---------------------------------------------------------------------------------------------------------- *)

Lemma combine_length_eq : forall (A B : Type) (l : list A) (l' : list B),
  List.length l = List.length l' -> List.length (combine l l') = List.length l.
Proof. intros A B l l' H. rewrite combine_length, H. apply Nat.min_id. Qed.

Lemma forallb_combine_map : forall (A B : Type) (P : A -> B -> bool) (f : A -> B) (vs : list A),
  (forall v, P v (f v) = true) ->
  forallb (fun p => P (fst p) (snd p)) (combine vs (map f vs)) = true.
Proof.
  intros A B P f vs H. induction vs as [|v vs IH]; cbn; [reflexivity|].
  rewrite H, IH. reflexivity.
Qed.

Lemma forallb_combine_map2 : forall (A B C : Type) (P : A -> B -> bool) (g : A -> C -> B) (vs : list A) (ds : list C),
  (forall v s, P v (g v s) = true) ->
  forallb (fun p => P (fst p) (snd p)) (combine vs (map (fun p => g (fst p) (snd p)) (combine vs ds))) = true.
Proof.
  intros A B C P g vs. induction vs as [|v vs IH]; intros ds H; cbn; [reflexivity|].
  destruct ds as [|s ds]; cbn; [reflexivity|]. rewrite H, IH by assumption. reflexivity.
Qed.

Lemma map_combine_ext : forall (A B C : Type) (Pb : A -> B -> bool) (f g : A -> B -> C) (vs : list A) (ss : list B),
  forallb (fun p => Pb (fst p) (snd p)) (combine vs ss) = true ->
  (forall v s, Pb v s = true -> f v s = g v s) ->
  map (fun p => f (fst p) (snd p)) (combine vs ss) = map (fun p => g (fst p) (snd p)) (combine vs ss).
Proof.
  intros A B C Pb f g vs. induction vs as [|v vs IH]; intros ss H E; cbn; [reflexivity|].
  destruct ss as [|s ss]; cbn in *; [reflexivity|].
  apply andb_true_iff in H. destruct H as [H1 H2]. rewrite (E _ _ H1), (IH ss H2 E). reflexivity.
Qed.

Lemma forallb_combine_and : forall (A B : Type) (P Q : A -> B -> bool) (vs : list A) (ss : list B),
  forallb (fun p => P (fst p) (snd p)) (combine vs ss) = true ->
  forallb (fun p => Q (fst p) (snd p)) (combine vs ss) = true ->
  forallb (fun p => P (fst p) (snd p) && Q (fst p) (snd p)) (combine vs ss) = true.
Proof.
  intros A B P Q vs. induction vs as [|v vs IH]; intros ss H1 H2; cbn; [reflexivity|].
  destruct ss as [|s ss]; cbn in *; [reflexivity|].
  apply andb_true_iff in H1. apply andb_true_iff in H2. destruct H1 as [a b]. destruct H2 as [c d].
  rewrite a, c, (IH ss b d). reflexivity.
Qed.

Lemma forallb_combine_Forall2 : forall (A B : Type) (P : A -> B -> bool) (R : A -> B -> Prop) (vs : list A) (ss : list B),
  List.length vs = List.length ss ->
  (forall v s, P v s = true -> R v s) ->
  forallb (fun p => P (fst p) (snd p)) (combine vs ss) = true -> Forall2 R vs ss.
Proof.
  intros A B P R vs. induction vs as [|v vs IH]; intros ss HL HR H; destruct ss as [|s ss]; cbn in *; try discriminate.
  - constructor.
  - apply andb_true_iff in H. destruct H as [H1 H2]. constructor; [apply HR, H1|].
    apply IH; [lia | assumption | assumption].
Qed.

(* ---------------------------------------------------------------------------------------------------------- *)
(* per-entry facts: finite case analyses                                                                      *)
(* ---------------------------------------------------------------------------------------------------------- *)

Ltac var_cases v :=
  destruct v as [[l|] [u|] o];
  unfold repair, entry_valid, dualStatus, primalStatus, lo_fin, up_fin, bounds_eq, neg_lo_lt_up, is_dual, ds_eqb; cbn.

Lemma is_dual_dualStatus : forall v, is_dual (dualStatus v) = true.
Proof. intros v. var_cases v; try destruct (Qeq_bool l u); reflexivity. Qed.

Lemma is_dual_primalStatus : forall v, is_dual (primalStatus v) = false.
Proof.
  intros v. var_cases v; try reflexivity.
  destruct (Qeq_bool l u); [reflexivity|]. destruct (Qeq_bool o 0%Q); [destruct (Qlt_b (- l)%Q u); reflexivity|].
  destruct (Qlt_b o 0%Q); reflexivity.
Qed.

Lemma repair_dual : forall v s, is_dual (repair v s) = is_dual s.
Proof.
  intros v s. var_cases v; destruct s; cbn; try reflexivity;
    try destruct (Qeq_bool l u); cbn; try reflexivity; try destruct (Qle_bool o 0%Q); reflexivity.
Qed.

Lemma repair_valid : forall v s, entry_valid v (repair v s) = true.
Proof.
  intros v s. var_cases v; destruct s; cbn; try reflexivity;
    try (destruct (Qeq_bool l u) eqn:E; cbn; try rewrite E; try reflexivity; destruct (Qle_bool o 0%Q); cbn; try rewrite E; reflexivity);
    try (destruct (Qle_bool o 0%Q); reflexivity).
Qed.

Lemma repair_idem : forall v s, repair v (repair v s) = repair v s.
Proof.
  intros v s. var_cases v; destruct s; cbn; try reflexivity;
    try (destruct (Qeq_bool l u) eqn:E; cbn; try rewrite E; try reflexivity; destruct (Qle_bool o 0%Q); cbn; try rewrite E; reflexivity);
    try (destruct (Qle_bool o 0%Q); reflexivity).
Qed.

Lemma dual_entry_valid : forall v, entry_valid v (dualStatus v) = true.
Proof.
  intros v. unfold entry_valid. rewrite is_dual_dualStatus. unfold ds_eqb. apply Z.eqb_refl.
Qed.

Lemma primal_entry_valid : forall v, entry_valid v (primalStatus v) = true.
Proof.
  intros v. var_cases v; try reflexivity.
  destruct (Qeq_bool l u) eqn:E; cbn; [try rewrite E; reflexivity|].
  destruct (Qeq_bool o 0%Q); [destruct (Qlt_b (- l)%Q u); reflexivity|]. destruct (Qlt_b o 0%Q); reflexivity.
Qed.

Lemma repair_dualStatus : forall v, repair v (dualStatus v) = dualStatus v.
Proof. intros v. unfold repair at 1. rewrite is_dual_dualStatus. reflexivity. Qed.

Lemma repair_primalStatus : forall v, repair v (primalStatus v) = primalStatus v.
Proof.
  intros v. var_cases v; try reflexivity.
  destruct (Qeq_bool l u) eqn:E; cbn; [try rewrite E; reflexivity|].
  destruct (Qeq_bool o 0%Q); [destruct (Qlt_b (- l)%Q u); cbn; try rewrite E; reflexivity|].
  destruct (Qlt_b o 0%Q); cbn; try rewrite E; reflexivity.
Qed.

(* a valid entry that is dual is the dual status of its variable *)
Lemma ds_eqb_eq : forall a b, ds_eqb a b = true -> a = b.
Proof. intros a b H. destruct a, b; cbn in H; try discriminate; reflexivity. Qed.

Lemma vs_eqb_eq : forall a b, vs_eqb a b = true -> a = b.
Proof. intros a b H. destruct a, b; cbn in H; try discriminate; reflexivity. Qed.

Ltac and5 H a b c d e :=
  apply andb_true_iff in H; destruct H as [H e];
  apply andb_true_iff in H; destruct H as [H d];
  apply andb_true_iff in H; destruct H as [H c];
  apply andb_true_iff in H; destruct H as [a b].

(* ---------------------------------------------------------------------------------------------------------- *)
(* counting                                                                                                   *)
(* ---------------------------------------------------------------------------------------------------------- *)

Lemma count_dual_primal : forall l, count_dual l + count_primal l = List.length l.
Proof.
  unfold count_dual, count_primal. induction l as [|s l IH]; cbn; [reflexivity|].
  destruct (is_dual s); cbn; lia.
Qed.

Lemma count_dual_repair_list : forall vs ds, List.length vs = List.length ds ->
  count_dual (repair_list vs ds) = count_dual ds.
Proof.
  unfold count_dual, repair_list. induction vs as [|v vs IH]; intros ds H; destruct ds as [|s ds]; cbn in *; try discriminate;
    [reflexivity|].
  rewrite repair_dual. destruct (is_dual s); cbn; rewrite IH by lia; reflexivity.
Qed.

Lemma repair_list_length : forall vs ds, List.length vs = List.length ds ->
  List.length (repair_list vs ds) = List.length vs.
Proof. intros vs ds H. unfold repair_list. rewrite map_length. apply combine_length_eq, H. Qed.

Lemma count_dual_map_dual : forall vs, count_dual (map dualStatus vs) = List.length vs.
Proof.
  unfold count_dual. induction vs as [|v vs IH]; cbn; [reflexivity|]. rewrite is_dual_dualStatus. cbn. rewrite IH. reflexivity.
Qed.

Lemma count_dual_map_primal : forall vs, count_dual (map primalStatus vs) = 0.
Proof.
  unfold count_dual. induction vs as [|v vs IH]; cbn; [reflexivity|]. rewrite is_dual_primalStatus. exact IH.
Qed.

Lemma count_primal_map_dual : forall vs, count_primal (map dualStatus vs) = 0.
Proof.
  intros vs. pose proof (count_dual_primal (map dualStatus vs)) as H. rewrite count_dual_map_dual, map_length in H. lia.
Qed.

Lemma count_primal_map_primal : forall vs, count_primal (map primalStatus vs) = List.length vs.
Proof.
  intros vs. pose proof (count_dual_primal (map primalStatus vs)) as H. rewrite count_dual_map_primal, map_length in H. lia.
Qed.

(* the two representations take the same consistency decision on descriptors of the right dimensions *)
Lemma rowrep_consistency : forall lp d,
  List.length (d_rows d) = nRows lp -> List.length (d_cols d) = nCols lp ->
  loadDesc_rowrep lp d = loadDesc lp d.
Proof.
  intros lp d Hr Hc. unfold loadDesc_rowrep, loadDesc.
  set (r := repair_list (b_rows lp) (d_rows d)). set (c := repair_list (b_cols lp) (d_cols d)).
  assert (Lr : List.length r = nRows lp) by (apply repair_list_length; symmetry; exact Hr).
  assert (Lc : List.length c = nCols lp) by (apply repair_list_length; symmetry; exact Hc).
  pose proof (count_dual_primal r) as A. pose proof (count_dual_primal c) as B.
  destruct (Nat.eqb (count_dual r + count_dual c) (nRows lp)) eqn:E.
  - apply Nat.eqb_eq in E. replace (Nat.eqb (count_primal r + count_primal c) (nCols lp)) with true; [reflexivity|].
    symmetry. apply Nat.eqb_eq. lia.
  - apply Nat.eqb_neq in E. replace (Nat.eqb (count_primal r + count_primal c) (nCols lp)) with false; [reflexivity|].
    symmetry. apply Nat.eqb_neq. lia.
Qed.

(* ---------------------------------------------------------------------------------------------------------- *)
(* loadDesc                                                                                                   *)
(* ---------------------------------------------------------------------------------------------------------- *)

Lemma entries_valid_repair_list : forall vs ds, entries_valid vs (repair_list vs ds) = true.
Proof.
  intros vs ds. unfold entries_valid, repair_list.
  apply (forallb_combine_map2 _ _ _ entry_valid repair). apply repair_valid.
Qed.

Lemma initialDesc_valid : forall lp, isDescValid lp (initialDesc lp) = true.
Proof.
  intros lp. unfold isDescValid, initialDesc; cbn [d_rows d_cols].
  repeat (apply andb_true_iff; split).
  - unfold nRows. rewrite map_length. apply Nat.eqb_refl.
  - unfold nCols. rewrite map_length. apply Nat.eqb_refl.
  - unfold entries_valid. apply (forallb_combine_map _ _ entry_valid dualStatus). apply dual_entry_valid.
  - unfold entries_valid. apply (forallb_combine_map _ _ entry_valid primalStatus). apply primal_entry_valid.
  - rewrite count_primal_map_dual, count_primal_map_primal. apply Nat.eqb_refl.
Qed.

Lemma loadDesc_valid : forall lp d,
  List.length (d_rows d) = nRows lp -> List.length (d_cols d) = nCols lp ->
  isDescValid lp (loadDesc lp d) = true.
Proof.
  intros lp d Hr Hc. unfold loadDesc.
  set (r := repair_list (b_rows lp) (d_rows d)). set (c := repair_list (b_cols lp) (d_cols d)).
  destruct (Nat.eqb (count_dual r + count_dual c) (nRows lp)) eqn:E; [|apply initialDesc_valid].
  apply Nat.eqb_eq in E.
  assert (Lr : List.length r = nRows lp) by (apply repair_list_length; symmetry; exact Hr).
  assert (Lc : List.length c = nCols lp) by (apply repair_list_length; symmetry; exact Hc).
  unfold isDescValid; cbn [d_rows d_cols].
  repeat (apply andb_true_iff; split).
  - apply Nat.eqb_eq. exact Lr.
  - apply Nat.eqb_eq. exact Lc.
  - apply entries_valid_repair_list.
  - apply entries_valid_repair_list.
  - apply Nat.eqb_eq. pose proof (count_dual_primal r). pose proof (count_dual_primal c). lia.
Qed.

Lemma repair_list_idem : forall vs ds, repair_list vs (repair_list vs ds) = repair_list vs ds.
Proof.
  unfold repair_list. induction vs as [|v vs IH]; intros ds; cbn; [reflexivity|].
  destruct ds as [|s ds]; cbn; [reflexivity|]. rewrite repair_idem, IH. reflexivity.
Qed.

Lemma repair_list_map : forall (f : var -> DStatus) vs, (forall v, repair v (f v) = f v) ->
  repair_list vs (map f vs) = map f vs.
Proof.
  intros f vs H. unfold repair_list. induction vs as [|v vs IH]; cbn; [reflexivity|]. rewrite H, IH. reflexivity.
Qed.

Lemma loadDesc_idem : forall lp d, loadDesc lp (loadDesc lp d) = loadDesc lp d.
Proof.
  intros lp d. unfold loadDesc at 2 3.
  set (r := repair_list (b_rows lp) (d_rows d)). set (c := repair_list (b_cols lp) (d_cols d)).
  destruct (Nat.eqb (count_dual r + count_dual c) (nRows lp)) eqn:E.
  - unfold loadDesc; cbn. unfold r, c. rewrite !repair_list_idem. fold r c. rewrite E. reflexivity.
  - unfold loadDesc, initialDesc; cbn.
    rewrite (repair_list_map dualStatus) by apply repair_dualStatus.
    rewrite (repair_list_map primalStatus) by apply repair_primalStatus.
    rewrite count_dual_map_dual, count_dual_map_primal. unfold nRows. rewrite Nat.add_0_r, Nat.eqb_refl. reflexivity.
Qed.

(* a valid descriptor has exactly nRows dual (basic) entries *)
Lemma isDescValid_count : forall lp d, isDescValid lp d = true ->
  List.length (d_rows d) = nRows lp /\ List.length (d_cols d) = nCols lp /\
  count_dual (d_rows d) + count_dual (d_cols d) = nRows lp /\
  count_primal (d_rows d) = count_dual (d_cols d).
Proof.
  intros lp d H. unfold isDescValid in H. and5 H H1 H2 H3 H4 H5.
  apply Nat.eqb_eq in H1. apply Nat.eqb_eq in H2. apply Nat.eqb_eq in H5.
  pose proof (count_dual_primal (d_rows d)). pose proof (count_dual_primal (d_cols d)).
  repeat split; lia.
Qed.

(* ---------------------------------------------------------------------------------------------------------- *)
(* isBasisValid                                                                                               *)
(* ---------------------------------------------------------------------------------------------------------- *)

(* what an accepted non-basic entry looks like *)
Definition basis_entry_ok (v : var) (s : VarStatus) : Prop :=
  s <> UNDEFINED /\
  (s = ON_UPPER -> v_up v <> None) /\
  (s = ON_LOWER -> v_lo v <> None) /\
  (s = FIXED -> exists l u, v_lo v = Some l /\ v_up v = Some u /\ Qeq l u).

Lemma vs_entry_valid_ok : forall v s, vs_entry_valid v s = true -> basis_entry_ok v s.
Proof.
  intros v s H. destruct v as [[l|] [u|] o]; destruct s; cbn in H; try discriminate;
    (split; [discriminate|]); (split; [intros; try discriminate; cbn; discriminate|]);
    (split; [intros; try discriminate; cbn; discriminate|]); intros E; try discriminate.
  exists l, u. cbn. repeat split. apply Qeq_bool_iff. exact H.
Qed.

Lemma valid_basis_count : forall lp rows cols, isBasisValid lp rows cols = true ->
  List.length rows = nRows lp /\ List.length cols = nCols lp /\
  count_basic rows + count_basic cols = nRows lp /\
  Forall2 basis_entry_ok (b_rows lp) rows /\ Forall2 basis_entry_ok (b_cols lp) cols.
Proof.
  intros lp rows cols H. unfold isBasisValid, isBasisValid_rep in H. and5 H H1 H2 H3 H4 H5.
  apply Nat.eqb_eq in H1. apply Nat.eqb_eq in H2. apply Nat.eqb_eq in H5.
  split; [exact H1|]. split; [exact H2|]. split; [exact H5|]. split.
  - apply (forallb_combine_Forall2 _ _ vs_entry_valid); [unfold nRows in H1; lia | apply vs_entry_valid_ok | exact H3].
  - apply (forallb_combine_Forall2 _ _ vs_entry_valid); [unfold nCols in H2; lia | apply vs_entry_valid_ok | exact H4].
Qed.

(* ---------------------------------------------------------------------------------------------------------- *)
(* setBasis / getBasis                                                                                        *)
(* ---------------------------------------------------------------------------------------------------------- *)

Definition conv (v : var) (s : VarStatus) : DStatus :=
  match varStatusToBasisStatus v s with Some d => d | None => D_UNDEFINED end.

Lemma to_desc_list_ok : forall vs ss, List.length vs = List.length ss -> vs_entries_valid vs ss = true ->
  to_desc_list vs ss = Some (map (fun p => conv (fst p) (snd p)) (combine vs ss)).
Proof.
  unfold vs_entries_valid. induction vs as [|v vs IH]; intros ss HL H; destruct ss as [|s ss]; cbn in *; try discriminate;
    [reflexivity|].
  apply andb_true_iff in H. destruct H as [H1 H2]. rewrite (IH ss) by (try lia; assumption).
  unfold conv. destruct s; cbn in *; try discriminate; reflexivity.
Qed.

Lemma is_dual_conv : forall v s, vs_entry_valid v s = true -> is_dual (conv v s) = vs_eqb s BASIC.
Proof.
  intros v s H. destruct s; cbn in H; try discriminate; try reflexivity.
  unfold conv; cbn. apply is_dual_dualStatus.
Qed.

Lemma count_dual_conv : forall vs ss, vs_entries_valid vs ss = true ->
  count_dual (map (fun p => conv (fst p) (snd p)) (combine vs ss)) = count_basic (map snd (combine vs ss)).
Proof.
  unfold vs_entries_valid, count_dual, count_basic.
  induction vs as [|v vs IH]; intros ss H; [reflexivity|].
  destruct ss as [|s ss]; [reflexivity|].
  cbn [combine map filter fst snd forallb] in *.
  apply andb_true_iff in H. destruct H as [H1 H2]. specialize (IH ss H2).
  rewrite (is_dual_conv _ _ H1). destruct (vs_eqb s BASIC); cbn [List.length]; rewrite IH; reflexivity.
Qed.

Lemma map_snd_combine : forall (A B : Type) (l : list A) (l' : list B), List.length l = List.length l' ->
  map snd (combine l l') = l'.
Proof.
  intros A B l. induction l as [|a l IH]; intros l' H; destruct l' as [|b l']; cbn in *; try discriminate; [reflexivity|].
  rewrite IH by lia. reflexivity.
Qed.

Lemma map_fst_combine : forall (A B : Type) (l : list A) (l' : list B), List.length l = List.length l' ->
  map fst (combine l l') = l.
Proof.
  intros A B l. induction l as [|a l IH]; intros l' H; destruct l' as [|b l']; cbn in *; try discriminate; [reflexivity|].
  rewrite IH by lia. reflexivity.
Qed.

(* the entry-wise round trip: convert, repair, convert back *)
Lemma roundtrip_entry : forall v s, vs_entry_valid v s && zero_free1 v s = true ->
  basisStatusToVarStatus (repair v (conv v s)) = mark_fixed1 v s.
Proof.
  intros v s H. apply andb_true_iff in H. destruct H as [H1 H2].
  destruct v as [[l|] [u|] o]; destruct s; cbn in H1, H2; try discriminate;
    unfold conv, repair, mark_fixed1, dualStatus, lo_fin, up_fin, bounds_eq, is_dual, ds_eqb, vs_eqb; cbn;
    try reflexivity;
    try (destruct (Qeq_bool l u) eqn:E; cbn; try reflexivity; try discriminate; destruct (Qle_bool o 0%Q); reflexivity).
Qed.

Lemma repair_list_conv_map : forall vs ss, List.length vs = List.length ss ->
  repair_list vs (map (fun p => conv (fst p) (snd p)) (combine vs ss)) =
  map (fun p => repair (fst p) (conv (fst p) (snd p))) (combine vs ss).
Proof.
  unfold repair_list. induction vs as [|v vs IH]; intros ss H; destruct ss as [|s ss]; cbn in *; try discriminate;
    [reflexivity|]. rewrite IH by lia. reflexivity.
Qed.

Lemma set_get_roundtrip : forall lp rows cols,
  isBasisValid lp rows cols = true -> zero_only_free lp rows cols = true ->
  option_map getBasis (setBasis lp rows cols) = Some (mark_fixed lp rows cols).
Proof.
  intros lp rows cols HV HZ.
  unfold isBasisValid, isBasisValid_rep in HV. and5 HV HLr HLc H1 H0 H2.
  apply Nat.eqb_eq in HLr. apply Nat.eqb_eq in HLc. apply Nat.eqb_eq in H2.
  unfold nRows in HLr. unfold nCols in HLc.
  unfold zero_only_free in HZ. apply andb_true_iff in HZ. destruct HZ as [HZr HZc].
  unfold setBasis.
  rewrite (to_desc_list_ok (b_rows lp) rows) by (try lia; assumption).
  rewrite (to_desc_list_ok (b_cols lp) cols) by (try lia; assumption).
  cbn [option_map]. f_equal.
  unfold loadDesc; cbn [d_rows d_cols].
  set (cr := map (fun p => conv (fst p) (snd p)) (combine (b_rows lp) rows)).
  set (cc := map (fun p => conv (fst p) (snd p)) (combine (b_cols lp) cols)).
  assert (Lcr : List.length cr = List.length (b_rows lp)).
  { unfold cr. rewrite map_length. apply combine_length_eq. lia. }
  assert (Lcc : List.length cc = List.length (b_cols lp)).
  { unfold cc. rewrite map_length. apply combine_length_eq. lia. }
  rewrite (count_dual_repair_list (b_rows lp) cr) by lia.
  rewrite (count_dual_repair_list (b_cols lp) cc) by lia.
  unfold cr at 1, cc at 1. rewrite !count_dual_conv by assumption.
  rewrite !map_snd_combine by lia. rewrite H2, Nat.eqb_refl.
  unfold getBasis, mark_fixed, mark_fixed_list; cbn [d_rows d_cols].
  unfold cr, cc. rewrite !repair_list_conv_map by lia. rewrite !map_map. cbn [fst snd].
  f_equal.
  - apply (map_combine_ext _ _ _ (fun v s => vs_entry_valid v s && zero_free1 v s)
             (fun v s => basisStatusToVarStatus (repair v (conv v s))) mark_fixed1).
    + apply forallb_combine_and; assumption.
    + apply roundtrip_entry.
  - apply (map_combine_ext _ _ _ (fun v s => vs_entry_valid v s && zero_free1 v s)
             (fun v s => basisStatusToVarStatus (repair v (conv v s))) mark_fixed1).
    + apply forallb_combine_and; assumption.
    + apply roundtrip_entry.
Qed.

(* a valid descriptor reads back as a valid basis *)
Lemma entry_valid_vs : forall v s, entry_valid v s = true -> vs_entry_valid v (basisStatusToVarStatus s) = true.
Proof.
  intros v s H. destruct v as [[l|] [u|] o]; destruct s; cbn in *; try reflexivity; try discriminate;
    unfold entry_valid, bounds_eq, up_fin, lo_fin, is_dual, ds_eqb in H; cbn in H;
    try (destruct (Qeq_bool l u); cbn in *; try reflexivity; discriminate); try discriminate.
Qed.

Lemma vs_entries_valid_getBasis : forall vs ds, entries_valid vs ds = true ->
  vs_entries_valid vs (map basisStatusToVarStatus ds) = true.
Proof.
  unfold entries_valid, vs_entries_valid. induction vs as [|v vs IH]; intros ds H; cbn; [reflexivity|].
  destruct ds as [|s ds]; cbn in *; [reflexivity|].
  apply andb_true_iff in H. destruct H as [H1 H2]. rewrite (entry_valid_vs _ _ H1), (IH ds H2). reflexivity.
Qed.

Lemma count_basic_getBasis : forall ds, count_basic (map basisStatusToVarStatus ds) = count_dual ds.
Proof.
  unfold count_basic, count_dual. induction ds as [|s ds IH]; cbn; [reflexivity|].
  destruct s; cbn; rewrite IH; reflexivity.
Qed.

Lemma descvalid_basisvalid : forall lp d, isDescValid lp d = true ->
  isBasisValid lp (fst (getBasis d)) (snd (getBasis d)) = true.
Proof.
  intros lp d H. pose proof (isDescValid_count lp d H) as [Lr [Lc [Cn _]]].
  unfold isDescValid in H. and5 H H1 H2 H3 H4 H5.
  unfold isBasisValid, isBasisValid_rep, getBasis; cbn [fst snd].
  repeat (apply andb_true_iff; split).
  - rewrite map_length. apply Nat.eqb_eq. exact Lr.
  - rewrite map_length. apply Nat.eqb_eq. exact Lc.
  - apply vs_entries_valid_getBasis. exact H3.
  - apply vs_entries_valid_getBasis. exact H4.
  - rewrite !count_basic_getBasis. apply Nat.eqb_eq. exact Cn.
Qed.

Lemma to_desc_list_length : forall vs ss l, List.length vs = List.length ss -> to_desc_list vs ss = Some l ->
  List.length l = List.length vs.
Proof.
  induction vs as [|v vs IH]; intros ss l HL H; destruct ss as [|s ss]; cbn in *; try discriminate.
  - inversion H. reflexivity.
  - destruct (varStatusToBasisStatus v s); [|discriminate].
    destruct (to_desc_list vs ss) eqn:E; [|discriminate]. inversion H. cbn. rewrite (IH ss l0) by (try lia; assumption).
    reflexivity.
Qed.

(* whatever arrays of the right lengths are passed to setBasis while the LP is in the solver: if the call returns,
   the basis that is reported afterwards is valid *)
Lemma setBasis_reports_valid : forall lp rows cols d,
  List.length rows = nRows lp -> List.length cols = nCols lp ->
  setBasis lp rows cols = Some d ->
  isBasisValid lp (fst (getBasis d)) (snd (getBasis d)) = true.
Proof.
  intros lp rows cols d Hr Hc H. unfold setBasis in H.
  destruct (to_desc_list (b_rows lp) rows) as [r|] eqn:Er; [|discriminate].
  destruct (to_desc_list (b_cols lp) cols) as [c|] eqn:Ec; [|discriminate].
  inversion H. apply descvalid_basisvalid. apply loadDesc_valid; cbn.
  - apply (to_desc_list_length _ rows); [unfold nRows in Hr; lia | exact Er].
  - apply (to_desc_list_length _ cols); [unfold nCols in Hc; lia | exact Ec].
Qed.

(* ---------------------------------------------------------------------------------------------------------- *)
(* the queries of SoPlexBase agree in all three storage branches                                              *)
(* ---------------------------------------------------------------------------------------------------------- *)

Definition store_wf (lp : blp) (st : store) : Prop :=
  match st with
  | NoBasis => True
  | Outside r c => List.length r = nRows lp /\ List.length c = nCols lp
  | Inside d => List.length (d_rows d) = nRows lp /\ List.length (d_cols d) = nCols lp
  end.

Lemma basic_positions_all : forall (A : Type) (l : list A) k,
  basic_positions k (map (fun _ => BASIC) l) = seq k (List.length l).
Proof. intros A l. induction l as [|a l IH]; intros k; cbn; [reflexivity|]. rewrite IH. reflexivity. Qed.

Lemma basic_positions_slack : forall vs k, basic_positions k (map slack_col vs) = [].
Proof.
  induction vs as [|v vs IH]; intros k; cbn; [reflexivity|].
  unfold slack_col at 1. destruct (lo_fin v); cbn; [apply IH|]. destruct (up_fin v); cbn; apply IH.
Qed.

Lemma basic_positions_length : forall l k, List.length (basic_positions k l) = count_basic l.
Proof.
  unfold count_basic. induction l as [|s l IH]; intros k; cbn; [reflexivity|].
  destruct (vs_eqb s BASIC); cbn; rewrite IH; reflexivity.
Qed.

Lemma nth_map_lt : forall (A B : Type) (f : A -> B) (l : list A) i d d', i < List.length l ->
  nth i (map f l) d = f (nth i l d').
Proof.
  intros A B f l i d d' H. rewrite (nth_indep _ d (f d')) by (rewrite map_length; exact H). apply map_nth.
Qed.

Lemma queries_agree : forall lp st, store_wf lp st ->
  (forall i, i < nRows lp -> sp_rowStatus lp st i = nth i (fst (sp_getBasis lp st)) UNDEFINED) /\
  (forall j, j < nCols lp -> sp_colStatus lp st j = nth j (snd (sp_getBasis lp st)) UNDEFINED) /\
  sp_getBasisInd lp st = ind_of (fst (sp_getBasis lp st)) (snd (sp_getBasis lp st)).
Proof.
  intros lp st WF. destruct st as [|r c|d]; cbn in WF.
  - split; [|split].
    + intros i Hi. unfold sp_rowStatus. pose proof Hi as Hi'. apply Nat.ltb_lt in Hi. rewrite Hi. cbn [sp_getBasis fst].
      rewrite (nth_map_lt _ _ (fun _ : var => BASIC) _ i UNDEFINED (mkVar None None 0%Q)) by exact Hi'. reflexivity.
    + intros j Hj. unfold sp_colStatus. pose proof Hj as Hj'. apply Nat.ltb_lt in Hj. rewrite Hj. cbn [sp_getBasis snd].
      rewrite (nth_map_lt _ _ slack_col _ j UNDEFINED (mkVar None None 0%Q)) by exact Hj'. reflexivity.
    + cbn [sp_getBasisInd sp_getBasis fst snd]. unfold ind_of. rewrite basic_positions_all, basic_positions_slack.
      cbn [map]. rewrite app_nil_r. reflexivity.
  - split; [|split].
    + intros i Hi. unfold sp_rowStatus. apply Nat.ltb_lt in Hi. rewrite Hi. reflexivity.
    + intros j Hj. unfold sp_colStatus. apply Nat.ltb_lt in Hj. rewrite Hj. reflexivity.
    + reflexivity.
  - destruct WF as [Lr Lc]. split; [|split].
    + intros i Hi. unfold sp_rowStatus. pose proof Hi as Hi'. apply Nat.ltb_lt in Hi. rewrite Hi.
      cbn [sp_getBasis getBasis fst].
      rewrite (nth_map_lt _ _ basisStatusToVarStatus _ i UNDEFINED D_UNDEFINED) by lia. reflexivity.
    + intros j Hj. unfold sp_colStatus. pose proof Hj as Hj'. apply Nat.ltb_lt in Hj. rewrite Hj.
      cbn [sp_getBasis getBasis snd].
      rewrite (nth_map_lt _ _ basisStatusToVarStatus _ j UNDEFINED D_UNDEFINED) by lia. reflexivity.
    + reflexivity.
Qed.

Lemma ind_of_length : forall rows cols, List.length (ind_of rows cols) = count_basic rows + count_basic cols.
Proof. intros. unfold ind_of. rewrite app_length, !map_length, !basic_positions_length. reflexivity. Qed.
