(* Dense vectors over Q as finitely supported sequences (lists padded with zeros): every operation is total and
   the algebraic laws hold without length side conditions.  Equality of numbers is Qeq (==). *)
From Coq Require Import QArith List Lia Lqa Setoid Morphisms.
Import ListNotations.
Local Open Scope Q_scope.

Fixpoint dot (u v : list Q) : Q :=
  match u, v with
  | a :: u', b :: v' => a * b + dot u' v'
  | _, _ => 0
  end.

Fixpoint vadd (u v : list Q) : list Q :=
  match u, v with
  | a :: u', b :: v' => (a + b) :: vadd u' v'
  | [], _ => v
  | _, [] => u
  end.

Definition vscale (c : Q) (u : list Q) : list Q := map (Qmult c) u.

(* i-th entry, zero beyond the end *)
Fixpoint vnth (u : list Q) (i : nat) : Q :=
  match u, i with
  | [], _ => 0
  | a :: _, O => a
  | _ :: u', S k => vnth u' k
  end.

(* matrix = list of rows *)
Definition mat_vec (A : list (list Q)) (x : list Q) : list Q := map (fun a => dot a x) A.

(* y^T A as a vector: sum_i y_i * row_i *)
Fixpoint tmat_vec (A : list (list Q)) (y : list Q) : list Q :=
  match A, y with
  | a :: A', yi :: y' => vadd (vscale yi a) (tmat_vec A' y')
  | _, _ => []
  end.

Lemma dot_nil_r u : dot u [] = 0.
Proof. destruct u; reflexivity. Qed.

Lemma dot_comm u v : dot u v == dot v u.
Proof. revert v; induction u as [|a u IH]; intros [|b v]; simpl; try reflexivity. rewrite IH. ring. Qed.

Lemma dot_vadd_l u v z : dot (vadd u v) z == dot u z + dot v z.
Proof.
  revert v z; induction u as [|a u IH]; intros v z; simpl.
  - ring.
  - destruct v as [|b v]; destruct z as [|c z]; simpl; try ring. rewrite IH. ring.
Qed.

Lemma dot_vscale_l c u z : dot (vscale c u) z == c * dot u z.
Proof.
  revert z; induction u as [|a u IH]; intros [|b z]; simpl; try ring. unfold vscale in IH. rewrite IH. ring.
Qed.

Lemma dot_vadd_r z u v : dot z (vadd u v) == dot z u + dot z v.
Proof. rewrite dot_comm, dot_vadd_l, (dot_comm u z), (dot_comm v z). reflexivity. Qed.

Lemma dot_vscale_r c z u : dot z (vscale c u) == c * dot z u.
Proof. rewrite dot_comm, dot_vscale_l, (dot_comm u z). reflexivity. Qed.

(* the transposition identity behind weak duality:  (y^T A) z = y^T (A z) *)
Lemma dot_tmat_vec A : forall y z, dot (tmat_vec A y) z == dot y (mat_vec A z).
Proof.
  induction A as [|a A IH]; intros [|yi y] z; simpl; try reflexivity.
  rewrite dot_vadd_l, dot_vscale_l, IH. reflexivity.
Qed.

Lemma vnth_vadd u v i : vnth (vadd u v) i == vnth u i + vnth v i.
Proof.
  revert v i; induction u as [|a u IH]; intros v i; simpl.
  - ring.
  - destruct v as [|b v]; destruct i as [|k]; simpl; try ring. apply IH.
Qed.

Lemma vnth_vscale c u i : vnth (vscale c u) i == c * vnth u i.
Proof. revert i; induction u as [|a u IH]; intros [|k]; simpl; try ring. apply IH. Qed.

(* dot as a sum over positions, used to bound it term by term *)
Lemma dot_cons a u b v : dot (a :: u) (b :: v) = a * b + dot u v.
Proof. reflexivity. Qed.

(* term-wise bound: if every product is bounded below by the corresponding entry of w (padded), so is the dot *)
Fixpoint vsum (u : list Q) : Q := match u with [] => 0 | a :: r => a + vsum r end.

Lemma dot_ge_termwise : forall (u v w : list Q),
  length w = length u -> length v = length u ->
  (forall i, (i < length u)%nat -> vnth w i <= vnth u i * vnth v i) -> vsum w <= dot u v.
Proof.
  induction u as [|a u IH]; intros [|b v] [|c w] Hw Hv H; simpl in *; try discriminate; try lra.
  assert (c <= a * b) by (apply (H 0%nat); lia).
  assert (vsum w <= dot u v).
  { apply IH; try lia. intros i Hi. apply (H (S i)). lia. }
  lra.
Qed.

Lemma vnth_map_dot A x i : (i < length A)%nat -> vnth (mat_vec A x) i == dot (nth i A []) x.
Proof.
  revert i; induction A as [|a A IH]; intros [|i] H; simpl in *; try lia; try reflexivity. apply IH. lia.
Qed.

Lemma mat_vec_length A x : length (mat_vec A x) = length A.
Proof. apply map_length. Qed.
