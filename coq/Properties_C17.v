(* C17 - copies are independent: ownership obligation over the copy table regenerated from the current source.
   (Determinism of solves and equality of copies are decided dynamically; see checks/C17.py.)
   Second part: the pseudo-random generator every solver owns (class Random, the only source of randomness in a solve),
   modelled in RandomModel.v and compared with the class and with SoPlexBase::setRandomSeed / copies on every run. *)
From Coq Require Import List String Bool NArith QArith.
From SV Require Import CopyGraph CopyGraph_Proofs RandomModel Random_Proofs.
From SVG Require Import Gen_Copy.
Import ListNotations.

(* Every pointer-like member of SoPlexBase<R> is cloned, deep-copied, re-bound to an own member or left alone by
   operator= - none is assigned from the source (which would make both objects designate one mutable cell). *)
Theorem C17_copy_table_safe : table_safe gen_copy_table = true.
Proof. vm_compute. reflexivity. Qed.
Print Assumptions C17_copy_table_safe.

(* Hence, in the ownership model, no member of a copy designates a cell of its source, *)
Theorem C17_no_member_aliases_source :
  forall s c, s <> c -> forall e src_cell, In e gen_copy_table -> fst src_cell = s -> fst (cell_of_copy c e src_cell) <> s.
Proof. intros s c H. exact (safe_table_no_aliasing gen_copy_table s c C17_copy_table_safe H). Qed.
Print Assumptions C17_no_member_aliases_source.

(* and a write through any member of the copy is invisible through the source (for every heap and value). *)
Theorem C17_write_to_copy_invisible_to_source :
  forall s c (h : heap), s <> c -> forall e src_cell v k, In e gen_copy_table -> fst src_cell = s -> fst k = s ->
    write h (cell_of_copy c e src_cell) v k = h k.
Proof. intros s c h H. exact (copy_write_frame gen_copy_table s c h C17_copy_table_safe H). Qed.
Print Assumptions C17_write_to_copy_invisible_to_source.

(* The criterion is sharp: an entry that is not safe makes the write visible. *)
Theorem C17_unsafe_entry_would_alias :
  forall (c : obj) e src_cell (h : heap) v, safe (snd (fst e)) (snd e) = false -> write h (cell_of_copy c e src_cell) v src_cell = v.
Proof. intros c. exact (unsafe_entry_aliases c c). Qed.
Print Assumptions C17_unsafe_entry_would_alias.

Example C17_ex_table_nontrivial : In ("_tolerances"%string, DShared, HCloneShared) gen_copy_table /\ In ("_realLP"%string, DRaw, HCloneHeap) gen_copy_table.
Proof. split; vm_compute; tauto. Qed.
Example C17_ex_shared_assignment_is_unsafe : table_safe [("_tolerances"%string, DShared, HAssign)] = false.
Proof. reflexivity. Qed.

(* ---------------------------------------------------------------------------------------------------------------- *)
(* The generator (RandomModel.v mirrors random.h member by member, wrap-around written out). *)

(* Re-seeding forgets the history: whatever two generators did before, after setSeed(s) they are in the same state and
   produce the same stream - the stream is a function of the seed alone ("same seed, same results"). *)
Theorem C17_rng_reseed_forgets_history : forall r1 r2 h1 h2 s ops,
  snd (rrun r1 (h1 ++ RSeed s :: ops)) = snd (rrun r1 h1) ++ snd (rrun (set_seed s) ops) /\
  fst (rrun r1 (h1 ++ RSeed s :: ops)) = fst (rrun r2 (h2 ++ RSeed s :: ops)).
Proof. exact stream_function_of_seed. Qed.
Print Assumptions C17_rng_reseed_forgets_history.

(* All members stay 32-bit values and every returned numerator is at most UINT32_MAX, for every operation sequence. *)
Theorem C17_rng_state_and_outputs_in_range : forall ops r, rng_wf r -> (forall s, In (RSeed s) ops -> (s < M32)%N) ->
  rng_wf (fst (rrun r ops)) /\ Forall (fun v => (v < M32)%N) (snd (rrun r ops)).
Proof. exact rrun_wf. Qed.
Print Assumptions C17_rng_state_and_outputs_in_range.

(* so next_random() lies in [0,1] and next(minimum, maximum) in [minimum, maximum] (exact arithmetic; the rounding of the
   double operations is not modelled) *)
Theorem C17_rng_value_in_unit_interval : forall v, (v < M32)%N -> (0 <= qval v /\ qval v <= 1)%Q.
Proof. exact qval_unit. Qed.
Print Assumptions C17_rng_value_in_unit_interval.

Theorem C17_rng_next_in_range : forall mn mx r, (mn <= mx -> 0 <= r -> r <= 1 -> mn <= qnext mn mx r /\ qnext mn mx r <= mx)%Q.
Proof. exact qnext_in_range. Qed.
Print Assumptions C17_rng_next_in_range.

(* The xorshift component never reaches 0, its absorbing state (this is what SOPLEX_MAX(seed, 1u) in setSeed is for):
   from any well-formed state with a non-zero xorshift word, for every sequence of setSeed / next. *)
Theorem C17_rng_xorshift_never_zero : forall ops r, rng_wf r -> xor_seed r <> 0%N -> (forall s, In (RSeed s) ops -> (s < M32)%N) ->
  xor_seed (fst (rrun r ops)) <> 0%N.
Proof. exact xor_state_nonzero. Qed.
Print Assumptions C17_rng_xorshift_never_zero.

Theorem C17_rng_seeded_state_wellformed : forall s, (s < M32)%N -> rng_wf (set_seed s).
Proof. exact set_seed_wf. Qed.
Print Assumptions C17_rng_seeded_state_wellformed.

(* the default generator (Random(0), as constructed inside every SPxSolverBase) and its first value *)
Example C17_ex_rng_default :
  rng_default = mkrng 0 231794730 3135323351 1712429826 84810976 /\ snd (next_random rng_default) = 1080053375%N.
Proof. vm_compute. split; reflexivity. Qed.
(* the wrap-around matters: the seed 4294967295 - 123456788 makes the linear word 0 before SOPLEX_MAX *)
Example C17_ex_rng_zero_guard : lin_seed (mkrng 0 (at_least_one ((123456789 + 4171510507) mod M32)) 1 1 1) = 1%N.
Proof. reflexivity. Qed.
