(* C17 - copies are independent: ownership obligation over the copy table regenerated from the current source.
   (Determinism of solves and equality of copies are decided dynamically; see checks/C17.py.) *)
From Coq Require Import List String Bool.
From SV Require Import CopyGraph CopyGraph_Proofs.
From SVG Require Import Gen_Copy.
Import ListNotations.

(* Every pointer-like member of SoPlexBase<R> is cloned, deep-copied, re-bound to an own member or left alone by
   operator= - none is assigned from the source (which would make both objects designate one mutable cell). *)
Theorem C17_copy_table_safe : table_safe gen_copy_table = true.
Proof. vm_compute. reflexivity. Qed.
Print Assumptions C17_copy_table_safe.

(* Hence, in the ownership model, no member of a copy designates a cell of its source, *)
Theorem C17_no_member_aliases_source :
  forall s c, s <> c -> forall e src_cell, In e gen_copy_table -> fst src_cell = s -> fst (cell_of_copy c e src_cell) <> s.
Proof. intros s c H. exact (safe_table_no_aliasing gen_copy_table s c C17_copy_table_safe H). Qed.
Print Assumptions C17_no_member_aliases_source.

(* and a write through any member of the copy is invisible through the source (for every heap and value). *)
Theorem C17_write_to_copy_invisible_to_source :
  forall s c (h : heap), s <> c -> forall e src_cell v k, In e gen_copy_table -> fst src_cell = s -> fst k = s ->
    write h (cell_of_copy c e src_cell) v k = h k.
Proof. intros s c h H. exact (copy_write_frame gen_copy_table s c h C17_copy_table_safe H). Qed.
Print Assumptions C17_write_to_copy_invisible_to_source.

(* The criterion is sharp: an entry that is not safe makes the write visible. *)
Theorem C17_unsafe_entry_would_alias :
  forall (c : obj) e src_cell (h : heap) v, safe (snd (fst e)) (snd e) = false -> write h (cell_of_copy c e src_cell) v src_cell = v.
Proof. intros c. exact (unsafe_entry_aliases c c). Qed.
Print Assumptions C17_unsafe_entry_would_alias.

Example C17_ex_table_nontrivial : In ("_tolerances"%string, DShared, HCloneShared) gen_copy_table /\ In ("_realLP"%string, DRaw, HCloneHeap) gen_copy_table.
Proof. split; vm_compute; tauto. Qed.
Example C17_ex_shared_assignment_is_unsafe : table_safe [("_tolerances"%string, DShared, HAssign)] = false.
Proof. reflexivity. Qed.
