(* C19 - executable model of soplex::DataSet<DATA> / soplex::ClassSet<T> (src/soplex/dataset.h, classset.h).

   The concrete representation is mirrored field by field:
     theitem[i].data  -> data  (list D, length themax)
     theitem[i].info  -> info  (list Z, length themax): >= 0 the number of the element stored in slot i,
                                < 0 a link of the free list (-next-1, or -themax-1 for the end of the list)
     thekey[n].idx    -> keys  (list Z, length themax): slot of the element with number n (valid for n < thenum)
     themax, thesize, thenum, firstfree as in the code.
   (struct-of-arrays instead of array-of-structs; DataKey::info is not used by DataSet.)
   Integers are Z and array accesses go through getn / setn, which are total (reads outside the array return a
   default, writes outside are dropped); the theorems show that under the invariant every access of every operation
   is inside its array.  Loops of the code are structural recursions over a counter (the number of iterations the
   C++ loop can make is bounded by thesize resp. num(), shown in the proofs).
   The abstract specification is the list of (key, element) in number order.  No proofs in this file. *)
From Coq Require Import List ZArith Bool.
Import ListNotations.
Local Open Scope Z_scope.

(* ------------------------------------------------------------------ arrays *)
Definition zlen {A} (l : list A) : Z := Z.of_nat (length l).

Definition getn {A} (d : A) (l : list A) (i : Z) : A :=
  if i <? 0 then d else nth (Z.to_nat i) l d.

Fixpoint setnat {A} (l : list A) (n : nat) (x : A) : list A :=
  match l, n with
  | [], _ => []
  | _ :: r, O => x :: r
  | y :: r, S k => y :: setnat r k x
  end.

Definition setn {A} (l : list A) (i : Z) (x : A) : list A :=
  if i <? 0 then l else setnat l (Z.to_nat i) x.

(* realloc to n entries: the common prefix is kept, new entries are unspecified (the model fills in d) *)
Definition resize {A} (d : A) (n : Z) (l : list A) : list A :=
  firstn (Z.to_nat n) l ++ repeat d (Z.to_nat n - length l).

(* the first n entries of src followed by the rest of dst (element-wise copy loops of operator=) *)
Definition copy_prefix {A} (n : Z) (src dst : list A) : list A :=
  firstn (Z.to_nat n) src ++ skipn (Z.to_nat n) dst.

Definition zrange (n : Z) : list Z := map Z.of_nat (seq 0 (Z.to_nat n)).

Section DataSet.
Variable D : Type.
Variable d0 : D.

Record ds := mkDS {
  data : list D;
  info : list Z;
  keys : list Z;
  themax : Z;
  thesize : Z;
  thenum : Z;
  firstfree : Z
}.

(* DataSet(int pmax = 8) *)
Definition ds_init (pmax : Z) : ds :=
  let m := if pmax <? 1 then 8 else pmax in
  mkDS (repeat d0 (Z.to_nat m)) (repeat 0 (Z.to_nat m)) (repeat (-1) (Z.to_nat m)) m 0 0 (- m - 1).

(* ---- inquiry *)
Definition ds_has_num (s : ds) (n : Z) : bool := (0 <=? n) && (n <? thenum s).
(* number(const DataKey&): None = throws SPxException("Invalid index") *)
Definition ds_number (s : ds) (k : Z) : option Z :=
  if (k <? 0) || (thesize s <=? k) then None else Some (getn 0 (info s) k).
(* has(const DataKey&) (reads theitem[k.idx].info: the caller must pass 0 <= idx < max) *)
Definition ds_has_key (s : ds) (k : Z) : bool := 0 <=? getn 0 (info s) k.
Definition ds_key (s : ds) (n : Z) : Z := getn (-1) (keys s) n.
Definition ds_elem_num (s : ds) (n : Z) : D := getn d0 (data s) (ds_key s n).
Definition ds_elem_key (s : ds) (k : Z) : D := getn d0 (data s) k.

(* ---- create(DataKey&) followed by *data = item  (precondition num() < max()) *)
Definition ds_create (s : ds) : ds * Z :=
  let '(idx, ff, size) :=
    if firstfree s =? - themax s - 1 then (thesize s, firstfree s, thesize s + 1)
    else let i := - firstfree s - 1 in (i, getn 0 (info s) i, thesize s) in
  (mkDS (data s) (setn (info s) idx (thenum s)) (setn (keys s) (thenum s) idx)
        (themax s) size (thenum s + 1) ff, idx).

Definition ds_add (s : ds) (x : D) : ds * Z :=
  let '(s1, idx) := ds_create s in
  (mkDS (setn (data s1) idx x) (info s1) (keys s1) (themax s1) (thesize s1) (thenum s1) (firstfree s1), idx).

(* add(DataKey newkey[], const DATA* item, int n) *)
Fixpoint ds_add_many (s : ds) (xs : list D) : ds * list Z :=
  match xs with
  | [] => (s, [])
  | x :: r => let '(s1, k) := ds_add s x in let '(s2, ks) := ds_add_many s1 r in (s2, k :: ks)
  end.

(* ---- remove(int removenum): "while(-firstfree == thesize) { firstfree = theitem[-firstfree-1].info; --thesize; }" *)
Fixpoint ds_shrink (fuel : nat) (inf : list Z) (ff size : Z) : Z * Z :=
  match fuel with
  | O => (ff, size)
  | S f => if - ff =? size then ds_shrink f inf (getn 0 inf (- ff - 1)) (size - 1) else (ff, size)
  end.

Definition ds_remove_num (s : ds) (n : Z) : ds :=
  if ds_has_num s n then
    let idx := getn (-1) (keys s) n in
    let inf1 := setn (info s) idx (firstfree s) in
    let '(ff, size) := ds_shrink (S (Z.to_nat (thesize s))) inf1 (- idx - 1) (thesize s) in
    let num := thenum s - 1 in
    if n =? num then mkDS (data s) inf1 (keys s) (themax s) size num ff
    else
      let k := getn (-1) (keys s) num in
      mkDS (data s) (setn inf1 k n) (setn (keys s) n k) (themax s) size num ff
  else s.

(* remove(const DataKey&) = remove(number(key)); None = number() throws *)
Definition ds_remove_key (s : ds) (k : Z) : option ds :=
  match ds_number s k with
  | None => None
  | Some n => Some (ds_remove_num s n)
  end.

(* ---- remove(int perm[]) : first loop *)
Fixpoint ds_pass1 (cnt : nat) (k : Z) (kys : list Z) (perm : list Z) (j : Z) (inf : list Z) (ff first : Z)
  : list Z * list Z * Z * Z :=
  match cnt with
  | O => (perm, inf, ff, first)
  | S c =>
      if 0 <=? getn 0 perm k then ds_pass1 c (k + 1) kys (setn perm k j) (j + 1) inf ff first
      else
        let idx := getn (-1) kys k in
        ds_pass1 c (k + 1) kys perm j (setn inf idx ff) (- idx - 1) (if first <? 0 then k else first)
  end.

(* second loop: for(k = first, j = num(); k < j; ++k) *)
Fixpoint ds_pass2 (cnt : nat) (k : Z) (perm : list Z) (kys : list Z) (inf : list Z) (num : Z)
  : list Z * list Z * Z :=
  match cnt with
  | O => (kys, inf, num)
  | S c =>
      let p := getn 0 perm k in
      if 0 <=? p then
        let kys1 := setn kys p (getn (-1) kys k) in
        let inf1 := setn inf (getn (-1) kys1 k) p in
        ds_pass2 c (k + 1) perm (setn kys1 k (-1)) inf1 num
      else ds_pass2 c (k + 1) perm kys inf (num - 1)
  end.

(* perm must have (at least) num() entries; returns the rewritten perm *)
Definition ds_remove_perm (s : ds) (perm : list Z) : ds * list Z :=
  let n := Z.to_nat (thenum s) in
  let '(perm1, inf1, ff1, first) := ds_pass1 n 0 (keys s) perm 0 (info s) (firstfree s) (-1) in
  if 0 <=? first then
    let '(kys2, inf2, num2) := ds_pass2 (Z.to_nat (thenum s - first)) first perm1 (keys s) inf1 (thenum s) in
    (mkDS (data s) inf2 kys2 (themax s) (thesize s) num2 ff1, perm1)
  else (mkDS (data s) inf1 (keys s) (themax s) (thesize s) (thenum s) ff1, perm1).

(* remove(const int* nums, int n, int* perm): perm[i] = i; perm[nums[k]] = -1 (last to first); remove(perm) *)
Definition mark_perm (perm : list Z) (nums : list Z) : list Z :=
  fold_right (fun n p => setn p n (-1)) perm nums.
Definition ds_remove_nums (s : ds) (nums : list Z) : ds * list Z :=
  ds_remove_perm s (mark_perm (zrange (thenum s)) nums).
(* remove(const DataKey* keys, int n, int* perm): perm[number(keys[k])] = -1 *)
Definition ds_remove_keys (s : ds) (ks : list Z) : ds * list Z :=
  ds_remove_perm s (mark_perm (zrange (thenum s)) (map (fun k => getn 0 (info s) k) ks)).

(* ---- clear() *)
Definition ds_clear (s : ds) : ds :=
  mkDS (data s) (info s) (keys s) (themax s) 0 0 (- themax s - 1).

(* ---- the walk "lastfree = &firstfree; while(*lastfree != -themax-1) lastfree = &theitem[-1 - *lastfree].info":
   cell = -1 stands for &firstfree, otherwise the slot whose info is pointed to; v = *lastfree *)
Fixpoint ds_last_cell (fuel : nat) (inf : list Z) (endm : Z) (cell v : Z) : Z :=
  match fuel with
  | O => cell
  | S f => if v =? endm then cell else ds_last_cell f inf endm (- 1 - v) (getn 0 inf (- 1 - v))
  end.

(* ---- reMax(int newmax) *)
Definition ds_remax (s : ds) (newmax0 : Z) : ds :=
  let newmax := if newmax0 <? thesize s then thesize s else newmax0 in
  let cell := ds_last_cell (S (Z.to_nat (thesize s))) (info s) (- themax s - 1) (-1) (firstfree s) in
  let ff := if cell =? -1 then - newmax - 1 else firstfree s in
  let inf := if cell =? -1 then info s else setn (info s) cell (- newmax - 1) in
  mkDS (resize d0 newmax (data s)) (resize 0 newmax inf) (resize (-1) newmax (keys s))
       newmax (thesize s) (thenum s) ff.

(* ---- copy constructor: arrays copied as a whole *)
Definition ds_copy (s : ds) : ds := s.

(* ---- lhs = rhs (operator=) *)
Definition ds_assign (lhs rhs : ds) : ds :=
  let l1 := if themax lhs <? thesize rhs then ds_remax lhs (thesize rhs) else lhs in
  let l2 := ds_clear l1 in
  let dat := copy_prefix (thesize rhs) (data rhs) (data l2) in
  let inf := copy_prefix (thesize rhs) (info rhs) (info l2) in
  let kys := copy_prefix (thenum rhs) (keys rhs) (keys l2) in
  if firstfree rhs =? - themax rhs - 1 then
    mkDS dat inf kys (themax l2) (thesize rhs) (thenum rhs) (- themax l2 - 1)
  else
    let cell := ds_last_cell (S (Z.to_nat (thesize rhs))) (info rhs) (- themax rhs - 1) (-1) (firstfree rhs) in
    mkDS dat (setn inf cell (- themax l2 - 1)) kys (themax l2) (thesize rhs) (thenum rhs) (firstfree rhs).

(* ---- element modification through operator[] *)
Definition ds_set_num (s : ds) (n : Z) (x : D) : ds :=
  if ds_has_num s n then
    mkDS (setn (data s) (ds_key s n) x) (info s) (keys s) (themax s) (thesize s) (thenum s) (firstfree s)
  else s.

(* ------------------------------------------------------------------ operations and observations *)
Inductive op :=
| OAdd (x : D)                 (* add(key, x)                 guard: num() < max() *)
| OAddMany (xs : list D)       (* add(keys[], xs, n)          guard: num() + n <= max() *)
| ORemove (n : Z)              (* remove(int)                 (the code itself tests has(n)) *)
| ORemoveKey (k : Z)           (* remove(DataKey)             throws for idx outside [0,size()) *)
| ORemovePerm (p : list Z)     (* remove(int perm[]) with perm[k] = nth k p 0 for k < num() *)
| ORemoveNums (ns : list Z)    (* remove(nums, n, perm)       guard: every number in [0,num()) *)
| ORemoveKeys (ks : list Z)    (* remove(keys, n, perm)       guard: every key in [0,size()) and in use *)
| OClear
| OReMax (m : Z)
| OSet (n : Z) (x : D)         (* operator[](n) = x            guard inside: has(n) *)
| OCopy                        (* continue with a copy-constructed set *)
| OAssign (m : Z).             (* continue with t, where DataSet t(m); t = this set *)

Inductive out :=
| RNone
| RSkip                        (* documented precondition violated: operation not performed *)
| RExc                         (* SPxException *)
| RKey (k : Z)
| RKeys (ks : list Z)
| RPerm (p : list Z).

Definition pad_perm (s : ds) (p : list Z) : list Z := map (fun k => getn 0 p k) (zrange (thenum s)).

Definition ds_step (s : ds) (o : op) : ds * out :=
  match o with
  | OAdd x => if thenum s <? themax s then let '(s', k) := ds_add s x in (s', RKey k) else (s, RSkip)
  | OAddMany xs =>
      if thenum s + zlen xs <=? themax s then let '(s', ks) := ds_add_many s xs in (s', RKeys ks) else (s, RSkip)
  | ORemove n => (ds_remove_num s n, RNone)
  | ORemoveKey k => match ds_remove_key s k with None => (s, RExc) | Some s' => (s', RNone) end
  | ORemovePerm p => let '(s', p') := ds_remove_perm s (pad_perm s p) in (s', RPerm p')
  | ORemoveNums ns =>
      if forallb (ds_has_num s) ns then let '(s', p') := ds_remove_nums s ns in (s', RPerm p') else (s, RSkip)
  | ORemoveKeys ks =>
      if forallb (fun k => (0 <=? k) && (k <? thesize s) && ds_has_key s k) ks
      then let '(s', p') := ds_remove_keys s ks in (s', RPerm p') else (s, RSkip)
  | OClear => (ds_clear s, RNone)
  | OReMax m => (ds_remax s m, RNone)
  | OSet n x => (ds_set_num s n x, RNone)
  | OCopy => (ds_copy s, RNone)
  | OAssign m => (ds_assign (ds_init m) s, RNone)
  end.

Fixpoint ds_run (s : ds) (ops : list op) : ds :=
  match ops with
  | [] => s
  | o :: r => ds_run (fst (ds_step s o)) r
  end.

(* the free list as the list of slots reached from firstfree (for the observation and the invariant) *)
Fixpoint ds_free_list (fuel : nat) (inf : list Z) (endm : Z) (v : Z) : list Z :=
  match fuel with
  | O => []
  | S f => if v =? endm then [] else (- 1 - v) :: ds_free_list f inf endm (getn 0 inf (- 1 - v))
  end.
Definition ds_free (s : ds) : list Z :=
  ds_free_list (S (Z.to_nat (thesize s))) (info s) (- themax s - 1) (firstfree s).

(* ------------------------------------------------------------------ abstract specification *)
(* the set as its user sees it: (key, element) in number order *)
Definition aset := list (Z * D).

Definition ds_abs (s : ds) : aset :=
  map (fun n => (ds_key s n, ds_elem_num s n)) (zrange (thenum s)).

Definition a_keys (a : aset) : list Z := map fst a.

(* single removal: the last element takes the number of the removed one *)
Definition a_remove (n : Z) (a : aset) : aset :=
  if (0 <=? n) && (n <? zlen a) then
    match rev a with
    | [] => a
    | lst :: _ => if n =? zlen a - 1 then removelast a else setn (removelast a) n lst
    end
  else a.

(* multiple removal: survivors keep their relative order *)
Fixpoint a_remove_perm (perm : list Z) (a : aset) : aset :=
  match perm, a with
  | p :: perm', e :: a' => if 0 <=? p then e :: a_remove_perm perm' a' else a_remove_perm perm' a'
  | _, _ => []
  end.
(* and the permutation reports the new number of every survivor, removed entries stay negative *)
Fixpoint a_perm_out (perm : list Z) (j : Z) : list Z :=
  match perm with
  | [] => []
  | p :: r => if 0 <=? p then j :: a_perm_out r (j + 1) else p :: a_perm_out r j
  end.

Fixpoint a_number (a : aset) (k : Z) (n : Z) : option Z :=
  match a with
  | [] => None
  | (k', _) :: r => if k' =? k then Some n else a_number r k (n + 1)
  end.

Definition a_set (n : Z) (x : D) (a : aset) : aset :=
  if (0 <=? n) && (n <? zlen a) then setn a n (fst (getn (0, d0) a n), x) else a.

(* The abstract step.  The keys handed out by the implementation and the outcome of a removal by a key that is not
   in the set (exception or nothing, depending on how far the key array was ever used) are choices of the
   implementation: the abstract step takes them from the output; the refinement theorem shows that new keys are
   fresh and distinct.  Capacity is not part of the abstract state: an operation whose precondition on the capacity
   fails is reported as RSkip and changes nothing. *)
Definition a_key_at (a : aset) (n : Z) : Z := fst (getn (-1, d0) a n).

Definition astep (l : aset) (o : op) (r : out) : aset :=
  match o, r with
  | _, RSkip => l
  | OAdd x, RKey k => l ++ [(k, x)]
  | OAddMany xs, RKeys ks => l ++ combine ks xs
  | ORemove n, _ => a_remove n l
  | ORemoveKey k, _ => match a_number l k 0 with Some n => a_remove n l | None => l end
  | ORemovePerm p, _ => a_remove_perm (map (fun k => getn 0 p k) (zrange (zlen l))) l
  | ORemoveNums ns, _ => a_remove_perm (mark_perm (zrange (zlen l)) ns) l
  | ORemoveKeys ks, _ =>
      a_remove_perm (mark_perm (zrange (zlen l))
                               (map (fun k => match a_number l k 0 with Some n => n | None => -1 end) ks)) l
  | OClear, _ => []
  | OReMax m, _ => l
  | OSet n x, _ => a_set n x l
  | OCopy, _ => l
  | OAssign m, _ => l
  | _, _ => l
  end.

(* keys removed from the set by an operation *)
Definition a_removed (l : aset) (o : op) : list Z :=
  match o with
  | ORemove n => if (0 <=? n) && (n <? zlen l) then [a_key_at l n] else []
  | ORemoveKey k => [k]
  | ORemovePerm p => map (a_key_at l) (filter (fun n => getn 0 p n <? 0) (zrange (zlen l)))
  | ORemoveNums ns => map (a_key_at l) ns
  | ORemoveKeys ks => ks
  | OClear => a_keys l
  | _ => []
  end.

(* keys whose element an operation overwrites *)
Definition a_written (l : aset) (o : op) : list Z :=
  match o with
  | OSet n _ => if (0 <=? n) && (n <? zlen l) then [a_key_at l n] else []
  | _ => []
  end.

End DataSet.

Arguments data {D}. Arguments info {D}. Arguments keys {D}. Arguments themax {D}. Arguments thesize {D}.
Arguments thenum {D}. Arguments firstfree {D}. Arguments mkDS {D}.
Arguments ds_init {D}. Arguments ds_has_num {D}. Arguments ds_number {D}. Arguments ds_has_key {D}. Arguments ds_key {D}.
Arguments ds_elem_num {D}. Arguments ds_elem_key {D}. Arguments ds_create {D}. Arguments ds_add {D}.
Arguments ds_add_many {D}. Arguments ds_remove_num {D}. Arguments ds_remove_key {D}. Arguments ds_remove_perm {D}.
Arguments ds_remove_nums {D}. Arguments ds_remove_keys {D}. Arguments ds_clear {D}. Arguments ds_remax {D}.
Arguments ds_copy {D}. Arguments ds_assign {D}. Arguments ds_set_num {D}. Arguments ds_step {D}. Arguments ds_run {D}.
Arguments ds_free {D}. Arguments ds_abs {D}. Arguments pad_perm {D}. Arguments a_keys {D}. Arguments a_remove {D}.
Arguments a_remove_perm {D}. Arguments a_number {D}. Arguments a_set {D}. Arguments astep {D}. Arguments a_key_at {D}.
Arguments a_removed {D}. Arguments a_written {D}.
Arguments OAdd {D}. Arguments OAddMany {D}. Arguments ORemove {D}. Arguments ORemoveKey {D}. Arguments ORemovePerm {D}.
Arguments ORemoveNums {D}. Arguments ORemoveKeys {D}. Arguments OClear {D}. Arguments OReMax {D}. Arguments OSet {D}.
Arguments OCopy {D}. Arguments OAssign {D}.
