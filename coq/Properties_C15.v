(* C15 - Parameters: what is set is what is used; invalid values rejected atomically.
   Property theorems only; each is closed by [exact] of a lemma proved in Params_Proofs.v, instantiated with the
   parameter table regenerated from the current tree (gen/Gen_Params.v). *)
From Coq Require Import ZArith Bool List String.
From SV Require Import Dbl SettingsLexer SettingsLexer_Proofs ParamsModel Params_Proofs.
From SVG Require Import Gen_Params.
Import ListNotations.
Local Open Scope Z_scope.

Notation B := gen_btab.
Notation I := gen_itab.
Notation R := gen_rtab.

(* The regenerated table meets its obligations: names distinct, defaults inside their ranges and among the accepted
   values, accepted values inside the range and among the enumerators documented in soplex.h, wide ranges accept
   every probed value, and every component the model derives from a parameter exists in the table. *)
Theorem C15_table_ok : table_ok B I R = true.
Proof. vm_compute. reflexivity. Qed.
Print Assumptions C15_table_ok.

(* What is set is what is used: in every state reachable by any history of set / parse / load / reset /
   copy-settings operations, every stored value is valid for its parameter and the components in use
   (simplifier, scaler, starter, pricer, ratio tester, LU update, max updates, polishing, LP sense; tolerances,
   Markowitz threshold, LP offset) are exactly those the current parameter values select. *)
Theorem C15_reachable_states_consistent :
  forall lp ops, Consistent B I R (run B I R (init B I R lp) ops).
Proof. exact (run_consistent B I R C15_table_ok). Qed.
Print Assumptions C15_reachable_states_consistent.

(* A value inside the range / among the choices is accepted, the getter returns it, nothing else changes. *)
Theorem C15_int_in_range_accepted :
  forall i r v s, Consistent B I R s -> nth_error I i = Some r -> int_valid r v = true ->
    let res := set_int I true i v s in
    snd res = true /\ nth_error (iv (fst res)) i = Some v /\
    (forall k, k <> i -> nth_error (iv (fst res)) k = nth_error (iv s) k) /\
    bv (fst res) = bv s /\ rv (fst res) = rv s /\ seed (fst res) = seed s /\ lpd (fst res) = lpd s.
Proof. exact (set_int_accepts B I R). Qed.
Print Assumptions C15_int_in_range_accepted.

Theorem C15_real_in_range_accepted :
  forall i r v s, Consistent B I R s -> nth_error R i = Some r ->
    in_range (r_lo r) (r_up r) v = true -> r_settable r = true ->
    let res := set_real R true i v s in
    snd res = true /\ nth_error (rv (fst res)) i = Some v /\
    (forall k, k <> i -> nth_error (rv (fst res)) k = nth_error (rv s) k) /\
    bv (fst res) = bv s /\ iv (fst res) = iv s /\ seed (fst res) = seed s /\ lpd (fst res) = lpd s.
Proof. exact (set_real_accepts B I R). Qed.
Print Assumptions C15_real_in_range_accepted.

Theorem C15_bool_accepted :
  forall i r v s, Consistent B I R s -> nth_error B i = Some r -> b_settable r = true ->
    let res := set_bool B true i v s in
    snd res = true /\ nth_error (bv (fst res)) i = Some v /\
    (forall k, k <> i -> nth_error (bv (fst res)) k = nth_error (bv s) k) /\
    iv (fst res) = iv s /\ rv (fst res) = rv s /\ seed (fst res) = seed s /\ lpd (fst res) = lpd s /\
    dv (fst res) = dv s /\ tv (fst res) = tv s.
Proof. exact (set_bool_accepts B I R). Qed.
Print Assumptions C15_bool_accepted.

(* A value outside the range or not among the enumerated choices is rejected and the whole state is unchanged. *)
Theorem C15_int_invalid_rejected_atomically :
  forall ini i r v s, nth_error I i = Some r -> int_valid r v = false ->
    (ini = true \/ nth_error (iv s) i <> Some v) -> set_int I ini i v s = (s, false).
Proof. exact (set_int_rejects I). Qed.
Print Assumptions C15_int_invalid_rejected_atomically.

Theorem C15_real_out_of_range_rejected_atomically :
  forall i r v s, nth_error R i = Some r -> in_range (r_lo r) (r_up r) v = false ->
    set_real R true i v s = (s, false).
Proof. exact (set_real_rejects R). Qed.
Print Assumptions C15_real_out_of_range_rejected_atomically.

Theorem C15_nan_rejected_atomically :
  forall i r s, nth_error R i = Some r -> set_real R true i DNaN s = (s, false).
Proof. exact (set_real_rejects_nan R). Qed.
Print Assumptions C15_nan_rejected_atomically.

(* Whatever a settings line contains, a line that is reported as failed leaves the state untouched ... *)
Theorem C15_failed_line_changes_nothing :
  forall stod l s, snd (parse_line B I R stod l s) = false -> fst (parse_line B I R stod l s) = s.
Proof. exact (parse_false_noop B I R). Qed.
Print Assumptions C15_failed_line_changes_nothing.

(* ... and the line format written by saveSettingsFile ("type:name = value") is split into exactly these three
   tokens, so that parsing it is, by definition of [parse_tokens], the typed setter call. *)
Theorem C15_saved_line_format_tokenises :
  forall ty name val, ty <> [] -> name <> [] -> val <> [] -> clean 58 ty -> clean 61 name -> clean (-1) val ->
    tokenise (ty ++ [58] ++ name ++ [32; 61; 32] ++ val) = TOk ty name val.
Proof. exact tokenise_canonical. Qed.
Print Assumptions C15_saved_line_format_tokenises.

(* A line without '=' assigns nothing: it is blank/comment or a syntax error, and the state is unchanged.  In
   particular a line that stops right after the parameter name is rejected ... *)
Theorem C15_line_without_equals_sign_assigns_nothing :
  forall stod l s, ~ In 61%Z (cstr l) -> fst (parse_line B I R stod l s) = s.
Proof.
  intros stod l s H; unfold parse_line; destruct (tokenise_without_eq l H) as [E|E]; rewrite E; reflexivity.
Qed.
Print Assumptions C15_line_without_equals_sign_assigns_nothing.

(* ... whatever the reader's line buffer holds behind the terminator of the line (the left-overs of an earlier,
   longer line of the same settings file): the bytes behind the first NUL are not part of the line. *)
Theorem C15_line_buffer_leftovers_invisible :
  forall stod a b s, ~ In 0%Z a -> parse_line B I R stod (a ++ 0%Z :: b) s = parse_line B I R stod a s.
Proof.
  intros stod a b s H; unfold parse_line; rewrite (tokenise_ignores_buffer_tail a b H); reflexivity.
Qed.
Print Assumptions C15_line_buffer_leftovers_invisible.

(* reset restores the documented defaults (and the components they select); seed and LP data stay. *)
Theorem C15_reset_restores_defaults :
  forall s lp, Consistent B I R s ->
    let s' := reset B I R s in
    bv s' = bv (init B I R lp) /\ iv s' = iv (init B I R lp) /\ rv s' = rv (init B I R lp) /\
    dv s' = dv (init B I R lp) /\ tv s' = tv (init B I R lp) /\ seed s' = seed s /\ lpd s' = lpd s.
Proof. exact (reset_restores_defaults B I R C15_table_ok). Qed.
Print Assumptions C15_reset_restores_defaults.

(* No parameter operation changes the stored LP other than through objective sense and objective offset. *)
Theorem C15_lp_untouched :
  forall s o, lpd (fst (step B I R s o)) = lpd s.
Proof. exact (step_lpd B I R). Qed.
Print Assumptions C15_lp_untouched.

(* The rational LP (part of the stored LP in the automatic and manual synchronisation modes) is touched by no setter
   other than a change of the synchronisation mode, and that change never overwrites rational data when switching
   between MANUAL and AUTO. *)
Theorem C15_rational_lp_untouched_by_other_setters :
  (forall ini k v s, rat (fst (set_bool B ini k v s)) = rat s) /\
  (forall ini k v s, rat (fst (set_real R ini k v s)) = rat s) /\
  (forall n s, rat (set_seed n s) = rat s) /\
  (forall ini k v s r, nth_error I k = Some r -> i_name r <> "syncmode"%string -> rat (fst (set_int I ini k v s)) = rat s).
Proof. exact (rat_untouched_by_other_setters B I R). Qed.
Print Assumptions C15_rational_lp_untouched_by_other_setters.

Theorem C15_syncmode_switch_effect_on_rational_lp :
  forall k r cur v s, nth_error I k = Some r -> i_name r = "syncmode"%string -> nth_error (iv s) k = Some cur -> int_valid r v = true ->
    rat (fst (set_int I true k v s)) =
      (if v =? cur then rat s else if v =? 0 then 0 else if v =? 1 then (if cur =? 0 then 2 else rat s)
       else if v =? 2 then (if rat s =? 0 then 3 else rat s) else rat s).
Proof. exact (rat_on_syncmode I). Qed.
Print Assumptions C15_syncmode_switch_effect_on_rational_lp.

(* ---- non-vacuity: the hypotheses are met by concrete, non-trivial states ---- *)
Example C15_ex_consistent_state_exists :
  Consistent B I R (run B I R (init B I R [7]) [OInt 11 4; OReal 0 (DFin 1 (-20)); OBool 3 false]).
Proof. apply C15_reachable_states_consistent. Qed.

Example C15_ex_manual_to_auto_keeps_rational_data :
  let s := run B I R (init B I R [7]) [OInt 15 2; OLoadLP; OInt 15 1; OInt 5 10] in rat s = 1.
Proof. vm_compute. reflexivity. Qed.

Example C15_ex_values :
  let s := run B I R (init B I R [7]) [OInt 11 4; OInt 10 2; OReal 0 DNaN; OReset; OInt 13 5] in
  nth 13 (iv s) 0 = 5 /\ nth 10 (iv s) 0 = 3 /\ nth 3 (dv s) 0 = 5.
Proof. vm_compute. repeat split. Qed.
