(* C04 - SPxBasisBase<R>::removedRows(perm) / removedCols(perm) (src/soplex/spxchangebasis.hpp): the descriptor after several
   rows or columns were removed at once.  The statuses of the survivors are moved IN PLACE, in increasing index order, to
   the positions the permutation names; the basis is dropped (status NO_PROBLEM) when a removed row is not basic or a
   removed column is basic (in either representation: isBasic(stat) = stat * rep > 0, and the tests are mirrored).
   Definitions only; proofs in BasisChange_Proofs.v. *)
From Coq Require Import List Bool Arith ZArith QArith.
From SV Require Import BasisModel.
Import ListNotations.
Local Open Scope nat_scope.

(* perm[i] as SPxLPBase::doRemoveRows / doRemoveCols leave it: the new index of a survivor, nothing for a removed one *)
Fixpoint perm_from (mask : list bool) (next : nat) : list (option nat) :=
  match mask with
  | [] => []
  | true :: r => None :: perm_from r next
  | false :: r => Some next :: perm_from r (S next)
  end.

Fixpoint set_nth {A} (l : list A) (k : nat) (v : A) : list A :=
  match l, k with
  | [], _ => []
  | _ :: r, O => v :: r
  | a :: r, S k' => a :: set_nth r k' v
  end.

(* for(i = 0; i < n; ++i) if(perm[i] != i && perm[i] >= 0) stat[perm[i]] = stat[i]; *)
Fixpoint move_loop {A} (d : A) (arr : list A) (perm : list (option nat)) (i : nat) : list A :=
  match perm with
  | [] => arr
  | p :: rest =>
    let arr' := match p with
                | Some q => if Nat.eqb q i then arr else set_nth arr q (nth i arr d)
                | None => arr
                end in
    move_loop d arr' rest (S i)
  end.

Definition survivors (mask : list bool) : nat := length (filter negb mask).

(* ... followed by reDim(): the array is cut to the new size *)
Definition compact {A} (d : A) (arr : list A) (mask : list bool) : list A :=
  firstn (survivors mask) (move_loop d arr (perm_from mask 0) 0).

(* the specification: the survivors in their old order *)
Fixpoint keep {A} (arr : list A) (mask : list bool) : list A :=
  match arr, mask with
  | a :: r, false :: m => a :: keep r m
  | _ :: r, true :: m => keep r m
  | _, _ => []
  end.

Fixpoint removed_some (f : DStatus -> bool) (ds : list DStatus) (mask : list bool) : bool :=
  match ds, mask with
  | s :: r, true :: m => f s || removed_some f r m
  | _ :: r, false :: m => removed_some f r m
  | _, _ => false
  end.

(* None: the basis is dropped *)
Definition removed_rows (d : desc) (mask : list bool) : option desc :=
  if removed_some (fun s => negb (is_dual s)) (d_rows d) mask then None
  else Some (mkDesc (compact D_UNDEFINED (d_rows d) mask) (d_cols d)).

Definition removed_cols (d : desc) (mask : list bool) : option desc :=
  if removed_some is_dual (d_cols d) mask then None
  else Some (mkDesc (d_rows d) (compact D_UNDEFINED (d_cols d) mask)).

(* ---- addedRows(n) / addedCols(n): the new rows enter basic (dualRowStatus), the new columns non-basic (primalColStatus);
        [lp] is the LP AFTER the addition ---- *)
Definition added_rows (lp : blp) (d : desc) : desc :=
  mkDesc (d_rows d ++ map dualStatus (skipn (length (d_rows d)) (b_rows lp))) (d_cols d).
Definition added_cols (lp : blp) (d : desc) : desc :=
  mkDesc (d_rows d) (d_cols d ++ map primalStatus (skipn (length (d_cols d)) (b_cols lp))).

(* ---- removedRow(i) / removedCol(i): the status of the last entry moves into the hole ---- *)
Definition swap_out {A} (l : list A) (i : nat) : list A :=
  match l with
  | [] => []
  | a :: r => firstn (length r) (set_nth l i (last l a))
  end.

Definition removed_row (d : desc) (i : nat) : option desc :=
  match nth_error (d_rows d) i with
  | None => None
  | Some s => if is_dual s then Some (mkDesc (swap_out (d_rows d) i) (d_cols d)) else None
  end.
Definition removed_col (d : desc) (j : nat) : option desc :=
  match nth_error (d_cols d) j with
  | None => None
  | Some s => if is_dual s then None else Some (mkDesc (d_rows d) (swap_out (d_cols d) j))
  end.
