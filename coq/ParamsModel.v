(* Executable model of the parameter interface of SoPlexBase<R> (soplex.hpp: setBoolParam, setIntParam,
   setRealParam, setSettings, resetSettings, setRandomSeed, _parseSettingsLine/parseSettingsString,
   loadSettingsFile) over an arbitrary parameter table.  The table of the current tree is regenerated
   into gen/Gen_Params.v on every run; everything here is parametric in it. *)
From Coq Require Import ZArith Bool List String Ascii.
From SV Require Import Dbl SettingsLexer.
Import ListNotations.
Local Open Scope Z_scope.

Record brow := { b_name : string; b_def : bool; b_settable : bool }.
Record irow := { i_name : string; i_def : Z; i_lo : Z; i_up : Z; i_acc : list Z; i_enum : list Z }.
Record rrow := { r_name : string; r_def : dbl; r_lo : dbl; r_up : dbl; r_settable : bool }.

(* what the user-visible components are derived from: (parameter name, image of the value) *)
Definition simp_of (v : Z) : Z := if v =? 0 then 0 else 1.          (* none / MainSM (no PaPILO build) *)
Definition maxupd_of (v : Z) : Z := if v =? 0 then 200 else v.       (* SOPLEX_REFACTOR_INTERVAL *)
Definition idz (v : Z) : Z := v.

Definition ieff : list (string * (Z -> Z)) :=
  [ ("simplifier"%string, simp_of); ("scaler"%string, idz); ("starter"%string, idz); ("pricer"%string, idz);
    ("ratiotester"%string, idz); ("factor_update_type"%string, idz); ("factor_update_max"%string, maxupd_of);
    ("solution_polishing"%string, idz); ("objsense"%string, idz) ].

Definition reff : list string :=
  [ "feastol"; "opttol"; "epsilon_zero"; "epsilon_factorization"; "epsilon_update"; "epsilon_pivot";
    "fpfeastol"; "fpopttol"; "min_markowitz"; "obj_offset" ]%string.

Record pstate := {
  bv : list bool;      (* current bool parameter values *)
  iv : list Z;         (* current int parameter values *)
  rv : list dbl;       (* current real parameter values *)
  seed : Z;            (* random seed of the solver *)
  dv : list Z;         (* components in use: simplifier, scaler, starter, pricer, ratio tester, LU update type,
                          max updates, polishing, sense of the stored LP *)
  tv : list dbl;       (* tolerances in use, Markowitz threshold, offset of the stored LP *)
  lpd : list Z;        (* the rest of the stored floating-point LP (opaque) *)
  rat : Z              (* which rational LP the object holds: 0 none (SYNCMODE_ONLYREAL), 1 the rational data as entered,
                          2 the exact image of the floating-point LP (made by _syncLPRational), 3 an empty one
                          (made by _ensureRationalLP), -1 not predicted *)
}.

(* effect of setIntParam(SYNCMODE, v) on the rational LP when the current mode is cur (soplex.hpp, case SYNCMODE):
   ONLYREAL frees it, AUTO synchronises it from the floating-point LP only when coming from ONLYREAL, MANUAL creates
   an empty one if there is none.  With v = cur nothing happens. *)
Definition rat_effect (name : string) (cur v r : Z) : Z :=
  if negb (String.eqb name "syncmode") then r
  else if v =? cur then r
  else if v =? 0 then 0
  else if v =? 1 then (if cur =? 0 then 2 else r)
  else if v =? 2 then (if r =? 0 then 3 else r)
  else r.

Fixpoint upd {A} (n : nat) (x : A) (l : list A) : list A :=
  match l, n with
  | [], _ => []
  | _ :: r, O => x :: r
  | a :: r, S k => a :: upd k x r
  end.

Fixpoint find_idx {A} (nm : A -> string) (name : string) (t : list A) : option nat :=
  match t with
  | [] => None
  | r :: t' => if String.eqb (nm r) name then Some O else option_map S (find_idx nm name t')
  end.

Section Table.
  Variable btab : list brow.
  Variable itab : list irow.
  Variable rtab : list rrow.

  Definition get_int (name : string) (ivals : list Z) : Z :=
    match find_idx i_name name itab with Some k => nth k ivals 0 | None => 0 end.
  Definition get_real (name : string) (rvals : list dbl) : dbl :=
    match find_idx r_name name rtab with Some k => nth k rvals DNaN | None => DNaN end.

  Definition derive_i (ivals : list Z) : list Z := map (fun nf => snd nf (get_int (fst nf) ivals)) ieff.
  Definition derive_r (rvals : list dbl) : list dbl := map (fun n => get_real n rvals) reff.

  Definition init (lp : list Z) : pstate :=
    let b := map b_def btab in let i := map i_def itab in let r := map r_def rtab in
    {| bv := b; iv := i; rv := r; seed := 0; dv := derive_i i; tv := derive_r r; lpd := lp; rat := 0 |}.

  (* ---- validity of a value for a parameter ---- *)
  Definition small (r : irow) : bool := i_up r - i_lo r <=? 16.
  Definition int_valid (r : irow) (v : Z) : bool :=
    (i_lo r <=? v) && (v <=? i_up r) && (if small r then existsb (Z.eqb v) (i_acc r) else true).
  Definition real_valid (r : rrow) (cur v : dbl) : bool :=
    in_range (r_lo r) (r_up r) v && (r_settable r || deq v cur).
  Definition bool_valid (r : brow) (cur v : bool) : bool := b_settable r || Bool.eqb v cur.

  (* ---- setters (init = the third argument of the C++ setters; the user-level default is true) ---- *)
  Definition set_bool (ini : bool) (i : nat) (v : bool) (s : pstate) : pstate * bool :=
    match nth_error btab i, nth_error (bv s) i with
    | Some r, Some cur =>
      if negb ini && Bool.eqb v cur then (s, true)
      else if bool_valid r cur v then
        ({| bv := upd i v (bv s); iv := iv s; rv := rv s; seed := seed s; dv := dv s; tv := tv s; lpd := lpd s; rat := rat s |}, true)
      else (s, false)
    | _, _ => (s, false)
    end.

  Definition apply_ieff (name : string) (v : Z) (d : list Z) : list Z :=
    map (fun p => if String.eqb (fst (fst p)) name then snd (fst p) v else snd p) (combine ieff d).
  Definition apply_reff (name : string) (v : dbl) (t : list dbl) : list dbl :=
    map (fun p => if String.eqb (fst p) name then v else snd p) (combine reff t).

  Definition set_int (ini : bool) (i : nat) (v : Z) (s : pstate) : pstate * bool :=
    match nth_error itab i, nth_error (iv s) i with
    | Some r, Some cur =>
      if negb ini && (v =? cur) then (s, true)
      else if int_valid r v then
        ({| bv := bv s; iv := upd i v (iv s); rv := rv s; seed := seed s;
            dv := apply_ieff (i_name r) v (dv s); tv := tv s; lpd := lpd s;
            rat := rat_effect (i_name r) cur v (rat s) |}, true)
      else (s, false)
    | _, _ => (s, false)
    end.

  Definition set_real (ini : bool) (i : nat) (v : dbl) (s : pstate) : pstate * bool :=
    match nth_error rtab i, nth_error (rv s) i with
    | Some r, Some cur =>
      if negb ini && deq v cur then (s, true)
      else if real_valid r cur v then
        ({| bv := bv s; iv := iv s; rv := upd i v (rv s); seed := seed s;
            dv := dv s; tv := apply_reff (r_name r) v (tv s); lpd := lpd s; rat := rat s |}, true)
      else (s, false)
    | _, _ => (s, false)
    end.

  Definition set_seed (n : Z) (s : pstate) : pstate :=
    {| bv := bv s; iv := iv s; rv := rv s; seed := n; dv := dv s; tv := tv s; lpd := lpd s; rat := rat s |}.

  (* fold a setter over 0..n-1 with the given values, ignoring individual results (resetSettings) or
     and-ing them (setSettings) *)
  Fixpoint fold_set {V} (f : nat -> V -> pstate -> pstate * bool) (k : nat) (vals : list V) (s : pstate) : pstate * bool :=
    match vals with
    | [] => (s, true)
    | v :: r => let (s1, ok1) := f k v s in let (s2, ok2) := fold_set f (S k) r s1 in (s2, ok1 && ok2)
    end.

  Definition reset (s : pstate) : pstate :=
    let (s1, _) := fold_set (set_bool true) 0 (map b_def btab) s in
    let (s2, _) := fold_set (set_int true) 0 (map i_def itab) s1 in
    let (s3, _) := fold_set (set_real true) 0 (map r_def rtab) s2 in s3.

  (* setSettings(newSettings, init = true): the value arrays are overwritten first, then every setter runs *)
  Definition set_settings (nb : list bool) (ni : list Z) (nr : list dbl) (s : pstate) : pstate * bool :=
    let s0 := {| bv := nb; iv := ni; rv := nr; seed := seed s; dv := dv s; tv := tv s; lpd := lpd s;
                 rat := if get_int "syncmode" ni =? get_int "syncmode" (iv s) then rat s else -1 |} in
    let (s1, o1) := fold_set (set_bool true) 0 nb s0 in
    let (s2, o2) := fold_set (set_int true) 0 ni s1 in
    let (s3, o3) := fold_set (set_real true) 0 nr s2 in (s3, o1 && o2 && o3).

  (* ---- settings lines ---- *)
  Section Parse.
    Variable stod : list Z -> option dbl.     (* std::stod on the value token; None = it throws *)

    Definition parse_tokens (ty name val : list Z) (s : pstate) : pstate * bool :=
      if has_prefix (codes "bool") ty then
        match find_idx (fun r => r) (string_of_list_ascii (map (fun c => ascii_of_N (Z.to_N c)) name)) (map b_name btab) with
        | None => (s, false)
        | Some k => match bool_value val with
                    | Some b => set_bool true k b s
                    | None => (s, false)
                    end
        end
      else if has_prefix (codes "int") ty then
        match find_idx (fun r => r) (string_of_list_ascii (map (fun c => ascii_of_N (Z.to_N c)) name)) (map i_name itab) with
        | None => (s, false)
        | Some k => match stoi val with
                    | Some v => set_int false k v s
                    | None => (s, false)
                    end
        end
      else if has_prefix (codes "real") ty then
        match find_idx (fun r => r) (string_of_list_ascii (map (fun c => ascii_of_N (Z.to_N c)) name)) (map r_name rtab) with
        | None => (s, false)
        | Some k => match stod val with
                    | Some v => set_real true k v s
                    | None => (s, false)
                    end
        end
      else if has_prefix (codes "uint") ty then
        if has_prefix (codes "random_seed") name then
          match stoul val with
          | Some v => (set_seed (if v >? UINT_MAX then UINT_MAX else v) s, true)
          | None => (s, false)
          end
        else (s, false)
      else (s, false).

    Definition parse_line (line : list Z) (s : pstate) : pstate * bool :=
      match tokenise line with
      | TBlank => (s, true)
      | TError => (s, false)
      | TOk ty name val => parse_tokens ty name val s
      end.

    (* loadSettingsFile: every line is parsed, results ignored *)
    Definition load_lines (lines : list (list Z)) (s : pstate) : pstate :=
      fold_left (fun st l => fst (parse_line l st)) lines s.
  End Parse.

  (* ---- operations of a history ---- *)
  Inductive op :=
  | OBool (i : nat) (v : bool)
  | OInt (i : nat) (v : Z)
  | OReal (i : nat) (v : dbl)
  | OSeed (n : Z)
  | OParse (line : list Z) (sd : option dbl)        (* sd: what std::stod returns on the value token *)
  | OLoad (lines : list (list Z * option dbl))
  | OReset
  | OLoadLP                                         (* the user loads an LP (and, if a rational LP exists, enters rational data) *)
  | OCopy (ops : list (nat * bool) * list (nat * Z) * list (nat * dbl)).   (* setSettings from a fresh object after these sets *)

  Definition step (s : pstate) (o : op) : pstate * bool :=
    match o with
    | OBool i v => set_bool true i v s
    | OInt i v => set_int true i v s
    | OReal i v => set_real true i v s
    | OSeed n => (set_seed n s, true)
    | OParse l sd => parse_line (fun _ => sd) l s
    | OLoad ls => (fold_left (fun st l => fst (parse_line (fun _ => snd l) (fst l) st)) ls s, true)
    | OReset => (reset s, true)
    | OLoadLP => ({| bv := bv s; iv := iv s; rv := rv s; seed := seed s; dv := dv s; tv := tv s; lpd := lpd s;
                     rat := if rat s =? 0 then 0 else 1 |}, true)
    | OCopy (ob, oi, orl) =>
      let o0 := init [] in
      let o1 := fold_left (fun st p => fst (set_bool true (fst p) (snd p) st)) ob o0 in
      let o2 := fold_left (fun st p => fst (set_int true (fst p) (snd p) st)) oi o1 in
      let o3 := fold_left (fun st p => fst (set_real true (fst p) (snd p) st)) orl o2 in
      set_settings (bv o3) (iv o3) (rv o3) s
    end.

  Definition run (s : pstate) (ops : list op) : pstate := fold_left (fun st o => fst (step st o)) ops s.

  (* ---- the obligations on a table (checked on the regenerated table by computation) ---- *)
  Fixpoint nodupb (l : list string) : bool :=
    match l with [] => true | a :: r => negb (existsb (String.eqb a) r) && nodupb r end.

  Definition irow_ok (r : irow) : bool :=
    (i_lo r <=? i_up r) && int_valid r (i_def r)
    && forallb (fun v => (i_lo r <=? v) && (v <=? i_up r)) (i_acc r)
    && (* enumerated parameters: accepted values are documented enumerators *)
       (match i_enum r with [] => true | e => forallb (fun v => existsb (Z.eqb v) e) (i_acc r) end)
    && (* wide ranges: every probed value of the window is accepted *)
       (if small r then true else Z.of_nat (List.length (i_acc r)) =? 17).
  Definition rrow_ok (r : rrow) : bool :=
    in_range (r_lo r) (r_up r) (r_def r).
  Definition table_ok : bool :=
    nodupb (map b_name btab) && nodupb (map i_name itab) && nodupb (map r_name rtab)
    && forallb irow_ok itab && forallb rrow_ok rtab
    && forallb (fun nf => match find_idx i_name (fst nf) itab with Some _ => true | None => false end) ieff
    && forallb (fun n => match find_idx r_name n rtab with Some _ => true | None => false end) reff.
End Table.
