(* Linear programs over exact rationals, as the user of SoPlex states them:
     min/max  c.x + offset   s.t.  lhs <= A x <= rhs,  lo <= x <= up      (None = infinite side/bound).
   Rows carry dense coefficient lists (zero padded).  Meaning of feasible / optimal / unbounded. *)
From Coq Require Import QArith List Lia Lqa Bool.
From SV Require Import Vec.
Import ListNotations.
Local Open Scope Q_scope.

Record col := { c_obj : Q; c_lo : option Q; c_up : option Q }.
Record row := { r_lhs : option Q; r_coef : list Q; r_rhs : option Q }.
Record lp := { maximize : bool; offset : Q; cols : list col; rows : list row }.

Definition dcol : col := {| c_obj := 0; c_lo := None; c_up := None |}.
Definition drow : row := {| r_lhs := None; r_coef := []; r_rhs := None |}.

Definition ncols (p : lp) : nat := length (cols p).
Definition nrows (p : lp) : nat := length (rows p).
Definition colj (p : lp) (j : nat) : col := nth j (cols p) dcol.
Definition rowi (p : lp) (i : nat) : row := nth i (rows p) drow.
Definition objvec (p : lp) : list Q := map c_obj (cols p).
Definition matrix (p : lp) : list (list Q) := map r_coef (rows p).

Definition in_lo (lo : option Q) (v : Q) : Prop := match lo with None => True | Some l => l <= v end.
Definition in_up (up : option Q) (v : Q) : Prop := match up with None => True | Some u => v <= u end.

Definition activity (p : lp) (i : nat) (x : list Q) : Q := dot (r_coef (rowi p i)) x.

Definition feasible (p : lp) (x : list Q) : Prop :=
  length x = ncols p /\
  (forall j, (j < ncols p)%nat -> in_lo (c_lo (colj p j)) (vnth x j) /\ in_up (c_up (colj p j)) (vnth x j)) /\
  (forall i, (i < nrows p)%nat -> in_lo (r_lhs (rowi p i)) (activity p i x) /\ in_up (r_rhs (rowi p i)) (activity p i x)).

Definition objective (p : lp) (x : list Q) : Q := dot (objvec p) x + offset p.

(* a is at least as good an objective value as b *)
Definition no_worse (p : lp) (a b : Q) : Prop := if maximize p then b <= a else a <= b.
Definition strictly_better (p : lp) (a b : Q) : Prop := if maximize p then b < a else a < b.

Definition optimal (p : lp) (x : list Q) : Prop :=
  feasible p x /\ forall x', feasible p x' -> no_worse p (objective p x) (objective p x').

Definition infeasible (p : lp) : Prop := forall x, ~ feasible p x.

(* no finite optimum although feasible: every feasible point is strictly beaten by another one *)
Definition unbounded (p : lp) : Prop :=
  (exists x, feasible p x) /\ forall x, feasible p x -> exists x', feasible p x' /\ strictly_better p (objective p x') (objective p x).

(* +1 for minimisation, -1 for maximisation *)
Definition sgn (p : lp) : Q := if maximize p then -1 else 1.

Lemma sgn_sq p : sgn p * sgn p == 1.
Proof. unfold sgn; destruct (maximize p); ring. Qed.

Lemma no_worse_sgn p a b : no_worse p a b <-> sgn p * a <= sgn p * b.
Proof. unfold no_worse, sgn; destruct (maximize p); split; intros; lra. Qed.

Lemma strictly_better_sgn p a b : strictly_better p a b <-> sgn p * a < sgn p * b.
Proof. unfold strictly_better, sgn; destruct (maximize p); split; intros; lra. Qed.

(* boolean versions used by the extracted checkers *)
Definition Qltb (a b : Q) : bool := negb (Qle_bool b a).
Lemma Qltb_lt a b : Qltb a b = true <-> a < b.
Proof.
  unfold Qltb. rewrite negb_true_iff. split; intros H.
  - destruct (Qlt_le_dec a b); auto. apply Qle_bool_iff in q. congruence.
  - destruct (Qle_bool b a) eqn:E; auto. apply Qle_bool_iff in E. lra.
Qed.
Lemma Qltb_false a b : Qltb a b = false <-> b <= a.
Proof.
  unfold Qltb. rewrite negb_false_iff. apply Qle_bool_iff.
Qed.

Definition in_lo_b (lo : option Q) (v : Q) : bool := match lo with None => true | Some l => Qle_bool l v end.
Definition in_up_b (up : option Q) (v : Q) : bool := match up with None => true | Some u => Qle_bool v u end.
Lemma in_lo_b_iff lo v : in_lo_b lo v = true <-> in_lo lo v.
Proof. destruct lo; simpl; [apply Qle_bool_iff | tauto]. Qed.
Lemma in_up_b_iff up v : in_up_b up v = true <-> in_up up v.
Proof. destruct up; simpl; [apply Qle_bool_iff | tauto]. Qed.

Definition forall_lt (n : nat) (f : nat -> bool) : bool := forallb f (seq 0 n).
Lemma forall_lt_iff n f : forall_lt n f = true <-> forall i, (i < n)%nat -> f i = true.
Proof.
  unfold forall_lt. rewrite forallb_forall. split; intros H i Hi.
  - apply H. apply in_seq. lia.
  - apply in_seq in Hi. apply H. lia.
Qed.

Definition feasible_b (p : lp) (x : list Q) : bool :=
  Nat.eqb (length x) (ncols p)
  && forall_lt (ncols p) (fun j => in_lo_b (c_lo (colj p j)) (vnth x j) && in_up_b (c_up (colj p j)) (vnth x j))
  && forall_lt (nrows p) (fun i => in_lo_b (r_lhs (rowi p i)) (activity p i x) && in_up_b (r_rhs (rowi p i)) (activity p i x)).

Lemma feasible_b_iff p x : feasible_b p x = true <-> feasible p x.
Proof.
  unfold feasible_b, feasible. rewrite !andb_true_iff, Nat.eqb_eq, !forall_lt_iff.
  split.
  - intros [[H1 H2] H3]. repeat split; auto.
    + specialize (H2 j H). apply andb_true_iff in H2 as [A _]. now apply in_lo_b_iff.
    + specialize (H2 j H). apply andb_true_iff in H2 as [_ A]. now apply in_up_b_iff.
    + specialize (H3 i H). apply andb_true_iff in H3 as [A _]. now apply in_lo_b_iff.
    + specialize (H3 i H). apply andb_true_iff in H3 as [_ A]. now apply in_up_b_iff.
  - intros (H1 & H2 & H3). repeat split; auto.
    + intros i Hi. destruct (H2 i Hi). apply andb_true_iff. split; [now apply in_lo_b_iff | now apply in_up_b_iff].
    + intros i Hi. destruct (H3 i Hi). apply andb_true_iff. split; [now apply in_lo_b_iff | now apply in_up_b_iff].
Qed.
