(* C17 - model of class Random (src/soplex/random.h): the KISS generator every SPxSolverBase owns (member `random`), the
   only source of pseudo-random numbers in a solve (bound shifts / perturbation in spxshift.hpp).  Definitions only; the
   proofs are in Random_Proofs.v.  All members are uint32_t: the wrap-around is written out (mod 2^32). *)
From Coq Require Import NArith List.
Import ListNotations.
Local Open Scope N_scope.

Definition M32 : N := 4294967296.          (* 2^32 *)
Definition UMAX : N := 4294967295.         (* UINT32_MAX *)

Record rng := mkrng { seedshift : N; lin_seed : N; xor_seed : N; mwc_seed : N; cst_seed : N }.

(* xor_seed ^= xor_seed << 13;  ^= >> 17;  ^= << 5   (32-bit unsigned shifts) *)
Definition xs1 (x : N) : N := N.lxor x (N.shiftl x 13 mod M32).
Definition xs2 (x : N) : N := N.lxor x (N.shiftr x 17).
Definition xs3 (x : N) : N := N.lxor x (N.shiftl x 5 mod M32).
Definition xorshift (x : N) : N := xs3 (xs2 (xs1 x)).

(* next_random(): new state and the numerator of the returned value (the value is numerator / UINT32_MAX) *)
Definition next_random (r : rng) : rng * N :=
  let l := (lin_seed r * 1103515245 + 12345) mod M32 in          (* 64-bit product, truncated *)
  let x := xorshift (xor_seed r) in
  let t := 698769069 * mwc_seed r + cst_seed r in                (* 64-bit, cannot overflow *)
  let c := N.shiftr t 32 in
  let m := t mod M32 in
  (mkrng (seedshift r) l x m c, (l + x + m) mod M32).           (* uint32 sum wraps *)

Definition at_least_one (v : N) : N := if N.eqb v 0 then 1 else v.     (* SOPLEX_MAX(v, 1u) *)

(* setSeed(initshift): EVERY member is assigned from the argument, then the state is advanced once *)
Definition set_seed (s : N) : rng :=
  fst (next_random (mkrng s (at_least_one ((123456789 + s) mod M32)) (at_least_one ((362436000 + s) mod M32))
                          (at_least_one ((521288629 + s) mod M32)) ((7654321 + s) mod M32))).

(* operations on one generator object: setSeed(s) / next() *)
Inductive rop := RSeed (s : N) | RNext.

Definition rstep (r : rng) (o : rop) : rng * list N :=
  match o with
  | RSeed s => (set_seed s, [])
  | RNext => let (r', v) := next_random r in (r', [v])
  end.

Fixpoint rrun (r : rng) (ops : list rop) : rng * list N :=
  match ops with
  | [] => (r, [])
  | o :: rest => let (r1, out1) := rstep r o in let (r2, out2) := rrun r1 rest in (r2, out1 ++ out2)
  end.

(* the default-constructed generator: Random(0) *)
Definition rng_default : rng := set_seed 0.

Definition rng_wf (r : rng) : Prop :=
  seedshift r < M32 /\ lin_seed r < M32 /\ xor_seed r < M32 /\ mwc_seed r < M32 /\ cst_seed r < M32.
