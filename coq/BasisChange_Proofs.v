(* C04 - the in-place compaction of removedRows / removedCols yields the survivors in order, and the count of basic
   variables stays equal to the number of rows whenever the basis is kept. *)
From Coq Require Import List Bool Arith ZArith QArith Lia.
From SV Require Import BasisModel BasisChangeModel.
Import ListNotations.
Local Open Scope nat_scope.

Lemma set_nth_app_r {A} (pre : list A) x rest v : set_nth (pre ++ x :: rest) (length pre) v = pre ++ v :: rest.
Proof. induction pre as [|a pre IH]; simpl; [reflexivity|]. now rewrite IH. Qed.

Lemma nth_app_mid {A} (l1 : list A) x l2 d : nth (length l1) (l1 ++ x :: l2) d = x.
Proof. induction l1 as [|a l1 IH]; simpl; auto. Qed.

Lemma filter_len_le {A} (f : A -> bool) l : length (filter f l) <= length l.
Proof. induction l as [|a l IH]; simpl; [lia|]. destruct (f a); simpl; lia. Qed.

Lemma keep_length_le {A} (arr : list A) mask : length (keep arr mask) <= length arr.
Proof.
  revert mask. induction arr as [|a arr IH]; intros [|[|] mask]; simpl; try lia.
  - specialize (IH mask). lia.
  - specialize (IH mask). lia.
Qed.

Lemma keep_length {A} (arr : list A) mask : length arr = length mask -> length (keep arr mask) = survivors mask.
Proof.
  revert mask. induction arr as [|a arr IH]; intros [|b mask] H; simpl in *; try lia; [reflexivity|].
  unfold survivors in *. destruct b; simpl; rewrite IH by lia; reflexivity.
Qed.

(* the loop invariant: the survivors found so far sit in front, then as many stale entries as rows were removed, then the
   unprocessed part of the old array *)
Lemma move_loop_inv {A} (d : A) : forall (tail : list A) (mask : list bool) (pre mid : list A),
  length tail = length mask ->
  exists junk, move_loop d (pre ++ mid ++ tail) (perm_from mask (length pre)) (length pre + length mid)
               = (pre ++ keep tail mask) ++ junk.
Proof.
  induction tail as [|x tail IH]; intros mask pre mid Hl.
  - destruct mask; [|discriminate]. simpl. exists mid. rewrite !app_nil_r. reflexivity.
  - destruct mask as [|b mask]; [discriminate|]. simpl in Hl.
    destruct b; cbn [perm_from move_loop keep].
    + (* removed: nothing moves; x becomes stale *)
      destruct (IH mask pre (mid ++ [x]) ltac:(lia)) as [junk Hj].
      exists junk. rewrite <- Hj. rewrite app_length. cbn [length].
      replace (length pre + (length mid + 1)) with (S (length pre + length mid)) by lia.
      rewrite <- !app_assoc. reflexivity.
    + (* survivor: written to position |pre| *)
      destruct mid as [|y mid].
      * (* nothing removed so far: perm[i] = i, no move *)
        cbn [app length]. rewrite Nat.add_0_r, Nat.eqb_refl.
        destruct (IH mask (pre ++ [x]) [] ltac:(lia)) as [junk Hj].
        exists junk. rewrite app_length in Hj. cbn [length app] in Hj.
        replace (length pre + 1 + 0) with (S (length pre)) in Hj by lia.
        replace (length pre + 1) with (S (length pre)) in Hj by lia.
        rewrite <- !app_assoc in Hj. cbn [app] in Hj. rewrite <- !app_assoc. cbn [app]. exact Hj.
      * assert (E : Nat.eqb (length pre) (length pre + length (y :: mid)) = false) by (apply Nat.eqb_neq; cbn [length]; lia).
        rewrite E.
        assert (Nx : nth (length pre + length (y :: mid)) (pre ++ (y :: mid) ++ x :: tail) d = x).
        { replace (pre ++ (y :: mid) ++ x :: tail) with ((pre ++ y :: mid) ++ x :: tail) by (rewrite <- app_assoc; reflexivity).
          replace (length pre + length (y :: mid)) with (length (pre ++ y :: mid)) by (rewrite app_length; reflexivity).
          apply nth_app_mid. }
        rewrite Nx.
        assert (Sx : set_nth (pre ++ (y :: mid) ++ x :: tail) (length pre) x = (pre ++ [x]) ++ (mid ++ [x]) ++ tail).
        { cbn [app]. rewrite set_nth_app_r. rewrite <- !app_assoc. cbn [app]. reflexivity. }
        rewrite Sx.
        destruct (IH mask (pre ++ [x]) (mid ++ [x]) ltac:(lia)) as [junk Hj].
        exists junk. rewrite !app_length in Hj. cbn [length] in *.
        replace (length pre + 1 + (length mid + 1)) with (S (length pre + S (length mid))) in Hj by lia.
        replace (length pre + 1) with (S (length pre)) in Hj by lia.
        rewrite Hj. rewrite <- !app_assoc. reflexivity.
Qed.

Theorem compact_is_keep {A} (d : A) arr mask : length arr = length mask -> compact d arr mask = keep arr mask.
Proof.
  intros Hl. unfold compact.
  destruct (move_loop_inv d arr mask [] [] Hl) as [junk Hj]. cbn [app length Nat.add] in Hj. rewrite Hj.
  rewrite <- (keep_length arr mask Hl). rewrite firstn_app, Nat.sub_diag, firstn_all. cbn [firstn]. now rewrite app_nil_r.
Qed.

(* ---- the count of basic variables ---- *)
Lemma count_dual_keep ds : forall mask, length ds = length mask -> removed_some (fun s => negb (is_dual s)) ds mask = false ->
  count_dual (keep ds mask) + (length mask - survivors mask) = count_dual ds.
Proof.
  induction ds as [|s ds IH]; intros mask Hl Hr; destruct mask as [|b mask]; try discriminate Hl; [reflexivity|].
  injection Hl as Hl.
  assert (Hle : survivors mask <= length mask) by (unfold survivors; apply filter_len_le).
  destruct b.
  - cbn [removed_some] in Hr. apply orb_false_iff in Hr as [Hs Hr]. apply negb_false_iff in Hs.
    specialize (IH mask Hl Hr). cbn [keep]. unfold survivors in *. cbn [filter negb length]. unfold count_dual in *. cbn [filter].
    rewrite Hs. cbn [length]. lia.
  - cbn [removed_some] in Hr. specialize (IH mask Hl Hr). cbn [keep]. unfold survivors in *. cbn [filter negb length].
    unfold count_dual in *. cbn [filter]. destruct (is_dual s); cbn [length]; lia.
Qed.

Lemma count_dual_keep_cols ds : forall mask, length ds = length mask -> removed_some is_dual ds mask = false ->
  count_dual (keep ds mask) = count_dual ds.
Proof.
  induction ds as [|s ds IH]; intros mask Hl Hr; destruct mask as [|b mask]; try discriminate Hl; [reflexivity|].
  injection Hl as Hl. destruct b.
  - cbn [removed_some] in Hr. apply orb_false_iff in Hr as [Hs Hr]. specialize (IH mask Hl Hr).
    cbn [keep]. unfold count_dual in *. cbn [filter]. rewrite Hs. exact IH.
  - cbn [removed_some] in Hr. specialize (IH mask Hl Hr). cbn [keep]. unfold count_dual in *. cbn [filter].
    destruct (is_dual s); cbn [length]; lia.
Qed.

(* rows: if the basis is kept, the new descriptor holds the survivors in order and its basic count is the new row number *)
Theorem removed_rows_spec d mask d' m :
  length (d_rows d) = length mask -> count_dual (d_rows d) + count_dual (d_cols d) = m -> length (d_rows d) = m ->
  removed_rows d mask = Some d' ->
  d_rows d' = keep (d_rows d) mask /\ d_cols d' = d_cols d /\
  length (d_rows d') = survivors mask /\ count_dual (d_rows d') + count_dual (d_cols d') = survivors mask.
Proof.
  intros Hl Hc Hm. unfold removed_rows. destruct (removed_some _ (d_rows d) mask) eqn:E; [discriminate|].
  intros H. inversion H. subst d'. cbn [d_rows d_cols]. rewrite compact_is_keep by exact Hl.
  pose proof (count_dual_keep (d_rows d) mask Hl E) as K. pose proof (keep_length (d_rows d) mask Hl) as L.
  assert (survivors mask <= length mask) by (unfold survivors; apply filter_len_le).
  repeat split; try assumption; lia.
Qed.

Theorem removed_cols_spec d mask d' m :
  length (d_cols d) = length mask -> count_dual (d_rows d) + count_dual (d_cols d) = m ->
  removed_cols d mask = Some d' ->
  d_cols d' = keep (d_cols d) mask /\ d_rows d' = d_rows d /\
  length (d_cols d') = survivors mask /\ count_dual (d_rows d') + count_dual (d_cols d') = m.
Proof.
  intros Hl Hc. unfold removed_cols. destruct (removed_some is_dual (d_cols d) mask) eqn:E; [discriminate|].
  intros H. inversion H. subst d'. cbn [d_rows d_cols]. rewrite compact_is_keep by exact Hl.
  rewrite (count_dual_keep_cols (d_cols d) mask Hl E), (keep_length (d_cols d) mask Hl).
  repeat split; try reflexivity. exact Hc.
Qed.

(* the loop bound matters: cut short after [n] entries (what happens when the loop runs to the ALREADY SHRUNK row number),
   a survivor of the tail is not moved *)
Definition compact_short {A} (d : A) (arr : list A) (mask : list bool) : list A :=
  firstn (survivors mask) (move_loop d arr (firstn (survivors mask) (perm_from mask 0)) 0).

Lemma short_loop_refuted :
  compact_short D_UNDEFINED [D_ON_LOWER; D_ON_LOWER; P_ON_UPPER] [true; false; false] <> keep [D_ON_LOWER; D_ON_LOWER; P_ON_UPPER] [true; false; false].
Proof. vm_compute. discriminate. Qed.

(* ---- additions keep a valid descriptor valid ---- *)
From SV Require Import BasisModel_Proofs.

Lemma count_dual_app a b : count_dual (a ++ b) = count_dual a + count_dual b.
Proof. unfold count_dual. rewrite filter_app, app_length. reflexivity. Qed.

Lemma count_primal_app a b : count_primal (a ++ b) = count_primal a + count_primal b.
Proof. unfold count_primal. rewrite filter_app, app_length. reflexivity. Qed.

Lemma entries_valid_app vs1 vs2 ds1 ds2 : length vs1 = length ds1 ->
  entries_valid (vs1 ++ vs2) (ds1 ++ ds2) = entries_valid vs1 ds1 && entries_valid vs2 ds2.
Proof.
  intros H. unfold entries_valid.
  assert (E : combine (vs1 ++ vs2) (ds1 ++ ds2) = combine vs1 ds1 ++ combine vs2 ds2).
  { revert ds1 H. induction vs1 as [|v vs1 IH]; intros [|s ds1] H; simpl in *; try discriminate; [reflexivity|]. rewrite IH by lia. reflexivity. }
  rewrite E, forallb_app. reflexivity.
Qed.

Lemma entries_valid_map_dual vs : entries_valid vs (map dualStatus vs) = true.
Proof. unfold entries_valid. induction vs as [|v vs IH]; simpl; [reflexivity|]. rewrite dual_entry_valid, IH. reflexivity. Qed.

Lemma entries_valid_map_primal vs : entries_valid vs (map primalStatus vs) = true.
Proof. unfold entries_valid. induction vs as [|v vs IH]; simpl; [reflexivity|]. rewrite primal_entry_valid, IH. reflexivity. Qed.

(* rows are appended to the LP: the old descriptor extended by the new rows' dual statuses is valid for the new LP *)
Theorem added_rows_valid lp newrows d :
  isDescValid lp d = true ->
  isDescValid (mkBlp (b_rows lp ++ newrows) (b_cols lp)) (added_rows (mkBlp (b_rows lp ++ newrows) (b_cols lp)) d) = true.
Proof.
  unfold isDescValid, added_rows, nRows, nCols. cbn [b_rows b_cols d_rows d_cols].
  intros H. repeat (apply andb_true_iff in H; destruct H as [H ?]).
  apply Nat.eqb_eq in H. apply Nat.eqb_eq in H3.
  rewrite H. rewrite skipn_app, skipn_all, Nat.sub_diag. cbn [skipn app].
  repeat (apply andb_true_iff; split).
  - apply Nat.eqb_eq. rewrite !app_length, map_length. lia.
  - apply Nat.eqb_eq. exact H3.
  - rewrite entries_valid_app by (symmetry; exact H). rewrite H2, entries_valid_map_dual. reflexivity.
  - exact H1.
  - apply Nat.eqb_eq. apply Nat.eqb_eq in H0. rewrite count_primal_app, count_primal_map_dual. lia.
Qed.

Theorem added_cols_valid lp newcols d :
  isDescValid lp d = true ->
  isDescValid (mkBlp (b_rows lp) (b_cols lp ++ newcols)) (added_cols (mkBlp (b_rows lp) (b_cols lp ++ newcols)) d) = true.
Proof.
  unfold isDescValid, added_cols, nRows, nCols. cbn [b_rows b_cols d_rows d_cols].
  intros H. repeat (apply andb_true_iff in H; destruct H as [H ?]).
  apply Nat.eqb_eq in H. apply Nat.eqb_eq in H3.
  rewrite H3. rewrite skipn_app, skipn_all, Nat.sub_diag. cbn [skipn app].
  repeat (apply andb_true_iff; split).
  - apply Nat.eqb_eq. exact H.
  - apply Nat.eqb_eq. rewrite !app_length, map_length. lia.
  - exact H2.
  - rewrite entries_valid_app by (symmetry; exact H3). rewrite H1, entries_valid_map_primal. reflexivity.
  - apply Nat.eqb_eq. apply Nat.eqb_eq in H0. rewrite count_primal_app, count_primal_map_primal, !app_length. lia.
Qed.
