(* C03 - Exact (rational) solve returns exactly verifiable results and the true status.
   The floating-point inner solves, rational reconstruction, the rational LU and the LP reformulations (lifting, equality
   form, feasibility / unboundedness problems) are untrusted witness producers.  Proved here, for LPs of every size:
     - the meaning of the certificates every returned answer is checked with (C01/C02 theorems, restated);
     - the decision kernels of the refinement loop accept only what the exact optimality checker accepts;
     - the verdict logic of _optimizeRational never produces OPTIMAL / INFEASIBLE / UNBOUNDED from a stopped or failed
       oracle answer, and only from the answers that justify it;
     - the objective value the code computes is c.x  (the objective offset is missing: refutation by witness). *)
From Coq Require Import QArith ZArith List Bool.
From SV Require Import Vec LP Cert Cert_Proofs RatGateModel RatGate_Proofs.
Import ListNotations.
Local Open Scope Q_scope.

(* (a) If slacks = A x, reduced costs = c - A^T y, the range types are those of the bounds, every non-basic column sits on the
   finite bound its status names, every non-basic row status names a finite side, and the models of the four violation
   functions return values <= 0, then the exact optimality checker accepts (x, y). *)
Theorem C03_gate_zero_is_optimal :
  forall g s, gate_consistent g s = true -> gate_zero g s = true ->
    check_opt_exact (g_lp g) (s_primal s) (s_dual s) = true.
Proof. exact gate_zero_is_optimal. Qed.
Print Assumptions C03_gate_zero_is_optimal.

(* ... hence x is an optimal solution of the rational LP (zero duality gap: no feasible point is better). *)
Theorem C03_gate_zero_optimal :
  forall g s, gate_consistent g s = true -> gate_zero g s = true -> optimal (g_lp g) (s_primal s).
Proof. exact gate_zero_optimal. Qed.
Print Assumptions C03_gate_zero_optimal.

(* The hypothesis "the range types are those of the bounds" cannot be dropped: with a mirrored row type ('>=' row marked UPPER)
   all four violations are zero, all other hypotheses hold, and the point violates the row.  Hence the bookkeeping invariant
   _rowTypes[i] = _rangeTypeRational(lhs_i, rhs_i), _colTypes[j] likewise, is compared with the object's state after every
   solve of a history (checks/C03.py, family 'hist'). *)
Theorem C03_gate_needs_matching_types :
  exists g s,
    gate_zero g s = true /\
    forall_lt (ncols (g_lp g)) (col_status_ok g (s_primal s)) = true /\
    forall_lt (nrows (g_lp g)) (row_status_ok g) = true /\
    forall_lt (nrows (g_lp g)) (fun i => Qeq_bool (vnth (s_slacks s) i) (activity (g_lp g) i (s_primal s))) = true /\
    forall_lt (ncols (g_lp g)) (fun j => Qeq_bool (vnth (s_redcost s) j) (redcost (g_lp g) (s_dual s) j)) = true /\
    types_match g = false /\
    feasible_b (g_lp g) (s_primal s) = false /\
    check_opt_exact (g_lp g) (s_primal s) (s_dual s) = false.
Proof. exact gate_needs_matching_types. Qed.
Print Assumptions C03_gate_needs_matching_types.

(* The four violations are maxima over a non-negative start value: "<= 0" means "= 0". *)
Theorem C03_violations_nonnegative :
  forall g s, 0 <= bounds_violation g s /\ 0 <= sides_violation g s /\ 0 <= redcost_violation g s /\ 0 <= dual_violation g s.
Proof. exact violations_nonneg. Qed.
Print Assumptions C03_violations_nonnegative.

(* (b) The verdict automaton: for every configuration and every script of oracle answers,
     OPTIMAL     only directly after an answer of the optimisation refinement with primalFeasible && dualFeasible and no
                 error / stop flag;
     INFEASIBLE  only after the feasibility refinement reported a Farkas proof (tau < 1) without error / stop flag
                 (possibly followed by the dual-infeasibility test, which must not have failed);
     UNBOUNDED   only directly after the feasibility refinement reported feasibility (no Farkas proof, no error, no stop)
                 and the most recent unboundedness test reported a ray (tau >= 1) without error / stop flag;
     any of the three only if the optimisation answer of the final pass carries no error / stop flag. *)
Theorem C03_verdict_automaton_sound :
  forall k script v log, optimize_rational k script = Some (v, log) -> justified k v log.
Proof. exact verdict_automaton_sound. Qed.
Print Assumptions C03_verdict_automaton_sound.

Theorem C03_verdict_needs_clean_answer :
  forall k script v log a bl log',
    optimize_rational k script = Some (v, log) -> log = EOpt a bl :: log' -> clean a = false -> is_verdict v = false.
Proof. exact verdict_needs_clean_answer. Qed.
Print Assumptions C03_verdict_needs_clean_answer.

(* (c) The objective value.  Full statement "reported value = c.x + offset" holds for the model of the code exactly when
   the offset is zero; what the code computes is c.x. *)
Theorem C03_objective_is_cx_plus_offset_partial :
  forall p x, model_objval p x == objective p x - offset p.
Proof. exact objective_is_cx_plus_offset_partial. Qed.
Print Assumptions C03_objective_is_cx_plus_offset_partial.

Theorem C03_objective_is_cx_plus_offset_iff :
  forall p x, model_objval p x == objective p x <-> offset p == 0.
Proof. exact objective_is_cx_plus_offset_iff. Qed.
Print Assumptions C03_objective_is_cx_plus_offset_iff.

(* refutation witness (replayed on the implementation by checks/C03.py):  min x0 + 2 x1 + 100, x0 + x1 >= 2, x >= 0 *)
Definition off_lp : lp :=
  {| maximize := false; offset := 100;
     cols := [ {| c_obj := 1; c_lo := Some 0; c_up := None |}; {| c_obj := 2; c_lo := Some 0; c_up := None |} ];
     rows := [ {| r_lhs := Some 2; r_coef := [1; 1]; r_rhs := None |} ] |}.

Theorem C03_objective_offset_refuted :
  exists p x, check_opt_exact p x [1] = true /\ ~ model_objval p x == objective p x.
Proof. exists off_lp, [2; 0]. split; [vm_compute; reflexivity | vm_compute; discriminate]. Qed.
Print Assumptions C03_objective_offset_refuted.

(* The meaning of the certificates used by the end-to-end validation (theorems of C01 / C02). *)
Theorem C03_optimal_certificate_sound :
  forall p x y, check_opt_exact p x y = true -> optimal p x.
Proof. exact opt_cert_sound. Qed.
Print Assumptions C03_optimal_certificate_sound.

Theorem C03_farkas_certificate_sound :
  forall p y, check_farkas p y = true -> infeasible p.
Proof. exact farkas_sound. Qed.
Print Assumptions C03_farkas_certificate_sound.

Theorem C03_ray_certificate_sound :
  forall p x0 r, feasible p x0 -> check_ray p r = true -> unbounded p.
Proof. exact ray_unbounded. Qed.
Print Assumptions C03_ray_certificate_sound.

Theorem C03_verdicts_exclusive :
  forall p, (forall x, optimal p x -> ~ infeasible p) /\ (forall x, optimal p x -> ~ unbounded p) /\ (unbounded p -> ~ infeasible p).
Proof. exact verdicts_exclusive. Qed.
Print Assumptions C03_verdicts_exclusive.

(* ---- non-vacuity ---- *)
(* the gate on the optimal vertex of off_lp: row at its left-hand side, column 0 basic, column 1 at its lower bound *)
Definition ex_gate : gate :=
  {| g_lp := off_lp; g_infty := 10 ^ 100; g_ctypes := [RT_LOWER; RT_LOWER]; g_rtypes := [RT_LOWER];
     g_cstat := [BASIC; ON_LOWER]; g_rstat := [ON_LOWER] |}.
Definition ex_sol : rsol := {| s_primal := [2; 0]; s_slacks := [2]; s_dual := [1]; s_redcost := [0; 1] |}.
Example C03_ex_gate_hypotheses : gate_consistent ex_gate ex_sol = true /\ gate_zero ex_gate ex_sol = true.
Proof. split; vm_compute; reflexivity. Qed.
Example C03_ex_gate_conclusion : optimal off_lp [2; 0].
Proof. apply (C03_gate_zero_optimal ex_gate ex_sol); vm_compute; reflexivity. Qed.
(* a feasible but slack row with status ON_LOWER is counted as a side violation (complementary slackness term) *)
Example C03_ex_cs_term :
  sides_violation ex_gate {| s_primal := [3; 0]; s_slacks := [3]; s_dual := [1]; s_redcost := [0; 1] |} == 1.
Proof. vm_compute. reflexivity. Qed.
(* a negative reduced cost on a column at its lower bound is a violation when minimising, not when maximising *)
Example C03_ex_sign :
  redcost_violation ex_gate {| s_primal := [2; 0]; s_slacks := [2]; s_dual := [3]; s_redcost := [-2; -1] |} == 2.
Proof. vm_compute. reflexivity. Qed.

Definition a_optimal : ans := {| a_pf := true; a_df := true; a_inf := false; a_unb := false; a_st := false; a_si := false; a_err := false |}.
Definition a_infeas : ans := {| a_pf := false; a_df := false; a_inf := true; a_unb := false; a_st := false; a_si := false; a_err := false |}.
Definition a_unbd : ans := {| a_pf := false; a_df := false; a_inf := false; a_unb := true; a_st := false; a_si := false; a_err := false |}.
Definition a_error : ans := {| a_pf := false; a_df := false; a_inf := false; a_unb := false; a_st := false; a_si := false; a_err := true |}.
Definition a_stopped : ans := {| a_pf := true; a_df := true; a_inf := false; a_unb := false; a_st := true; a_si := false; a_err := false |}.
Definition k0 : cfg := {| k_boosting := true; k_testdualinf := false; k_feastol := 0 |}.

Example C03_ex_run_optimal : exists log, optimize_rational k0 [EOpt a_optimal false] = Some (S_OPTIMAL, log).
Proof. eexists. vm_compute. reflexivity. Qed.
Example C03_ex_run_infeasible :
  exists log, optimize_rational k0 [EOpt a_infeas false; EFeas a_optimal (1 # 2)] = Some (S_INFEASIBLE, log).
Proof. eexists. vm_compute. reflexivity. Qed.
Example C03_ex_run_unbounded :
  exists log, optimize_rational k0 [EOpt a_unbd false; EUnbd a_optimal 1; EFeas a_optimal 1] = Some (S_UNBOUNDED, log).
Proof. eexists. vm_compute. reflexivity. Qed.
(* infeasibility claimed by the floating-point solve but refuted by the feasibility test: optimise again, then optimal *)
Example C03_ex_run_retry :
  exists log, optimize_rational k0 [EOpt a_infeas false; EFeas a_optimal 1; ESetup true; EStop false false; EOpt a_optimal false]
              = Some (S_OPTIMAL, log).
Proof. eexists. vm_compute. reflexivity. Qed.
(* a stopped answer with both feasibility flags set does not become OPTIMAL *)
Example C03_ex_run_stopped : exists log, optimize_rational k0 [EOpt a_stopped false] = Some (S_ABORT_TIME, log).
Proof. eexists. vm_compute. reflexivity. Qed.
Example C03_ex_run_error : exists log, optimize_rational k0 [EOpt a_error true] = Some (S_ERROR, log).
Proof. eexists. vm_compute. reflexivity. Qed.
(* a ray found in an earlier pass is used when a later pass establishes feasibility (hasUnboundedRay is not reset) *)
Example C03_ex_run_stale_ray :
  exists log, optimize_rational k0 [EOpt a_unbd false; EUnbd a_optimal 1; EFeas a_error 0; ESetup true; EStop false false;
                                    EOpt a_infeas false; EFeas a_optimal 1] = Some (S_UNBOUNDED, log).
Proof. eexists. vm_compute. reflexivity. Qed.
