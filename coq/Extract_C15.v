(* Extraction of the C15 model (ExtrOcamlBasic only: bool, option, unit, list, prod, sumbool mapped to OCaml's;
   nat, positive, Z, ascii, string stay the extracted inductive types). *)
From Coq Require Extraction.
From Coq Require Import ExtrOcamlBasic ZArith List.
From SV Require Import Dbl SettingsLexer ParamsModel.
From SVG Require Import Gen_Params.

Definition c15_init := init gen_btab gen_itab gen_rtab.
Definition c15_step := step gen_btab gen_itab gen_rtab.
Definition c15_counts := (List.length gen_btab, List.length gen_itab, List.length gen_rtab).

Extraction "../extract/C15/model.ml" c15_init c15_step c15_counts.
