(* Extraction of the binary64-level C09 model (ExtrOcamlBasic only: bool, option, unit, list, prod, sumbool mapped to
   OCaml's; nat, positive, Z stay the extracted inductive types). *)
From Coq Require Extraction.
From Coq Require Import ExtrOcamlBasic ZArith List.
From SV Require Import Dbl ScalingModel.

Extraction "../extract/C09/model.ml"
  dinf dninf ldexp_ieee d_apply_scaling d_unscale
  d_lowerUnscaled d_upperUnscaled d_lhsUnscaled d_rhsUnscaled d_maxObjUnscaled d_coefUnscaled
  d_getLowerUnscaled d_getUpperUnscaled d_getLhsUnscaled d_getRhsUnscaled d_getMaxObjUnscaled
  d_scaleObj d_scaleElement d_scaleLower d_scaleUpper d_scaleLhs d_scaleRhs
  d_changeLower1 d_changeUpper1 d_changeLhs1 d_changeRhs1
  d_changeLower_vec d_changeUpper_vec d_changeLhs_vec d_changeRhs_vec
  d_unscalePrimal d_unscaleSlacks d_unscaleDual d_unscaleRedCost d_unscalePrimalray d_unscaleDualray.
