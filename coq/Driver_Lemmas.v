(* Projection lemmas for the record updates of DriverModel.v (generated once by a script; every proof is by conversion).
   They let the proofs in Driver_Proofs.v keep states as short chains of updates instead of normalised records. *)
From Coq Require Import ZArith List Bool.
From SV Require Import DriverModel.
Import ListNotations.
Local Open Scope Z_scope.

Lemma simp_on_emit c a b d e s : simp_on (emit c a b d e s) = simp_on s.
Proof. reflexivity. Qed.
Lemma scaler_on_emit c a b d e s : scaler_on (emit c a b d e s) = scaler_on s.
Proof. reflexivity. Qed.
Lemma loaded_emit c a b d e s : loaded (emit c a b d e s) = loaded s.
Proof. reflexivity. Qed.
Lemma scaled_emit c a b d e s : scaled (emit c a b d e s) = scaled s.
Proof. reflexivity. Qed.
Lemma sol_scaled_emit c a b d e s : sol_scaled (emit c a b d e s) = sol_scaled s.
Proof. reflexivity. Qed.
Lemma intl_emit c a b d e s : intl (emit c a b d e s) = intl s.
Proof. reflexivity. Qed.
Lemma has_basis_emit c a b d e s : has_basis (emit c a b d e s) = has_basis s.
Proof. reflexivity. Qed.
Lemma status_emit c a b d e s : status (emit c a b d e s) = status s.
Proof. reflexivity. Qed.
Lemma has_sol_emit c a b d e s : has_sol (emit c a b d e s) = has_sol s.
Proof. reflexivity. Qed.
Lemma has_ray_emit c a b d e s : has_ray (emit c a b d e s) = has_ray s.
Proof. reflexivity. Qed.
Lemma has_farkas_emit c a b d e s : has_farkas (emit c a b d e s) = has_farkas s.
Proof. reflexivity. Qed.
Lemma apply_pol_emit c a b d e s : apply_pol (emit c a b d e s) = apply_pol s.
Proof. reflexivity. Qed.
Lemma objlim_en_emit c a b d e s : objlim_en (emit c a b d e s) = objlim_en s.
Proof. reflexivity. Qed.
Lemma opt_calls_emit c a b d e s : opt_calls (emit c a b d e s) = opt_calls s.
Proof. reflexivity. Qed.
Lemma unsc_calls_emit c a b d e s : unsc_calls (emit c a b d e s) = unsc_calls s.
Proof. reflexivity. Qed.
Lemma sol_space_emit c a b d e s : sol_space (emit c a b d e s) = sol_space s.
Proof. reflexivity. Qed.
Lemma sol_ok_emit c a b d e s : sol_ok (emit c a b d e s) = sol_ok s.
Proof. reflexivity. Qed.
Lemma frame_emit c a b d e s : frame (emit c a b d e s) = frame s.
Proof. reflexivity. Qed.
Lemma trace_emit c a b d e s : trace (emit c a b d e s) = (c, a, b, d, e) :: trace s.
Proof. reflexivity. Qed.
Lemma simp_on_set_tools sm sc s : simp_on (set_tools sm sc s) = sm.
Proof. reflexivity. Qed.
Lemma scaler_on_set_tools sm sc s : scaler_on (set_tools sm sc s) = sc.
Proof. reflexivity. Qed.
Lemma loaded_set_tools sm sc s : loaded (set_tools sm sc s) = loaded s.
Proof. reflexivity. Qed.
Lemma scaled_set_tools sm sc s : scaled (set_tools sm sc s) = scaled s.
Proof. reflexivity. Qed.
Lemma sol_scaled_set_tools sm sc s : sol_scaled (set_tools sm sc s) = sol_scaled s.
Proof. reflexivity. Qed.
Lemma intl_set_tools sm sc s : intl (set_tools sm sc s) = intl s.
Proof. reflexivity. Qed.
Lemma has_basis_set_tools sm sc s : has_basis (set_tools sm sc s) = has_basis s.
Proof. reflexivity. Qed.
Lemma status_set_tools sm sc s : status (set_tools sm sc s) = status s.
Proof. reflexivity. Qed.
Lemma has_sol_set_tools sm sc s : has_sol (set_tools sm sc s) = has_sol s.
Proof. reflexivity. Qed.
Lemma has_ray_set_tools sm sc s : has_ray (set_tools sm sc s) = has_ray s.
Proof. reflexivity. Qed.
Lemma has_farkas_set_tools sm sc s : has_farkas (set_tools sm sc s) = has_farkas s.
Proof. reflexivity. Qed.
Lemma apply_pol_set_tools sm sc s : apply_pol (set_tools sm sc s) = apply_pol s.
Proof. reflexivity. Qed.
Lemma objlim_en_set_tools sm sc s : objlim_en (set_tools sm sc s) = objlim_en s.
Proof. reflexivity. Qed.
Lemma opt_calls_set_tools sm sc s : opt_calls (set_tools sm sc s) = opt_calls s.
Proof. reflexivity. Qed.
Lemma unsc_calls_set_tools sm sc s : unsc_calls (set_tools sm sc s) = unsc_calls s.
Proof. reflexivity. Qed.
Lemma sol_space_set_tools sm sc s : sol_space (set_tools sm sc s) = sol_space s.
Proof. reflexivity. Qed.
Lemma sol_ok_set_tools sm sc s : sol_ok (set_tools sm sc s) = sol_ok s.
Proof. reflexivity. Qed.
Lemma frame_set_tools sm sc s : frame (set_tools sm sc s) = frame s.
Proof. reflexivity. Qed.
Lemma trace_set_tools sm sc s : trace (set_tools sm sc s) = trace s.
Proof. reflexivity. Qed.
Lemma simp_on_set_lp ld sc ss il s : simp_on (set_lp ld sc ss il s) = simp_on s.
Proof. reflexivity. Qed.
Lemma scaler_on_set_lp ld sc ss il s : scaler_on (set_lp ld sc ss il s) = scaler_on s.
Proof. reflexivity. Qed.
Lemma loaded_set_lp ld sc ss il s : loaded (set_lp ld sc ss il s) = ld.
Proof. reflexivity. Qed.
Lemma scaled_set_lp ld sc ss il s : scaled (set_lp ld sc ss il s) = sc.
Proof. reflexivity. Qed.
Lemma sol_scaled_set_lp ld sc ss il s : sol_scaled (set_lp ld sc ss il s) = ss.
Proof. reflexivity. Qed.
Lemma intl_set_lp ld sc ss il s : intl (set_lp ld sc ss il s) = il.
Proof. reflexivity. Qed.
Lemma has_basis_set_lp ld sc ss il s : has_basis (set_lp ld sc ss il s) = has_basis s.
Proof. reflexivity. Qed.
Lemma status_set_lp ld sc ss il s : status (set_lp ld sc ss il s) = status s.
Proof. reflexivity. Qed.
Lemma has_sol_set_lp ld sc ss il s : has_sol (set_lp ld sc ss il s) = has_sol s.
Proof. reflexivity. Qed.
Lemma has_ray_set_lp ld sc ss il s : has_ray (set_lp ld sc ss il s) = has_ray s.
Proof. reflexivity. Qed.
Lemma has_farkas_set_lp ld sc ss il s : has_farkas (set_lp ld sc ss il s) = has_farkas s.
Proof. reflexivity. Qed.
Lemma apply_pol_set_lp ld sc ss il s : apply_pol (set_lp ld sc ss il s) = apply_pol s.
Proof. reflexivity. Qed.
Lemma objlim_en_set_lp ld sc ss il s : objlim_en (set_lp ld sc ss il s) = objlim_en s.
Proof. reflexivity. Qed.
Lemma opt_calls_set_lp ld sc ss il s : opt_calls (set_lp ld sc ss il s) = opt_calls s.
Proof. reflexivity. Qed.
Lemma unsc_calls_set_lp ld sc ss il s : unsc_calls (set_lp ld sc ss il s) = unsc_calls s.
Proof. reflexivity. Qed.
Lemma sol_space_set_lp ld sc ss il s : sol_space (set_lp ld sc ss il s) = sol_space s.
Proof. reflexivity. Qed.
Lemma sol_ok_set_lp ld sc ss il s : sol_ok (set_lp ld sc ss il s) = sol_ok s.
Proof. reflexivity. Qed.
Lemma frame_set_lp ld sc ss il s : frame (set_lp ld sc ss il s) = frame s.
Proof. reflexivity. Qed.
Lemma trace_set_lp ld sc ss il s : trace (set_lp ld sc ss il s) = trace s.
Proof. reflexivity. Qed.
Lemma simp_on_set_basis b s : simp_on (set_basis b s) = simp_on s.
Proof. reflexivity. Qed.
Lemma scaler_on_set_basis b s : scaler_on (set_basis b s) = scaler_on s.
Proof. reflexivity. Qed.
Lemma loaded_set_basis b s : loaded (set_basis b s) = loaded s.
Proof. reflexivity. Qed.
Lemma scaled_set_basis b s : scaled (set_basis b s) = scaled s.
Proof. reflexivity. Qed.
Lemma sol_scaled_set_basis b s : sol_scaled (set_basis b s) = sol_scaled s.
Proof. reflexivity. Qed.
Lemma intl_set_basis b s : intl (set_basis b s) = intl s.
Proof. reflexivity. Qed.
Lemma has_basis_set_basis b s : has_basis (set_basis b s) = b.
Proof. reflexivity. Qed.
Lemma status_set_basis b s : status (set_basis b s) = status s.
Proof. reflexivity. Qed.
Lemma has_sol_set_basis b s : has_sol (set_basis b s) = has_sol s.
Proof. reflexivity. Qed.
Lemma has_ray_set_basis b s : has_ray (set_basis b s) = has_ray s.
Proof. reflexivity. Qed.
Lemma has_farkas_set_basis b s : has_farkas (set_basis b s) = has_farkas s.
Proof. reflexivity. Qed.
Lemma apply_pol_set_basis b s : apply_pol (set_basis b s) = apply_pol s.
Proof. reflexivity. Qed.
Lemma objlim_en_set_basis b s : objlim_en (set_basis b s) = objlim_en s.
Proof. reflexivity. Qed.
Lemma opt_calls_set_basis b s : opt_calls (set_basis b s) = opt_calls s.
Proof. reflexivity. Qed.
Lemma unsc_calls_set_basis b s : unsc_calls (set_basis b s) = unsc_calls s.
Proof. reflexivity. Qed.
Lemma sol_space_set_basis b s : sol_space (set_basis b s) = sol_space s.
Proof. reflexivity. Qed.
Lemma sol_ok_set_basis b s : sol_ok (set_basis b s) = sol_ok s.
Proof. reflexivity. Qed.
Lemma frame_set_basis b s : frame (set_basis b s) = frame s.
Proof. reflexivity. Qed.
Lemma trace_set_basis b s : trace (set_basis b s) = trace s.
Proof. reflexivity. Qed.
Lemma simp_on_set_status t s : simp_on (set_status t s) = simp_on s.
Proof. reflexivity. Qed.
Lemma scaler_on_set_status t s : scaler_on (set_status t s) = scaler_on s.
Proof. reflexivity. Qed.
Lemma loaded_set_status t s : loaded (set_status t s) = loaded s.
Proof. reflexivity. Qed.
Lemma scaled_set_status t s : scaled (set_status t s) = scaled s.
Proof. reflexivity. Qed.
Lemma sol_scaled_set_status t s : sol_scaled (set_status t s) = sol_scaled s.
Proof. reflexivity. Qed.
Lemma intl_set_status t s : intl (set_status t s) = intl s.
Proof. reflexivity. Qed.
Lemma has_basis_set_status t s : has_basis (set_status t s) = has_basis s.
Proof. reflexivity. Qed.
Lemma status_set_status t s : status (set_status t s) = t.
Proof. reflexivity. Qed.
Lemma has_sol_set_status t s : has_sol (set_status t s) = has_sol s.
Proof. reflexivity. Qed.
Lemma has_ray_set_status t s : has_ray (set_status t s) = has_ray s.
Proof. reflexivity. Qed.
Lemma has_farkas_set_status t s : has_farkas (set_status t s) = has_farkas s.
Proof. reflexivity. Qed.
Lemma apply_pol_set_status t s : apply_pol (set_status t s) = apply_pol s.
Proof. reflexivity. Qed.
Lemma objlim_en_set_status t s : objlim_en (set_status t s) = objlim_en s.
Proof. reflexivity. Qed.
Lemma opt_calls_set_status t s : opt_calls (set_status t s) = opt_calls s.
Proof. reflexivity. Qed.
Lemma unsc_calls_set_status t s : unsc_calls (set_status t s) = unsc_calls s.
Proof. reflexivity. Qed.
Lemma sol_space_set_status t s : sol_space (set_status t s) = sol_space s.
Proof. reflexivity. Qed.
Lemma sol_ok_set_status t s : sol_ok (set_status t s) = sol_ok s.
Proof. reflexivity. Qed.
Lemma frame_set_status t s : frame (set_status t s) = frame s.
Proof. reflexivity. Qed.
Lemma trace_set_status t s : trace (set_status t s) = trace s.
Proof. reflexivity. Qed.
Lemma simp_on_set_sol hs hr hf sp ok s : simp_on (set_sol hs hr hf sp ok s) = simp_on s.
Proof. reflexivity. Qed.
Lemma scaler_on_set_sol hs hr hf sp ok s : scaler_on (set_sol hs hr hf sp ok s) = scaler_on s.
Proof. reflexivity. Qed.
Lemma loaded_set_sol hs hr hf sp ok s : loaded (set_sol hs hr hf sp ok s) = loaded s.
Proof. reflexivity. Qed.
Lemma scaled_set_sol hs hr hf sp ok s : scaled (set_sol hs hr hf sp ok s) = scaled s.
Proof. reflexivity. Qed.
Lemma sol_scaled_set_sol hs hr hf sp ok s : sol_scaled (set_sol hs hr hf sp ok s) = sol_scaled s.
Proof. reflexivity. Qed.
Lemma intl_set_sol hs hr hf sp ok s : intl (set_sol hs hr hf sp ok s) = intl s.
Proof. reflexivity. Qed.
Lemma has_basis_set_sol hs hr hf sp ok s : has_basis (set_sol hs hr hf sp ok s) = has_basis s.
Proof. reflexivity. Qed.
Lemma status_set_sol hs hr hf sp ok s : status (set_sol hs hr hf sp ok s) = status s.
Proof. reflexivity. Qed.
Lemma has_sol_set_sol hs hr hf sp ok s : has_sol (set_sol hs hr hf sp ok s) = hs.
Proof. reflexivity. Qed.
Lemma has_ray_set_sol hs hr hf sp ok s : has_ray (set_sol hs hr hf sp ok s) = hr.
Proof. reflexivity. Qed.
Lemma has_farkas_set_sol hs hr hf sp ok s : has_farkas (set_sol hs hr hf sp ok s) = hf.
Proof. reflexivity. Qed.
Lemma apply_pol_set_sol hs hr hf sp ok s : apply_pol (set_sol hs hr hf sp ok s) = apply_pol s.
Proof. reflexivity. Qed.
Lemma objlim_en_set_sol hs hr hf sp ok s : objlim_en (set_sol hs hr hf sp ok s) = objlim_en s.
Proof. reflexivity. Qed.
Lemma opt_calls_set_sol hs hr hf sp ok s : opt_calls (set_sol hs hr hf sp ok s) = opt_calls s.
Proof. reflexivity. Qed.
Lemma unsc_calls_set_sol hs hr hf sp ok s : unsc_calls (set_sol hs hr hf sp ok s) = unsc_calls s.
Proof. reflexivity. Qed.
Lemma sol_space_set_sol hs hr hf sp ok s : sol_space (set_sol hs hr hf sp ok s) = sp.
Proof. reflexivity. Qed.
Lemma sol_ok_set_sol hs hr hf sp ok s : sol_ok (set_sol hs hr hf sp ok s) = ok.
Proof. reflexivity. Qed.
Lemma frame_set_sol hs hr hf sp ok s : frame (set_sol hs hr hf sp ok s) = frame s.
Proof. reflexivity. Qed.
Lemma trace_set_sol hs hr hf sp ok s : trace (set_sol hs hr hf sp ok s) = trace s.
Proof. reflexivity. Qed.
Lemma simp_on_set_flags ap ol s : simp_on (set_flags ap ol s) = simp_on s.
Proof. reflexivity. Qed.
Lemma scaler_on_set_flags ap ol s : scaler_on (set_flags ap ol s) = scaler_on s.
Proof. reflexivity. Qed.
Lemma loaded_set_flags ap ol s : loaded (set_flags ap ol s) = loaded s.
Proof. reflexivity. Qed.
Lemma scaled_set_flags ap ol s : scaled (set_flags ap ol s) = scaled s.
Proof. reflexivity. Qed.
Lemma sol_scaled_set_flags ap ol s : sol_scaled (set_flags ap ol s) = sol_scaled s.
Proof. reflexivity. Qed.
Lemma intl_set_flags ap ol s : intl (set_flags ap ol s) = intl s.
Proof. reflexivity. Qed.
Lemma has_basis_set_flags ap ol s : has_basis (set_flags ap ol s) = has_basis s.
Proof. reflexivity. Qed.
Lemma status_set_flags ap ol s : status (set_flags ap ol s) = status s.
Proof. reflexivity. Qed.
Lemma has_sol_set_flags ap ol s : has_sol (set_flags ap ol s) = has_sol s.
Proof. reflexivity. Qed.
Lemma has_ray_set_flags ap ol s : has_ray (set_flags ap ol s) = has_ray s.
Proof. reflexivity. Qed.
Lemma has_farkas_set_flags ap ol s : has_farkas (set_flags ap ol s) = has_farkas s.
Proof. reflexivity. Qed.
Lemma apply_pol_set_flags ap ol s : apply_pol (set_flags ap ol s) = ap.
Proof. reflexivity. Qed.
Lemma objlim_en_set_flags ap ol s : objlim_en (set_flags ap ol s) = ol.
Proof. reflexivity. Qed.
Lemma opt_calls_set_flags ap ol s : opt_calls (set_flags ap ol s) = opt_calls s.
Proof. reflexivity. Qed.
Lemma unsc_calls_set_flags ap ol s : unsc_calls (set_flags ap ol s) = unsc_calls s.
Proof. reflexivity. Qed.
Lemma sol_space_set_flags ap ol s : sol_space (set_flags ap ol s) = sol_space s.
Proof. reflexivity. Qed.
Lemma sol_ok_set_flags ap ol s : sol_ok (set_flags ap ol s) = sol_ok s.
Proof. reflexivity. Qed.
Lemma frame_set_flags ap ol s : frame (set_flags ap ol s) = frame s.
Proof. reflexivity. Qed.
Lemma trace_set_flags ap ol s : trace (set_flags ap ol s) = trace s.
Proof. reflexivity. Qed.
Lemma simp_on_set_counts oc uc fr s : simp_on (set_counts oc uc fr s) = simp_on s.
Proof. reflexivity. Qed.
Lemma scaler_on_set_counts oc uc fr s : scaler_on (set_counts oc uc fr s) = scaler_on s.
Proof. reflexivity. Qed.
Lemma loaded_set_counts oc uc fr s : loaded (set_counts oc uc fr s) = loaded s.
Proof. reflexivity. Qed.
Lemma scaled_set_counts oc uc fr s : scaled (set_counts oc uc fr s) = scaled s.
Proof. reflexivity. Qed.
Lemma sol_scaled_set_counts oc uc fr s : sol_scaled (set_counts oc uc fr s) = sol_scaled s.
Proof. reflexivity. Qed.
Lemma intl_set_counts oc uc fr s : intl (set_counts oc uc fr s) = intl s.
Proof. reflexivity. Qed.
Lemma has_basis_set_counts oc uc fr s : has_basis (set_counts oc uc fr s) = has_basis s.
Proof. reflexivity. Qed.
Lemma status_set_counts oc uc fr s : status (set_counts oc uc fr s) = status s.
Proof. reflexivity. Qed.
Lemma has_sol_set_counts oc uc fr s : has_sol (set_counts oc uc fr s) = has_sol s.
Proof. reflexivity. Qed.
Lemma has_ray_set_counts oc uc fr s : has_ray (set_counts oc uc fr s) = has_ray s.
Proof. reflexivity. Qed.
Lemma has_farkas_set_counts oc uc fr s : has_farkas (set_counts oc uc fr s) = has_farkas s.
Proof. reflexivity. Qed.
Lemma apply_pol_set_counts oc uc fr s : apply_pol (set_counts oc uc fr s) = apply_pol s.
Proof. reflexivity. Qed.
Lemma objlim_en_set_counts oc uc fr s : objlim_en (set_counts oc uc fr s) = objlim_en s.
Proof. reflexivity. Qed.
Lemma opt_calls_set_counts oc uc fr s : opt_calls (set_counts oc uc fr s) = oc.
Proof. reflexivity. Qed.
Lemma unsc_calls_set_counts oc uc fr s : unsc_calls (set_counts oc uc fr s) = uc.
Proof. reflexivity. Qed.
Lemma sol_space_set_counts oc uc fr s : sol_space (set_counts oc uc fr s) = sol_space s.
Proof. reflexivity. Qed.
Lemma sol_ok_set_counts oc uc fr s : sol_ok (set_counts oc uc fr s) = sol_ok s.
Proof. reflexivity. Qed.
Lemma frame_set_counts oc uc fr s : frame (set_counts oc uc fr s) = fr.
Proof. reflexivity. Qed.
Lemma trace_set_counts oc uc fr s : trace (set_counts oc uc fr s) = trace s.
Proof. reflexivity. Qed.

#[export] Hint Rewrite simp_on_emit scaler_on_emit loaded_emit scaled_emit sol_scaled_emit intl_emit has_basis_emit status_emit has_sol_emit has_ray_emit has_farkas_emit apply_pol_emit objlim_en_emit opt_calls_emit unsc_calls_emit sol_space_emit sol_ok_emit frame_emit trace_emit simp_on_set_tools scaler_on_set_tools loaded_set_tools scaled_set_tools sol_scaled_set_tools intl_set_tools has_basis_set_tools status_set_tools has_sol_set_tools has_ray_set_tools has_farkas_set_tools apply_pol_set_tools objlim_en_set_tools opt_calls_set_tools unsc_calls_set_tools sol_space_set_tools sol_ok_set_tools frame_set_tools trace_set_tools simp_on_set_lp scaler_on_set_lp loaded_set_lp scaled_set_lp sol_scaled_set_lp intl_set_lp has_basis_set_lp status_set_lp has_sol_set_lp has_ray_set_lp has_farkas_set_lp apply_pol_set_lp objlim_en_set_lp opt_calls_set_lp unsc_calls_set_lp sol_space_set_lp sol_ok_set_lp frame_set_lp trace_set_lp simp_on_set_basis scaler_on_set_basis loaded_set_basis scaled_set_basis sol_scaled_set_basis intl_set_basis has_basis_set_basis status_set_basis has_sol_set_basis has_ray_set_basis has_farkas_set_basis apply_pol_set_basis objlim_en_set_basis opt_calls_set_basis unsc_calls_set_basis sol_space_set_basis sol_ok_set_basis frame_set_basis trace_set_basis simp_on_set_status scaler_on_set_status loaded_set_status scaled_set_status sol_scaled_set_status intl_set_status has_basis_set_status status_set_status has_sol_set_status has_ray_set_status has_farkas_set_status apply_pol_set_status objlim_en_set_status opt_calls_set_status unsc_calls_set_status sol_space_set_status sol_ok_set_status frame_set_status trace_set_status simp_on_set_sol scaler_on_set_sol loaded_set_sol scaled_set_sol sol_scaled_set_sol intl_set_sol has_basis_set_sol status_set_sol has_sol_set_sol has_ray_set_sol has_farkas_set_sol apply_pol_set_sol objlim_en_set_sol opt_calls_set_sol unsc_calls_set_sol sol_space_set_sol sol_ok_set_sol frame_set_sol trace_set_sol simp_on_set_flags scaler_on_set_flags loaded_set_flags scaled_set_flags sol_scaled_set_flags intl_set_flags has_basis_set_flags status_set_flags has_sol_set_flags has_ray_set_flags has_farkas_set_flags apply_pol_set_flags objlim_en_set_flags opt_calls_set_flags unsc_calls_set_flags sol_space_set_flags sol_ok_set_flags frame_set_flags trace_set_flags simp_on_set_counts scaler_on_set_counts loaded_set_counts scaled_set_counts sol_scaled_set_counts intl_set_counts has_basis_set_counts status_set_counts has_sol_set_counts has_ray_set_counts has_farkas_set_counts apply_pol_set_counts objlim_en_set_counts opt_calls_set_counts unsc_calls_set_counts sol_space_set_counts sol_ok_set_counts frame_set_counts trace_set_counts : drv.

Global Opaque emit set_tools set_lp set_basis set_status set_sol set_flags set_counts.
