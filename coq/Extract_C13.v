(* Extraction of the C13 lexer models (ExtrOcamlBasic only: bool, option, unit, list, prod mapped to OCaml's;
   nat, positive, Z stay the extracted inductive types). *)
From Coq Require Extraction.
From Coq Require Import ExtrOcamlBasic ZArith List.
From SV Require Import SettingsLexer LexersModel.

Definition c13_lpf_cap := LPF_CAP.

Extraction "../extract/C13/model.ml" readLine fresh_stream init_pstate c_parse
  lpf_read_value lpf_read_colname lpf_has_rowname lpf_has_keyword c13_lpf_cap.
