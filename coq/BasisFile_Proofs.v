(* Lemmas about the BAS file model (C14). *)
From Coq Require Import QArith Bool List ZArith String Ascii DecimalString Decimal DecimalNat FinFun Lia.
From SV Require Import BasisModel BasisModel_Proofs BasisFileModel.
Import ListNotations.
Local Open Scope nat_scope.

(* ---------------------------------------------------------------------------------------------------------- *)
(* lists                                                                                                      *)
(* ---------------------------------------------------------------------------------------------------------- *)

Lemma find_name_app : forall nm pre suf, ~ In nm pre -> find_name nm (pre ++ nm :: suf) = Some (List.length pre).
Proof.
  intros nm pre suf. induction pre as [|a pre IH]; intros H; cbn.
  - rewrite String.eqb_refl. reflexivity.
  - destruct (String.eqb nm a) eqn:E.
    + apply String.eqb_eq in E. subst. exfalso. apply H. left. reflexivity.
    + rewrite IH; [reflexivity|]. intro K. apply H. right. exact K.
Qed.

Lemma set_nth_app : forall (A : Type) (pre : list A) x y suf,
  set_nth (List.length pre) y (pre ++ x :: suf) = pre ++ y :: suf.
Proof. intros A pre x y suf. induction pre as [|a pre IH]; cbn; [reflexivity|]. rewrite IH. reflexivity. Qed.

Lemma app_cons_assoc : forall (A : Type) (l : list A) x t, l ++ x :: t = (l ++ [x]) ++ t.
Proof. intros. rewrite <- app_assoc. reflexivity. Qed.

(* ---------------------------------------------------------------------------------------------------------- *)
(* what the reader holds after reading what the writer wrote, entry by entry                                  *)
(* ---------------------------------------------------------------------------------------------------------- *)

Definition exp_col' (v : var) (s : DStatus) : DStatus :=
  if is_dual s then dualStatus v else if ds_eqb s P_ON_UPPER then P_ON_UPPER else default_col v.

Definition exp_row' (cpx : bool) (v : var) (s : DStatus) : DStatus :=
  if is_dual s then dualStatus v else x_row_status (x_tag cpx v s) (rowType v).

Definition exp_col (e : ent) : DStatus := exp_col' (e_var e) (e_stat e).
Definition exp_row (cpx : bool) (e : ent) : DStatus := exp_row' cpx (e_var e) (e_stat e).

Ltac entry_cases v s :=
  destruct v as [[l|] [u|] o]; destruct s;
  unfold entry_valid, free_ok1, repair, exp_col', exp_row', x_row_status, x_tag, is_range, rowType, default_col,
         dualStatus, lo_fin, up_fin, bounds_eq, is_dual, ds_eqb in *; cbn in *;
  try discriminate; try reflexivity;
  try (destruct (Qeq_bool l u); cbn in *; try discriminate; try reflexivity;
       destruct (Qle_bool o 0%Q); cbn in *; try discriminate; reflexivity).

Lemma rt_col : forall v s, entry_valid v s = true -> free_ok1 v s = true ->
  repair v (exp_col' v s) = repair v s.
Proof. intros v s HV HF. entry_cases v s. Qed.

Lemma rt_row : forall cpx v s, entry_valid v s = true -> free_ok1 v s = true ->
  repair v (exp_row' cpx v s) = repair v s.
Proof. intros cpx v s HV HF. destruct cpx; entry_cases v s. Qed.

Lemma exp_row_dual : forall cpx e, is_dual (e_stat e) = true -> exp_row cpx e = dualStatus (e_var e).
Proof. intros cpx e H. unfold exp_row, exp_row'. rewrite H. reflexivity. Qed.

Lemma exp_row_primal : forall cpx e, is_dual (e_stat e) = false ->
  exp_row cpx e = x_row_status (x_tag cpx (e_var e) (e_stat e)) (rowType (e_var e)).
Proof. intros cpx e H. unfold exp_row, exp_row'. rewrite H. reflexivity. Qed.

(* ---------------------------------------------------------------------------------------------------------- *)
(* the row cursor                                                                                             *)
(* ---------------------------------------------------------------------------------------------------------- *)

Definition names (l : list ent) : list string := map e_name l.
Definition vars (l : list ent) : list var := map e_var l.
Definition stats (l : list ent) : list DStatus := map e_stat l.

Lemma skip_basic_split : forall rows, 0 < count_primal (stats rows) ->
  exists rb e rows', rows = rb ++ e :: rows' /\ Forall (fun x => is_dual (e_stat x) = true) rb /\
                     is_dual (e_stat e) = false /\ skip_basic rows = e :: rows'.
Proof.
  unfold count_primal, stats. induction rows as [|x rows IH]; intros H; cbn in H; [lia|].
  destruct (is_dual (e_stat x)) eqn:E; cbn in H.
  - destruct (IH H) as [rb [e [rows' [A [B [C D]]]]]].
    exists (x :: rb), e, rows'. repeat split.
    + cbn. rewrite A. reflexivity.
    + constructor; assumption.
    + exact C.
    + cbn. rewrite E. exact D.
  - exists [], x, rows. repeat split.
    + constructor.
    + exact E.
    + cbn. rewrite E. reflexivity.
Qed.

Lemma count_primal_app : forall a b, count_primal (a ++ b) = count_primal a + count_primal b.
Proof. intros a b. unfold count_primal. rewrite filter_app, app_length. reflexivity. Qed.

Lemma count_primal_all_dual : forall rb, Forall (fun x => is_dual (e_stat x) = true) rb -> count_primal (stats rb) = 0.
Proof.
  unfold count_primal, stats. induction rb as [|x rb IH]; intros H; cbn; [reflexivity|].
  inversion H; subst. rewrite H2. cbn. apply IH. assumption.
Qed.

Lemma map_exp_row_all_dual : forall cpx rb, Forall (fun x => is_dual (e_stat x) = true) rb ->
  map (exp_row cpx) rb = map dualStatus (vars rb).
Proof.
  intros cpx rb H. unfold vars. induction rb as [|x rb IH]; cbn; [reflexivity|].
  inversion H; subst. rewrite exp_row_dual by assumption. rewrite IH by assumption. reflexivity.
Qed.

Lemma all_dual_of_count : forall rows, count_primal (stats rows) = 0 -> Forall (fun x => is_dual (e_stat x) = true) rows.
Proof.
  unfold count_primal, stats. induction rows as [|x rows IH]; intros H; [constructor|].
  cbn in H. destruct (is_dual (e_stat x)) eqn:E; cbn in H; [|discriminate]. constructor; [exact E | apply IH, H].
Qed.

(* ---------------------------------------------------------------------------------------------------------- *)
(* single data lines                                                                                          *)
(* ---------------------------------------------------------------------------------------------------------- *)

Lemma apply_X : forall t vrp rv vrs vcp cv vcs rp rn rs cp cn cs Lr a Lrs Lc b Lcs,
  (t = XU \/ t = XL) ->
  ~ In cn cp -> ~ In rn rp ->
  List.length vrp = List.length rp -> List.length Lr = List.length rp ->
  List.length vcp = List.length cp -> List.length Lc = List.length cp ->
  apply_rec (mkBlp (vrp ++ rv :: vrs) (vcp ++ cv :: vcs)) (rp ++ rn :: rs) (cp ++ cn :: cs)
            (mkDesc (Lr ++ a :: Lrs) (Lc ++ b :: Lcs)) (mkRec t cn (Some rn))
  = Some (mkDesc (Lr ++ x_row_status t (rowType rv) :: Lrs) (Lc ++ dualStatus cv :: Lcs)).
Proof.
  intros t vrp rv vrs vcp cv vcs rp rn rs cp cn cs Lr a Lrs Lc b Lcs Ht Hc Hr E1 E2 E3 E4.
  assert (N1 : nth (List.length rp) (vrp ++ rv :: vrs) dummy_var = rv) by (rewrite <- E1; apply nth_middle).
  assert (N2 : nth (List.length cp) (vcp ++ cv :: vcs) dummy_var = cv) by (rewrite <- E3; apply nth_middle).
  assert (S1 : forall X, set_nth (List.length rp) X (Lr ++ a :: Lrs) = Lr ++ X :: Lrs)
    by (intros X; rewrite <- E2; apply set_nth_app).
  assert (S2 : forall X, set_nth (List.length cp) X (Lc ++ b :: Lcs) = Lc ++ X :: Lcs)
    by (intros X; rewrite <- E4; apply set_nth_app).
  destruct Ht as [Ht|Ht]; subst t; unfold apply_rec; cbn [r_col r_tag r_row b_rows b_cols d_rows d_cols];
    rewrite (find_name_app cn cp cs Hc), (find_name_app rn rp rs Hr), N1, N2, S1, S2; reflexivity.
Qed.

Lemma apply_UL : forall lp rnames cp cn cs Lr Lc b Lcs,
  ~ In cn cp -> List.length Lc = List.length cp ->
  apply_rec lp rnames (cp ++ cn :: cs) (mkDesc Lr (Lc ++ b :: Lcs)) (mkRec UL cn None)
  = Some (mkDesc Lr (Lc ++ P_ON_UPPER :: Lcs)).
Proof.
  intros lp rnames cp cn cs Lr Lc b Lcs Hc E.
  unfold apply_rec; cbn [r_col r_tag r_row d_rows d_cols].
  rewrite (find_name_app cn cp cs Hc). rewrite <- E, set_nth_app. reflexivity.
Qed.

(* ---------------------------------------------------------------------------------------------------------- *)
(* reading back what the writer wrote: the state before loadDesc                                              *)
(* ---------------------------------------------------------------------------------------------------------- *)

Lemma x_tag_cases : forall cpx v s, x_tag cpx v s = XU \/ x_tag cpx v s = XL.
Proof. intros. unfold x_tag. destruct (ds_eqb s P_ON_UPPER && (negb cpx || is_range v)); auto. Qed.

Lemma read_write_gen : forall cpx cols rows cpre vcpre Lc rpre vrpre Lr,
  NoDup (cpre ++ names cols) -> NoDup (rpre ++ names rows) ->
  List.length vcpre = List.length cpre -> List.length Lc = List.length cpre ->
  List.length vrpre = List.length rpre -> List.length Lr = List.length rpre ->
  count_primal (stats rows) = count_dual (stats cols) ->
  read_recs (mkBlp (vrpre ++ vars rows) (vcpre ++ vars cols)) (rpre ++ names rows) (cpre ++ names cols)
            (mkDesc (Lr ++ map dualStatus (vars rows)) (Lc ++ map default_col (vars cols)))
            (wb cpx cols rows)
  = Some (mkDesc (Lr ++ map (exp_row cpx) rows) (Lc ++ map exp_col cols)).
Proof.
  intros cpx cols. induction cols as [|c cols IH];
    intros rows cpre vcpre Lc rpre vrpre Lr NDc NDr E1 E2 E3 E4 CNT.
  - cbn [wb read_recs]. cbn in CNT. apply all_dual_of_count in CNT.
    rewrite (map_exp_row_all_dual cpx rows CNT). reflexivity.
  - cbn [wb]. cbn [names vars stats map] in *.
    destruct (is_dual (e_stat c)) eqn:Ec.
    + (* basic column: paired with the next non-basic row *)
      assert (P : 0 < count_primal (stats rows)).
      { rewrite CNT. unfold count_dual. cbn [filter]. rewrite Ec. cbn. lia. }
      destruct (skip_basic_split rows P) as [rb [e [rows' [Hrows [Hrb [He Hskip]]]]]].
      rewrite Hskip. cbn [read_recs]. subst rows.
      unfold names, vars, stats in *. rewrite !map_app in *. cbn [map] in *.
      rewrite (app_assoc rpre), (app_assoc vrpre), (app_assoc Lr) in *.
      rewrite (apply_X (x_tag cpx (e_var e) (e_stat e))); cycle 1.
      * apply x_tag_cases.
      * apply NoDup_remove_2 in NDc. intro K. apply NDc. apply in_or_app. left. exact K.
      * apply NoDup_remove_2 in NDr. intro K. apply NDr. apply in_or_app. left. exact K.
      * rewrite !app_length, !map_length. lia.
      * rewrite !app_length, !map_length. lia.
      * exact E1.
      * exact E2.
      * rewrite (app_cons_assoc _ (rpre ++ map e_name rb)), (app_cons_assoc _ (vrpre ++ map e_var rb)),
                (app_cons_assoc _ (Lr ++ map dualStatus (map e_var rb))),
                (app_cons_assoc _ cpre), (app_cons_assoc _ vcpre), (app_cons_assoc _ Lc) in *.
        rewrite (IH rows'); cycle 1.
        -- exact NDc.
        -- exact NDr.
        -- rewrite !app_length. cbn. lia.
        -- rewrite !app_length. cbn. lia.
        -- rewrite !app_length, !map_length. cbn. lia.
        -- rewrite !app_length, !map_length. cbn. lia.
        -- rewrite count_primal_app in CNT. fold (stats rb) in CNT. rewrite (count_primal_all_dual rb Hrb) in CNT.
           unfold count_primal in CNT. cbn [filter] in CNT. rewrite He in CNT. cbn in CNT.
           unfold count_dual in CNT. cbn [filter] in CNT. rewrite Ec in CNT. cbn in CNT.
           unfold count_primal, count_dual. lia.
        -- f_equal. f_equal.
           ++ rewrite (map_exp_row_all_dual cpx rb Hrb). unfold vars. cbn [map].
              rewrite (exp_row_primal cpx e He). rewrite <- !app_assoc. reflexivity.
           ++ unfold exp_col at 2, exp_col'. rewrite Ec. rewrite <- !app_assoc. reflexivity.
    + destruct (ds_eqb (e_stat c) P_ON_UPPER) eqn:Eu.
      * (* non-basic at upper: UL *)
        cbn [read_recs].
        rewrite apply_UL; cycle 1.
        -- apply NoDup_remove_2 in NDc. intro K. apply NDc. apply in_or_app. left. exact K.
        -- exact E2.
        -- rewrite (app_cons_assoc _ cpre), (app_cons_assoc _ vcpre), (app_cons_assoc _ Lc) in *.
           rewrite (IH rows); cycle 1.
           ++ exact NDc.
           ++ exact NDr.
           ++ rewrite !app_length. cbn. lia.
           ++ rewrite !app_length. cbn. lia.
           ++ exact E3.
           ++ exact E4.
           ++ rewrite CNT. unfold count_dual. cbn [filter]. rewrite Ec. reflexivity.
           ++ f_equal. f_equal. unfold exp_col at 2, exp_col'. rewrite Ec, Eu. rewrite <- !app_assoc. reflexivity.
      * (* implicit: nothing written *)
        rewrite (app_cons_assoc _ cpre), (app_cons_assoc _ vcpre), (app_cons_assoc _ Lc) in *.
        rewrite (IH rows); cycle 1.
        -- exact NDc.
        -- exact NDr.
        -- rewrite !app_length. cbn. lia.
        -- rewrite !app_length. cbn. lia.
        -- exact E3.
        -- exact E4.
        -- rewrite CNT. unfold count_dual. cbn [filter]. rewrite Ec. reflexivity.
        -- f_equal. f_equal. unfold exp_col at 2, exp_col'. rewrite Ec, Eu. rewrite <- !app_assoc. reflexivity.
Qed.

(* ---------------------------------------------------------------------------------------------------------- *)
(* entries built from three aligned lists                                                                     *)
(* ---------------------------------------------------------------------------------------------------------- *)

Lemma entries_names : forall ns vs ds, List.length ns = List.length vs -> List.length vs = List.length ds ->
  names (entries ns vs ds) = ns.
Proof.
  intros ns vs ds H1 H2. unfold names, entries, e_name. apply map_fst_combine.
  rewrite combine_length_eq by exact H2. exact H1.
Qed.

Lemma entries_vars : forall ns vs ds, List.length ns = List.length vs -> List.length vs = List.length ds ->
  vars (entries ns vs ds) = vs.
Proof.
  unfold vars, entries, e_var. induction ns as [|n ns IH]; intros vs ds H1 H2; destruct vs as [|v vs]; destruct ds as [|s ds];
    cbn in *; try discriminate; [reflexivity|]. rewrite IH by lia. reflexivity.
Qed.

Lemma entries_stats : forall ns vs ds, List.length ns = List.length vs -> List.length vs = List.length ds ->
  stats (entries ns vs ds) = ds.
Proof.
  unfold stats, entries, e_stat. induction ns as [|n ns IH]; intros vs ds H1 H2; destruct vs as [|v vs]; destruct ds as [|s ds];
    cbn in *; try discriminate; [reflexivity|]. rewrite IH by lia. reflexivity.
Qed.

Lemma repair_list_entries : forall (P : var -> DStatus -> bool) (g : var -> DStatus -> DStatus) ns vs ds,
  List.length ns = List.length vs -> List.length vs = List.length ds ->
  forallb (fun p => P (fst p) (snd p)) (combine vs ds) = true ->
  (forall v s, P v s = true -> repair v (g v s) = repair v s) ->
  repair_list vs (map (fun e => g (e_var e) (e_stat e)) (entries ns vs ds)) = repair_list vs ds.
Proof.
  intros P g. unfold repair_list, entries, e_var, e_stat.
  induction ns as [|n ns IH]; intros vs ds H1 H2 HP HG; destruct vs as [|v vs]; destruct ds as [|s ds];
    cbn in *; try discriminate; [reflexivity|].
  apply andb_true_iff in HP. destruct HP as [Hp1 Hp2].
  rewrite (HG _ _ Hp1). rewrite IH by (try lia; assumption). reflexivity.
Qed.

(* ---------------------------------------------------------------------------------------------------------- *)
(* the round trip                                                                                             *)
(* ---------------------------------------------------------------------------------------------------------- *)

Lemma loadDesc_ext : forall lp d1 d2,
  repair_list (b_rows lp) (d_rows d1) = repair_list (b_rows lp) (d_rows d2) ->
  repair_list (b_cols lp) (d_cols d1) = repair_list (b_cols lp) (d_cols d2) ->
  loadDesc lp d1 = loadDesc lp d2.
Proof. intros lp d1 d2 H1 H2. unfold loadDesc. rewrite H1, H2. reflexivity. Qed.

Lemma bas_roundtrip : forall lp d rn cn cpx,
  isDescValid lp d = true -> free_ok lp d = true ->
  NoDup rn -> NoDup cn -> List.length rn = nRows lp -> List.length cn = nCols lp ->
  readBasis lp rn cn (writeBasis lp d rn cn cpx) = Some (loadDesc lp d).
Proof.
  intros lp d rn cn cpx HV HF NDr NDc Lrn Lcn.
  pose proof (isDescValid_count lp d HV) as [Lr [Lc [_ CNT]]].
  unfold isDescValid in HV. and5 HV V1 V2 V3 V4 V5.
  unfold free_ok in HF. apply andb_true_iff in HF. destruct HF as [F1 F2].
  destruct lp as [R C]. unfold nRows, nCols in *. cbn [b_rows b_cols] in *.
  unfold readBasis, writeBasis, defaultDesc. cbn [b_rows b_cols].
  set (rows := entries rn R (d_rows d)). set (cols := entries cn C (d_cols d)).
  assert (Nr : names rows = rn) by (apply entries_names; lia).
  assert (Nc : names cols = cn) by (apply entries_names; lia).
  assert (Vr : vars rows = R) by (apply entries_vars; lia).
  assert (Vc : vars cols = C) by (apply entries_vars; lia).
  assert (Sr : stats rows = d_rows d) by (apply entries_stats; lia).
  assert (Sc : stats cols = d_cols d) by (apply entries_stats; lia).
  pose proof (read_write_gen cpx cols rows [] [] [] [] [] []) as G. rewrite !app_nil_l in G.
  rewrite Nr, Nc, Vr, Vc, Sr, Sc in G.
  rewrite G by (try assumption; try reflexivity).
  cbn [option_map]. f_equal. apply loadDesc_ext; cbn [b_rows b_cols d_rows d_cols].
  - unfold rows, exp_row.
    apply (repair_list_entries (fun v s => entry_valid v s && free_ok1 v s) (exp_row' cpx)); try lia.
    + apply forallb_combine_and; assumption.
    + intros v s H. apply andb_true_iff in H. destruct H. apply rt_row; assumption.
  - unfold cols, exp_col.
    apply (repair_list_entries (fun v s => entry_valid v s && free_ok1 v s) exp_col'); try lia.
    + apply forallb_combine_and; assumption.
    + intros v s H. apply andb_true_iff in H. destruct H. apply rt_col; assumption.
Qed.

(* descriptors that went through loadDesc never carry an ambiguous P_FREE *)
Lemma free_ok1_repair : forall v s, free_ok1 v (repair v s) = true.
Proof.
  intros v s. destruct v as [[l|] [u|] o]; destruct s;
    unfold free_ok1, repair, dualStatus, lo_fin, up_fin, bounds_eq, is_dual, ds_eqb; cbn; try reflexivity;
    try (destruct (Qeq_bool l u); cbn; try reflexivity; destruct (Qle_bool o 0%Q); reflexivity).
Qed.

Lemma free_ok1_dual : forall v, free_ok1 v (dualStatus v) = true.
Proof.
  intros v. destruct v as [[l|] [u|] o]; unfold free_ok1, dualStatus, lo_fin, up_fin, bounds_eq, ds_eqb; cbn;
    try reflexivity. destruct (Qeq_bool l u); reflexivity.
Qed.

Lemma free_ok1_primal : forall v, free_ok1 v (primalStatus v) = true.
Proof.
  intros v. destruct v as [[l|] [u|] o]; unfold free_ok1, primalStatus, lo_fin, up_fin, bounds_eq, neg_lo_lt_up, ds_eqb; cbn;
    try reflexivity.
  destruct (Qeq_bool l u); cbn; [reflexivity|].
  destruct (Qeq_bool o 0%Q); [destruct (Qlt_b (- l)%Q u); reflexivity|]. destruct (Qlt_b o 0%Q); reflexivity.
Qed.

Lemma free_ok_loadDesc : forall lp d, free_ok lp (loadDesc lp d) = true.
Proof.
  intros lp d. unfold loadDesc.
  destruct (Nat.eqb _ _); unfold free_ok; cbn [d_rows d_cols]; apply andb_true_iff; split.
  - unfold repair_list. apply (forallb_combine_map2 _ _ _ free_ok1 repair). apply free_ok1_repair.
  - unfold repair_list. apply (forallb_combine_map2 _ _ _ free_ok1 repair). apply free_ok1_repair.
  - apply (forallb_combine_map _ _ free_ok1 dualStatus). apply free_ok1_dual.
  - apply (forallb_combine_map _ _ free_ok1 primalStatus). apply free_ok1_primal.
Qed.

Lemma bas_roundtrip_loaded : forall lp ds rn cn cpx,
  List.length (d_rows ds) = nRows lp -> List.length (d_cols ds) = nCols lp ->
  NoDup rn -> NoDup cn -> List.length rn = nRows lp -> List.length cn = nCols lp ->
  readBasis lp rn cn (writeBasis lp (loadDesc lp ds) rn cn cpx) = Some (loadDesc lp ds).
Proof.
  intros lp ds rn cn cpx Hr Hc NDr NDc Lr Lc.
  rewrite (bas_roundtrip lp (loadDesc lp ds) rn cn cpx); try assumption.
  - rewrite loadDesc_idem. reflexivity.
  - apply loadDesc_valid; assumption.
  - apply free_ok_loadDesc.
Qed.

(* ---------------------------------------------------------------------------------------------------------- *)
(* the writer for arrays outside the solver writes the same records                                           *)
(* ---------------------------------------------------------------------------------------------------------- *)

Definition to_oent (e : ent) : oent := (e_name e, (e_var e, basisStatusToVarStatus (e_stat e))).

Lemma basic_iff_dual : forall s, vs_eqb (basisStatusToVarStatus s) BASIC = is_dual s.
Proof. destruct s; reflexivity. Qed.

Lemma upper_iff_upper : forall s, vs_eqb (basisStatusToVarStatus s) ON_UPPER = ds_eqb s P_ON_UPPER.
Proof. destruct s; reflexivity. Qed.

Lemma skip_basic_o_map : forall rows, skip_basic_o (map to_oent rows) = map to_oent (skip_basic rows).
Proof.
  induction rows as [|e rows IH]; cbn; [reflexivity|].
  rewrite basic_iff_dual. destruct (is_dual (e_stat e)); [exact IH | reflexivity].
Qed.

Lemma wbo_map : forall cpx cols rows, wbo cpx (map to_oent cols) (map to_oent rows) = wb cpx cols rows.
Proof.
  intros cpx cols. induction cols as [|c cols IH]; intros rows; cbn; [reflexivity|].
  rewrite basic_iff_dual, upper_iff_upper.
  destruct (is_dual (e_stat c)).
  - rewrite skip_basic_o_map. destruct (skip_basic rows) as [|r rows']; cbn; [reflexivity|].
    rewrite upper_iff_upper, IH. reflexivity.
  - destruct (ds_eqb (e_stat c) P_ON_UPPER); rewrite IH; reflexivity.
Qed.

Lemma combine_map_oent : forall ns vs ds,
  combine ns (combine vs (map basisStatusToVarStatus ds)) = map to_oent (entries ns vs ds).
Proof.
  unfold entries, to_oent, e_name, e_var, e_stat.
  induction ns as [|n ns IH]; intros vs ds; cbn; [reflexivity|].
  destruct vs as [|v vs]; destruct ds as [|s ds]; cbn; try reflexivity. rewrite IH. reflexivity.
Qed.

Lemma writeOutside_agrees : forall lp d rn cn cpx,
  writeBasisOutside lp (fst (getBasis d)) (snd (getBasis d)) rn cn cpx = writeBasis lp d rn cn cpx.
Proof.
  intros lp d rn cn cpx. unfold writeBasisOutside, writeBasis, getBasis; cbn [fst snd].
  rewrite !combine_map_oent. apply wbo_map.
Qed.

(* ---------------------------------------------------------------------------------------------------------- *)
(* default names                                                                                              *)
(* ---------------------------------------------------------------------------------------------------------- *)

Lemma dec_inj : forall a b, dec a = dec b -> a = b.
Proof.
  intros a b H. unfold dec in H.
  assert (K : Some (Nat.to_uint a) = Some (Nat.to_uint b)).
  { rewrite <- (NilEmpty.usu (Nat.to_uint a)), <- (NilEmpty.usu (Nat.to_uint b)), H. reflexivity. }
  inversion K as [K']. rewrite <- (DecimalNat.Unsigned.of_to a), <- (DecimalNat.Unsigned.of_to b), K'. reflexivity.
Qed.

Lemma append_inj_l : forall p x y, (p ++ x)%string = (p ++ y)%string -> x = y.
Proof. induction p as [|c p IH]; intros x y H; cbn in H; [exact H|]. inversion H. apply IH. assumption. Qed.

Lemma dname_inj : forall p a b, dname p a = dname p b -> a = b.
Proof. intros p a b H. unfold dname in H. apply dec_inj. apply (append_inj_l p). exact H. Qed.

Lemma default_names_NoDup : forall p n, NoDup (default_names p n).
Proof.
  intros p n. unfold default_names. apply Injective_map_NoDup; [|apply seq_NoDup].
  intros a b H. apply (dname_inj p). exact H.
Qed.

Lemma default_names_length : forall p n, List.length (default_names p n) = n.
Proof. intros. unfold default_names. rewrite map_length, seq_length. reflexivity. Qed.

Lemma default_names_nth : forall p n k, k < n -> nth_error (default_names p n) k = Some (dname p k).
Proof.
  intros p n k H. unfold default_names. rewrite nth_error_map. rewrite nth_error_nth' with (d := 0) by (rewrite seq_length; exact H).
  rewrite seq_nth by exact H. reflexivity.
Qed.

(* ---------------------------------------------------------------------------------------------------------- *)
(* file level                                                                                                 *)
(* ---------------------------------------------------------------------------------------------------------- *)

Lemma file_roundtrip_user : forall lp d rn cn cpx,
  isDescValid lp d = true -> free_ok lp d = true ->
  NoDup rn -> NoDup cn -> List.length rn = nRows lp -> List.length cn = nCols lp ->
  readBasisFile lp (Some rn) (Some cn) (writeBasisFile lp d (Some rn) (Some cn) cpx) = Some (loadDesc lp d) /\
  readBasisFile lp (Some rn) (Some cn)
    (writeBasisFileOutside lp (fst (getBasis d)) (snd (getBasis d)) (Some rn) (Some cn) cpx) = Some (loadDesc lp d).
Proof.
  intros lp d rn cn cpx HV HF NDr NDc Lr Lc.
  unfold readBasisFile, writeBasisFile, writeBasisFileOutside, names_or. split.
  - apply bas_roundtrip; assumption.
  - rewrite writeOutside_agrees. apply bas_roundtrip; assumption.
Qed.

Lemma file_roundtrip_default_intended : forall lp d cpx,
  isDescValid lp d = true -> free_ok lp d = true ->
  readBasisFile_intended lp None None (writeBasisFile lp d None None cpx) = Some (loadDesc lp d).
Proof.
  intros lp d cpx HV HF. unfold readBasisFile_intended, writeBasisFile, names_or.
  apply bas_roundtrip; try assumption; try apply default_names_NoDup; apply default_names_length.
Qed.

