(* C19 - lemmas about the executable model SparseVecModel.v (sparse / dense / semi-sparse vectors over Q).
   Everything is Qed-closed and closed under the global context. *)
From Coq Require Import List ZArith QArith Qabs Bool Arith Lia Lqa Permutation Sorted Setoid Morphisms.
From SV Require Import SparseVecModel.
Import ListNotations.
Local Open Scope Q_scope.

(* ------------------------------------------------------------------ predicates *)
Definition dv_eq (a b : dvec) : Prop := Forall2 Qeq a b.
Definition sv_nodup (v : svec) : Prop := NoDup (sv_indices v).
Definition sv_in_dim (n : nat) (v : svec) : Prop := Forall (fun e => (fst e < n)%nat) v.
Definition sv_sorted (v : svec) : Prop := StronglySorted lt (sv_indices v).
Definition sv_nonzero (v : svec) : Prop := Forall (fun e => ~ snd e == 0) v.

Notation memb i l := (existsb (Nat.eqb i) l).

(* ------------------------------------------------------------------ booleans *)
Lemma qzero_true x : qzero x = true <-> x == 0.
Proof. unfold qzero. apply Qeq_bool_iff. Qed.

Lemma bool_false_iff (b : bool) (P : Prop) : (b = true <-> P) -> (b = false <-> ~ P).
Proof.
  intros [H1 H2]. destruct b; split; intros H.
  - discriminate.
  - exfalso. apply H. apply H1. reflexivity.
  - intros C. apply H2 in C. discriminate.
  - reflexivity.
Qed.

Lemma qzero_false x : qzero x = false <-> ~ x == 0.
Proof. apply bool_false_iff. apply qzero_true. Qed.

Lemma qle_true x y : qle_bool x y = true <-> x <= y.
Proof. unfold qle_bool. apply Qle_bool_iff. Qed.

Lemma qle_false x y : qle_bool x y = false <-> ~ x <= y.
Proof. apply bool_false_iff. apply qle_true. Qed.

Lemma memb_In i l : memb i l = true <-> In i l.
Proof.
  rewrite existsb_exists. split.
  - intros [x [Hx He]]. apply Nat.eqb_eq in He. subst. exact Hx.
  - intros H. exists i. split; [exact H | apply Nat.eqb_refl].
Qed.

Lemma memb_notIn i l : memb i l = false <-> ~ In i l.
Proof. apply bool_false_iff. apply memb_In. Qed.

(* ------------------------------------------------------------------ dense vectors: get / set *)
Lemma dv_get_nil i : dv_get [] i = 0.
Proof. destruct i; reflexivity. Qed.

Lemma dv_get_cons_0 y r : dv_get (y :: r) 0 = y.
Proof. reflexivity. Qed.

Lemma dv_get_cons_S y r k : dv_get (y :: r) (S k) = dv_get r k.
Proof. reflexivity. Qed.

Lemma dv_get_overflow d i : (length d <= i)%nat -> dv_get d i = 0.
Proof. intros H. unfold dv_get. apply nth_overflow. exact H. Qed.

Lemma dv_set_length d : forall i x, length (dv_set d i x) = length d.
Proof. induction d as [|y r IH]; intros [|k] x; cbn; auto. Qed.

Lemma dv_get_set d : forall i x j, (i < length d)%nat ->
  dv_get (dv_set d i x) j = if Nat.eqb i j then x else dv_get d j.
Proof.
  induction d as [|y r IH]; intros i x j Hi; cbn in Hi; [lia|].
  destruct i as [|k], j as [|m]; cbn [dv_set Nat.eqb]; try reflexivity.
  rewrite !dv_get_cons_S. apply IH. lia.
Qed.

Lemma dv_set_oob d : forall i x, (length d <= i)%nat -> dv_set d i x = d.
Proof.
  induction d as [|y r IH]; intros i x Hi; [destruct i; reflexivity|].
  destruct i as [|k]; cbn in Hi; [lia|]. cbn. rewrite IH by lia. reflexivity.
Qed.

Lemma dv_get_set_same d i x : (i < length d)%nat -> dv_get (dv_set d i x) i = x.
Proof. intros H. rewrite dv_get_set by exact H. rewrite Nat.eqb_refl. reflexivity. Qed.

Lemma dv_get_set_other d i x j : i <> j -> dv_get (dv_set d i x) j = dv_get d j.
Proof.
  intros Hne. destruct (Nat.lt_ge_cases i (length d)) as [H|H].
  - rewrite dv_get_set by exact H. apply Nat.eqb_neq in Hne. rewrite Hne. reflexivity.
  - rewrite dv_set_oob by exact H. reflexivity.
Qed.

Lemma dv_upd_length d i f : length (dv_upd d i f) = length d.
Proof. unfold dv_upd. apply dv_set_length. Qed.

Lemma dv_get_upd d i f j : (i < length d)%nat ->
  dv_get (dv_upd d i f) j = if Nat.eqb i j then f (dv_get d i) else dv_get d j.
Proof. intros H. unfold dv_upd. apply dv_get_set. exact H. Qed.

Lemma dv_zero_length n : length (dv_zero n) = n.
Proof. unfold dv_zero. apply repeat_length. Qed.

Lemma dv_get_zero n i : dv_get (dv_zero n) i = 0.
Proof.
  unfold dv_zero, dv_get. revert i. induction n as [|n IH]; intros [|i]; cbn; auto.
Qed.

Lemma dv_clear_length d : length (dv_clear d) = length d.
Proof. unfold dv_clear. apply map_length. Qed.

Lemma dv_get_clear d i : dv_get (dv_clear d) i = 0.
Proof.
  unfold dv_clear, dv_get. revert i. induction d as [|y r IH]; intros [|i]; cbn; auto.
Qed.

(* ------------------------------------------------------------------ dv_eq *)
Lemma dv_eq_refl a : dv_eq a a.
Proof. induction a; constructor; [reflexivity | assumption]. Qed.

Lemma dv_eq_sym a b : dv_eq a b -> dv_eq b a.
Proof. induction 1; constructor; [symmetry; assumption | assumption]. Qed.

Lemma dv_eq_trans a b c : dv_eq a b -> dv_eq b c -> dv_eq a c.
Proof.
  intros H. revert c. induction H as [|x y a b Hxy Hab IH]; intros c Hc; inversion Hc; subst; constructor.
  - rewrite Hxy. assumption.
  - apply IH. assumption.
Qed.

Global Instance dv_eq_Equivalence : Equivalence dv_eq.
Proof. split; [exact dv_eq_refl | exact dv_eq_sym | exact dv_eq_trans]. Qed.

Lemma dv_eq_length a b : dv_eq a b -> length a = length b.
Proof. induction 1; cbn; auto. Qed.

Lemma dv_eq_get a b : dv_eq a b -> forall i, dv_get a i == dv_get b i.
Proof.
  induction 1 as [|x y a b Hxy Hab IH]; intros i.
  - reflexivity.
  - destruct i as [|k]; [exact Hxy | rewrite !dv_get_cons_S; apply IH].
Qed.

Lemma dv_eq_of_get : forall a b, length a = length b ->
  (forall i, (i < length a)%nat -> dv_get a i == dv_get b i) -> dv_eq a b.
Proof.
  induction a as [|x a IH]; intros [|y b] Hl H; cbn in Hl; try discriminate; constructor.
  - apply (H 0%nat). cbn. lia.
  - apply IH; [lia|]. intros i Hi. apply (H (S i)). cbn. lia.
Qed.

Lemma dv_eq_map {A} (f g : A -> Q) l : (forall a, In a l -> f a == g a) -> dv_eq (map f l) (map g l).
Proof.
  induction l as [|a l IH]; intros H; cbn; constructor.
  - apply H. left. reflexivity.
  - apply IH. intros b Hb. apply H. right. exact Hb.
Qed.

(* ------------------------------------------------------------------ sparse vectors: get *)
Lemma sv_get_notin v i : ~ In i (sv_indices v) -> sv_get v i = 0.
Proof.
  induction v as [|[j x] r IH]; cbn; intros H; [reflexivity|].
  destruct (Nat.eqb_spec j i) as [E|E].
  - exfalso. apply H. left. exact E.
  - apply IH. intros C. apply H. right. exact C.
Qed.

Lemma sv_get_app u v i :
  sv_get (u ++ v) i = if memb i (sv_indices u) then sv_get u i else sv_get v i.
Proof.
  induction u as [|[j x] r IH]; cbn; [reflexivity|].
  rewrite (Nat.eqb_sym i j). destruct (Nat.eqb j i); cbn; [reflexivity | exact IH].
Qed.

Lemma sv_get_in v i x : sv_nodup v -> In (i, x) v -> sv_get v i = x.
Proof.
  unfold sv_nodup. induction v as [|[j y] r IH]; cbn; intros Hnd Hin; [contradiction|].
  inversion Hnd as [|? ? Hnotin Hnd']; subst.
  destruct Hin as [E|Hin].
  - inversion E; subst. rewrite Nat.eqb_refl. reflexivity.
  - destruct (Nat.eqb_spec j i) as [E|E].
    + subst. exfalso. apply Hnotin. apply (in_map fst) in Hin. exact Hin.
    + apply IH; assumption.
Qed.

Lemma sv_get_perm u v i : Permutation u v -> sv_nodup u -> sv_get u i = sv_get v i.
Proof.
  unfold sv_nodup. induction 1 as [|[j x] u v Huv IH|[j x] [k y] l|u v w Huv IH1 Hvw IH2]; intros Hnd.
  - reflexivity.
  - cbn. inversion Hnd; subst. destruct (Nat.eqb j i); [reflexivity | apply IH; assumption].
  - cbn. cbn in Hnd. inversion Hnd as [|? ? Hnotin _]; subst.
    destruct (Nat.eqb_spec j i) as [E1|E1], (Nat.eqb_spec k i) as [E2|E2]; try reflexivity.
    exfalso. apply Hnotin. left. congruence.
  - rewrite IH1 by exact Hnd. apply IH2.
    apply (Permutation_NoDup (l := sv_indices u)); [|exact Hnd].
    unfold sv_indices. apply Permutation_map. exact Huv.
Qed.

Lemma sv_nodup_perm u v : Permutation u v -> sv_nodup u -> sv_nodup v.
Proof.
  unfold sv_nodup, sv_indices. intros Hp Hnd.
  apply (Permutation_NoDup (l := map fst u)); [apply Permutation_map; exact Hp | exact Hnd].
Qed.

(* ------------------------------------------------------------------ expansion *)
Lemma expand_length n v : length (expand n v) = n.
Proof. unfold expand. rewrite map_length, seq_length. reflexivity. Qed.

Lemma expand_get n v i : dv_get (expand n v) i = if Nat.ltb i n then sv_get v i else 0.
Proof.
  unfold expand, dv_get. destruct (Nat.ltb_spec i n) as [H|H].
  - rewrite (nth_indep _ 0 (sv_get v 0%nat)) by (rewrite map_length, seq_length; lia).
    rewrite map_nth. rewrite seq_nth by lia. reflexivity.
  - apply nth_overflow. rewrite map_length, seq_length. lia.
Qed.

(* ================================================================== A. sparse vectors *)
(* A1 *)
Lemma sv_scale_get : forall a v i, sv_get (sv_scale a v) i == sv_get v i * a.
Proof.
  intros a v i. induction v as [|[j x] r IH]; cbn.
  - ring.
  - destruct (Nat.eqb j i); [reflexivity | exact IH].
Qed.

Lemma sv_scale_indices a v : sv_indices (sv_scale a v) = sv_indices v.
Proof. unfold sv_indices, sv_scale. rewrite map_map. reflexivity. Qed.

Lemma expand_scale : forall n a v, dv_eq (expand n (sv_scale a v)) (dv_scale a (expand n v)).
Proof.
  intros n a v. unfold expand, dv_scale. rewrite map_map. apply dv_eq_map.
  intros i _. apply sv_scale_get.
Qed.

(* A2 *)
Lemma sv_add_get : forall j x v i, ~ In j (sv_indices v) ->
  sv_get (sv_add j x v) i == (if Nat.eqb j i then x else sv_get v i).
Proof.
  intros j x v i Hj. unfold sv_add. destruct (qzero x) eqn:Hz.
  - destruct (Nat.eqb_spec j i) as [E|E]; [|reflexivity].
    subst. rewrite sv_get_notin by exact Hj. apply qzero_true in Hz. symmetry. exact Hz.
  - rewrite sv_get_app. destruct (memb i (sv_indices v)) eqn:Hm.
    + apply memb_In in Hm. destruct (Nat.eqb_spec j i) as [E|E]; [subst; contradiction | reflexivity].
    + cbn. destruct (Nat.eqb j i) eqn:E; [reflexivity|].
      apply memb_notIn in Hm. rewrite sv_get_notin by exact Hm. reflexivity.
Qed.

Lemma sv_add_indices j x v :
  sv_indices (sv_add j x v) = if qzero x then sv_indices v else sv_indices v ++ [j].
Proof.
  unfold sv_add. destruct (qzero x); [reflexivity|]. unfold sv_indices. rewrite map_app. reflexivity.
Qed.

Lemma NoDup_snoc {A} (l : list A) a : ~ In a l -> NoDup l -> NoDup (l ++ [a]).
Proof.
  intros Hn Hd. apply (Permutation_NoDup (l := a :: l)).
  - apply Permutation_cons_append.
  - constructor; assumption.
Qed.

Lemma sv_add_nodup : forall j x v, ~ In j (sv_indices v) -> sv_nodup v -> sv_nodup (sv_add j x v).
Proof.
  intros j x v Hj Hnd. unfold sv_nodup. rewrite sv_add_indices.
  destruct (qzero x); [exact Hnd | apply NoDup_snoc; assumption].
Qed.

Lemma sv_add_in_dim n j x v : (j < n)%nat -> sv_in_dim n v -> sv_in_dim n (sv_add j x v).
Proof.
  intros Hj Hv. unfold sv_add. destruct (qzero x); [exact Hv|].
  apply Forall_app. split; [exact Hv | constructor; [exact Hj | constructor]].
Qed.

Lemma sv_add_nonzero j x v : sv_nonzero v -> sv_nonzero (sv_add j x v).
Proof.
  intros Hv. unfold sv_add. destruct (qzero x) eqn:Hz; [exact Hv|].
  apply Forall_app. split; [exact Hv|]. constructor; [|constructor]. apply qzero_false. exact Hz.
Qed.

(* A3 *)
Lemma sv_filter_indices_in f (v : svec) i : In i (sv_indices (filter f v)) -> In i (sv_indices v).
Proof.
  unfold sv_indices. rewrite !in_map_iff. intros [e [He Hin]]. exists e. split; [exact He|].
  apply filter_In in Hin. tauto.
Qed.

Lemma sv_filter_nodup f (v : svec) : sv_nodup v -> sv_nodup (filter f v).
Proof.
  unfold sv_nodup. induction v as [|e r IH]; cbn; intros Hnd; [constructor|].
  inversion Hnd as [|? ? Hnotin Hnd']; subst.
  destruct (f e); [|apply IH; exact Hnd'].
  cbn. constructor; [|apply IH; exact Hnd'].
  intros C. apply Hnotin. apply (sv_filter_indices_in f). exact C.
Qed.

Lemma sv_filter_in_dim f n (v : svec) : sv_in_dim n v -> sv_in_dim n (filter f v).
Proof.
  unfold sv_in_dim. rewrite !Forall_forall. intros H e He. apply filter_In in He. apply H. tauto.
Qed.

Lemma sv_assign_get : forall v i, sv_nodup v -> sv_get (sv_assign v) i == sv_get v i.
Proof.
  intros v i. unfold sv_nodup, sv_assign. induction v as [|[j x] r IH]; intros Hnd; [reflexivity|].
  inversion Hnd as [|? ? Hnotin Hnd']; subst.
  cbn [filter snd]. destruct (qzero x) eqn:Hz; cbn [negb sv_get].
  - destruct (Nat.eqb_spec j i) as [E|E]; [|apply IH; exact Hnd'].
    subst. apply qzero_true in Hz. rewrite Hz. rewrite sv_get_notin; [reflexivity|].
    intros C. apply Hnotin. apply sv_filter_indices_in in C. exact C.
  - destruct (Nat.eqb j i); [reflexivity | apply IH; exact Hnd'].
Qed.

Lemma sv_assign_nodup : forall v, sv_nodup v -> sv_nodup (sv_assign v).
Proof. intros v. unfold sv_assign. apply sv_filter_nodup. Qed.

Lemma sv_assign_in_dim : forall n v, sv_in_dim n v -> sv_in_dim n (sv_assign v).
Proof. intros n v. unfold sv_assign. apply sv_filter_in_dim. Qed.

Lemma sv_assign_nonzero : forall v, sv_nonzero (sv_assign v).
Proof.
  intros v. unfold sv_nonzero, sv_assign. apply Forall_forall. intros e He.
  apply filter_In in He. destruct He as [_ He]. apply negb_true_iff in He. apply qzero_false. exact He.
Qed.

(* A4: remove position p (the last entry moves into the hole) *)
Fixpoint g_set_nth {A} (l : list A) (p : nat) (e : A) : list A :=
  match l, p with
  | [], _ => []
  | _ :: r, O => e :: r
  | y :: r, S k => y :: g_set_nth r k e
  end.
Definition g_remove {A} (p : nat) (l : list A) : list A :=
  match rev l with
  | [] => []
  | lst :: _ =>
      if Nat.ltb p (length l) then
        (if Nat.eqb p (length l - 1) then removelast l else g_set_nth (removelast l) p lst)
      else l
  end.

Lemma g_set_nth_app {A} (l1 : list A) e l2 x : g_set_nth (l1 ++ e :: l2) (length l1) x = l1 ++ x :: l2.
Proof. induction l1 as [|a l1 IH]; cbn; [reflexivity | rewrite IH; reflexivity]. Qed.

Lemma g_remove_last {A} (l1 : list A) e : g_remove (length l1) (l1 ++ [e]) = l1.
Proof.
  unfold g_remove. rewrite rev_app_distr. cbn [rev app]. rewrite app_length. cbn [length].
  replace (Nat.ltb (length l1) (length l1 + 1)) with true by (symmetry; apply Nat.ltb_lt; lia).
  replace (Nat.eqb (length l1) (length l1 + 1 - 1)) with true by (symmetry; apply Nat.eqb_eq; lia).
  apply removelast_last.
Qed.

Lemma g_remove_mid {A} (l1 : list A) e l2 lst :
  g_remove (length l1) (l1 ++ e :: l2 ++ [lst]) = l1 ++ lst :: l2.
Proof.
  unfold g_remove.
  replace (l1 ++ e :: l2 ++ [lst]) with ((l1 ++ e :: l2) ++ [lst]) by (rewrite <- app_assoc; reflexivity).
  rewrite rev_app_distr. cbn [rev app]. rewrite removelast_last.
  rewrite !app_length. cbn [length].
  replace (Nat.ltb (length l1) (length l1 + S (length l2) + 1)) with true by (symmetry; apply Nat.ltb_lt; lia).
  replace (Nat.eqb (length l1) (length l1 + S (length l2) + 1 - 1)) with false by (symmetry; apply Nat.eqb_neq; lia).
  apply g_set_nth_app.
Qed.

Lemma list_rev_case {A} (l : list A) : l = [] \/ exists l' a, l = l' ++ [a].
Proof.
  induction l as [|x l _] using rev_ind; [left; reflexivity | right; exists l, x; reflexivity].
Qed.

Lemma g_remove_perm {A} (d : A) p l : (p < length l)%nat -> Permutation (nth p l d :: g_remove p l) l.
Proof.
  intros Hp. destruct (nth_split l d Hp) as (l1 & l2 & El & Hl).
  set (e := nth p l d) in *. clearbody e. subst p. rewrite El. clear El Hp.
  destruct (list_rev_case l2) as [E|(l2' & a & E)]; subst l2.
  - rewrite g_remove_last. apply Permutation_cons_append.
  - rewrite g_remove_mid. transitivity (e :: l1 ++ l2' ++ [a]).
    + constructor. apply Permutation_app_head. apply Permutation_cons_append.
    + apply Permutation_middle.
Qed.

Lemma g_remove_oob {A} p (l : list A) : (length l <= p)%nat -> g_remove p l = l.
Proof.
  intros H. unfold g_remove. destruct (rev l) eqn:E.
  - apply (f_equal (@rev A)) in E. rewrite rev_involutive in E. cbn in E. symmetry. exact E.
  - replace (Nat.ltb p (length l)) with false by (symmetry; apply Nat.ltb_ge; lia). reflexivity.
Qed.

Lemma sv_set_nth_g v : forall p e, sv_set_nth v p e = g_set_nth v p e.
Proof. induction v as [|y r IH]; intros [|k] e; cbn; try reflexivity. rewrite IH. reflexivity. Qed.

Lemma nl_set_nth_g l : forall p e, nl_set_nth l p e = g_set_nth l p e.
Proof. induction l as [|y r IH]; intros [|k] e; cbn; try reflexivity. rewrite IH. reflexivity. Qed.

Lemma sv_remove_g p v : sv_remove p v = g_remove p v.
Proof. unfold sv_remove, g_remove. destruct (rev v); [reflexivity|]. rewrite sv_set_nth_g. reflexivity. Qed.

Lemma nl_remove_pos_g p l : nl_remove_pos p l = g_remove p l.
Proof. unfold nl_remove_pos, g_remove. destruct (rev l); [reflexivity|]. rewrite nl_set_nth_g. reflexivity. Qed.

Lemma sv_remove_perm p v : (p < length v)%nat -> Permutation (nth p v (0%nat, 0) :: sv_remove p v) v.
Proof. rewrite sv_remove_g. apply g_remove_perm. Qed.

Lemma sv_remove_nodup : forall p v, sv_nodup v -> sv_nodup (sv_remove p v).
Proof.
  intros p v Hnd. destruct (Nat.lt_ge_cases p (length v)) as [Hp|Hp].
  - apply sv_remove_perm in Hp. apply Permutation_sym in Hp.
    apply (sv_nodup_perm _ _ Hp) in Hnd. unfold sv_nodup in *. cbn in Hnd. inversion Hnd; assumption.
  - rewrite sv_remove_g, g_remove_oob by exact Hp. exact Hnd.
Qed.

Lemma sv_remove_length : forall p v, (p < length v)%nat -> length (sv_remove p v) = (length v - 1)%nat.
Proof.
  intros p v Hp. apply sv_remove_perm in Hp. apply Permutation_length in Hp. cbn in Hp. lia.
Qed.

Lemma sv_remove_get : forall p v i, sv_nodup v -> (p < length v)%nat ->
  sv_get (sv_remove p v) i == (if Nat.eqb (fst (nth p v (0%nat, 0))) i then 0 else sv_get v i).
Proof.
  intros p v i Hnd Hp. pose proof (sv_remove_perm p v Hp) as Hperm.
  destruct (nth p v (0%nat, 0)) as [j x]. cbn [fst].
  apply Permutation_sym in Hperm.
  rewrite (sv_get_perm _ _ i Hperm Hnd).
  apply (sv_nodup_perm _ _ Hperm) in Hnd. unfold sv_nodup in Hnd. cbn in Hnd.
  inversion Hnd as [|? ? Hnotin _]; subst.
  cbn [sv_get]. destruct (Nat.eqb_spec j i) as [E|E]; [|reflexivity].
  subst. rewrite sv_get_notin by exact Hnotin. reflexivity.
Qed.

Lemma sv_remove_in_dim n p v : sv_in_dim n v -> sv_in_dim n (sv_remove p v).
Proof.
  intros H. destruct (Nat.lt_ge_cases p (length v)) as [Hp|Hp].
  - apply sv_remove_perm in Hp. unfold sv_in_dim in *. rewrite Forall_forall in *.
    intros e He. apply H. apply (Permutation_in _ Hp). right. exact He.
  - rewrite sv_remove_g, g_remove_oob by exact Hp. exact H.
Qed.

(* A5: sort *)
Lemma sv_insert_perm e v : Permutation (sv_insert e v) (e :: v).
Proof.
  induction v as [|y r IH]; cbn [sv_insert]; [reflexivity|].
  destruct (Nat.ltb (fst e) (fst y)); [reflexivity|].
  transitivity (y :: e :: r); [constructor; exact IH | apply perm_swap].
Qed.

Lemma sv_sort_perm_acc v : forall acc,
  Permutation (fold_left (fun acc e => sv_insert e acc) v acc) (v ++ acc).
Proof.
  induction v as [|a r IH]; intros acc; cbn; [reflexivity|].
  rewrite IH. transitivity (r ++ a :: acc).
  - apply Permutation_app_head. apply sv_insert_perm.
  - symmetry. apply Permutation_middle.
Qed.

Lemma sv_sort_perm : forall v, Permutation (sv_sort v) v.
Proof. intros v. unfold sv_sort. rewrite sv_sort_perm_acc. rewrite app_nil_r. reflexivity. Qed.

Definition sv_le (a b : nat * Q) : Prop := (fst a <= fst b)%nat.

Lemma sv_insert_sorted e v : StronglySorted sv_le v -> StronglySorted sv_le (sv_insert e v).
Proof.
  induction v as [|y r IH]; intros Hs; cbn [sv_insert].
  - constructor; constructor.
  - inversion Hs as [|? ? Hs' Hall]; subst. destruct (Nat.ltb_spec (fst e) (fst y)) as [Hlt|Hge].
    + constructor; [exact Hs|]. constructor; [unfold sv_le; lia|].
      eapply Forall_impl; [|exact Hall]. unfold sv_le. intros a Ha. lia.
    + constructor; [apply IH; exact Hs'|].
      rewrite Forall_forall in *. intros a Ha.
      apply (Permutation_in _ (sv_insert_perm e r)) in Ha. destruct Ha as [Ha|Ha].
      * subst. exact Hge.
      * apply Hall. exact Ha.
Qed.

Lemma sv_sort_sorted_acc v : forall acc, StronglySorted sv_le acc ->
  StronglySorted sv_le (fold_left (fun acc e => sv_insert e acc) v acc).
Proof.
  induction v as [|a r IH]; intros acc Hs; cbn; [exact Hs|]. apply IH. apply sv_insert_sorted. exact Hs.
Qed.

Lemma sv_sort_sorted : forall v, StronglySorted (fun a b => (fst a <= fst b)%nat) (sv_sort v).
Proof. intros v. unfold sv_sort. apply (sv_sort_sorted_acc v []). constructor. Qed.

Lemma sv_sort_get : forall v i, sv_nodup v -> sv_get (sv_sort v) i == sv_get v i.
Proof.
  intros v i Hnd. rewrite (sv_get_perm v (sv_sort v) i); [reflexivity| |exact Hnd].
  symmetry. apply sv_sort_perm.
Qed.

Lemma sv_sort_nodup v : sv_nodup v -> sv_nodup (sv_sort v).
Proof. apply sv_nodup_perm. symmetry. apply sv_sort_perm. Qed.

(* with distinct indices the sorted vector is strictly sorted *)
Lemma sv_sort_strict v : sv_nodup v -> sv_sorted (sv_sort v).
Proof.
  intros Hnd. apply sv_sort_nodup in Hnd. pose proof (sv_sort_sorted v) as Hs.
  unfold sv_sorted, sv_nodup in *. induction (sv_sort v) as [|e r IH]; cbn; [constructor|].
  inversion Hs as [|? ? Hs' Hall]; subst. cbn in Hnd. inversion Hnd as [|? ? Hnotin Hnd']; subst.
  constructor; [apply IH; assumption|].
  unfold sv_indices. rewrite Forall_forall in *. intros k Hk.
  apply in_map_iff in Hk. destruct Hk as [a [Ea Ha]]. subst k.
  specialize (Hall a Ha). cbn in Hall.
  assert (fst e <> fst a). { intros C. apply Hnotin. rewrite C. apply in_map. exact Ha. }
  lia.
Qed.

(* ------------------------------------------------------------------ dense scalar product *)
Lemma dv_dot_nil_r a : dv_dot a [] = 0.
Proof. destruct a; reflexivity. Qed.

Lemma dv_dot_eq a a' : dv_eq a a' -> forall b b', dv_eq b b' -> dv_dot a b == dv_dot a' b'.
Proof.
  induction 1 as [|x x' a a' Hx Ha IH]; intros b b' Hb; [reflexivity|].
  inversion Hb as [|y y' b0 b0' Hy Hb0]; subst; cbn [dv_dot]; [reflexivity|].
  rewrite Hx, Hy, (IH _ _ Hb0). reflexivity.
Qed.

Global Instance dv_dot_Proper : Proper (dv_eq ==> dv_eq ==> Qeq) dv_dot.
Proof. intros a a' Ha b b' Hb. apply dv_dot_eq; assumption. Qed.

Lemma dv_dot_zero_l a : forall d, (forall i, dv_get a i == 0) -> dv_dot a d == 0.
Proof.
  induction a as [|y r IH]; intros d H; [reflexivity|]. destruct d as [|z d]; [reflexivity|].
  cbn [dv_dot]. pose proof (H 0%nat) as H0. rewrite dv_get_cons_0 in H0. rewrite H0.
  rewrite IH; [ring|]. intros i. apply (H (S i)).
Qed.

Lemma dv_dot_set_l a : forall i x d, (i < length a)%nat ->
  dv_dot (dv_set a i x) d == dv_dot a d + (x - dv_get a i) * dv_get d i.
Proof.
  induction a as [|y r IH]; intros i x d Hi; cbn in Hi; [lia|].
  destruct i as [|k], d as [|z d']; cbn [dv_set dv_dot];
    rewrite ?dv_get_nil, ?dv_get_cons_0, ?dv_get_cons_S; try ring.
  rewrite IH by lia. ring.
Qed.

Lemma expand_cons n j x r : (j < n)%nat -> dv_eq (expand n ((j, x) :: r)) (dv_set (expand n r) j x).
Proof.
  intros Hj. apply dv_eq_of_get. { rewrite dv_set_length, !expand_length. reflexivity. }
  intros i Hi. rewrite expand_length in Hi. rewrite dv_get_set by (rewrite expand_length; lia).
  rewrite !expand_get. apply Nat.ltb_lt in Hi. rewrite Hi. cbn [sv_get].
  destruct (Nat.eqb j i); reflexivity.
Qed.

(* A6 *)
Lemma sv_dot_dv_spec : forall n v d, sv_nodup v -> sv_in_dim n v -> length d = n ->
  sv_dot_dv v d == dv_dot (expand n v) d.
Proof.
  intros n v d Hnd Hdim _. unfold sv_nodup in Hnd. induction v as [|[j x] r IH].
  - cbn [sv_dot_dv]. symmetry. apply dv_dot_zero_l. intros i. rewrite expand_get.
    destruct (Nat.ltb i n); reflexivity.
  - cbn in Hnd. inversion Hnd as [|? ? Hnotin Hnd']; subst.
    inversion Hdim as [|? ? Hj Hdim']; subst. cbn [fst] in Hj.
    cbn [sv_dot_dv]. rewrite (expand_cons n j x r Hj).
    rewrite dv_dot_set_l by (rewrite expand_length; exact Hj).
    rewrite expand_get. rewrite (sv_get_notin r j Hnotin).
    rewrite (IH Hnd' Hdim'). destruct (Nat.ltb j n); ring.
Qed.

(* A7: the merge join *)
Fixpoint sv_dot_get (u v : svec) : Q :=
  match u with
  | [] => 0
  | (i, x) :: r => x * sv_get v i + sv_dot_get r v
  end.

Lemma sv_dot_get_nil_r u : sv_dot_get u [] == 0.
Proof. induction u as [|[i x] r IH]; cbn; [reflexivity|]. rewrite IH. ring. Qed.

Lemma sv_dot_get_cons_lt u j y w :
  Forall (fun k => (j < k)%nat) (sv_indices u) -> sv_dot_get u ((j, y) :: w) == sv_dot_get u w.
Proof.
  induction u as [|[i x] r IH]; intros H; [reflexivity|].
  change (sv_indices ((i, x) :: r)) with (i :: sv_indices r) in H.
  inversion H as [|? ? Hi Hr]; subst. cbn [sv_dot_get sv_get].
  destruct (Nat.eqb_spec j i) as [E|E]; [lia|]. rewrite (IH Hr). reflexivity.
Qed.

Lemma sv_dot_sv_cons i x u' j y w :
  sv_dot_sv ((i, x) :: u') ((j, y) :: w) =
  if Nat.eqb i j then x * y + sv_dot_sv u' w
  else if Nat.ltb i j then sv_dot_sv u' ((j, y) :: w)
  else sv_dot_sv ((i, x) :: u') w.
Proof. reflexivity. Qed.

Lemma sv_dot_sv_nil_r u : sv_dot_sv u [] = 0.
Proof. destruct u as [|[i x] r]; reflexivity. Qed.

Lemma sv_dot_sv_get : forall u, sv_sorted u -> forall v, sv_sorted v -> sv_dot_sv u v == sv_dot_get u v.
Proof.
  unfold sv_sorted. induction u as [|[i x] u' IHu]; intros Hu; [intros; reflexivity|].
  change (sv_indices ((i, x) :: u')) with (i :: sv_indices u') in Hu.
  inversion Hu as [|? ? Hu' Hall]; subst.
  induction v as [|[j y] w IHw]; intros Hv.
  - rewrite sv_dot_sv_nil_r, sv_dot_get_nil_r. reflexivity.
  - change (sv_indices ((j, y) :: w)) with (j :: sv_indices w) in Hv.
    inversion Hv as [|? ? Hw Hallw]; subst.
    rewrite sv_dot_sv_cons. cbn [sv_dot_get sv_get].
    destruct (Nat.eqb_spec i j) as [E|E].
    + subst j. rewrite Nat.eqb_refl. rewrite (IHu Hu' w Hw).
      rewrite sv_dot_get_cons_lt by exact Hall. reflexivity.
    + destruct (Nat.ltb_spec i j) as [Hlt|Hge].
      * destruct (Nat.eqb_spec j i) as [E'|_]; [lia|].
        rewrite (IHu Hu' ((j, y) :: w) Hv). rewrite sv_get_notin; [ring|].
        intros C. rewrite Forall_forall in Hallw. apply Hallw in C. lia.
      * destruct (Nat.eqb_spec j i) as [E'|_]; [lia|].
        rewrite (IHw Hw). cbn [sv_dot_get]. rewrite sv_dot_get_cons_lt; [reflexivity|].
        eapply Forall_impl; [|exact Hall]. intros a Ha. cbn beta in Ha. lia.
Qed.

Lemma sv_dot_dv_expand n u v : sv_in_dim n u -> sv_dot_dv u (expand n v) == sv_dot_get u v.
Proof.
  induction u as [|[i x] r IH]; intros H; [reflexivity|].
  inversion H as [|? ? Hi Hr]; subst. cbn [fst] in Hi. cbn [sv_dot_dv sv_dot_get]. rewrite expand_get.
  apply Nat.ltb_lt in Hi. rewrite Hi. rewrite (IH Hr). reflexivity.
Qed.

Lemma sorted_lt_nodup l : StronglySorted lt l -> NoDup l.
Proof.
  induction 1 as [|a l Hs IH Hall]; constructor; [|exact IH].
  intros C. rewrite Forall_forall in Hall. apply Hall in C. lia.
Qed.

Lemma sv_sorted_nodup v : sv_sorted v -> sv_nodup v.
Proof. apply sorted_lt_nodup. Qed.

Lemma sv_dot_sv_spec : forall n u v, sv_sorted u -> sv_sorted v -> sv_in_dim n u -> sv_in_dim n v ->
  sv_dot_sv u v == dv_dot (expand n u) (expand n v).
Proof.
  intros n u v Hu Hv Hdu Hdv. rewrite (sv_dot_sv_get u Hu v Hv).
  rewrite <- (sv_dot_dv_expand n u v Hdu).
  apply sv_dot_dv_spec; [apply sv_sorted_nodup; exact Hu | exact Hdu | apply expand_length].
Qed.

(* A8 *)
Lemma sv_of_dv_from_indices d : forall s k,
  In k (sv_indices (sv_of_dv_from d s)) -> (s <= k < s + length d)%nat.
Proof.
  induction d as [|x r IH]; intros s k; cbn [sv_of_dv_from]; [intros []|].
  unfold sv_indices. rewrite map_app, in_app_iff. intros [H|H].
  - apply IH in H. cbn [length]. lia.
  - destruct (qzero x); cbn in H; [contradiction|]. destruct H as [H|[]]. subst. cbn [length]. lia.
Qed.

Lemma sv_of_dv_from_nodup d : forall s, sv_nodup (sv_of_dv_from d s).
Proof.
  unfold sv_nodup. induction d as [|x r IH]; intros s; cbn [sv_of_dv_from]; [constructor|].
  unfold sv_indices. rewrite map_app. destruct (qzero x); cbn [map fst].
  - rewrite app_nil_r. apply IH.
  - apply NoDup_snoc; [|apply IH]. intros C. apply sv_of_dv_from_indices in C. lia.
Qed.

Lemma sv_of_dv_from_nonzero d : forall s, sv_nonzero (sv_of_dv_from d s).
Proof.
  unfold sv_nonzero. induction d as [|x r IH]; intros s; cbn [sv_of_dv_from]; [constructor|].
  apply Forall_app. split; [apply IH|]. destruct (qzero x) eqn:Hz; constructor; [|constructor].
  apply qzero_false. exact Hz.
Qed.

Lemma sv_of_dv_from_get d : forall s k,
  sv_get (sv_of_dv_from d s) k == if Nat.leb s k then dv_get d (k - s) else 0.
Proof.
  induction d as [|x r IH]; intros s k; cbn [sv_of_dv_from].
  - cbn [sv_get]. rewrite dv_get_nil. destruct (Nat.leb s k); reflexivity.
  - rewrite sv_get_app. destruct (memb k (sv_indices (sv_of_dv_from r (S s)))) eqn:Hm.
    + apply memb_In in Hm. apply sv_of_dv_from_indices in Hm. rewrite IH.
      replace (Nat.leb (S s) k) with true by (symmetry; apply Nat.leb_le; lia).
      replace (Nat.leb s k) with true by (symmetry; apply Nat.leb_le; lia).
      replace (k - s)%nat with (S (k - S s)) by lia. rewrite dv_get_cons_S. reflexivity.
    + apply memb_notIn in Hm. destruct (Nat.leb_spec s k) as [Hle|Hlt].
      * destruct (Nat.eq_dec s k) as [E|E].
        -- subst. rewrite Nat.sub_diag, dv_get_cons_0. destruct (qzero x) eqn:Hz; cbn [sv_get].
           ++ apply qzero_true in Hz. symmetry. exact Hz.
           ++ rewrite Nat.eqb_refl. reflexivity.
        -- transitivity (sv_get (sv_of_dv_from r (S s)) k).
           ++ rewrite (sv_get_notin _ _ Hm). destruct (qzero x); cbn [sv_get]; [reflexivity|].
              destruct (Nat.eqb_spec s k); [contradiction | reflexivity].
           ++ rewrite IH. replace (Nat.leb (S s) k) with true by (symmetry; apply Nat.leb_le; lia).
              replace (k - s)%nat with (S (k - S s)) by lia. rewrite dv_get_cons_S. reflexivity.
      * destruct (qzero x); cbn [sv_get]; [reflexivity|].
        destruct (Nat.eqb_spec s k); [lia | reflexivity].
Qed.

Lemma sv_of_dv_get d k : sv_get (sv_of_dv d) k == dv_get d k.
Proof. unfold sv_of_dv. rewrite sv_of_dv_from_get. cbn [Nat.leb]. rewrite Nat.sub_0_r. reflexivity. Qed.

Lemma sv_of_dv_expand : forall d, dv_eq (expand (length d) (sv_of_dv d)) d.
Proof.
  intros d. apply dv_eq_of_get; [apply expand_length|]. intros i Hi. rewrite expand_length in Hi.
  rewrite expand_get. apply Nat.ltb_lt in Hi. rewrite Hi. apply sv_of_dv_get.
Qed.

Lemma sv_of_dv_nodup : forall d, sv_nodup (sv_of_dv d).
Proof. intros d. apply sv_of_dv_from_nodup. Qed.

Lemma sv_of_dv_nonzero : forall d, sv_nonzero (sv_of_dv d).
Proof. intros d. apply sv_of_dv_from_nonzero. Qed.

Lemma sv_of_dv_in_dim : forall d, sv_in_dim (length d) (sv_of_dv d).
Proof.
  intros d. unfold sv_in_dim. apply Forall_forall. intros e He.
  assert (H : In (fst e) (sv_indices (sv_of_dv d))) by (apply in_map; exact He).
  apply sv_of_dv_from_indices in H. lia.
Qed.

(* A9 *)
Lemma sv_times_step_nodup acc j z r :
  NoDup (sv_indices acc ++ j :: sv_indices r) -> NoDup (sv_indices (sv_add j z acc) ++ sv_indices r).
Proof.
  intros Hnd. rewrite sv_add_indices. destruct (qzero z).
  - apply NoDup_remove_1 in Hnd. exact Hnd.
  - rewrite <- app_assoc. exact Hnd.
Qed.

Lemma sv_times_acc_get x v : forall acc i, NoDup (sv_indices acc ++ sv_indices v) ->
  sv_get (fold_left (fun acc e => sv_add (fst e) (snd e * x) acc) v acc) i == sv_get acc i + sv_get v i * x.
Proof.
  induction v as [|[j y] r IH]; intros acc i Hnd; cbn [fold_left fst snd].
  - cbn [sv_get]. ring.
  - change (sv_indices ((j, y) :: r)) with (j :: sv_indices r) in Hnd.
    pose proof (NoDup_remove_2 _ _ _ Hnd) as Hj.
    assert (Hja : ~ In j (sv_indices acc)) by (intros C; apply Hj; apply in_or_app; left; exact C).
    assert (Hjr : ~ In j (sv_indices r)) by (intros C; apply Hj; apply in_or_app; right; exact C).
    rewrite IH by (apply sv_times_step_nodup; exact Hnd).
    rewrite sv_add_get by exact Hja. cbn [sv_get]. destruct (Nat.eqb_spec j i) as [E|E].
    + subst. rewrite (sv_get_notin r i Hjr), (sv_get_notin acc i Hja). ring.
    + reflexivity.
Qed.

Lemma sv_times_get : forall v x i, sv_nodup v -> sv_get (sv_times v x) i == sv_get v i * x.
Proof.
  intros v x i Hnd. unfold sv_times. rewrite sv_times_acc_get by exact Hnd. cbn [sv_get]. ring.
Qed.

Lemma sv_times_acc_nodup x v : forall acc, NoDup (sv_indices acc ++ sv_indices v) ->
  sv_nodup (fold_left (fun acc e => sv_add (fst e) (snd e * x) acc) v acc).
Proof.
  induction v as [|[j y] r IH]; intros acc Hnd; cbn [fold_left fst snd].
  - unfold sv_nodup. cbn in Hnd. rewrite app_nil_r in Hnd. exact Hnd.
  - apply IH. apply sv_times_step_nodup. exact Hnd.
Qed.

Lemma sv_times_nodup : forall v x, sv_nodup v -> sv_nodup (sv_times v x).
Proof. intros v x Hnd. unfold sv_times. apply sv_times_acc_nodup. exact Hnd. Qed.

Lemma sv_times_acc_nonzero x v : forall acc, sv_nonzero acc ->
  sv_nonzero (fold_left (fun acc e => sv_add (fst e) (snd e * x) acc) v acc).
Proof.
  induction v as [|e r IH]; intros acc Ha; cbn [fold_left]; [exact Ha|].
  apply IH. apply sv_add_nonzero. exact Ha.
Qed.

Lemma sv_times_nonzero : forall v x, sv_nonzero (sv_times v x).
Proof. intros v x. unfold sv_times. apply sv_times_acc_nonzero. constructor. Qed.

(* ================================================================== B. dense (op) sparse *)
Lemma dv_fold_op_length (op : Q -> Q -> Q) (v : svec) d :
  length (fold_right (fun e acc => dv_upd acc (fst e) (fun y => op y (snd e))) d v) = length d.
Proof. induction v as [|e r IH]; cbn [fold_right]; [reflexivity|]. rewrite dv_upd_length. exact IH. Qed.

Lemma dv_fold_op_get (op : Q -> Q -> Q) (v : svec) : forall d i, sv_nodup v -> sv_in_dim (length d) v ->
  dv_get (fold_right (fun e acc => dv_upd acc (fst e) (fun y => op y (snd e))) d v) i
  = if memb i (sv_indices v) then op (dv_get d i) (sv_get v i) else dv_get d i.
Proof.
  unfold sv_nodup. induction v as [|[j x] r IH]; intros d i Hnd Hdim; [reflexivity|].
  change (sv_indices ((j, x) :: r)) with (j :: sv_indices r) in *.
  inversion Hnd as [|? ? Hnotin Hnd']; subst. inversion Hdim as [|? ? Hj Hdim']; subst. cbn [fst] in Hj.
  cbn [fold_right fst snd].
  rewrite dv_get_upd by (rewrite dv_fold_op_length; exact Hj).
  cbn [existsb sv_get]. rewrite (Nat.eqb_sym i j). destruct (Nat.eqb_spec j i) as [E|E]; cbn [orb].
  - subst. rewrite (IH d i Hnd' Hdim'). apply memb_notIn in Hnotin. rewrite Hnotin. reflexivity.
  - apply IH; assumption.
Qed.

Lemma dv_multadd_sv_length x v d : length (dv_multadd_sv x v d) = length d.
Proof. apply (dv_fold_op_length (fun y z => y + x * z)). Qed.

Lemma dv_multadd_sv_get : forall x v d i, sv_nodup v -> sv_in_dim (length d) v ->
  dv_get (dv_multadd_sv x v d) i == dv_get d i + x * sv_get v i.
Proof.
  intros x v d i Hnd Hdim. pose proof (dv_fold_op_get (fun y z => y + x * z) v d i Hnd Hdim) as E.
  cbv beta in E. unfold dv_multadd_sv. rewrite E.
  destruct (memb i (sv_indices v)) eqn:Hm; [reflexivity|].
  apply memb_notIn in Hm. rewrite (sv_get_notin v i Hm). ring.
Qed.

Lemma dv_add_sv_length v d : length (dv_add_sv v d) = length d.
Proof. apply (dv_fold_op_length (fun y z => y + z)). Qed.

Lemma dv_add_sv_get : forall v d i, sv_nodup v -> sv_in_dim (length d) v ->
  dv_get (dv_add_sv v d) i == dv_get d i + sv_get v i.
Proof.
  intros v d i Hnd Hdim. pose proof (dv_fold_op_get (fun y z => y + z) v d i Hnd Hdim) as E.
  cbv beta in E. unfold dv_add_sv. rewrite E.
  destruct (memb i (sv_indices v)) eqn:Hm; [reflexivity|].
  apply memb_notIn in Hm. rewrite (sv_get_notin v i Hm). ring.
Qed.

Lemma dv_sub_sv_length v d : length (dv_sub_sv v d) = length d.
Proof. apply (dv_fold_op_length (fun y z => y - z)). Qed.

Lemma dv_sub_sv_get : forall v d i, sv_nodup v -> sv_in_dim (length d) v ->
  dv_get (dv_sub_sv v d) i == dv_get d i - sv_get v i.
Proof.
  intros v d i Hnd Hdim. pose proof (dv_fold_op_get (fun y z => y - z) v d i Hnd Hdim) as E.
  cbv beta in E. unfold dv_sub_sv. rewrite E.
  destruct (memb i (sv_indices v)) eqn:Hm; [reflexivity|].
  apply memb_notIn in Hm. rewrite (sv_get_notin v i Hm). ring.
Qed.

Lemma dv_multsub_sv_length x v d : length (dv_multsub_sv x v d) = length d.
Proof. apply (dv_fold_op_length (fun y z => y - x * z)). Qed.

Lemma dv_multsub_sv_get : forall x v d i, sv_nodup v -> sv_in_dim (length d) v ->
  dv_get (dv_multsub_sv x v d) i == dv_get d i - x * sv_get v i.
Proof.
  intros x v d i Hnd Hdim. pose proof (dv_fold_op_get (fun y z => y - x * z) v d i Hnd Hdim) as E.
  cbv beta in E. unfold dv_multsub_sv. rewrite E.
  destruct (memb i (sv_indices v)) eqn:Hm; [reflexivity|].
  apply memb_notIn in Hm. rewrite (sv_get_notin v i Hm). ring.
Qed.

Lemma dv_assign_sv_length v d : length (dv_assign_sv v d) = length d.
Proof. apply (dv_fold_op_length (fun _ z => z)). Qed.

Lemma dv_assign_sv_get : forall v d i, sv_nodup v -> sv_in_dim (length d) v ->
  dv_get (dv_assign_sv v d) i == (if existsb (Nat.eqb i) (sv_indices v) then sv_get v i else dv_get d i).
Proof.
  intros v d i Hnd Hdim. pose proof (dv_fold_op_get (fun _ z => z) v d i Hnd Hdim) as E.
  cbv beta in E.
  change (dv_assign_sv v d) with (fold_right (fun e acc => dv_upd acc (fst e) (fun _ => snd e)) d v).
  rewrite E. reflexivity.
Qed.

Lemma dv_fold_set_length (v : svec) : forall acc,
  length (fold_left (fun acc e => dv_set acc (fst e) (snd e)) v acc) = length acc.
Proof.
  induction v as [|e r IH]; intros acc; cbn [fold_left]; [reflexivity|].
  rewrite IH. apply dv_set_length.
Qed.

Lemma dv_fold_set_get (v : svec) : forall acc i, sv_nodup v -> sv_in_dim (length acc) v ->
  dv_get (fold_left (fun acc e => dv_set acc (fst e) (snd e)) v acc) i
  = if memb i (sv_indices v) then sv_get v i else dv_get acc i.
Proof.
  unfold sv_nodup. induction v as [|[j x] r IH]; intros acc i Hnd Hdim; [reflexivity|].
  change (sv_indices ((j, x) :: r)) with (j :: sv_indices r) in *.
  inversion Hnd as [|? ? Hnotin Hnd']; subst. inversion Hdim as [|? ? Hj Hdim']; subst. cbn [fst] in Hj.
  cbn [fold_left fst snd]. rewrite IH; [|exact Hnd' | rewrite dv_set_length; exact Hdim'].
  cbn [existsb sv_get]. rewrite (Nat.eqb_sym i j). destruct (Nat.eqb_spec j i) as [E|E]; cbn [orb].
  - subst. apply memb_notIn in Hnotin. rewrite Hnotin. apply dv_get_set_same. exact Hj.
  - destruct (memb i (sv_indices r)); [reflexivity|]. apply dv_get_set_other. exact E.
Qed.

Lemma dv_set_sv_length v d : length (dv_set_sv v d) = length d.
Proof. unfold dv_set_sv. rewrite dv_fold_set_length. apply dv_clear_length. Qed.

Lemma dv_set_sv_expand : forall v d, sv_nodup v -> sv_in_dim (length d) v ->
  dv_eq (dv_set_sv v d) (expand (length d) v).
Proof.
  intros v d Hnd Hdim. apply dv_eq_of_get. { rewrite dv_set_sv_length, expand_length. reflexivity. }
  intros i Hi. rewrite dv_set_sv_length in Hi. unfold dv_set_sv.
  rewrite dv_fold_set_get; [|exact Hnd | rewrite dv_clear_length; exact Hdim].
  rewrite expand_get. apply Nat.ltb_lt in Hi. rewrite Hi. rewrite dv_get_clear.
  destruct (memb i (sv_indices v)) eqn:Hm; [reflexivity|].
  apply memb_notIn in Hm. rewrite (sv_get_notin v i Hm). reflexivity.
Qed.

(* B11: dense-dense *)
Lemma dv_zip_length f a : forall b, length a = length b -> length (dv_zip f a b) = length a.
Proof.
  induction a as [|x a IH]; intros [|y b] Hl; cbn in *; try discriminate; [reflexivity|].
  rewrite IH by lia. reflexivity.
Qed.

Lemma dv_zip_get f a : forall b i, length a = length b -> (i < length a)%nat ->
  dv_get (dv_zip f a b) i = f (dv_get a i) (dv_get b i).
Proof.
  induction a as [|x a IH]; intros [|y b] i Hl Hi; cbn in Hl, Hi; try discriminate; [lia|].
  cbn [dv_zip]. destruct i as [|k]; [reflexivity|]. rewrite !dv_get_cons_S. apply IH; lia.
Qed.

Lemma dv_zip_get0 f a b i : length a = length b -> f 0 0 == 0 ->
  dv_get (dv_zip f a b) i == f (dv_get a i) (dv_get b i).
Proof.
  intros Hl Hf. destruct (Nat.lt_ge_cases i (length a)) as [Hi|Hi].
  - rewrite dv_zip_get by assumption. reflexivity.
  - rewrite !dv_get_overflow; [symmetry; exact Hf | lia | lia | rewrite dv_zip_length by exact Hl; lia].
Qed.

Lemma dv_add_length a b : length a = length b -> length (dv_add a b) = length a.
Proof. apply dv_zip_length. Qed.
Lemma dv_sub_length a b : length a = length b -> length (dv_sub a b) = length a.
Proof. apply dv_zip_length. Qed.
Lemma dv_multadd_length x b a : length a = length b -> length (dv_multadd x b a) = length a.
Proof. apply dv_zip_length. Qed.
Lemma dv_scale_length x a : length (dv_scale x a) = length a.
Proof. apply map_length. Qed.

Lemma dv_add_get : forall a b i, length a = length b -> dv_get (dv_add a b) i == dv_get a i + dv_get b i.
Proof. intros a b i Hl. unfold dv_add. apply (dv_zip_get0 Qplus); [exact Hl | ring]. Qed.

Lemma dv_sub_get : forall a b i, length a = length b -> dv_get (dv_sub a b) i == dv_get a i - dv_get b i.
Proof. intros a b i Hl. unfold dv_sub. apply (dv_zip_get0 Qminus); [exact Hl | ring]. Qed.

Lemma dv_multadd_get : forall x b a i, length a = length b ->
  dv_get (dv_multadd x b a) i == dv_get a i + x * dv_get b i.
Proof.
  intros x b a i Hl. unfold dv_multadd. apply (dv_zip_get0 (fun y z => y + x * z)); [exact Hl | ring].
Qed.

Lemma dv_scale_get : forall x a i, dv_get (dv_scale x a) i == dv_get a i * x.
Proof.
  intros x a. unfold dv_scale. induction a as [|y r IH]; intros i; cbn [map].
  - rewrite dv_get_nil. ring.
  - destruct i as [|k]; [reflexivity|]. rewrite !dv_get_cons_S. apply IH.
Qed.

Lemma dv_neg_length a : length (dv_neg a) = length a.
Proof. apply map_length. Qed.

Lemma dv_neg_get : forall a i, dv_get (dv_neg a) i == - dv_get a i.
Proof.
  intros a. unfold dv_neg. induction a as [|y r IH]; intros i; cbn [map].
  - rewrite dv_get_nil. ring.
  - destruct i as [|k]; [reflexivity|]. rewrite !dv_get_cons_S. apply IH.
Qed.

Lemma dv_dot_comm : forall a b, dv_dot a b == dv_dot b a.
Proof.
  induction a as [|x a IH]; intros [|y b]; cbn [dv_dot]; try reflexivity.
  rewrite IH. ring.
Qed.

Lemma dv_dot_add_l : forall a b c, length a = length b ->
  dv_dot (dv_add a b) c == dv_dot a c + dv_dot b c.
Proof.
  unfold dv_add. induction a as [|x a IH]; intros [|y b] c Hl; cbn in Hl; try discriminate.
  - cbn. ring.
  - destruct c as [|z c]; cbn [dv_zip dv_dot]; [ring|]. rewrite IH by lia. ring.
Qed.

Lemma dv_dot_scale_l : forall x a c, dv_dot (dv_scale x a) c == x * dv_dot a c.
Proof.
  unfold dv_scale. intros x. induction a as [|y a IH]; intros c; cbn [map dv_dot]; [ring|].
  destruct c as [|z c]; [ring|]. rewrite IH. ring.
Qed.

Lemma dv_redim_length n d : length (dv_redim n d) = n.
Proof.
  unfold dv_redim. rewrite app_length, firstn_length, repeat_length. lia.
Qed.

Lemma dv_redim_get : forall n d i, dv_get (dv_redim n d) i = if Nat.ltb i n then dv_get d i else 0.
Proof.
  unfold dv_redim. intros n d. revert n. induction d as [|y r IH]; intros n i.
  - rewrite firstn_nil. cbn [app length]. rewrite Nat.sub_0_r. change (repeat 0 n) with (dv_zero n).
    rewrite dv_get_zero, dv_get_nil. destruct (Nat.ltb i n); reflexivity.
  - destruct n as [|n]; [cbn [firstn app length Nat.sub repeat]; rewrite dv_get_nil; reflexivity|].
    cbn [firstn length Nat.sub app]. destruct i as [|k]; [reflexivity|].
    rewrite !dv_get_cons_S. rewrite IH. reflexivity.
Qed.

(* ================================================================== C. semi-sparse vectors *)
Definition ss_ok (eps : Q) (s : ssvec) : Prop :=
  ss_setup s = true ->
  NoDup (ss_idx s) /\ Forall (fun i => (i < ss_dim s)%nat) (ss_idx s) /\
  (forall i, (i < ss_dim s)%nat -> ~ dv_get (ss_val s) i == 0 ->
             In i (ss_idx s) \/ Qabs (dv_get (ss_val s) i) <= eps).

(* the third clause on its own *)
Definition cov (eps : Q) (d : dvec) (idx : list nat) : Prop :=
  forall i, (i < length d)%nat -> ~ dv_get d i == 0 -> In i idx \/ Qabs (dv_get d i) <= eps.

Lemma ss_ok_mk eps d idx b :
  NoDup idx -> Forall (fun i => (i < length d)%nat) idx -> cov eps d idx -> ss_ok eps (mkSS d idx b).
Proof. intros H1 H2 H3 _. cbn. auto. Qed.

Lemma ss_ok_unsetup eps d idx : ss_ok eps (mkSS d idx false).
Proof. intros C. discriminate C. Qed.

Lemma ss_ok_elim eps s : ss_ok eps s -> ss_setup s = true ->
  NoDup (ss_idx s) /\ Forall (fun i => (i < length (ss_val s))%nat) (ss_idx s) /\ cov eps (ss_val s) (ss_idx s).
Proof. intros H Hs. exact (H Hs). Qed.

Lemma Qabs_le0 x : Qabs x <= 0 -> x == 0.
Proof. apply Qabs_case; intros; lra. Qed.

Lemma Qabs_0_le eps : 0 <= eps -> Qabs 0 <= eps.
Proof. intros H. exact H. Qed.

Lemma cov_set eps d idx idx' j x :
  cov eps d idx -> (forall k, k <> j -> In k idx -> In k idx') ->
  (~ x == 0 -> In j idx' \/ Qabs x <= eps) -> cov eps (dv_set d j x) idx'.
Proof.
  intros Hc Hsub Hx i Hi Hnz. rewrite dv_set_length in Hi. destruct (Nat.eq_dec j i) as [E|E].
  - subst. rewrite dv_get_set_same in * by exact Hi. apply Hx. exact Hnz.
  - rewrite dv_get_set_other in * by exact E.
    destruct (Hc i Hi Hnz) as [H|H]; [left; apply Hsub; auto | right; exact H].
Qed.

Lemma ss_ok0_notin s i : ss_ok 0 s -> ss_setup s = true -> ~ In i (ss_idx s) -> dv_get (ss_val s) i == 0.
Proof.
  intros Hok Hs Hn. destruct (ss_ok_elim _ _ Hok Hs) as (_ & _ & Hc).
  destruct (Nat.lt_ge_cases i (length (ss_val s))) as [Hi|Hi].
  - destruct (Qeq_dec (dv_get (ss_val s) i) 0) as [E|E]; [exact E|].
    destruct (Hc i Hi E) as [H|H]; [contradiction | apply Qabs_le0; exact H].
  - rewrite dv_get_overflow by exact Hi. reflexivity.
Qed.

(* C12: setup *)
Lemma scan_val_length eps d : length (scan_val eps d) = length d.
Proof. apply map_length. Qed.

Lemma scan_val_get eps d : forall i,
  dv_get (scan_val eps d) i == (if Qle_bool (Qabs (dv_get d i)) eps then 0 else dv_get d i).
Proof.
  unfold scan_val. induction d as [|x r IH]; intros i; cbn [map].
  - rewrite dv_get_nil. destruct (Qle_bool (Qabs 0) eps); reflexivity.
  - destruct i as [|k]; [|rewrite !dv_get_cons_S; apply IH]. rewrite !dv_get_cons_0.
    unfold qle_bool, qabs. destruct (qzero x) eqn:Hz.
    + apply qzero_true in Hz. destruct (Qle_bool (Qabs x) eps); [exact Hz | reflexivity].
    + destruct (Qle_bool (Qabs x) eps); reflexivity.
Qed.

Lemma ss_setup_force_val : forall eps s i, 0 <= eps ->
  dv_get (ss_val (ss_setup_force eps s)) i ==
  (if Qle_bool (Qabs (dv_get (ss_val s) i)) eps then 0 else dv_get (ss_val s) i).
Proof. intros eps s i _. apply scan_val_get. Qed.

Lemma scan_val0 d : dv_eq (scan_val 0 d) d.
Proof.
  apply dv_eq_of_get; [apply scan_val_length|]. intros i _. rewrite scan_val_get.
  destruct (Qle_bool (Qabs (dv_get d i)) 0) eqn:H; [|reflexivity].
  apply Qle_bool_iff in H. symmetry. apply Qabs_le0. exact H.
Qed.

Lemma ss_setup_force_val0 : forall s, dv_eq (ss_val (ss_setup_force 0 s)) (ss_val s).
Proof. intros s. apply scan_val0. Qed.

Lemma ss_setup_force_dim eps s : ss_dim (ss_setup_force eps s) = ss_dim s.
Proof. apply scan_val_length. Qed.

Lemma scan_idx_range eps d : forall s i, In i (scan_idx eps d s) -> (s <= i < s + length d)%nat.
Proof.
  induction d as [|x r IH]; intros s i; cbn [scan_idx length]; [intros []|].
  destruct (qzero x); [intros H; apply IH in H; lia|].
  destruct (qle_bool (qabs x) eps); [intros H; apply IH in H; lia|].
  intros [H|H]; [lia | apply IH in H; lia].
Qed.

Lemma scan_idx_sorted eps d : forall s, StronglySorted lt (scan_idx eps d s).
Proof.
  induction d as [|x r IH]; intros s; cbn [scan_idx]; [constructor|].
  destruct (qzero x); [apply IH|]. destruct (qle_bool (qabs x) eps); [apply IH|].
  constructor; [apply IH|]. apply Forall_forall. intros k Hk. apply scan_idx_range in Hk. lia.
Qed.

Lemma scan_idx_In eps d : 0 <= eps -> forall s i,
  In i (scan_idx eps d s) <-> (s <= i < s + length d)%nat /\ ~ Qabs (dv_get d (i - s)) <= eps.
Proof.
  intros He. induction d as [|x r IH]; intros s i; cbn [scan_idx length].
  - split; [intros [] | intros [H _]; lia].
  - assert (E : (S s <= i)%nat -> dv_get (x :: r) (i - s) = dv_get r (i - S s)).
    { intros H. replace (i - s)%nat with (S (i - S s)) by lia. reflexivity. }
    assert (Hhead : dv_get (x :: r) (s - s) = x) by (rewrite Nat.sub_diag; reflexivity).
    assert (Htail : In i (scan_idx eps r (S s)) <->
                    (S s <= i < s + S (length r))%nat /\ ~ Qabs (dv_get (x :: r) (i - s)) <= eps).
    { rewrite IH. split; intros [H1 H2]; (split; [lia|]).
      - rewrite E by lia. exact H2.
      - rewrite <- E by lia. exact H2. }
    assert (Hskip : Qabs x <= eps ->
              (In i (scan_idx eps r (S s)) <->
               (s <= i < s + S (length r))%nat /\ ~ Qabs (dv_get (x :: r) (i - s)) <= eps)).
    { intros Hsm. rewrite Htail. split; intros [H1 H2]; (split; [|exact H2]); [lia|].
      destruct (Nat.eq_dec i s) as [Eq|Eq]; [|lia]. subst i. rewrite Hhead in H2. contradiction. }
    destruct (qzero x) eqn:Hz.
    { apply Hskip. apply qzero_true in Hz. rewrite Hz. exact He. }
    destruct (qle_bool (qabs x) eps) eqn:Hq.
    { apply Hskip. apply qle_true in Hq. exact Hq. }
    cbn [In]. rewrite Htail. split.
    + intros [Eq|[H1 H2]].
      * subst i. split; [lia|]. rewrite Hhead. apply qle_false in Hq. exact Hq.
      * split; [lia | exact H2].
    + intros [H1 H2]. destruct (Nat.eq_dec s i) as [Eq|Eq]; [left; exact Eq | right; split; [lia | exact H2]].
Qed.

Lemma ss_setup_force_idx : forall eps s i, 0 <= eps ->
  (In i (ss_idx (ss_setup_force eps s)) <->
   (i < ss_dim s)%nat /\ ~ Qabs (dv_get (ss_val s) i) <= eps).
Proof.
  intros eps s i He. cbn [ss_setup_force ss_idx]. rewrite (scan_idx_In eps _ He).
  rewrite Nat.sub_0_r. unfold ss_dim. split; intros [H1 H2]; (split; [lia | exact H2]).
Qed.

Lemma ss_setup_force_sorted : forall eps s, StronglySorted lt (ss_idx (ss_setup_force eps s)).
Proof. intros eps s. apply scan_idx_sorted. Qed.

Lemma ss_setup_force_setup eps s : ss_setup (ss_setup_force eps s) = true.
Proof. reflexivity. Qed.

Lemma ss_setup_force_ok : forall eps s, 0 <= eps -> ss_ok eps (ss_setup_force eps s).
Proof.
  intros eps s He. unfold ss_setup_force. apply ss_ok_mk.
  - apply sorted_lt_nodup. apply scan_idx_sorted.
  - apply Forall_forall. intros k Hk. apply scan_idx_range in Hk. rewrite scan_val_length. lia.
  - intros i Hi Hnz. rewrite scan_val_length in Hi. left.
    apply (scan_idx_In eps _ He). rewrite Nat.sub_0_r. split; [lia|].
    intros C. apply Hnz. rewrite scan_val_get. apply Qle_bool_iff in C. rewrite C. reflexivity.
Qed.

(* after setup() every indexed value is larger than eps and every other value is an exact zero *)
Lemma ss_setup_force_strict : forall eps s i, 0 <= eps ->
  (In i (ss_idx (ss_setup_force eps s)) -> ~ Qabs (dv_get (ss_val (ss_setup_force eps s)) i) <= eps) /\
  (~ In i (ss_idx (ss_setup_force eps s)) -> dv_get (ss_val (ss_setup_force eps s)) i == 0).
Proof.
  intros eps s i He. split; intros H.
  - apply (ss_setup_force_idx eps s i He) in H. destruct H as [_ H].
    rewrite ss_setup_force_val by exact He.
    destruct (Qle_bool (Qabs (dv_get (ss_val s) i)) eps) eqn:Hq; [|exact H].
    apply Qle_bool_iff in Hq. contradiction.
  - rewrite ss_setup_force_val by exact He.
    destruct (Qle_bool (Qabs (dv_get (ss_val s) i)) eps) eqn:Hq; [reflexivity|].
    destruct (Nat.lt_ge_cases i (ss_dim s)) as [Hi|Hi].
    + exfalso. apply H. apply (ss_setup_force_idx eps s i He). split; [exact Hi|].
      intros C. apply Qle_bool_iff in C. congruence.
    + rewrite dv_get_overflow by exact Hi. reflexivity.
Qed.

Lemma ss_do_setup_ok : forall eps s, 0 <= eps -> ss_ok eps s -> ss_ok eps (ss_do_setup eps s).
Proof.
  intros eps s He Hok. unfold ss_do_setup. destruct (ss_setup s); [exact Hok | apply ss_setup_force_ok; exact He].
Qed.

Lemma ss_do_setup_setup eps s : ss_setup (ss_do_setup eps s) = true.
Proof. unfold ss_do_setup. destruct (ss_setup s) eqn:H; [exact H | reflexivity]. Qed.

Lemma ss_resetup_ok : forall eps s, 0 <= eps -> ss_ok eps (ss_resetup eps s).
Proof.
  intros eps s He. unfold ss_resetup. destruct (ss_setup s) eqn:Hs.
  - apply ss_setup_force_ok. exact He.
  - intros C. congruence.
Qed.

Lemma ss_resetup_val0 s : dv_eq (ss_val (ss_resetup 0 s)) (ss_val s).
Proof. unfold ss_resetup. destruct (ss_setup s); [apply scan_val0 | reflexivity]. Qed.

Lemma ss_resetup_dim eps s : ss_dim (ss_resetup eps s) = ss_dim s.
Proof. unfold ss_resetup. destruct (ss_setup s); [apply scan_val_length | reflexivity]. Qed.

(* ------------------------------------------------------------------ index list helpers *)
Lemma nl_pos_from_none l : forall i p, nl_pos_from l i p = None <-> ~ In i l.
Proof.
  induction l as [|j r IH]; intros i p; cbn [nl_pos_from In]; [split; [intros _ [] | reflexivity]|].
  destruct (Nat.eqb_spec j i) as [E|E].
  - split; [discriminate | intros H; exfalso; apply H; left; exact E].
  - rewrite IH. split; [intros H [C|C]; contradiction | intros H C; apply H; right; exact C].
Qed.

Lemma nl_pos_from_some l : forall i p n, nl_pos_from l i p = Some n ->
  (p <= n)%nat /\ (n - p < length l)%nat /\ nth (n - p) l 0%nat = i.
Proof.
  induction l as [|j r IH]; intros i p n; cbn [nl_pos_from]; [discriminate|].
  destruct (Nat.eqb_spec j i) as [E|E].
  - intros H. inversion H; subst. rewrite Nat.sub_diag. cbn. split; [lia | split; [lia | reflexivity]].
  - intros H. apply IH in H. destruct H as (H1 & H2 & H3). split; [lia|]. cbn [length].
    replace (n - p)%nat with (S (n - S p)) by lia. cbn [nth]. split; [lia | exact H3].
Qed.

Lemma nl_pos_none l i : nl_pos l i = None <-> ~ In i l.
Proof. apply nl_pos_from_none. Qed.

Lemma nl_pos_some l i n : nl_pos l i = Some n -> (n < length l)%nat /\ nth n l 0%nat = i.
Proof.
  intros H. apply nl_pos_from_some in H. rewrite Nat.sub_0_r in H. tauto.
Qed.

Lemma nl_remove_pos_perm n l : (n < length l)%nat -> Permutation (nth n l 0%nat :: nl_remove_pos n l) l.
Proof. rewrite nl_remove_pos_g. apply g_remove_perm. Qed.

Lemma nl_remove_pos_oob n l : (length l <= n)%nat -> nl_remove_pos n l = l.
Proof. rewrite nl_remove_pos_g. apply g_remove_oob. Qed.

Lemma nl_remove_pos_facts n l : NoDup l ->
  NoDup (nl_remove_pos n l) /\ (forall k, In k (nl_remove_pos n l) -> In k l) /\
  (forall k, k <> nth n l 0%nat -> In k l -> In k (nl_remove_pos n l)).
Proof.
  intros Hnd. destruct (Nat.lt_ge_cases n (length l)) as [Hn|Hn].
  - pose proof (nl_remove_pos_perm n l Hn) as Hp. split; [|split].
    + apply Permutation_sym in Hp. apply (Permutation_NoDup Hp) in Hnd. inversion Hnd; assumption.
    + intros k Hk. apply (Permutation_in _ Hp). right. exact Hk.
    + intros k Hne Hk. apply Permutation_sym in Hp. apply (Permutation_in _ Hp) in Hk.
      destruct Hk as [Hk|Hk]; [congruence | exact Hk].
  - rewrite nl_remove_pos_oob by exact Hn. auto.
Qed.

Lemma NoDup_filter' {A} (f : A -> bool) l : NoDup l -> NoDup (filter f l).
Proof.
  induction 1 as [|a l Hn Hd IH]; cbn; [constructor|]. destruct (f a); [|exact IH].
  constructor; [|exact IH]. intros C. apply filter_In in C. tauto.
Qed.

(* C13: the operations keep ss_ok *)
Lemma ss_clearnum_ok : forall eps n s, ss_ok eps s -> ss_ok eps (ss_clearnum n s).
Proof.
  intros eps n s Hok Hs. cbn [ss_clearnum ss_setup] in Hs.
  destruct (ss_ok_elim _ _ Hok Hs) as (Hnd & Hdim & Hc).
  destruct (nl_remove_pos_facts n _ Hnd) as (R1 & R2 & R3).
  unfold ss_clearnum. apply ss_ok_mk; [exact R1 | | | exact Hs].
  - rewrite dv_set_length. rewrite Forall_forall in *. intros k Hk. apply Hdim. apply R2. exact Hk.
  - apply (cov_set eps _ (ss_idx s)); [exact Hc | exact R3 |]. intros C. exfalso. apply C. reflexivity.
Qed.

Lemma ss_setvalue_ok : forall eps i x s, (i < ss_dim s)%nat -> ss_ok eps s -> ss_ok eps (ss_setvalue eps i x s).
Proof.
  intros eps i x s Hi Hok. unfold ss_setvalue. destruct (ss_setup s) eqn:Hs; [|apply ss_ok_unsetup].
  destruct (ss_ok_elim _ _ Hok Hs) as (Hnd & Hdim & Hc).
  destruct (nl_pos (ss_idx s) i) as [n|] eqn:Hp.
  - apply nl_pos_some in Hp. destruct Hp as [Hn Hni].
    destruct (qzero x) eqn:Hz.
    + cbn [ss_clearnum ss_val ss_idx]. rewrite Hni.
      destruct (nl_remove_pos_facts n _ Hnd) as (R1 & R2 & R3). rewrite Hni in R3.
      apply ss_ok_mk; [exact R1 | |].
      * rewrite !dv_set_length. rewrite Forall_forall in *. intros k Hk. apply Hdim. apply R2. exact Hk.
      * apply (cov_set eps _ (nl_remove_pos n (ss_idx s))); [|auto|].
        -- apply (cov_set eps _ (ss_idx s)); [exact Hc | exact R3 |]. intros C. exfalso. apply C. reflexivity.
        -- intros C. exfalso. apply C. apply qzero_true. exact Hz.
    + apply ss_ok_mk; [exact Hnd | rewrite dv_set_length; exact Hdim |].
      apply (cov_set eps _ (ss_idx s)); [exact Hc | auto |]. intros _. left. rewrite <- Hni. apply nth_In. exact Hn.
  - apply nl_pos_none in Hp. destruct (qle_bool (qabs x) eps) eqn:Hq.
    + apply ss_ok_mk; [exact Hnd | rewrite dv_set_length; exact Hdim |].
      apply (cov_set eps _ (ss_idx s)); [exact Hc | auto |]. intros _. right. apply qle_true in Hq. exact Hq.
    + apply ss_ok_mk.
      * apply NoDup_snoc; assumption.
      * rewrite dv_set_length. apply Forall_app. split; [exact Hdim | constructor; [exact Hi | constructor]].
      * apply (cov_set eps _ (ss_idx s)); [exact Hc | |].
        -- intros k _ Hk. apply in_or_app. left. exact Hk.
        -- intros _. left. apply in_or_app. right. left. reflexivity.
Qed.

Lemma ss_setvalue_val eps i x s j : (i < ss_dim s)%nat ->
  dv_get (ss_val (ss_setvalue eps i x s)) j = if Nat.eqb i j then x else dv_get (ss_val s) j.
Proof.
  intros Hi. unfold ss_setvalue. unfold ss_dim in Hi.
  destruct (ss_setup s); [|cbn [ss_val]; apply dv_get_set; exact Hi].
  destruct (nl_pos (ss_idx s) i) as [n|] eqn:Hp; [|cbn [ss_val]; apply dv_get_set; exact Hi].
  destruct (qzero x); cbn [ss_val ss_clearnum]; [|apply dv_get_set; exact Hi].
  apply nl_pos_some in Hp. destruct Hp as [_ Hni]. rewrite Hni.
  rewrite dv_get_set by (rewrite dv_set_length; exact Hi).
  destruct (Nat.eqb_spec i j) as [E|E]; [reflexivity | apply dv_get_set_other; exact E].
Qed.

Lemma ss_add_ok : forall eps i x s, (i < ss_dim s)%nat -> ~ In i (ss_idx s) -> ss_ok eps s -> ss_ok eps (ss_add i x s).
Proof.
  intros eps i x s Hi Hni Hok Hs. cbn [ss_add ss_setup] in Hs.
  destruct (ss_ok_elim _ _ Hok Hs) as (Hnd & Hdim & Hc).
  unfold ss_add. apply ss_ok_mk; [| | |exact Hs].
  - apply NoDup_snoc; assumption.
  - rewrite dv_set_length. apply Forall_app. split; [exact Hdim | constructor; [exact Hi | constructor]].
  - apply (cov_set eps _ (ss_idx s)); [exact Hc | |].
    + intros k _ Hk. apply in_or_app. left. exact Hk.
    + intros _. left. apply in_or_app. right. left. reflexivity.
Qed.

Lemma ss_add_val i x s j : (i < ss_dim s)%nat ->
  dv_get (ss_val (ss_add i x s)) j = if Nat.eqb i j then x else dv_get (ss_val s) j.
Proof. intros Hi. cbn [ss_add ss_val]. apply dv_get_set. exact Hi. Qed.

Lemma ss_clearidx_ok : forall eps i s, ss_ok eps s -> ss_ok eps (ss_clearidx i s).
Proof.
  intros eps i s Hok. unfold ss_clearidx. destruct (ss_setup s) eqn:Hs; [|apply ss_ok_unsetup].
  destruct (ss_ok_elim _ _ Hok Hs) as (Hnd & Hdim & Hc).
  destruct (nl_pos (ss_idx s) i) as [n|] eqn:Hp.
  - apply nl_pos_some in Hp. destruct Hp as [Hn Hni].
    destruct (nl_remove_pos_facts n _ Hnd) as (R1 & R2 & R3). rewrite Hni in R3.
    apply ss_ok_mk; [exact R1 | |].
    + rewrite dv_set_length. rewrite Forall_forall in *. intros k Hk. apply Hdim. apply R2. exact Hk.
    + apply (cov_set eps _ (ss_idx s)); [exact Hc | exact R3 |]. intros C. exfalso. apply C. reflexivity.
  - apply ss_ok_mk; [exact Hnd | rewrite dv_set_length; exact Hdim |].
    apply (cov_set eps _ (ss_idx s)); [exact Hc | auto |]. intros C. exfalso. apply C. reflexivity.
Qed.

Lemma fold_zero_length (l : list nat) : forall d, length (fold_left (fun d i => dv_set d i 0) l d) = length d.
Proof. induction l as [|j r IH]; intros d; cbn [fold_left]; [reflexivity|]. rewrite IH. apply dv_set_length. Qed.

Lemma fold_zero_get (l : list nat) : forall d k, (k < length d)%nat ->
  dv_get (fold_left (fun d i => dv_set d i 0) l d) k = if memb k l then 0 else dv_get d k.
Proof.
  induction l as [|j r IH]; intros d k Hk; cbn [fold_left existsb]; [reflexivity|].
  rewrite IH by (rewrite dv_set_length; exact Hk). rewrite (Nat.eqb_sym k j).
  destruct (Nat.eqb_spec j k) as [E|E]; cbn [orb].
  - subst. rewrite dv_get_set_same by exact Hk. destruct (memb k r); reflexivity.
  - rewrite dv_get_set_other by exact E. reflexivity.
Qed.

Lemma ss_clear_dim s : ss_dim (ss_clear s) = ss_dim s.
Proof.
  unfold ss_clear, ss_dim. destruct (ss_setup s); cbn [ss_val]; [apply fold_zero_length | apply dv_clear_length].
Qed.

Lemma ss_clear_setup s : ss_setup (ss_clear s) = true.
Proof. unfold ss_clear. destruct (ss_setup s); reflexivity. Qed.

Lemma ss_clear_idx s : ss_idx (ss_clear s) = [].
Proof. unfold ss_clear. destruct (ss_setup s); reflexivity. Qed.

Lemma ss_clear_ok : forall eps s, ss_ok eps s -> ss_ok eps (ss_clear s).
Proof.
  intros eps s Hok. unfold ss_clear. destruct (ss_setup s) eqn:Hs.
  - destruct (ss_ok_elim _ _ Hok Hs) as (Hnd & Hdim & Hc).
    apply ss_ok_mk; [constructor | constructor |].
    intros k Hk Hnz. rewrite fold_zero_length in Hk. rewrite fold_zero_get in * by exact Hk.
    destruct (memb k (ss_idx s)) eqn:Hm; [exfalso; apply Hnz; reflexivity|].
    apply memb_notIn in Hm. destruct (Hc k Hk Hnz) as [H|H]; [contradiction | right; exact H].
  - apply ss_ok_mk; [constructor | constructor |]. intros k _ Hnz. rewrite dv_get_clear in Hnz.
    exfalso. apply Hnz. reflexivity.
Qed.

Lemma ss_clear_val : forall s i, ss_ok 0 s -> dv_get (ss_val (ss_clear s)) i == 0.
Proof.
  intros s i Hok. unfold ss_clear. destruct (ss_setup s) eqn:Hs; cbn [ss_val]; [|rewrite dv_get_clear; reflexivity].
  destruct (Nat.lt_ge_cases i (length (ss_val s))) as [Hi|Hi].
  - rewrite fold_zero_get by exact Hi. destruct (memb i (ss_idx s)) eqn:Hm; [reflexivity|].
    apply memb_notIn in Hm. apply ss_ok0_notin; assumption.
  - rewrite dv_get_overflow; [reflexivity | rewrite fold_zero_length; exact Hi].
Qed.

Lemma fold_scale_length x (l : list nat) : forall d,
  length (fold_right (fun i d => dv_upd d i (fun y => y * x)) d l) = length d.
Proof. induction l as [|j r IH]; intros d; cbn [fold_right]; [reflexivity|]. rewrite dv_upd_length. apply IH. Qed.

Lemma fold_scale_get x (l : list nat) : forall d k, NoDup l -> Forall (fun i => (i < length d)%nat) l ->
  dv_get (fold_right (fun i d => dv_upd d i (fun y => y * x)) d l) k
  = if memb k l then dv_get d k * x else dv_get d k.
Proof.
  induction l as [|j r IH]; intros d k Hnd Hdim; cbn [fold_right existsb]; [reflexivity|].
  inversion Hnd as [|? ? Hnotin Hnd']; subst. inversion Hdim as [|? ? Hj Hdim']; subst.
  rewrite dv_get_upd by (rewrite fold_scale_length; exact Hj).
  rewrite (Nat.eqb_sym k j). destruct (Nat.eqb_spec j k) as [E|E]; cbn [orb].
  - subst. rewrite (IH d k Hnd' Hdim'). apply memb_notIn in Hnotin. rewrite Hnotin. reflexivity.
  - apply IH; assumption.
Qed.

Lemma ss_scale_ok : forall eps x s, ss_ok eps s -> ss_ok eps (ss_scale x s).
Proof.
  intros eps x s Hok Hs. cbn [ss_scale ss_setup] in Hs.
  destruct (ss_ok_elim _ _ Hok Hs) as (Hnd & Hdim & Hc).
  unfold ss_scale. apply ss_ok_mk; [exact Hnd | rewrite fold_scale_length; exact Hdim | | exact Hs].
  intros k Hk Hnz. rewrite fold_scale_length in Hk. rewrite fold_scale_get in * by assumption.
  destruct (memb k (ss_idx s)) eqn:Hm; [left; apply memb_In; exact Hm|]. apply Hc; assumption.
Qed.

Lemma ss_scale_val0 : forall x s i, ss_ok 0 s -> ss_setup s = true ->
  dv_get (ss_val (ss_scale x s)) i == dv_get (ss_val s) i * x.
Proof.
  intros x s i Hok Hs. destruct (ss_ok_elim _ _ Hok Hs) as (Hnd & Hdim & Hc).
  cbn [ss_scale ss_val]. rewrite fold_scale_get by assumption.
  destruct (memb i (ss_idx s)) eqn:Hm; [reflexivity|]. apply memb_notIn in Hm.
  rewrite (ss_ok0_notin s i Hok Hs Hm). ring.
Qed.

Lemma ss_add_dv_ok : forall eps w s, 0 <= eps -> ss_ok eps (ss_add_dv eps w s).
Proof. intros. apply ss_resetup_ok. assumption. Qed.
Lemma ss_sub_dv_ok : forall eps w s, 0 <= eps -> ss_ok eps (ss_sub_dv eps w s).
Proof. intros. apply ss_resetup_ok. assumption. Qed.
Lemma ss_multadd_dv_ok : forall eps x w s, 0 <= eps -> ss_ok eps (ss_multadd_dv eps x w s).
Proof. intros. apply ss_resetup_ok. assumption. Qed.
Lemma ss_add_sv_ok : forall eps v s, 0 <= eps -> ss_ok eps (ss_add_sv eps v s).
Proof. intros. apply ss_resetup_ok. assumption. Qed.
Lemma ss_sub_sv_ok : forall eps v s, 0 <= eps -> ss_ok eps (ss_sub_sv eps v s).
Proof. intros. apply ss_resetup_ok. assumption. Qed.
Lemma ss_add_ss_ok : forall eps w s, 0 <= eps -> ss_ok eps (ss_add_ss eps w s).
Proof. intros. apply ss_resetup_ok. assumption. Qed.
Lemma ss_sub_ss_ok : forall eps w s, 0 <= eps -> ss_ok eps (ss_sub_ss eps w s).
Proof. intros eps w s He. unfold ss_sub_ss. destruct (ss_setup w); apply ss_resetup_ok; exact He. Qed.

Lemma ss_add_dv_val0 : forall w s i, length w = ss_dim s ->
  dv_get (ss_val (ss_add_dv 0 w s)) i == dv_get (ss_val s) i + dv_get w i.
Proof.
  intros w s i Hl. unfold ss_add_dv. rewrite (dv_eq_get _ _ (ss_resetup_val0 _)). cbn [ss_val].
  apply dv_add_get. symmetry. exact Hl.
Qed.

Lemma ss_sub_dv_val0 : forall w s i, length w = ss_dim s ->
  dv_get (ss_val (ss_sub_dv 0 w s)) i == dv_get (ss_val s) i - dv_get w i.
Proof.
  intros w s i Hl. unfold ss_sub_dv. rewrite (dv_eq_get _ _ (ss_resetup_val0 _)). cbn [ss_val].
  apply dv_sub_get. symmetry. exact Hl.
Qed.

Lemma ss_multadd_dv_val0 : forall x w s i, length w = ss_dim s ->
  dv_get (ss_val (ss_multadd_dv 0 x w s)) i == dv_get (ss_val s) i + x * dv_get w i.
Proof.
  intros x w s i Hl. unfold ss_multadd_dv. rewrite (dv_eq_get _ _ (ss_resetup_val0 _)). cbn [ss_val].
  apply dv_multadd_get. symmetry. exact Hl.
Qed.

Lemma ss_add_sv_val0 : forall v s i, ss_ok 0 s -> sv_nodup v -> sv_in_dim (ss_dim s) v ->
  dv_get (ss_val (ss_add_sv 0 v s)) i == dv_get (ss_val s) i + sv_get v i.
Proof.
  intros v s i _ Hnd Hdim. unfold ss_add_sv. rewrite (dv_eq_get _ _ (ss_resetup_val0 _)). cbn [ss_val].
  apply dv_add_sv_get; assumption.
Qed.

Lemma ss_sub_sv_val0 : forall v s i, ss_ok 0 s -> sv_nodup v -> sv_in_dim (ss_dim s) v ->
  dv_get (ss_val (ss_sub_sv 0 v s)) i == dv_get (ss_val s) i - sv_get v i.
Proof.
  intros v s i _ Hnd Hdim. unfold ss_sub_sv. rewrite (dv_eq_get _ _ (ss_resetup_val0 _)). cbn [ss_val].
  apply dv_sub_sv_get; assumption.
Qed.

(* the indexed entries of a semi-sparse vector as a sparse vector *)
Lemma ss_entries_indices s : sv_indices (ss_entries s) = ss_idx s.
Proof. unfold sv_indices, ss_entries. rewrite map_map. cbn [fst]. apply map_id. Qed.

Lemma ss_entries_get s i :
  sv_get (ss_entries s) i = if memb i (ss_idx s) then dv_get (ss_val s) i else 0.
Proof.
  unfold ss_entries. induction (ss_idx s) as [|j r IH]; cbn [map sv_get existsb]; [reflexivity|].
  rewrite (Nat.eqb_sym i j). destruct (Nat.eqb_spec j i) as [E|E]; cbn [orb]; [subst; reflexivity | exact IH].
Qed.

Lemma ss_entries_nodup eps s : ss_ok eps s -> ss_setup s = true -> sv_nodup (ss_entries s).
Proof.
  intros Hok Hs. unfold sv_nodup. rewrite ss_entries_indices. apply (ss_ok_elim _ _ Hok Hs).
Qed.

Lemma ss_entries_in_dim eps s : ss_ok eps s -> ss_setup s = true -> sv_in_dim (ss_dim s) (ss_entries s).
Proof.
  intros Hok Hs. destruct (ss_ok_elim _ _ Hok Hs) as (_ & Hdim & _).
  unfold sv_in_dim, ss_entries. rewrite Forall_forall in *. intros e He.
  apply in_map_iff in He. destruct He as [k [Ek Hk]]. subst e. cbn [fst]. apply Hdim. exact Hk.
Qed.

Lemma ss_entries_get0 s i : ss_ok 0 s -> ss_setup s = true -> sv_get (ss_entries s) i == dv_get (ss_val s) i.
Proof.
  intros Hok Hs. rewrite ss_entries_get. destruct (memb i (ss_idx s)) eqn:Hm; [reflexivity|].
  apply memb_notIn in Hm. symmetry. apply ss_ok0_notin; assumption.
Qed.

Lemma ss_add_ss_val0 : forall w s i, ss_ok 0 w -> ss_setup w = true -> ss_dim w = ss_dim s ->
  dv_get (ss_val (ss_add_ss 0 w s)) i == dv_get (ss_val s) i + dv_get (ss_val w) i.
Proof.
  intros w s i Hok Hs Hd. unfold ss_add_ss, ss_add_sv. rewrite (dv_eq_get _ _ (ss_resetup_val0 _)). cbn [ss_val].
  rewrite dv_add_sv_get.
  - rewrite ss_entries_get0 by assumption. reflexivity.
  - apply (ss_entries_nodup 0); assumption.
  - fold (ss_dim s). rewrite <- Hd. apply (ss_entries_in_dim 0); assumption.
Qed.

Lemma ss_sub_ss_val0 : forall w s i, ss_ok 0 w -> ss_dim w = ss_dim s ->
  dv_get (ss_val (ss_sub_ss 0 w s)) i == dv_get (ss_val s) i - dv_get (ss_val w) i.
Proof.
  intros w s i Hok Hd. unfold ss_sub_ss. destruct (ss_setup w) eqn:Hs.
  - unfold ss_sub_sv. rewrite (dv_eq_get _ _ (ss_resetup_val0 _)). cbn [ss_val].
    rewrite dv_sub_sv_get.
    + rewrite ss_entries_get0 by assumption. reflexivity.
    + apply (ss_entries_nodup 0); assumption.
    + fold (ss_dim s). rewrite <- Hd. apply (ss_entries_in_dim 0); assumption.
  - apply ss_sub_dv_val0. exact Hd.
Qed.

(* ------------------------------------------------------------------ operator=(SVectorBase) *)
Definition tiny_val (eps y : Q) : Q := if qle_bool (qabs y) eps then 0 else y.
Definition tiny_map (eps : Q) (v : svec) : svec := map (fun e => (fst e, tiny_val eps (snd e))) v.
Definition big_filter (eps : Q) (v : svec) : svec := filter (fun e => negb (qle_bool (qabs (snd e)) eps)) v.

Lemma ss_assign_step_eq eps d idx e :
  ss_assign_step eps (d, idx) e =
  if qle_bool (qabs (snd e)) eps then (dv_set d (fst e) 0, idx) else (dv_set d (fst e) (snd e), idx ++ [fst e]).
Proof. reflexivity. Qed.

Lemma ss_assign_fold eps v : forall d idx,
  fold_left (ss_assign_step eps) v (d, idx) =
  (fold_left (fun acc e => dv_set acc (fst e) (snd e)) (tiny_map eps v) d, idx ++ sv_indices (big_filter eps v)).
Proof.
  induction v as [|e r IH]; intros d idx.
  - cbn. rewrite app_nil_r. reflexivity.
  - cbn [fold_left]. rewrite ss_assign_step_eq. unfold tiny_map, big_filter. cbn [map filter fst snd].
    fold (tiny_map eps r). fold (big_filter eps r). unfold tiny_val at 1.
    destruct (qle_bool (qabs (snd e)) eps) eqn:Hq; cbn [negb]; rewrite IH; [reflexivity|].
    unfold sv_indices. cbn [map]. rewrite <- app_assoc. reflexivity.
Qed.

Lemma sv_get_map_val (g : Q -> Q) v i :
  sv_get (map (fun e => (fst e, g (snd e))) v) i = if memb i (sv_indices v) then g (sv_get v i) else 0.
Proof.
  induction v as [|[j x] r IH]; [reflexivity|].
  change (sv_indices ((j, x) :: r)) with (j :: sv_indices r). cbn [map sv_get fst snd existsb].
  rewrite (Nat.eqb_sym i j). destruct (Nat.eqb j i); cbn [orb]; [reflexivity | exact IH].
Qed.

Lemma tiny_map_indices eps v : sv_indices (tiny_map eps v) = sv_indices v.
Proof. unfold sv_indices, tiny_map. rewrite map_map. reflexivity. Qed.

Lemma sv_get_In_pair v i : In i (sv_indices v) -> In (i, sv_get v i) v.
Proof.
  induction v as [|[j x] r IH]; [intros []|].
  change (sv_indices ((j, x) :: r)) with (j :: sv_indices r). cbn [sv_get]. intros H.
  destruct (Nat.eqb_spec j i) as [E|E]; [subst; left; reflexivity|].
  right. apply IH. destruct H as [H|H]; [contradiction | exact H].
Qed.

Lemma ss_set_sv_get eps v s k : sv_nodup v -> sv_in_dim (ss_dim s) v ->
  dv_get (ss_val (ss_set_sv eps v s)) k =
  if memb k (sv_indices v) then tiny_val eps (sv_get v k) else dv_get (ss_val (ss_clear s)) k.
Proof.
  intros Hnd Hdim. unfold ss_set_sv. rewrite ss_assign_fold. cbv beta iota. cbn [ss_val].
  rewrite dv_fold_set_get.
  - rewrite tiny_map_indices. unfold tiny_map. rewrite sv_get_map_val. destruct (memb k (sv_indices v)); reflexivity.
  - unfold sv_nodup. rewrite tiny_map_indices. exact Hnd.
  - fold (ss_dim (ss_clear s)). rewrite ss_clear_dim. unfold sv_in_dim, tiny_map in *. rewrite Forall_forall in *.
    intros e He. apply in_map_iff in He. destruct He as [e' [Ee He]]. subst e. cbn [fst]. apply Hdim. exact He.
Qed.

Lemma ss_set_sv_dim eps v s : ss_dim (ss_set_sv eps v s) = ss_dim s.
Proof.
  unfold ss_set_sv. rewrite ss_assign_fold. cbv beta iota. unfold ss_dim at 1. cbn [ss_val].
  rewrite dv_fold_set_length. fold (ss_dim (ss_clear s)). apply ss_clear_dim.
Qed.

Lemma ss_set_sv_idx eps v s : ss_idx (ss_set_sv eps v s) = sv_indices (big_filter eps v).
Proof. unfold ss_set_sv. rewrite ss_assign_fold. cbv beta iota. reflexivity. Qed.

Lemma ss_set_sv_setup eps v s : ss_setup (ss_set_sv eps v s) = true.
Proof. unfold ss_set_sv. rewrite ss_assign_fold. cbv beta iota. reflexivity. Qed.

Lemma ss_set_sv_ok : forall eps v s, ss_ok eps s -> sv_nodup v -> sv_in_dim (ss_dim s) v ->
  ss_ok eps (ss_set_sv eps v s).
Proof.
  intros eps v s Hok Hnd Hdim _. rewrite ss_set_sv_idx, ss_set_sv_dim. split; [|split].
  - apply sv_filter_nodup. exact Hnd.
  - apply Forall_forall. intros k Hk. unfold sv_indices in Hk. apply in_map_iff in Hk.
    destruct Hk as [e [Ee He]]. subst k. apply filter_In in He. destruct He as [He _].
    unfold sv_in_dim in Hdim. rewrite Forall_forall in Hdim. apply Hdim. exact He.
  - intros k Hk Hnz. rewrite ss_set_sv_get in * by assumption.
    destruct (memb k (sv_indices v)) eqn:Hm.
    + unfold tiny_val in *. destruct (qle_bool (qabs (sv_get v k)) eps) eqn:Hq.
      * exfalso. apply Hnz. reflexivity.
      * left. unfold sv_indices. apply in_map_iff. exists (k, sv_get v k). split; [reflexivity|].
        apply filter_In. split; [apply sv_get_In_pair; apply memb_In; exact Hm|]. cbn [snd]. rewrite Hq. reflexivity.
    + right. pose proof (ss_ok_elim _ _ (ss_clear_ok eps s Hok) (ss_clear_setup s)) as (_ & _ & Hc).
      rewrite ss_clear_idx in Hc. fold (ss_dim (ss_clear s)) in Hc. rewrite <- (ss_clear_dim s) in Hk.
      destruct (Hc k Hk Hnz) as [[]|H]. exact H.
Qed.

Lemma tiny_val0 y : tiny_val 0 y == y.
Proof.
  unfold tiny_val. destruct (qle_bool (qabs y) 0) eqn:Hq; [|reflexivity].
  apply qle_true in Hq. symmetry. apply Qabs_le0. exact Hq.
Qed.

Lemma ss_set_sv_val0 : forall v s, ss_ok 0 s -> sv_nodup v -> sv_in_dim (ss_dim s) v ->
  dv_eq (ss_val (ss_set_sv 0 v s)) (expand (ss_dim s) v).
Proof.
  intros v s Hok Hnd Hdim. apply dv_eq_of_get.
  - fold (ss_dim (ss_set_sv 0 v s)). rewrite ss_set_sv_dim, expand_length. reflexivity.
  - intros k Hk. fold (ss_dim (ss_set_sv 0 v s)) in Hk. rewrite ss_set_sv_dim in Hk.
    rewrite ss_set_sv_get by assumption. rewrite expand_get. apply Nat.ltb_lt in Hk. rewrite Hk.
    destruct (memb k (sv_indices v)) eqn:Hm; [apply tiny_val0|].
    apply memb_notIn in Hm. rewrite (sv_get_notin v k Hm). apply ss_clear_val. exact Hok.
Qed.

(* ------------------------------------------------------------------ reDim *)
Lemma ss_redim_dim n s : ss_dim (ss_redim n s) = n.
Proof. apply dv_redim_length. Qed.

Lemma ss_redim_val n s i : dv_get (ss_val (ss_redim n s)) i = if Nat.ltb i n then dv_get (ss_val s) i else 0.
Proof. apply dv_redim_get. Qed.

(* the index loop of reDim: positions size-1 .. 0, an index >= n is removed by moving the last one into its place *)
Lemma redim_fold n : forall pre K,
  Permutation (fold_left (fun l p => if Nat.leb n (nth p l 0%nat) then nl_remove_pos p l else l)
                         (rev (seq 0 (length pre))) (pre ++ K))
              (filter (fun i => Nat.ltb i n) pre ++ K).
Proof.
  induction pre as [|e pre' IH] using rev_ind; intros K; [reflexivity|].
  rewrite app_length. cbn [length]. rewrite Nat.add_1_r, seq_S. cbn [plus]. rewrite rev_app_distr.
  cbn [rev app fold_left]. rewrite <- app_assoc. cbn [app]. rewrite nth_middle.
  rewrite filter_app. cbn [filter]. destruct (Nat.leb_spec n e) as [Hge|Hlt].
  - replace (Nat.ltb e n) with false by (symmetry; apply Nat.ltb_ge; exact Hge). rewrite app_nil_r.
    rewrite nl_remove_pos_g. destruct (list_rev_case K) as [E|(K' & lst & E)]; subst K.
    + rewrite g_remove_last. rewrite <- (app_nil_r pre') at 2. apply IH.
    + rewrite g_remove_mid. rewrite IH. apply Permutation_app_head. apply Permutation_cons_append.
  - replace (Nat.ltb e n) with true by (symmetry; apply Nat.ltb_lt; exact Hlt).
    rewrite IH. rewrite <- app_assoc. reflexivity.
Qed.

Lemma ss_redim_idx_perm : forall n s,
  Permutation (ss_idx (ss_redim n s)) (filter (fun i => Nat.ltb i n) (ss_idx s)).
Proof.
  intros n s. cbn [ss_redim ss_idx]. pose proof (redim_fold n (ss_idx s) []) as H.
  rewrite !app_nil_r in H. exact H.
Qed.

Lemma ss_redim_ok : forall eps n s, ss_ok eps s -> ss_ok eps (ss_redim n s).
Proof.
  intros eps n s Hok Hs. cbn [ss_redim ss_setup] in Hs.
  destruct (ss_ok_elim _ _ Hok Hs) as (Hnd & Hdim & Hc).
  pose proof (ss_redim_idx_perm n s) as Hp. cbn [ss_redim ss_idx] in Hp.
  unfold ss_redim. apply ss_ok_mk; [| | | exact Hs].
  - apply Permutation_sym in Hp. apply (Permutation_NoDup Hp). apply NoDup_filter'. exact Hnd.
  - rewrite dv_redim_length. apply Forall_forall. intros k Hk. apply (Permutation_in _ Hp) in Hk.
    apply filter_In in Hk. destruct Hk as [_ Hk]. apply Nat.ltb_lt in Hk. exact Hk.
  - intros k Hk Hnz. rewrite dv_redim_length in Hk. rewrite dv_redim_get in *.
    pose proof Hk as Hk'. apply Nat.ltb_lt in Hk'. rewrite Hk' in *.
    assert (Hkl : (k < length (ss_val s))%nat).
    { destruct (Nat.lt_ge_cases k (length (ss_val s))) as [H|H]; [exact H|].
      exfalso. apply Hnz. rewrite dv_get_overflow by exact H. reflexivity. }
    destruct (Hc k Hkl Hnz) as [H1|H1]; [|right; exact H1].
    left. apply Permutation_sym in Hp. apply (Permutation_in _ Hp). apply filter_In. split; [exact H1 | exact Hk'].
Qed.

(* ------------------------------------------------------------------ C14: scalar products *)
Definition lsum (f : nat -> Q) (l : list nat) : Q := fold_right (fun i s => f i + s) 0 l.

Lemma lsum_cons f i l : lsum f (i :: l) = f i + lsum f l.
Proof. reflexivity. Qed.

Lemma lsum_ext_in f g l : (forall i, In i l -> f i == g i) -> lsum f l == lsum g l.
Proof.
  induction l as [|a l IH]; intros H; [reflexivity|]. rewrite !lsum_cons.
  rewrite (H a) by (left; reflexivity). rewrite IH; [reflexivity|].
  intros i Hi. apply H. right. exact Hi.
Qed.

Lemma lsum_zero f l : (forall i, In i l -> f i == 0) -> lsum f l == 0.
Proof.
  induction l as [|a l IH]; intros H; [reflexivity|]. rewrite lsum_cons.
  rewrite (H a) by (left; reflexivity). rewrite IH; [ring|]. intros i Hi. apply H. right. exact Hi.
Qed.

Lemma lsum_app f l1 l2 : lsum f (l1 ++ l2) == lsum f l1 + lsum f l2.
Proof.
  induction l1 as [|a l IH]; cbn [app]; [unfold lsum at 2; cbn; ring|]. rewrite !lsum_cons, IH. ring.
Qed.

Lemma lsum_rev f l : lsum f (rev l) == lsum f l.
Proof.
  induction l as [|a l IH]; [reflexivity|]. cbn [rev]. rewrite lsum_app, IH, !lsum_cons.
  unfold lsum at 2. cbn [fold_right]. ring.
Qed.

Lemma ss_dot_ss_lsum a b :
  ss_dot_ss a b == lsum (fun i => dv_get (ss_val a) i * dv_get (ss_val b) i) (ss_idx a).
Proof.
  unfold ss_dot_ss, ss_entries. induction (ss_idx a) as [|i r IH]; [reflexivity|].
  cbn [map sv_dot_dv]. rewrite lsum_cons, IH. reflexivity.
Qed.

Lemma ss_entries_expand0 s : ss_ok 0 s -> ss_setup s = true ->
  dv_eq (expand (ss_dim s) (ss_entries s)) (ss_val s).
Proof.
  intros Hok Hs. apply dv_eq_of_get; [apply expand_length|]. intros k Hk. rewrite expand_length in Hk.
  rewrite expand_get. apply Nat.ltb_lt in Hk. rewrite Hk. apply ss_entries_get0; assumption.
Qed.

Lemma ss_dot_ss_spec : forall a b, ss_ok 0 a -> ss_setup a = true -> ss_dim a = ss_dim b ->
  ss_dot_ss a b == dv_dot (ss_val a) (ss_val b).
Proof.
  intros a b Hok Hs Hd. unfold ss_dot_ss.
  rewrite (sv_dot_dv_spec (ss_dim a) (ss_entries a) (ss_val b)).
  - apply dv_dot_eq; [apply ss_entries_expand0; assumption | reflexivity].
  - apply (ss_entries_nodup 0); assumption.
  - apply (ss_entries_in_dim 0); assumption.
  - symmetry. exact Hd.
Qed.

Lemma sv_of_ss_expand : forall w, ss_ok 0 w -> ss_setup w = true ->
  dv_eq (expand (ss_dim w) (sv_of_ss w)) (ss_val w).
Proof.
  intros w Hok Hs. apply dv_eq_of_get; [apply expand_length|]. intros k Hk. rewrite expand_length in Hk.
  rewrite expand_get. apply Nat.ltb_lt in Hk. rewrite Hk.
  change (sv_of_ss w) with (sv_assign (ss_entries w)).
  rewrite sv_assign_get by (apply (ss_entries_nodup 0); assumption). apply ss_entries_get0; assumption.
Qed.

Lemma sv_of_ss_nodup eps w : ss_ok eps w -> ss_setup w = true -> sv_nodup (sv_of_ss w).
Proof. intros Hok Hs. apply sv_filter_nodup. apply (ss_entries_nodup eps); assumption. Qed.

Lemma sv_of_ss_nonzero w : sv_nonzero (sv_of_ss w).
Proof. apply sv_assign_nonzero. Qed.

Lemma ss_merge_rev_cons da db i ia' j w :
  ss_merge_rev da db (i :: ia') (j :: w) =
  if Nat.eqb i j then dv_get da i * dv_get db j + ss_merge_rev da db ia' w
  else if Nat.ltb j i then ss_merge_rev da db ia' (j :: w)
  else ss_merge_rev da db (i :: ia') w.
Proof. reflexivity. Qed.

Lemma ss_merge_rev_nil_r da db ia : ss_merge_rev da db ia [] = 0.
Proof. destruct ia; reflexivity. Qed.

Definition sdesc (l : list nat) : Prop := StronglySorted (fun a b : nat => (b < a)%nat) l.

Lemma ss_merge_rev_sum da db : forall ia, sdesc ia -> forall ib, sdesc ib ->
  ss_merge_rev da db ia ib == lsum (fun i => if memb i ib then dv_get da i * dv_get db i else 0) ia.
Proof.
  unfold sdesc. induction ia as [|i ia' IHa]; intros Ha; [intros; reflexivity|].
  inversion Ha as [|? ? Ha' Halla]; subst. rewrite Forall_forall in Halla.
  induction ib as [|j w IHw]; intros Hb.
  - rewrite ss_merge_rev_nil_r. symmetry. apply lsum_zero. intros; reflexivity.
  - inversion Hb as [|? ? Hw Hallw]; subst. rewrite Forall_forall in Hallw.
    rewrite ss_merge_rev_cons. destruct (Nat.eqb_spec i j) as [E|E].
    + subst j. rewrite (IHa Ha' w Hw). rewrite lsum_cons. cbv beta. cbn [existsb].
      rewrite Nat.eqb_refl. cbn [orb]. apply Qplus_comp; [reflexivity|].
      apply lsum_ext_in. intros k Hk. apply Halla in Hk. cbn [existsb].
      destruct (Nat.eqb_spec k i); [lia | reflexivity].
    + destruct (Nat.ltb_spec j i) as [Hlt|Hge].
      * rewrite (IHa Ha' (j :: w) Hb). rewrite lsum_cons. cbv beta.
        replace (memb i (j :: w)) with false; [ring|].
        symmetry. apply memb_notIn. intros [C|C]; [lia | apply Hallw in C; lia].
      * rewrite (IHw Hw). apply lsum_ext_in. intros k Hk. cbn [existsb].
        destruct (Nat.eqb_spec k j) as [Ek|Ek]; [|reflexivity].
        exfalso. subst k. destruct Hk as [Hk|Hk]; [lia | apply Halla in Hk; lia].
Qed.

Lemma sdesc_snoc l a : sdesc l -> Forall (fun x => (a < x)%nat) l -> sdesc (l ++ [a]).
Proof.
  unfold sdesc. induction 1 as [|b l Hs IH Hall]; intros Hf; cbn [app].
  - constructor; constructor.
  - inversion Hf; subst. constructor; [apply IH; assumption|].
    apply Forall_app. split; [exact Hall | constructor; [assumption | constructor]].
Qed.

Lemma sorted_lt_rev l : StronglySorted lt l -> sdesc (rev l).
Proof.
  induction 1 as [|a l Hs IH Hall]; cbn [rev]; [constructor|]. apply sdesc_snoc; [exact IH|].
  rewrite Forall_forall in *. intros k Hk. apply in_rev in Hk. apply Hall. exact Hk.
Qed.

Lemma ss_dot_merge_spec : forall a b, ss_ok 0 a -> ss_ok 0 b -> ss_setup a = true -> ss_setup b = true ->
  StronglySorted lt (ss_idx a) -> StronglySorted lt (ss_idx b) -> ss_dim a = ss_dim b ->
  ss_dot_merge a b == ss_dot_ss a b.
Proof.
  intros a b _ Hokb _ Hsb Hsa Hsb' _. unfold ss_dot_merge.
  rewrite ss_merge_rev_sum by (apply sorted_lt_rev; assumption).
  rewrite lsum_rev, ss_dot_ss_lsum. apply lsum_ext_in. intros k _.
  destruct (memb k (rev (ss_idx b))) eqn:Hm; [reflexivity|].
  apply memb_notIn in Hm. assert (Hn : ~ In k (ss_idx b)) by (intros C; apply Hm; apply in_rev in C; exact C).
  rewrite (ss_ok0_notin b k Hokb Hsb Hn). ring.
Qed.

(* ------------------------------------------------------------------ C15: x^T A *)
Definition rows_sum (x : dvec) (rows : list svec) (j : nat) : Q :=
  lsum (fun i => dv_get x i * sv_get (nth i rows []) j) (seq 0 (length rows)).

Lemma rows_fold_length x (l : list (nat * svec)) : forall acc,
  length (fold_left (fun acc ir => dv_multadd_sv (dv_get x (fst ir)) (snd ir) acc) l acc) = length acc.
Proof.
  induction l as [|ir l IH]; intros acc; cbn [fold_left]; [reflexivity|].
  rewrite IH. apply dv_multadd_sv_length.
Qed.

Lemma rows_fold_get x (l : list (nat * svec)) : forall acc j,
  Forall (fun ir => sv_nodup (snd ir) /\ sv_in_dim (length acc) (snd ir)) l ->
  dv_get (fold_left (fun acc ir => dv_multadd_sv (dv_get x (fst ir)) (snd ir) acc) l acc) j
  == dv_get acc j + fold_right (fun ir t => dv_get x (fst ir) * sv_get (snd ir) j + t) 0 l.
Proof.
  induction l as [|ir l IH]; intros acc j H; cbn [fold_left fold_right]; [ring|].
  inversion H as [|? ? [Hnd Hdim] Hl]; subst. rewrite IH.
  - rewrite dv_multadd_sv_get by assumption. ring.
  - rewrite dv_multadd_sv_length. exact Hl.
Qed.

Lemma combine_seq_sum (g : nat -> svec -> Q) rows : forall s,
  fold_right (fun ir t => g (fst ir) (snd ir) + t) 0 (combine (seq s (length rows)) rows)
  == lsum (fun i => g i (nth (i - s) rows [])) (seq s (length rows)).
Proof.
  induction rows as [|r rows IH]; intros s; [reflexivity|].
  cbn [length seq combine fold_right fst snd]. rewrite lsum_cons. rewrite Nat.sub_diag. cbn [nth].
  apply Qplus_comp; [reflexivity|]. rewrite IH. apply lsum_ext_in. intros i Hi. apply in_seq in Hi.
  replace (i - s)%nat with (S (i - S s)) by lia. reflexivity.
Qed.

Lemma rows_tmul_length : forall n x rows, length (rows_tmul n x rows) = n.
Proof. intros n x rows. unfold rows_tmul. rewrite rows_fold_length. apply dv_zero_length. Qed.

Lemma rows_tmul_get : forall n x rows j, (forall r, In r rows -> sv_nodup r /\ sv_in_dim n r) ->
  dv_get (rows_tmul n x rows) j == rows_sum x rows j.
Proof.
  intros n x rows j H. unfold rows_tmul, rows_sum. rewrite rows_fold_get.
  - rewrite dv_get_zero. pose proof (combine_seq_sum (fun i r => dv_get x i * sv_get r j) rows 0) as E.
    cbv beta in E. rewrite E. rewrite Qplus_0_l. apply lsum_ext_in. intros i _. rewrite Nat.sub_0_r. reflexivity.
  - apply Forall_forall. intros [i r] Hir. apply in_combine_r in Hir. cbn [snd]. rewrite dv_zero_length.
    apply H. exact Hir.
Qed.

(* ------------------------------------------------------------------ multAdd(x, SVectorBase) *)
Lemma ss_ok_weaken eps eps' s : eps <= eps' -> ss_ok eps s -> ss_ok eps' s.
Proof.
  intros Hle Hok Hs. destruct (Hok Hs) as (H1 & H2 & H3). split; [exact H1|]. split; [exact H2|].
  intros i Hi Hnz. destruct (H3 i Hi Hnz) as [H|H]; [left; exact H | right].
  apply (Qle_trans _ eps); assumption.
Qed.

Lemma fold_tiny_length eps (l : list nat) : forall d,
  length (fold_left (fun d' k => if qle_bool (qabs (dv_get d' k)) eps then dv_set d' k 0 else d') l d) = length d.
Proof.
  induction l as [|j r IH]; intros d; cbn [fold_left]; [reflexivity|]. rewrite IH.
  destruct (qle_bool (qabs (dv_get d j)) eps); [apply dv_set_length | reflexivity].
Qed.

(* the adjust pass: indexed entries with |value| <= eps become exact zeros, nothing else changes *)
Lemma fold_tiny_get eps (l : list nat) : forall d k, (k < length d)%nat ->
  dv_get (fold_left (fun d' k => if qle_bool (qabs (dv_get d' k)) eps then dv_set d' k 0 else d') l d) k
  = if memb k l && qle_bool (qabs (dv_get d k)) eps then 0 else dv_get d k.
Proof.
  induction l as [|j r IH]; intros d k Hk; cbn [fold_left existsb]; [reflexivity|].
  rewrite (Nat.eqb_sym k j). destruct (qle_bool (qabs (dv_get d j)) eps) eqn:Hq.
  - rewrite IH by (rewrite dv_set_length; exact Hk). destruct (Nat.eqb_spec j k) as [E|E]; cbn [orb].
    + subst. rewrite dv_get_set_same by exact Hk. rewrite Hq. cbn [andb].
      destruct (memb k r && qle_bool (qabs 0) eps); reflexivity.
    + rewrite dv_get_set_other by exact E. reflexivity.
  - rewrite IH by exact Hk. destruct (Nat.eqb_spec j k) as [E|E]; cbn [orb]; [|reflexivity].
    subst. rewrite Hq. rewrite !andb_false_r. reflexivity.
Qed.

Definition ss_idx_nonzero (s : ssvec) : Prop := forall i, In i (ss_idx s) -> ~ dv_get (ss_val s) i == 0.

Lemma ss_multadd_step_eq eps x j y d idx marked : existsb (Nat.eqb j) marked = false ->
  ss_multadd_step eps x (j, y) (d, idx, marked) =
  if qzero (dv_get d j) then
    (if qle_bool (qabs (x * y)) eps then (d, idx, marked) else (dv_set d j (x * y), idx ++ [j], marked))
  else
    (if qle_bool (qabs (dv_get d j + x * y)) eps then (dv_set d j 0, idx, j :: marked)
     else (dv_set d j (dv_get d j + x * y), idx, filter (fun k => negb (Nat.eqb j k)) marked)).
Proof.
  intros H. cbv beta iota zeta delta [ss_multadd_step fst snd]. rewrite H. rewrite orb_false_r.
  destruct (qzero (dv_get d j)); reflexivity.
Qed.

Lemma not_tiny_nonzero eps z : 0 <= eps -> qle_bool (qabs z) eps = false -> ~ z == 0.
Proof.
  intros He Hq C. apply qle_false in Hq. apply Hq. unfold qabs. rewrite C. exact He.
Qed.

Definition ma_inv (n : nat) (r : svec) (st : dvec * list nat * list nat) : Prop :=
  let '(d, idx, marked) := st in
  length d = n /\ NoDup idx /\ Forall (fun i => (i < n)%nat) idx /\
  (forall k, In k marked -> In k (sv_indices r) /\ dv_get d k == 0) /\
  (forall k, (k < n)%nat -> ~ dv_get d k == 0 -> In k idx) /\
  (forall k, In k idx -> ~ In k marked -> ~ dv_get d k == 0).

Lemma ss_multadd_step_inv eps x n j y r st : 0 <= eps -> (j < n)%nat -> ~ In j (sv_indices r) ->
  ma_inv n r st -> ma_inv n ((j, y) :: r) (ss_multadd_step eps x (j, y) st).
Proof.
  intros He Hj Hjr. destruct st as [[d idx] marked]. intros (Hl & Hnd & Hdim & Hm & Hc & Hs).
  assert (Hjm : ~ In j marked). { intros C. apply Hm in C. tauto. }
  assert (Hjm' : existsb (Nat.eqb j) marked = false) by (apply memb_notIn; exact Hjm).
  assert (Hjl : (j < length d)%nat) by (rewrite Hl; exact Hj).
  rewrite (ss_multadd_step_eq eps x j y d idx marked Hjm').
  change (sv_indices ((j, y) :: r)) with (j :: sv_indices r).
  destruct (qzero (dv_get d j)) eqn:Hz.
  - apply qzero_true in Hz. destruct (qle_bool (qabs (x * y)) eps) eqn:Hq.
    + split; [exact Hl|]. split; [exact Hnd|]. split; [exact Hdim|]. split; [|split; [exact Hc | exact Hs]].
      intros k Hk. destruct (Hm k Hk) as [H1 H2]. split; [right; exact H1 | exact H2].
    + split; [rewrite dv_set_length; exact Hl|]. split; [|split; [|split; [|split]]].
      * apply NoDup_snoc; [|exact Hnd]. intros C. apply (Hs j C Hjm). exact Hz.
      * apply Forall_app. split; [exact Hdim | constructor; [exact Hj | constructor]].
      * intros k Hk. destruct (Hm k Hk) as [H1 H2]. split; [right; exact H1|].
        rewrite dv_get_set_other; [exact H2|]. intros E. subst. contradiction.
      * intros k Hk Hnz. apply in_or_app. destruct (Nat.eq_dec j k) as [E|E]; [right; left; exact E|].
        left. rewrite dv_get_set_other in Hnz by exact E. apply Hc; assumption.
      * intros k Hk Hkm. destruct (Nat.eq_dec j k) as [E|E].
        -- subst. rewrite dv_get_set_same by exact Hjl. apply (not_tiny_nonzero eps); assumption.
        -- rewrite dv_get_set_other by exact E. apply Hs; [|exact Hkm].
           apply in_app_or in Hk. destruct Hk as [Hk|[Hk|[]]]; [exact Hk | contradiction].
  - apply qzero_false in Hz. destruct (qle_bool (qabs (dv_get d j + x * y)) eps) eqn:Hq.
    + split; [rewrite dv_set_length; exact Hl|]. split; [exact Hnd|]. split; [exact Hdim|]. split; [|split].
      * intros k [Hk|Hk].
        -- subst. split; [left; reflexivity|]. rewrite dv_get_set_same by exact Hjl. reflexivity.
        -- destruct (Hm k Hk) as [H1 H2]. split; [right; exact H1|].
           rewrite dv_get_set_other; [exact H2|]. intros E. subst. contradiction.
      * intros k Hk Hnz. destruct (Nat.eq_dec j k) as [E|E].
        -- subst. rewrite dv_get_set_same in Hnz by exact Hjl. exfalso. apply Hnz. reflexivity.
        -- rewrite dv_get_set_other in Hnz by exact E. apply Hc; assumption.
      * intros k Hk Hkm. destruct (Nat.eq_dec j k) as [E|E]; [exfalso; apply Hkm; left; exact E|].
        rewrite dv_get_set_other by exact E. apply Hs; [exact Hk|]. intros C. apply Hkm. right. exact C.
    + split; [rewrite dv_set_length; exact Hl|]. split; [exact Hnd|]. split; [exact Hdim|]. split; [|split].
      * intros k Hk. apply filter_In in Hk. destruct Hk as [Hk Hne]. apply negb_true_iff in Hne.
        apply Nat.eqb_neq in Hne. destruct (Hm k Hk) as [H1 H2]. split; [right; exact H1|].
        rewrite dv_get_set_other by exact Hne. exact H2.
      * intros k Hk Hnz. destruct (Nat.eq_dec j k) as [E|E]; [subst; apply Hc; assumption|].
        rewrite dv_get_set_other in Hnz by exact E. apply Hc; assumption.
      * intros k Hk Hkm. destruct (Nat.eq_dec j k) as [E|E].
        -- subst. rewrite dv_get_set_same by exact Hjl. apply (not_tiny_nonzero eps); assumption.
        -- rewrite dv_get_set_other by exact E. apply Hs; [exact Hk|]. intros C. apply Hkm.
           apply filter_In. split; [exact C|]. apply negb_true_iff. apply Nat.eqb_neq. exact E.
Qed.

Lemma ss_multadd_fold_inv eps x n d0 idx0 : 0 <= eps -> ma_inv n [] (d0, idx0, []) ->
  forall v, sv_nodup v -> sv_in_dim n v ->
  ma_inv n v (fold_right (ss_multadd_step eps x) (d0, idx0, []) v).
Proof.
  intros He H0. unfold sv_nodup. induction v as [|[j y] r IH]; intros Hnd Hdim; [exact H0|].
  change (sv_indices ((j, y) :: r)) with (j :: sv_indices r) in Hnd.
  inversion Hnd as [|? ? Hnotin Hnd']; subst. inversion Hdim as [|? ? Hj Hdim']; subst. cbn [fst] in Hj.
  cbn [fold_right]. apply ss_multadd_step_inv; [exact He | exact Hj | exact Hnotin | apply IH; assumption].
Qed.

Lemma ss_multadd_init_inv s : ss_ok 0 s -> ss_setup s = true -> ss_idx_nonzero s ->
  ma_inv (ss_dim s) [] (ss_val s, ss_idx s, []).
Proof.
  intros Hok Hs Hnz. destruct (ss_ok_elim _ _ Hok Hs) as (Hnd & Hdim & Hc).
  split; [reflexivity|]. split; [exact Hnd|]. split; [exact Hdim|]. split; [intros k []|]. split.
  - intros k Hk Hk0. destruct (Hc k Hk Hk0) as [H|H]; [exact H|]. exfalso. apply Hk0. apply Qabs_le0. exact H.
  - intros k Hk _. apply Hnz. exact Hk.
Qed.

(* multAdd keeps the vector consistent when, before the call, every non-zero is indexed and every indexed
   value is non-zero (the state setup() produces); ss_ok eps alone is not enough, see the two refutations.
   The result again has every non-zero indexed (ss_ok 0), whatever eps is. *)
Lemma ss_multadd_sv_ok0 : forall eps x v s, 0 <= eps -> ss_ok 0 s -> ss_idx_nonzero s ->
  sv_nodup v -> sv_in_dim (ss_dim s) v -> ss_ok 0 (ss_multadd_sv eps x v s).
Proof.
  intros eps x v s He Hok Hnz Hnd Hdim. unfold ss_multadd_sv.
  destruct (ss_setup s) eqn:Hs; [|apply ss_ok_unsetup].
  pose proof (ss_multadd_fold_inv eps x (ss_dim s) (ss_val s) (ss_idx s) He
                (ss_multadd_init_inv s Hok Hs Hnz) v Hnd Hdim) as Hinv.
  remember (fold_right (ss_multadd_step eps x) (ss_val s, ss_idx s, []) v) as st eqn:Est.
  destruct st as [[d idx] marked]. destruct Hinv as (Hl & Hnd' & Hdim' & Hm & Hc & Hst).
  destruct marked as [|m ms].
  - apply ss_ok_mk; [exact Hnd' | rewrite Hl; exact Hdim' |].
    intros k Hk Hk0. left. apply Hc; [rewrite <- Hl; exact Hk | exact Hk0].
  - apply ss_ok_mk.
    + apply NoDup_filter'. exact Hnd'.
    + rewrite fold_tiny_length, Hl. rewrite Forall_forall in *. intros k Hk. apply filter_In in Hk. apply Hdim'. tauto.
    + intros k Hk Hk0. rewrite fold_tiny_length in Hk. rewrite fold_tiny_get in Hk0 by exact Hk. left.
      destruct (memb k idx && qle_bool (qabs (dv_get d k)) eps) eqn:Hcnd; [exfalso; apply Hk0; reflexivity|].
      assert (Hin : In k idx) by (apply Hc; [rewrite <- Hl; exact Hk | exact Hk0]).
      apply filter_In. split; [exact Hin|]. apply memb_In in Hin. rewrite Hin in Hcnd. cbn [andb] in Hcnd.
      rewrite Hcnd. reflexivity.
Qed.

Lemma ss_multadd_sv_ok : forall eps x v s, 0 <= eps -> ss_ok 0 s -> ss_idx_nonzero s ->
  sv_nodup v -> sv_in_dim (ss_dim s) v -> ss_ok eps (ss_multadd_sv eps x v s).
Proof.
  intros eps x v s He Hok Hnz Hnd Hdim. apply (ss_ok_weaken 0 eps); [exact He|].
  apply ss_multadd_sv_ok0; assumption.
Qed.

Lemma ss_multadd_sv_idx_nonzero : forall eps x v s, 0 <= eps -> ss_ok 0 s -> ss_setup s = true ->
  ss_idx_nonzero s -> sv_nodup v -> sv_in_dim (ss_dim s) v -> ss_idx_nonzero (ss_multadd_sv eps x v s).
Proof.
  intros eps x v s He Hok Hs Hnz Hnd Hdim. unfold ss_multadd_sv. rewrite Hs.
  pose proof (ss_multadd_fold_inv eps x (ss_dim s) (ss_val s) (ss_idx s) He
                (ss_multadd_init_inv s Hok Hs Hnz) v Hnd Hdim) as Hinv.
  remember (fold_right (ss_multadd_step eps x) (ss_val s, ss_idx s, []) v) as st eqn:Est.
  destruct st as [[d idx] marked]. destruct Hinv as (Hl & Hnd' & Hdim' & Hm & Hc & Hst).
  destruct marked as [|m ms]; intros k Hk; cbn [ss_idx ss_val] in *.
  - apply Hst; [exact Hk | intros []].
  - apply filter_In in Hk. destruct Hk as [Hin Hk]. apply negb_true_iff in Hk.
    rewrite Forall_forall in Hdim'. rewrite fold_tiny_get by (rewrite Hl; apply Hdim'; exact Hin).
    rewrite Hk, andb_false_r. apply (not_tiny_nonzero eps); assumption.
Qed.

(* values: for eps = 0 multAdd is the dense operation *)
Lemma ss_multadd_fold_val x (d0 : dvec) (idx0 : list nat) : forall v, sv_nodup v -> sv_in_dim (length d0) v ->
  length (fst (fst (fold_right (ss_multadd_step 0 x) (d0, idx0, []) v))) = length d0 /\
  (forall k, In k (snd (fold_right (ss_multadd_step 0 x) (d0, idx0, []) v)) -> In k (sv_indices v)) /\
  (forall k, dv_get (fst (fst (fold_right (ss_multadd_step 0 x) (d0, idx0, []) v))) k
             == dv_get d0 k + x * sv_get v k).
Proof.
  unfold sv_nodup. induction v as [|[j y] r IH]; intros Hnd Hdim.
  - cbn [fold_right fst snd sv_get]. split; [reflexivity|]. split; [intros k []|]. intros k. ring.
  - change (sv_indices ((j, y) :: r)) with (j :: sv_indices r) in *.
    inversion Hnd as [|? ? Hnotin Hnd']; subst. inversion Hdim as [|? ? Hj Hdim']; subst. cbn [fst] in Hj.
    destruct (IH Hnd' Hdim') as (Hl & Hm & Hv). clear IH. cbn [fold_right].
    remember (fold_right (ss_multadd_step 0 x) (d0, idx0, []) r) as st eqn:Est.
    destruct st as [[d idx] marked]. cbn [fst snd] in Hl, Hm, Hv.
    assert (Hjm' : existsb (Nat.eqb j) marked = false).
    { apply memb_notIn. intros C. apply Hm in C. contradiction. }
    assert (Hjl : (j < length d)%nat) by (rewrite Hl; exact Hj).
    assert (H1 : dv_get d j == dv_get d0 j) by (rewrite Hv, (sv_get_notin r j Hnotin); ring).
    rewrite (ss_multadd_step_eq 0 x j y d idx marked Hjm').
    destruct (qzero (dv_get d j)) eqn:Hz.
    + apply qzero_true in Hz. destruct (qle_bool (qabs (x * y)) 0) eqn:Hq; cbn [fst snd].
      * apply qle_true in Hq. apply Qabs_le0 in Hq.
        split; [exact Hl|]. split; [intros k Hk; right; apply Hm; exact Hk|].
        intros k. cbn [sv_get]. destruct (Nat.eqb_spec j k) as [E|E]; [|apply Hv].
        subst k. rewrite Hq. rewrite H1. ring.
      * split; [rewrite dv_set_length; exact Hl|]. split; [intros k Hk; right; apply Hm; exact Hk|].
        intros k. cbn [sv_get]. destruct (Nat.eqb_spec j k) as [E|E].
        -- subst k. rewrite dv_get_set_same by exact Hjl. rewrite <- H1, Hz. ring.
        -- rewrite dv_get_set_other by exact E. apply Hv.
    + destruct (qle_bool (qabs (dv_get d j + x * y)) 0) eqn:Hq; cbn [fst snd].
      * apply qle_true in Hq. apply Qabs_le0 in Hq.
        split; [rewrite dv_set_length; exact Hl|]. split.
        { intros k [Hk|Hk]; [left; exact Hk | right; apply Hm; exact Hk]. }
        intros k. cbn [sv_get]. destruct (Nat.eqb_spec j k) as [E|E].
        -- subst k. rewrite dv_get_set_same by exact Hjl. rewrite <- H1. symmetry. exact Hq.
        -- rewrite dv_get_set_other by exact E. apply Hv.
      * split; [rewrite dv_set_length; exact Hl|]. split.
        { intros k Hk. apply filter_In in Hk. right. apply Hm. tauto. }
        intros k. cbn [sv_get]. destruct (Nat.eqb_spec j k) as [E|E].
        -- subst k. rewrite dv_get_set_same by exact Hjl. rewrite H1. reflexivity.
        -- rewrite dv_get_set_other by exact E. apply Hv.
Qed.

Lemma ss_multadd_sv_val0 : forall x v s i, ss_ok 0 s -> sv_nodup v -> sv_in_dim (ss_dim s) v ->
  dv_get (ss_val (ss_multadd_sv 0 x v s)) i == dv_get (ss_val s) i + x * sv_get v i.
Proof.
  intros x v s i _ Hnd Hdim. unfold ss_multadd_sv. destruct (ss_setup s).
  - destruct (ss_multadd_fold_val x (ss_val s) (ss_idx s) v Hnd Hdim) as (_ & _ & Hv).
    specialize (Hv i).
    remember (fold_right (ss_multadd_step 0 x) (ss_val s, ss_idx s, []) v) as st eqn:Est.
    destruct st as [[d idx] marked]. cbn [fst snd] in Hv. destruct marked as [|m ms]; [exact Hv|].
    cbn [ss_val]. destruct (Nat.lt_ge_cases i (length d)) as [Hi|Hi].
    + rewrite fold_tiny_get by exact Hi.
      destruct (memb i idx && qle_bool (qabs (dv_get d i)) 0) eqn:Hcnd; [|exact Hv].
      apply andb_true_iff in Hcnd. destruct Hcnd as [_ Hq]. apply qle_true in Hq. apply Qabs_le0 in Hq.
      rewrite <- Hv. symmetry. exact Hq.
    + rewrite dv_get_overflow by (rewrite fold_tiny_length; exact Hi).
      rewrite dv_get_overflow in Hv by exact Hi. exact Hv.
  - cbn [ss_val]. apply dv_multadd_sv_get; assumption.
Qed.

Lemma ss_multadd_sv_dim0 x v s : sv_nodup v -> sv_in_dim (ss_dim s) v -> ss_dim (ss_multadd_sv 0 x v s) = ss_dim s.
Proof.
  intros Hnd Hdim. unfold ss_multadd_sv, ss_dim. destruct (ss_setup s).
  - destruct (ss_multadd_fold_val x (ss_val s) (ss_idx s) v Hnd Hdim) as (Hl & _ & _).
    remember (fold_right (ss_multadd_step 0 x) (ss_val s, ss_idx s, []) v) as st eqn:Est.
    destruct st as [[d idx] marked]. cbn [fst snd] in Hl. destruct marked as [|m ms]; [exact Hl|].
    cbn [ss_val]. rewrite fold_tiny_length. exact Hl.
  - cbn [ss_val]. apply dv_multadd_sv_length.
Qed.

(* ss_ok eps alone is not kept by multAdd: a tiny non-indexed value (setValue(i, tiny) leaves one) grows
   large without being indexed *)
Example ss_multadd_sv_ok_eps_refuted :
  exists eps x v s, 0 <= eps /\ ss_ok eps s /\ sv_nodup v /\ sv_in_dim (ss_dim s) v /\
                    ~ ss_ok eps (ss_multadd_sv eps x v s).
Proof.
  exists 1, 1, [(0%nat, 1)], (mkSS [1 # 2] [] true).
  split; [discriminate|]. split; [|split; [|split]].
  - intros _. split; [constructor|]. split; [constructor|]. intros i Hi _. right.
    cbn in Hi. assert (i = 0%nat) by lia. subst. discriminate.
  - repeat constructor. intros [].
  - repeat constructor.
  - intros H. destruct (H eq_refl) as (_ & _ & Hc). destruct (Hc 0%nat) as [[]|C].
    + cbn. lia.
    + vm_compute. discriminate.
    + vm_compute in C. apply C. reflexivity.
Qed.

(* an indexed exact zero (add(i, 0) leaves one) is indexed a second time *)
Example ss_multadd_sv_ok_zero_refuted :
  exists x v s, ss_ok 0 s /\ sv_nodup v /\ sv_in_dim (ss_dim s) v /\ ~ ss_ok 0 (ss_multadd_sv 0 x v s).
Proof.
  exists 1, [(0%nat, 1)], (mkSS [0] [0%nat] true).
  split; [|split; [|split]].
  - intros _. split; [repeat constructor; intros []|]. split; [repeat constructor|].
    intros i Hi _. left. cbn in Hi. assert (i = 0%nat) by lia. subst. left. reflexivity.
  - repeat constructor. intros [].
  - repeat constructor.
  - intros H. destruct (H eq_refl) as (Hnd & _ & _). vm_compute in Hnd.
    inversion Hnd as [|? ? Hn _]; subst. apply Hn. left. reflexivity.
Qed.

(* ------------------------------------------------------------------ small extras *)
Lemma ss_new_ok eps n : ss_ok eps (ss_new n).
Proof.
  unfold ss_new. apply ss_ok_mk; [constructor | constructor |].
  intros i _ Hnz. exfalso. apply Hnz. rewrite dv_get_zero. reflexivity.
Qed.

(* ------------------------------------------------------------------ SVectorBase::remove(n, m) *)
Lemma skipn_app_len {A} (a r : list A) k : skipn (length a + k) (a ++ r) = skipn k r.
Proof. induction a as [|x a IH]; cbn; auto. Qed.

Lemma firstn_app_exact {A} (a b : list A) : firstn (length a) (a ++ b) = a.
Proof. induction a as [|x a IH]; cbn; [reflexivity | rewrite IH; reflexivity]. Qed.

Lemma sv_remove_range_app (A B C : svec) m : (m + 1 = length A + length B)%nat ->
  sv_remove_range (length A) m (A ++ B ++ C) =
  A ++ (if Nat.leb (length B) (length C)
        then rev (skipn (length C - length B) C) ++ firstn (length C - length B) C else rev C).
Proof.
  intros Hm. unfold sv_remove_range. cbv zeta. rewrite !app_length.
  replace (m + 1 - length A)%nat with (length B) by lia.
  replace (length A + (length B + length C) - (m + 1))%nat with (length C) by lia.
  rewrite firstn_app_exact. f_equal. destruct (Nat.leb_spec (length B) (length C)) as [Hle|Hgt].
  - rewrite Nat.min_l by exact Hle.
    replace (length A + (length B + length C) - length B - length A - length B)%nat
      with (length C - length B)%nat by lia.
    replace (length A + (length B + length C) - length B)%nat
      with (length A + (length B + (length C - length B)))%nat by lia.
    replace (skipn (length A + length B) (A ++ B ++ C)) with (skipn (length A + (length B + 0)) (A ++ B ++ C))
      by (f_equal; lia).
    rewrite !skipn_app_len. reflexivity.
  - rewrite Nat.min_r by lia.
    replace (length A + (length B + length C) - length C)%nat with (length A + (length B + 0))%nat by lia.
    rewrite !skipn_app_len. cbn [skipn].
    replace (length A + (length B + length C) - length B - length A - length C)%nat with 0%nat by lia.
    cbn [firstn]. apply app_nil_r.
Qed.

Lemma sv_remove_range_abc (A B C : svec) m : (m + 1 = length A + length B)%nat ->
  Permutation (sv_remove_range (length A) m (A ++ B ++ C) ++ B) (A ++ B ++ C).
Proof.
  intros Hm. rewrite sv_remove_range_app by exact Hm.
  set (X := if Nat.leb (length B) (length C)
            then rev (skipn (length C - length B) C) ++ firstn (length C - length B) C else rev C).
  assert (HX : Permutation X C).
  { unfold X. destruct (Nat.leb (length B) (length C)); [|symmetry; apply Permutation_rev].
    rewrite <- Permutation_rev. rewrite Permutation_app_comm. rewrite firstn_skipn. reflexivity. }
  rewrite <- app_assoc. apply Permutation_app_head. rewrite HX. apply Permutation_app_comm.
Qed.

Lemma sv_remove_range_spec : forall n m v, (n <= m)%nat -> (m < length v)%nat ->
  Permutation (sv_remove_range n m v ++ firstn (m + 1 - n) (skipn n v)) v /\
  length (sv_remove_range n m v) = (length v - (m + 1 - n))%nat.
Proof.
  intros n m v Hn Hm.
  set (A := firstn n v). set (B := firstn (m + 1 - n) (skipn n v)). set (C := skipn (m + 1 - n) (skipn n v)).
  assert (Ev : v = A ++ B ++ C) by (unfold A, B, C; rewrite !firstn_skipn; reflexivity).
  assert (HA : length A = n) by (unfold A; rewrite firstn_length; lia).
  assert (HB : length B = (m + 1 - n)%nat) by (unfold B; rewrite firstn_length, skipn_length; lia).
  clearbody A B C. subst v. subst n.
  assert (HP : Permutation (sv_remove_range (length A) m (A ++ B ++ C) ++ B) (A ++ B ++ C))
    by (apply sv_remove_range_abc; lia).
  split; [exact HP|]. apply Permutation_length in HP. rewrite !app_length in *. lia.
Qed.

(* ------------------------------------------------------------------ SSVectorBase::operator=(SSVectorBase) *)
Lemma fold_right_set_length (g : nat -> Q) (l : list nat) : forall d,
  length (fold_right (fun i d => dv_set d i (g i)) d l) = length d.
Proof. induction l as [|j r IH]; intros d; cbn [fold_right]; [reflexivity|]. rewrite dv_set_length. apply IH. Qed.

Lemma fold_right_set_get (g : nat -> Q) (l : list nat) : forall d k, (k < length d)%nat ->
  dv_get (fold_right (fun i d => dv_set d i (g i)) d l) k = if memb k l then g k else dv_get d k.
Proof.
  induction l as [|j r IH]; intros d k Hk; cbn [fold_right existsb]; [reflexivity|].
  rewrite (Nat.eqb_sym k j). destruct (Nat.eqb_spec j k) as [E|E]; cbn [orb].
  - subst. apply dv_get_set_same. rewrite fold_right_set_length. exact Hk.
  - rewrite dv_get_set_other by exact E. apply IH. exact Hk.
Qed.

Lemma fold_left_set_length (g : nat -> Q) (l : list nat) : forall d,
  length (fold_left (fun d i => dv_set d i (g i)) l d) = length d.
Proof. induction l as [|j r IH]; intros d; cbn [fold_left]; [reflexivity|]. rewrite IH. apply dv_set_length. Qed.

Lemma fold_left_set_get (g : nat -> Q) (l : list nat) : forall d k, (k < length d)%nat ->
  dv_get (fold_left (fun d i => dv_set d i (g i)) l d) k = if memb k l then g k else dv_get d k.
Proof.
  induction l as [|j r IH]; intros d k Hk; cbn [fold_left existsb]; [reflexivity|].
  rewrite IH by (rewrite dv_set_length; exact Hk). rewrite (Nat.eqb_sym k j).
  destruct (Nat.eqb_spec j k) as [E|E]; cbn [orb].
  - subst. rewrite dv_get_set_same by exact Hk. destruct (memb k r); reflexivity.
  - rewrite dv_get_set_other by exact E. reflexivity.
Qed.

Lemma ss_assign_ss_dim eps rhs this : ss_dim (ss_assign_ss eps rhs this) = ss_dim rhs.
Proof.
  unfold ss_assign_ss, ss_dim. destruct (ss_setup rhs); cbn [ss_val].
  - rewrite fold_right_set_length. apply dv_redim_length.
  - rewrite fold_left_set_length. apply dv_redim_length.
Qed.

Lemma ss_assign_ss_setup eps rhs this : ss_setup (ss_assign_ss eps rhs this) = true.
Proof. unfold ss_assign_ss. destruct (ss_setup rhs); reflexivity. Qed.

(* the dense meaning for eps = 0; "ss_ok 0 this" is what makes clear() really zero the left operand *)
Lemma ss_assign_ss_val0 : forall rhs this, ss_ok 0 rhs -> ss_ok 0 this ->
  dv_eq (ss_val (ss_assign_ss 0 rhs this)) (ss_val rhs).
Proof.
  intros rhs this Hr Ht. apply dv_eq_of_get.
  { fold (ss_dim (ss_assign_ss 0 rhs this)). apply ss_assign_ss_dim. }
  intros k Hk. fold (ss_dim (ss_assign_ss 0 rhs this)) in Hk. rewrite ss_assign_ss_dim in Hk.
  assert (Hbase : dv_get (dv_redim (ss_dim rhs) (ss_val (ss_clear this))) k == 0).
  { rewrite dv_redim_get. destruct (Nat.ltb k (ss_dim rhs)); [apply ss_clear_val; exact Ht | reflexivity]. }
  unfold ss_assign_ss. destruct (ss_setup rhs) eqn:Hs; cbn [ss_val].
  - rewrite fold_right_set_get by (rewrite dv_redim_length; exact Hk).
    destruct (memb k (ss_idx rhs)) eqn:Hm; [reflexivity|]. apply memb_notIn in Hm.
    rewrite Hbase. symmetry. apply ss_ok0_notin; assumption.
  - rewrite fold_left_set_get by (rewrite dv_redim_length; exact Hk).
    match goal with |- (if ?c then _ else _) == _ => destruct c eqn:Hm end; [reflexivity|].
    rewrite Hbase. apply memb_notIn in Hm. symmetry.
    destruct (qle_bool (qabs (dv_get (ss_val rhs) k)) 0) eqn:Hq.
    + apply qle_true in Hq. apply Qabs_le0. exact Hq.
    + exfalso. apply Hm. apply filter_In. split; [apply in_seq; lia | rewrite Hq; reflexivity].
Qed.

Lemma ss_assign_ss_ok : forall eps rhs this, ss_ok eps rhs -> ss_ok eps this -> ss_ok eps (ss_assign_ss eps rhs this).
Proof.
  intros eps rhs this Hr Ht.
  assert (Hbase : forall k, ~ dv_get (dv_redim (ss_dim rhs) (ss_val (ss_clear this))) k == 0 ->
                            Qabs (dv_get (dv_redim (ss_dim rhs) (ss_val (ss_clear this))) k) <= eps).
  { intros k Hnz. rewrite dv_redim_get in *. destruct (Nat.ltb k (ss_dim rhs)); [|exfalso; apply Hnz; reflexivity].
    destruct (ss_ok_elim _ _ (ss_clear_ok eps this Ht) (ss_clear_setup this)) as (_ & _ & Hc).
    rewrite ss_clear_idx in Hc.
    destruct (Nat.lt_ge_cases k (length (ss_val (ss_clear this)))) as [Hk|Hk].
    - destruct (Hc k Hk Hnz) as [[]|H]. exact H.
    - exfalso. apply Hnz. rewrite dv_get_overflow by exact Hk. reflexivity. }
  unfold ss_assign_ss. destruct (ss_setup rhs) eqn:Hs.
  - destruct (ss_ok_elim _ _ Hr Hs) as (Hnd & Hdim & _).
    apply ss_ok_mk; [exact Hnd | rewrite fold_right_set_length, dv_redim_length; exact Hdim |].
    intros k Hk Hnz. rewrite fold_right_set_length in Hk. rewrite fold_right_set_get in * by exact Hk.
    destruct (memb k (ss_idx rhs)) eqn:Hm; [left; apply memb_In; exact Hm | right; apply Hbase; exact Hnz].
  - apply ss_ok_mk.
    + apply NoDup_filter'. apply seq_NoDup.
    + rewrite fold_left_set_length, dv_redim_length. apply Forall_forall. intros k Hk.
      apply filter_In in Hk. destruct Hk as [Hk _]. apply in_seq in Hk. lia.
    + intros k Hk Hnz. rewrite fold_left_set_length in Hk. rewrite fold_left_set_get in * by exact Hk.
      match type of Hnz with ~ (if ?c then _ else _) == _ => destruct c eqn:Hm end;
        [left; apply memb_In; exact Hm | right; apply Hbase; exact Hnz].
Qed.
