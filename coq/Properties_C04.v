(* C04 - Every reported basis is valid, regular, consistent across queries and reusable.
   Property theorems only (descriptor logic); each is closed by [exact] of a lemma of BasisModel_Proofs.v.
   Regularity of the basis matrix and warm-start equality are validated per run by checks/C04.py (not theorems). *)
From Coq Require Import QArith Bool List ZArith.
From SV Require Import BasisModel BasisModel_Proofs BasisChangeModel BasisChange_Proofs.
Import ListNotations.
Local Open Scope nat_scope.

(* loadDesc turns every descriptor of the right dimensions into a valid one (repair rules + fall-back to the
   initial slack basis) ... *)
Theorem C04_loadDesc_valid : forall lp d,
  List.length (d_rows d) = nRows lp -> List.length (d_cols d) = nCols lp ->
  isDescValid lp (loadDesc lp d) = true.
Proof. exact loadDesc_valid. Qed.
Print Assumptions C04_loadDesc_valid.

(* ... is idempotent ... *)
Theorem C04_loadDesc_idem : forall lp d, loadDesc lp (loadDesc lp d) = loadDesc lp d.
Proof. exact loadDesc_idem. Qed.
Print Assumptions C04_loadDesc_idem.

(* ... and takes the same decision in row representation (P_* entries = nCols) as in column representation
   (D_* entries = nRows). *)
Theorem C04_loadDesc_representation_independent : forall lp d,
  List.length (d_rows d) = nRows lp -> List.length (d_cols d) = nCols lp ->
  loadDesc_rowrep lp d = loadDesc lp d.
Proof. exact rowrep_consistency. Qed.
Print Assumptions C04_loadDesc_representation_independent.

(* What isBasisValid accepts: exactly one basic variable per row, no UNDEFINED, no non-basic variable at an infinite
   bound, FIXED only with equal bounds. *)
Theorem C04_valid_basis_count : forall lp rows cols, isBasisValid lp rows cols = true ->
  List.length rows = nRows lp /\ List.length cols = nCols lp /\
  count_basic rows + count_basic cols = nRows lp /\
  Forall2 basis_entry_ok (b_rows lp) rows /\ Forall2 basis_entry_ok (b_cols lp) cols.
Proof. exact valid_basis_count. Qed.
Print Assumptions C04_valid_basis_count.

(* A valid descriptor is reported as a valid basis. *)
Theorem C04_valid_descriptor_reported_valid : forall lp d, isDescValid lp d = true ->
  isBasisValid lp (fst (getBasis d)) (snd (getBasis d)) = true.
Proof. exact descvalid_basisvalid. Qed.
Print Assumptions C04_valid_descriptor_reported_valid.

(* Whatever status arrays (of the right lengths) are passed to setBasis while the LP is in the solver: if the call
   returns (no UNDEFINED entry), the basis reported afterwards is valid. *)
Theorem C04_setBasis_reports_valid : forall lp rows cols d,
  List.length rows = nRows lp -> List.length cols = nCols lp ->
  setBasis lp rows cols = Some d ->
  isBasisValid lp (fst (getBasis d)) (snd (getBasis d)) = true.
Proof. exact setBasis_reports_valid. Qed.
Print Assumptions C04_setBasis_reports_valid.

(* Setting a valid basis (ZERO only on free variables) and reading it back returns it unchanged up to marking
   non-basic variables with equal bounds FIXED. *)
Theorem C04_set_get_roundtrip : forall lp rows cols,
  isBasisValid lp rows cols = true -> zero_only_free lp rows cols = true ->
  option_map getBasis (setBasis lp rows cols) = Some (mark_fixed lp rows cols).
Proof. exact set_get_roundtrip. Qed.
Print Assumptions C04_set_get_roundtrip.

(* basisRowStatus / basisColStatus, getBasis and getBasisInd describe the same basic set in all three storage
   branches of SoPlexBase (no basis; arrays outside the solver; descriptor in the solver). *)
Theorem C04_queries_agree : forall lp st, store_wf lp st ->
  (forall i, i < nRows lp -> sp_rowStatus lp st i = nth i (fst (sp_getBasis lp st)) UNDEFINED) /\
  (forall j, j < nCols lp -> sp_colStatus lp st j = nth j (snd (sp_getBasis lp st)) UNDEFINED) /\
  sp_getBasisInd lp st = ind_of (fst (sp_getBasis lp st)) (snd (sp_getBasis lp st)).
Proof. exact queries_agree. Qed.
Print Assumptions C04_queries_agree.

Theorem C04_basis_index_count : forall rows cols,
  List.length (ind_of rows cols) = count_basic rows + count_basic cols.
Proof. exact ind_of_length. Qed.
Print Assumptions C04_basis_index_count.

(* ---- refutations on the faithful model (each witness is replayed on the implementation by checks/C04.py) ---- *)

Definition ex_lp : blp :=
  mkBlp [mkVar None (Some 10%Q) 0%Q; mkVar (Some 2%Q) (Some 8%Q) 0%Q]
        [mkVar (Some 0%Q) (Some 4%Q) (-1)%Q; mkVar None (Some 5%Q) 2%Q; mkVar None None 0%Q].

(* SoPlexBase::setBasis stores the arrays unvalidated when the LP is held outside the solver: hasBasis() is true
   although the reported basis has three basic variables for two rows. *)
Theorem C04_hasBasis_valid_outside_refuted : exists lp rows cols st,
  sp_setBasis lp false rows cols = Some st /\ sp_hasBasis st = true /\
  isBasisValid lp (fst (sp_getBasis lp st)) (snd (sp_getBasis lp st)) = false.
Proof.
  exists ex_lp, [ON_UPPER; ON_UPPER], [BASIC; BASIC; BASIC]. eexists. vm_compute. repeat split.
Qed.
Print Assumptions C04_hasBasis_valid_outside_refuted.

(* SPxSolverBase::isBasisValid compares the number of BASIC entries with dim(), which is the number of columns in
   row representation: there it rejects a valid basis and accepts one with nCols basic variables. *)
Theorem C04_isBasisValid_rowrep_refuted : exists lp rows cols rows' cols',
  isBasisValid lp rows cols = true /\ isBasisValid_rep true lp rows cols = false /\
  isBasisValid_rep true lp rows' cols' = true /\ count_basic rows' + count_basic cols' <> nRows lp.
Proof.
  exists ex_lp, [BASIC; ON_UPPER], [ON_LOWER; ON_UPPER; BASIC], [BASIC; BASIC], [ON_LOWER; ON_UPPER; BASIC].
  vm_compute. repeat split. discriminate.
Qed.
Print Assumptions C04_isBasisValid_rowrep_refuted.

(* ---- modifications that keep the basis: several rows / columns removed at once (removedRows / removedCols) ---- *)
(* the in-place loop "stat[perm[i]] = stat[i] for increasing i", cut to the new size, leaves the survivors in order -
   for arrays of every length and every set of removed entries *)
Theorem C04_compaction_keeps_survivors_in_order : forall (A : Type) (d : A) arr mask,
  length arr = length mask -> compact d arr mask = keep arr mask.
Proof. exact @compact_is_keep. Qed.
Print Assumptions C04_compaction_keeps_survivors_in_order.

(* if the basis is kept after removing rows, the column statuses are untouched, the row statuses are the survivors' and
   the number of basic variables is the new number of rows *)
Theorem C04_removed_rows_keeps_a_basis : forall d mask d' m,
  length (d_rows d) = length mask -> count_dual (d_rows d) + count_dual (d_cols d) = m -> length (d_rows d) = m ->
  removed_rows d mask = Some d' ->
  d_rows d' = keep (d_rows d) mask /\ d_cols d' = d_cols d /\
  length (d_rows d') = survivors mask /\ count_dual (d_rows d') + count_dual (d_cols d') = survivors mask.
Proof. exact removed_rows_spec. Qed.
Print Assumptions C04_removed_rows_keeps_a_basis.

Theorem C04_removed_cols_keeps_a_basis : forall d mask d' m,
  length (d_cols d) = length mask -> count_dual (d_rows d) + count_dual (d_cols d) = m ->
  removed_cols d mask = Some d' ->
  d_cols d' = keep (d_cols d) mask /\ d_rows d' = d_rows d /\
  length (d_cols d') = survivors mask /\ count_dual (d_rows d') + count_dual (d_cols d') = m.
Proof. exact removed_cols_spec. Qed.
Print Assumptions C04_removed_cols_keeps_a_basis.

(* the loop has to run over the OLD number of entries: run to the new (shrunk) number it misses a survivor of the tail *)
Theorem C04_short_compaction_loop_refuted :
  compact_short D_UNDEFINED [D_ON_LOWER; D_ON_LOWER; P_ON_UPPER] [true; false; false] <> keep [D_ON_LOWER; D_ON_LOWER; P_ON_UPPER] [true; false; false].
Proof. exact short_loop_refuted. Qed.
Print Assumptions C04_short_compaction_loop_refuted.

(* rows / columns appended with a live basis (addedRows / addedCols): the new rows enter basic, the new columns non-basic,
   and a valid descriptor stays valid for the extended LP - for every LP, every valid descriptor and any number of new rows *)
Theorem C04_added_rows_keep_descriptor_valid : forall lp newrows d, isDescValid lp d = true ->
  isDescValid (mkBlp (b_rows lp ++ newrows) (b_cols lp)) (added_rows (mkBlp (b_rows lp ++ newrows) (b_cols lp)) d) = true.
Proof. exact added_rows_valid. Qed.
Print Assumptions C04_added_rows_keep_descriptor_valid.

Theorem C04_added_cols_keep_descriptor_valid : forall lp newcols d, isDescValid lp d = true ->
  isDescValid (mkBlp (b_rows lp) (b_cols lp ++ newcols)) (added_cols (mkBlp (b_rows lp) (b_cols lp ++ newcols)) d) = true.
Proof. exact added_cols_valid. Qed.
Print Assumptions C04_added_cols_keep_descriptor_valid.

Example C04_ex_removed_rows :
  removed_rows (mkDesc [D_ON_LOWER; P_ON_UPPER; D_ON_UPPER; P_ON_LOWER] [D_ON_LOWER; P_FREE]) [true; false; true; false]
    = Some (mkDesc [P_ON_UPPER; P_ON_LOWER] [D_ON_LOWER; P_FREE]) /\
  removed_rows (mkDesc [D_ON_LOWER; P_ON_UPPER] [D_ON_LOWER; P_FREE]) [false; true] = None /\
  removed_cols (mkDesc [D_ON_LOWER; P_ON_UPPER] [D_ON_LOWER; P_FREE]) [false; true] = Some (mkDesc [D_ON_LOWER; P_ON_UPPER] [D_ON_LOWER]).
Proof. vm_compute. repeat split. Qed.

(* ---- non-vacuity ---- *)
Example C04_ex_valid_basis : isBasisValid ex_lp [BASIC; ON_UPPER] [ON_LOWER; ON_UPPER; BASIC] = true
  /\ zero_only_free ex_lp [BASIC; ON_UPPER] [ON_LOWER; ON_UPPER; BASIC] = true.
Proof. vm_compute. split; reflexivity. Qed.

Example C04_ex_repair :
  loadDesc ex_lp (mkDesc [D_FREE; P_FREE] [P_FREE; D_ON_BOTH; P_ON_LOWER]) = mkDesc [D_ON_LOWER; P_ON_LOWER] [P_ON_LOWER; D_ON_LOWER; P_FREE]
  /\ loadDesc ex_lp (mkDesc [P_FREE; P_FREE] [P_FREE; P_FREE; P_FREE]) = initialDesc ex_lp.
Proof. vm_compute. split; reflexivity. Qed.

Example C04_ex_wf_store : store_wf ex_lp (Inside (initialDesc ex_lp)) /\ store_wf ex_lp (Outside [BASIC; BASIC] [ON_LOWER; ON_UPPER; ZERO]).
Proof. vm_compute. repeat split. Qed.
