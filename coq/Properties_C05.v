(* C05 - Basis-inverse and basis-multiply queries agree with the user's basis matrix.
   Property theorems only (each closed by [exact] of a lemma of BasisInv_Proofs.v and followed by its assumption report).

   Reading guide.  [basis_matrix p bind] is the user's matrix B (columns: LP column bind_k, or the unit vector of row
   -1-bind_k).  [scale r c p] is the LP stored in the solver under power-of-two scaling with row exponents r and column
   exponents c.  [mulv B x] is B x, [vmul x B] is x^T B, [veq] is equality of zero-padded vectors.  The *_colrep / *_rowrep
   functions are the faithful models of the scaling glue in src/soplex.hpp (argument [true] = the branch
   "unscale && isScaled()"); the LU solves are oracle functions [solve] / [coSolve], assumed exact for the matrix the
   solver holds.  All statements hold for matrices, exponent vectors and index lists of every size. *)
From Coq Require Import QArith Qabs List ZArith Bool.
From SV Require Import Vec BasisInvModel BasisInv_Proofs.
Import ListNotations.
Local Open Scope Q_scope.

(* ---- the scaled basis matrix is D_r * B * D_bind ---- *)
Theorem C05_scaled_basis_factorisation :
  forall (r c : list Z) (p : lpmat) (bind : list Z),
    Forall2 (Forall2 Qeq) (basis_matrix (scale r c p) bind)
            (cscale (dbind r c bind) (rscale r (basis_matrix p bind))).
Proof. exact scaled_basis_factorisation. Qed.
Print Assumptions C05_scaled_basis_factorisation.

(* ---- COLUMN representation: exact inner solve => exact answer for the USER's matrix ---- *)
Theorem C05_binv_row_unscale :
  forall (p : lpmat) (r c bind : list Z) (coSolve : vec -> vec),
    (forall b, length b = lm_rows p -> veq (vmul (coSolve b) (basis_matrix (scale r c p) bind)) b) ->
    length bind = lm_rows p ->
    forall k, (k < lm_rows p)%nat ->
      veq (vmul (binv_row_colrep coSolve true r c (lm_rows p) bind k) (basis_matrix p bind)) (unit_vec (lm_rows p) k).
Proof. exact binv_row_unscale. Qed.
Print Assumptions C05_binv_row_unscale.

Theorem C05_binv_col_unscale :
  forall (p : lpmat) (r c bind : list Z) (solve : vec -> vec),
    (forall b, length b = lm_rows p -> veq (mulv (basis_matrix (scale r c p) bind) (solve b)) b) ->
    forall k, (k < lm_rows p)%nat ->
      veq (mulv (basis_matrix p bind) (binv_col_colrep solve true r c (lm_rows p) bind k)) (unit_vec (lm_rows p) k).
Proof. exact binv_col_unscale. Qed.
Print Assumptions C05_binv_col_unscale.

Theorem C05_binv_times_vec_unscale :
  forall (p : lpmat) (r c bind : list Z) (solve : vec -> vec),
    (forall b, length b = lm_rows p -> veq (mulv (basis_matrix (scale r c p) bind) (solve b)) b) ->
    forall v, length v = lm_rows p ->
      veq (mulv (basis_matrix p bind) (binv_times_vec_colrep solve true r c bind v)) v.
Proof. exact binv_times_vec_unscale. Qed.
Print Assumptions C05_binv_times_vec_unscale.

Theorem C05_mult_unscale :
  forall (p : lpmat) (r c bind : list Z) (v : vec),
    veq (mult_colrep true r c (basis_matrix (scale r c p) bind) bind v) (mulv (basis_matrix p bind) v).
Proof. exact mult_unscale. Qed.
Print Assumptions C05_mult_unscale.

Theorem C05_multT_unscale :
  forall (p : lpmat) (r c bind : list Z) (v : vec),
    veq (multT_colrep true r c (basis_matrix (scale r c p) bind) bind v) (vmul v (basis_matrix p bind)).
Proof. exact multT_unscale. Qed.
Print Assumptions C05_multT_unscale.

(* the hypotheses of the four solve theorems are satisfiable by a non-trivial instance (2 rows, 3 columns, basis = slack of
   row 0 and column 1, exponents r = [1,-2], c = [-1,0,3]) *)
Example C05_hypotheses_satisfiable :
  (forall b, length b = lm_rows ex_p -> veq (mulv (basis_matrix (scale ex_r ex_c ex_p) ex_bind) (ex_solve b)) b) /\
  (forall b, length b = lm_rows ex_p -> veq (vmul (ex_coSolve b) (basis_matrix (scale ex_r ex_c ex_p) ex_bind)) b) /\
  length ex_bind = lm_rows ex_p /\ wf_bind ex_p ex_bind = true.
Proof. repeat split; [exact ex_solve_exact | exact ex_coSolve_exact]. Qed.

(* ... and on it the glue returns the inverse of the user's basis [[1,1],[0,3]]: column 1 is (-1/3, 1/3) *)
Example C05_glue_instance :
  veqb (binv_col_colrep ex_solve true ex_r ex_c 2 ex_bind 1) [-(1 # 3); 1 # 3] = true /\
  veqb (binv_row_colrep ex_coSolve true ex_r ex_c 2 ex_bind 0) [1; -(1 # 3)] = true /\
  check_binv_col ex_p ex_bind (binv_col_colrep ex_solve true ex_r ex_c 2 ex_bind 1) 1 = true.
Proof. vm_compute. repeat split. Qed.

(* ---- ROW representation ---- *)
(* getBasisInd names existing rows / columns only *)
Theorem C05_bind_rowrep_in_range :
  forall (m n : nat) (ids : list bid) (b : Z), In b (bind_rowrep m n ids) ->
    ((b < 0)%Z /\ (Z.to_nat (-1 - b) < m)%nat) \/ ((0 <= b)%Z /\ (Z.to_nat b < n)%nat).
Proof. exact bind_rowrep_ok. Qed.
Print Assumptions C05_bind_rowrep_in_range.

(* getBasisInverseRowReal is right in both branches: if the inner solve is exact for the row basis of the stored LP, the
   assembled vector is row k of the inverse of the basis matrix named by getBasisInd (the "complement identity").
   [ids_ok]: the row basis names every row / column at most once and only existing ones. *)
Theorem C05_binv_row_rowrep_plain :
  forall (ps : lpmat) (ids : list bid) (r c : list Z) (solve : vec -> vec) (k : nat),
    ids_ok ps ids ->
    (forall b, length b = lm_ncols ps -> veq (mulv (rb_matrix ps ids) (solve b)) b) ->
    let bind := bind_rowrep (lm_rows ps) (lm_ncols ps) ids in
    (k < length bind)%nat ->
    veq (vmul (binv_row_rowrep solve false r c ps ids k) (basis_matrix ps bind)) (unit_vec (length bind) k).
Proof. exact binv_row_rowrep_plain. Qed.
Print Assumptions C05_binv_row_rowrep_plain.

Theorem C05_binv_row_rowrep_unscale :
  forall (p : lpmat) (ids : list bid) (r c : list Z) (solve : vec -> vec) (k : nat),
    ids_ok p ids ->
    (forall b, length b = lm_ncols p -> veq (mulv (rb_matrix (scale r c p) ids) (solve b)) b) ->
    let bind := bind_rowrep (lm_rows p) (lm_ncols p) ids in
    (k < length bind)%nat ->
    veq (vmul (binv_row_rowrep solve true r c (scale r c p) ids k) (basis_matrix p bind)) (unit_vec (length bind) k).
Proof. exact binv_row_rowrep_unscale. Qed.
Print Assumptions C05_binv_row_rowrep_unscale.

(* the hypotheses are satisfiable: the LP of the column-representation example with the row basis (bound of column 0, bound
   of column 2, row 1), whose complement is the user's basis (slack 0, column 1) *)
Example C05_rowrep_hypotheses_satisfiable :
  ids_ok ex_p exr_ids /\
  (forall b, length b = lm_ncols ex_p -> veq (mulv (rb_matrix ex_p exr_ids) (exr_solve b)) b) /\
  bind_rowrep 2 3 exr_ids = [(-1)%Z; 1%Z] /\
  check_binv_row ex_p [(-1)%Z; 1%Z] (binv_row_rowrep exr_solve false [] [] ex_p exr_ids 0) 0 = true /\
  check_binv_row ex_p [(-1)%Z; 1%Z] (binv_row_rowrep exr_solve false [] [] ex_p exr_ids 1) 1 = true.
Proof. split; [exact exr_ids_ok | split; [exact exr_solve_exact | vm_compute; repeat split]]. Qed.

(* multBasisTranspose is right in both branches *)
Theorem C05_multT_rowrep_plain :
  forall (r c : list Z) (ps : lpmat) (ids : list bid) (x : vec),
    veq (multT_rowrep false r c ps ids x) (vmul x (basis_matrix ps (bind_rowrep (lm_rows ps) (lm_ncols ps) ids))).
Proof. exact multT_rowrep_plain. Qed.
Print Assumptions C05_multT_rowrep_plain.

Theorem C05_multT_rowrep_unscale :
  forall (r c : list Z) (p : lpmat) (ids : list bid) (x : vec),
    veq (multT_rowrep true r c (scale r c p) ids x) (vmul x (basis_matrix p (bind_rowrep (lm_rows p) (lm_ncols p) ids))).
Proof. exact multT_rowrep_unscale. Qed.
Print Assumptions C05_multT_rowrep_unscale.

(* the unscaled branches of getBasisInverseColReal and getBasisInverseTimesVecReal are right ([wf_lp]: every column has
   numRows entries; the row basis has numCols entries) *)
Theorem C05_binv_col_rowrep_plain :
  forall (ps : lpmat) (ids : list bid) (r c : list Z) (coSolve : vec -> vec) (k : nat),
    ids_ok ps ids -> wf_lp ps = true -> length ids = lm_ncols ps ->
    (forall b, length b = lm_ncols ps -> veq (vmul (coSolve b) (rb_matrix ps ids)) b) ->
    (k < lm_rows ps)%nat ->
    veq (mulv (basis_matrix ps (bind_rowrep (lm_rows ps) (lm_ncols ps) ids)) (binv_col_rowrep coSolve false r c ps ids k))
        (unit_vec (lm_rows ps) k).
Proof. exact binv_col_rowrep_plain. Qed.
Print Assumptions C05_binv_col_rowrep_plain.

Theorem C05_binv_times_vec_rowrep_plain :
  forall (ps : lpmat) (ids : list bid) (r c : list Z) (coSolve : vec -> vec) (v : vec),
    ids_ok ps ids -> wf_lp ps = true -> length ids = lm_ncols ps ->
    (forall b, length b = lm_ncols ps -> veq (vmul (coSolve b) (rb_matrix ps ids)) b) ->
    length v = lm_rows ps ->
    veq (mulv (basis_matrix ps (bind_rowrep (lm_rows ps) (lm_ncols ps) ids)) (binv_times_vec_rowrep coSolve false r c ps ids v)) v.
Proof. exact binv_times_vec_rowrep_plain. Qed.
Print Assumptions C05_binv_times_vec_rowrep_plain.

(* REFUTED: getBasisInverseColReal, ROW representation, scaled LP, unscale = true: although the inner solve is exact for
   the row basis of the stored LP, the returned vector is not the inverse column of the user's basis matrix *)
Theorem C05_binv_col_rowrep_scaled_refuted :
  exists (p : lpmat) (r c : list Z) (ids : list bid) (k : nat) (coSolve : vec -> vec),
    (forall b, length b = lm_ncols p -> veq (vmul (coSolve b) (rb_matrix (scale r c p) ids)) b) /\
    (k < lm_rows p)%nat /\
    ~ veq (mulv (basis_matrix p (bind_rowrep (lm_rows p) (lm_ncols p) ids))
                (binv_col_rowrep coSolve true r c (scale r c p) ids k))
          (unit_vec (lm_rows p) k).
Proof.
  exists wa_p, wa_r, wa_c, wa_ids, 0%nat, wa_coSolve.
  exact (conj wa_oracle_exact (conj (le_n 1) binv_col_rowrep_scaled_wrong)).
Qed.
Print Assumptions C05_binv_col_rowrep_scaled_refuted.

(* REFUTED: getBasisInverseTimesVecReal, ROW representation, scaled LP, unscale = true *)
Theorem C05_binv_times_vec_rowrep_scaled_refuted :
  exists (p : lpmat) (r c : list Z) (ids : list bid) (v : vec) (coSolve : vec -> vec),
    (forall b, length b = lm_ncols p -> veq (vmul (coSolve b) (rb_matrix (scale r c p) ids)) b) /\
    length v = lm_rows p /\
    ~ veq (mulv (basis_matrix p (bind_rowrep (lm_rows p) (lm_ncols p) ids))
                (binv_times_vec_rowrep coSolve true r c (scale r c p) ids v))
          v.
Proof.
  exists wa_p, wa_r, wa_c, wb_ids, [1], wb_coSolve.
  exact (conj wb_oracle_exact (conj eq_refl binv_times_vec_rowrep_scaled_wrong)).
Qed.
Print Assumptions C05_binv_times_vec_rowrep_scaled_refuted.

(* REFUTED: multBasis, ROW representation (with or without scaling) *)
Theorem C05_mult_rowrep_refuted :
  exists (p : lpmat) (ids : list bid) (x : vec),
    length x = lm_rows p /\
    ~ veq (mult_rowrep p ids x) (mulv (basis_matrix p (bind_rowrep (lm_rows p) (lm_ncols p) ids)) x).
Proof. exists wc_p, wc_ids, [1; 1]. exact (conj eq_refl mult_rowrep_wrong). Qed.
Print Assumptions C05_mult_rowrep_refuted.

(* ---- the three refuted branches as repaired by /verif/proposed_fixes/C05-*.diff return the exact answer ---- *)
Theorem C05_binv_col_rowrep_fixed_unscale :
  forall (p : lpmat) (ids : list bid) (r c : list Z) (coSolve : vec -> vec) (k : nat),
    ids_ok p ids -> wf_lp p = true -> length ids = lm_ncols p ->
    (forall b, length b = lm_ncols p -> veq (vmul (coSolve b) (rb_matrix (scale r c p) ids)) b) ->
    (k < lm_rows p)%nat ->
    veq (mulv (basis_matrix p (bind_rowrep (lm_rows p) (lm_ncols p) ids))
              (binv_col_rowrep_fixed coSolve true r c (scale r c p) ids k))
        (unit_vec (lm_rows p) k).
Proof. exact binv_col_rowrep_fixed_unscale. Qed.
Print Assumptions C05_binv_col_rowrep_fixed_unscale.

Theorem C05_binv_times_vec_rowrep_fixed_unscale :
  forall (p : lpmat) (ids : list bid) (r c : list Z) (coSolve : vec -> vec) (v : vec),
    ids_ok p ids -> wf_lp p = true -> length ids = lm_ncols p ->
    (forall b, length b = lm_ncols p -> veq (vmul (coSolve b) (rb_matrix (scale r c p) ids)) b) ->
    length v = lm_rows p ->
    veq (mulv (basis_matrix p (bind_rowrep (lm_rows p) (lm_ncols p) ids))
              (binv_times_vec_rowrep_fixed coSolve true r c (scale r c p) ids v)) v.
Proof. exact binv_times_vec_rowrep_fixed_unscale. Qed.
Print Assumptions C05_binv_times_vec_rowrep_fixed_unscale.

Theorem C05_mult_rowrep_fixed_plain :
  forall (r c : list Z) (ps : lpmat) (ids : list bid) (x : vec),
    veq (mult_rowrep_fixed false r c ps ids x) (mulv (basis_matrix ps (bind_rowrep (lm_rows ps) (lm_ncols ps) ids)) x).
Proof. exact mult_rowrep_fixed_plain. Qed.
Print Assumptions C05_mult_rowrep_fixed_plain.

Theorem C05_mult_rowrep_fixed_unscale :
  forall (r c : list Z) (p : lpmat) (ids : list bid) (x : vec),
    veq (mult_rowrep_fixed true r c (scale r c p) ids x) (mulv (basis_matrix p (bind_rowrep (lm_rows p) (lm_ncols p) ids)) x).
Proof. exact mult_rowrep_fixed_unscale. Qed.
Print Assumptions C05_mult_rowrep_fixed_unscale.

(* on the branches the patches do not touch the repaired models are the shipped ones *)
Example C05_fixed_agrees_on_plain_branches :
  forall coSolve r c ps ids k v,
    binv_col_rowrep_fixed coSolve false r c ps ids k = binv_col_rowrep coSolve false r c ps ids k /\
    binv_times_vec_rowrep_fixed coSolve false r c ps ids v = binv_times_vec_rowrep coSolve false r c ps ids v.
Proof. intros. split; reflexivity. Qed.

(* ---- the checkers that judge every answer of the implementation ---- *)
Theorem C05_check_binv_col_sound :
  forall p bind col k, check_binv_col p bind col k = true ->
    wf_bind p bind = true /\ (k < lm_rows p)%nat /\ veq (mulv (basis_matrix p bind) col) (unit_vec (lm_rows p) k).
Proof. exact check_binv_col_sound. Qed.
Print Assumptions C05_check_binv_col_sound.

Theorem C05_check_binv_row_sound :
  forall p bind row k, check_binv_row p bind row k = true ->
    wf_bind p bind = true /\ (k < lm_rows p)%nat /\ veq (vmul row (basis_matrix p bind)) (unit_vec (lm_rows p) k).
Proof. exact check_binv_row_sound. Qed.
Print Assumptions C05_check_binv_row_sound.

Theorem C05_check_solve_sound :
  forall p bind rhs sol, check_solve p bind rhs sol = true ->
    wf_bind p bind = true /\ veq (mulv (basis_matrix p bind) sol) rhs.
Proof. exact check_solve_sound. Qed.
Print Assumptions C05_check_solve_sound.

Theorem C05_check_mult_sound :
  forall p bind v out, check_mult p bind v out = true ->
    wf_bind p bind = true /\ veq out (mulv (basis_matrix p bind) v).
Proof. exact check_mult_sound. Qed.
Print Assumptions C05_check_mult_sound.

Theorem C05_check_multT_sound :
  forall p bind v out, check_multT p bind v out = true ->
    wf_bind p bind = true /\ veq out (vmul v (basis_matrix p bind)).
Proof. exact check_multT_sound. Qed.
Print Assumptions C05_check_multT_sound.

Theorem C05_check_binv_col_tol_sound :
  forall eps p bind col k, 0 <= eps -> check_binv_col_tol eps p bind col k = true ->
    wf_bind p bind = true /\ (k < lm_rows p)%nat /\
    forall i, Qabs (vnth (mulv (basis_matrix p bind) col) i - vnth (unit_vec (lm_rows p) k) i)
              <= tol_right eps (basis_matrix p bind) col (unit_vec (lm_rows p) k).
Proof. exact check_binv_col_tol_sound. Qed.
Print Assumptions C05_check_binv_col_tol_sound.

Theorem C05_check_binv_row_tol_sound :
  forall eps p bind row k, 0 <= eps -> check_binv_row_tol eps p bind row k = true ->
    wf_bind p bind = true /\ (k < lm_rows p)%nat /\
    forall j, Qabs (vnth (vmul row (basis_matrix p bind)) j - vnth (unit_vec (lm_rows p) k) j)
              <= tol_left eps (basis_matrix p bind) row (unit_vec (lm_rows p) k).
Proof. exact check_binv_row_tol_sound. Qed.
Print Assumptions C05_check_binv_row_tol_sound.

Theorem C05_check_solve_tol_sound :
  forall eps p bind rhs sol, 0 <= eps -> check_solve_tol eps p bind rhs sol = true ->
    wf_bind p bind = true /\
    forall i, Qabs (vnth (mulv (basis_matrix p bind) sol) i - vnth rhs i) <= tol_right eps (basis_matrix p bind) sol rhs.
Proof. exact check_solve_tol_sound. Qed.
Print Assumptions C05_check_solve_tol_sound.

Theorem C05_check_mult_tol_sound :
  forall eps p bind v out, 0 <= eps -> check_mult_tol eps p bind v out = true ->
    wf_bind p bind = true /\
    forall i, Qabs (vnth out i - vnth (mulv (basis_matrix p bind) v) i) <= tol_right eps (basis_matrix p bind) v out.
Proof. exact check_mult_tol_sound. Qed.
Print Assumptions C05_check_mult_tol_sound.

Theorem C05_check_multT_tol_sound :
  forall eps p bind v out, 0 <= eps -> check_multT_tol eps p bind v out = true ->
    wf_bind p bind = true /\
    forall j, Qabs (vnth out j - vnth (vmul v (basis_matrix p bind)) j) <= tol_left eps (basis_matrix p bind) v out.
Proof. exact check_multT_tol_sound. Qed.
Print Assumptions C05_check_multT_tol_sound.

(* the sparse index output lists exactly the non-zero positions *)
Theorem C05_check_inds_sound :
  forall coef inds, check_inds coef inds = true ->
    forall i, In i inds <-> (i < length coef)%nat /\ ~ vnth coef i == 0.
Proof. exact check_inds_sound. Qed.
Print Assumptions C05_check_inds_sound.

(* the exact comparison of padded vectors decides [veq] *)
Theorem C05_veqb_sound : forall u v, veqb u v = true -> veq u v.
Proof. exact veqb_sound. Qed.
Print Assumptions C05_veqb_sound.

Theorem C05_veqb_complete : forall u v, veq u v -> veqb u v = true.
Proof. exact veqb_complete. Qed.
Print Assumptions C05_veqb_complete.
