(* BasisFileModel.v - record-level model of BAS files (C14).

   Mirrors SPxBasisBase<R>::writeBasis / readBasis (spxbasis.hpp), SoPlexBase<R>::writeBasisFile (both branches:
   descriptor in the solver, status arrays outside) and readBasisFile (soplex.hpp), including the construction of
   default names.  A file is a list of records (indicator, column name, optional row name); the NAME/ENDATA lines
   and the lexical level (MPSInput::readLine) are not part of this model.  No proofs in this file. *)
From Coq Require Import QArith Bool List ZArith String Ascii DecimalString.
From SV Require Import BasisModel.
Import ListNotations.
Local Open Scope string_scope.

Inductive RecTag := XU | XL | UL | LL.

Record brec := mkRec { r_tag : RecTag; r_col : string; r_row : option string }.

(* LPRowBase::Type as computed by LPRowSetBase::type(i) *)
Inductive RowType := LESS_EQUAL | EQUAL | GREATER_EQUAL | RANGE.

Definition rowType (v : var) : RowType :=
  if negb (up_fin v) then GREATER_EQUAL
  else if negb (lo_fin v) then LESS_EQUAL
  else if bounds_eq v then EQUAL
  else RANGE.

Definition is_range (v : var) : bool := match rowType v with RANGE => true | _ => false end.

(* ---- writer ---- *)
(* an entry: name, variable, status *)
Definition ent := (string * (var * DStatus))%type.
Definition e_name (e : ent) : string := fst e.
Definition e_var (e : ent) : var := fst (snd e).
Definition e_stat (e : ent) : DStatus := snd (snd e).

(* "Find non basic row": advance the row cursor over basic rows *)
Fixpoint skip_basic (rows : list ent) : list ent :=
  match rows with
  | [] => []
  | e :: t => if is_dual (e_stat e) then skip_basic t else rows
  end.

Definition x_tag (cpx : bool) (rv : var) (rs : DStatus) : RecTag :=
  if ds_eqb rs P_ON_UPPER && (negb cpx || is_range rv) then XU else XL.

(* the column loop of writeBasis with its row cursor.  When no non-basic row is left for a basic column the C++ code
   reads one entry past the end (its assert is compiled out); that cannot happen for a valid descriptor and the model
   stops there. *)
Fixpoint wb (cpx : bool) (cols rows : list ent) : list brec :=
  match cols with
  | [] => []
  | c :: cols' =>
    if is_dual (e_stat c) then
      match skip_basic rows with
      | [] => []
      | r :: rows' => mkRec (x_tag cpx (e_var r) (e_stat r)) (e_name c) (Some (e_name r)) :: wb cpx cols' rows'
      end
    else if ds_eqb (e_stat c) P_ON_UPPER then mkRec UL (e_name c) None :: wb cpx cols' rows
    else wb cpx cols' rows
  end.

Definition entries (names : list string) (vs : list var) (ds : list DStatus) : list ent :=
  combine names (combine vs ds).

Definition writeBasis (lp : blp) (d : desc) (rnames cnames : list string) (cpx : bool) : list brec :=
  wb cpx (entries cnames (b_cols lp) (d_cols d)) (entries rnames (b_rows lp) (d_rows d)).

(* the branch of SoPlexBase::writeBasisFile for status arrays kept outside the solver (row type from _rowTypes) *)
Definition oent := (string * (var * VarStatus))%type.

Fixpoint skip_basic_o (rows : list oent) : list oent :=
  match rows with
  | [] => []
  | e :: t => if vs_eqb (snd (snd e)) BASIC then skip_basic_o t else rows
  end.

Fixpoint wbo (cpx : bool) (cols rows : list oent) : list brec :=
  match cols with
  | [] => []
  | c :: cols' =>
    if vs_eqb (snd (snd c)) BASIC then
      match skip_basic_o rows with
      | [] => []
      | r :: rows' =>
        mkRec (if vs_eqb (snd (snd r)) ON_UPPER && (negb cpx || is_range (fst (snd r))) then XU else XL)
              (fst c) (Some (fst r)) :: wbo cpx cols' rows'
      end
    else if vs_eqb (snd (snd c)) ON_UPPER then mkRec UL (fst c) None :: wbo cpx cols' rows
    else wbo cpx cols' rows
  end.

Definition writeBasisOutside (lp : blp) (rows cols : list VarStatus) (rnames cnames : list string) (cpx : bool)
  : list brec :=
  wbo cpx (combine cnames (combine (b_cols lp) cols)) (combine rnames (combine (b_rows lp) rows)).

(* ---- reader ---- *)
(* NameSet::number(name): position of the name, or none *)
Fixpoint find_name (nm : string) (names : list string) : option nat :=
  match names with
  | [] => None
  | x :: t => if String.eqb nm x then Some 0%nat else option_map S (find_name nm t)
  end.

Fixpoint set_nth {A : Type} (n : nat) (x : A) (l : list A) : list A :=
  match l with
  | [] => []
  | h :: t => match n with O => x :: t | S k => h :: set_nth k x t end
  end.

(* "initialize with standard settings": rows basic, columns by their bounds *)
Definition default_col (v : var) : DStatus :=
  if bounds_eq v then P_FIXED
  else if negb (lo_fin v) && negb (up_fin v) then P_FREE
  else if negb (lo_fin v) then P_ON_UPPER
  else P_ON_LOWER.

Definition defaultDesc (lp : blp) : desc :=
  mkDesc (map dualStatus (b_rows lp)) (map default_col (b_cols lp)).

Definition x_row_status (t : RecTag) (ty : RowType) : DStatus :=
  match t with
  | XU => match ty with GREATER_EQUAL => P_ON_LOWER | EQUAL => P_FIXED | _ => P_ON_UPPER end
  | _ => match ty with LESS_EQUAL => P_ON_UPPER | EQUAL => P_FIXED | _ => P_ON_LOWER end
  end.

Definition dummy_var : var := mkVar None None 0%Q.

(* one data line; [None]: unknown column name, missing or unknown row name -> the reader stops with an error *)
Definition apply_rec (lp : blp) (rnames cnames : list string) (st : desc) (r : brec) : option desc :=
  match find_name (r_col r) cnames with
  | None => None
  | Some c =>
    match r_tag r with
    | UL => Some (mkDesc (d_rows st) (set_nth c P_ON_UPPER (d_cols st)))
    | LL => Some (mkDesc (d_rows st) (set_nth c P_ON_LOWER (d_cols st)))
    | t =>
      match r_row r with
      | None => None
      | Some rn =>
        match find_name rn rnames with
        | None => None
        | Some ri =>
          Some (mkDesc (set_nth ri (x_row_status t (rowType (nth ri (b_rows lp) dummy_var))) (d_rows st))
                       (set_nth c (dualStatus (nth c (b_cols lp) dummy_var)) (d_cols st)))
        end
      end
    end
  end.

Fixpoint read_recs (lp : blp) (rnames cnames : list string) (st : desc) (recs : list brec) : option desc :=
  match recs with
  | [] => Some st
  | r :: t =>
    match apply_rec lp rnames cnames st r with
    | Some st' => read_recs lp rnames cnames st' t
    | None => None
    end
  end.

(* SPxBasisBase::readBasis on records: defaults, data lines, then loadDesc *)
Definition readBasis (lp : blp) (rnames cnames : list string) (recs : list brec) : option desc :=
  option_map (loadDesc lp) (read_recs lp rnames cnames (defaultDesc lp) recs).

(* ---- default names ---- *)
(* "%d" / operator<<(int) for a non-negative index *)
Definition dec (n : nat) : string := NilEmpty.string_of_uint (Nat.to_uint n).

Definition dname (p : string) (k : nat) : string := p ++ dec k.

(* x0, x1, ... / C0, C1, ... : getColName/getRowName of the writers *)
Definition default_names (p : string) (n : nat) : list string := map (dname p) (seq 0%nat n).

(* the construction in SPxBasisBase::readBasis: one std::stringstream per name set that is never cleared, so the
   k-th name is the concatenation of the first k+1 default names: x0, x0x1, x0x1x2, ... *)
Fixpoint accum_names_from (p acc : string) (k n : nat) : list string :=
  match n with
  | O => []
  | S n' => let acc' := acc ++ dname p k in acc' :: accum_names_from p acc' (S k) n'
  end.

Definition accum_names (p : string) (n : nat) : list string := accum_names_from p "" 0%nat n.

Definition names_or (user : option (list string)) (dflt : list string) : list string :=
  match user with Some l => l | None => dflt end.

(* file level, descriptor in the solver.  SPxSolverBase::writeBasisFile does not pass the format flag on. *)
Definition writeBasisFile (lp : blp) (d : desc) (urn ucn : option (list string)) (cpx : bool) : list brec :=
  writeBasis lp d (names_or urn (default_names "C" (nRows lp))) (names_or ucn (default_names "x" (nCols lp))) false.

(* file level, arrays outside the solver *)
Definition writeBasisFileOutside (lp : blp) (rows cols : list VarStatus) (urn ucn : option (list string)) (cpx : bool)
  : list brec :=
  writeBasisOutside lp rows cols (names_or urn (default_names "C" (nRows lp)))
                    (names_or ucn (default_names "x" (nCols lp))) cpx.

(* readBasisFile as implemented (accumulated default names) and as documented (default names) *)
Definition readBasisFile (lp : blp) (urn ucn : option (list string)) (recs : list brec) : option desc :=
  readBasis lp (names_or urn (accum_names "C" (nRows lp))) (names_or ucn (accum_names "x" (nCols lp))) recs.

Definition readBasisFile_intended (lp : blp) (urn ucn : option (list string)) (recs : list brec) : option desc :=
  readBasis lp (names_or urn (default_names "C" (nRows lp))) (names_or ucn (default_names "x" (nCols lp))) recs.

(* P_FREE on a properly boxed variable is ambiguous in a BAS file (the file has no indicator for it and loadDesc
   decides by the sign of the objective); it is unambiguous when loadDesc would choose the lower bound anyway *)
Definition free_ok1 (v : var) (s : DStatus) : bool :=
  negb (ds_eqb s P_FREE) || negb (lo_fin v && up_fin v) || bounds_eq v || Qle_bool (v_mobj v) 0%Q.

Definition free_ok (lp : blp) (d : desc) : bool :=
  forallb (fun p => free_ok1 (fst p) (snd p)) (combine (b_rows lp) (d_rows d))
  && forallb (fun p => free_ok1 (fst p) (snd p)) (combine (b_cols lp) (d_cols d)).
