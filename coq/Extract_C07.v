(* Extraction of the C07 model (ExtrOcamlBasic only: bool, option, unit, list, prod mapped to OCaml's;
   nat, positive, Z, Q stay the extracted inductive types).  The rounding oracle of the model is instantiated with
   [rnd_impl] (round to nearest even for the Rational -> double conversion operator, truncation for mpq_get_d). *)
From Coq Require Extraction.
From Coq Require Import ExtrOcamlBasic ZArith QArith List.
From SV Require Import SyncModel.

Definition c07_init : state := init.
Definition c07_step : state -> op -> state := step rnd_impl.
Definition c07_valid : state -> op -> bool := valid_op rnd_impl.
Definition c07_uobj_r : rlp -> list dy := uobj dneg.
Definition c07_uobj_q : qlp -> list Q := uobj Qopp.

Extraction "../extract/C07/model.ml" c07_init c07_step c07_valid c07_uobj_r c07_uobj_q d2q rnd_impl.
