(* C12 - numeric literals of the LP / MPS readers.

   [denote]       the grammar  sign? digits? (. digits)? ([eE] sign? digits)?  |  sign? digits / digits
                  (at least one mantissa digit; "1." is accepted as by strtod) and its value in Q;
   [rat_intended] what ratFromString is meant to compute (exact; "inf" / "-inf" are +-1e100 as in the code);
   [rat_code]     what src/soplex/rational.h ratFromString does, string operation by string operation; the value of
                  the C library call pow(10, mult) enters as the oracle [pw];
   [is_double], [nearest_double], [nearest_doubleb]  correctly rounded doubles (round to nearest, ties to even);
   [print_q]      the rational printer (num or num/den in decimal), read back by [denote].
   No proofs in this file. *)
From Coq Require Import ZArith QArith Qabs Bool List Ascii Decimal DecimalPos.
From SV Require Import Dbl.
Import ListNotations.
Local Open Scope Z_scope.

(* ---------------------------------------------------------------- characters *)

Definition digit_of (c : ascii) : option Z :=
  match c with
  | "0"%char => Some 0 | "1"%char => Some 1 | "2"%char => Some 2 | "3"%char => Some 3 | "4"%char => Some 4
  | "5"%char => Some 5 | "6"%char => Some 6 | "7"%char => Some 7 | "8"%char => Some 8 | "9"%char => Some 9
  | _ => None
  end.

Definition char_of_digit (d : Z) : ascii :=
  match d with
  | 0 => "0" | 1 => "1" | 2 => "2" | 3 => "3" | 4 => "4" | 5 => "5" | 6 => "6" | 7 => "7" | 8 => "8" | _ => "9"
  end%char.

Definition is_digit (c : ascii) : bool := match digit_of c with Some _ => true | None => false end.
Definition is_e (c : ascii) : bool := match c with "e"%char | "E"%char => true | _ => false end.
Definition is_dot (c : ascii) : bool := match c with "."%char => true | _ => false end.
Definition is_slash (c : ascii) : bool := match c with "/"%char => true | _ => false end.
Definition is_plus (c : ascii) : bool := match c with "+"%char => true | _ => false end.
Definition is_minus (c : ascii) : bool := match c with "-"%char => true | _ => false end.

(* ---------------------------------------------------------------- digit lists *)

(* longest prefix of digits, as digit values, and the rest *)
Fixpoint take_digits (s : list ascii) : list Z * list ascii :=
  match s with
  | [] => ([], [])
  | c :: r => match digit_of c with
              | Some d => let (ds, rest) := take_digits r in (d :: ds, rest)
              | None => ([], s)
              end
  end.

(* Horner evaluation, most significant digit first *)
Definition digits_val (ds : list Z) : Z := fold_left (fun a d => 10 * a + d) ds 0.

(* positional semantics, stated independently of Horner's rule *)
Fixpoint int_part (ds : list Z) : Z :=
  match ds with [] => 0 | d :: r => d * 10 ^ Z.of_nat (length r) + int_part r end.

Definition pow10 (e : Z) : Q := Qpower (inject_Z 10) e.

Fixpoint frac_part (ds : list Z) : Q :=
  match ds with [] => 0%Q | d :: r => ((inject_Z d + frac_part r) / inject_Z 10)%Q end.

Definition render (ds : list Z) : list ascii := map char_of_digit ds.
Definition all_digits (ds : list Z) : Prop := Forall (fun d => 0 <= d <= 9) ds.

(* ---------------------------------------------------------------- grammar and denotation *)

Definition take_sign (s : list ascii) : bool * list ascii :=
  match s with
  | c :: r => if is_minus c then (true, r) else if is_plus c then (false, r) else (false, s)
  | [] => (false, [])
  end.

Definition apply_sign (neg : bool) (q : Q) : Q := if neg then Qopp q else q.

Definition mant_val (ip fp : list Z) : Q :=
  (inject_Z (digits_val (ip ++ fp)) * pow10 (- Z.of_nat (length fp)))%Q.

Definition take_frac (s : list ascii) : list Z * list ascii :=
  match s with
  | c :: t => if is_dot c then take_digits t else ([], s)
  | [] => ([], [])
  end.

(* after the mantissa: nothing, or [eE] sign? digits *)
Definition denote_exp (neg : bool) (m : Q) (r : list ascii) : option Q :=
  match r with
  | [] => Some (apply_sign neg m)
  | c :: r3 =>
      if is_e c then
        let (eneg, r4) := take_sign r3 in
        let (ed, r5) := take_digits r4 in
        match ed, r5 with
        | _ :: _, [] => Some (apply_sign neg (m * pow10 (if eneg then - digits_val ed else digits_val ed))%Q)
        | _, _ => None
        end
      else None
  end.

(* digits / digits : the text after the slash *)
Definition denote_frac (neg : bool) (ip : list Z) (r2 : list ascii) : option Q :=
  let (dp, r3) := take_digits r2 in
  match ip, dp, r3 with
  | _ :: _, _ :: _, [] =>
      if digits_val dp =? 0 then None else Some (apply_sign neg (digits_val ip # Z.to_pos (digits_val dp)))
  | _, _, _ => None
  end.

(* digits? (. digits?)? exponent?  with at least one mantissa digit *)
Definition denote_dec (neg : bool) (ip : list Z) (r1 : list ascii) : option Q :=
  let (fp, r2) := take_frac r1 in
  match ip ++ fp with
  | [] => None
  | _ :: _ => denote_exp neg (mant_val ip fp) r2
  end.

Definition denote_body (neg : bool) (r0 : list ascii) : option Q :=
  let (ip, r1) := take_digits r0 in
  match r1 with
  | c :: r2 => if is_slash c then denote_frac neg ip r2 else denote_dec neg ip r1
  | [] => denote_dec neg ip []
  end.

Definition denote (s : list ascii) : option Q :=
  let (neg, r0) := take_sign s in denote_body neg r0.

(* The same grammar with the value kept symbolic: (neg, num, den, e) stands for +-(num/den) * 10^e.  Computing the
   power of ten is left to the caller (the model runner uses it for exponents of four and more digits, where the
   unary-free but list-based arithmetic of the extracted [pow10] is too slow).  Literal_Proofs.denote_sci_spec ties
   it to [denote]. *)
Definition sci := (bool * Z * Z * Z)%type.

Definition sci_val (t : sci) : Q :=
  let '(neg, n, d, e) := t in apply_sign neg ((n # Z.to_pos d) * pow10 e)%Q.

Definition sci_exp (neg : bool) (n k : Z) (r : list ascii) : option sci :=
  match r with
  | [] => Some (neg, n, 1, k)
  | c :: r3 =>
      if is_e c then
        let (eneg, r4) := take_sign r3 in
        let (ed, r5) := take_digits r4 in
        match ed, r5 with
        | _ :: _, [] => Some (neg, n, 1, k + (if eneg then - digits_val ed else digits_val ed))
        | _, _ => None
        end
      else None
  end.

Definition sci_frac (neg : bool) (ip : list Z) (r2 : list ascii) : option sci :=
  let (dp, r3) := take_digits r2 in
  match ip, dp, r3 with
  | _ :: _, _ :: _, [] => if digits_val dp =? 0 then None else Some (neg, digits_val ip, digits_val dp, 0)
  | _, _, _ => None
  end.

Definition sci_dec (neg : bool) (ip : list Z) (r1 : list ascii) : option sci :=
  let (fp, r2) := take_frac r1 in
  match ip ++ fp with
  | [] => None
  | _ :: _ => sci_exp neg (digits_val (ip ++ fp)) (- Z.of_nat (length fp)) r2
  end.

Definition sci_body (neg : bool) (r0 : list ascii) : option sci :=
  let (ip, r1) := take_digits r0 in
  match r1 with
  | c :: r2 => if is_slash c then sci_frac neg ip r2 else sci_dec neg ip r1
  | [] => sci_dec neg ip []
  end.

Definition denote_sci (s : list ascii) : option sci :=
  let (neg, r0) := take_sign s in sci_body neg r0.

(* ---------------------------------------------------------------- ratFromString: intended and as coded *)

(* soplex::infinity = 1e100 as a double, exactly *)
Definition inf_mant : Z := 5147557589468029.
Definition inf_exp : Z := 280.
Definition q_infinity : Q := inject_Z (inf_mant * 2 ^ inf_exp).

Definition str_inf : list ascii := ["i"; "n"; "f"]%char.
Definition str_minf : list ascii := ["-"; "i"; "n"; "f"]%char.

Fixpoint str_eqb (a b : list ascii) : bool :=
  match a, b with
  | [], [] => true
  | x :: a', y :: b' => Ascii.eqb x y && str_eqb a' b'
  | _, _ => false
  end.

Definition rat_intended (s : list ascii) : option Q :=
  if str_eqb s str_inf then Some q_infinity
  else if str_eqb s str_minf then Some (Qopp q_infinity)
  else denote s.

(* --- the pieces of the C++ code --- *)

(* mpz_set_str(base 10) on the characters that can occur here: optional '-', then at least one digit, nothing else *)
Definition gmp_int (s : list ascii) : option Z :=
  let (neg, r) := match s with
                  | c :: t => if is_minus c then (true, t) else (false, s)
                  | [] => (false, [])
                  end in
  let (ds, rest) := take_digits r in
  match ds, rest with
  | _ :: _, [] => Some (if neg then - digits_val ds else digits_val ds)
  | _, _ => None
  end.

Fixpoint split_slash (s : list ascii) : list ascii * option (list ascii) :=
  match s with
  | [] => ([], None)
  | c :: r => if is_slash c then ([], Some r)
              else let (a, b) := split_slash r in (c :: a, b)
  end.

(* Result of  Rational(const char* )  = boost gmp_rational::operator=(const char* ) = mpq_set_str(.., 10) WITHOUT
   mpq_canonicalize: the stored numerator / denominator pair, or failure (std::runtime_error).
   A zero or negative denominator is stored as it is. *)
Inductive raw := Raw (num den : Z).

Definition gmp_rat (s : list ascii) : option raw :=
  let (a, b) := split_slash s in
  match gmp_int a, b with
  | Some n, None => Some (Raw n 1)
  | Some n, Some bs => match gmp_int bs with Some d => Some (Raw n d) | None => None end
  | None, _ => None
  end.

(* std::stoi on the characters that can occur: optional sign, at least one digit, trailing characters ignored;
   None = throws (invalid_argument; out_of_range when the value does not fit an int) *)
Definition stoi (s : list ascii) : option Z :=
  let (neg, r) := take_sign s in
  let (ds, _) := take_digits r in
  match ds with
  | [] => None
  | _ :: _ => let v := if neg then - digits_val ds else digits_val ds in
              if (-2147483648 <=? v) && (v <=? 2147483647) then Some v else None
  end.

Definition has_dotEe (s : list ascii) : bool := existsb (fun c => is_dot c || is_e c) s.

(* s.substr(0, idx of first e/E) and the text after it *)
Fixpoint split_e (s : list ascii) : list ascii * option (list ascii) :=
  match s with
  | [] => ([], None)
  | c :: r => if is_e c then ([], Some r)
              else let (a, b) := split_e r in (c :: a, b)
  end.

Fixpoint split_dot (s : list ascii) : list ascii * option (list ascii) :=
  match s with
  | [] => ([], None)
  | c :: r => if is_dot c then ([], Some r)
              else let (a, b) := split_dot r in (c :: a, b)
  end.

Definition zero_c : ascii := "0"%char.
Definition one_c : ascii := "1"%char.
Definition is_zero_c (c : ascii) : bool := Ascii.eqb c zero_c.

(* s.find_first_not_of('0') : index or None (npos) *)
Fixpoint first_not_zero (s : list ascii) : option nat :=
  match s with
  | [] => None
  | c :: r => if is_zero_c c then option_map S (first_not_zero r) else Some O
  end.

(* s.erase(0, min(find_first_not_of('0'), size - 1)) *)
Definition strip_zeros (s : list ascii) : list ascii :=
  let k := match first_not_zero s with Some k => Nat.min k (length s - 1) | None => (length s - 1)%nat end in
  skipn k s.

(* the negative branch  s.erase(1, min(s.substr(1).find_first_not_of('0'), s.size() - 1))  applied to the text [r]
   after the '-': the bound s.size() - 1 is the whole length of [r], so an all-zero mantissa is erased completely *)
Definition strip_zeros_neg (r : list ascii) : list ascii :=
  let k := match first_not_zero r with Some k => Nat.min k (length r) | None => length r end in
  skipn k r.

(* the double pow(10, mult) converted to a Rational (mpq_set_d: exact, canonical); None when it is not finite
   (GMP raises SIGFPE) *)
Definition dbl_to_raw (d : dbl) : option (Z * Z) :=
  match d with
  | DFin m e =>
      if 0 <=? e then Some (m * 2 ^ e, 1)
      else let g := Z.gcd m (2 ^ (- e)) in
           if g =? 0 then Some (0, 1) else Some (m / g, 2 ^ (- e) / g)
  | _ => None
  end.

(* mpq_mul on stored pairs (operands distinct objects): zero short-cut, else cross-wise gcd reduction only *)
Definition mpq_mul_raw (n1 d1 n2 d2 : Z) : Z * Z :=
  if (n1 =? 0) || (n2 =? 0) then (0, 1)
  else let g1 := Z.gcd n1 d2 in
       let g2 := Z.gcd n2 d1 in
       ((n1 / g1) * (n2 / g2), (d2 / g1) * (d1 / g2)).

Inductive outcome :=
| OVal (num den : Z)    (* returns the Rational with exactly this stored numerator / denominator *)
| OThrow                (* an exception leaves ratFromString *)
| OCrash.               (* a non-finite double is converted to Rational: GMP raises SIGFPE *)

(* value of a stored pair; None for a zero denominator *)
Definition raw_val (n d : Z) : option Q :=
  if d =? 0 then None else if 0 <? d then Some (n # Z.to_pos d) else Some ((- n) # Z.to_pos (- d)).

Definition outcome_val (o : outcome) : option Q :=
  match o with OVal n d => raw_val n d | _ => None end.

Definition strip_plus (s : list ascii) : list ascii :=
  match s with c :: r => if is_plus c then r else s | [] => s end.

Definition rat_code (pw : Z -> dbl) (s : list ascii) : outcome :=
  if str_eqb s str_inf then OVal (inf_mant * 2 ^ inf_exp) 1
  else if str_eqb s str_minf then OVal (- (inf_mant * 2 ^ inf_exp)) 1
  else if negb (has_dotEe s) then
    (* case 1: nom/den format *)
    match gmp_rat (strip_plus s) with
    | None => OThrow
    | Some (Raw n d) => OVal n d
    end
  else
    (* case 2: base-10 decimal number *)
    let (s0, ex) := split_e s in
    match (match ex with Some t => option_map (fun v => v) (stoi t) | None => Some 0 end) with
    | None => OThrow                                        (* std::stoi throws *)
    | Some mult =>
      let s1 := match s0 with c :: _ => if is_dot c then zero_c :: s0 else s0 | [] => s0 end in
      let s2 :=
        match split_dot s1 with
        | (_, None) => s1
        | (a, Some b) =>
            let den := one_c :: repeat zero_c (length b) in
            let body := a ++ b in                            (* s.erase(pos, 1) *)
            let body' := match body with
                         | c :: r => if is_minus c then c :: strip_zeros_neg r else strip_zeros body
                         | [] => body
                         end in
            body' ++ ["/"%char] ++ den
        end in
      match gmp_rat (strip_plus s2) with
      | None => OThrow
      | Some (Raw n d) =>
          match dbl_to_raw (pw mult) with
          | None => OCrash
          | Some (pn, pd) => let (rn, rd) := mpq_mul_raw n d pn pd in OVal rn rd
          end
      end
    end.

(* what the LP-format reader stores for a value token: the previous value 1 survives a caught exception *)
Definition lpf_value (pw : Z -> dbl) (s : list ascii) : outcome :=
  match rat_code pw s with OThrow => OVal 1 1 | o => o end.

(* ---------------------------------------------------------------- doubles *)

(* m * 2^e with |m| < 2^53, -1074 <= e, and magnitude below 2^1024: the finite IEEE-754 binary64 numbers *)
Definition dyadic_val (m e : Z) : Q := if 0 <=? e then inject_Z (m * 2 ^ e) else (m # Z.to_pos (2 ^ (- e))).

Definition is_double (m e : Z) : Prop := Z.abs m < 2 ^ 53 /\ -1074 <= e /\ e <= 971.

(* d is a correctly rounded image of q (round to nearest; a tie goes to the even mantissa) *)
Definition closest (q : Q) (m e : Z) : Prop :=
  is_double m e /\
  forall m' e', is_double m' e' -> (Qabs (q - dyadic_val m e) <= Qabs (q - dyadic_val m' e'))%Q.

(* canonical form: mantissa of 53 bits unless the exponent is minimal *)
Definition canonical (m e : Z) : Prop := is_double m e /\ (e = -1074 \/ 2 ^ 52 <= Z.abs m).

Definition nearest_double (q : Q) (m e : Z) : Prop :=
  closest q m e /\
  forall m' e', closest q m' e' -> ~ (dyadic_val m' e' == dyadic_val m e)%Q ->
                canonical m e -> canonical m' e' -> Z.even m = true.

(* executable check: normalise to the canonical form, compare with the two neighbours *)
Fixpoint norm_up (fuel : nat) (m e : Z) : Z * Z :=
  match fuel with
  | O => (m, e)
  | S f => if (Z.abs m <? 2 ^ 52) && (-1074 <? e) then norm_up f (2 * m) (e - 1) else (m, e)
  end.

Fixpoint norm_down (fuel : nat) (m e : Z) : Z * Z :=
  match fuel with
  | O => (m, e)
  | S f => if (2 ^ 53 <=? Z.abs m) && Z.even m then norm_down f (m / 2) (e + 1)
           else if (e <? -1074) && Z.even m then norm_down f (m / 2) (e + 1) else (m, e)
  end.

Definition normalise (m e : Z) : Z * Z :=
  if m =? 0 then (0, -1074) else let (m1, e1) := norm_down 2200 m e in norm_up 2200 m1 e1.

(* |q - m 2^e| compared with |q - m' 2^e'| *)
Definition dist (q : Q) (m e : Z) : Q := Qabs (q - dyadic_val m e).

Definition qleb (a b : Q) : bool := match Qcompare a b with Gt => false | _ => true end.
Definition qltb (a b : Q) : bool := match Qcompare a b with Lt => true | _ => false end.

(* neighbours of a canonical non-negative double *)
Definition pred_mag (m e : Z) : Z * Z :=      (* the next double towards zero, for m > 0 *)
  if (m =? 2 ^ 52) && (-1074 <? e) then (2 ^ 53 - 1, e - 1) else (m - 1, e).

Definition canonicalb (m e : Z) : bool :=
  (Z.abs m <? 2 ^ 53) && (-1074 <=? e) && (e <=? 971) && ((e =? -1074) || (2 ^ 52 <=? Z.abs m)).

(* [am] >= 0 canonical: no double is closer to [aq] than am * 2^e, and on a tie [am] is even.  The upper neighbour
   of the largest double is 2^1024: not a double, but the comparison with it is exactly the IEEE overflow threshold. *)
Definition nd_core (aq : Q) (am e : Z) : bool :=
  let '(lm, le) := if am =? 0 then (-1, -1074) else pred_mag am e in
  let dm := dist aq am e in
  let du := dist aq (am + 1) e in
  let dl := dist aq lm le in
  (qltb dm du || (qleb dm du && Z.even am)) && (qltb dm dl || (qleb dm dl && Z.even am)).

Definition nearest_doubleb (q : Q) (m0 e0 : Z) : bool :=
  let (m, e) := normalise m0 e0 in
  canonicalb m e && nd_core (if 0 <=? m then q else Qopp q) (Z.abs m) e.

(* |q| >= 2^1024 - 2^970: round-to-nearest overflows to an infinity *)
Definition overflowsb (q : Q) : bool := qleb (inject_Z (2 ^ 1024 - 2 ^ 970)) (Qabs q).

(* |q| <= 2^-1075: round-to-nearest(-even) gives zero *)
Definition underflowsb (q : Q) : bool := qleb (Qabs q) (1 # (2 ^ 1075)).

(* ---------------------------------------------------------------- rational printer *)

Fixpoint uint_digits (u : Decimal.uint) : list Z :=
  match u with
  | Nil => []
  | D0 r => 0 :: uint_digits r | D1 r => 1 :: uint_digits r | D2 r => 2 :: uint_digits r
  | D3 r => 3 :: uint_digits r | D4 r => 4 :: uint_digits r | D5 r => 5 :: uint_digits r
  | D6 r => 6 :: uint_digits r | D7 r => 7 :: uint_digits r | D8 r => 8 :: uint_digits r
  | D9 r => 9 :: uint_digits r
  end.

Definition print_pos (p : positive) : list ascii := render (uint_digits (Pos.to_uint p)).

Definition print_Z (z : Z) : list ascii :=
  match z with
  | Z0 => ["0"%char]
  | Zpos p => print_pos p
  | Zneg p => "-"%char :: print_pos p
  end.

(* what boost / GMP print for a canonical rational: "num" when the denominator is 1, else "num/den" *)
Definition print_q (q : Q) : list ascii :=
  let r := Qred q in
  match Qden r with
  | xH => print_Z (Qnum r)
  | d => print_Z (Qnum r) ++ "/"%char :: print_pos d
  end.
