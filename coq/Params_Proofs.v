(* Proofs about the parameter model, for every table that satisfies [table_ok]. *)
From Coq Require Import ZArith Bool List String Ascii Lia.
From SV Require Import Dbl SettingsLexer ParamsModel.
Import ListNotations.
Local Open Scope Z_scope.

(* ---------- generic list lemmas ---------- *)
Lemma upd_length {A} n (x : A) l : List.length (upd n x l) = List.length l.
Proof. revert n; induction l as [|a l IH]; intros [|n]; simpl; auto. Qed.

Lemma nth_upd_same {A} n (x d : A) l : (n < List.length l)%nat -> nth n (upd n x l) d = x.
Proof. revert n; induction l as [|a l IH]; intros [|n] H; simpl in *; try lia; auto. apply IH; lia. Qed.

Lemma nth_upd_other {A} n k (x d : A) l : n <> k -> nth k (upd n x l) d = nth k l d.
Proof. revert n k; induction l as [|a l IH]; intros [|n] [|k] H; simpl; auto; try congruence. Qed.

Lemma nth_error_upd_same {A} n (x : A) l : (n < List.length l)%nat -> nth_error (upd n x l) n = Some x.
Proof. revert n; induction l as [|a l IH]; intros [|n] H; simpl in *; try lia; auto. apply IH; lia. Qed.

Lemma nth_error_upd_other {A} n k (x : A) l : n <> k -> nth_error (upd n x l) k = nth_error l k.
Proof. revert n k; induction l as [|a l IH]; intros [|n] [|k] H; simpl; auto; try congruence. Qed.

Lemma Forall2_upd {A B} (P : A -> B -> Prop) t l n r x :
  Forall2 P t l -> nth_error t n = Some r -> P r x -> Forall2 P t (upd n x l).
Proof.
  intros H; revert n; induction H as [|a b t l Hab H IH]; intros [|n] Hn Hp; simpl in *; try discriminate.
  - injection Hn as ->. constructor; auto.
  - constructor; auto.
Qed.

Lemma Forall2_nth_error {A B} (P : A -> B -> Prop) t l n r v :
  Forall2 P t l -> nth_error t n = Some r -> nth_error l n = Some v -> P r v.
Proof.
  intros H; revert n; induction H as [|a b t l Hab H IH]; intros [|n] Hr Hv; simpl in *; try discriminate.
  - injection Hr as ->; injection Hv as ->; auto.
  - eauto.
Qed.

Lemma Forall2_length' {A B} (P : A -> B -> Prop) t l : Forall2 P t l -> List.length t = List.length l.
Proof. induction 1; simpl; auto. Qed.

(* ---------- find_idx ---------- *)
Section Find.
  Context {A : Type} (nm : A -> string).

  Lemma find_idx_some name t k :
    find_idx nm name t = Some k -> exists r, nth_error t k = Some r /\ nm r = name.
  Proof.
    revert k; induction t as [|a t IH]; simpl; intros k H; try discriminate.
    destruct (String.eqb (nm a) name) eqn:E.
    - injection H as <-. exists a; split; auto. now apply String.eqb_eq.
    - destruct (find_idx nm name t) as [j|] eqn:F; simpl in H; try discriminate.
      injection H as <-. destruct (IH j eq_refl) as (r & Hr & Hn). exists r; auto.
  Qed.

  Lemma existsb_eqb_in name l : existsb (String.eqb name) l = true <-> In name l.
  Proof.
    rewrite existsb_exists. split.
    - intros (x & Hx & E). apply String.eqb_eq in E. now subst.
    - intros H. exists name; split; auto. apply String.eqb_refl.
  Qed.

  Lemma find_idx_nodup t i r :
    nodupb (map nm t) = true -> nth_error t i = Some r -> find_idx nm (nm r) t = Some i.
  Proof.
    revert i; induction t as [|a t IH]; intros [|i] Hd Hn; simpl in *; try discriminate.
    - injection Hn as ->. now rewrite String.eqb_refl.
    - apply andb_true_iff in Hd as [Hnot Hd].
      destruct (String.eqb (nm a) (nm r)) eqn:E.
      + apply String.eqb_eq in E. exfalso.
        apply negb_true_iff in Hnot.
        assert (In (nm a) (map nm t)) as Hin.
        { rewrite E. apply in_map. eapply nth_error_In; eauto. }
        apply existsb_eqb_in in Hin. congruence.
      + rewrite (IH i Hd Hn). reflexivity.
  Qed.
End Find.

(* ---------- the invariant ---------- *)
Section Inv.
  Variable btab : list brow.
  Variable itab : list irow.
  Variable rtab : list rrow.
  Hypothesis TOK : table_ok btab itab rtab = true.

  Notation set_bool := (set_bool btab).
  Notation set_int := (set_int itab).
  Notation set_real := (set_real rtab).
  Notation derive_i := (derive_i itab).
  Notation derive_r := (derive_r rtab).
  Notation step := (step btab itab rtab).
  Notation init := (init btab itab rtab).

  Definition bool_inv (r : brow) (v : bool) : Prop := b_settable r = true \/ v = b_def r.
  Definition int_inv (r : irow) (v : Z) : Prop := int_valid r v = true.
  Definition real_inv (r : rrow) (v : dbl) : Prop :=
    in_range (r_lo r) (r_up r) v = true /\ (r_settable r = true \/ deq v (r_def r) = true).

  Record Consistent (s : pstate) : Prop := {
    c_b : Forall2 bool_inv btab (bv s);
    c_i : Forall2 int_inv itab (iv s);
    c_r : Forall2 real_inv rtab (rv s);
    c_d : dv s = derive_i (iv s);
    c_t : tv s = derive_r (rv s)
  }.

  Lemma tok_parts :
    nodupb (map b_name btab) = true /\ nodupb (map i_name itab) = true /\ nodupb (map r_name rtab) = true
    /\ forallb irow_ok itab = true /\ forallb rrow_ok rtab = true.
  Proof.
    unfold table_ok in TOK. repeat (apply andb_true_iff in TOK as [TOK ?]). auto.
  Qed.

  Lemma get_int_upd n i r v l :
    nth_error itab i = Some r -> (i < List.length l)%nat ->
    get_int itab n (upd i v l) = if String.eqb n (i_name r) then v else get_int itab n l.
  Proof.
    intros Hr Hl. destruct tok_parts as (_ & Hd & _). unfold get_int.
    destruct (String.eqb n (i_name r)) eqn:E.
    - apply String.eqb_eq in E; subst n. rewrite (find_idx_nodup i_name itab i r Hd Hr).
      now apply nth_upd_same.
    - destruct (find_idx i_name n itab) as [k|] eqn:F; auto.
      apply nth_upd_other. intros ->. apply find_idx_some in F as (r' & Hr' & Hn).
      rewrite Hr in Hr'. injection Hr' as <-. subst n. now rewrite String.eqb_refl in E.
  Qed.

  Lemma get_real_upd n i r v l :
    nth_error rtab i = Some r -> (i < List.length l)%nat ->
    get_real rtab n (upd i v l) = if String.eqb n (r_name r) then v else get_real rtab n l.
  Proof.
    intros Hr Hl. destruct tok_parts as (_ & _ & Hd & _). unfold get_real.
    destruct (String.eqb n (r_name r)) eqn:E.
    - apply String.eqb_eq in E; subst n. rewrite (find_idx_nodup r_name rtab i r Hd Hr).
      now apply nth_upd_same.
    - destruct (find_idx r_name n rtab) as [k|] eqn:F; auto.
      apply nth_upd_other. intros ->. apply find_idx_some in F as (r' & Hr' & Hn).
      rewrite Hr in Hr'. injection Hr' as <-. subst n. now rewrite String.eqb_refl in E.
  Qed.

  Lemma combine_map_self {A B} (g : A -> B) l : combine l (map g l) = map (fun x => (x, g x)) l.
  Proof. induction l; simpl; congruence. Qed.

  Lemma derive_i_upd i r v l :
    nth_error itab i = Some r -> (i < List.length l)%nat ->
    apply_ieff (i_name r) v (derive_i l) = derive_i (upd i v l).
  Proof.
    intros Hr Hl. unfold apply_ieff, ParamsModel.derive_i. rewrite combine_map_self, map_map.
    apply map_ext. intros [n f]; simpl. rewrite (get_int_upd n i r v l Hr Hl).
    destruct (String.eqb n (i_name r)); reflexivity.
  Qed.

  Lemma derive_r_upd i r v l :
    nth_error rtab i = Some r -> (i < List.length l)%nat ->
    apply_reff (r_name r) v (derive_r l) = derive_r (upd i v l).
  Proof.
    intros Hr Hl. unfold apply_reff, ParamsModel.derive_r. rewrite combine_map_self, map_map.
    apply map_ext. intros n; simpl. rewrite (get_real_upd n i r v l Hr Hl).
    destruct (String.eqb n (r_name r)); reflexivity.
  Qed.

  Lemma nth_error_lt {A} (l : list A) i v : nth_error l i = Some v -> (i < List.length l)%nat.
  Proof. intros H. apply nth_error_Some. congruence. Qed.

  (* ---- setters preserve the invariant ---- *)
  Lemma set_bool_consistent ini i v s : Consistent s -> Consistent (fst (set_bool ini i v s)).
  Proof.
    intros C. unfold ParamsModel.set_bool.
    destruct (nth_error btab i) as [r|] eqn:Hr; auto.
    destruct (nth_error (bv s) i) as [cur|] eqn:Hc; auto.
    destruct (negb ini && Bool.eqb v cur); auto.
    destruct (bool_valid r cur v) eqn:V; auto. simpl.
    destruct C as [cb ci cr cd ct]. constructor; simpl; auto.
    eapply Forall2_upd; eauto. unfold bool_inv.
    unfold bool_valid in V. apply orb_true_iff in V as [V|V]; auto.
    apply Bool.eqb_prop in V. subst v.
    exact (Forall2_nth_error _ _ _ _ _ _ cb Hr Hc).
  Qed.

  Lemma set_int_consistent ini i v s : Consistent s -> Consistent (fst (set_int ini i v s)).
  Proof.
    intros C. unfold ParamsModel.set_int.
    destruct (nth_error itab i) as [r|] eqn:Hr; auto.
    destruct (nth_error (iv s) i) as [cur|] eqn:Hc; auto.
    destruct (negb ini && (v =? cur)); auto.
    destruct (int_valid r v) eqn:V; auto. simpl.
    destruct C as [cb ci cr cd ct]. constructor; simpl; auto.
    - eapply Forall2_upd; eauto.
    - rewrite cd. apply derive_i_upd; auto. eapply nth_error_lt; eauto.
  Qed.

  Lemma deq_in_range_l lo up a b : deq a b = true -> in_range lo up b = true -> True.
  Proof. auto. Qed.

  Lemma set_real_consistent ini i v s : Consistent s -> Consistent (fst (set_real ini i v s)).
  Proof.
    intros C. unfold ParamsModel.set_real.
    destruct (nth_error rtab i) as [r|] eqn:Hr; auto.
    destruct (nth_error (rv s) i) as [cur|] eqn:Hc; auto.
    destruct (negb ini && deq v cur); auto.
    destruct (real_valid r cur v) eqn:V; auto. simpl.
    destruct C as [cb ci cr cd ct]. constructor; simpl; auto.
    - eapply Forall2_upd; eauto. unfold real_inv.
      unfold real_valid in V. apply andb_true_iff in V as [V1 V2]. split; auto.
      apply orb_true_iff in V2 as [V2|V2]; auto.
      pose proof (Forall2_nth_error _ _ _ _ _ _ cr Hr Hc) as [_ [Hs|Hd]]; auto.
      right. eapply deq_trans; eauto.
    - rewrite ct. apply derive_r_upd; auto. eapply nth_error_lt; eauto.
  Qed.

  Lemma set_seed_consistent n s : Consistent s -> Consistent (set_seed n s).
  Proof. intros [cb ci cr cd ct]; constructor; auto. Qed.

  Lemma fold_set_consistent {V} (f : nat -> V -> pstate -> pstate * bool) :
    (forall k v s, Consistent s -> Consistent (fst (f k v s))) ->
    forall vals k s, Consistent s -> Consistent (fst (fold_set f k vals s)).
  Proof.
    intros Hf vals; induction vals as [|v vals IH]; intros k s C; simpl; auto.
    destruct (f k v s) as [s1 o1] eqn:E1.
    destruct (fold_set f (S k) vals s1) as [s2 o2] eqn:E2. simpl.
    specialize (IH (S k) s1). rewrite E2 in IH. apply IH.
    specialize (Hf k v s C). now rewrite E1 in Hf.
  Qed.

  Lemma reset_consistent s : Consistent s -> Consistent (reset btab itab rtab s).
  Proof.
    intros C. unfold reset.
    destruct (fold_set (set_bool true) 0 (map b_def btab) s) as [s1 o1] eqn:E1.
    destruct (fold_set (set_int true) 0 (map i_def itab) s1) as [s2 o2] eqn:E2.
    destruct (fold_set (set_real true) 0 (map r_def rtab) s2) as [s3 o3] eqn:E3.
    pose proof (fold_set_consistent (set_bool true) (set_bool_consistent true) (map b_def btab) 0%nat s C) as C1.
    rewrite E1 in C1.
    pose proof (fold_set_consistent (set_int true) (set_int_consistent true) (map i_def itab) 0%nat s1 C1) as C2.
    rewrite E2 in C2.
    pose proof (fold_set_consistent (set_real true) (set_real_consistent true) (map r_def rtab) 0%nat s2 C2) as C3.
    now rewrite E3 in C3.
  Qed.

  Lemma init_consistent lp : Consistent (init lp).
  Proof.
    destruct tok_parts as (_ & _ & _ & Hi & Hr).
    constructor; simpl; auto.
    - clear. induction btab as [|a l IH]; simpl; constructor; auto. right; reflexivity.
    - clear - Hi. induction itab as [|r t IH]; simpl in *; constructor.
      + apply andb_true_iff in Hi as [H _]. unfold irow_ok in H.
        repeat (apply andb_true_iff in H as [H ?]). exact H3.
      + apply IH. now apply andb_true_iff in Hi as [_ H].
    - clear - Hr. induction rtab as [|r t IH]; simpl in *; constructor.
      + apply andb_true_iff in Hr as [H _]. unfold rrow_ok in H. split; auto.
        right. pose proof (in_range_not_nan _ _ _ H) as N.
        destruct (r_def r); simpl in *; try discriminate; auto. now rewrite dcmp_fin_refl.
      + apply IH. now apply andb_true_iff in Hr as [_ H].
  Qed.

  Lemma fold_left_consistent {O} (f : pstate -> O -> pstate) :
    (forall s o, Consistent s -> Consistent (f s o)) ->
    forall os s, Consistent s -> Consistent (fold_left f os s).
  Proof. intros Hf os; induction os; simpl; auto. Qed.

  Lemma parse_line_consistent stod l s : Consistent s -> Consistent (fst (parse_line btab itab rtab stod l s)).
  Proof.
    intros C. unfold parse_line. destruct (tokenise l); auto. unfold parse_tokens.
    repeat match goal with
           | |- context [if ?b then _ else _] => destruct b
           | |- context [match ?x with Some _ => _ | None => _ end] => destruct x
           end; simpl; auto using set_bool_consistent, set_int_consistent, set_real_consistent, set_seed_consistent.
  Qed.

  (* ---- setSettings: the arrays are overwritten, then every setter runs with init = true ---- *)
  Lemma upd_same {A} k (v : A) l : nth_error l k = Some v -> upd k v l = l.
  Proof. revert k; induction l as [|a l IH]; intros [|k] H; simpl in *; try discriminate; auto.
    - now injection H as ->.
    - f_equal; auto.
  Qed.

  Section Slot.
    Context {A V : Type} (nm : A -> string) (dflt : V) (g : V -> V).
    Definition slotf (n : string) (x : V) (rv : A * V) : V := if String.eqb n (nm (fst rv)) then g (snd rv) else x.

    Lemma fold_nohit n t l x : ~ In n (map nm t) -> fold_left (slotf n) (combine t l) x = x.
    Proof.
      revert l x; induction t as [|r t IH]; intros [|v l] x H; simpl in *; auto.
      unfold slotf at 2; simpl. destruct (String.eqb n (nm r)) eqn:E.
      - apply String.eqb_eq in E. exfalso. apply H. left. congruence.
      - apply IH. intros Hin. apply H. now right.
    Qed.

    Lemma fold_hit n t l x j :
      nodupb (map nm t) = true -> List.length t = List.length l -> find_idx nm n t = Some j ->
      fold_left (slotf n) (combine t l) x = g (nth j l dflt).
    Proof.
      revert l x j; induction t as [|r t IH]; intros [|v l] x j Hd Hl Hf; simpl in *; try discriminate.
      apply andb_true_iff in Hd as [Hn Hd].
      unfold slotf at 2; simpl. rewrite String.eqb_sym.
      destruct (String.eqb (nm r) n) eqn:E.
      - injection Hf as <-. apply String.eqb_eq in E. subst n. apply fold_nohit.
        intros Hin. apply existsb_eqb_in in Hin. apply negb_true_iff in Hn. congruence.
      - destruct (find_idx nm n t) as [j'|] eqn:F; simpl in Hf; try discriminate. injection Hf as <-.
        apply IH; auto.
    Qed.
  End Slot.

  Lemma rat_effect_same name v r : rat_effect name v v r = r.
  Proof. unfold rat_effect. destruct (negb (String.eqb name "syncmode")); auto. now rewrite Z.eqb_refl. Qed.

  Lemma set_int_same k r v s :
    nth_error itab k = Some r -> nth_error (iv s) k = Some v -> int_inv r v ->
    set_int true k v s = ({| bv := bv s; iv := iv s; rv := rv s; seed := seed s;
                             dv := apply_ieff (i_name r) v (dv s); tv := tv s; lpd := lpd s; rat := rat s |}, true).
  Proof.
    intros Hr Hc Hv. unfold ParamsModel.set_int. rewrite Hr, Hc. simpl. unfold int_inv in Hv. rewrite Hv.
    rewrite (upd_same _ _ _ Hc). rewrite rat_effect_same. reflexivity.
  Qed.

  Lemma set_real_same k r v s :
    nth_error rtab k = Some r -> nth_error (rv s) k = Some v -> real_inv r v ->
    set_real true k v s = ({| bv := bv s; iv := iv s; rv := rv s; seed := seed s;
                              dv := dv s; tv := apply_reff (r_name r) v (tv s); lpd := lpd s; rat := rat s |}, true).
  Proof.
    intros Hr Hc [Hin Hset]. unfold ParamsModel.set_real. rewrite Hr, Hc. simpl.
    assert (deq v v = true) as Hvv by (apply deq_refl; eapply in_range_not_nan; eauto).
    unfold real_valid. rewrite Hin, Hvv, orb_true_r. simpl. now rewrite (upd_same _ _ _ Hc).
  Qed.

  Definition others_eq (s s' : pstate) : Prop := seed s' = seed s /\ lpd s' = lpd s.

  Lemma fold_set_int_all : forall rows vals k s d0,
    Forall2 int_inv rows vals ->
    (forall j r, nth_error rows j = Some r -> nth_error itab (k + j) = Some r) ->
    (forall j v, nth_error vals j = Some v -> nth_error (iv s) (k + j) = Some v) ->
    dv s = d0 ->
    let s' := fst (fold_set (set_int true) k vals s) in
    snd (fold_set (set_int true) k vals s) = true /\
    bv s' = bv s /\ iv s' = iv s /\ rv s' = rv s /\ tv s' = tv s /\ seed s' = seed s /\ lpd s' = lpd s /\
    dv s' = fold_left (fun d rv => apply_ieff (i_name (fst rv)) (snd rv) d) (combine rows vals) d0.
  Proof.
    intros rows vals k s d0 H; revert k s d0; induction H as [|r v rows vals Hrv H IH]; intros k s d0 Ht Hv Hd; simpl.
    - repeat split; auto.
    - pose proof (Ht 0%nat r eq_refl) as Hr. pose proof (Hv 0%nat v eq_refl) as Hc. rewrite Nat.add_0_r in Hr, Hc.
      rewrite (set_int_same k r v s Hr Hc Hrv).
      set (s1 := {| bv := bv s; iv := iv s; rv := rv s; seed := seed s; dv := apply_ieff (i_name r) v (dv s); tv := tv s; lpd := lpd s; rat := rat s |}).
      specialize (IH (S k) s1 (apply_ieff (i_name r) v d0)).
      destruct (fold_set (set_int true) (S k) vals s1) as [s2 o2] eqn:E. cbn [fst snd] in *.
      destruct IH as (Ho & ? & ? & ? & ? & ? & ? & Hdv).
      + intros j r' Hj. replace (S k + j)%nat with (k + S j)%nat by lia. apply Ht; exact Hj.
      + intros j v' Hj. replace (S k + j)%nat with (k + S j)%nat by lia. apply Hv; exact Hj.
      + subst d0; reflexivity.
      + repeat split; auto; congruence.
  Qed.

  Lemma fold_set_real_all : forall rows vals k s t0,
    Forall2 real_inv rows vals ->
    (forall j r, nth_error rows j = Some r -> nth_error rtab (k + j) = Some r) ->
    (forall j v, nth_error vals j = Some v -> nth_error (rv s) (k + j) = Some v) ->
    tv s = t0 ->
    let s' := fst (fold_set (set_real true) k vals s) in
    snd (fold_set (set_real true) k vals s) = true /\
    bv s' = bv s /\ iv s' = iv s /\ rv s' = rv s /\ dv s' = dv s /\ seed s' = seed s /\ lpd s' = lpd s /\
    tv s' = fold_left (fun d rv => apply_reff (r_name (fst rv)) (snd rv) d) (combine rows vals) t0.
  Proof.
    intros rows vals k s t0 H; revert k s t0; induction H as [|r v rows vals Hrv H IH]; intros k s t0 Ht Hv Hd; simpl.
    - repeat split; auto.
    - pose proof (Ht 0%nat r eq_refl) as Hr. pose proof (Hv 0%nat v eq_refl) as Hc. rewrite Nat.add_0_r in Hr, Hc.
      rewrite (set_real_same k r v s Hr Hc Hrv).
      set (s1 := {| bv := bv s; iv := iv s; rv := rv s; seed := seed s; dv := dv s; tv := apply_reff (r_name r) v (tv s); lpd := lpd s; rat := rat s |}).
      specialize (IH (S k) s1 (apply_reff (r_name r) v t0)).
      destruct (fold_set (set_real true) (S k) vals s1) as [s2 o2] eqn:E. cbn [fst snd] in *.
      destruct IH as (Ho & ? & ? & ? & ? & ? & ? & Hdv).
      + intros j r' Hj. replace (S k + j)%nat with (k + S j)%nat by lia. apply Ht; exact Hj.
      + intros j v' Hj. replace (S k + j)%nat with (k + S j)%nat by lia. apply Hv; exact Hj.
      + subst t0; reflexivity.
      + repeat split; auto; congruence.
  Qed.

  Lemma fold_set_bool_all : forall rows vals k s,
    Forall2 bool_inv rows vals ->
    (forall j r, nth_error rows j = Some r -> nth_error btab (k + j) = Some r) ->
    (forall j v, nth_error vals j = Some v -> nth_error (bv s) (k + j) = Some v) ->
    fold_set (set_bool true) k vals s = (s, true).
  Proof.
    intros rows vals k s H; revert k s; induction H as [|r v rows vals Hrv H IH]; intros k s Ht Hv; simpl; auto.
    pose proof (Ht 0%nat r eq_refl) as Hr. pose proof (Hv 0%nat v eq_refl) as Hc. rewrite Nat.add_0_r in Hr, Hc.
    unfold ParamsModel.set_bool at 1. rewrite Hr, Hc. simpl.
    unfold bool_valid. rewrite Bool.eqb_reflx, orb_true_r. rewrite (upd_same _ _ _ Hc).
    replace {| bv := bv s; iv := iv s; rv := rv s; seed := seed s; dv := dv s; tv := tv s; lpd := lpd s; rat := rat s |} with s by (destruct s; reflexivity).
    rewrite IH; auto.
    - intros j r' Hj. replace (S k + j)%nat with (k + S j)%nat by lia. apply Ht; exact Hj.
    - intros j v' Hj. replace (S k + j)%nat with (k + S j)%nat by lia. apply Hv; exact Hj.
  Qed.

  (* running every int effect over the whole table rewrites every derived entry *)
  Lemma apply_all_ieff ni d :
    List.length itab = List.length ni -> List.length d = List.length ieff ->
    fold_left (fun d rv => apply_ieff (i_name (fst rv)) (snd rv) d) (combine itab ni) d = derive_i ni.
  Proof.
    intros Hl Hd.
    assert (forall (effs : list (string * (Z -> Z))) (rvs : list (irow * Z)) d, List.length d = List.length effs ->
              fold_left (fun d rv => map (fun p => if String.eqb (fst (fst p)) (i_name (fst rv)) then snd (fst p) (snd rv) else snd p) (combine effs d)) rvs d
              = map (fun p => fold_left (slotf i_name (snd (fst p)) (fst (fst p))) rvs (snd p)) (combine effs d)) as G.
    { intros effs rvs; induction rvs as [|rv rvs IH]; intros d' Hd'; cbn [fold_left].
      - clear - Hd'. revert effs Hd'. induction d' as [|x d' IH]; intros [|e l] H; simpl in *; try discriminate; auto.
        f_equal. apply IH. lia.
      - rewrite IH.
        + clear - Hd'. revert effs Hd'.
          induction d' as [|x d' IH]; intros [|e l] H; simpl in *; try discriminate; auto.
          f_equal; auto.
        + rewrite map_length, combine_length. lia. }
    unfold apply_ieff.
    rewrite G; auto. unfold ParamsModel.derive_i.
    assert (forallb (fun nf => match find_idx i_name (fst nf) itab with Some _ => true | None => false end) ieff = true) as Hall.
    { unfold table_ok in TOK. apply andb_true_iff in TOK as [T _]. now apply andb_true_iff in T as [_ T]. }
    destruct tok_parts as (_ & Hnd & _).
    clear G. revert d Hd Hall. generalize ieff. intros l; induction l as [|e l IH]; intros [|x d] Hd Hall; simpl in *; try discriminate; auto.
    apply andb_true_iff in Hall as [He Hall]. f_equal.
    - destruct (find_idx i_name (fst e) itab) as [j|] eqn:F; try discriminate.
      rewrite (fold_hit i_name 0 (snd e) (fst e) itab ni x j Hnd Hl F). unfold get_int. now rewrite F.
    - apply IH; auto.
  Qed.

  Lemma apply_all_reff nr t :
    List.length rtab = List.length nr -> List.length t = List.length reff ->
    fold_left (fun d rv => apply_reff (r_name (fst rv)) (snd rv) d) (combine rtab nr) t = derive_r nr.
  Proof.
    intros Hl Hd.
    assert (forall (effs : list string) (rvs : list (rrow * dbl)) d, List.length d = List.length effs ->
              fold_left (fun d rv => map (fun p => if String.eqb (fst p) (r_name (fst rv)) then snd rv else snd p) (combine effs d)) rvs d
              = map (fun p => fold_left (slotf r_name (fun v => v) (fst p)) rvs (snd p)) (combine effs d)) as G.
    { intros effs rvs; induction rvs as [|rv rvs IH]; intros d' Hd'; cbn [fold_left].
      - clear - Hd'. revert effs Hd'. induction d' as [|x d' IH]; intros [|e l] H; simpl in *; try discriminate; auto.
        f_equal. apply IH. lia.
      - rewrite IH.
        + clear - Hd'. revert effs Hd'.
          induction d' as [|x d' IH]; intros [|e l] H; simpl in *; try discriminate; auto.
          f_equal; auto.
        + rewrite map_length, combine_length. lia. }
    unfold apply_reff.
    rewrite G; auto. unfold ParamsModel.derive_r.
    assert (forallb (fun n => match find_idx r_name n rtab with Some _ => true | None => false end) reff = true) as Hall.
    { unfold table_ok in TOK. now apply andb_true_iff in TOK as [_ T]. }
    destruct tok_parts as (_ & _ & Hnd & _).
    clear G. revert t Hd Hall. generalize reff. intros l; induction l as [|e l IH]; intros [|x d] Hd Hall; simpl in *; try discriminate; auto.
    apply andb_true_iff in Hall as [He Hall]. f_equal.
    - destruct (find_idx r_name e rtab) as [j|] eqn:F; try discriminate.
      rewrite (fold_hit r_name DNaN (fun v => v) e rtab nr x j Hnd Hl F). unfold get_real. now rewrite F.
    - apply IH; auto.
  Qed.

  (* values taken from a consistent state are accepted by setSettings; the result has exactly these values
     and the components in use follow them *)
  Lemma set_settings_spec nb ni nr s :
    List.length (dv s) = List.length ieff -> List.length (tv s) = List.length reff ->
    Forall2 bool_inv btab nb -> Forall2 int_inv itab ni -> Forall2 real_inv rtab nr ->
    let r := set_settings btab itab rtab nb ni nr s in
    snd r = true /\ bv (fst r) = nb /\ iv (fst r) = ni /\ rv (fst r) = nr /\
    seed (fst r) = seed s /\ lpd (fst r) = lpd s /\ Consistent (fst r).
  Proof.
    intros Ld Lt Hb Hi Hr. unfold set_settings.
    set (s0 := {| bv := nb; iv := ni; rv := nr; seed := seed s; dv := dv s; tv := tv s; lpd := lpd s;
                  rat := if get_int itab "syncmode" ni =? get_int itab "syncmode" (iv s) then rat s else -1 |}).
    rewrite (fold_set_bool_all btab nb 0%nat s0 Hb); simpl; auto.
    pose proof (fold_set_int_all itab ni 0%nat s0 (dv s) Hi) as HI. simpl in HI.
    destruct (fold_set (set_int true) 0 ni s0) as [s2 o2] eqn:E2. simpl in HI.
    destruct HI as (-> & B2 & I2 & R2 & T2 & S2 & L2 & D2); auto.
    pose proof (fold_set_real_all rtab nr 0%nat s2 (tv s2) Hr) as HR. simpl in HR.
    destruct (fold_set (set_real true) 0 nr s2) as [s3 o3] eqn:E3. simpl in HR.
    destruct HR as (-> & B3 & I3 & R3 & D3 & S3 & L3 & T3); auto.
    { intros j v Hj. now rewrite R2. }
    assert (Consistent s3) as C3.
    { apply Build_Consistent; rewrite ?B3, ?I3, ?R3, ?B2, ?I2, ?R2; auto.
      - rewrite D3, D2. apply apply_all_ieff; auto. eapply Forall2_length'; eauto.
      - rewrite T3, T2. apply apply_all_reff; auto. eapply Forall2_length'; eauto. }
    simpl. rewrite B3, I3, R3, S3, L3, B2, I2, R2, S2, L2. repeat (split; [reflexivity|]). exact C3.
  Qed.

  Lemma consistent_lengths s : Consistent s -> List.length (dv s) = List.length ieff /\ List.length (tv s) = List.length reff.
  Proof. intros [_ _ _ cd ct]. rewrite cd, ct. unfold ParamsModel.derive_i, ParamsModel.derive_r. now rewrite !map_length. Qed.

  Theorem step_consistent s o : Consistent s -> Consistent (fst (step s o)).
  Proof.
    intros C. destruct o as [i v|i v|i v|n|l sd|ls| | |[[ob oi] orl]]; simpl.
    - now apply set_bool_consistent.
    - now apply set_int_consistent.
    - now apply set_real_consistent.
    - now apply set_seed_consistent.
    - now apply parse_line_consistent.
    - apply fold_left_consistent; auto. intros; now apply parse_line_consistent.
    - now apply reset_consistent.
    - destruct C as [cb ci cr cd ct]. constructor; auto.
    - destruct (consistent_lengths s C) as [Ld Lt].
      set (o3 := fold_left _ orl _).
      assert (Consistent o3) as C3.
      { unfold o3. repeat apply fold_left_consistent;
          try (intros; first [now apply set_bool_consistent | now apply set_int_consistent | now apply set_real_consistent]).
        apply init_consistent. }
      destruct C3 as [cb ci cr _ _].
      exact (proj2 (proj2 (proj2 (proj2 (proj2 (proj2 (set_settings_spec (bv o3) (iv o3) (rv o3) s Ld Lt cb ci cr))))))).
  Qed.

  Theorem run_consistent lp ops : Consistent (run btab itab rtab (init lp) ops).
  Proof.
    unfold run. apply fold_left_consistent.
    - intros; now apply step_consistent.
    - apply init_consistent.
  Qed.

  (* ---- accepted values are stored, rejected values change nothing ---- *)
  Theorem set_int_accepts i r v s :
    Consistent s -> nth_error itab i = Some r -> int_valid r v = true ->
    let res := set_int true i v s in
    snd res = true /\ nth_error (iv (fst res)) i = Some v /\
    (forall k, k <> i -> nth_error (iv (fst res)) k = nth_error (iv s) k) /\
    bv (fst res) = bv s /\ rv (fst res) = rv s /\ seed (fst res) = seed s /\ lpd (fst res) = lpd s.
  Proof.
    intros C Hr Hv. unfold ParamsModel.set_int. rewrite Hr.
    assert (i < List.length (iv s))%nat as Hl.
    { rewrite <- (Forall2_length' _ _ _ (c_i s C)). eapply nth_error_lt; eauto. }
    destruct (nth_error (iv s) i) as [cur|] eqn:Hc.
    2:{ apply nth_error_None in Hc. lia. }
    simpl. rewrite Hv. simpl. repeat split; auto.
    - now apply nth_error_upd_same.
    - intros k Hk. apply nth_error_upd_other. congruence.
  Qed.

  Theorem set_int_rejects ini i r v s :
    nth_error itab i = Some r -> int_valid r v = false ->
    (ini = true \/ nth_error (iv s) i <> Some v) ->
    set_int ini i v s = (s, false).
  Proof.
    intros Hr Hv Hne. unfold ParamsModel.set_int. rewrite Hr.
    destruct (nth_error (iv s) i) as [cur|] eqn:Hc; auto.
    rewrite Hv. destruct Hne as [->|Hne]; simpl; auto.
    destruct (v =? cur) eqn:E; simpl; auto.
    - apply Z.eqb_eq in E. congruence.
    - now rewrite andb_false_r.
  Qed.

  Theorem set_real_accepts i r v s :
    Consistent s -> nth_error rtab i = Some r -> in_range (r_lo r) (r_up r) v = true -> r_settable r = true ->
    let res := set_real true i v s in
    snd res = true /\ nth_error (rv (fst res)) i = Some v /\
    (forall k, k <> i -> nth_error (rv (fst res)) k = nth_error (rv s) k) /\
    bv (fst res) = bv s /\ iv (fst res) = iv s /\ seed (fst res) = seed s /\ lpd (fst res) = lpd s.
  Proof.
    intros C Hr Hv Hs. unfold ParamsModel.set_real. rewrite Hr.
    assert (i < List.length (rv s))%nat as Hl.
    { rewrite <- (Forall2_length' _ _ _ (c_r s C)). eapply nth_error_lt; eauto. }
    destruct (nth_error (rv s) i) as [cur|] eqn:Hc.
    2:{ apply nth_error_None in Hc. lia. }
    simpl. unfold real_valid. rewrite Hv, Hs. simpl. repeat split; auto.
    - now apply nth_error_upd_same.
    - intros k Hk. apply nth_error_upd_other. congruence.
  Qed.

  (* out of range, NaN included: rejected, nothing changes *)
  Theorem set_real_rejects i r v s :
    nth_error rtab i = Some r -> in_range (r_lo r) (r_up r) v = false ->
    set_real true i v s = (s, false).
  Proof.
    intros Hr Hv. unfold ParamsModel.set_real. rewrite Hr.
    destruct (nth_error (rv s) i) as [cur|] eqn:Hc; auto.
    simpl. unfold real_valid. now rewrite Hv.
  Qed.

  Corollary set_real_rejects_nan i r s : nth_error rtab i = Some r -> set_real true i DNaN s = (s, false).
  Proof. intros Hr. eapply set_real_rejects; eauto. apply nan_not_in_range. Qed.

  Theorem set_bool_accepts i r v s :
    Consistent s -> nth_error btab i = Some r -> b_settable r = true ->
    let res := set_bool true i v s in
    snd res = true /\ nth_error (bv (fst res)) i = Some v /\
    (forall k, k <> i -> nth_error (bv (fst res)) k = nth_error (bv s) k) /\
    iv (fst res) = iv s /\ rv (fst res) = rv s /\ seed (fst res) = seed s /\ lpd (fst res) = lpd s /\
    dv (fst res) = dv s /\ tv (fst res) = tv s.
  Proof.
    intros C Hr Hs. unfold ParamsModel.set_bool. rewrite Hr.
    assert (i < List.length (bv s))%nat as Hl.
    { rewrite <- (Forall2_length' _ _ _ (c_b s C)). eapply nth_error_lt; eauto. }
    destruct (nth_error (bv s) i) as [cur|] eqn:Hc.
    2:{ apply nth_error_None in Hc. lia. }
    simpl. unfold bool_valid. rewrite Hs. simpl. repeat split; auto.
    - now apply nth_error_upd_same.
    - intros k Hk. apply nth_error_upd_other. congruence.
  Qed.

  (* every operation that reports failure leaves the whole state untouched *)
  Theorem setter_false_noop :
    (forall ini i v s, snd (set_bool ini i v s) = false -> fst (set_bool ini i v s) = s) /\
    (forall ini i v s, snd (set_int ini i v s) = false -> fst (set_int ini i v s) = s) /\
    (forall ini i v s, snd (set_real ini i v s) = false -> fst (set_real ini i v s) = s).
  Proof.
    repeat split; intros ini i v s; unfold ParamsModel.set_bool, ParamsModel.set_int, ParamsModel.set_real;
      repeat match goal with
             | |- context [match ?x with Some _ => _ | None => _ end] => destruct x
             | |- context [if ?b then _ else _] => destruct b
             end; simpl; auto; discriminate.
  Qed.

  Theorem parse_false_noop stod l s :
    snd (parse_line btab itab rtab stod l s) = false -> fst (parse_line btab itab rtab stod l s) = s.
  Proof.
    destruct setter_false_noop as (Hb & Hi & Hr).
    unfold parse_line. destruct (tokenise l); simpl; auto; try discriminate. unfold parse_tokens.
    repeat match goal with
           | |- context [if ?b then _ else _] => destruct b
           | |- context [match ?x with Some _ => _ | None => _ end] => destruct x
           end; simpl; auto; try discriminate.
  Qed.

  (* ---- no parameter operation touches the stored LP other than through sense (dv) and offset (tv) ---- *)
  Lemma fold_set_lpd {V} (f : nat -> V -> pstate -> pstate * bool) :
    (forall k v s, lpd (fst (f k v s)) = lpd s /\ seed (fst (f k v s)) = seed s) ->
    forall vals k s, lpd (fst (fold_set f k vals s)) = lpd s /\ seed (fst (fold_set f k vals s)) = seed s.
  Proof.
    intros Hf vals; induction vals as [|v vals IH]; intros k s; simpl; auto.
    destruct (f k v s) as [s1 o1] eqn:E1. destruct (fold_set f (S k) vals s1) as [s2 o2] eqn:E2. simpl.
    specialize (IH (S k) s1). rewrite E2 in IH. specialize (Hf k v s). rewrite E1 in Hf. simpl in *.
    destruct IH, Hf. split; congruence.
  Qed.

  Lemma setters_lpd :
    (forall ini k v s, lpd (fst (set_bool ini k v s)) = lpd s /\ seed (fst (set_bool ini k v s)) = seed s) /\
    (forall ini k v s, lpd (fst (set_int ini k v s)) = lpd s /\ seed (fst (set_int ini k v s)) = seed s) /\
    (forall ini k v s, lpd (fst (set_real ini k v s)) = lpd s /\ seed (fst (set_real ini k v s)) = seed s).
  Proof.
    repeat split; unfold ParamsModel.set_bool, ParamsModel.set_int, ParamsModel.set_real;
      repeat match goal with
             | |- context [match ?x with Some _ => _ | None => _ end] => destruct x
             | |- context [if ?b then _ else _] => destruct b
             end; simpl; auto.
  Qed.

  Lemma parse_lpd stod l s : lpd (fst (parse_line btab itab rtab stod l s)) = lpd s.
  Proof.
    destruct setters_lpd as (Hb & Hi & Hr).
    unfold parse_line. destruct (tokenise l); simpl; auto. unfold parse_tokens.
    repeat match goal with
           | |- context [if ?b then _ else _] => destruct b
           | |- context [match ?x with Some _ => _ | None => _ end] => destruct x
           end; simpl; auto; first [apply Hb | apply Hi | apply Hr].
  Qed.

  Theorem step_lpd s o : lpd (fst (step s o)) = lpd s.
  Proof.
    destruct setters_lpd as (Hb & Hi & Hr).
    destruct o as [i v|i v|i v|n|l sd|ls| | |[[ob oi] orl]]; simpl; auto; try first [apply Hb | apply Hi | apply Hr].
    - apply parse_lpd.
    - revert s. induction ls as [|l ls IH]; intros s; simpl; auto. rewrite IH. apply parse_lpd.
    - unfold reset.
      destruct (fold_set (set_bool true) 0 (map b_def btab) s) as [s1 o1] eqn:E1.
      destruct (fold_set (set_int true) 0 (map i_def itab) s1) as [s2 o2] eqn:E2.
      destruct (fold_set (set_real true) 0 (map r_def rtab) s2) as [s3 o3] eqn:E3.
      pose proof (fold_set_lpd (set_bool true) (Hb true) (map b_def btab) 0%nat s) as [P1 _]. rewrite E1 in P1.
      pose proof (fold_set_lpd (set_int true) (Hi true) (map i_def itab) 0%nat s1) as [P2 _]. rewrite E2 in P2.
      pose proof (fold_set_lpd (set_real true) (Hr true) (map r_def rtab) 0%nat s2) as [P3 _]. rewrite E3 in P3.
      simpl in *. congruence.
    - unfold set_settings.
      match goal with |- context [fold_set (set_bool true) 0 ?nb ?s0] =>
        destruct (fold_set (set_bool true) 0 nb s0) as [s1 o1] eqn:E1;
        pose proof (fold_set_lpd (set_bool true) (Hb true) nb 0%nat s0) as [P1 _]; rewrite E1 in P1 end.
      match goal with |- context [fold_set (set_int true) 0 ?ni s1] =>
        destruct (fold_set (set_int true) 0 ni s1) as [s2 o2] eqn:E2;
        pose proof (fold_set_lpd (set_int true) (Hi true) ni 0%nat s1) as [P2 _]; rewrite E2 in P2 end.
      match goal with |- context [fold_set (set_real true) 0 ?nr s2] =>
        destruct (fold_set (set_real true) 0 nr s2) as [s3 o3] eqn:E3;
        pose proof (fold_set_lpd (set_real true) (Hr true) nr 0%nat s2) as [P3 _]; rewrite E3 in P3 end.
      simpl in *. congruence.
  Qed.

  (* ---- the rational LP is touched only by a change of the synchronisation mode ---- *)
  Theorem rat_untouched_by_other_setters :
    (forall ini k v s, rat (fst (set_bool ini k v s)) = rat s) /\
    (forall ini k v s, rat (fst (set_real ini k v s)) = rat s) /\
    (forall n s, rat (set_seed n s) = rat s) /\
    (forall ini k v s r, nth_error itab k = Some r -> i_name r <> "syncmode"%string -> rat (fst (set_int ini k v s)) = rat s).
  Proof.
    repeat split.
    - intros; unfold ParamsModel.set_bool;
        repeat match goal with |- context [match ?x with Some _ => _ | None => _ end] => destruct x
                             | |- context [if ?b then _ else _] => destruct b end; auto.
    - intros; unfold ParamsModel.set_real;
        repeat match goal with |- context [match ?x with Some _ => _ | None => _ end] => destruct x
                             | |- context [if ?b then _ else _] => destruct b end; auto.
    - intros ini k v s r Hr Hn. unfold ParamsModel.set_int. rewrite Hr.
      destruct (nth_error (iv s) k) as [cur|]; auto.
      destruct (negb ini && (v =? cur)); auto. destruct (int_valid r v); auto. simpl.
      unfold rat_effect. apply String.eqb_neq in Hn. now rewrite Hn.
  Qed.

  (* switching the mode: ONLYREAL drops it, AUTO synchronises it from the floating-point LP only when coming from ONLYREAL
     (never from MANUAL: rational data entered there is kept verbatim), MANUAL creates an empty one only if there is none *)
  Theorem rat_on_syncmode k r cur v s :
    nth_error itab k = Some r -> i_name r = "syncmode"%string -> nth_error (iv s) k = Some cur -> int_valid r v = true ->
    rat (fst (set_int true k v s)) =
      (if v =? cur then rat s else if v =? 0 then 0 else if v =? 1 then (if cur =? 0 then 2 else rat s)
       else if v =? 2 then (if rat s =? 0 then 3 else rat s) else rat s).
  Proof.
    intros Hr Hn Hc Hv. unfold ParamsModel.set_int. rewrite Hr, Hc. simpl. rewrite Hv. simpl.
    unfold rat_effect. rewrite Hn. reflexivity.
  Qed.

  (* ---- reset restores the documented defaults ---- *)
  Fixpoint upd_range {V} (k : nat) (vals : list V) (l : list V) : list V :=
    match vals with [] => l | v :: r => upd_range (S k) r (upd k v l) end.

  Lemma firstn_upd_S {V} k (v : V) l : (k < List.length l)%nat -> firstn (S k) (upd k v l) = firstn k l ++ [v].
  Proof. revert k; induction l as [|a l IH]; intros [|k] H; simpl in *; try lia; auto. f_equal. apply IH. lia. Qed.

  Lemma upd_range_all {V} (vals : list V) : forall k l, List.length l = (k + List.length vals)%nat ->
    upd_range k vals l = firstn k l ++ vals.
  Proof.
    induction vals as [|v vals IH]; intros k l H; simpl in *.
    - rewrite app_nil_r. rewrite firstn_all2; auto. lia.
    - rewrite IH by (rewrite upd_length; lia). rewrite firstn_upd_S by lia. now rewrite <- app_assoc.
  Qed.

  Lemma fold_set_positions {V} (f : nat -> V -> pstate -> pstate * bool) (proj : pstate -> list V) (G : nat -> V -> Prop) :
    (forall k v s, Consistent s -> Consistent (fst (f k v s))) ->
    (forall k v s, Consistent s -> G k v -> proj (fst (f k v s)) = upd k v (proj s)) ->
    forall vals k s, Consistent s -> (forall j v, nth_error vals j = Some v -> G (k + j)%nat v) ->
      proj (fst (fold_set f k vals s)) = upd_range k vals (proj s).
  Proof.
    intros Hc Hp vals; induction vals as [|v vals IH]; intros k s C HG; simpl; auto.
    destruct (f k v s) as [s1 o1] eqn:E1. destruct (fold_set f (S k) vals s1) as [s2 o2] eqn:E2. simpl.
    pose proof (Hc k v s C) as C1. rewrite E1 in C1. simpl in C1.
    pose proof (Hp k v s C) as P1. rewrite E1 in P1. simpl in P1.
    specialize (IH (S k) s1 C1). rewrite E2 in IH. cbn [fst] in IH. rewrite IH.
    - rewrite P1; auto. specialize (HG 0%nat v eq_refl). now rewrite Nat.add_0_r in HG.
    - intros j v' Hj. replace (S k + j)%nat with (k + S j)%nat by lia. apply HG; exact Hj.
  Qed.

  Lemma frame_fold {V} (f : nat -> V -> pstate -> pstate * bool) {X} (proj : pstate -> X) :
    (forall k v s, proj (fst (f k v s)) = proj s) ->
    forall vals k s, proj (fst (fold_set f k vals s)) = proj s.
  Proof.
    intros Hf vals; induction vals as [|v vals IH]; intros k s; simpl; auto.
    destruct (f k v s) as [s1 o1] eqn:E1. destruct (fold_set f (S k) vals s1) as [s2 o2] eqn:E2. simpl.
    specialize (IH (S k) s1). rewrite E2 in IH. specialize (Hf k v s). rewrite E1 in Hf. simpl in *. congruence.
  Qed.

  Lemma deq_sym a b : deq a b = true -> deq b a = true.
  Proof.
    destruct a as [| | |m1 e1], b as [| | |m2 e2]; simpl; auto. unfold dcmp_fin.
    rewrite (Z.min_comm e2 e1). rewrite (Z.compare_antisym (m1 * _) (m2 * _)).
    destruct (m1 * 2 ^ (e1 - Z.min e1 e2) ?= m2 * 2 ^ (e2 - Z.min e1 e2)); simpl; auto.
  Qed.

  Lemma map_nth_error_def {A B} (g : A -> B) t j v : nth_error (map g t) j = Some v -> exists r, nth_error t j = Some r /\ v = g r.
  Proof.
    revert j; induction t as [|a t IH]; intros [|j] H; simpl in *; try discriminate.
    - injection H as <-. eauto.
    - eauto.
  Qed.

  Theorem reset_restores_defaults s lp :
    Consistent s ->
    let s' := reset btab itab rtab s in
    bv s' = bv (init lp) /\ iv s' = iv (init lp) /\ rv s' = rv (init lp) /\
    dv s' = dv (init lp) /\ tv s' = tv (init lp) /\ seed s' = seed s /\ lpd s' = lpd s.
  Proof.
    intros C. destruct tok_parts as (_ & _ & _ & Hi & Hr).
    pose proof (reset_consistent s C) as CR.
    unfold reset in *.
    destruct (fold_set (set_bool true) 0 (map b_def btab) s) as [s1 o1] eqn:E1.
    destruct (fold_set (set_int true) 0 (map i_def itab) s1) as [s2 o2] eqn:E2.
    destruct (fold_set (set_real true) 0 (map r_def rtab) s2) as [s3 o3] eqn:E3.
    pose proof (fold_set_consistent (set_bool true) (set_bool_consistent true) (map b_def btab) 0%nat s C) as C1.
    rewrite E1 in C1. simpl in C1.
    pose proof (fold_set_consistent (set_int true) (set_int_consistent true) (map i_def itab) 0%nat s1 C1) as C2.
    rewrite E2 in C2. simpl in C2.
    (* bools *)
    assert (bv s1 = map b_def btab) as B1.
    { pose proof (fold_set_positions (set_bool true) bv (fun k v => exists r, nth_error btab k = Some r /\ v = b_def r)
                    (set_bool_consistent true)) as P.
      rewrite <- (f_equal fst E1 : fst (fold_set (set_bool true) 0 (map b_def btab) s) = s1).
      rewrite P; auto.
      - rewrite upd_range_all; auto. rewrite map_length. symmetry. apply (Forall2_length' _ _ _ (c_b s C)).
      - intros k v s0 C0 (r & Hr0 & ->). unfold ParamsModel.set_bool. rewrite Hr0.
        destruct (nth_error (bv s0) k) as [cur|] eqn:Hc.
        2:{ apply nth_error_None in Hc. rewrite <- (Forall2_length' _ _ _ (c_b s0 C0)) in Hc. apply nth_error_lt in Hr0. lia. }
        simpl. assert (bool_valid r cur (b_def r) = true) as V.
        { unfold bool_valid. destruct (Forall2_nth_error _ _ _ _ _ _ (c_b s0 C0) Hr0 Hc) as [->| ->]; auto.
          now rewrite Bool.eqb_reflx, orb_true_r. }
        now rewrite V.
      - intros j v Hj. simpl. now apply map_nth_error_def. }
    assert (iv s2 = map i_def itab) as I2.
    { pose proof (fold_set_positions (set_int true) iv (fun k v => exists r, nth_error itab k = Some r /\ v = i_def r)
                    (set_int_consistent true)) as P.
      rewrite <- (f_equal fst E2 : fst (fold_set (set_int true) 0 (map i_def itab) s1) = s2).
      rewrite P; auto.
      - rewrite upd_range_all; auto. rewrite map_length. symmetry. apply (Forall2_length' _ _ _ (c_i s1 C1)).
      - intros k v s0 C0 (r & Hr0 & ->). unfold ParamsModel.set_int. rewrite Hr0.
        destruct (nth_error (iv s0) k) as [cur|] eqn:Hc.
        2:{ apply nth_error_None in Hc. rewrite <- (Forall2_length' _ _ _ (c_i s0 C0)) in Hc. apply nth_error_lt in Hr0. lia. }
        simpl. assert (int_valid r (i_def r) = true) as V.
        { rewrite forallb_forall in Hi. specialize (Hi r (nth_error_In _ _ Hr0)). unfold irow_ok in Hi.
          repeat (apply andb_true_iff in Hi as [Hi ?]). auto. }
        now rewrite V.
      - intros j v Hj. simpl. now apply map_nth_error_def. }
    assert (rv s3 = map r_def rtab) as R3.
    { pose proof (fold_set_positions (set_real true) rv (fun k v => exists r, nth_error rtab k = Some r /\ v = r_def r)
                    (set_real_consistent true)) as P.
      rewrite <- (f_equal fst E3 : fst (fold_set (set_real true) 0 (map r_def rtab) s2) = s3).
      rewrite P; auto.
      - rewrite upd_range_all; auto. rewrite map_length. symmetry. apply (Forall2_length' _ _ _ (c_r s2 C2)).
      - intros k v s0 C0 (r & Hr0 & ->). unfold ParamsModel.set_real. rewrite Hr0.
        destruct (nth_error (rv s0) k) as [cur|] eqn:Hc.
        2:{ apply nth_error_None in Hc. rewrite <- (Forall2_length' _ _ _ (c_r s0 C0)) in Hc. apply nth_error_lt in Hr0. lia. }
        simpl. assert (real_valid r cur (r_def r) = true) as V.
        { rewrite forallb_forall in Hr. specialize (Hr r (nth_error_In _ _ Hr0)). unfold rrow_ok in Hr.
          unfold real_valid. rewrite Hr. simpl.
          destruct (Forall2_nth_error _ _ _ _ _ _ (c_r s0 C0) Hr0 Hc) as [_ [->|D]]; auto.
          rewrite (deq_sym _ _ D). apply orb_true_r. }
        now rewrite V.
      - intros j v Hj. simpl. now apply map_nth_error_def. }
    destruct setters_lpd as (Lb & Li & Lr).
    assert (forall k v s, bv (fst (set_int true k v s)) = bv s) as FIb.
    { intros; unfold ParamsModel.set_int; repeat match goal with |- context [match ?x with Some _ => _ | None => _ end] => destruct x
        | |- context [if ?b then _ else _] => destruct b end; auto. }
    assert (forall k v s, bv (fst (set_real true k v s)) = bv s /\ iv (fst (set_real true k v s)) = iv s) as FR.
    { intros; unfold ParamsModel.set_real; repeat match goal with |- context [match ?x with Some _ => _ | None => _ end] => destruct x
        | |- context [if ?b then _ else _] => destruct b end; auto. }
    pose proof (frame_fold (set_int true) bv FIb (map i_def itab) 0%nat s1) as B2. rewrite E2 in B2. simpl in B2.
    pose proof (frame_fold (set_real true) bv (fun k v s => proj1 (FR k v s)) (map r_def rtab) 0%nat s2) as B3. rewrite E3 in B3. simpl in B3.
    pose proof (frame_fold (set_real true) iv (fun k v s => proj2 (FR k v s)) (map r_def rtab) 0%nat s2) as I3. rewrite E3 in I3. simpl in I3.
    pose proof (fold_set_lpd (set_bool true) (Lb true) (map b_def btab) 0%nat s) as [P1 Q1]. rewrite E1 in P1, Q1.
    pose proof (fold_set_lpd (set_int true) (Li true) (map i_def itab) 0%nat s1) as [P2 Q2]. rewrite E2 in P2, Q2.
    pose proof (fold_set_lpd (set_real true) (Lr true) (map r_def rtab) 0%nat s2) as [P3 Q3]. rewrite E3 in P3, Q3.
    simpl in *.
    assert (iv s3 = map i_def itab) as I3' by congruence.
    repeat split; try congruence.
    - rewrite (c_d s3 CR). now rewrite I3'.
    - rewrite (c_t s3 CR). now rewrite R3.
  Qed.
End Inv.

(* ---------- the canonical line format written by saveSettingsFile is tokenised as intended ---------- *)
Definition clean (sep : Z) (t : list Z) : Prop :=
  Forall (fun c => is_blank c = false /\ is_eol c = false /\ c <> 0 /\ c <> sep) t.

Lemma cstr_app_clean a b : Forall (fun c => c <> 0) a -> cstr (a ++ b) = a ++ cstr b.
Proof. induction 1 as [|c a Hc H IH]; simpl; auto. apply Z.eqb_neq in Hc. rewrite Hc. now f_equal. Qed.

Lemma span_tok_clean sep t rest :
  clean sep t -> (match rest with [] => True | c :: _ => is_blank c = true \/ is_eol c = true \/ c = sep end) ->
  span_tok sep (t ++ rest) = (t, rest).
Proof.
  induction 1 as [|c t (Hb & He & Hz & Hs) H IH]; intros Hr; cbn [app span_tok].
  - destruct rest as [|c r]; auto. cbn [span_tok].
    destruct Hr as [H1|[H1|H1]].
    + now rewrite H1.
    + now rewrite H1, orb_true_r.
    + subst c. now rewrite Z.eqb_refl, !orb_true_r.
  - rewrite Hb, He. apply Z.eqb_neq in Hs. rewrite Hs. cbn [orb]. now rewrite IH.
Qed.

Lemma skipws_clean sep c t : clean sep (c :: t) -> skipws (c :: t) = c :: t.
Proof. intros H. inversion H as [|? ? (Hb & _) _]; subst. simpl. now rewrite Hb. Qed.

Lemma at_end_clean sep c t : clean sep (c :: t) -> at_end (c :: t) = false.
Proof. intros H. inversion H as [|? ? (_ & He & _) _]; subst. exact He. Qed.

(* "type:name = value" *)
Theorem tokenise_canonical ty name val :
  ty <> [] -> name <> [] -> val <> [] -> clean 58 ty -> clean 61 name -> clean (-1) val ->
  tokenise (ty ++ [58] ++ name ++ [32; 61; 32] ++ val) = TOk ty name val.
Proof.
  intros Nt Nn Nv Ct Cn Cv. unfold tokenise.
  assert (forall sep t, clean sep t -> Forall (fun c => c <> 0) t) as NZ.
  { intros sep t H. eapply Forall_impl; [|exact H]. simpl. tauto. }
  assert (cstr (ty ++ [58] ++ name ++ [32; 61; 32] ++ val) = ty ++ [58] ++ name ++ [32; 61; 32] ++ val) as ->.
  { rewrite cstr_app_clean by eauto. f_equal. simpl. f_equal. rewrite cstr_app_clean by eauto. f_equal.
    simpl. do 3 f_equal. rewrite <- (app_nil_r val) at 1. rewrite cstr_app_clean by eauto. simpl. now rewrite app_nil_r. }
  destruct ty as [|c ty]; try congruence.
  change ((c :: ty) ++ [58] ++ name ++ [32; 61; 32] ++ val) with (c :: (ty ++ [58] ++ name ++ [32; 61; 32] ++ val)).
  assert (skipws (c :: ty ++ [58] ++ name ++ [32; 61; 32] ++ val) = (c :: ty) ++ [58] ++ name ++ [32; 61; 32] ++ val) as ->.
  { inversion Ct as [|? ? (Hb & _) _]; subst. simpl. now rewrite Hb. }
  assert (at_end ((c :: ty) ++ [58] ++ name ++ [32; 61; 32] ++ val) = false) as ->.
  { inversion Ct as [|? ? (_ & He & _) _]; subst. exact He. }
  rewrite span_tok_clean; auto. 2:{ simpl. auto. }
  cbn [app expect_sep]. rewrite Z.eqb_refl.
  destruct name as [|d name]; try congruence.
  change ((d :: name) ++ 32 :: 61 :: 32 :: val) with (d :: (name ++ 32 :: 61 :: 32 :: val)).
  assert (skipws (d :: name ++ 32 :: 61 :: 32 :: val) = (d :: name) ++ [32; 61; 32] ++ val) as ->.
  { inversion Cn as [|? ? (Hb & _) _]; subst. simpl. now rewrite Hb. }
  assert (at_end ((d :: name) ++ [32; 61; 32] ++ val) = false) as ->.
  { inversion Cn as [|? ? (_ & He & _) _]; subst. exact He. }
  rewrite span_tok_clean; auto. 2:{ simpl. auto. }
  cbn [app expect_sep]. change (32 =? 61) with false. cbn iota.
  destruct val as [|e val]; try congruence.
  change (skipws (61 :: 32 :: e :: val)) with (61 :: 32 :: e :: val). cbn iota. change (61 =? 61) with true. cbn iota.
  assert (skipws (32 :: e :: val) = (e :: val) ++ []) as ->.
  { inversion Cv as [|? ? (Hb & _) _]; subst. simpl. rewrite Hb. now rewrite app_nil_r. }
  assert (at_end ((e :: val) ++ []) = false) as ->.
  { inversion Cv as [|? ? (_ & He & _) _]; subst. exact He. }
  rewrite span_tok_clean; auto.
Qed.
