From Coq Require Import List String Bool Arith Lia.
From SV Require Import CopyGraph.
Import ListNotations.

Lemma cell_eqb_true a b : cell_eqb a b = true <-> a = b.
Proof.
  destruct a as [o1 m1], b as [o2 m2]. unfold cell_eqb; simpl. rewrite andb_true_iff, Nat.eqb_eq, String.eqb_eq.
  split; [intros [-> ->]; reflexivity | intros H; injection H; auto].
Qed.

(* If every entry of the table is safe, no member of the copy designates a cell owned by the source. *)
Theorem safe_table_no_aliasing (t : list (string * decl * how)) (s c : obj) :
  table_safe t = true -> s <> c ->
  forall e src_cell, In e t -> fst src_cell = s -> fst (cell_of_copy c e src_cell) <> s.
Proof.
  intros Ht Hsc e src_cell He Hs. unfold table_safe in Ht. rewrite forallb_forall in Ht.
  specialize (Ht e He). unfold cell_of_copy. rewrite Ht. simpl. congruence.
Qed.

(* Consequently a write through any member of the copy is invisible through every cell owned by the source ... *)
Theorem copy_write_frame (t : list (string * decl * how)) (s c : obj) (h : heap) :
  table_safe t = true -> s <> c ->
  forall e src_cell v k, In e t -> fst src_cell = s -> fst k = s ->
    write h (cell_of_copy c e src_cell) v k = h k.
Proof.
  intros Ht Hsc e src_cell v k He Hs Hk. unfold write.
  destruct (cell_eqb k (cell_of_copy c e src_cell)) eqn:E; auto.
  apply cell_eqb_true in E. exfalso.
  apply (safe_table_no_aliasing t s c Ht Hsc e src_cell He Hs). now rewrite <- E.
Qed.

(* ... and an unsafe entry really aliases: the statement is sharp. *)
Theorem unsafe_entry_aliases (s c : obj) (e : string * decl * how) (src_cell : cell) (h : heap) v :
  safe (snd (fst e)) (snd e) = false -> write h (cell_of_copy c e src_cell) v src_cell = v.
Proof.
  intros H. unfold cell_of_copy, write. rewrite H.
  assert (cell_eqb src_cell src_cell = true) as -> by (now apply cell_eqb_true). reflexivity.
Qed.
