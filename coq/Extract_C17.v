(* Extraction of the generator model (ExtrOcamlBasic only; N and positive stay the extracted inductive types). *)
From Coq Require Extraction.
From Coq Require Import ExtrOcamlBasic NArith ZArith List.
From SV Require Import RandomModel.

Extraction "../extract/C17/model.ml" rrun set_seed next_random rng_default Z.of_N N.to_nat.
