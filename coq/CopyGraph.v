(* Ownership model of copying a solver object (C17).  Every member of the object designates one mutable cell:
   a value member designates a cell inside the object itself; a pointer member designates the cell it points to.
   How operator= treats a member decides which cell the COPY's member designates. *)
From Coq Require Import List String Bool.
Import ListNotations.

Inductive decl := DValue | DRaw | DShared.
Inductive how :=
| HAssign        (* X = rhs.X : for a pointer this makes both objects designate the same cell *)
| HDeep          (* deep copy through the pointer: the copy's own pointee receives the value *)
| HCloneShared   (* X = make_shared of a copy of the source's pointee *)
| HCloneHeap     (* X = new copy of the source's pointee *)
| HRebindOwn     (* X = &own_member (directly or through a parameter setter) *)
| HNull | HConst
| HUntouched.    (* not mentioned in operator= : keeps designating what the target designated before *)

(* does the copy's member designate a cell owned by the copy? *)
Definition safe (d : decl) (h : how) : bool :=
  match d, h with
  | DValue, _ => true
  | _, HAssign => false
  | _, _ => true
  end.

Definition table_safe (t : list (string * decl * how)) : bool :=
  forallb (fun e => safe (snd (fst e)) (snd e)) t.

(* cells: owned by an object (identified by a number) under a member name *)
Definition obj := nat.
Definition cell := (obj * string)%type.

(* the cell designated by member m of the copy c taken from source s, given the cell the source's member designates *)
Definition cell_of_copy (c : obj) (e : string * decl * how) (src_cell : cell) : cell :=
  if safe (snd (fst e)) (snd e) then (c, fst (fst e)) else src_cell.

Definition cell_eqb (a b : cell) : bool := Nat.eqb (fst a) (fst b) && String.eqb (snd a) (snd b).

(* a heap maps cells to values; a write through a cell changes exactly that cell *)
Definition heap := cell -> nat.
Definition write (h : heap) (k : cell) (v : nat) : heap := fun k' => if cell_eqb k' k then v else h k'.
