From Coq Require Import List String Bool Arith Lia.
From SV Require Import GlobalsModel.
Import ListNotations.

Lemma cell_eqb_true a b : cell_eqb a b = true <-> a = b.
Proof.
  destruct a, b; simpl; try (split; [discriminate | intros H; discriminate H]).
  - rewrite andb_true_iff, !Nat.eqb_eq. split; [intros [-> ->]; reflexivity | intros H; injection H; auto].
  - rewrite Nat.eqb_eq. split; [intros ->; reflexivity | intros H; injection H; auto].
Qed.

(* well-scoped steps of different actors commute, pointwise on every cell *)
Lemma steps_commute (m : mem) (a b : step) :
  well_scoped a -> well_scoped b -> actor a <> actor b ->
  forall c, apply (apply m a) b c = apply (apply m b) a c.
Proof.
  intros Ha Hb Hne c. unfold apply.
  destruct (cell_eqb c (target b)) eqn:Eb.
  - destruct (cell_eqb c (target a)) eqn:Ea; auto.
    apply cell_eqb_true in Eb. apply cell_eqb_true in Ea. exfalso.
    unfold well_scoped in Ha, Hb. rewrite <- Eb in Hb. rewrite <- Ea in Ha.
    destruct c as [o k|g]; try contradiction. congruence.
  - destruct (cell_eqb c (target a)); auto.
Qed.

(* what thread i sees of its own object after ANY interleaving equals what it sees when it runs alone:
   the projection of a run on the cells of object i depends only on the steps of actor i *)
Definition mine (i : nat) (l : list step) : list step := filter (fun s => Nat.eqb (actor s) i) l.

Lemma apply_other (m : mem) (s : step) i k : well_scoped s -> actor s <> i -> apply m s (Own i k) = m (Own i k).
Proof.
  intros Hs Hne. unfold apply. destruct (cell_eqb (Own i k) (target s)) eqn:E; auto.
  apply cell_eqb_true in E. unfold well_scoped in Hs. rewrite <- E in Hs. congruence.
Qed.

Theorem interleaving_invisible (l : list step) : forall (m m' : mem) i,
  Forall well_scoped l -> (forall k, m (Own i k) = m' (Own i k)) ->
  forall k, run m l (Own i k) = run m' (mine i l) (Own i k).
Proof.
  induction l as [|s l IH]; intros m m' i Hw Hm k; simpl.
  - apply Hm.
  - inversion Hw as [|? ? Hs Hl]; subst. destruct (Nat.eqb (actor s) i) eqn:E.
    + simpl. apply IH; auto. intros k'. unfold apply.
      destruct (cell_eqb (Own i k') (target s)); auto.
    + apply Nat.eqb_neq in E. apply IH; auto. intros k'. rewrite apply_other; auto.
Qed.
