(* Extraction of the C05 checkers and glue models (ExtrOcamlBasic only: bool, option, unit, list, prod mapped to OCaml's;
   nat, positive, Z, Q stay the extracted inductive types). *)
From Coq Require Extraction.
From Coq Require Import ExtrOcamlBasic ZArith QArith List.
From SV Require Import Vec BasisInvModel.

Extraction "../extract/C05/model.ml"
  basis_matrix scale lp_eqb wf_bind wf_lp
  bind_colrep bind_rowrep rb_matrix
  check_binv_col check_binv_row check_solve check_mult check_multT
  check_binv_col_tol check_binv_row_tol check_solve_tol check_mult_tol check_multT_tol
  check_inds check_close is_inverse solve_with cosolve_with
  binv_row_colrep binv_col_colrep binv_times_vec_colrep mult_colrep multT_colrep
  binv_row_rowrep binv_col_rowrep binv_times_vec_rowrep mult_rowrep multT_rowrep
  binv_col_rowrep_fixed binv_times_vec_rowrep_fixed mult_rowrep_fixed
  mulv vmul veqb norm_inf norm_inf_mat norm_one_mat.
