(* C09 - lemmas over ScalingModel.v *)
From Coq Require Import ZArith QArith Qpower List Bool Lia Lqa Setoid Morphisms.
From SV Require Import Dbl ScalingModel.
Import ListNotations.
Local Open Scope Z_scope.

(* ------------------------------------------------------------------------------------------------ *)
(* generic: map_exp, all_exp, map_lp                                                                  *)
(* ------------------------------------------------------------------------------------------------ *)

Lemma map_exp_length {T} (f : Z -> T -> T) es v : length (map_exp f es v) = length v.
Proof. revert es; induction v as [|x v IH]; intros es; simpl; auto. Qed.

Lemma all_exp_intro {T} (P : Z -> T -> Prop) es v : (forall e x, P e x) -> all_exp P es v.
Proof. intros H; revert es; induction v as [|x v IH]; intros es; simpl; auto. Qed.

Lemma all_exp_impl {T} (P P' : Z -> T -> Prop) es v :
  (forall e x, P e x -> P' e x) -> all_exp P es v -> all_exp P' es v.
Proof.
  intros H; revert es; induction v as [|x v IH]; intros es; simpl; auto.
  intros [H1 H2]; split; auto.
Qed.

Lemma nth_tl (j : nat) (es : list Z) : nth (S j) es 0 = nth j (tl es) 0.
Proof. destruct es; destruct j; reflexivity. Qed.

Lemma nth_O_hd (es : list Z) : nth O es 0 = hd 0 es.
Proof. destruct es; reflexivity. Qed.

(* composing two exponent-indexed maps whose entry functions are inverse up to R *)
Lemma map_exp_roundtrip {T} (R : T -> T -> Prop) (f g : Z -> T -> T) es v :
  all_exp (fun e x => R (g e (f e x)) x) es v -> Forall2 R (map_exp g es (map_exp f es v)) v.
Proof.
  revert es; induction v as [|x v IH]; intros es; simpl.
  - constructor.
  - intros [H1 H2]. constructor; auto.
Qed.

Lemma map_exp_roundtrip_eq {T} (f g : Z -> T -> T) es v :
  all_exp (fun e x => g e (f e x) = x) es v -> map_exp g es (map_exp f es v) = v.
Proof.
  revert es; induction v as [|x v IH]; intros es; simpl; auto.
  intros [H1 H2]. rewrite H1, IH; auto.
Qed.

Lemma map_exp_rel {T T'} (R : T -> T' -> Prop) (f : Z -> T -> T) (f' : Z -> T' -> T') es v v' :
  Forall2 R v v' -> all_exp (fun e x => forall x', R x x' -> R (f e x) (f' e x')) es v ->
  Forall2 R (map_exp f es v) (map_exp f' es v').
Proof.
  intros H; revert es; induction H as [|x x' v v' Hx Hv IH]; intros es; simpl.
  - constructor.
  - intros [H1 H2]. constructor; auto.
Qed.

Lemma nth_map_exp_rel {T} (R : T -> T -> Prop) (f : Z -> T -> T) es v d j :
  (forall x, R x x) -> (forall e, R d (f e d)) ->
  R (nth j (map_exp f es v) d) (f (nth j es 0) (nth j v d)).
Proof.
  intros Hr Hd. revert es j; induction v as [|x v IH]; intros es j; simpl.
  - destruct j; apply Hd.
  - destruct j.
    + rewrite nth_O_hd. apply Hr.
    + rewrite nth_tl. apply IH.
Qed.

Lemma nth_map_exp_in {T} (f : Z -> T -> T) es v d j :
  (j < length v)%nat -> nth j (map_exp f es v) d = f (nth j es 0) (nth j v d).
Proof.
  revert es j; induction v as [|x v IH]; intros es j Hj; simpl in *.
  - lia.
  - destruct j.
    + now rewrite nth_O_hd.
    + rewrite nth_tl. apply IH. lia.
Qed.

Lemma map_exp_set_nth {T} (f : Z -> T -> T) es v j x :
  map_exp f es (set_nth j x v) = set_nth j (f (nth j es 0) x) (map_exp f es v).
Proof.
  revert es j; induction v as [|y v IH]; intros es j; simpl.
  - destruct j; reflexivity.
  - destruct j; simpl.
    + now rewrite nth_O_hd.
    + rewrite nth_tl. now rewrite IH.
Qed.

Lemma map_exp_snoc {T} (f : Z -> T -> T) es v e x :
  length es = length v -> map_exp f (es ++ [e]) (v ++ [x]) = map_exp f es v ++ [f e x].
Proof.
  revert es; induction v as [|y v IH]; intros es Hl; simpl.
  - destruct es; simpl in *; [reflexivity | discriminate].
  - destruct es as [|e0 es]; simpl in *; [discriminate|].
    rewrite IH; auto.
Qed.

Lemma map_exp_short {T} (f : Z -> T -> T) es e v :
  length es = length v -> map_exp f (es ++ [e]) v = map_exp f es v.
Proof.
  revert es; induction v as [|y v IH]; intros es Hl; simpl; auto.
  destruct es as [|e0 es]; simpl in *; [discriminate|].
  rewrite IH; auto.
Qed.

Lemma map_exp_ext {T} (f g : Z -> T -> T) es v :
  (forall e x, f e x = g e x) -> map_exp f es v = map_exp g es v.
Proof.
  intros H; revert es; induction v as [|x v IH]; intros es; simpl; auto.
  now rewrite H, IH.
Qed.

Lemma map_map_exp {T U} (h : T -> U) (f : Z -> T -> T) (g : Z -> U -> U) es v :
  all_exp (fun e x => h (f e x) = g e (h x)) es v -> map h (map_exp f es v) = map_exp g es (map h v).
Proof.
  revert es; induction v as [|x v IH]; intros es; simpl; auto.
  intros [H1 H2]. now rewrite H1, IH.
Qed.

Lemma Forall2_refl {T} (R : T -> T -> Prop) (l : list T) : (forall x, R x x) -> Forall2 R l l.
Proof. intros H; induction l; constructor; auto. Qed.

Lemma Forall2_eq {T} (l l' : list T) : Forall2 eq l l' -> l = l'.
Proof. induction 1; subst; auto. Qed.

(* ------------------------------------------------------------------------------------------------ *)
(* powers of two over Q                                                                              *)
(* ------------------------------------------------------------------------------------------------ *)
Local Open Scope Q_scope.

Lemma two_nonzero : ~ (2 # 1) == 0.
Proof. discriminate. Qed.

Lemma pow2_pos k : 0 < pow2 k.
Proof. unfold pow2. apply Qpower_0_lt. reflexivity. Qed.

Lemma pow2_add a b : pow2 (a + b) == pow2 a * pow2 b.
Proof. unfold pow2. apply Qpower_plus. exact two_nonzero. Qed.

Lemma pow2_0 : pow2 0 == 1.
Proof. reflexivity. Qed.

Lemma pow2_cancel a b : (a + b = 0)%Z -> pow2 a * pow2 b == 1.
Proof. intros H. rewrite <- pow2_add, H. reflexivity. Qed.

Global Instance qldexp_proper : Proper (Qeq ==> eq ==> Qeq) qldexp.
Proof. intros x y H k k' <-. unfold qldexp. now rewrite H. Qed.

Lemma qldexp_qldexp x a b : qldexp (qldexp x a) b == qldexp x (a + b).
Proof. unfold qldexp. rewrite pow2_add. ring. Qed.

Lemma qldexp_0 x : qldexp x 0 == x.
Proof. unfold qldexp. rewrite pow2_0. ring. Qed.

Lemma qldexp_cancel x a b : (a + b = 0)%Z -> qldexp (qldexp x a) b == x.
Proof. intros H. rewrite qldexp_qldexp, H. apply qldexp_0. Qed.

Lemma qldexp_zero k : qldexp 0 k == 0.
Proof. unfold qldexp. ring. Qed.

Lemma qldexp_le x y k : x <= y <-> qldexp x k <= qldexp y k.
Proof. unfold qldexp. symmetry. apply Qmult_le_r. apply pow2_pos. Qed.

Lemma qldexp_plus x y k : qldexp (x + y) k == qldexp x k + qldexp y k.
Proof. unfold qldexp. ring. Qed.

Lemma qldexp_minus x y k : qldexp (x - y) k == qldexp x k - qldexp y k.
Proof. unfold qldexp. ring. Qed.

Lemma qldexp_mult_l x y k : qldexp (x * y) k == qldexp x k * y.
Proof. unfold qldexp. ring. Qed.

(* moving a power of two across an inequality *)
Lemma qldexp_le_shift_l q v k : qldexp q (- k) <= v <-> q <= qldexp v k.
Proof.
  rewrite (qldexp_le (qldexp q (- k)) v k).
  assert (qldexp (qldexp q (- k)) k == q) as -> by (apply qldexp_cancel; lia).
  reflexivity.
Qed.

Lemma qldexp_le_shift_r q v k : v <= qldexp q (- k) <-> qldexp v k <= q.
Proof.
  rewrite (qldexp_le v (qldexp q (- k)) k).
  assert (qldexp (qldexp q (- k)) k == q) as -> by (apply qldexp_cancel; lia).
  reflexivity.
Qed.

(* ext *)
Lemma ext_eq_refl a : ext_eq a a.
Proof. destruct a; simpl; auto. reflexivity. Qed.

Lemma ext_eq_sym a b : ext_eq a b -> ext_eq b a.
Proof. destruct a, b; simpl; auto. intros H; now symmetry. Qed.

Lemma ext_eq_trans a b c : ext_eq a b -> ext_eq b c -> ext_eq a c.
Proof. destruct a, b, c; simpl; auto; try contradiction. intros H1 H2; now rewrite H1. Qed.

Lemma ext_ldexp_cancel x a b : (a + b = 0)%Z -> ext_eq (ext_ldexp (ext_ldexp x a) b) x.
Proof. intros H. destruct x; simpl; auto. now apply qldexp_cancel. Qed.

(* ------------------------------------------------------------------------------------------------ *)
(* round trip of the LP at the exact level                                                           *)
(* ------------------------------------------------------------------------------------------------ *)

Lemma unscale_scale_id_lemma r c (p : lpQ) : lp_eq (unscale r c (apply_scaling r c p)) p.
Proof.
  unfold lp_eq, lp_rel, unscale, apply_scaling, map_lp; cbn [obj lo up lhs rhs robj mat].
  repeat split.
  - apply map_exp_roundtrip, all_exp_intro. intros e x. apply qldexp_cancel. lia.
  - apply map_exp_roundtrip, all_exp_intro. intros e x. apply ext_ldexp_cancel. lia.
  - apply map_exp_roundtrip, all_exp_intro. intros e x. apply ext_ldexp_cancel. lia.
  - apply map_exp_roundtrip, all_exp_intro. intros e x. apply ext_ldexp_cancel. lia.
  - apply map_exp_roundtrip, all_exp_intro. intros e x. apply ext_ldexp_cancel. lia.
  - apply map_exp_roundtrip, all_exp_intro. intros e x. apply qldexp_cancel. lia.
  - apply map_exp_roundtrip, all_exp_intro. intros ri row.
    apply map_exp_roundtrip, all_exp_intro. intros cj a. apply qldexp_cancel. lia.
Qed.

(* and the other way round: scaling an unscaled LP with the same exponents *)
Lemma scale_unscale_id_lemma r c (p : lpQ) : lp_eq (apply_scaling r c (unscale r c p)) p.
Proof.
  unfold lp_eq, lp_rel, unscale, apply_scaling, map_lp; cbn [obj lo up lhs rhs robj mat].
  repeat split.
  - apply map_exp_roundtrip, all_exp_intro. intros e x. apply qldexp_cancel. lia.
  - apply map_exp_roundtrip, all_exp_intro. intros e x. apply ext_ldexp_cancel. lia.
  - apply map_exp_roundtrip, all_exp_intro. intros e x. apply ext_ldexp_cancel. lia.
  - apply map_exp_roundtrip, all_exp_intro. intros e x. apply ext_ldexp_cancel. lia.
  - apply map_exp_roundtrip, all_exp_intro. intros e x. apply ext_ldexp_cancel. lia.
  - apply map_exp_roundtrip, all_exp_intro. intros e x. apply qldexp_cancel. lia.
  - apply map_exp_roundtrip, all_exp_intro. intros ri row.
    apply map_exp_roundtrip, all_exp_intro. intros cj a. apply qldexp_cancel. lia.
Qed.

(* ------------------------------------------------------------------------------------------------ *)
(* getters                                                                                            *)
(* ------------------------------------------------------------------------------------------------ *)

Lemma nth_map_exp_Q (f : Z -> Q -> Q) es v j :
  (forall e, 0 == f e 0) -> nth j (map_exp f es v) 0 == f (nth j es 0%Z) (nth j v 0).
Proof. intros H. apply (nth_map_exp_rel Qeq); auto. intros; reflexivity. Qed.

Lemma nth_map_exp_ext (f : Z -> ext -> ext) es v d j :
  (forall e, f e d = d) -> nth j (map_exp f es v) d = f (nth j es 0%Z) (nth j v d).
Proof. intros H. apply (nth_map_exp_rel eq); auto. Qed.

Lemma nth_map_exp_rows (f : Z -> list Q -> list Q) es (v : list (list Q)) j :
  (forall e, f e [] = []) -> nth j (map_exp f es v) [] = f (nth j es 0%Z) (nth j v []).
Proof. intros H. apply (nth_map_exp_rel eq); auto. Qed.

Lemma coef_apply_scaling r c (p : lpQ) i j :
  coef (apply_scaling r c p) i j == qldexp (coef p i j) (nth j c 0%Z + nth i r 0%Z).
Proof.
  unfold coef, apply_scaling, map_lp; cbn [mat].
  rewrite nth_map_exp_rows by reflexivity.
  apply nth_map_exp_Q. intros e. symmetry. apply qldexp_zero.
Qed.

Lemma getters_coef r c (p : lpQ) i j : coefUnscaled r c (apply_scaling r c p) i j == coef p i j.
Proof.
  unfold coefUnscaled. rewrite coef_apply_scaling. apply qldexp_cancel. lia.
Qed.

Lemma getters_obj r c (p : lpQ) j : maxObjUnscaled c (apply_scaling r c p) j == nth j (obj p) 0.
Proof.
  unfold maxObjUnscaled, apply_scaling, map_lp; cbn [obj].
  rewrite nth_map_exp_Q by (intros e; symmetry; apply qldexp_zero).
  apply qldexp_cancel. lia.
Qed.

Lemma getters_lower r c (p : lpQ) j : ext_eq (lowerUnscaled c (apply_scaling r c p) j) (nth j (lo p) NInf).
Proof.
  unfold lowerUnscaled, apply_scaling, map_lp; cbn [lo].
  rewrite nth_map_exp_ext by reflexivity. apply ext_ldexp_cancel. lia.
Qed.

Lemma getters_upper r c (p : lpQ) j : ext_eq (upperUnscaled c (apply_scaling r c p) j) (nth j (up p) PInf).
Proof.
  unfold upperUnscaled, apply_scaling, map_lp; cbn [up].
  rewrite nth_map_exp_ext by reflexivity. apply ext_ldexp_cancel. lia.
Qed.

Lemma getters_lhs r c (p : lpQ) i : ext_eq (lhsUnscaled r (apply_scaling r c p) i) (nth i (lhs p) NInf).
Proof.
  unfold lhsUnscaled, apply_scaling, map_lp; cbn [lhs].
  rewrite nth_map_exp_ext by reflexivity. apply ext_ldexp_cancel. lia.
Qed.

Lemma getters_rhs r c (p : lpQ) i : ext_eq (rhsUnscaled r (apply_scaling r c p) i) (nth i (rhs p) PInf).
Proof.
  unfold rhsUnscaled, apply_scaling, map_lp; cbn [rhs].
  rewrite nth_map_exp_ext by reflexivity. apply ext_ldexp_cancel. lia.
Qed.

Lemma getters_row r c (p : lpQ) i : Forall2 Qeq (getRowUnscaled r c (apply_scaling r c p) i) (nth i (mat p) []).
Proof.
  unfold getRowUnscaled, apply_scaling, map_lp; cbn [mat].
  rewrite nth_map_exp_rows by reflexivity.
  apply map_exp_roundtrip, all_exp_intro. intros e x. apply qldexp_cancel. lia.
Qed.

Lemma getters_see_original_lemma r c (p : lpQ) :
  (forall i j, coefUnscaled r c (apply_scaling r c p) i j == coef p i j) /\
  (forall j, maxObjUnscaled c (apply_scaling r c p) j == nth j (obj p) 0) /\
  (forall j, ext_eq (lowerUnscaled c (apply_scaling r c p) j) (nth j (lo p) NInf)) /\
  (forall j, ext_eq (upperUnscaled c (apply_scaling r c p) j) (nth j (up p) PInf)) /\
  (forall i, ext_eq (lhsUnscaled r (apply_scaling r c p) i) (nth i (lhs p) NInf)) /\
  (forall i, ext_eq (rhsUnscaled r (apply_scaling r c p) i) (nth i (rhs p) PInf)) /\
  (forall i, Forall2 Qeq (getRowUnscaled r c (apply_scaling r c p) i) (nth i (mat p) [])).
Proof.
  repeat split; intros.
  - apply getters_coef. - apply getters_obj. - apply getters_lower. - apply getters_upper.
  - apply getters_lhs. - apply getters_rhs. - apply getters_row.
Qed.

(* ------------------------------------------------------------------------------------------------ *)
(* linear algebra under scaling                                                                      *)
(* ------------------------------------------------------------------------------------------------ *)

Lemma dot_nil_r a : dot a [] = 0.
Proof. destruct a; reflexivity. Qed.

(* a scaled row times a scaled-space point = 2^ri * (row times the unscaled point) *)
Lemma dot_scale_row ri c a x :
  dot (map_exp (fun cj v => qldexp v (cj + ri)) c a) x == qldexp (dot a (unscalePrimal c x)) ri.
Proof.
  unfold unscalePrimal. revert c x; induction a as [|a0 a IH]; intros c x; simpl.
  - symmetry. apply qldexp_zero.
  - destruct x as [|x0 x]; simpl.
    + symmetry. apply qldexp_zero.
    + rewrite IH. rewrite qldexp_plus. apply Qplus_comp; [|reflexivity].
      unfold qldexp. rewrite pow2_add. ring.
Qed.

Lemma mat_vec_scaled r c A x :
  Forall2 Qeq (mat_vec (map_exp (fun ri row => map_exp (fun cj a => qldexp a (cj + ri)) c row) r A) x)
              (map_exp (fun ri v => qldexp v ri) r (mat_vec A (unscalePrimal c x))).
Proof.
  unfold mat_vec. revert r; induction A as [|row A IH]; intros r; simpl.
  - constructor.
  - constructor; [apply dot_scale_row | apply IH].
Qed.

(* objective: obj' . x' = obj . unscalePrimal x' *)
Lemma dot_scale_obj c o x :
  dot (map_exp (fun cj v => qldexp v cj) c o) x == dot o (unscalePrimal c x).
Proof.
  unfold unscalePrimal. revert c x; induction o as [|o0 o IH]; intros c x; simpl.
  - reflexivity.
  - destruct x as [|x0 x]; simpl; [reflexivity|].
    rewrite IH. unfold qldexp. ring.
Qed.

(* sides: y' . side' = unscaleDual y' . side, for finite sides given as rationals *)
Lemma dot_scale_side r b y :
  dot (map_exp (fun ri v => qldexp v ri) r b) y == dot b (unscaleDual r y).
Proof.
  unfold unscaleDual. revert r y; induction b as [|b0 b IH]; intros r y; simpl.
  - reflexivity.
  - destruct y as [|y0 y]; simpl; [reflexivity|].
    rewrite IH. unfold qldexp. ring.
Qed.

(* (A'^T y')_j = 2^cj * (A^T unscaleDual y')_j *)
Lemma col_dot_scaled r c A y j :
  col_dot (map_exp (fun ri row => map_exp (fun cj a => qldexp a (cj + ri)) c row) r A) y j
  == qldexp (col_dot A (unscaleDual r y) j) (nth j c 0%Z).
Proof.
  unfold col_dot, unscaleDual. revert r y; induction A as [|row A IH]; intros r y; simpl.
  - symmetry. apply qldexp_zero.
  - destruct y as [|y0 y]; simpl.
    + symmetry. apply qldexp_zero.
    + rewrite IH. rewrite qldexp_plus. apply Qplus_comp; [|reflexivity].
      rewrite nth_map_exp_Q by (intros e; symmetry; apply qldexp_zero).
      unfold qldexp. rewrite pow2_add. ring.
Qed.

(* ------------------------------------------------------------------------------------------------ *)
(* feasibility transfer                                                                              *)
(* ------------------------------------------------------------------------------------------------ *)

Lemma within_Qeq l u v v' : v == v' -> within l u v <-> within l u v'.
Proof.
  intros H. unfold within. destruct l, u; simpl; try tauto; rewrite H; tauto.
Qed.

Lemma all_within_Qeq ls us vs vs' : Forall2 Qeq vs vs' -> all_within ls us vs <-> all_within ls us vs'.
Proof.
  intros H; revert ls us; induction H as [|v v' vs vs' Hv Hvs IH]; intros ls us.
  - tauto.
  - destruct ls as [|l ls], us as [|u us]; simpl; try tauto.
    rewrite (within_Qeq l u v v' Hv), IH. tauto.
Qed.

(* bounds: l*2^-e <= v <= u*2^-e  <->  l <= v*2^e <= u *)
Lemma within_col l u v e : within (ext_ldexp l (- e)) (ext_ldexp u (- e)) v <-> within l u (qldexp v e).
Proof.
  unfold within. destruct l, u; simpl; try tauto;
    rewrite ?qldexp_le_shift_l, ?qldexp_le_shift_r; tauto.
Qed.

(* sides: l*2^e <= a*2^e <= u*2^e  <->  l <= a <= u *)
Lemma within_row l u a e : within (ext_ldexp l e) (ext_ldexp u e) (qldexp a e) <-> within l u a.
Proof.
  unfold within. destruct l, u; simpl; try tauto; rewrite <- ?qldexp_le; tauto.
Qed.

Lemma all_within_cols c ls us xs :
  all_within (map_exp (fun cj l => ext_ldexp l (- cj)) c ls) (map_exp (fun cj u => ext_ldexp u (- cj)) c us) xs
  <-> all_within ls us (unscalePrimal c xs).
Proof.
  unfold unscalePrimal. revert c us xs; induction ls as [|l ls IH]; intros c us xs.
  - destruct us, xs; simpl; tauto.
  - destruct us as [|u us], xs as [|x xs]; simpl; try tauto.
    rewrite within_col, IH. tauto.
Qed.

Lemma all_within_rows r ls us acts :
  all_within (map_exp (fun ri l => ext_ldexp l ri) r ls) (map_exp (fun ri u => ext_ldexp u ri) r us)
             (map_exp (fun ri v => qldexp v ri) r acts)
  <-> all_within ls us acts.
Proof.
  revert r us acts; induction ls as [|l ls IH]; intros r us acts.
  - destruct us, acts; simpl; tauto.
  - destruct us as [|u us], acts as [|a acts]; simpl; try tauto.
    rewrite within_row, IH. tauto.
Qed.

Lemma scaled_feasibility_transfer_lemma r c (p : lpQ) x :
  feasible (apply_scaling r c p) x <-> feasible p (unscalePrimal c x).
Proof.
  unfold feasible, apply_scaling, map_lp; cbn [lo up lhs rhs mat].
  rewrite all_within_cols.
  rewrite (all_within_Qeq _ _ _ _ (mat_vec_scaled r c (mat p) x)).
  rewrite all_within_rows. tauto.
Qed.

(* ------------------------------------------------------------------------------------------------ *)
(* slacks, reduced costs, objective                                                                  *)
(* ------------------------------------------------------------------------------------------------ *)

Lemma Forall2_Qeq_trans (a b c : list Q) : Forall2 Qeq a b -> Forall2 Qeq b c -> Forall2 Qeq a c.
Proof.
  intros H; revert c; induction H as [|x y a b Hxy Hab IH]; intros c Hc; inversion Hc; subst; constructor.
  - now rewrite Hxy. - auto.
Qed.

Lemma Forall2_Qeq_sym (a b : list Q) : Forall2 Qeq a b -> Forall2 Qeq b a.
Proof. induction 1; constructor; auto. now symmetry. Qed.

Lemma map_exp_Qeq (f : Z -> Q -> Q) es v v' :
  (forall e, Proper (Qeq ==> Qeq) (f e)) -> Forall2 Qeq v v' -> Forall2 Qeq (map_exp f es v) (map_exp f es v').
Proof.
  intros Hf H. apply map_exp_rel; auto. apply all_exp_intro. intros e x x' Hx. now apply Hf.
Qed.

Lemma unscale_slacks_lemma r c (p : lpQ) x s :
  Forall2 Qeq s (mat_vec (mat (apply_scaling r c p)) x) ->
  Forall2 Qeq (unscaleSlacks r s) (mat_vec (mat p) (unscalePrimal c x)).
Proof.
  intros H. unfold apply_scaling, map_lp in H; cbn [mat] in H.
  pose proof (Forall2_Qeq_trans _ _ _ H (mat_vec_scaled r c (mat p) x)) as H1.
  unfold unscaleSlacks.
  eapply Forall2_Qeq_trans.
  - apply map_exp_Qeq; [|exact H1]. intros e a b Hab. now rewrite Hab.
  - apply map_exp_roundtrip, all_exp_intro. intros e v. apply qldexp_cancel. lia.
Qed.

Lemma unscale_redcost_lemma r c (p : lpQ) y d :
  (forall j, nth j d 0 == nth j (obj (apply_scaling r c p)) 0 - col_dot (mat (apply_scaling r c p)) y j) ->
  forall j, nth j (unscaleRedCost c d) 0 == nth j (obj p) 0 - col_dot (mat p) (unscaleDual r y) j.
Proof.
  intros H j. unfold unscaleRedCost.
  rewrite nth_map_exp_Q by (intros e; symmetry; apply qldexp_zero).
  rewrite (H j). unfold apply_scaling, map_lp; cbn [obj mat].
  rewrite col_dot_scaled.
  rewrite nth_map_exp_Q by (intros e; symmetry; apply qldexp_zero).
  rewrite qldexp_minus. rewrite !qldexp_cancel by lia. reflexivity.
Qed.

Lemma unscale_objective_lemma r c (p : lpQ) x :
  dot (obj (apply_scaling r c p)) x == dot (obj p) (unscalePrimal c x).
Proof. unfold apply_scaling, map_lp; cbn [obj]. apply dot_scale_obj. Qed.

(* rays: the activity of a scaled ray is the activity of the unscaled ray times a positive factor, the
   objective along it is the same *)
Lemma unscale_primalray_lemma r c (p : lpQ) ray :
  Forall2 Qeq (mat_vec (mat (apply_scaling r c p)) ray)
              (map_exp (fun ri v => qldexp v ri) r (mat_vec (mat p) (unscalePrimalray c ray))) /\
  dot (obj (apply_scaling r c p)) ray == dot (obj p) (unscalePrimalray c ray).
Proof.
  split.
  - unfold apply_scaling, map_lp; cbn [mat]. apply mat_vec_scaled.
  - apply unscale_objective_lemma.
Qed.

(* Farkas: the column combination of a scaled multiplier vector is the combination of the unscaled one
   times a positive factor *)
Lemma unscale_dualray_lemma r c (p : lpQ) y j :
  col_dot (mat (apply_scaling r c p)) y j == qldexp (col_dot (mat p) (unscaleDualray r y) j) (nth j c 0%Z).
Proof. unfold apply_scaling, map_lp; cbn [mat]. apply col_dot_scaled. Qed.

(* ------------------------------------------------------------------------------------------------ *)
(* data changed or added under an active scaling                                                     *)
(* ------------------------------------------------------------------------------------------------ *)
Local Open Scope Z_scope.

Lemma change_obj_consistent r c (p : lpQ) j v :
  apply_scaling r c (set_obj j v p) = set_obj j (scaleObj c j v) (apply_scaling r c p).
Proof. unfold apply_scaling, map_lp, set_obj, scaleObj; cbn [obj lo up lhs rhs robj mat]. now rewrite map_exp_set_nth. Qed.

Lemma change_lower_consistent r c (p : lpQ) j v :
  apply_scaling r c (set_lower j v p) = set_lower j (scaleLower c j v) (apply_scaling r c p).
Proof. unfold apply_scaling, map_lp, set_lower, scaleLower; cbn [obj lo up lhs rhs robj mat]. now rewrite map_exp_set_nth. Qed.

Lemma change_upper_consistent r c (p : lpQ) j v :
  apply_scaling r c (set_upper j v p) = set_upper j (scaleUpper c j v) (apply_scaling r c p).
Proof. unfold apply_scaling, map_lp, set_upper, scaleUpper; cbn [obj lo up lhs rhs robj mat]. now rewrite map_exp_set_nth. Qed.

Lemma change_lhs_consistent r c (p : lpQ) i v :
  apply_scaling r c (set_lhs i v p) = set_lhs i (scaleLhs r i v) (apply_scaling r c p).
Proof. unfold apply_scaling, map_lp, set_lhs, scaleLhs; cbn [obj lo up lhs rhs robj mat]. now rewrite map_exp_set_nth. Qed.

Lemma change_rhs_consistent r c (p : lpQ) i v :
  apply_scaling r c (set_rhs i v p) = set_rhs i (scaleRhs r i v) (apply_scaling r c p).
Proof. unfold apply_scaling, map_lp, set_rhs, scaleRhs; cbn [obj lo up lhs rhs robj mat]. now rewrite map_exp_set_nth. Qed.

Lemma change_element_consistent r c (p : lpQ) i j v :
  apply_scaling r c (set_elem i j v p) = set_elem i j (scaleElement r c i j v) (apply_scaling r c p).
Proof.
  unfold apply_scaling, map_lp, set_elem, scaleElement; cbn [obj lo up lhs rhs robj mat].
  f_equal. rewrite map_exp_set_nth. f_equal. rewrite map_exp_set_nth.
  f_equal. rewrite nth_map_exp_rows by reflexivity. reflexivity.
Qed.

Lemma add_row_consistent r c (p : lpQ) e l u ro row :
  lp_wf r c p ->
  apply_scaling (r ++ [e]) c (add_row l u ro row p)
  = add_row (ext_ldexp l e) (ext_ldexp u e) (qldexp ro e) (scale_row e c row) (apply_scaling r c p).
Proof.
  intros (_ & _ & _ & H4 & H5 & H6 & H7 & _).
  unfold apply_scaling, map_lp, add_row, scale_row; cbn [obj lo up lhs rhs robj mat].
  rewrite !map_exp_snoc by auto. reflexivity.
Qed.

Lemma snoc_col_scaled e r c (rows : list (list Q)) col :
  length rows = length r -> length col = length r -> Forall (fun row => length row = length c) rows ->
  map_exp (fun ri row => map_exp (fun cj a => qldexp a (cj + ri)) (c ++ [e]) row) r (snoc_col 0%Q rows col)
  = snoc_col 0%Q (map_exp (fun ri row => map_exp (fun cj a => qldexp a (cj + ri)) c row) r rows)
             (map_exp (fun ri a => qldexp a (e + ri)) r col).
Proof.
  revert r col; induction rows as [|row rows IH]; intros r col Hl Hc Hw; simpl.
  - reflexivity.
  - inversion Hw as [|? ? Hrow Hrows]; subst.
    destruct r as [|r0 r]; simpl in Hl; [discriminate|].
    destruct col as [|a col]; simpl in Hc; [discriminate|].
    cbn [hd tl map_exp]. rewrite map_exp_snoc by auto.
    rewrite IH by (auto; lia). reflexivity.
Qed.

Lemma add_col_consistent r c (p : lpQ) e o l u col :
  lp_wf r c p -> length col = length r ->
  apply_scaling r (c ++ [e]) (add_col 0%Q o l u col p)
  = add_col 0%Q (qldexp o e) (ext_ldexp l (- e)) (ext_ldexp u (- e)) (scale_col e r col) (apply_scaling r c p).
Proof.
  intros (H1 & H2 & H3 & _ & _ & _ & H7 & H8) Hc.
  unfold apply_scaling, map_lp, add_col, scale_col; cbn [obj lo up lhs rhs robj mat].
  rewrite !map_exp_snoc by auto.
  rewrite snoc_col_scaled by auto. reflexivity.
Qed.

(* what the user sees after a change under scaling is the changed datum *)
Lemma add_under_scaling_consistent_lemma r c (p : lpQ) :
  (forall j v, lp_eq (unscale r c (set_obj j (scaleObj c j v) (apply_scaling r c p))) (set_obj j v p)) /\
  (forall j v, lp_eq (unscale r c (set_lower j (scaleLower c j v) (apply_scaling r c p))) (set_lower j v p)) /\
  (forall j v, lp_eq (unscale r c (set_upper j (scaleUpper c j v) (apply_scaling r c p))) (set_upper j v p)) /\
  (forall i v, lp_eq (unscale r c (set_lhs i (scaleLhs r i v) (apply_scaling r c p))) (set_lhs i v p)) /\
  (forall i v, lp_eq (unscale r c (set_rhs i (scaleRhs r i v) (apply_scaling r c p))) (set_rhs i v p)) /\
  (forall i j v, lp_eq (unscale r c (set_elem i j (scaleElement r c i j v) (apply_scaling r c p))) (set_elem i j v p)) /\
  (forall e l u ro row, lp_wf r c p ->
     lp_eq (unscale (r ++ [e]) c (add_row (ext_ldexp l e) (ext_ldexp u e) (qldexp ro e) (scale_row e c row) (apply_scaling r c p)))
           (add_row l u ro row p)) /\
  (forall e o l u col, lp_wf r c p -> length col = length r ->
     lp_eq (unscale r (c ++ [e]) (add_col 0%Q (qldexp o e) (ext_ldexp l (- e)) (ext_ldexp u (- e)) (scale_col e r col) (apply_scaling r c p)))
           (add_col 0%Q o l u col p)).
Proof.
  split; [|split; [|split; [|split; [|split; [|split; [|split]]]]]]; intros.
  - rewrite <- change_obj_consistent. apply unscale_scale_id_lemma.
  - rewrite <- change_lower_consistent. apply unscale_scale_id_lemma.
  - rewrite <- change_upper_consistent. apply unscale_scale_id_lemma.
  - rewrite <- change_lhs_consistent. apply unscale_scale_id_lemma.
  - rewrite <- change_rhs_consistent. apply unscale_scale_id_lemma.
  - rewrite <- change_element_consistent. apply unscale_scale_id_lemma.
  - rewrite <- add_row_consistent by auto. apply unscale_scale_id_lemma.
  - rewrite <- add_col_consistent by auto. apply unscale_scale_id_lemma.
Qed.

(* ------------------------------------------------------------------------------------------------ *)
(* binary64 level                                                                                    *)
(* ------------------------------------------------------------------------------------------------ *)

Lemma ldexp_zero e k : ldexp_ieee (DFin 0 e) k = DFin 0 e.
Proof. reflexivity. Qed.

(* ldexp is exact when no bit is shifted out below 2^-1074 and the result stays below 2^1024 *)
(* |m| >= 1, so a value below 2^1024 has an exponent below 1024 *)
Lemma no_overflow_exp m e' :
  m <> 0 -> EMIN <= e' -> Z.abs m * 2 ^ (e' - EMIN) < 2 ^ (EOVER - EMIN) -> e' < EOVER.
Proof.
  intros Hm He Hov.
  destruct (Z_lt_le_dec e' EOVER) as [|Hge]; [assumption|exfalso].
  assert (2 ^ (EOVER - EMIN) <= 2 ^ (e' - EMIN)) by (apply Z.pow_le_mono_r; unfold EMIN, EOVER in *; lia).
  assert (0 < 2 ^ (e' - EMIN)) by (apply Z.pow_pos_nonneg; unfold EMIN in *; lia).
  assert (1 <= Z.abs m) by lia.
  nia.
Qed.

Lemma ldexp_exact m e k :
  m <> 0 -> EMIN <= e + k -> Z.abs m * 2 ^ (e + k - EMIN) < 2 ^ (EOVER - EMIN) ->
  ldexp_ieee (DFin m e) k = DFin m (e + k).
Proof.
  intros Hm He Hov. unfold ldexp_ieee.
  destruct (Z.eqb_spec m 0) as [->|_]; [congruence|].
  pose proof (no_overflow_exp m (e + k) Hm He Hov) as Hlt'.
  destruct (Z.leb_spec EOVER (e + k)) as [Hle|_]; [lia|].
  assert (0 <= Z.log2_up (Z.abs m)) by apply Z.log2_up_nonneg.
  destruct (Z.ltb_spec (e + k) (EMIN - Z.log2_up (Z.abs m) - 2)) as [Hlt|_]; [lia|].
  destruct (Z.ltb_spec (e + k) EMIN) as [Hlt|_]; [lia|].
  destruct (Z.leb_spec (2 ^ (EOVER - EMIN)) (Z.abs m * 2 ^ (e + k - EMIN))) as [Hle|_]; [lia|].
  reflexivity.
Qed.

(* the two shortcuts of ldexp_ieee do not change its value *)
Lemma round_to_grid_tiny m e' : m <> 0 -> e' < EMIN - Z.log2_up (Z.abs m) - 2 -> round_to_grid m e' = 0.
Proof.
  intros Hm He. unfold round_to_grid.
  set (s := EMIN - e').
  assert (0 <= Z.log2_up (Z.abs m)) as Hl by apply Z.log2_up_nonneg.
  assert (Hs : Z.log2_up (Z.abs m) + 2 < s) by (unfold s; lia).
  assert (Habs : Z.abs m <= 2 ^ Z.log2_up (Z.abs m)).
  { destruct (Z.eq_dec (Z.abs m) 1) as [->|]; [simpl; lia|]. apply Z.log2_up_spec. lia. }
  assert (Hpow : 2 ^ Z.log2_up (Z.abs m) * 4 <= 2 ^ (s - 1)).
  { change 4 with (2 ^ 2). rewrite <- Z.pow_add_r by lia. apply Z.pow_le_mono_r; lia. }
  assert (Hss : 2 ^ s = 2 * 2 ^ (s - 1)).
  { replace s with (1 + (s - 1)) at 1 by lia. rewrite Z.pow_add_r by lia. reflexivity. }
  assert (0 < 2 ^ (s - 1)) by (apply Z.pow_pos_nonneg; lia).
  assert (0 < 2 ^ Z.log2_up (Z.abs m)) by (apply Z.pow_pos_nonneg; lia).
  destruct (Z_lt_le_dec m 0) as [Hneg|Hpos].
  - (* floor quotient -1, remainder m + 2^s > half *)
    assert (Hq : m / 2 ^ s = -1).
    { symmetry. apply (Z.div_unique m (2 ^ s) (-1) (m + 2 ^ s)); lia. }
    assert (Hr : m mod 2 ^ s = m + 2 ^ s).
    { symmetry. apply (Z.mod_unique m (2 ^ s) (-1) (m + 2 ^ s)); lia. }
    rewrite Hq, Hr.
    destruct (Z.ltb_spec (m + 2 ^ s) (2 ^ (s - 1))); [lia|].
    destruct (Z.ltb_spec (2 ^ (s - 1)) (m + 2 ^ s)); [reflexivity|lia].
  - assert (Hq : m / 2 ^ s = 0) by (apply Z.div_small; lia).
    assert (Hr : m mod 2 ^ s = m) by (apply Z.mod_small; lia).
    rewrite Hq, Hr.
    destruct (Z.ltb_spec m (2 ^ (s - 1))); [reflexivity|lia].
Qed.

Lemma ldexp_shortcuts_agree x k : ldexp_ieee x k = ldexp_ieee_plain x k.
Proof.
  destruct x as [| | |m e]; try reflexivity.
  unfold ldexp_ieee, ldexp_ieee_plain.
  destruct (Z.eqb_spec m 0) as [->|Hm]; [reflexivity|].
  assert (0 <= Z.log2_up (Z.abs m)) as Hl by apply Z.log2_up_nonneg.
  destruct (Z.leb_spec EOVER (e + k)) as [Hge|Hlt].
  - destruct (Z.ltb_spec (e + k) EMIN) as [H1|H1]; [unfold EMIN, EOVER in *; lia|].
    destruct (Z.leb_spec (2 ^ (EOVER - EMIN)) (Z.abs m * 2 ^ (e + k - EMIN))) as [|Hsmall]; [reflexivity|].
    exfalso. pose proof (no_overflow_exp m (e + k) Hm H1 Hsmall). lia.
  - destruct (Z.ltb_spec (e + k) (EMIN - Z.log2_up (Z.abs m) - 2)) as [Htiny|_]; [|reflexivity].
    destruct (Z.ltb_spec (e + k) EMIN) as [_|H1]; [|lia].
    now rewrite round_to_grid_tiny.
Qed.

Lemma ldexp_exact_in_range_lemma m e k :
  representable m e -> m <> 0 -> EMIN <= e + k -> Z.abs m * 2 ^ (e + k - EMIN) < 2 ^ (EOVER - EMIN) ->
  ldexp_ieee (DFin m e) k = DFin m (e + k) /\ representable m (e + k).
Proof.
  intros Hr Hm He Hov. split.
  - now apply ldexp_exact.
  - destruct Hr as [->|(Hp & _ & _)]; [congruence|]. right. auto.
Qed.

(* a 53-bit mantissa whose scaled value is a normal double loses no bit *)
Lemma normal_no_bits_lost m e' : Z.abs m < 2 ^ PREC -> normal m e' -> EMIN <= e'.
Proof.
  unfold normal, PREC, EMIN. intros Hp Hn.
  destruct (Z_lt_le_dec e' (-1074)) as [Hlt|]; [|assumption].
  exfalso.
  assert (2 ^ 53 <= 2 ^ (-1022 - e')) by (apply Z.pow_le_mono_r; lia).
  lia.
Qed.

Lemma fin_roundtrip m e k : fin_ok m e k -> ldexp_ieee (ldexp_ieee (DFin m e) k) (- k) = DFin m e.
Proof.
  intros [->|(H1 & H2 & H3 & H4)]; [reflexivity|].
  destruct (Z.eq_dec m 0) as [->|Hm]; [reflexivity|].
  rewrite (ldexp_exact m e k) by auto.
  rewrite ldexp_exact; auto.
  - f_equal. lia.
  - lia.
  - replace (e + k + - k) with e by lia. exact H3.
Qed.

Lemma val_roundtrip x a b : (a + b = 0)%Z -> val_ok x a -> ldexp_ieee (ldexp_ieee x a) b = x.
Proof.
  intros Hab H. assert (b = - a) as -> by lia.
  destruct x; simpl in H; try reflexivity. now apply fin_roundtrip.
Qed.

Lemma ldexp_fin_cases m e k : fin_ok m e k -> ldexp_ieee (DFin m e) k = DFin m e /\ m = 0 \/ ldexp_ieee (DFin m e) k = DFin m (e + k) /\ m <> 0.
Proof.
  intros [->|(H1 & H2 & H3 & H4)]; [left; split; reflexivity|].
  destruct (Z.eq_dec m 0) as [->|Hm]; [left; split; reflexivity|].
  right. split; auto. now apply ldexp_exact.
Qed.

Lemma upper_roundtrip x a b : (a + b = 0)%Z -> upper_ok x a -> dl_upper (dl_upper x a) b = x.
Proof.
  intros Hab H. assert (b = - a) as -> by lia. clear Hab.
  destruct x as [| | |m e]; try reflexivity.
  destruct H as [Hf Ht]. unfold dl_upper at 2.
  destruct (dlt (DFin m e) dinf) eqn:E.
  - destruct (ldexp_fin_cases m e a Hf) as [[H0 ->]|[H1 Hm]].
    + rewrite ldexp_zero. unfold dl_upper. rewrite E. reflexivity.
    + rewrite H1. unfold dl_upper. rewrite (Ht eq_refl). rewrite <- H1. now apply fin_roundtrip.
  - unfold dl_upper. now rewrite E.
Qed.

Lemma lower_roundtrip x a b : (a + b = 0)%Z -> lower_ok x a -> dl_lower (dl_lower x a) b = x.
Proof.
  intros Hab H. assert (b = - a) as -> by lia. clear Hab.
  destruct x as [| | |m e]; try reflexivity.
  destruct H as [Hf Ht]. unfold dl_lower at 2.
  destruct (dlt dninf (DFin m e)) eqn:E.
  - destruct (ldexp_fin_cases m e a Hf) as [[H0 ->]|[H1 Hm]].
    + rewrite ldexp_zero. unfold dl_lower. rewrite E. reflexivity.
    + rewrite H1. unfold dl_lower. rewrite (Ht eq_refl). rewrite <- H1. now apply fin_roundtrip.
  - unfold dl_lower. now rewrite E.
Qed.

Lemma d_unscale_scale_id_lemma r c (p : lpD) : d_in_range r c p -> d_unscale r c (d_apply_scaling r c p) = p.
Proof.
  destruct p as [o l u lh rh ro A].
  unfold d_in_range, lp_all, d_unscale, d_apply_scaling, map_lp; cbn [obj lo up lhs rhs robj mat].
  intros (H1 & H2 & H3 & H4 & H5 & H6 & H7).
  f_equal.
  - apply map_exp_roundtrip_eq. eapply all_exp_impl; [|exact H1]. intros e x Hx. apply val_roundtrip; auto; lia.
  - apply map_exp_roundtrip_eq. eapply all_exp_impl; [|exact H2]. intros e x Hx. apply lower_roundtrip; auto; lia.
  - apply map_exp_roundtrip_eq. eapply all_exp_impl; [|exact H3]. intros e x Hx. apply upper_roundtrip; auto; lia.
  - apply map_exp_roundtrip_eq. eapply all_exp_impl; [|exact H4]. intros e x Hx. apply lower_roundtrip; auto; lia.
  - apply map_exp_roundtrip_eq. eapply all_exp_impl; [|exact H5]. intros e x Hx. apply upper_roundtrip; auto; lia.
  - apply map_exp_roundtrip_eq. eapply all_exp_impl; [|exact H6]. intros e x Hx. apply val_roundtrip; auto; lia.
  - apply map_exp_roundtrip_eq. eapply all_exp_impl; [|exact H7]. intros ri row Hrow.
    apply map_exp_roundtrip_eq. eapply all_exp_impl; [|exact Hrow]. intros cj a Ha. apply val_roundtrip; auto; lia.
Qed.

(* the guarded vector getters are the components of d_unscale; the single-index getters its entries *)
Lemma d_guarded_getters_are_unscale r c (s : lpD) :
  d_getLowerUnscaled_guarded c s = lo (d_unscale r c s) /\
  d_getUpperUnscaled_guarded c s = up (d_unscale r c s) /\
  d_getLhsUnscaled_guarded r s = lhs (d_unscale r c s) /\
  d_getRhsUnscaled_guarded r s = rhs (d_unscale r c s) /\
  d_getMaxObjUnscaled c s = obj (d_unscale r c s).
Proof. repeat split. Qed.

Lemma d_getters_see_original_lemma r c (p : lpD) :
  d_in_range r c p ->
  let s := d_apply_scaling r c p in
  d_getLowerUnscaled_guarded c s = lo p /\ d_getUpperUnscaled_guarded c s = up p /\
  d_getLhsUnscaled_guarded r s = lhs p /\ d_getRhsUnscaled_guarded r s = rhs p /\
  d_getMaxObjUnscaled c s = obj p /\
  (forall j, (j < length (lo p))%nat -> d_lowerUnscaled c s j = nth j (lo p) DNaN) /\
  (forall j, (j < length (up p))%nat -> d_upperUnscaled c s j = nth j (up p) DNaN) /\
  (forall i, (i < length (lhs p))%nat -> d_lhsUnscaled r s i = nth i (lhs p) DNaN) /\
  (forall i, (i < length (rhs p))%nat -> d_rhsUnscaled r s i = nth i (rhs p) DNaN) /\
  (forall j, (j < length (obj p))%nat -> d_maxObjUnscaled c s j = nth j (obj p) DNaN).
Proof.
  intros H s. pose proof (d_unscale_scale_id_lemma r c p H) as E.
  destruct (d_guarded_getters_are_unscale r c s) as (G1 & G2 & G3 & G4 & G5).
  fold s in E. rewrite E in G1, G2, G3, G4, G5.
  repeat split; auto; intros k Hk.
  - rewrite <- G1. unfold d_getLowerUnscaled_guarded, d_lowerUnscaled.
    rewrite nth_map_exp_in; auto. subst s. unfold d_apply_scaling, map_lp; cbn [lo]. now rewrite map_exp_length.
  - rewrite <- G2. unfold d_getUpperUnscaled_guarded, d_upperUnscaled.
    rewrite nth_map_exp_in; auto. subst s. unfold d_apply_scaling, map_lp; cbn [up]. now rewrite map_exp_length.
  - rewrite <- G3. unfold d_getLhsUnscaled_guarded, d_lhsUnscaled.
    rewrite nth_map_exp_in; auto. subst s. unfold d_apply_scaling, map_lp; cbn [lhs]. now rewrite map_exp_length.
  - rewrite <- G4. unfold d_getRhsUnscaled_guarded, d_rhsUnscaled.
    rewrite nth_map_exp_in; auto. subst s. unfold d_apply_scaling, map_lp; cbn [rhs]. now rewrite map_exp_length.
  - rewrite <- G5. unfold d_getMaxObjUnscaled, d_maxObjUnscaled.
    rewrite nth_map_exp_in; auto. subst s. unfold d_apply_scaling, map_lp; cbn [obj]. now rewrite map_exp_length.
Qed.

(* ------------------------------------------------------------------------------------------------ *)
(* the stored double LP denotes the exact scaling of the denoted LP                                  *)
(* ------------------------------------------------------------------------------------------------ *)
Local Open Scope Q_scope.

Lemma map_map_exp_rel {T U} (R : U -> U -> Prop) (h : T -> U) (f : Z -> T -> T) (g : Z -> U -> U) es v :
  all_exp (fun e x => R (h (f e x)) (g e (h x))) es v -> Forall2 R (map h (map_exp f es v)) (map_exp g es (map h v)).
Proof.
  revert es; induction v as [|x v IH]; intros es; simpl.
  - constructor.
  - intros [H1 H2]. constructor; auto.
Qed.

Lemma d2q_fin_shift m e k : d2q (DFin m (e + k)) == qldexp (d2q (DFin m e)) k.
Proof. unfold d2q, qldexp. rewrite pow2_add. ring. Qed.

Lemma d2q_ldexp x k : val_ok x k -> d2q (ldexp_ieee x k) == qldexp (d2q x) k.
Proof.
  destruct x as [| | |m e]; simpl; try (intros _; symmetry; apply qldexp_zero).
  intros H. destruct (ldexp_fin_cases m e k H) as [[H0 ->]|[H1 Hm]].
  - simpl. unfold qldexp. ring.
  - change (d2q (ldexp_ieee (DFin m e) k) == qldexp (d2q (DFin m e)) k). rewrite H1. apply d2q_fin_shift.
Qed.

Lemma abs_upper_scaled x k : upper_ok x k -> ext_eq (abs_upper (dl_upper x k)) (ext_ldexp (abs_upper x) k).
Proof.
  destruct x as [| | |m e]; try (intros _; reflexivity).
  intros [Hf Ht]. unfold dl_upper. destruct (dlt (DFin m e) dinf) eqn:E.
  - destruct (ldexp_fin_cases m e k Hf) as [[H0 ->]|[H1 Hm]].
    + rewrite ldexp_zero. unfold abs_upper. rewrite E. simpl. unfold qldexp. ring.
    + rewrite H1. unfold abs_upper. rewrite (Ht eq_refl), E. cbn [ext_ldexp ext_eq]. apply d2q_fin_shift.
  - unfold abs_upper. rewrite E. reflexivity.
Qed.

Lemma abs_lower_scaled x k : lower_ok x k -> ext_eq (abs_lower (dl_lower x k)) (ext_ldexp (abs_lower x) k).
Proof.
  destruct x as [| | |m e]; try (intros _; reflexivity).
  intros [Hf Ht]. unfold dl_lower. destruct (dlt dninf (DFin m e)) eqn:E.
  - destruct (ldexp_fin_cases m e k Hf) as [[H0 ->]|[H1 Hm]].
    + rewrite ldexp_zero. unfold abs_lower. rewrite E. simpl. unfold qldexp. ring.
    + rewrite H1. unfold abs_lower. rewrite (Ht eq_refl), E. cbn [ext_ldexp ext_eq]. apply d2q_fin_shift.
  - unfold abs_lower. rewrite E. reflexivity.
Qed.

Lemma d_apply_refines_lemma r c (p : lpD) :
  d_in_range r c p -> lp_eq (abs_lp (d_apply_scaling r c p)) (apply_scaling r c (abs_lp p)).
Proof.
  destruct p as [o l u lh rh ro A].
  unfold d_in_range, lp_all, lp_eq, lp_rel, abs_lp, d_apply_scaling, apply_scaling, map_lp; cbn [obj lo up lhs rhs robj mat].
  intros (H1 & H2 & H3 & H4 & H5 & H6 & H7).
  split; [|split; [|split; [|split; [|split; [|split]]]]].
  - apply map_map_exp_rel. eapply all_exp_impl; [|exact H1]. intros e x Hx. now apply d2q_ldexp.
  - apply map_map_exp_rel. eapply all_exp_impl; [|exact H2]. intros e x Hx. now apply abs_lower_scaled.
  - apply map_map_exp_rel. eapply all_exp_impl; [|exact H3]. intros e x Hx. now apply abs_upper_scaled.
  - apply map_map_exp_rel. eapply all_exp_impl; [|exact H4]. intros e x Hx. now apply abs_lower_scaled.
  - apply map_map_exp_rel. eapply all_exp_impl; [|exact H5]. intros e x Hx. now apply abs_upper_scaled.
  - apply map_map_exp_rel. eapply all_exp_impl; [|exact H6]. intros e x Hx. now apply d2q_ldexp.
  - apply (map_map_exp_rel (Forall2 Qeq)). eapply all_exp_impl; [|exact H7]. intros ri row Hrow.
    apply map_map_exp_rel. eapply all_exp_impl; [|exact Hrow]. intros cj a Ha. now apply d2q_ldexp.
Qed.
