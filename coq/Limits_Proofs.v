(* C16 - lemmas about the stop logic model (LimitsModel.v). *)
From Coq Require Import ZArith QArith List Bool Lia Lqa.
From SV Require Import Vec LP Cert Cert_Proofs LimitsModel.
Import ListNotations.
Local Open Scope Z_scope.

(* a pass that priced a candidate, i.e. that reaches the two checks in front of enter()/leave() *)
Definition priced (k : ekind) : bool :=
  match k with Pivot | Flip | Infeasible | Unbounded => true | _ => false end.

Lemma run_from_cons lim n e r :
  run_from lim n (e :: r) =
  match ev_kind e with
  | Optimal => {| st := OPTIMAL; iters := n; rest := r |}
  | Fail => {| st := FAILED; iters := n; rest := r |}
  | Switch => run_from lim n r
  | Start => match terminate lim None e with
             | Some s => {| st := s; iters := n; rest := r |}
             | None => run_from lim n r
             end
  | k => if iter_limit_hit lim n then {| st := ABORT_ITER; iters := n; rest := e :: r |}
         else if use_intr lim && ev_intr e then {| st := ABORT_TIME; iters := n; rest := e :: r |}
         else match terminate lim (basis_after k) e with
              | Some s => {| st := s; iters := count_after k n; rest := r |}
              | None => run_from lim (count_after k n) r
              end
  end.
Proof. cbn [run_from]. destruct (ev_kind e); reflexivity. Qed.

(* a pass that priced a candidate, written once *)
Lemma run_from_priced lim n e r :
  priced (ev_kind e) = true ->
  run_from lim n (e :: r) =
  if iter_limit_hit lim n then {| st := ABORT_ITER; iters := n; rest := e :: r |}
  else if use_intr lim && ev_intr e then {| st := ABORT_TIME; iters := n; rest := e :: r |}
  else match terminate lim (basis_after (ev_kind e)) e with
       | Some s => {| st := s; iters := count_after (ev_kind e) n; rest := r |}
       | None => run_from lim (count_after (ev_kind e) n) r
       end.
Proof. intros P. rewrite run_from_cons. destruct (ev_kind e); try discriminate P; reflexivity. Qed.

Lemma terminate_none_cases lim e s :
  terminate lim None e = Some s ->
  (s = ABORT_TIME /\ use_time lim = true /\ ev_timeup e = true) \/
  (s = ABORT_VALUE /\ exists l v, obj_lim lim = Some l /\ ev_dual e = Some v /\ beyond (maxi lim) l v = true).
Proof.
  unfold terminate. destruct (use_time lim && ev_timeup e) eqn:T.
  - intros H. injection H as <-. left. apply andb_true_iff in T. tauto.
  - destruct (obj_lim lim) as [l|]; [|discriminate]. destruct (ev_dual e) as [v|]; [|discriminate].
    destruct (beyond (maxi lim) l v) eqn:B; [|discriminate]. intros H. injection H as <-.
    right. split; [reflexivity|]. exists l, v. auto.
Qed.

Lemma terminate_cases lim bs e s :
  terminate lim bs e = Some s -> bs = Some s \/ (bs = None /\ terminate lim None e = Some s).
Proof. destruct bs; cbn [terminate]; intros H; [left; exact H | right; split; [reflexivity | exact H]]. Qed.

Lemma basis_after_verdict k s : basis_after k = Some s -> is_verdict s = true /\ k = verdict_kind s.
Proof. destruct k; cbn; intros H; try discriminate H; injection H as <-; split; reflexivity. Qed.

Lemma count_after_bounds k n : n <= count_after k n <= n + 1.
Proof. destruct k; cbn; lia. Qed.

Lemma iter_limit_hit_false lim n : iter_limit_hit lim n = false -> 0 <= max_iters lim -> n < max_iters lim.
Proof. unfold iter_limit_hit. intros H Hm. apply andb_false_iff in H as [H|H]; [apply Z.leb_gt in H | apply Z.leb_gt in H]; lia. Qed.

Lemma iter_limit_hit_true lim n : iter_limit_hit lim n = true -> 0 <= max_iters lim <= n.
Proof. unfold iter_limit_hit. intros H. apply andb_true_iff in H as [A B]. apply Z.leb_le in A, B. lia. Qed.

(* ---------------------------------------------------------------------------------------------------------------------
   the iteration limit *)
Lemma run_from_iters_bounds lim evs : forall n,
  n <= iters (run_from lim n evs) /\
  (0 <= max_iters lim -> n <= max_iters lim -> iters (run_from lim n evs) <= max_iters lim).
Proof.
  induction evs as [|e r IH]; intros n.
  - cbn. split; intros; lia.
  - rewrite run_from_cons.
    destruct (ev_kind e) eqn:K; cbn [st iters rest];
      try (destruct (terminate lim None e); cbn [iters]; [split; intros; lia | apply IH]);
      try (split; intros; lia); try apply IH.
    all: destruct (iter_limit_hit lim n) eqn:H; cbn [iters]; [split; intros; lia|].
    all: destruct (use_intr lim && ev_intr e); cbn [iters]; [split; intros; lia|].
    all: match goal with |- context [terminate ?l ?b ?x] => destruct (terminate l b x) end; cbn [iters count_after].
    all: try (split; [lia | intros Hm Hn; pose proof (iter_limit_hit_false _ _ H Hm); lia]).
    all: match goal with |- context [run_from ?l ?m ?x] => destruct (IH m) as [A B] end.
    all: split; [lia | intros Hm Hn; apply B; [exact Hm | pose proof (iter_limit_hit_false _ _ H Hm); lia]].
Qed.

Lemma iter_limit_respected_from lim n evs :
  0 <= max_iters lim -> n <= max_iters lim -> iters (run_from lim n evs) <= max_iters lim.
Proof. intros. now apply run_from_iters_bounds. Qed.

Lemma iter_limit_respected lim evs :
  0 <= max_iters lim -> 0 <= iters (run lim evs) <= max_iters lim.
Proof.
  intros H. unfold run. destruct (run_from_iters_bounds lim evs 0) as [A B]. split; [exact A | now apply B].
Qed.

(* ABORT_ITER is reported only when a limit is set and the counter stands exactly at it *)
Lemma abort_iter_from lim evs : forall n,
  st (run_from lim n evs) = ABORT_ITER -> 0 <= max_iters lim /\ max_iters lim <= iters (run_from lim n evs).
Proof.
  induction evs as [|e r IH]; intros n.
  - cbn. discriminate.
  - rewrite run_from_cons.
    destruct (ev_kind e) eqn:K; cbn [st iters rest]; try discriminate; try apply IH.
    1: { destruct (terminate lim None e) eqn:T; cbn [st iters]; [|apply IH].
         intros ->. apply terminate_none_cases in T as [[T _]|[T _]]; discriminate T. }
    all: destruct (iter_limit_hit lim n) eqn:H; cbn [st iters]; [intros _; apply iter_limit_hit_true in H; lia|].
    all: destruct (use_intr lim && ev_intr e); cbn [st iters]; [discriminate|].
    all: match goal with |- context [terminate ?l ?b ?x] => destruct (terminate l b x) eqn:T end; cbn [st iters]; try apply IH.
    all: intros ->; apply terminate_cases in T as [T|[_ T]]; [cbn in T; discriminate T|].
    all: apply terminate_none_cases in T as [[T _]|[T _]]; discriminate T.
Qed.

Lemma abort_iter_exact lim evs :
  st (run lim evs) = ABORT_ITER -> 0 <= max_iters lim /\ iters (run lim evs) = max_iters lim.
Proof.
  intros H. destruct (abort_iter_from lim evs 0 H) as [A B]. split; [exact A|].
  pose proof (iter_limit_respected lim evs A). unfold run in *. lia.
Qed.

(* ---------------------------------------------------------------------------------------------------------------------
   honesty: a verdict is returned only if the oracle produced that terminal event, and it is the event at which the run
   ended (everything after it is left untouched) *)
Lemma abort_is_honest_from lim s evs : forall n,
  is_verdict s = true -> st (run_from lim n evs) = s ->
  exists pre e, evs = pre ++ e :: rest (run_from lim n evs) /\ ev_kind e = verdict_kind s.
Proof.
  intros n V. revert n. induction evs as [|e r IH]; intros n.
  - cbn. intros <-. discriminate V.
  - rewrite run_from_cons.
    assert (forall m, st (run_from lim m r) = s ->
            exists pre e0, e :: r = pre ++ e0 :: rest (run_from lim m r) /\ ev_kind e0 = verdict_kind s) as Step.
    { intros m Hm. destruct (IH m Hm) as (pre & e0 & E & Kd). exists (e :: pre), e0. split; [|exact Kd].
      cbn. now rewrite <- E. }
    destruct (ev_kind e) eqn:K; cbn [st iters rest].
    + destruct (terminate lim None e) eqn:T; cbn [st rest]; [|apply Step].
      intros ->. apply terminate_none_cases in T as [[T _]|[T _]]; subst s; discriminate V.
    + destruct (iter_limit_hit lim n); cbn [st rest]; [intros <-; discriminate V|].
      destruct (use_intr lim && ev_intr e); cbn [st rest]; [intros <-; discriminate V|].
      destruct (terminate lim (basis_after Pivot) e) eqn:T; cbn [st rest]; [|apply Step].
      intros ->. cbn in T. apply terminate_none_cases in T as [[T _]|[T _]]; subst s; discriminate V.
    + destruct (iter_limit_hit lim n); cbn [st rest]; [intros <-; discriminate V|].
      destruct (use_intr lim && ev_intr e); cbn [st rest]; [intros <-; discriminate V|].
      destruct (terminate lim (basis_after Flip) e) eqn:T; cbn [st rest]; [|apply Step].
      intros ->. cbn in T. apply terminate_none_cases in T as [[T _]|[T _]]; subst s; discriminate V.
    + apply Step.
    + intros <-. exists [], e. split; [reflexivity | exact K].
    + destruct (iter_limit_hit lim n); cbn [st rest]; [intros <-; discriminate V|].
      destruct (use_intr lim && ev_intr e); cbn [st rest]; [intros <-; discriminate V|].
      cbn [basis_after terminate st rest]. intros <-. exists [], e. split; [reflexivity | exact K].
    + destruct (iter_limit_hit lim n); cbn [st rest]; [intros <-; discriminate V|].
      destruct (use_intr lim && ev_intr e); cbn [st rest]; [intros <-; discriminate V|].
      cbn [basis_after terminate st rest]. intros <-. exists [], e. split; [reflexivity | exact K].
    + intros <-. discriminate V.
Qed.

Lemma abort_is_honest lim evs s :
  is_verdict s = true -> st (run lim evs) = s ->
  exists pre e, evs = pre ++ e :: rest (run lim evs) /\ ev_kind e = verdict_kind s.
Proof. intros V H. exact (abort_is_honest_from lim s evs 0 V H). Qed.

(* ---------------------------------------------------------------------------------------------------------------------
   decomposition over list append *)
Lemma run_from_app lim pre post : forall n,
  st (run_from lim n pre) = RUNNING ->
  run_from lim n (pre ++ post) = run_from lim (iters (run_from lim n pre)) post.
Proof.
  induction pre as [|e r IH]; intros n.
  - cbn. reflexivity.
  - rewrite <- app_comm_cons. rewrite !run_from_cons.
    destruct (ev_kind e) eqn:K; cbn [st iters rest]; try discriminate; try apply IH.
    1: { destruct (terminate lim None e) eqn:T; cbn [st iters]; [|apply IH].
         intros ->. apply terminate_none_cases in T as [[T _]|[T _]]; discriminate T. }
    all: destruct (iter_limit_hit lim n); cbn [st iters]; [discriminate|].
    all: destruct (use_intr lim && ev_intr e); cbn [st iters]; [discriminate|].
    all: match goal with |- context [terminate ?l ?b ?x] => destruct (terminate l b x) eqn:T end; cbn [st iters]; try apply IH.
    all: intros ->; apply terminate_cases in T as [T|[_ T]]; [cbn in T; discriminate T|].
    all: apply terminate_none_cases in T as [[T _]|[T _]]; discriminate T.
Qed.

(* without limits nothing but the engine ends the run *)
Lemma terminate_no_limits bs e : terminate no_limits bs e = bs.
Proof. destruct bs; reflexivity. Qed.

Lemma run_from_no_limits_cons n e r :
  run_from no_limits n (e :: r) =
  match ev_kind e with
  | Optimal => {| st := OPTIMAL; iters := n; rest := r |}
  | Fail => {| st := FAILED; iters := n; rest := r |}
  | Infeasible => {| st := INFEASIBLE; iters := n; rest := r |}
  | Unbounded => {| st := UNBOUNDED; iters := n; rest := r |}
  | Pivot => run_from no_limits (n + 1) r
  | _ => run_from no_limits n r
  end.
Proof. rewrite run_from_cons. destruct (ev_kind e); reflexivity. Qed.

Lemma no_limits_no_abort evs : forall n, is_abort (st (run_from no_limits n evs)) = false.
Proof.
  induction evs as [|e r IH]; intros n; [reflexivity|].
  rewrite run_from_no_limits_cons. destruct (ev_kind e); cbn [st is_abort]; auto.
Qed.

(* the counter is only carried along when there is no iteration limit *)
Lemma run_from_shift evs : forall n,
  st (run_from no_limits n evs) = st (run_from no_limits 0 evs) /\
  iters (run_from no_limits n evs) = n + iters (run_from no_limits 0 evs) /\
  rest (run_from no_limits n evs) = rest (run_from no_limits 0 evs).
Proof.
  induction evs as [|e r IH]; intros n; [cbn; repeat split; lia|].
  rewrite !run_from_no_limits_cons.
  destruct (ev_kind e); cbn [st iters rest]; try (repeat split; lia); try apply IH.
  destruct (IH (n + 1)) as (A & B & C). destruct (IH (0 + 1)) as (A' & B' & C').
  repeat split; [congruence | lia | congruence].
Qed.

(* resuming: a stopped run leaves in [rest] exactly the passes that were not executed; continuing them without limits,
   with the counter carried on, is the uninterrupted run *)
Lemma resume_from lim evs : forall n,
  is_verdict (st (run_from lim n evs)) = false -> st (run_from lim n evs) <> FAILED ->
  run_from no_limits (iters (run_from lim n evs)) (rest (run_from lim n evs)) = run_from no_limits n evs.
Proof.
  induction evs as [|e r IH]; intros n; [reflexivity|].
  rewrite (run_from_cons lim), (run_from_no_limits_cons n).
  destruct (ev_kind e) eqn:K; cbn [st iters rest]; try discriminate; try (intros _ F; now elim F); try apply IH.
  - destruct (terminate lim None e); cbn [st iters rest]; [reflexivity | apply IH].
  - destruct (iter_limit_hit lim n); cbn [st iters rest].
    { intros _ _. now rewrite run_from_no_limits_cons, K. }
    destruct (use_intr lim && ev_intr e); cbn [st iters rest].
    { intros _ _. now rewrite run_from_no_limits_cons, K. }
    cbn [basis_after count_after]. destruct (terminate lim None e); cbn [st iters rest]; [reflexivity | apply IH].
  - destruct (iter_limit_hit lim n); cbn [st iters rest].
    { intros _ _. now rewrite run_from_no_limits_cons, K. }
    destruct (use_intr lim && ev_intr e); cbn [st iters rest].
    { intros _ _. now rewrite run_from_no_limits_cons, K. }
    cbn [basis_after count_after]. destruct (terminate lim None e); cbn [st iters rest]; [reflexivity | apply IH].
  - destruct (iter_limit_hit lim n); cbn [st iters rest].
    { intros _ _. now rewrite run_from_no_limits_cons, K. }
    destruct (use_intr lim && ev_intr e); cbn [st iters rest].
    { intros _ _. now rewrite run_from_no_limits_cons, K. }
    cbn [basis_after terminate st is_verdict]. discriminate.
  - destruct (iter_limit_hit lim n); cbn [st iters rest].
    { intros _ _. now rewrite run_from_no_limits_cons, K. }
    destruct (use_intr lim && ev_intr e); cbn [st iters rest].
    { intros _ _. now rewrite run_from_no_limits_cons, K. }
    cbn [basis_after terminate st is_verdict]. discriminate.
Qed.

Lemma abort_not_verdict s : is_abort s = true -> is_verdict s = false /\ s <> FAILED.
Proof. destruct s; cbn; intros H; try discriminate H; split; auto; discriminate. Qed.

(* the statement in terms of two calls of solve(): the second one starts its counter at 0 again *)
Lemma resume_equals_uninterrupted lim evs :
  is_abort (st (run lim evs)) = true ->
  st (run no_limits (rest (run lim evs))) = st (run no_limits evs) /\
  iters (run lim evs) + iters (run no_limits (rest (run lim evs))) = iters (run no_limits evs) /\
  rest (run no_limits (rest (run lim evs))) = rest (run no_limits evs).
Proof.
  intros A. apply abort_not_verdict in A as [V F]. unfold run in *.
  pose proof (resume_from lim evs 0 V F) as R.
  destruct (run_from_shift (rest (run_from lim 0 evs)) (iters (run_from lim 0 evs))) as (S1 & S2 & S3).
  rewrite R in S1, S2, S3. repeat split; [now rewrite S1 | lia | now rewrite S3].
Qed.

(* the same for a prefix/suffix split chosen by the caller: stopping at the limit after the passes [pre] *)
Lemma append_equals_uninterrupted pre post :
  st (run no_limits pre) = RUNNING ->
  st (run_from no_limits (iters (run no_limits pre)) post) = st (run no_limits (pre ++ post)) /\
  iters (run_from no_limits (iters (run no_limits pre)) post) = iters (run no_limits (pre ++ post)).
Proof. intros H. unfold run in *. rewrite (run_from_app no_limits pre post 0 H). split; reflexivity. Qed.

(* ---------------------------------------------------------------------------------------------------------------------
   objective limit *)
Lemma abort_value_from lim evs : forall n,
  st (run_from lim n evs) = ABORT_VALUE ->
  exists e l v, In e evs /\ obj_lim lim = Some l /\ ev_dual e = Some v /\ beyond (maxi lim) l v = true.
Proof.
  induction evs as [|e r IH]; intros n.
  - cbn. discriminate.
  - rewrite run_from_cons.
    assert (forall m, st (run_from lim m r) = ABORT_VALUE ->
       exists e0 l v, In e0 (e :: r) /\ obj_lim lim = Some l /\ ev_dual e0 = Some v /\ beyond (maxi lim) l v = true) as Step.
    { intros m Hm. destruct (IH m Hm) as (e0 & l & v & I & R). exists e0, l, v. split; [now right | exact R]. }
    assert (forall s, terminate lim None e = Some s -> s = ABORT_VALUE ->
       exists e0 l v, In e0 (e :: r) /\ obj_lim lim = Some l /\ ev_dual e0 = Some v /\ beyond (maxi lim) l v = true) as Here.
    { intros s T ->. apply terminate_none_cases in T as [[T _]|[_ (l & v & R)]]; [discriminate T|].
      exists e, l, v. split; [now left | exact R]. }
    destruct (ev_kind e) eqn:K; cbn [st iters rest]; try discriminate; try apply Step.
    + destruct (terminate lim None e) eqn:T; cbn [st]; [|apply Step]. intros E. exact (Here _ eq_refl E).
    + destruct (iter_limit_hit lim n); cbn [st]; [discriminate|].
      destruct (use_intr lim && ev_intr e); cbn [st]; [discriminate|]. cbn [basis_after].
      destruct (terminate lim None e) eqn:T; cbn [st]; [|apply Step]. intros E. exact (Here _ eq_refl E).
    + destruct (iter_limit_hit lim n); cbn [st]; [discriminate|].
      destruct (use_intr lim && ev_intr e); cbn [st]; [discriminate|]. cbn [basis_after].
      destruct (terminate lim None e) eqn:T; cbn [st]; [|apply Step]. intros E. exact (Here _ eq_refl E).
    + destruct (iter_limit_hit lim n); cbn [st]; [discriminate|].
      destruct (use_intr lim && ev_intr e); cbn [st]; [discriminate|]. cbn [basis_after terminate st]. discriminate.
    + destruct (iter_limit_hit lim n); cbn [st]; [discriminate|].
      destruct (use_intr lim && ev_intr e); cbn [st]; [discriminate|]. cbn [basis_after terminate st]. discriminate.
Qed.

Lemma beyond_spec mx l v : beyond mx l v = true -> if mx then (v <= l)%Q else (l <= v)%Q.
Proof. unfold beyond. destruct mx; intros H; now apply Qle_bool_iff in H. Qed.

(* ABORT_VALUE with the meaning of [ev_dual]: the value the stop logic compared is the dual objective of some multipliers
   of the user's LP.  Weak duality then puts every feasible objective value - hence the optimum - beyond the limit. *)
Lemma objlimit_sound (p : lp) lim evs l :
  st (run lim evs) = ABORT_VALUE -> maxi lim = maximize p -> obj_lim lim = Some l ->
  (forall e v, In e evs -> ev_dual e = Some v -> exists y b, dual_bound p y = Some b /\ (b == v)%Q) ->
  forall x, feasible p x -> no_worse p l (objective p x).
Proof.
  intros H Hm Hl Hd x Hx. unfold run in H.
  destruct (abort_value_from lim evs 0 H) as (e & l' & v & I & L & D & B).
  rewrite Hl in L. injection L as <-.
  destruct (Hd e v I D) as (y & b & Db & Eb).
  pose proof (weak_duality p y x b Db Hx) as W.
  apply beyond_spec in B. rewrite Hm in B. unfold no_worse in *. destruct (maximize p); lra.
Qed.

Lemma objlimit_optimum_beyond (p : lp) lim evs l xopt :
  st (run lim evs) = ABORT_VALUE -> maxi lim = maximize p -> obj_lim lim = Some l ->
  (forall e v, In e evs -> ev_dual e = Some v -> exists y b, dual_bound p y = Some b /\ (b == v)%Q) ->
  optimal p xopt -> no_worse p l (objective p xopt).
Proof. intros H Hm Hl Hd [Hf _]. exact (objlimit_sound p lim evs l H Hm Hl Hd xopt Hf). Qed.

(* no objective limit, no ABORT_VALUE; the limit is never consulted in a state the oracle did not mark as dual feasible *)
Lemma no_objlimit_no_abort_value lim evs : obj_lim lim = None -> st (run lim evs) <> ABORT_VALUE.
Proof.
  intros H A. destruct (abort_value_from lim evs 0 A) as (e & l & v & _ & L & _). rewrite H in L. discriminate L.
Qed.

(* ---------------------------------------------------------------------------------------------------------------------
   interrupt and time limit *)
Lemma interrupt_gives_abort_time lim pre e post :
  use_intr lim = true -> ev_intr e = true -> priced (ev_kind e) = true ->
  st (run lim pre) = RUNNING -> iter_limit_hit lim (iters (run lim pre)) = false ->
  run lim (pre ++ e :: post) = {| st := ABORT_TIME; iters := iters (run lim pre); rest := e :: post |}.
Proof.
  intros U I P R H. unfold run in *. rewrite (run_from_app lim pre (e :: post) 0 R).
  rewrite (run_from_priced _ _ _ _ P), H, U, I. reflexivity.
Qed.

Lemma abort_time_has_cause lim evs : forall n,
  st (run_from lim n evs) = ABORT_TIME ->
  (use_intr lim = true /\ exists e, In e evs /\ ev_intr e = true /\ priced (ev_kind e) = true) \/
  (use_time lim = true /\ exists e, In e evs /\ ev_timeup e = true).
Proof.
  induction evs as [|e r IH]; intros n.
  - cbn. discriminate.
  - rewrite run_from_cons.
    assert (forall m, st (run_from lim m r) = ABORT_TIME ->
      (use_intr lim = true /\ exists e0, In e0 (e :: r) /\ ev_intr e0 = true /\ priced (ev_kind e0) = true) \/
      (use_time lim = true /\ exists e0, In e0 (e :: r) /\ ev_timeup e0 = true)) as Step.
    { intros m Hm. destruct (IH m Hm) as [[U (e0 & I & R)]|[U (e0 & I & R)]]; [left | right];
        (split; [exact U | exists e0; split; [now right | exact R]]). }
    assert (forall s, terminate lim None e = Some s -> s = ABORT_TIME ->
      (use_intr lim = true /\ exists e0, In e0 (e :: r) /\ ev_intr e0 = true /\ priced (ev_kind e0) = true) \/
      (use_time lim = true /\ exists e0, In e0 (e :: r) /\ ev_timeup e0 = true)) as Here.
    { intros s T ->. apply terminate_none_cases in T as [(_ & U & T)|[T _]]; [|discriminate T].
      right. split; [exact U | exists e; split; [now left | exact T]]. }
    destruct (ev_kind e) eqn:K; cbn [st iters rest]; try discriminate; try apply Step.
    + destruct (terminate lim None e) eqn:T; cbn [st]; [|apply Step]. intros E. exact (Here _ eq_refl E).
    + destruct (iter_limit_hit lim n); cbn [st]; [discriminate|].
      destruct (use_intr lim && ev_intr e) eqn:UI; cbn [st];
        [intros _; apply andb_true_iff in UI as [U I]; left; split; [exact U|]; exists e;
         split; [now left | split; [exact I | now rewrite K]] |].
      cbn [basis_after]. destruct (terminate lim None e) eqn:T; cbn [st]; [|apply Step]. intros E. exact (Here _ eq_refl E).
    + destruct (iter_limit_hit lim n); cbn [st]; [discriminate|].
      destruct (use_intr lim && ev_intr e) eqn:UI; cbn [st];
        [intros _; apply andb_true_iff in UI as [U I]; left; split; [exact U|]; exists e;
         split; [now left | split; [exact I | now rewrite K]] |].
      cbn [basis_after]. destruct (terminate lim None e) eqn:T; cbn [st]; [|apply Step]. intros E. exact (Here _ eq_refl E).
    + destruct (iter_limit_hit lim n); cbn [st]; [discriminate|].
      destruct (use_intr lim && ev_intr e) eqn:UI; cbn [st];
        [intros _; apply andb_true_iff in UI as [U I]; left; split; [exact U|]; exists e;
         split; [now left | split; [exact I | now rewrite K]] |].
      cbn [basis_after terminate st]. discriminate.
    + destruct (iter_limit_hit lim n); cbn [st]; [discriminate|].
      destruct (use_intr lim && ev_intr e) eqn:UI; cbn [st];
        [intros _; apply andb_true_iff in UI as [U I]; left; split; [exact U|]; exists e;
         split; [now left | split; [exact I | now rewrite K]] |].
      cbn [basis_after terminate st]. discriminate.
Qed.

(* TIMELIMIT <= time already used: the budget is 0 and any clock reading reaches it; the first call of terminate() stops *)
Lemma time_budget_exhausted timelimit elapsed clock :
  (timelimit <= elapsed)%Q -> (0 <= clock)%Q ->
  time_limit_reached (Some (time_budget timelimit elapsed)) false clock = true.
Proof.
  intros H C. unfold time_limit_reached, time_budget, set_termination_time. cbn [negb andb].
  destruct (Qle_bool 0 (timelimit - elapsed)) eqn:E; apply Qle_bool_iff.
  - apply Qle_bool_iff in E. lra.
  - exact C.
Qed.

Lemma time_up_stops_at_start lim e evs :
  ev_kind e = Start -> use_time lim = true -> ev_timeup e = true ->
  run lim (e :: evs) = {| st := ABORT_TIME; iters := 0; rest := evs |}.
Proof. intros K U T. unfold run. rewrite run_from_cons, K. unfold terminate. rewrite U, T. reflexivity. Qed.

(* ---------------------------------------------------------------------------------------------------------------------
   several inner solves: budget arithmetic *)
Lemma iter_budget_nonneg iterlimit used : 0 <= used <= iterlimit -> iter_budget iterlimit used = iterlimit - used.
Proof. intros H. unfold iter_budget, set_termination_iter. destruct (iterlimit - used <? 0) eqn:E; [apply Z.ltb_lt in E; lia | reflexivity]. Qed.

Lemma outer_from_iters lim iterlimit solves : forall used first last,
  0 <= used <= iterlimit ->
  used <= oiters (outer_from lim iterlimit used first last solves) <= iterlimit.
Proof.
  induction solves as [|s more IH]; intros used first last H.
  - cbn. lia.
  - cbn [outer_from].
    destruct (in_simp s); cbn [oiters]; try lia; try (now apply IH).
    set (r := run (inner_limits lim (iter_budget iterlimit used) first (in_objlim s)) (in_events s)).
    assert (0 <= iters r <= iterlimit - used) as B.
    { unfold r. rewrite iter_budget_nonneg by exact H.
      apply (iter_limit_respected (inner_limits lim (iterlimit - used) first (in_objlim s)) (in_events s)). cbn. lia. }
    destruct (may_resolve (st r)); cbn [oiters]; [|lia].
    specialize (IH (used + iters r) false (st r) ltac:(lia)). lia.
Qed.

Lemma outer_iter_limit_respected lim iterlimit solves :
  0 <= iterlimit -> 0 <= oiters (outer lim iterlimit solves) <= iterlimit.
Proof. intros H. unfold outer. apply (outer_from_iters lim iterlimit solves 0 true RUNNING). lia. Qed.

(* the reported verdict is the simplifier's or a terminal event of one of the inner solves *)
Definition verdict_source (v : status) (s : inner) : Prop :=
  (in_simp s <> S_OKAY /\ evaluate (in_simp s) RUNNING = v) \/
  (in_simp s = S_OKAY /\ exists a e b, in_events s = a ++ e :: b /\ ev_kind e = verdict_kind v).

Lemma outer_from_verdict lim iterlimit v solves : forall used first last,
  is_verdict v = true -> ost (outer_from lim iterlimit used first last solves) = v ->
  last = v \/ exists s, In s solves /\ verdict_source v s.
Proof.
  intros used first last V. revert used first last.
  induction solves as [|s more IH]; intros used first last.
  - cbn. intros H. now left.
  - cbn [outer_from].
    assert (forall u f l, ost (outer_from lim iterlimit u f l more) = v -> l = v ->
                          (exists s0, In s0 (s :: more) /\ verdict_source v s0) ->
                          last = v \/ exists s0, In s0 (s :: more) /\ verdict_source v s0) as Fin by (intros; now right).
    destruct (in_simp s) eqn:S; cbn [ost evaluate].
    + set (r := run (inner_limits lim (iter_budget iterlimit used) first (in_objlim s)) (in_events s)).
      assert (st r = v -> exists s0, In s0 (s :: more) /\ verdict_source v s0) as Here.
      { intros E. exists s. split; [now left|]. right. split; [exact S|].
        destruct (abort_is_honest _ _ _ V E) as (a & e & E1 & E2). eauto. }
      destruct (may_resolve (st r)); cbn [ost].
      * intros H. destruct (IH _ _ _ H) as [L|(s0 & I & R)]; right; [now apply Here | exists s0; split; [now right | exact R]].
      * intros H. right. now apply Here.
    + intros H. right. exists s. split; [now left|]. left. split; [rewrite S; discriminate | now rewrite S].
    + intros H. right. exists s. split; [now left|]. left. split; [rewrite S; discriminate | now rewrite S].
    + intros H. right. exists s. split; [now left|]. left. split; [rewrite S; discriminate | now rewrite S].
    + intros H. destruct (IH _ _ _ H) as [L|(s0 & I & R)]; right.
      * exists s. split; [now left|]. left. split; [rewrite S; discriminate | now rewrite S].
      * exists s0. split; [now right | exact R].
Qed.

Lemma outer_verdict_honest lim iterlimit solves v :
  is_verdict v = true -> ost (outer lim iterlimit solves) = v ->
  exists s, In s solves /\ verdict_source v s.
Proof.
  intros V H. unfold outer in H. destruct (outer_from_verdict lim iterlimit v solves 0 true RUNNING V H) as [L|R]; [|exact R].
  rewrite <- L in V. discriminate V.
Qed.

(* an inner solve stopped by the iteration limit or the time limit ends the optimize() call with that status *)
Lemma outer_abort_kept lim iterlimit used first last s more :
  in_simp s = S_OKAY ->
  may_resolve (st (run (inner_limits lim (iter_budget iterlimit used) first (in_objlim s)) (in_events s))) = false ->
  ost (outer_from lim iterlimit used first last (s :: more)) =
  st (run (inner_limits lim (iter_budget iterlimit used) first (in_objlim s)) (in_events s)).
Proof. intros S M. cbn [outer_from]. rewrite S, M. reflexivity. Qed.

(* ---------------------------------------------------------------------------------------------------------------------
   exact solve: one round of the verdict automaton *)
Lemma rat_round_honest o u f u2 t :
  (rat_round o u f u2 t = R_OPTIMAL ->
     o_pfeas o = true /\ o_dfeas o = true /\ o_error o = false /\ o_stime o = false /\ o_siter o = false) /\
  (rat_round o u f u2 t = R_INFEASIBLE ->
     f_infeasible f = true /\ f_error f = false /\ f_stime f = false /\ f_siter f = false /\
     o_error o = false /\ o_stime o = false /\ o_siter o = false) /\
  (rat_round o u f u2 t = R_UNBOUNDED ->
     u_hasray u = true /\ u_error u = false /\ u_stime u = false /\ u_siter u = false /\
     f_infeasible f = false /\ f_error f = false /\ f_stime f = false /\ f_siter f = false /\
     o_error o = false /\ o_stime o = false /\ o_siter o = false).
Proof.
  unfold rat_round.
  repeat match goal with
         | |- context [if ?b && _ then _ else _] => destruct b eqn:?; cbn [andb]
         | |- context [if ?b then _ else _] => destruct b eqn:?
         end; repeat split; intros; try discriminate; auto.
Qed.

Lemma rat_stop_flag_wins o u f u2 t :
  o_error o = false -> (o_stime o = true \/ o_siter o = true) ->
  rat_round o u f u2 t = R_ABORT_TIME \/ rat_round o u f u2 t = R_ABORT_ITER.
Proof.
  intros E [H|H]; unfold rat_round; rewrite E, ?H; [now left|]. destruct (o_stime o); [now left | now right].
Qed.

Lemma reflimit_stops l s :
  (0 <= rl_ref l <= r_refs s \/ 0 <= rl_stallref l <= r_stallrefs s \/ 0 <= rl_iter l <= r_iters s) ->
  is_solve_stopped l s = true.
Proof.
  intros H. unfold is_solve_stopped, stopped_iter. apply orb_true_iff. right.
  destruct H as [H|[H|H]]; destruct H as [A B]; apply Z.leb_le in A, B; rewrite A, B; cbn; rewrite ?orb_true_r; reflexivity.
Qed.

Lemma no_rlimits_never_stopped s :
  is_solve_stopped {| rl_time := None; rl_iter := -1; rl_ref := -1; rl_stallref := -1 |} s = false.
Proof. reflexivity. Qed.

(* ---------------------------------------------------------------------------------------------------------------------
   the verdict and the optimal value are properties of the LP: two runs that both end with a sound verdict agree,
   whatever pivots they made (used for "continuing reaches the same status and optimal value") *)
Lemma optimal_value_unique (p : lp) x x' : optimal p x -> optimal p x' -> (objective p x == objective p x')%Q.
Proof.
  intros [F O] [F' O']. specialize (O x' F'). specialize (O' x F).
  unfold no_worse in *. destruct (maximize p); lra.
Qed.
