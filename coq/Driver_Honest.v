(* C16 / C01 - the status the solve driver ends with is the status of the LAST inner solve (or the verdict of the simplifier
   in the last pass): statuses of earlier passes, e.g. a limit that stopped a pass that was then repeated, are never
   reported, and a limit status of the last pass is never turned into OPTIMAL.  Partial correctness (for every fuel);
   termination is Driver_Proofs.driver_terminates. *)
From Coq Require Import ZArith List Bool Lia.
From SV Require Import DriverModel.
Import ListNotations.
Local Open Scope Z_scope.

(* what one pass can show: the simplifier's verdict, or the status of the inner solve (after ABORT_CYCLING on the loaded,
   unscaled LP: the status the feasibility test of the cycling point gives) *)
Definition shows (o : orec) (sres : simp) (t : DriverModel.st) : Prop :=
  match sres with
  | S_INFEASIBLE => t = INFEASIBLE
  | S_UNBOUNDED => t = UNBOUNDED
  | S_DUAL_INFEASIBLE => t = INForUNBD
  | S_VANISHED => t = OPTIMAL
  | S_OKAY => o_status o = t \/ (o_status o = ABORT_CYCLING /\ o_cycstatus o = t)
  end.

Definition keeps (s s' : dstate) : Prop := status s' = status s /\ frame s' = frame s.

Arguments zb : simpl never.

Ltac sdestr s := destruct s as [so sc ld scd ss il hb stt hs hr hf ap oe oc uc sp ok fr tr].

Section Hon.
Variable P : dparams.
Variable orc : nat -> orec.
Variable rec : bool -> dstate -> res.
Variable Q : dstate -> Prop.
Hypothesis Hrec : forall a s s', rec a s = Done s' -> Q s'.

Lemma verify_sol_keeps o s s' : verify_sol rec o s = Done s' -> Q s' \/ keeps s s'.
Proof.
  sdestr s. unfold verify_sol. cbn. destruct (o_vbits o) as [[[b1 b2] b3] b4]. cbn.
  destruct (b1 || b2 || b3 || b4); intros H.
  - left. eapply Hrec. exact H.
  - right. inversion H. subst s'. split; reflexivity.
Qed.

Lemma verify_obj_keeps o s s' : verify_obj rec o s = Done s' -> Q s' \/ keeps s s'.
Proof.
  sdestr s. unfold verify_obj. cbn. destruct (o_vbits o) as [[[b1 b2] b3] b4]. cbn.
  destruct (negb (o_dualfeas o) || b3 || b4); intros H.
  - left. eapply Hrec. exact H.
  - right. inversion H. subst s'. split; reflexivity.
Qed.

Arguments verify_sol : simpl never.
Arguments verify_obj : simpl never.

Lemma store_keeps o verify s s' : store rec o verify s = Done s' -> Q s' \/ keeps s s'.
Proof.
  sdestr s. unfold store. cbn.
  destruct (so && o_throw o).
  - intros H. left. eapply Hrec. exact H.
  - destruct verify.
    + destruct stt; intros H;
        (apply verify_sol_keeps in H || apply verify_obj_keeps in H);
        (destruct H as [H | [H1 H2]]; [left; exact H | right; split; [rewrite H1 | rewrite H2]; reflexivity]).
    + intros H. right. inversion H. subst s'. split; reflexivity.
Qed.

Lemma store_from_presol_keeps o s s' : store_from_presol rec o s = Done s' -> Q s' \/ keeps s s'.
Proof.
  sdestr s. unfold store_from_presol. cbn. destruct (o_throw o); intros H.
  - left. eapply Hrec. exact H.
  - apply verify_sol_keeps in H. destruct H as [H | [H1 H2]]; [left; exact H | right; split; [rewrite H1 | rewrite H2]; reflexivity].
Qed.

Lemma resolve_hon o s s' : resolve rec o s = Done s' -> Q s'.
Proof. unfold resolve. intros H. eapply Hrec. exact H. Qed.

Arguments store : simpl never.
Arguments store_from_presol : simpl never.
Arguments resolve : simpl never.

Lemma evaluate_hon o sres en s s' :
  evaluate P rec o sres en s = Done s' -> Q s' \/ (frame s' = frame s /\ shows o sres (status s')).
Proof.
  sdestr s. unfold evaluate. cbn.
  destruct sres; cbn [shows].
  - (* S_OKAY *)
    destruct (o_status o) eqn:Hos; cbn;
      try (intros H; apply store_keeps in H; destruct H as [H | [H1 H2]];
           [left; exact H | right; cbn in H1, H2; split; [exact H2 | left; symmetry; exact H1]]).
    + (* OPTIMAL: store, then maybe the polishing pass *)
      unfold bind.
      destruct (store rec o (negb ld || scd) _) as [s1 | | s1] eqn:Hst; try discriminate.
      destruct (apply_pol s1).
      * intros H. left. eapply Hrec. exact H.
      * intros H. inversion H. subst s1. apply store_keeps in Hst. destruct Hst as [Hq | [H1 H2]].
        -- left. exact Hq.
        -- right. cbn in H1, H2. split; [exact H2 | left; symmetry; exact H1].
    + (* UNBOUNDED *)
      destruct (negb ld && p_ensureray P); intros H.
      * left. eapply resolve_hon. exact H.
      * apply store_keeps in H. destruct H as [H | [H1 H2]]; [left; exact H | right; cbn in H1, H2; split; [exact H2 | left; symmetry; exact H1]].
    + (* INFEASIBLE *)
      destruct (negb ld && p_ensureray P); intros H.
      * left. eapply resolve_hon. exact H.
      * apply store_keeps in H. destruct H as [H | [H1 H2]]; [left; exact H | right; cbn in H1, H2; split; [exact H2 | left; symmetry; exact H1]].
    + (* INForUNBD *)
      destruct (negb ld && p_ensureray P); intros H.
      * left. eapply resolve_hon. exact H.
      * apply store_keeps in H. destruct H as [H | [H1 H2]]; [left; exact H | right; cbn in H1, H2; split; [exact H2 | left; symmetry; exact H1]].
    + (* OPT_UNSCALED_VIOL *)
      intros H. inversion H. subst s'. right. cbn. split; [reflexivity | left; reflexivity].
    + (* SINGULAR *)
      destruct ld; cbn; intros H.
      * inversion H. subst s'. right. cbn. split; [reflexivity | left; reflexivity].
      * left. eapply Hrec. exact H.
    + (* ABORT_VALUE *)
      destruct en; [ | discriminate].
      intros H; apply store_keeps in H; destruct H as [H | [H1 H2]];
        [left; exact H | right; cbn in H1, H2; split; [exact H2 | left; symmetry; exact H1]].
    + (* ABORT_CYCLING *)
      destruct (negb ld || scd); intros H; apply store_keeps in H; destruct H as [H | [H1 H2]]; try (left; exact H).
      * right. cbn in H1, H2. split; [exact H2 | left; symmetry; exact H1].
      * right. cbn in H1, H2. split; [exact H2 | right; split; [reflexivity | symmetry; exact H1]].
    + (* OTHER *)
      intros H. inversion H. subst s'. right. cbn. split; [reflexivity | left; reflexivity].
  - (* S_INFEASIBLE *)
    destruct (p_ensureray P); intros H.
    + left. eapply Hrec. exact H.
    + inversion H. subst s'. right. cbn. split; reflexivity.
  - (* S_DUAL_INFEASIBLE *)
    destruct (p_ensureray P); intros H.
    + left. eapply Hrec. exact H.
    + inversion H. subst s'. right. cbn. split; reflexivity.
  - (* S_UNBOUNDED *)
    destruct (p_ensureray P); intros H.
    + left. eapply Hrec. exact H.
    + inversion H. subst s'. right. cbn. split; reflexivity.
  - (* S_VANISHED *)
    intros H. apply store_from_presol_keeps in H. destruct H as [H | [H1 H2]]; [left; exact H | right; cbn in H1, H2; split; [exact H2 | exact H1]].
Qed.

Lemma frame_setup apply o s : frame (pas_setup P apply o s) = S (frame s).
Proof. destruct s; reflexivity. Qed.

Lemma pas_body_hon apply s s' :
  pas_body P orc rec apply s = Done s' ->
  Q s' \/ (frame s' = S (frame s) /\ shows (orc (frame s)) (pas_sres P apply (orc (frame s))) (status s')).
Proof.
  unfold pas_body. intros H. apply evaluate_hon in H. rewrite frame_setup in H. exact H.
Qed.
End Hon.

(* the final status is what the last pass shows *)
Definition Honest (P : dparams) (orc : nat -> orec) (s' : dstate) : Prop :=
  exists a f, frame s' = S f /\ shows (orc f) (pas_sres P a (orc f)) (status s').

Lemma pas_honest P orc fuel : forall apply s s', pas P orc fuel apply s = Done s' -> Honest P orc s'.
Proof.
  induction fuel as [|f IH]; intros apply s s' H; [discriminate|].
  cbn [pas] in H. apply (pas_body_hon P orc (pas P orc f) (Honest P orc)) in H.
  - destruct H as [H | [H1 H2]]; [exact H|]. exists apply, (frame s). split; assumption.
  - intros a s0 s1 H0. eapply IH. exact H0.
Qed.

Theorem driver_reports_last_pass P orc oscaled fuel s0 s' :
  optimize P orc oscaled fuel s0 = Done s' -> Honest P orc s'.
Proof. unfold optimize. intros H. eapply pas_honest. exact H. Qed.

(* corollaries *)
Definition is_limit (t : DriverModel.st) : bool := match t with ABORT_TIME | ABORT_ITER => true | _ => false end.

Theorem limit_status_not_invented P orc oscaled fuel s0 s' :
  optimize P orc oscaled fuel s0 = Done s' -> is_limit (status s') = true ->
  exists f, frame s' = S f /\
    (o_status (orc f) = status s' \/ (o_status (orc f) = ABORT_CYCLING /\ o_cycstatus (orc f) = status s')).
Proof.
  intros H L. destruct (driver_reports_last_pass _ _ _ _ _ _ H) as (a & f & Hf & Hs).
  exists f. split; [exact Hf|].
  destruct (pas_sres P a (orc f)); cbn in Hs; try exact Hs; rewrite Hs in L; discriminate L.
Qed.

Theorem optimal_not_claimed_after_limit P orc oscaled fuel s0 s' :
  optimize P orc oscaled fuel s0 = Done s' -> status s' = OPTIMAL ->
  exists f, frame s' = S f /\
    (o_status (orc f) = OPTIMAL \/ (o_status (orc f) = ABORT_CYCLING /\ o_cycstatus (orc f) = OPTIMAL) \/
     (p_simp P = true /\ o_simp (orc f) = S_VANISHED)).
Proof.
  intros H L. destruct (driver_reports_last_pass _ _ _ _ _ _ H) as (a & f & Hf & Hs).
  exists f. split; [exact Hf|]. rewrite L in Hs.
  unfold pas_sres in *. destruct (a && p_simp P) eqn:E.
  - apply andb_true_iff in E as [_ Ep]. destruct (o_simp (orc f)) eqn:Es; cbn in Hs; try discriminate Hs.
    + destruct Hs as [Hs | Hs]; [left; exact Hs | right; left; exact Hs].
    + right. right. split; [exact Ep | reflexivity].
  - cbn in Hs. destruct Hs as [Hs | Hs]; [left; exact Hs | right; left; exact Hs].
Qed.

(* a verdict INFEASIBLE / UNBOUNDED at the end is the verdict of the last pass, too *)
Theorem verdict_from_last_pass P orc oscaled fuel s0 s' t :
  optimize P orc oscaled fuel s0 = Done s' -> status s' = t -> (t = INFEASIBLE \/ t = UNBOUNDED) ->
  exists f, frame s' = S f /\
    (o_status (orc f) = t \/ (o_status (orc f) = ABORT_CYCLING /\ o_cycstatus (orc f) = t) \/
     (p_simp P = true /\ (o_simp (orc f) = S_INFEASIBLE /\ t = INFEASIBLE \/ o_simp (orc f) = S_UNBOUNDED /\ t = UNBOUNDED))).
Proof.
  intros H L Ht. destruct (driver_reports_last_pass _ _ _ _ _ _ H) as (a & f & Hf & Hs).
  exists f. split; [exact Hf|]. rewrite L in Hs.
  unfold pas_sres in *. destruct (a && p_simp P) eqn:E.
  - apply andb_true_iff in E as [_ Ep]. destruct (o_simp (orc f)) eqn:Es; cbn in Hs.
    + destruct Hs as [Hs | Hs]; [left; exact Hs | right; left; exact Hs].
    + right. right. split; [exact Ep|]. left. split; [reflexivity | exact Hs].
    + destruct Ht as [-> | ->]; discriminate Hs.
    + right. right. split; [exact Ep|]. right. split; [reflexivity | exact Hs].
    + destruct Ht as [-> | ->]; discriminate Hs.
  - cbn in Hs. destruct Hs as [Hs | Hs]; [left; exact Hs | right; left; exact Hs].
Qed.
