(* C08 - DoubletonEquationPS::execute (PostsolveModel.exec_DoubletonEquation): when the step fires it makes column k basic with
   reduced cost 0 by choosing the multiplier of the equation row i, and prices the singleton column j with ITS coefficient a_ij. *)
From Coq Require Import QArith Qabs List Bool Arith Lia Lqa Setoid.
From SV Require Import Vec LP Cert PostsolveModel Postsolve_Proofs.
Import ListNotations.
Local Open Scope Q_scope.

Definition dbl_fires (c : cmps) (j k : nat) (maxSense strictLo strictUp : bool) (t : st) : bool :=
  let ck := gcs t k in
  let rj := gr t j in
  negb (is_basic ck) &&
     ((vstat_eqb ck ON_LOWER && strictLo) || (vstat_eqb ck ON_UPPER && strictUp) ||
      (vstat_eqb ck FIXED &&
         ((maxSense && ((Qltb' 0 rj && strictUp) || (Qltb' rj 0 && strictLo))) ||
          (negb maxSense && ((Qltb' 0 rj && strictLo) || (Qltb' rj 0 && strictUp)))))).

Lemma sdot_skip_qupd col i y v : sdot_skip col i (qupd y i v) == sdot_skip col i y.
Proof.
  induction col as [|[l a] col IH]; simpl; [reflexivity|]. rewrite IH.
  destruct (Nat.eqb_spec l i) as [->|Hne]; [reflexivity|]. rewrite vnth_qupd_other by congruence. reflexivity.
Qed.

(* the vectors the step writes when it fires *)
Lemma exec_DoubletonEquation_fields c j k i ms jf jObj kObj aij slo sup loj col t :
  dbl_fires c j k ms slo sup t = true ->
  let t' := exec_DoubletonEquation c j k i ms jf jObj kObj aij slo sup loj col t in
  let val := kObj - sdot_skip col i (sy t) in
  sx t' = sx t /\ ss t' = ss t /\ sy t' = qupd (sy t) i (val / sget col i) /\
  sr t' = qupd (qupd (sr t) k 0) j (jObj - val * aij / sget col i).
Proof.
  intros F. unfold exec_DoubletonEquation. unfold dbl_fires in F. rewrite F.
  destruct t as [x y s r cs rs].
  destruct jf;
    [| destruct (gt_e c (jObj - (kObj - sdot_skip col i (sy (mkst x y s r cs rs))) * aij / sget col i) 0
                 || zero_e c (jObj - (kObj - sdot_skip col i (sy (mkst x y s r cs rs))) * aij / sget col i)
                    && eq_e c (gx (set_r (set_r (set_y (mkst x y s r cs rs) i ((kObj - sdot_skip col i (sy (mkst x y s r cs rs))) / sget col i)) k 0) j
                                    (jObj - (kObj - sdot_skip col i (sy (mkst x y s r cs rs))) * aij / sget col i)) j) loj)];
    cbv beta iota zeta delta [set_x set_y set_s set_r set_cs set_rs gx gy gs gr gcs grs sx sy ss sr scs srs];
    repeat split; reflexivity.
Qed.

(* the dual identities of the two columns: column k (vector col, cost kObj) gets reduced cost 0, the singleton column j (entry a_ij
   in row i only, cost jObj) gets c_j - a_ij y_i *)
Theorem DoubletonEquation_dual_update c j k i ms jf jObj kObj aij slo sup loj col t :
  dbl_fires c j k ms slo sup t = true -> j <> k -> ~ sget col i == 0 ->
  let t' := exec_DoubletonEquation c j k i ms jf jObj kObj aij slo sup loj col t in
  gr t' k == kObj - (sdot_skip col i (sy t') + sget col i * gy t' i) /\
  gr t' j == jObj - aij * gy t' i /\
  (forall l, l <> i -> gy t' l = gy t l) /\ (forall q, q <> j -> q <> k -> gr t' q = gr t q).
Proof.
  intros F Hjk Ha t'.
  destruct (exec_DoubletonEquation_fields c j k i ms jf jObj kObj aij slo sup loj col t F) as (Fx & Fs & Fy & Fr).
  fold t' in Fx, Fs, Fy, Fr.
  unfold gr, gy. rewrite Fr, Fy. repeat split.
  - rewrite vnth_qupd_other by congruence. rewrite vnth_qupd_same, vnth_qupd_same, sdot_skip_qupd. field. exact Ha.
  - rewrite !vnth_qupd_same. field. exact Ha.
  - intros l Hl. rewrite vnth_qupd_other by congruence. reflexivity.
  - intros q Hq1 Hq2. rewrite !vnth_qupd_other by congruence. reflexivity.
Qed.
