(* C12 - proofs about the writer normalisations of LPFileModel.v *)
From Coq Require Import ZArith QArith Bool List Lia Lqa Setoid.
From SV Require Import LPFileModel.
Import ListNotations.
Local Open Scope Q_scope.

(* ---------------------------------------------------------------- split_ranges *)

Lemma split_row_ok x r : Forall (row_ok x) (split_row r) <-> row_ok x r.
Proof.
  unfold split_row. destruct (is_ranged r) eqn:E.
  - unfold row_ok; cbn [r_lhs r_coefs r_rhs]. split.
    + intros H. inversion H as [|? ? H1 H2]; subst. inversion H2 as [|? ? H3 _]; subst.
      cbn in H1, H3. tauto.
    + intros [H1 H2]. repeat constructor; cbn; auto.
  - split.
    + intros H. now inversion H.
    + intros H. now constructor.
Qed.

Lemma split_ranges_feasible p x : feasible (split_ranges p) x <-> feasible p x.
Proof.
  unfold feasible, split_ranges; cbn [l_cols l_rows].
  rewrite Forall_flat_map.
  assert (Forall (fun d => Forall (row_ok x) (split_row d)) (l_rows p) <-> Forall (row_ok x) (l_rows p)) as H.
  { rewrite !Forall_forall. split; intros H r Hr; specialize (H r Hr); now apply split_row_ok. }
  tauto.
Qed.

Lemma split_ranges_equiv p : equiv_lp (split_ranges p) p.
Proof.
  split; [reflexivity|]. split.
  - apply split_ranges_feasible.
  - intros x. reflexivity.
Qed.

(* every row of the split LP is one-sided or an equation *)
Lemma split_row_not_ranged r : Forall (fun r' => is_ranged r' = false) (split_row r).
Proof.
  unfold split_row. destruct (is_ranged r) eqn:E.
  - repeat constructor; unfold is_ranged; cbn; auto. now destruct (r_lhs r).
  - now repeat constructor.
Qed.

Lemma split_ranges_no_ranged p : Forall (fun r => is_ranged r = false) (l_rows (split_ranges p)).
Proof.
  unfold split_ranges; cbn. apply Forall_flat_map. apply Forall_forall. intros r _. apply split_row_not_ranged.
Qed.

(* ---------------------------------------------------------------- mps_max_to_min *)

Lemma dot_neg a x : dot (map Qopp a) x == - dot a x.
Proof.
  revert x. induction a as [|c a IH]; intros [|v x]; cbn; try lra.
  rewrite IH. lra.
Qed.

Lemma map_obj_neg cs : map c_obj (map neg_col cs) = map Qopp (map c_obj cs).
Proof. induction cs; cbn; congruence. Qed.

Lemma neg_cols_ok cs x : Forall2 col_ok (map neg_col cs) x <-> Forall2 col_ok cs x.
Proof.
  revert x. induction cs as [|c cs IH]; intros x; cbn.
  - split; intros H; inversion H; constructor.
  - split; intros H; inversion H; subst; constructor; try (now apply IH); auto.
Qed.

Lemma mps_feasible p x : feasible (mps_max_to_min p) x <-> feasible p x.
Proof.
  unfold mps_max_to_min. destruct (l_sense p); [tauto|].
  unfold feasible; cbn [l_cols l_rows]. now rewrite neg_cols_ok.
Qed.

Lemma mps_objective p x :
  objective (mps_max_to_min p) x == match l_sense p with Min => objective p x | Max => - objective p x end.
Proof.
  unfold mps_max_to_min. destruct (l_sense p) eqn:E; [reflexivity|].
  unfold objective; cbn [l_offset l_cols]. rewrite map_obj_neg, dot_neg. lra.
Qed.

Lemma mps_sense p : l_sense (mps_max_to_min p) = Min.
Proof. unfold mps_max_to_min. destruct (l_sense p) eqn:E; auto. Qed.

Lemma mps_optimal p x : optimal (mps_max_to_min p) x <-> optimal p x.
Proof.
  unfold optimal. rewrite mps_sense.
  split; intros [Hf H]; split; try (now apply mps_feasible); intros y Hy.
  - assert (Hy' := proj2 (mps_feasible p y) Hy). specialize (H y Hy').
    pose proof (mps_objective p x) as E1. pose proof (mps_objective p y) as E2.
    destruct (l_sense p); cbn [better] in *; lra.
  - assert (Hy' := proj1 (mps_feasible p y) Hy). specialize (H y Hy').
    pose proof (mps_objective p x) as E1. pose proof (mps_objective p y) as E2.
    destruct (l_sense p); cbn [better] in *; lra.
Qed.

Lemma mps_max_to_min_equiv p :
  l_sense (mps_max_to_min p) = Min /\
  (forall x, feasible (mps_max_to_min p) x <-> feasible p x) /\
  (forall x, objective (mps_max_to_min p) x == match l_sense p with Min => objective p x | Max => - objective p x end) /\
  (forall x, optimal (mps_max_to_min p) x <-> optimal p x).
Proof.
  split; [apply mps_sense|]. split; [apply mps_feasible|]. split; [apply mps_objective|apply mps_optimal].
Qed.

(* ---------------------------------------------------------------- drop_offset *)

Lemma drop_offset_feasible p x : feasible (drop_offset p) x <-> feasible p x.
Proof. reflexivity. Qed.

Lemma drop_offset_objective p x : objective (drop_offset p) x == objective p x - l_offset p.
Proof. unfold objective, drop_offset; cbn. lra. Qed.

Lemma drop_offset_optimal p x : optimal (drop_offset p) x <-> optimal p x.
Proof.
  unfold optimal. cbn [drop_offset l_sense].
  split; intros [Hf H]; split; auto; intros y Hy; specialize (H y Hy);
    pose proof (drop_offset_objective p x) as E1; pose proof (drop_offset_objective p y) as E2;
    destruct (l_sense p); cbn [better] in *; lra.
Qed.

(* ---------------------------------------------------------------- equivalence transfers optimal solutions *)

Lemma equiv_optimal a b x : equiv_lp a b -> (optimal a x <-> optimal b x).
Proof.
  intros (Hs & Hf & Ho). unfold optimal. rewrite Hs.
  split; intros [H1 H2]; split; try (now apply Hf); intros y Hy.
  - apply Hf in Hy. specialize (H2 y Hy). pose proof (Ho x) as E1. pose proof (Ho y) as E2.
    destruct (l_sense b); cbn [better] in *; lra.
  - apply Hf in Hy. specialize (H2 y Hy). pose proof (Ho x) as E1. pose proof (Ho y) as E2.
    destruct (l_sense b); cbn [better] in *; lra.
Qed.

(* ---------------------------------------------------------------- dropped columns *)

Lemma nth_zero_nth j a : nth_zero j a = true -> nth j a 0 == 0.
Proof.
  revert a. induction j as [|j IH]; intros [|c a]; cbn; intros H; try reflexivity.
  - now apply Qeq_bool_eq.
  - now apply IH.
Qed.

(* the masks produced by [used_from] have the length of the column list; we phrase the lemmas with that premise *)
Lemma dot_mask keep a x :
  length keep = length x ->
  (forall j, nth j keep true = false -> nth j a 0 == 0) ->
  dot (mask keep a) (mask keep x) == dot a x.
Proof.
  revert a x. induction keep as [|k keep IH]; intros a x HL H.
  - destruct x; [|discriminate]. destruct a; reflexivity.
  - destruct x as [|v x]; [discriminate|]. destruct a as [|c a].
    + cbn. destruct k; reflexivity.
    + cbn in HL. assert (forall j, nth j keep true = false -> nth j a 0 == 0) as H'.
      { intros j Hj. apply (H (S j)). exact Hj. }
      destruct k; cbn [mask dot].
      * rewrite IH; auto. reflexivity.
      * rewrite IH; auto. specialize (H O eq_refl). cbn in H. rewrite H. lra.
Qed.

Lemma used_from_length p j cs : length (used_from p j cs) = length cs.
Proof. revert j. induction cs; intros j; cbn; auto. Qed.

Lemma used_from_nth p j0 cs j :
  nth j (used_from p j0 cs) true = false ->
  exists c, nth_error cs j = Some c /\ col_used p (j0 + j) c = false.
Proof.
  revert j0 j. induction cs as [|c cs IH]; intros j0 j H.
  - destruct j; discriminate.
  - destruct j as [|j]; cbn in H.
    + exists c. split; auto. now rewrite Nat.add_0_r.
    + destruct (IH (S j0) j H) as (c' & H1 & H2). exists c'. split; auto.
      now rewrite Nat.add_succ_r.
Qed.

Lemma col_unused_facts p j c :
  col_used p j c = false ->
  c_obj c == 0 /\ Forall (fun r => nth j (r_coefs r) 0 == 0) (l_rows p).
Proof.
  unfold col_used. intros H. apply orb_false_iff in H as [H1 H2].
  split.
  - apply negb_false_iff in H1. now apply Qeq_bool_eq.
  - apply Forall_forall. intros r Hr.
    assert (negb (nth_zero j (r_coefs r)) = false) as H3.
    { destruct (negb (nth_zero j (r_coefs r))) eqn:E; auto.
      exfalso. assert (existsb (fun r => negb (nth_zero j (r_coefs r))) (l_rows p) = true) as H4.
      { apply existsb_exists. exists r. split; auto. }
      congruence. }
    apply negb_false_iff in H3. now apply nth_zero_nth.
Qed.

Lemma mask_Forall2 keep cs x :
  Forall2 col_ok cs x -> Forall2 col_ok (mask keep cs) (mask keep x).
Proof.
  intros H. revert keep. induction H as [|c v cs x Hc _ IH]; intros keep.
  - destruct keep; constructor.
  - destruct keep as [|k keep]; [constructor|]. cbn. destruct k; auto.
Qed.

Lemma Forall2_len {A B} (R : A -> B -> Prop) l1 l2 : Forall2 R l1 l2 -> length l1 = length l2.
Proof. induction 1; cbn; congruence. Qed.

Lemma map_nth_obj cs j : nth j (map c_obj cs) 0 = match nth_error cs j with Some c => c_obj c | None => 0 end.
Proof. revert j. induction cs; intros [|j]; cbn; auto. Qed.

Lemma map_mask {A B} (f : A -> B) keep l : map f (mask keep l) = mask keep (map f l).
Proof.
  revert l. induction keep as [|k keep IH]; intros [|a l]; cbn; auto.
  destruct k; cbn; now rewrite IH.
Qed.

(* projection: a feasible point of p, restricted to the used columns, is feasible for the reduced LP with the same
   objective value *)
Lemma drop_unused_project p x :
  feasible p x ->
  feasible (drop_unused p) (mask (used_mask p) x) /\
  objective (drop_unused p) (mask (used_mask p) x) == objective p x.
Proof.
  intros [Hc Hr].
  assert (length (used_mask p) = length x) as HL.
  { unfold used_mask. rewrite used_from_length. now apply Forall2_len in Hc. }
  assert (forall r, In r (l_rows p) -> dot (mask (used_mask p) (r_coefs r)) (mask (used_mask p) x) == dot (r_coefs r) x) as HD.
  { intros r Hin. apply dot_mask; auto. intros j Hj.
    destruct (used_from_nth p O (l_cols p) j Hj) as (c & _ & Hu). cbn in Hu.
    apply col_unused_facts in Hu as [_ Hu]. rewrite Forall_forall in Hu. now apply Hu. }
  split.
  - split.
    + unfold drop_unused, drop_cols; cbn [l_cols]. now apply mask_Forall2.
    + unfold drop_unused, drop_cols; cbn [l_rows]. apply Forall_forall. intros r' Hin.
      apply in_map_iff in Hin as (r & <- & Hin). rewrite Forall_forall in Hr. specialize (Hr r Hin).
      unfold row_ok in *; cbn [r_lhs r_coefs r_rhs]. specialize (HD r Hin).
      destruct Hr as [H1 H2]. split.
      * destruct (r_lhs r); cbn in *; auto. now rewrite HD.
      * destruct (r_rhs r); cbn in *; auto. now rewrite HD.
  - unfold objective, drop_unused, drop_cols; cbn [l_offset l_cols].
    rewrite map_mask, dot_mask; auto; try reflexivity.
    intros j Hj. destruct (used_from_nth p O (l_cols p) j Hj) as (c & Hn & Hu). cbn in Hu.
    apply col_unused_facts in Hu as [Hu _]. rewrite map_nth_obj, Hn. exact Hu.
Qed.

(* extension: a feasible point of the reduced LP extends (with any admissible value of the dropped columns) to a
   feasible point of p with the same objective value *)
Lemma mask_unmask keep cs x :
  length keep = length cs -> length x = length (mask keep cs) ->
  mask keep (unmask keep cs x) = x.
Proof.
  revert cs x. induction keep as [|k keep IH]; intros cs x H1 H2.
  - destruct cs; [|discriminate]. cbn in H2. destruct x; [reflexivity|discriminate].
  - destruct cs as [|c cs]; [discriminate|]. cbn in H1. injection H1 as H1. cbn in H2 |- *.
    destruct k.
    + destruct x as [|v x]; [discriminate|]. cbn in H2. injection H2 as H2. cbn. now rewrite IH.
    + cbn. now apply IH.
Qed.

Lemma unmask_length keep cs x : length keep = length cs -> length (unmask keep cs x) = length cs.
Proof.
  revert cs x. induction keep as [|k keep IH]; intros [|c cs] x H; try discriminate; auto.
  cbn in H. injection H as H. cbn. destruct k.
  - destruct x; cbn; now rewrite IH.
  - cbn. now rewrite IH.
Qed.

Lemma pick_ok c : bounds_nonempty c -> col_ok c (pick c).
Proof.
  unfold bounds_nonempty, col_ok, pick, lo_ok, up_ok.
  destruct (c_lo c), (c_up c); intros H; split; auto; lra.
Qed.

Lemma unmask_Forall2 keep cs x :
  length keep = length cs ->
  (forall j c, nth j keep true = false -> nth_error cs j = Some c -> bounds_nonempty c) ->
  Forall2 col_ok (mask keep cs) x -> Forall2 col_ok cs (unmask keep cs x).
Proof.
  revert cs x. induction keep as [|k keep IH]; intros [|c cs] x HL HB H; try discriminate; try constructor.
  cbn in HL. injection HL as HL.
  assert (forall j c', nth j keep true = false -> nth_error cs j = Some c' -> bounds_nonempty c') as HB'.
  { intros j c' Hj Hc. apply (HB (S j) c'); auto. }
  cbn in H |- *. destruct k.
  - inversion H as [|? v ? x' Hc Hx]; subst. constructor; auto.
  - constructor.
    + apply pick_ok. apply (HB O c); auto.
    + apply IH; auto.
Qed.

Lemma drop_unused_extend p x' :
  (forall j c, nth j (used_mask p) true = false -> nth_error (l_cols p) j = Some c -> bounds_nonempty c) ->
  feasible (drop_unused p) x' ->
  let x := unmask (used_mask p) (l_cols p) x' in
  feasible p x /\ objective p x == objective (drop_unused p) x' /\ mask (used_mask p) x = x'.
Proof.
  intros HB [Hc Hr] x.
  assert (length (used_mask p) = length (l_cols p)) as HL by (unfold used_mask; apply used_from_length).
  assert (mask (used_mask p) x = x') as HM.
  { apply mask_unmask; auto. apply Forall2_len in Hc. unfold drop_unused, drop_cols in Hc; cbn in Hc. now symmetry. }
  assert (Forall2 col_ok (l_cols p) x) as HC.
  { apply unmask_Forall2; auto. }
  assert (length (used_mask p) = length x) as HLx.
  { unfold x. rewrite unmask_length; auto. }
  assert (forall r, In r (l_rows p) -> dot (mask (used_mask p) (r_coefs r)) x' == dot (r_coefs r) x) as HD.
  { intros r Hin. rewrite <- HM at 1. apply dot_mask; auto. intros j Hj.
    destruct (used_from_nth p O (l_cols p) j Hj) as (c & _ & Hu). cbn in Hu.
    apply col_unused_facts in Hu as [_ Hu]. rewrite Forall_forall in Hu. now apply Hu. }
  split; [|split]; auto.
  - split; auto. apply Forall_forall. intros r Hin.
    unfold drop_unused, drop_cols in Hr; cbn [l_rows] in Hr. rewrite Forall_forall in Hr.
    specialize (Hr (mkRow (r_lhs r) (mask (used_mask p) (r_coefs r)) (r_rhs r))).
    assert (row_ok x' (mkRow (r_lhs r) (mask (used_mask p) (r_coefs r)) (r_rhs r))) as H.
    { apply Hr. apply in_map_iff. exists r. split; auto. }
    unfold row_ok in *; cbn [r_lhs r_coefs r_rhs] in *. specialize (HD r Hin). destruct H as [H1 H2]. split.
    + destruct (r_lhs r); cbn in *; auto. now rewrite <- HD.
    + destruct (r_rhs r); cbn in *; auto. now rewrite <- HD.
  - unfold objective, drop_unused, drop_cols; cbn [l_offset l_cols].
    rewrite map_mask.
    assert (dot (mask (used_mask p) (map c_obj (l_cols p))) x' ==
            dot (mask (used_mask p) (map c_obj (l_cols p))) (mask (used_mask p) x)) as E by (now rewrite HM).
    rewrite E, dot_mask; auto; try reflexivity.
    intros j Hj. destruct (used_from_nth p O (l_cols p) j Hj) as (c & Hn & Hu). cbn in Hu.
    apply col_unused_facts in Hu as [Hu _]. rewrite map_nth_obj, Hn. exact Hu.
Qed.

(* ---------------------------------------------------------------- the images of a written file *)

Lemma file_images_same_optimal p x :
  (optimal (lpf_image true p) x <-> optimal p x) /\ (optimal (mps_image true p) x <-> optimal p x).
Proof.
  unfold lpf_image, mps_image. split.
  - rewrite drop_offset_optimal. apply equiv_optimal, split_ranges_equiv.
  - rewrite drop_offset_optimal. apply mps_optimal.
Qed.
