(* C14 - Basis files and state files restore exactly what was saved.
   Property theorems only (BAS files at record level); each is closed by [exact] of a lemma of BasisFile_Proofs.v.
   The state-file part (LP + settings + basis into a new solver) is validated per run by checks/C14.py. *)
From Coq Require Import QArith Bool List ZArith String.
From SV Require Import BasisModel BasisModel_Proofs BasisFileModel BasisFile_Proofs.
Import ListNotations.
Local Open Scope nat_scope.

(* Writing a valid descriptor and reading the records back - with any injective name lists, in both formats -
   yields exactly what loadDesc makes of the descriptor.  [free_ok]: a P_FREE entry on a properly boxed variable
   has no representation in the file; it is excluded unless loadDesc would put it on the lower bound anyway. *)
Theorem C14_bas_roundtrip : forall lp d rn cn cpx,
  isDescValid lp d = true -> free_ok lp d = true ->
  NoDup rn -> NoDup cn -> List.length rn = nRows lp -> List.length cn = nCols lp ->
  readBasis lp rn cn (writeBasis lp d rn cn cpx) = Some (loadDesc lp d).
Proof. exact bas_roundtrip. Qed.
Print Assumptions C14_bas_roundtrip.

(* Every descriptor a solver holds after loadDesc (setBasis, readBasis, unsimplified bases) restores exactly. *)
Theorem C14_bas_roundtrip_loaded : forall lp ds rn cn cpx,
  List.length (d_rows ds) = nRows lp -> List.length (d_cols ds) = nCols lp ->
  NoDup rn -> NoDup cn -> List.length rn = nRows lp -> List.length cn = nCols lp ->
  readBasis lp rn cn (writeBasis lp (loadDesc lp ds) rn cn cpx) = Some (loadDesc lp ds).
Proof. exact bas_roundtrip_loaded. Qed.
Print Assumptions C14_bas_roundtrip_loaded.

(* The second writer (status arrays kept outside the solver) writes the same records as the first. *)
Theorem C14_outside_writer_agrees : forall lp d rn cn cpx,
  writeBasisOutside lp (fst (getBasis d)) (snd (getBasis d)) rn cn cpx = writeBasis lp d rn cn cpx.
Proof. exact writeOutside_agrees. Qed.
Print Assumptions C14_outside_writer_agrees.

(* Default names x<j>, C<i> with decimal printing are injective. *)
Theorem C14_default_names_injective : forall p a b, dname p a = dname p b -> a = b.
Proof. exact dname_inj. Qed.
Print Assumptions C14_default_names_injective.

Theorem C14_default_names_NoDup : forall p n, NoDup (default_names p n).
Proof. exact default_names_NoDup. Qed.
Print Assumptions C14_default_names_NoDup.

(* File level with user names for rows and columns, both formats, both writers. *)
Theorem C14_file_roundtrip_user_names : forall lp d rn cn cpx,
  isDescValid lp d = true -> free_ok lp d = true ->
  NoDup rn -> NoDup cn -> List.length rn = nRows lp -> List.length cn = nCols lp ->
  readBasisFile lp (Some rn) (Some cn) (writeBasisFile lp d (Some rn) (Some cn) cpx) = Some (loadDesc lp d) /\
  readBasisFile lp (Some rn) (Some cn)
    (writeBasisFileOutside lp (fst (getBasis d)) (snd (getBasis d)) (Some rn) (Some cn) cpx) = Some (loadDesc lp d).
Proof. exact file_roundtrip_user. Qed.
Print Assumptions C14_file_roundtrip_user_names.

(* With default names the round trip holds for the documented construction of the reader's names ... *)
Theorem C14_bas_roundtrip_default_names_intended : forall lp d cpx,
  isDescValid lp d = true -> free_ok lp d = true ->
  readBasisFile_intended lp None None (writeBasisFile lp d None None cpx) = Some (loadDesc lp d).
Proof. exact file_roundtrip_default_intended. Qed.
Print Assumptions C14_bas_roundtrip_default_names_intended.

(* ... and is refuted for the construction in the code (one stringstream that is never cleared: x0, x0x1, ...):
   a valid basis with the second column non-basic at its upper bound is written as "UL x1", a name the reader does
   not know, so readBasisFile fails. *)
Definition ex14_lp : blp :=
  mkBlp [mkVar None (Some 10%Q) 0%Q]
        [mkVar (Some 0%Q) (Some 4%Q) (-1)%Q; mkVar (Some 0%Q) (Some 5%Q) 2%Q].
Definition ex14_d : desc := mkDesc [D_ON_LOWER] [P_ON_LOWER; P_ON_UPPER].

Theorem C14_bas_roundtrip_default_names_refuted : exists lp d,
  isDescValid lp d = true /\ free_ok lp d = true /\
  readBasisFile lp None None (writeBasisFile lp d None None false) = None /\
  readBasisFile_intended lp None None (writeBasisFile lp d None None false) = Some (loadDesc lp d).
Proof. exists ex14_lp, ex14_d. vm_compute. repeat split. Qed.
Print Assumptions C14_bas_roundtrip_default_names_refuted.

(* ---- non-vacuity ---- *)
Example C14_ex_records :
  writeBasis ex14_lp (mkDesc [P_ON_UPPER] [D_ON_BOTH; P_ON_UPPER]) ["r0"%string] ["a"%string; "b"%string] false
  = [mkRec XU "a" (Some "r0"%string); mkRec UL "b" None]
  /\ isDescValid ex14_lp (mkDesc [P_ON_UPPER] [D_ON_BOTH; P_ON_UPPER]) = true
  /\ free_ok ex14_lp (mkDesc [P_ON_UPPER] [D_ON_BOTH; P_ON_UPPER]) = true.
Proof. vm_compute. repeat split. Qed.

Example C14_ex_names : default_names "x" 3 = ["x0"; "x1"; "x2"]%string /\ accum_names "x" 3 = ["x0"; "x0x1"; "x0x1x2"]%string
  /\ dname "C" 120 = "C120"%string.
Proof. vm_compute. repeat split. Qed.
