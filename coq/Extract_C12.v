(* Extraction of the C12 models (ExtrOcamlBasic only: bool, option, unit, list, prod mapped to OCaml's;
   nat, positive, Z, Q, ascii stay the extracted inductive types). *)
From Coq Require Extraction.
From Coq Require Import ExtrOcamlBasic ZArith QArith List Ascii.
From SV Require Import Dbl LiteralModel LPFileModel DualModel.

Extraction "../extract/C12/model.ml"
  denote denote_sci rat_intended rat_code lpf_value outcome_val nearest_doubleb overflowsb underflowsb print_q dyadic_val
  lpf_image mps_image split_ranges mps_max_to_min drop_offset drop_unused used_mask dual_of.
