(* C16 - Limits and interrupts stop the solve honestly and resumably.
   Property theorems only (each closed by [exact] of a lemma of Limits_Proofs.v).  They quantify over ALL event lists the
   simplex engine (an oracle: pricer, ratio test, basis update are not modelled) may produce and over all limit settings.
   [run] is the stop logic of SPxSolverBase<R>::solve / terminate, [outer] the budget arithmetic and status mapping of
   SoPlexBase<R>::_solveRealLPAndRecordStatistics / _evaluateSolutionReal, [rat_round] one round of _optimizeRational. *)
From Coq Require Import ZArith QArith List Bool.
From SV Require Import Vec LP Cert Cert_Proofs LimitsModel Limits_Proofs.
From SV Require DriverModel Driver_Honest.
Import ListNotations.
Local Open Scope Z_scope.

(* No more simplex iterations than the limit allows: inner solve ... *)
Theorem C16_iter_limit_respected :
  forall lim evs, 0 <= max_iters lim -> 0 <= iters (run lim evs) <= max_iters lim.
Proof. exact iter_limit_respected. Qed.
Print Assumptions C16_iter_limit_respected.

(* ... and the whole optimize() call with any number of inner solves (re-solves after polishing, failed verification,
   singularity): the budget ITERLIMIT - iterations-so-far never becomes negative, so setTerminationIter's
   "negative means unlimited" is never reached, and numIterations() <= ITERLIMIT. *)
Theorem C16_iter_limit_respected_across_inner_solves :
  forall lim iterlimit solves, 0 <= iterlimit -> 0 <= oiters (outer lim iterlimit solves) <= iterlimit.
Proof. exact outer_iter_limit_respected. Qed.
Print Assumptions C16_iter_limit_respected_across_inner_solves.

(* ABORT_ITER is reported only with a limit set and exactly that many iterations performed. *)
Theorem C16_abort_iter_exact :
  forall lim evs, st (run lim evs) = ABORT_ITER -> 0 <= max_iters lim /\ iters (run lim evs) = max_iters lim.
Proof. exact abort_iter_exact. Qed.
Print Assumptions C16_abort_iter_exact.

(* Honesty: OPTIMAL / INFEASIBLE / UNBOUNDED is returned only if the engine produced exactly that terminal event, and the
   run ended at it (all earlier passes were executed, everything after it is untouched). *)
Theorem C16_abort_is_honest :
  forall lim evs s, is_verdict s = true -> st (run lim evs) = s ->
    exists pre e, evs = pre ++ e :: rest (run lim evs) /\ ev_kind e = verdict_kind s.
Proof. exact abort_is_honest. Qed.
Print Assumptions C16_abort_is_honest.

(* The same for the status optimize() reports after several inner solves: a verdict is the simplifier's or a terminal
   event of an inner solve; abort statuses are never mapped to verdicts ... *)
Theorem C16_reported_verdict_is_honest :
  forall lim iterlimit solves v, is_verdict v = true -> ost (outer lim iterlimit solves) = v ->
    exists s, In s solves /\ verdict_source v s.
Proof. exact outer_verdict_honest. Qed.
Print Assumptions C16_reported_verdict_is_honest.

(* ... and an inner solve stopped by the iteration limit or the time limit / interrupt ends optimize() with that status
   (no re-solve follows: may_resolve is false for ABORT_ITER and ABORT_TIME). *)
Theorem C16_abort_status_kept :
  forall lim iterlimit used first last s more,
    in_simp s = S_OKAY ->
    may_resolve (st (run (inner_limits lim (iter_budget iterlimit used) first (in_objlim s)) (in_events s))) = false ->
    ost (outer_from lim iterlimit used first last (s :: more)) =
    st (run (inner_limits lim (iter_budget iterlimit used) first (in_objlim s)) (in_events s)).
Proof. exact outer_abort_kept. Qed.
Print Assumptions C16_abort_status_kept.

(* Without limits only the engine ends a run. *)
Theorem C16_no_limits_no_abort :
  forall evs n, is_abort (st (run_from no_limits n evs)) = false.
Proof. exact no_limits_no_abort. Qed.
Print Assumptions C16_no_limits_no_abort.

(* Resumability of the stop logic: a run stopped by ANY limit (iteration limit, interrupt, time limit, objective limit)
   leaves exactly the passes it did not execute; executing those without limits gives the status of the uninterrupted run,
   the iteration counts add up, and the same passes remain. *)
Theorem C16_resume_equals_uninterrupted :
  forall lim evs, is_abort (st (run lim evs)) = true ->
    st (run no_limits (rest (run lim evs))) = st (run no_limits evs) /\
    iters (run lim evs) + iters (run no_limits (rest (run lim evs))) = iters (run no_limits evs) /\
    rest (run no_limits (rest (run lim evs))) = rest (run no_limits evs).
Proof. exact resume_equals_uninterrupted. Qed.
Print Assumptions C16_resume_equals_uninterrupted.

(* "wherever the stop occurred": splitting the passes at any point (list append). *)
Theorem C16_resume_at_any_point :
  forall pre post, st (run no_limits pre) = RUNNING ->
    st (run_from no_limits (iters (run no_limits pre)) post) = st (run no_limits (pre ++ post)) /\
    iters (run_from no_limits (iters (run no_limits pre)) post) = iters (run no_limits (pre ++ post)).
Proof. exact append_equals_uninterrupted. Qed.
Print Assumptions C16_resume_at_any_point.

(* The resumed solve of the real code re-initialises and may take other pivots than the uninterrupted one; that it still
   reaches "the same status and optimal value" rests on the verdict and the optimal value being functions of the LP: *)
Theorem C16_optimal_value_unique :
  forall (p : lp) x x', optimal p x -> optimal p x' -> (objective p x == objective p x')%Q.
Proof. exact optimal_value_unique. Qed.
Print Assumptions C16_optimal_value_unique.

Theorem C16_verdicts_exclusive :
  forall p : lp, (forall x, optimal p x -> ~ infeasible p) /\ (forall x, optimal p x -> ~ unbounded p) /\ (unbounded p -> ~ infeasible p).
Proof. exact verdicts_exclusive. Qed.
Print Assumptions C16_verdicts_exclusive.

(* Objective limit.  ABORT_VALUE comes only from a state the oracle marked dual feasible without shift and violations whose
   objective is beyond the limit; if those marked values are dual objective values of multipliers of the user's LP (the
   meaning of the mark - trusted, checked per run through the certified optimum), weak duality puts every feasible
   objective value, hence the optimum, beyond the limit in the direction of optimisation. *)
Theorem C16_objlimit_sound :
  forall (p : lp) lim evs l,
    st (run lim evs) = ABORT_VALUE -> maxi lim = maximize p -> obj_lim lim = Some l ->
    (forall e v, In e evs -> ev_dual e = Some v -> exists y b, dual_bound p y = Some b /\ (b == v)%Q) ->
    forall x, feasible p x -> no_worse p l (objective p x).
Proof. exact objlimit_sound. Qed.
Print Assumptions C16_objlimit_sound.

Theorem C16_objlimit_optimum_beyond :
  forall (p : lp) lim evs l xopt,
    st (run lim evs) = ABORT_VALUE -> maxi lim = maximize p -> obj_lim lim = Some l ->
    (forall e v, In e evs -> ev_dual e = Some v -> exists y b, dual_bound p y = Some b /\ (b == v)%Q) ->
    optimal p xopt -> no_worse p l (objective p xopt).
Proof. exact objlimit_optimum_beyond. Qed.
Print Assumptions C16_objlimit_optimum_beyond.

Theorem C16_no_objlimit_no_abort_value :
  forall lim evs, obj_lim lim = None -> st (run lim evs) <> ABORT_VALUE.
Proof. exact no_objlimit_no_abort_value. Qed.
Print Assumptions C16_no_objlimit_no_abort_value.

(* Interrupt: the first pass that prices a candidate while the flag is up stops with ABORT_TIME before the step is taken
   (the pass stays in [rest]); and ABORT_TIME never appears without a raised flag or an elapsed time limit. *)
Theorem C16_interrupt_gives_abort_time :
  forall lim pre e post,
    use_intr lim = true -> ev_intr e = true -> priced (ev_kind e) = true ->
    st (run lim pre) = RUNNING -> iter_limit_hit lim (iters (run lim pre)) = false ->
    run lim (pre ++ e :: post) = {| st := ABORT_TIME; iters := iters (run lim pre); rest := e :: post |}.
Proof. exact interrupt_gives_abort_time. Qed.
Print Assumptions C16_interrupt_gives_abort_time.

Theorem C16_abort_time_has_cause :
  forall lim evs n, st (run_from lim n evs) = ABORT_TIME ->
    (use_intr lim = true /\ exists e, In e evs /\ ev_intr e = true /\ priced (ev_kind e) = true) \/
    (use_time lim = true /\ exists e, In e evs /\ ev_timeup e = true).
Proof. exact abort_time_has_cause. Qed.
Print Assumptions C16_abort_time_has_cause.

(* Time limit already used up (TIMELIMIT 0): the budget is clamped to 0, every clock reading reaches it, and the call of
   terminate() in front of the loop stops with ABORT_TIME and 0 iterations. *)
Theorem C16_time_budget_exhausted :
  forall timelimit elapsed clock, (timelimit <= elapsed)%Q -> (0 <= clock)%Q ->
    time_limit_reached (Some (time_budget timelimit elapsed)) false clock = true.
Proof. exact time_budget_exhausted. Qed.
Print Assumptions C16_time_budget_exhausted.

Theorem C16_time_up_stops_at_start :
  forall lim e evs, ev_kind e = Start -> use_time lim = true -> ev_timeup e = true ->
    run lim (e :: evs) = {| st := ABORT_TIME; iters := 0; rest := evs |}.
Proof. exact time_up_stops_at_start. Qed.
Print Assumptions C16_time_up_stops_at_start.

(* Exact solve: a round of _optimizeRational reports a verdict only if the refinement procedures established it and none of
   them raised a stop or error flag; a raised flag of the first procedure always wins; REFLIMIT / STALLREFLIMIT / ITERLIMIT
   reached make _isSolveStopped true. *)
Theorem C16_rational_round_honest :
  forall o u f u2 t,
  (rat_round o u f u2 t = R_OPTIMAL ->
     o_pfeas o = true /\ o_dfeas o = true /\ o_error o = false /\ o_stime o = false /\ o_siter o = false) /\
  (rat_round o u f u2 t = R_INFEASIBLE ->
     f_infeasible f = true /\ f_error f = false /\ f_stime f = false /\ f_siter f = false /\
     o_error o = false /\ o_stime o = false /\ o_siter o = false) /\
  (rat_round o u f u2 t = R_UNBOUNDED ->
     u_hasray u = true /\ u_error u = false /\ u_stime u = false /\ u_siter u = false /\
     f_infeasible f = false /\ f_error f = false /\ f_stime f = false /\ f_siter f = false /\
     o_error o = false /\ o_stime o = false /\ o_siter o = false).
Proof. exact rat_round_honest. Qed.
Print Assumptions C16_rational_round_honest.

Theorem C16_rational_stop_flag_wins :
  forall o u f u2 t, o_error o = false -> (o_stime o = true \/ o_siter o = true) ->
    rat_round o u f u2 t = R_ABORT_TIME \/ rat_round o u f u2 t = R_ABORT_ITER.
Proof. exact rat_stop_flag_wins. Qed.
Print Assumptions C16_rational_stop_flag_wins.

Theorem C16_refinement_limits_stop :
  forall l s, (0 <= rl_ref l <= r_refs s \/ 0 <= rl_stallref l <= r_stallrefs s \/ 0 <= rl_iter l <= r_iters s) ->
    is_solve_stopped l s = true.
Proof. exact reflimit_stops. Qed.
Print Assumptions C16_refinement_limits_stop.

(* ---- non-vacuity: a concrete run (dual simplex: three pivots and a flip, a switch, then OPTIMAL) ---- *)
Definition ev (k : ekind) (d : option Q) : event := {| ev_kind := k; ev_intr := false; ev_timeup := false; ev_dual := d |}.
Definition ex_events : list event :=
  [ev Start None; ev Pivot (Some (2#1)); ev Flip (Some (3#1)); ev Pivot (Some (5#1)); ev Switch None; ev Pivot None; ev Optimal None].
Definition lim_iter (k : Z) : limits :=
  {| max_iters := k; use_intr := false; use_time := false; obj_lim := None; maxi := false |}.

Example C16_ex_unlimited : st (run no_limits ex_events) = OPTIMAL /\ iters (run no_limits ex_events) = 3.
Proof. vm_compute. repeat split. Qed.
Example C16_ex_limit_2 : st (run (lim_iter 2) ex_events) = ABORT_ITER /\ iters (run (lim_iter 2) ex_events) = 2
  /\ length (rest (run (lim_iter 2) ex_events)) = 2%nat.
Proof. vm_compute. repeat split. Qed.
Example C16_ex_resume_2 : st (run no_limits (rest (run (lim_iter 2) ex_events))) = OPTIMAL
  /\ iters (run no_limits (rest (run (lim_iter 2) ex_events))) = 1.
Proof. vm_compute. repeat split. Qed.
(* the limit equal to the number of pivots of the unlimited run still ends OPTIMAL: optimality is seen by the pricer before
   the iteration check; an INFEASIBLE / UNBOUNDED verdict, detected inside the step, needs one more *)
Example C16_ex_limit_3 : st (run (lim_iter 3) ex_events) = OPTIMAL.
Proof. vm_compute. repeat split. Qed.
Example C16_ex_limit_inf : st (run (lim_iter 0) [ev Start None; ev Infeasible None]) = ABORT_ITER
  /\ st (run (lim_iter 1) [ev Start None; ev Infeasible None]) = INFEASIBLE.
Proof. vm_compute. repeat split. Qed.
(* objective limit 4 for a minimisation: the dual objective 5 after the third priced pass is beyond it *)
Definition lim_obj : limits := {| max_iters := -1; use_intr := false; use_time := false; obj_lim := Some (4#1); maxi := false |}.
Example C16_ex_abort_value : st (run lim_obj ex_events) = ABORT_VALUE /\ iters (run lim_obj ex_events) = 2.
Proof. vm_compute. repeat split. Qed.
(* the hypothesis of C16_objlimit_sound is satisfiable: the LP of Properties_C01 has multipliers with dual objective 5 *)
Definition ex_lp : lp :=
  {| maximize := false; offset := 3;
     cols := [ {| c_obj := 1; c_lo := Some 0%Q; c_up := Some (4#1) |}; {| c_obj := 2#1; c_lo := Some 0%Q; c_up := None |} ];
     rows := [ {| r_lhs := Some (2#1); r_coef := [1%Q; 1%Q]; r_rhs := None |} ] |}.
Example C16_ex_dual_value : exists y b, dual_bound ex_lp y = Some b /\ (b == 5#1)%Q.
Proof. exists [1%Q]. eexists. split; [vm_compute; reflexivity | reflexivity]. Qed.
Example C16_ex_objlimit_applies :
  forall x, feasible ex_lp x -> no_worse ex_lp (4#1) (objective ex_lp x).
Proof.
  apply (C16_objlimit_sound ex_lp lim_obj [ev Start None; ev Pivot (Some (5#1))] (4#1)).
  - vm_compute. reflexivity.
  - reflexivity.
  - reflexivity.
  - intros e v [<-|[<-|[]]]; cbn; intros H; [discriminate H|]. injection H as <-. exact C16_ex_dual_value.
Qed.
(* interrupt raised during the third pass *)
Definition evi (k : ekind) : event := {| ev_kind := k; ev_intr := true; ev_timeup := false; ev_dual := None |}.
Definition lim_intr : limits := {| max_iters := -1; use_intr := true; use_time := false; obj_lim := None; maxi := false |}.
Example C16_ex_interrupt :
  run lim_intr ([ev Start None; ev Pivot None; ev Flip None] ++ evi Pivot :: [ev Optimal None])
  = {| st := ABORT_TIME; iters := 1; rest := evi Pivot :: [ev Optimal None] |}.
Proof. vm_compute. reflexivity. Qed.
(* two inner solves under ITERLIMIT 3: the second one gets the budget 3 - 2 = 1 *)
Example C16_ex_outer :
  outer no_limits 3 [ {| in_simp := S_OKAY; in_objlim := true; in_events := [ev Start None; ev Pivot None; ev Pivot None; ev Optimal None] |};
                      {| in_simp := S_OKAY; in_objlim := true; in_events := [ev Start None; ev Pivot None; ev Pivot None; ev Optimal None] |} ]
  = {| ost := ABORT_ITER; oiters := 3 |}.
Proof. vm_compute. reflexivity. Qed.
Example C16_ex_outer_unlimited :
  outer no_limits (-1) [ {| in_simp := S_OKAY; in_objlim := true; in_events := [ev Start None; ev Pivot None; ev Pivot None; ev Optimal None] |};
                         {| in_simp := S_OKAY; in_objlim := true; in_events := [ev Start None; ev Pivot None; ev Pivot None; ev Optimal None] |} ]
  = {| ost := OPTIMAL; oiters := 4 |}.
Proof. vm_compute. reflexivity. Qed.

(* ---------------------------------------------------------------------------------------------------------------- *)
(* The solve driver (DriverModel.v: optimize / _preprocessAndSolveReal / _evaluateSolutionReal and the store / verify /
   re-solve paths, replayed against the guarded trace points on every floating-point solve of this check): the status it
   ends with is what the LAST pass shows - the simplifier's verdict or the status of the last inner solve.  A limit status
   of an earlier pass that was repeated is not reported, a limit status is not invented, and OPTIMAL is not claimed when
   the last inner solve stopped at a limit.  For every oracle (= every behaviour of simplifier, simplex and verification),
   every parameter setting, every start state and every fuel. *)
Theorem C16_driver_reports_last_pass : forall P orc oscaled fuel s0 s',
  DriverModel.optimize P orc oscaled fuel s0 = DriverModel.Done s' -> Driver_Honest.Honest P orc s'.
Proof. exact Driver_Honest.driver_reports_last_pass. Qed.
Print Assumptions C16_driver_reports_last_pass.

Theorem C16_limit_status_not_invented : forall P orc oscaled fuel s0 s',
  DriverModel.optimize P orc oscaled fuel s0 = DriverModel.Done s' -> Driver_Honest.is_limit (DriverModel.status s') = true ->
  exists f, DriverModel.frame s' = S f /\
    (DriverModel.o_status (orc f) = DriverModel.status s' \/ (DriverModel.o_status (orc f) = DriverModel.ABORT_CYCLING /\ DriverModel.o_cycstatus (orc f) = DriverModel.status s')).
Proof. exact Driver_Honest.limit_status_not_invented. Qed.
Print Assumptions C16_limit_status_not_invented.

Theorem C16_optimal_not_claimed_after_limit : forall P orc oscaled fuel s0 s',
  DriverModel.optimize P orc oscaled fuel s0 = DriverModel.Done s' -> DriverModel.status s' = DriverModel.OPTIMAL ->
  exists f, DriverModel.frame s' = S f /\
    (DriverModel.o_status (orc f) = DriverModel.OPTIMAL \/ (DriverModel.o_status (orc f) = DriverModel.ABORT_CYCLING /\ DriverModel.o_cycstatus (orc f) = DriverModel.OPTIMAL) \/
     (DriverModel.p_simp P = true /\ DriverModel.o_simp (orc f) = DriverModel.S_VANISHED)).
Proof. exact Driver_Honest.optimal_not_claimed_after_limit. Qed.
Print Assumptions C16_optimal_not_claimed_after_limit.

(* a run the theorems speak about: the first pass is OPTIMAL but fails the verification, the LP is unscaled and solved
   again, the second pass stops at the iteration limit: the driver ends with ABORT_ITER after two passes *)
Example C16_ex_driver_limit_in_second_pass :
  let o (t : DriverModel.st) (vfail : bool) :=
    {| DriverModel.o_simp := DriverModel.S_OKAY; DriverModel.o_scaled := true; DriverModel.o_status := t; DriverModel.o_throw := false; DriverModel.o_vbits := (false, vfail, false, false);
       DriverModel.o_dualfeas := true; DriverModel.o_cycstatus := DriverModel.ABORT_CYCLING; DriverModel.o_resbasis := true |} in
  let P := {| DriverModel.p_simp := true; DriverModel.p_scaler := true; DriverModel.p_persist := true; DriverModel.p_ensureray := false; DriverModel.p_objlim := false |} in
  let s0 := {| DriverModel.simp_on := false; DriverModel.scaler_on := true; DriverModel.loaded := true; DriverModel.scaled := false; DriverModel.sol_scaled := false; DriverModel.intl := false;
               DriverModel.has_basis := false; DriverModel.status := DriverModel.OTHER 0; DriverModel.has_sol := false; DriverModel.has_ray := false; DriverModel.has_farkas := false; DriverModel.apply_pol := false;
               DriverModel.objlim_en := true; DriverModel.opt_calls := 0; DriverModel.unsc_calls := 0; DriverModel.sol_space := DriverModel.user_space; DriverModel.sol_ok := false; DriverModel.frame := O; DriverModel.trace := [] |} in
  match DriverModel.optimize P (fun k => if Nat.eqb k 0 then o DriverModel.OPTIMAL true else o DriverModel.ABORT_ITER false) true DriverModel.FUEL s0 with
  | DriverModel.Done r => DriverModel.status r = DriverModel.ABORT_ITER /\ DriverModel.frame r = 2%nat
  | _ => False
  end.
Proof. vm_compute. repeat split. Qed.
