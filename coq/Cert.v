(* Certificates for LP verdicts and their boolean checkers (definitions only; proofs in Cert_Proofs.v).
   A numerical LP solver is treated as an untrusted producer of (x, y, ray, Farkas) witnesses; what is proved is that
   an accepted witness implies the verdict for the user's LP, for LPs of every size. *)
From Coq Require Import QArith Qabs List Bool.
From SV Require Import Vec LP.
Import ListNotations.
Local Open Scope Q_scope.

Definition tvec (p : lp) (y : list Q) : list Q := tmat_vec (matrix p) y.          (* A^T y *)
Definition redcost (p : lp) (y : list Q) (j : nat) : Q := c_obj (colj p j) - vnth (tvec p y) j.
Definition dvec (p : lp) (y : list Q) : list Q := map (redcost p y) (seq 0 (ncols p)).

(* a lower bound of k*v over lo <= v <= up; None when the bound needed is infinite *)
Definition lower_term (k : Q) (lo up : option Q) : option Q :=
  if Qltb 0 k then option_map (Qmult k) lo
  else if Qltb k 0 then option_map (Qmult k) up
  else Some 0.

Fixpoint osum (l : list (option Q)) : option Q :=
  match l with
  | [] => Some 0
  | Some a :: r => option_map (Qplus a) (osum r)
  | None :: _ => None
  end.

Definition col_terms (p : lp) (y : list Q) : list (option Q) :=
  map (fun j => lower_term (sgn p * redcost p y j) (c_lo (colj p j)) (c_up (colj p j))) (seq 0 (ncols p)).
Definition row_terms (p : lp) (y : list Q) : list (option Q) :=
  map (fun i => lower_term (sgn p * vnth y i) (r_lhs (rowi p i)) (r_rhs (rowi p i))) (seq 0 (nrows p)).

(* the dual objective of row multipliers y (bound on every feasible objective value); None if some needed bound is infinite *)
Definition dual_bound (p : lp) (y : list Q) : option Q :=
  if negb (Nat.eqb (length y) (nrows p)) then None else
  match osum (col_terms p y), osum (row_terms p y) with
  | Some a, Some b => Some (sgn p * (a + b) + offset p)
  | _, _ => None
  end.

(* exact optimality certificate: primal feasible, dual multipliers with complementary slackness *)
Definition tight_lo (lo : option Q) (v : Q) : bool := match lo with Some l => Qeq_bool l v | None => false end.
Definition tight_up (up : option Q) (v : Q) : bool := match up with Some u => Qeq_bool u v | None => false end.

(* multiplier k (already multiplied by the sense sign) is compatible with value v in [lo,up] *)
Definition cs_ok (k : Q) (lo up : option Q) (v : Q) : bool :=
  (if Qltb 0 k then tight_lo lo v else true) && (if Qltb k 0 then tight_up up v else true).

Definition check_opt_exact (p : lp) (x y : list Q) : bool :=
  feasible_b p x && Nat.eqb (length y) (nrows p)
  && forall_lt (ncols p) (fun j => cs_ok (sgn p * redcost p y j) (c_lo (colj p j)) (c_up (colj p j)) (vnth x j))
  && forall_lt (nrows p) (fun i => cs_ok (sgn p * vnth y i) (r_lhs (rowi p i)) (r_rhs (rowi p i)) (activity p i x)).

(* Farkas certificate of infeasibility: the row combination y^T A x is bounded below by L through the sides and
   above by U through the column bounds, and L > U *)
Definition farkas_L (p : lp) (y : list Q) : option Q :=
  osum (map (fun i => lower_term (vnth y i) (r_lhs (rowi p i)) (r_rhs (rowi p i))) (seq 0 (nrows p))).
Definition farkas_negU (p : lp) (y : list Q) : option Q :=      (* lower bound of -(z.x) *)
  osum (map (fun j => lower_term (- vnth (tvec p y) j) (c_lo (colj p j)) (c_up (colj p j))) (seq 0 (ncols p))).
Definition check_farkas (p : lp) (y : list Q) : bool :=
  Nat.eqb (length y) (nrows p) &&
  match farkas_L p y, farkas_negU p y with
  | Some l, Some nu => Qltb 0 (l + nu)
  | _, _ => false
  end.

(* replace infinite column bounds by +-M: used to judge floating-point Farkas vectors whose combination has
   rounding-level coefficients on unbounded columns *)
Definition box_col (M : Q) (c : col) : col :=
  {| c_obj := c_obj c;
     c_lo := match c_lo c with None => Some (- M) | s => s end;
     c_up := match c_up c with None => Some M | s => s end |}.
Definition box (M : Q) (p : lp) : lp :=
  {| maximize := maximize p; offset := offset p; cols := map (box_col M) (cols p); rows := rows p |}.

(* recession direction that improves the objective *)
Definition dir_ok (lo up : option Q) (v : Q) : bool :=
  (match lo with Some _ => Qle_bool 0 v | None => true end) && (match up with Some _ => Qle_bool v 0 | None => true end).
Definition check_ray (p : lp) (r : list Q) : bool :=
  Nat.eqb (length r) (ncols p)
  && forall_lt (ncols p) (fun j => dir_ok (c_lo (colj p j)) (c_up (colj p j)) (vnth r j))
  && forall_lt (nrows p) (fun i => dir_ok (r_lhs (rowi p i)) (r_rhs (rowi p i)) (activity p i r))
  && Qltb (sgn p * dot (objvec p) r) 0.

(* ---- tolerance versions: the clause list of the floating-point property, evaluated in exact arithmetic ---- *)
Definition in_lo_tol (e : Q) (lo : option Q) (v : Q) : bool := match lo with None => true | Some l => Qle_bool (l - e) v end.
Definition in_up_tol (e : Q) (up : option Q) (v : Q) : bool := match up with None => true | Some u => Qle_bool v (u + e) end.
Definition Qabs_le (a e : Q) : bool := Qle_bool a e && Qle_bool (- e) a.

(* sign condition with tolerance: a multiplier beyond +e needs the lower side tight within et, beyond -e the upper *)
Definition near_lo (et : Q) (lo : option Q) (v : Q) : bool := match lo with Some l => Qabs_le (v - l) et | None => false end.
Definition near_up (et : Q) (up : option Q) (v : Q) : bool := match up with Some u => Qabs_le (v - u) et | None => false end.
Definition cs_tol (e et : Q) (k : Q) (lo up : option Q) (v : Q) : bool :=
  (if Qltb e k then near_lo et lo v else true) && (if Qltb k (- e) then near_up et up v else true).

Record tols := { tp : Q;     (* primal feasibility: bounds and sides *)
                 td : Q;     (* dual: stationarity residual and sign conditions *)
                 tc : Q;     (* how close to a bound counts as "at the bound" for complementary slackness *)
                 tv : Q }.   (* objective value, relative to 1 + |value| *)

Definition check_opt_tol (t : tols) (p : lp) (x s y d : list Q) (v : Q) : bool :=
  Nat.eqb (length x) (ncols p) && Nat.eqb (length d) (ncols p)
  && Nat.eqb (length s) (nrows p) && Nat.eqb (length y) (nrows p)
  && forall_lt (ncols p) (fun j => in_lo_tol (tp t) (c_lo (colj p j)) (vnth x j) && in_up_tol (tp t) (c_up (colj p j)) (vnth x j))
  && forall_lt (nrows p) (fun i => in_lo_tol (tp t) (r_lhs (rowi p i)) (vnth s i) && in_up_tol (tp t) (r_rhs (rowi p i)) (vnth s i))
  && forall_lt (nrows p) (fun i => Qabs_le (vnth s i - activity p i x) (tp t))
  && forall_lt (ncols p) (fun j => Qabs_le (vnth d j - redcost p y j) (td t))
  && forall_lt (ncols p) (fun j => cs_tol (td t) (tc t) (sgn p * vnth d j) (c_lo (colj p j)) (c_up (colj p j)) (vnth x j))
  && forall_lt (nrows p) (fun i => cs_tol (td t) (tc t) (sgn p * vnth y i) (r_lhs (rowi p i)) (r_rhs (rowi p i)) (vnth s i))
  && Qabs_le (v - objective p x) (tv t * (1 + Qabs v)).

Definition check_ray_tol (e : Q) (p : lp) (r : list Q) : bool :=
  Nat.eqb (length r) (ncols p)
  && forall_lt (ncols p) (fun j => (match c_lo (colj p j) with Some _ => Qle_bool (- e) (vnth r j) | None => true end)
                                   && (match c_up (colj p j) with Some _ => Qle_bool (vnth r j) e | None => true end))
  && forall_lt (nrows p) (fun i => (match r_lhs (rowi p i) with Some _ => Qle_bool (- e) (activity p i r) | None => true end)
                                   && (match r_rhs (rowi p i) with Some _ => Qle_bool (activity p i r) e | None => true end))
  && Qltb (sgn p * dot (objvec p) r) 0.

Definition feasible_tol (e : Q) (p : lp) (x : list Q) : Prop :=
  length x = ncols p /\
  (forall j, (j < ncols p)%nat -> in_lo_tol e (c_lo (colj p j)) (vnth x j) = true /\ in_up_tol e (c_up (colj p j)) (vnth x j) = true) /\
  (forall i, (i < nrows p)%nat -> in_lo_tol e (r_lhs (rowi p i)) (activity p i x) = true /\ in_up_tol e (r_rhs (rowi p i)) (activity p i x) = true).
