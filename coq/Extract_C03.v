(* Extraction of the C03 kernel models (the certificate checkers themselves are extracted by Extract_C01.v). *)
From Coq Require Extraction.
From Coq Require Import ExtrOcamlBasic QArith ZArith List.
From SV Require Import Vec LP Cert RatGateModel.

Extraction "../extract/C03/model.ml" bounds_violation sides_violation redcost_violation dual_violation
  is_refinement_over is_solve_stopped check_progress range_type gate_consistent gate_zero model_objval objective
  check_opt_exact optimize_rational Qred Qcompare.
