(* C12 - weak duality for the LP that buildDualProblem builds (DualModel.v): every feasible point of dual_of p bounds every
   feasible point of p.  Structure of the proof:  b.z  <=  (M^T x).z  =  x.(M z)  <=  c.x   (minimisation; reversed for
   maximisation), where M is the dual constraint matrix: one inequality per dual COLUMN (sign of z against its bounds, value
   of x or of the row activity against the primal bound / side that is the column's cost), the transposition identity,
   and one inequality per dual ROW (its sides against the sign of x). *)
From Coq Require Import ZArith QArith Bool List Lia Lqa.
From SV Require Import LPFileModel LPFile_Proofs DualModel.
Import ListNotations.
Local Open Scope Q_scope.

Fixpoint qsum (l : list Q) : Q := match l with [] => 0 | a :: r => a + qsum r end.

Lemma dot_nil_r a : dot a [] = 0.
Proof. destruct a; reflexivity. Qed.

Lemma dot_app a b x y : length a = length x -> dot (a ++ b) (x ++ y) == dot a x + dot b y.
Proof.
  revert x; induction a as [|c a IH]; intros [|v x] H; cbn in *; try discriminate; try lra.
  rewrite IH by lia. lra.
Qed.

Lemma dot_repeat v k : forall g, length g = k -> dot (repeat v k) g == v * qsum g.
Proof. induction k as [|k IH]; intros [|z g] H; cbn in *; try discriminate; try lra. rewrite IH by lia. lra. Qed.

Lemma dot_comm a x : dot a x == dot x a.
Proof. revert x; induction a as [|c a IH]; intros [|v x]; cbn; try reflexivity. rewrite IH. lra. Qed.

Definition sle (s : sense) (a b : Q) : Prop := match s with Min => a <= b | Max => b <= a end.

Lemma sle_add s a b c d : sle s a b -> sle s c d -> sle s (a + c) (b + d).
Proof. destruct s; cbn; intros; lra. Qed.
Lemma sle_refl_eq s a b : a == b -> sle s a b.
Proof. destruct s; cbn; intros; lra. Qed.
Lemma sle_trans s a b c : sle s a b -> sle s b c -> sle s a c.
Proof. destruct s; cbn; intros; lra. Qed.
Lemma sle_eq_l s a a' b : a == a' -> sle s a' b -> sle s a b.
Proof. destruct s; cbn; intros; lra. Qed.
Lemma sle_eq_r s a b b' : b == b' -> sle s a b' -> sle s a b.
Proof. destruct s; cbn; intros; lra. Qed.

(* ---- one dual column against its bounds ---- *)
Lemma qz_true q : qz q = true -> q == 0.
Proof. unfold qz. apply Qeq_bool_eq. Qed.

(* variable-bound columns of one primal column *)
Lemma vb_head s c v g : col_ok c v -> Forall2 col_ok (map mk (snd (col_dual s c))) g ->
  sle s (dot (map c_obj (map mk (snd (col_dual s c)))) g) (dot (repeat v (cnt s c)) g).
Proof.
  intros [Hlo Hup] Hg. unfold cnt. destruct c as [o lo up]. unfold col_dual in *. cbn [c_obj c_lo c_up] in *.
  destruct lo as [l|], up as [u|]; cbn in Hlo, Hup.
  - destruct (negb (Qeq_bool l u)) eqn:E1.
    + destruct (qz l) eqn:E2; [| destruct (qz u) eqn:E3];
        destruct s; cbn in Hg |- *;
        repeat match goal with H : Forall2 _ (_ :: _) _ |- _ => inversion H; subst; clear H end;
        repeat match goal with H : Forall2 _ [] _ |- _ => inversion H; subst; clear H end;
        repeat match goal with H : col_ok _ _ |- _ => destruct H as [? ?] end; cbn in *; nra.
    + apply negb_false_iff in E1. apply Qeq_bool_eq in E1.
      destruct s; cbn in Hg |- *;
        repeat match goal with H : Forall2 _ (_ :: _) _ |- _ => inversion H; subst; clear H end;
        repeat match goal with H : Forall2 _ [] _ |- _ => inversion H; subst; clear H end;
        repeat match goal with H : col_ok _ _ |- _ => destruct H as [? ?] end; cbn in *; nra.
  - destruct (qz l) eqn:E2; destruct s; cbn in Hg |- *;
      repeat match goal with H : Forall2 _ (_ :: _) _ |- _ => inversion H; subst; clear H end;
      repeat match goal with H : Forall2 _ [] _ |- _ => inversion H; subst; clear H end;
      repeat match goal with H : col_ok _ _ |- _ => destruct H as [? ?] end; cbn in *; nra.
  - destruct (qz u) eqn:E2; destruct s; cbn in Hg |- *;
      repeat match goal with H : Forall2 _ (_ :: _) _ |- _ => inversion H; subst; clear H end;
      repeat match goal with H : Forall2 _ [] _ |- _ => inversion H; subst; clear H end;
      repeat match goal with H : col_ok _ _ |- _ => destruct H as [? ?] end; cbn in *; nra.
  - destruct s; cbn in Hg |- *; inversion Hg; subst; cbn; lra.
Qed.

(* dual columns of one primal row *)
Lemma rc_head s r x g : row_ok x r -> Forall2 col_ok (map mk (row_dual s r)) g ->
  sle s (dot (map c_obj (map mk (row_dual s r))) g) (dot (repeat (dot (r_coefs r) x) (length (row_dual s r))) g).
Proof.
  intros [Hlo Hup] Hg. destruct r as [lhs a rhs]. unfold row_dual in *. cbn [r_lhs r_rhs r_coefs] in *.
  set (act := dot a x) in *.
  destruct lhs as [l|], rhs as [u|]; cbn in Hlo, Hup.
  - destruct (Qeq_bool l u) eqn:E1.
    + apply Qeq_bool_eq in E1. assert (Ea : act == u) by lra.
      destruct s; cbn in Hg |- *;
        repeat match goal with H : Forall2 _ (_ :: _) _ |- _ => inversion H; subst; clear H end;
        repeat match goal with H : Forall2 _ [] _ |- _ => inversion H; subst; clear H end;
        cbn; rewrite Ea; lra.
    + destruct s; cbn in Hg |- *;
        repeat match goal with H : Forall2 _ (_ :: _) _ |- _ => inversion H; subst; clear H end;
        repeat match goal with H : Forall2 _ [] _ |- _ => inversion H; subst; clear H end;
        repeat match goal with H : col_ok _ _ |- _ => destruct H as [? ?] end; cbn in *; nra.
  - destruct s; cbn in Hg |- *;
      repeat match goal with H : Forall2 _ (_ :: _) _ |- _ => inversion H; subst; clear H end;
      repeat match goal with H : Forall2 _ [] _ |- _ => inversion H; subst; clear H end;
      repeat match goal with H : col_ok _ _ |- _ => destruct H as [? ?] end; cbn in *; nra.
  - destruct s; cbn in Hg |- *;
      repeat match goal with H : Forall2 _ (_ :: _) _ |- _ => inversion H; subst; clear H end;
      repeat match goal with H : Forall2 _ [] _ |- _ => inversion H; subst; clear H end;
      repeat match goal with H : col_ok _ _ |- _ => destruct H as [? ?] end; cbn in *; nra.
  - destruct s; cbn in Hg |- *;
      repeat match goal with H : Forall2 _ (_ :: _) _ |- _ => inversion H; subst; clear H end;
      repeat match goal with H : Forall2 _ [] _ |- _ => inversion H; subst; clear H end;
      repeat match goal with H : col_ok _ _ |- _ => destruct H as [? ?] end; cbn in *;
      match goal with H1 : 0 <= ?z, H2 : ?z <= 0 |- _ => assert (Ez : z == 0) by lra; rewrite Ez end; lra.
Qed.

(* one dual row: its sides against the sign of the primal variable *)
Ltac fin := first [ nra | match goal with H1 : ?o <= ?a, H2 : ?a <= ?o |- _ => assert (Ea : a == o) by lra; rewrite Ea; lra end ].

Lemma row_side s c v alpha : col_ok c v ->
  lo_ok (fst (fst (col_dual s c))) alpha -> up_ok (snd (fst (col_dual s c))) alpha ->
  sle s (alpha * v) (c_obj c * v).
Proof.
  intros [Hlo Hup]. destruct c as [o lo up]. unfold col_dual. cbn [c_obj c_lo c_up] in *.
  destruct lo as [l|], up as [u|]; cbn in Hlo, Hup.
  - destruct (negb (Qeq_bool l u)); [destruct (qz l) eqn:E2; [apply qz_true in E2 | destruct (qz u) eqn:E3; [apply qz_true in E3|]] |];
      destruct s; cbn; intros; fin.
  - destruct (qz l) eqn:E2; [apply qz_true in E2|]; destruct s; cbn; intros; fin.
  - destruct (qz u) eqn:E2; [apply qz_true in E2|]; destruct s; cbn; intros; fin.
  - destruct s; cbn; intros; fin.
Qed.

(* ---- the same over all columns / rows ---- *)
Fixpoint beta_vb (s : sense) (cs : list col) (x : list Q) : list Q :=
  match cs, x with
  | c :: cs', v :: x' => repeat v (cnt s c) ++ beta_vb s cs' x'
  | _, _ => []
  end.
Definition beta_rc (s : sense) (rs : list row) (x : list Q) : list Q :=
  flat_map (fun r => repeat (dot (r_coefs r) x) (length (row_dual s r))) rs.

Definition vbcols (s : sense) (cs : list col) : list col := map mk (flat_map (fun c => snd (col_dual s c)) cs).
Definition rccols (s : sense) (rs : list row) : list col := map mk (flat_map (row_dual s) rs).

Lemma vb_all s : forall cs x zvb, Forall2 col_ok cs x -> Forall2 col_ok (vbcols s cs) zvb ->
  sle s (dot (map c_obj (vbcols s cs)) zvb) (dot (beta_vb s cs x) zvb).
Proof.
  unfold vbcols. induction cs as [|c cs IH]; intros x zvb Hx Hz.
  - inversion Hx; subst. cbn in *. inversion Hz; subst. cbn. apply sle_refl_eq. reflexivity.
  - inversion Hx as [|c' v cs' x' Hc Hrest]; subst. cbn [flat_map] in Hz |- *. rewrite map_app in Hz |- *.
    apply Forall2_app_inv_l in Hz as (g & z' & Hg & Hz' & ->).
    pose proof (Forall2_len _ _ _ Hg) as Lg. rewrite map_length in Lg.
    cbn [beta_vb]. rewrite map_app.
    eapply sle_eq_l; [apply dot_app; rewrite !map_length; exact Lg|].
    eapply sle_eq_r; [apply dot_app; rewrite repeat_length; unfold cnt; exact Lg|].
    apply sle_add; [apply vb_head; assumption | apply IH; assumption].
Qed.

Lemma rc_all s x : forall rs zrc, Forall (row_ok x) rs -> Forall2 col_ok (rccols s rs) zrc ->
  sle s (dot (map c_obj (rccols s rs)) zrc) (dot (beta_rc s rs x) zrc).
Proof.
  unfold rccols, beta_rc. induction rs as [|r rs IH]; intros zrc Hx Hz.
  - cbn in *. inversion Hz; subst. cbn. apply sle_refl_eq. reflexivity.
  - inversion Hx as [|r' rs' Hr Hrest]; subst. cbn [flat_map] in Hz |- *. rewrite map_app in Hz |- *.
    apply Forall2_app_inv_l in Hz as (g & z' & Hg & Hz' & ->).
    pose proof (Forall2_len _ _ _ Hg) as Lg. rewrite map_length in Lg.
    rewrite map_app.
    eapply sle_eq_l; [apply dot_app; rewrite !map_length; exact Lg|].
    eapply sle_eq_r; [apply dot_app; rewrite repeat_length; exact Lg|].
    apply sle_add; [apply rc_head; assumption | apply IH; assumption].
Qed.

(* ---- weighted sums over the primal columns ---- *)
Fixpoint wsum (x : list Q) (f : nat -> Q) (j : nat) : Q :=
  match x with [] => 0 | v :: x' => v * f j + wsum x' f (S j) end.

Lemma wsum_ext x f g : (forall j, f j == g j) -> forall j, wsum x f j == wsum x g j.
Proof. intros H. induction x as [|v x IH]; intros j; cbn; [reflexivity|]. rewrite IH, H. reflexivity. Qed.
Lemma wsum_add x f g : forall j, wsum x (fun t => f t + g t) j == wsum x f j + wsum x g j.
Proof. induction x as [|v x IH]; intros j; cbn; [lra|]. rewrite IH. lra. Qed.
Lemma wsum_scale x c f : forall j, wsum x (fun t => c * f t) j == c * wsum x f j.
Proof. induction x as [|v x IH]; intros j; cbn; [lra|]. rewrite IH. lra. Qed.

Lemma skipn_nthq j : forall a, skipn j a = [] /\ nthq j a = 0 \/ skipn j a = nthq j a :: skipn (S j) a.
Proof.
  induction j as [|j IH]; intros [|c a]; cbn; auto.
  destruct (IH a) as [[H1 H2] | H]; [left | right]; auto.
Qed.

Lemma skipn_nil_S j (a : list Q) : skipn j a = [] -> skipn (S j) a = [].
Proof. revert a; induction j as [|j IH]; intros [|c a] H; cbn in *; auto; try discriminate. Qed.

Lemma nthq_skip_nil j : forall a k, skipn j a = [] -> nthq (j + k) a = 0.
Proof. induction j as [|j IH]; intros [|c a] k H; cbn in *; auto; try discriminate. destruct k; reflexivity. Qed.

Lemma wsum_nil_tail x a : forall j, skipn j a = [] -> wsum x (fun t => nthq t a) j == 0.
Proof.
  induction x as [|v x IH]; intros j H; cbn; [reflexivity|].
  rewrite IH by (apply skipn_nil_S; exact H).
  replace j with (j + 0)%nat by lia. rewrite (nthq_skip_nil j a 0 H). lra.
Qed.

Lemma wsum_nthq x a : forall j, wsum x (fun t => nthq t a) j == dot (skipn j a) x.
Proof.
  induction x as [|v x IH]; intros j; cbn [wsum].
  - rewrite dot_nil_r. reflexivity.
  - destruct (skipn_nthq j a) as [[H1 H2] | H].
    + rewrite H1, H2. cbn. rewrite wsum_nil_tail by (apply skipn_nil_S; exact H1). lra.
    + rewrite H. cbn [dot]. rewrite IH. lra.
Qed.

(* ---- the transposition identity for the dual constraint matrix ---- *)
Lemma repeat0_dot k : forall g, dot (repeat 0 k) g == 0.
Proof. induction k as [|k IH]; intros [|z g]; cbn; try lra. rewrite IH. lra. Qed.
Lemma repeat1_dot k : forall g, length g = k -> dot (repeat 1 k) g == qsum g.
Proof. intros g H. rewrite dot_repeat by exact H. lra. Qed.

Definition acts (z : list Q) (rows : list row) : list Q := map (fun r => dot (r_coefs r) z) rows.

Lemma total_cons s c cs : total s (c :: cs) = (cnt s c + total s cs)%nat.
Proof. unfold total, cnt. cbn. rewrite app_length. reflexivity. Qed.

Lemma acts_vb s rs zrc : forall cs x pre j zpre zvb,
  length zpre = pre -> length zvb = total s cs -> length x = length cs ->
  dot (acts ((zpre ++ zvb) ++ zrc) (dual_rows s rs pre j cs)) x ==
  dot (beta_vb s cs x) zvb + wsum x (fun t => dot (row_entries s t rs) zrc) j.
Proof.
  induction cs as [|c cs IH]; intros x pre j zpre zvb Lp Lv Lx.
  - destruct x; cbn in *; try discriminate. lra.
  - destruct x as [|v x']; cbn in Lx; try discriminate.
    rewrite total_cons in Lv.
    set (k := cnt s c) in *.
    assert (Hsplit : zvb = firstn k zvb ++ skipn k zvb) by (symmetry; apply firstn_skipn).
    set (g := firstn k zvb) in *. set (zvb' := skipn k zvb) in *.
    assert (Lg : length g = k) by (unfold g; rewrite firstn_length; lia).
    assert (Lz' : length zvb' = total s cs) by (unfold zvb'; rewrite skipn_length; lia).
    cbn [dual_rows acts map r_coefs dot beta_vb wsum]. fold k. fold (acts ((zpre ++ zvb) ++ zrc) (dual_rows s rs (pre + k) (S j) cs)).
    (* the recursive part *)
    assert (Ez : (zpre ++ zvb) ++ zrc = ((zpre ++ g) ++ zvb') ++ zrc).
    { rewrite Hsplit at 1. rewrite !app_assoc. reflexivity. }
    rewrite Ez at 2.
    rewrite (IH x' (pre + k)%nat (S j) (zpre ++ g) zvb') by (try rewrite app_length; lia).
    (* the head row *)
    assert (Eh : dot ((repeat 0 pre ++ repeat 1 k ++ repeat 0 (total s cs)) ++ row_entries s j rs) ((zpre ++ zvb) ++ zrc)
                 == qsum g + dot (row_entries s j rs) zrc).
    { rewrite dot_app by (rewrite !app_length, !repeat_length; lia).
      rewrite Hsplit at 1.
      rewrite dot_app by (rewrite repeat_length; lia).
      rewrite dot_app by (rewrite repeat_length; lia).
      rewrite !repeat0_dot, repeat1_dot by exact Lg. lra. }
    rewrite Eh.
    rewrite Hsplit at 1. rewrite dot_app by (rewrite repeat_length; lia).
    rewrite dot_repeat by exact Lg. lra.
Qed.

Lemma wsum_rc s x : forall rs zrc, length zrc = length (flat_map (row_dual s) rs) ->
  wsum x (fun t => dot (row_entries s t rs) zrc) O == dot (beta_rc s rs x) zrc.
Proof.
  unfold row_entries, beta_rc. induction rs as [|r rs IH]; intros zrc L.
  - cbn in *. rewrite (wsum_ext x _ (fun _ => 0 * 1)) by (intros; cbn; lra).
    rewrite wsum_scale. destruct zrc; cbn; lra.
  - cbn [flat_map] in L |- *. rewrite app_length in L.
    set (k := length (row_dual s r)) in *.
    assert (Hsplit : zrc = firstn k zrc ++ skipn k zrc) by (symmetry; apply firstn_skipn).
    set (g := firstn k zrc) in *. set (z' := skipn k zrc) in *.
    assert (Lg : length g = k) by (unfold g; rewrite firstn_length; lia).
    assert (Lz' : length z' = length (flat_map (row_dual s) rs)) by (unfold z'; rewrite skipn_length; lia).
    rewrite (wsum_ext x _ (fun t => qsum g * nthq t (r_coefs r)
                                    + dot (flat_map (fun r0 => repeat (nthq t (r_coefs r0)) (length (row_dual s r0))) rs) z')).
    2:{ intros t. rewrite Hsplit at 1. rewrite dot_app by (rewrite repeat_length; lia). rewrite dot_repeat by exact Lg. lra. }
    rewrite wsum_add, wsum_scale, wsum_nthq. cbn [skipn]. rewrite (IH z' Lz').
    rewrite Hsplit at 1. rewrite dot_app by (rewrite repeat_length; lia). rewrite dot_repeat by exact Lg. lra.
Qed.

(* ---- one inequality per dual row ---- *)
Lemma rows_all s rs z : forall cs x pre j, Forall2 col_ok cs x -> Forall (row_ok z) (dual_rows s rs pre j cs) ->
  sle s (dot (acts z (dual_rows s rs pre j cs)) x) (dot (map c_obj cs) x).
Proof.
  induction cs as [|c cs IH]; intros x pre j Hx Hr.
  - inversion Hx; subst. cbn. apply sle_refl_eq. reflexivity.
  - inversion Hx as [|c' v cs' x' Hc Hrest]; subst. cbn [dual_rows] in Hr. inversion Hr as [|r0 rr Hr0 Hrr]; subst.
    cbn [dual_rows acts map dot r_coefs]. destruct Hr0 as [Hlo Hup]. cbn [r_lhs r_rhs r_coefs] in Hlo, Hup.
    apply sle_add; [apply row_side; assumption | apply IH; assumption].
Qed.

(* ---- weak duality of the dual LP that buildDualProblem builds ---- *)
Theorem dual_weak_duality p x z : feasible p x -> feasible (dual_of p) z ->
  sle (l_sense p) (objective (dual_of p) z) (objective p x - l_offset p).
Proof.
  intros [Hcx Hrx] [Hcz Hrz]. unfold dual_of in *. cbn [l_cols l_rows l_sense l_offset] in *.
  set (s := l_sense p) in *. set (cs := l_cols p) in *. set (rs := l_rows p) in *.
  rewrite map_app in Hcz. fold (vbcols s cs) in Hcz. fold (rccols s rs) in Hcz.
  apply Forall2_app_inv_l in Hcz as (zvb & zrc & Hvb & Hrc & ->).
  pose proof (Forall2_len _ _ _ Hvb) as Lvb. pose proof (Forall2_len _ _ _ Hrc) as Lrc.
  unfold vbcols in Lvb. unfold rccols in Lrc. rewrite map_length in Lvb, Lrc.
  pose proof (Forall2_len _ _ _ Hcx) as Lx.
  unfold objective. cbn [l_offset l_cols]. rewrite map_app. fold (vbcols s cs). fold (rccols s rs). rewrite (map_app c_obj).
  (* dual objective <= beta . z *)
  eapply sle_eq_l.
  { rewrite Qplus_0_l. apply dot_app. unfold vbcols. rewrite !map_length. exact Lvb. }
  eapply sle_trans; [apply sle_add; [apply vb_all; eassumption | apply rc_all; eassumption]|].
  (* beta . z = acts . x *)
  pose proof (acts_vb s rs zrc cs x O O [] zvb eq_refl (eq_sym Lvb) (eq_sym Lx)) as E1. cbn [app] in E1.
  rewrite (wsum_rc s x rs zrc (eq_sym Lrc)) in E1.
  eapply sle_eq_l; [symmetry; exact E1|].
  (* acts . x <= c . x *)
  eapply sle_eq_r; [| apply (rows_all s rs (zvb ++ zrc) cs x O O Hcx Hrz)].
  rewrite (dot_comm (map c_obj cs) x). unfold cs. rewrite (dot_comm (map c_obj (l_cols p)) x). lra.
Qed.

(* equal values certify both: what a run observes (primal and dual optimum agree) makes both points optimal *)
Theorem dual_equal_values_optimal p x z : feasible p x -> feasible (dual_of p) z ->
  objective (dual_of p) z == objective p x - l_offset p ->
  optimal p x /\ optimal (dual_of p) z.
Proof.
  intros Hx Hz E. split; split; auto.
  - intros y Hy. pose proof (dual_weak_duality p y z Hy Hz) as W. unfold better, sle in *. destruct (l_sense p); lra.
  - intros z' Hz'. pose proof (dual_weak_duality p x z' Hx Hz') as W. unfold dual_of at 1. cbn [l_sense].
    unfold better, sle, flip in *. destruct (l_sense p); lra.
Qed.
