(* BasisModel.v - executable model of the basis descriptor logic of SoPlex (C04, C14).

   Mirrors, case split by case split:
     SPxBasisBase<R>::dualRowStatus / dualColStatus            (spxbasis.hpp)
     primalColStatus, SPxBasisBase<R>::restoreInitialBasis     (spxchangebasis.hpp)
     SPxBasisBase<R>::isDescValid / loadDesc                   (spxbasis.hpp)
     SPxSolverBase<R>::basisStatusToVarStatus, varStatusToBasisStatusRow/Col, isBasisValid, setBasis, getBasis
                                                               (spxsolver.hpp)
     SoPlexBase<R>::hasBasis / setBasis / getBasis / basisRowStatus / basisColStatus / getBasisInd (soplex.hpp)
   A bound is [option Q]: [None] is the infinite bound of its side (lower/lhs: -infinity, upper/rhs: +infinity).
   Rows and columns are treated alike ("variables"): a row is the variable (lhs, rhs, maxRowObj), a column is
   (lower, upper, maxObj).  No proofs in this file. *)
From Coq Require Import QArith Bool List ZArith.
Import ListNotations.

(* ---- enumerations (numeric codes as in spxsolver.h / spxbasis.h; see [vs_code], [ds_code]) ---- *)
Inductive VarStatus := ON_UPPER | ON_LOWER | FIXED | ZERO | BASIC | UNDEFINED.

Inductive DStatus :=
  P_ON_LOWER | P_ON_UPPER | P_FREE | P_FIXED | D_FREE | D_ON_UPPER | D_ON_LOWER | D_ON_BOTH | D_UNDEFINED.

Definition vs_code (s : VarStatus) : Z :=
  match s with ON_UPPER => 0 | ON_LOWER => 1 | FIXED => 2 | ZERO => 3 | BASIC => 4 | UNDEFINED => 5 end%Z.

Definition ds_code (s : DStatus) : Z :=
  match s with
  | P_ON_LOWER => -4 | P_ON_UPPER => -2 | P_FREE => -1 | P_FIXED => -6
  | D_FREE => 1 | D_ON_UPPER => 2 | D_ON_LOWER => 4 | D_ON_BOTH => 6 | D_UNDEFINED => 8
  end%Z.

(* "stat >= 0" in isDescValid/loadDesc, "stat > 0" in writeBasis, isBasic() in column representation *)
Definition is_dual (s : DStatus) : bool := (0 <=? ds_code s)%Z.

Definition vs_eqb (a b : VarStatus) : bool := (vs_code a =? vs_code b)%Z.
Definition ds_eqb (a b : DStatus) : bool := (ds_code a =? ds_code b)%Z.

(* ---- variables (rows and columns) and the LP as far as the basis logic reads it ---- *)
Record var := mkVar { v_lo : option Q; v_up : option Q; v_mobj : Q }.

Record blp := mkBlp { b_rows : list var; b_cols : list var }.

Definition nRows (lp : blp) : nat := List.length (b_rows lp).
Definition nCols (lp : blp) : nat := List.length (b_cols lp).

Definition lo_fin (v : var) : bool := match v_lo v with Some _ => true | None => false end.
Definition up_fin (v : var) : bool := match v_up v with Some _ => true | None => false end.

(* lower == upper (lhs == rhs): both finite and equal; infinite bounds of opposite sides are never equal *)
Definition bounds_eq (v : var) : bool :=
  match v_lo v, v_up v with
  | Some l, Some u => Qeq_bool l u
  | _, _ => false
  end.

Definition Qlt_b (a b : Q) : bool := negb (Qle_bool b a).

(* -lower < upper for a boxed variable (tie-break of primalColStatus) *)
Definition neg_lo_lt_up (v : var) : bool :=
  match v_lo v, v_up v with
  | Some l, Some u => Qlt_b (Qopp l) u
  | _, _ => false
  end.

(* SPxBasisBase::dualRowStatus / dualColStatus *)
Definition dualStatus (v : var) : DStatus :=
  if up_fin v then
    (if lo_fin v then (if bounds_eq v then D_FREE else D_ON_BOTH) else D_ON_LOWER)
  else if lo_fin v then D_ON_UPPER
  else D_UNDEFINED.

(* primalColStatus (spxchangebasis.hpp) *)
Definition primalStatus (v : var) : DStatus :=
  if up_fin v then
    (if lo_fin v then
       (if bounds_eq v then P_FIXED
        else if Qeq_bool (v_mobj v) 0 then (if neg_lo_lt_up v then P_ON_LOWER else P_ON_UPPER)
        else if Qlt_b (v_mobj v) 0 then P_ON_LOWER else P_ON_UPPER)
     else P_ON_UPPER)
  else if lo_fin v then P_ON_LOWER
  else P_FREE.

(* ---- descriptors ---- *)
Record desc := mkDesc { d_rows : list DStatus; d_cols : list DStatus }.

(* restoreInitialBasis: rows dual (basic), columns primalColStatus *)
Definition initialDesc (lp : blp) : desc :=
  mkDesc (map dualStatus (b_rows lp)) (map primalStatus (b_cols lp)).

(* the per-entry correction of loadDesc *)
Definition repair (v : var) (s : DStatus) : DStatus :=
  if is_dual s then dualStatus v
  else if bounds_eq v then P_FIXED
  else if lo_fin v && (negb (up_fin v) || ds_eqb s P_ON_LOWER
                       || (negb (ds_eqb s P_ON_UPPER) && Qle_bool (v_mobj v) 0))
       then P_ON_LOWER
  else if up_fin v then P_ON_UPPER
  else P_FREE.

Definition repair_list (vs : list var) (ds : list DStatus) : list DStatus :=
  map (fun p => repair (fst p) (snd p)) (combine vs ds).

Definition count_dual (l : list DStatus) : nat := List.length (filter is_dual l).
Definition count_primal (l : list DStatus) : nat := List.length (filter (fun s => negb (is_dual s)) l).

(* SPxBasisBase::loadDesc.  The basis matrix has room for dim() vectors; the descriptor is "consistent" iff exactly
   that many entries are basic in the sense of the representation: D_* entries = nRows in column representation,
   P_* entries = nCols in row representation (the same condition for descriptors of the right dimensions, see
   BasisModel_Proofs.rowrep_consistency).  An inconsistent descriptor is replaced by the initial (slack) basis. *)
Definition loadDesc (lp : blp) (d : desc) : desc :=
  let r := repair_list (b_rows lp) (d_rows d) in
  let c := repair_list (b_cols lp) (d_cols d) in
  if Nat.eqb (count_dual r + count_dual c) (nRows lp) then mkDesc r c else initialDesc lp.

(* the same decision taken the way the row representation takes it *)
Definition loadDesc_rowrep (lp : blp) (d : desc) : desc :=
  let r := repair_list (b_rows lp) (d_rows d) in
  let c := repair_list (b_cols lp) (d_cols d) in
  if Nat.eqb (count_primal r + count_primal c) (nCols lp) then mkDesc r c else initialDesc lp.

(* SPxBasisBase::isDescValid *)
Definition entry_valid (v : var) (s : DStatus) : bool :=
  if is_dual s then ds_eqb s (dualStatus v)
  else negb ((ds_eqb s P_FIXED && negb (bounds_eq v))
             || (ds_eqb s P_ON_UPPER && negb (up_fin v))
             || (ds_eqb s P_ON_LOWER && negb (lo_fin v))).

Definition entries_valid (vs : list var) (ds : list DStatus) : bool :=
  forallb (fun p => entry_valid (fst p) (snd p)) (combine vs ds).

Definition isDescValid (lp : blp) (d : desc) : bool :=
  Nat.eqb (List.length (d_rows d)) (nRows lp) && Nat.eqb (List.length (d_cols d)) (nCols lp)
  && entries_valid (b_rows lp) (d_rows d) && entries_valid (b_cols lp) (d_cols d)
  && Nat.eqb (count_primal (d_rows d) + count_primal (d_cols d)) (nCols lp).

(* ---- VarStatus <-> descriptor status ---- *)
Definition basisStatusToVarStatus (s : DStatus) : VarStatus :=
  match s with
  | P_ON_LOWER => ON_LOWER
  | P_ON_UPPER => ON_UPPER
  | P_FIXED => FIXED
  | P_FREE => ZERO
  | D_ON_UPPER | D_ON_LOWER | D_ON_BOTH | D_UNDEFINED | D_FREE => BASIC
  end.

(* varStatusToBasisStatusRow / Col; [None] is the exception thrown for UNDEFINED *)
Definition varStatusToBasisStatus (v : var) (s : VarStatus) : option DStatus :=
  match s with
  | FIXED => Some P_FIXED
  | ON_LOWER => Some P_ON_LOWER
  | ON_UPPER => Some P_ON_UPPER
  | ZERO => Some P_FREE
  | BASIC => Some (dualStatus v)
  | UNDEFINED => None
  end.

Fixpoint to_desc_list (vs : list var) (ss : list VarStatus) : option (list DStatus) :=
  match vs, ss with
  | v :: vs', s :: ss' =>
    match varStatusToBasisStatus v s, to_desc_list vs' ss' with
    | Some d, Some l => Some (d :: l)
    | _, _ => None
    end
  | _, _ => Some []
  end.

(* SPxSolverBase::isBasisValid.  [rowrep] selects what dim() is: nRows in column, nCols in row representation. *)
Definition vs_entry_valid (v : var) (s : VarStatus) : bool :=
  match s with
  | UNDEFINED => false
  | BASIC => true
  | FIXED => bounds_eq v
  | ON_UPPER => up_fin v
  | ON_LOWER => lo_fin v
  | ZERO => true
  end.

Definition vs_entries_valid (vs : list var) (ss : list VarStatus) : bool :=
  forallb (fun p => vs_entry_valid (fst p) (snd p)) (combine vs ss).

Definition count_basic (l : list VarStatus) : nat := List.length (filter (fun s => vs_eqb s BASIC) l).

Definition isBasisValid_rep (rowrep : bool) (lp : blp) (rows cols : list VarStatus) : bool :=
  Nat.eqb (List.length rows) (nRows lp) && Nat.eqb (List.length cols) (nCols lp)
  && vs_entries_valid (b_rows lp) rows && vs_entries_valid (b_cols lp) cols
  && Nat.eqb (count_basic rows + count_basic cols) (if rowrep then nCols lp else nRows lp).

(* the documented meaning (one basic variable per row) = the behaviour in column representation *)
Definition isBasisValid := isBasisValid_rep false.

(* SPxSolverBase::setBasis (LP in the solver): convert, then loadDesc.  [None]: exception, nothing loaded. *)
Definition setBasis (lp : blp) (rows cols : list VarStatus) : option desc :=
  match to_desc_list (b_rows lp) rows, to_desc_list (b_cols lp) cols with
  | Some r, Some c => Some (loadDesc lp (mkDesc r c))
  | _, _ => None
  end.

Definition getBasis (d : desc) : list VarStatus * list VarStatus :=
  (map basisStatusToVarStatus (d_rows d), map basisStatusToVarStatus (d_cols d)).

(* what a valid basis looks like when read back: non-basic variables with equal bounds are reported FIXED *)
Definition mark_fixed1 (v : var) (s : VarStatus) : VarStatus :=
  if vs_eqb s BASIC then BASIC else if bounds_eq v then FIXED else s.

Definition mark_fixed_list (vs : list var) (ss : list VarStatus) : list VarStatus :=
  map (fun p => mark_fixed1 (fst p) (snd p)) (combine vs ss).

Definition mark_fixed (lp : blp) (rows cols : list VarStatus) : list VarStatus * list VarStatus :=
  (mark_fixed_list (b_rows lp) rows, mark_fixed_list (b_cols lp) cols).

(* ZERO only on free variables (the stricter predicate of the round-trip theorem) *)
Definition zero_free1 (v : var) (s : VarStatus) : bool :=
  if vs_eqb s ZERO then negb (lo_fin v) && negb (up_fin v) else true.

Definition zero_only_free (lp : blp) (rows cols : list VarStatus) : bool :=
  forallb (fun p => zero_free1 (fst p) (snd p)) (combine (b_rows lp) rows)
  && forallb (fun p => zero_free1 (fst p) (snd p)) (combine (b_cols lp) cols).

(* ---- the three storage branches of SoPlexBase ---- *)
Inductive store :=
| NoBasis                                                 (* _hasBasis = false *)
| Outside (rows cols : list VarStatus)                    (* !_isRealLPLoaded: _basisStatusRows/_basisStatusCols *)
| Inside (d : desc).                                      (* _isRealLPLoaded: descriptor of _solver *)

Definition slack_col (v : var) : VarStatus :=
  if lo_fin v then ON_LOWER else if up_fin v then ON_UPPER else ZERO.

Definition sp_hasBasis (st : store) : bool :=
  match st with NoBasis => false | _ => true end.

(* SoPlexBase::setBasis; [loaded] says where the LP is.  In the "outside" branch the arrays are stored as they are. *)
Definition sp_setBasis (lp : blp) (loaded : bool) (rows cols : list VarStatus) : option store :=
  if loaded then
    match setBasis lp rows cols with
    | Some d => Some (Inside d)
    | None => None
    end
  else Some (Outside (firstn (nRows lp) rows) (firstn (nCols lp) cols)).

Definition sp_getBasis (lp : blp) (st : store) : list VarStatus * list VarStatus :=
  match st with
  | NoBasis => (map (fun _ => BASIC) (b_rows lp), map slack_col (b_cols lp))
  | Outside r c => (r, c)
  | Inside d => getBasis d
  end.

Definition sp_rowStatus (lp : blp) (st : store) (i : nat) : VarStatus :=
  if Nat.ltb i (nRows lp) then
    match st with
    | NoBasis => BASIC
    | Outside r _ => nth i r UNDEFINED
    | Inside d => basisStatusToVarStatus (nth i (d_rows d) D_UNDEFINED)
    end
  else BASIC.

Definition sp_colStatus (lp : blp) (st : store) (j : nat) : VarStatus :=
  if Nat.ltb j (nCols lp) then
    match st with
    | NoBasis => slack_col (nth j (b_cols lp) (mkVar None None 0))
    | Outside _ c => nth j c UNDEFINED
    | Inside d => basisStatusToVarStatus (nth j (d_cols d) D_UNDEFINED)
    end
  else ZERO.

(* basic rows i as -1-i, basic columns j as j; rows first, both ascending (the order produced by loadDesc in column
   representation and by the two explicit loops of getBasisInd in the other branches) *)
Fixpoint basic_positions (k : nat) (l : list VarStatus) : list nat :=
  match l with
  | [] => []
  | s :: t => if vs_eqb s BASIC then k :: basic_positions (S k) t else basic_positions (S k) t
  end.

Definition ind_of (rows cols : list VarStatus) : list Z :=
  map (fun i => (-1 - Z.of_nat i)%Z) (basic_positions 0 rows) ++ map Z.of_nat (basic_positions 0 cols).

Definition sp_getBasisInd (lp : blp) (st : store) : list Z :=
  match st with
  | NoBasis => map (fun i => (-1 - Z.of_nat i)%Z) (seq 0 (nRows lp))
  | Outside r c => ind_of r c
  | Inside d => ind_of (fst (getBasis d)) (snd (getBasis d))
  end.
