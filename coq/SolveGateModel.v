(* The in-tree verification gate of the floating-point solve (model only; proofs in SolveGate_Proofs.v).

   Written from src/soplex.hpp: SoPlexBase<R>::getBoundViolation, getRowViolation, getDualViolation, getRedCostViolation
   and from src/soplex/solvereal.hpp: the comparison in _verifySolutionReal (the four bits of the driver's record 40).

   The four functions judge the stored solution vectors against the LP as the user entered it (lowerUnscaled, ...,
   computePrimalActivity(.., unscaled)); the dual side is judged against the BASIS STATUS of the row / column, not against
   the position of the primal value.  Each returns (maxviol, sumviol).  Over exact rationals; an infinite bound or side is
   None (the code subtracts from +-1e100 and never sees a positive violation there as long as |value| < 1e100). *)
From Coq Require Import QArith List Bool.
From SV Require Import Vec LP Cert RatGateModel.
Import ListNotations.
Local Open Scope Q_scope.

(* if(viol > 0) { sumviol += viol; if(viol > maxviol) maxviol = viol; } *)
Definition add_viol (a : Q * Q) (v : Q) : Q * Q :=
  if Qltb 0 v then ((if Qltb (fst a) v then v else fst a), snd a + v) else a.

(* lower - value, then value - upper *)
Definition range_step (lo up : option Q) (v : Q) (a : Q * Q) : Q * Q :=
  let a1 := match lo with Some l => add_viol a (l - v) | None => a end in
  match up with Some u => add_viol a1 (v - u) | None => a1 end.

Definition bound_step (p : lp) (x : list Q) (a : Q * Q) (j : nat) : Q * Q :=
  range_step (c_lo (colj p j)) (c_up (colj p j)) (vnth x j) a.
Definition row_step (p : lp) (x : list Q) (a : Q * Q) (i : nat) : Q * Q :=
  range_step (r_lhs (rowi p i)) (r_rhs (rowi p i)) (activity p i x) a.

(* the loops run from the last index to the first *)
Definition bound_violation (p : lp) (x : list Q) : Q * Q := fold_left (bound_step p x) (down (ncols p)) (0, 0).
Definition row_violation (p : lp) (x : list Q) : Q * Q := fold_left (row_step p x) (down (nrows p)) (0, 0).

(* a multiplier (dual value of a row / reduced cost of a column) against the basis status.  [k] is the multiplier in the
   sense of minimisation (negated for a maximisation problem): negative only at ON_UPPER or FIXED, positive only at
   ON_LOWER or FIXED *)
Definition allows_neg (st : VarStatus) : bool := vs_eqb st ON_UPPER || vs_eqb st FIXED.
Definition allows_pos (st : VarStatus) : bool := vs_eqb st ON_LOWER || vs_eqb st FIXED.
Definition sign_step (maxi : bool) (st : VarStatus) (v : Q) (a : Q * Q) : Q * Q :=
  let k := if maxi then - v else v in
  let a1 := if allows_neg st then a else add_viol a (- k) in
  if allows_pos st then a1 else add_viol a1 k.

Definition stat (l : list VarStatus) (i : nat) : VarStatus := nth i l UNDEFINED.

Definition dual_violation (p : lp) (rst : list VarStatus) (y : list Q) : Q * Q :=
  fold_left (fun a i => sign_step (maximize p) (stat rst i) (vnth y i) a) (down (nrows p)) (0, 0).
Definition redcost_violation (p : lp) (cst : list VarStatus) (d : list Q) : Q * Q :=
  fold_left (fun a j => sign_step (maximize p) (stat cst j) (vnth d j) a) (down (ncols p)) (0, 0).

(* _verifySolutionReal: boundviol >= feastol || rowviol >= feastol || dualviol >= opttol || redcostviol >= opttol *)
Definition verify_bits (feastol opttol : Q) (p : lp) (x y d : list Q) (rst cst : list VarStatus) : bool * bool * bool * bool :=
  (Qle_bool feastol (fst (bound_violation p x)), Qle_bool feastol (fst (row_violation p x)),
   Qle_bool opttol (fst (dual_violation p rst y)), Qle_bool opttol (fst (redcost_violation p cst d))).

Definition gate_passes (feastol opttol : Q) (p : lp) (x y d : list Q) (rst cst : list VarStatus) : bool :=
  match verify_bits feastol opttol p x y d rst cst with (a, b, c, e) => negb (a || b || c || e) end.

(* what the gate does NOT look at: that a non-basic status names the bound the value sits at *)
Definition status_consistent (tc : Q) (st : VarStatus) (lo up : option Q) (v : Q) : bool :=
  match st with
  | ON_LOWER => near_lo tc lo v
  | ON_UPPER => near_up tc up v
  | FIXED => near_lo tc lo v && near_up tc up v
  | _ => true
  end.
