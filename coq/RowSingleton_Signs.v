(* C08 - RowSingletonPS, the branch "the bound implied by the singleton row coincides with the OPPOSITE original bound of x_j" (exact
   comparisons): which of the row and the column becomes basic is decided by the sign of the reduced cost, and the decision gives
   multipliers of the right sign (complementary slackness in minimisation form) for the row and for the column. *)
From Coq Require Import QArith Qabs List Bool Arith Lia Lqa Setoid.
From SV Require Import Vec LP Cert PostsolveModel Postsolve_Proofs RowSingleton_Proofs.
Import ListNotations.
Local Open Scope Q_scope.

Section OppositeBound.
  Variables (inf : Q) (i j : nat) (lhs rhs aij val oldLo oldUp : Q) (t0 : st).
  Let c := exact_cmps inf.
  Let newLo := if Qltb' 0 aij then lhs / aij else rhs / aij.
  Let newUp := if Qltb' 0 aij then rhs / aij else lhs / aij.

  Hypothesis Hst : gcs t0 j = FIXED.
  Hypothesis H2 : (Qleb newLo oldLo && Qleb oldUp newUp) = false.
  Hypothesis H3 : Qeq_bool newLo newUp = false.
  Hypothesis H4 : Qeq_bool newLo oldUp = false.
  Hypothesis H5 : Qeq_bool newUp oldLo = true.

  (* the decision in this branch *)
  Lemma rs_decide_upper_meets_lower :
    rs_decide c t0 i j lhs rhs aij val oldLo oldUp 0 =
    if Qltb' (gr t0 j) 0 then rs_col_basic t0 i j val aij (Qeq_bool (lhs / aij) (gx t0 j))
    else rs_slack_basic t0 i j 0 val false (Some ON_LOWER).
  Proof.
    unfold rs_decide. rewrite Hst. cbv zeta. fold newLo newUp.
    unfold c. cbn [exact_cmps eqrel_f le_mf ge_pf]. rewrite H2, H3, H4, H5. reflexivity.
  Qed.

  (* signs: x_j sits at oldLo = newUp; val is the reduced cost of x_j without the row *)
  Hypothesis Ha : ~ aij == 0.
  Hypothesis Hx : gx t0 j == oldLo.
  Hypothesis Hv : val == gr t0 j.

  Let t' := rs_decide c t0 i j lhs rhs aij val oldLo oldUp 0.

  Theorem upper_meets_lower_signs :
    (* row i: a negative multiplier needs the upper side tight, a positive one the lower side *)
    (gy t' i < 0 -> rhs == aij * gx t' j) /\ (0 < gy t' i -> lhs == aij * gx t' j) /\
    (* column j: a positive reduced cost needs the lower bound tight; a negative one does not occur *)
    (0 < gr t' j -> oldLo == gx t' j) /\ ~ gr t' j < 0.
  Proof.
    unfold t'. rewrite rs_decide_upper_meets_lower.
    apply Qeq_bool_iff in H5.
    assert (Hup : newUp == gx t0 j) by (rewrite Hx; exact H5).
    destruct t0 as [x y s r cs rs]. unfold gx, gr, gy in *. cbn [sx sy ss sr scs srs] in *.
    destruct (Qltb' (vnth r j) 0) eqn:E.
    - (* the row holds x_j down: column basic, y_i = val / a_ij *)
      unfold Qltb' in E. apply negb_true_iff in E.
      assert (Hneg : vnth r j < 0).
      { destruct (Qlt_le_dec (vnth r j) 0) as [L|L]; [exact L|]. apply Qle_bool_iff in L. rewrite L in E. discriminate. }
      unfold rs_col_basic. cbv beta iota zeta delta [set_x set_y set_s set_r set_cs set_rs gx gy gs gr gcs grs sx sy ss sr scs srs].
      rewrite !vnth_qupd_same. unfold newUp in Hup.
      destruct (Qltb' 0 aij) eqn:Ea.
      + (* a_ij > 0: newUp = rhs / a_ij, the multiplier val / a_ij is negative *)
        unfold Qltb' in Ea. apply negb_true_iff in Ea.
        assert (Hpos : 0 < aij).
        { destruct (Qlt_le_dec 0 aij) as [L|L]; [exact L|]. apply Qle_bool_iff in L. rewrite L in Ea. discriminate. }
        assert (Hy : val / aij < 0).
        { rewrite Hv. apply Qlt_shift_div_r; [exact Hpos|]. rewrite Qmult_0_l. exact Hneg. }
        repeat split.
        * intros _. rewrite <- Hup. field. exact Ha.
        * intros Hc. lra.
        * intros Hc. lra.
        * lra.
      + (* a_ij < 0: newUp = lhs / a_ij, the multiplier is positive *)
        unfold Qltb' in Ea. apply negb_false_iff in Ea. apply Qle_bool_iff in Ea.
        assert (Hlt : aij < 0).
        { destruct (Qlt_le_dec aij 0) as [L|L]; [exact L|]. exfalso. apply Ha. lra. }
        assert (Hy : 0 < val / aij).
        { rewrite Hv. assert (E1 : vnth r j / aij == (- vnth r j) / (- aij)) by (field; exact Ha). rewrite E1.
          apply Qlt_shift_div_l; [lra|]. lra. }
        repeat split.
        * intros Hc. lra.
        * intros _. rewrite <- Hup. field. exact Ha.
        * intros Hc. lra.
        * lra.
    - (* the own lower bound holds x_j: row basic with multiplier 0, x_j non-basic at its lower bound with reduced cost val *)
      unfold Qltb' in E. apply negb_false_iff in E. apply Qle_bool_iff in E.
      unfold rs_slack_basic. cbv beta iota zeta delta [set_x set_y set_s set_r set_cs set_rs gx gy gs gr gcs grs sx sy ss sr scs srs].
      rewrite !vnth_qupd_same.
      repeat split.
      * intros Hc. lra.
      * intros Hc. lra.
      * intros _. symmetry. exact Hx.
      * rewrite Hv. lra.
  Qed.
End OppositeBound.

(* the mirrored branch: the LOWER bound the row implies equals the variable's own UPPER bound *)
Section OppositeBoundUpper.
  Variables (inf : Q) (i j : nat) (lhs rhs aij val oldLo oldUp : Q) (t0 : st).
  Let c := exact_cmps inf.
  Let newLo := if Qltb' 0 aij then lhs / aij else rhs / aij.
  Let newUp := if Qltb' 0 aij then rhs / aij else lhs / aij.

  Hypothesis Hst : gcs t0 j = FIXED.
  Hypothesis H2 : (Qleb newLo oldLo && Qleb oldUp newUp) = false.
  Hypothesis H3 : Qeq_bool newLo newUp = false.
  Hypothesis H4 : Qeq_bool newLo oldUp = true.

  Lemma rs_decide_lower_meets_upper :
    rs_decide c t0 i j lhs rhs aij val oldLo oldUp 0 =
    if Qltb' 0 (gr t0 j) then rs_col_basic t0 i j val aij (Qeq_bool (lhs / aij) (gx t0 j))
    else rs_slack_basic t0 i j 0 val false (Some ON_UPPER).
  Proof.
    unfold rs_decide. rewrite Hst. cbv zeta. fold newLo newUp.
    unfold c. cbn [exact_cmps eqrel_f le_mf ge_pf]. rewrite H2, H3, H4. reflexivity.
  Qed.

  Hypothesis Ha : ~ aij == 0.
  Hypothesis Hx : gx t0 j == oldUp.
  Hypothesis Hv : val == gr t0 j.

  Let t' := rs_decide c t0 i j lhs rhs aij val oldLo oldUp 0.

  Theorem lower_meets_upper_signs :
    (gy t' i < 0 -> rhs == aij * gx t' j) /\ (0 < gy t' i -> lhs == aij * gx t' j) /\
    (gr t' j < 0 -> oldUp == gx t' j) /\ ~ 0 < gr t' j.
  Proof.
    unfold t'. rewrite rs_decide_lower_meets_upper.
    apply Qeq_bool_iff in H4.
    assert (Hlo : newLo == gx t0 j) by (rewrite Hx; exact H4).
    destruct t0 as [x y s r cs rs]. unfold gx, gr, gy in *. cbn [sx sy ss sr scs srs] in *.
    destruct (Qltb' 0 (vnth r j)) eqn:E.
    - unfold Qltb' in E. apply negb_true_iff in E.
      assert (Hpos : 0 < vnth r j).
      { destruct (Qlt_le_dec 0 (vnth r j)) as [L|L]; [exact L|]. apply Qle_bool_iff in L. rewrite L in E. discriminate. }
      unfold rs_col_basic. cbv beta iota zeta delta [set_x set_y set_s set_r set_cs set_rs gx gy gs gr gcs grs sx sy ss sr scs srs].
      rewrite !vnth_qupd_same. unfold newLo in Hlo.
      destruct (Qltb' 0 aij) eqn:Ea.
      + unfold Qltb' in Ea. apply negb_true_iff in Ea.
        assert (Hap : 0 < aij).
        { destruct (Qlt_le_dec 0 aij) as [L|L]; [exact L|]. apply Qle_bool_iff in L. rewrite L in Ea. discriminate. }
        assert (Hy : 0 < val / aij).
        { rewrite Hv. apply Qlt_shift_div_l; [exact Hap|]. rewrite Qmult_0_l. exact Hpos. }
        repeat split.
        * intros Hc. lra.
        * intros _. rewrite <- Hlo. field. exact Ha.
        * intros Hc. lra.
        * lra.
      + unfold Qltb' in Ea. apply negb_false_iff in Ea. apply Qle_bool_iff in Ea.
        assert (Hlt : aij < 0).
        { destruct (Qlt_le_dec aij 0) as [L|L]; [exact L|]. exfalso. apply Ha. lra. }
        assert (Hy : val / aij < 0).
        { rewrite Hv. assert (E1 : vnth r j / aij == (- vnth r j) / (- aij)) by (field; exact Ha). rewrite E1.
          apply Qlt_shift_div_r; [lra|]. lra. }
        repeat split.
        * intros _. rewrite <- Hlo. field. exact Ha.
        * intros Hc. lra.
        * intros Hc. lra.
        * lra.
    - unfold Qltb' in E. apply negb_false_iff in E. apply Qle_bool_iff in E.
      unfold rs_slack_basic. cbv beta iota zeta delta [set_x set_y set_s set_r set_cs set_rs gx gy gs gr gcs grs sx sy ss sr scs srs].
      rewrite !vnth_qupd_same.
      repeat split.
      * intros Hc. lra.
      * intros Hc. lra.
      * intros _. symmetry. exact Hx.
      * rewrite Hv. lra.
  Qed.
End OppositeBoundUpper.
