(* Extraction of the C20 model (ExtrOcamlBasic only; nat, positive, Z, Q, string stay the extracted inductive types). *)
From Coq Require Extraction.
From Coq Require Import ExtrOcamlBasic ZArith QArith List.
From SV Require Import CIfaceModel.
From SVG Require Import Gen_CIface.

Definition c20_calls := wrapper_calls gen_rational_codes.
Definition c20_intended := intended_calls gen_rational_codes.

Extraction "../extract/C20/model.ml" c20_calls c20_intended footprint buf_len dims_ok footprint_ok ret_string_ok
           Q_to_pair valid_call.
