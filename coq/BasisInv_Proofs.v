(* C05 - lemmas about coq/BasisInvModel.v: the factorisation B' = D_r B D_bind of the scaled basis matrix, the
   transfer of exact solves / products through the scaling glue (column representation), soundness of the checkers,
   and the transposed product in row representation. *)
From Coq Require Import QArith Qabs Qpower List ZArith Bool Arith Lia Lqa Setoid Morphisms FinFun.
From SV Require Import Vec BasisInvModel.
Import ListNotations.
Local Open Scope Q_scope.

(* ------------------------------------------------------------------------------------------------ *)
(* powers of two                                                                                     *)
(* ------------------------------------------------------------------------------------------------ *)

Lemma two_nz : ~ (2 # 1) == 0.
Proof. intro H. discriminate H. Qed.

Lemma pow2_pos k : 0 < pow2 k.
Proof. unfold pow2. apply Qpower_0_lt. reflexivity. Qed.

Lemma pow2_nz k : ~ pow2 k == 0.
Proof. intro H. pose proof (pow2_pos k) as P. rewrite H in P. discriminate P. Qed.

Lemma pow2_0 : pow2 0 == 1.
Proof. reflexivity. Qed.

Lemma pow2_add a b : pow2 (a + b) == pow2 a * pow2 b.
Proof. unfold pow2. apply Qpower_plus. exact two_nz. Qed.

Lemma pow2_opp_r a : pow2 a * pow2 (- a) == 1.
Proof. rewrite <- pow2_add. rewrite Z.add_opp_diag_r. reflexivity. Qed.

Lemma pow2_opp_l a : pow2 (- a) * pow2 a == 1.
Proof. rewrite Qmult_comm. apply pow2_opp_r. Qed.

(* ------------------------------------------------------------------------------------------------ *)
(* padded vectors                                                                                    *)
(* ------------------------------------------------------------------------------------------------ *)

Lemma vnth_nil i : vnth [] i = 0.
Proof. destruct i; reflexivity. Qed.

Lemma veq_refl u : veq u u.
Proof. intro i. reflexivity. Qed.

Lemma veq_sym u v : veq u v -> veq v u.
Proof. intros H i. symmetry. apply H. Qed.

Lemma veq_trans u v w : veq u v -> veq v w -> veq u w.
Proof. intros H1 H2 i. rewrite (H1 i). apply H2. Qed.

Lemma vnth_F2 u v : Forall2 Qeq u v -> forall i, vnth u i == vnth v i.
Proof.
  induction 1 as [|a b u v Hab _ IH]; intros i.
  - reflexivity.
  - destruct i as [|i]; simpl; [exact Hab | apply IH].
Qed.

Lemma F2_refl u : Forall2 Qeq u u.
Proof. induction u; constructor; [reflexivity | assumption]. Qed.

Lemma dot_F2_r x u v : Forall2 Qeq u v -> dot x u == dot x v.
Proof.
  intros H. revert x. induction H as [|a b u v Hab _ IH]; intros [|c x]; simpl; try reflexivity.
  rewrite Hab, IH. reflexivity.
Qed.

Lemma dot_F2_l u v y : Forall2 Qeq u v -> dot u y == dot v y.
Proof. intros H. rewrite (dot_comm u y), (dot_comm v y). apply dot_F2_r. exact H. Qed.

Lemma vnth_vzero n i : vnth (vzero n) i == 0.
Proof.
  revert i. induction n as [|n IH]; intros i.
  - destruct i; reflexivity.
  - destruct i; simpl; [reflexivity | apply IH].
Qed.

Lemma vzero_length n : length (vzero n) = n.
Proof. apply repeat_length. Qed.

Lemma unit_vec_length m k : length (unit_vec m k) = m.
Proof.
  revert k. induction m as [|m IH]; intros k; simpl; [reflexivity|].
  destruct k; simpl; [rewrite vzero_length | rewrite IH]; reflexivity.
Qed.

(* the unit vector is supported on its own index: any weight can be moved from k to i *)
Lemma unit_vec_diag (f : nat -> Q) m k i : f k * vnth (unit_vec m k) i == f i * vnth (unit_vec m k) i.
Proof.
  revert f k i. induction m as [|m IH]; intros f k i; simpl.
  - rewrite ?vnth_nil. ring.
  - destruct k as [|k]; destruct i as [|i]; simpl; try ring.
    + rewrite vnth_vzero. ring.
    + apply (IH (fun t => f (S t))).
Qed.

Lemma vnth_unit_same m k : (k < m)%nat -> vnth (unit_vec m k) k == 1.
Proof.
  revert k. induction m as [|m IH]; intros k H; [lia|].
  destruct k; simpl; [reflexivity | apply IH; lia].
Qed.

Lemma vnth_unit_other m k i : i <> k -> vnth (unit_vec m k) i == 0.
Proof.
  revert k i. induction m as [|m IH]; intros k i H; simpl.
  - rewrite ?vnth_nil. reflexivity.
  - destruct k; destruct i; simpl; try reflexivity; try lia.
    + apply vnth_vzero.
    + apply IH. lia.
Qed.

Lemma dot_vzero x n : dot x (vzero n) == 0.
Proof.
  revert x. induction n as [|n IH]; intros [|a x]; simpl; try reflexivity.
  rewrite IH. ring.
Qed.

Lemma dot_unit x m k : (k < m)%nat -> dot x (unit_vec m k) == vnth x k.
Proof.
  revert x k. induction m as [|m IH]; intros x k H; [lia|].
  destruct x as [|a x]; simpl.
  - rewrite ?vnth_nil. reflexivity.
  - destruct k as [|k]; simpl.
    + rewrite dot_vzero. ring.
    + rewrite IH by lia. ring.
Qed.

(* ------------------------------------------------------------------------------------------------ *)
(* diagonal scaling                                                                                  *)
(* ------------------------------------------------------------------------------------------------ *)

Lemma nth_tl (A : Type) (l : list A) (d : A) i : nth i (tl l) d = nth (S i) l d.
Proof. destruct l; simpl; [destruct i; reflexivity | reflexivity]. Qed.

Lemma nth_hd (A : Type) (l : list A) (d : A) : hd d l = nth 0 l d.
Proof. destruct l; reflexivity. Qed.

Lemma dscale_length es v : length (dscale es v) = length v.
Proof. revert es. induction v as [|a v IH]; intros es; simpl; [reflexivity | rewrite IH; reflexivity]. Qed.

Lemma vnth_dscale es v i : vnth (dscale es v) i == vnth v i * pow2 (nth i es 0%Z).
Proof.
  revert es i. induction v as [|a v IH]; intros es i; simpl.
  - rewrite ?vnth_nil. ring.
  - destruct i as [|i]; simpl.
    + rewrite nth_hd. reflexivity.
    + rewrite IH, nth_tl. reflexivity.
Qed.

Lemma dot_dscale es x v : dot x (dscale es v) == dot (dscale es x) v.
Proof.
  revert es v. induction x as [|a x IH]; intros es [|b v]; simpl; try reflexivity.
  rewrite IH. ring.
Qed.

Lemma nth_zneg es i : nth i (zneg es) 0%Z = (- nth i es 0)%Z.
Proof. unfold zneg. exact (map_nth Z.opp es 0%Z i). Qed.

Lemma dscale_inv_l es v : Forall2 Qeq (dscale es (dscale (zneg es) v)) v.
Proof.
  revert es. induction v as [|a v IH]; intros es; simpl; constructor.
  - destruct es as [|e es]; cbn [zneg map hd].
    + change (pow2 0) with 1. ring.
    + rewrite <- Qmult_assoc, pow2_opp_l. ring.
  - destruct es as [|e es]; simpl; apply IH.
Qed.

(* ------------------------------------------------------------------------------------------------ *)
(* products with lists of columns                                                                    *)
(* ------------------------------------------------------------------------------------------------ *)

Lemma mulv_ext A B : Forall2 (Forall2 Qeq) A B -> forall x i, vnth (mulv A x) i == vnth (mulv B x) i.
Proof.
  unfold mulv. induction 1 as [|a b A B Hab _ IH]; intros x i.
  - reflexivity.
  - destruct x as [|t x]; simpl; [reflexivity|].
    rewrite !vnth_vadd, !vnth_vscale, IH, (vnth_F2 _ _ Hab i). reflexivity.
Qed.

Lemma mulv_x_ext B x x' : Forall2 Qeq x x' -> forall i, vnth (mulv B x) i == vnth (mulv B x') i.
Proof.
  unfold mulv. intros H. revert B. induction H as [|a b x x' Hab _ IH]; intros B i.
  - destruct B; reflexivity.
  - destruct B as [|c B]; simpl; [reflexivity|].
    rewrite !vnth_vadd, !vnth_vscale, IH, Hab. reflexivity.
Qed.

Lemma vnth_mulv_cscale d B x i : vnth (mulv (cscale d B) x) i == vnth (mulv B (dscale d x)) i.
Proof.
  unfold mulv. revert d x. induction B as [|col B IH]; intros d x; simpl.
  - reflexivity.
  - destruct x as [|a x]; simpl; [reflexivity|].
    rewrite !vnth_vadd, !vnth_vscale, IH. ring.
Qed.

Lemma vnth_mulv_rscale r B x i : vnth (mulv (rscale r B) x) i == pow2 (nth i r 0%Z) * vnth (mulv B x) i.
Proof.
  unfold mulv, rscale. revert x. induction B as [|col B IH]; intros x; simpl.
  - rewrite ?vnth_nil. ring.
  - destruct x as [|a x]; simpl.
    + rewrite ?vnth_nil. ring.
    + rewrite !vnth_vadd, !vnth_vscale, IH, vnth_dscale. ring.
Qed.

Lemma vnth_vmul x B j : vnth (vmul x B) j == dot x (nth j B []).
Proof.
  unfold vmul. revert j. induction B as [|col B IH]; intros j; simpl.
  - rewrite ?vnth_nil. destruct j; rewrite dot_nil_r; reflexivity.
  - destruct j; simpl; [reflexivity | apply IH].
Qed.

Lemma vmul_length x B : length (vmul x B) = length B.
Proof. apply map_length. Qed.

Lemma nth_F2 A B : Forall2 (Forall2 Qeq) A B -> forall j, Forall2 Qeq (nth j A []) (nth j B []).
Proof.
  induction 1 as [|a b A B Hab _ IH]; intros j.
  - destruct j; constructor.
  - destruct j; simpl; [exact Hab | apply IH].
Qed.

Lemma vmul_ext A B x : Forall2 (Forall2 Qeq) A B -> forall j, vnth (vmul x A) j == vnth (vmul x B) j.
Proof. intros H j. rewrite !vnth_vmul. apply dot_F2_r. apply nth_F2. exact H. Qed.

Lemma vmul_x_ext B x x' : Forall2 Qeq x x' -> forall j, vnth (vmul x B) j == vnth (vmul x' B) j.
Proof. intros H j. rewrite !vnth_vmul. apply dot_F2_l. exact H. Qed.

Lemma nth_cscale d B j : nth j (cscale d B) [] = vscale (pow2 (nth j d 0%Z)) (nth j B []).
Proof.
  revert d j. induction B as [|col B IH]; intros d j; simpl.
  - destruct j; reflexivity.
  - destruct j; simpl.
    + rewrite nth_hd. reflexivity.
    + rewrite IH, nth_tl. reflexivity.
Qed.

Lemma nth_rscale r B j : nth j (rscale r B) [] = dscale r (nth j B []).
Proof. unfold rscale. exact (map_nth (dscale r) B [] j). Qed.

Lemma vnth_vmul_scaled d r B x j :
  vnth (vmul x (cscale d (rscale r B))) j == pow2 (nth j d 0%Z) * vnth (vmul (dscale r x) B) j.
Proof. rewrite !vnth_vmul, nth_cscale, nth_rscale, dot_vscale_r, dot_dscale. reflexivity. Qed.

Lemma vnth_mulv_scaled d r B x i :
  vnth (mulv (cscale d (rscale r B)) x) i == pow2 (nth i r 0%Z) * vnth (mulv B (dscale d x)) i.
Proof.
  rewrite vnth_mulv_cscale, vnth_mulv_rscale. reflexivity.
Qed.

(* ------------------------------------------------------------------------------------------------ *)
(* the factorisation of the scaled basis matrix                                                      *)
(* ------------------------------------------------------------------------------------------------ *)

Lemma scale_col_factor r cj col : Forall2 Qeq (scale_col r cj col) (vscale (pow2 cj) (dscale r col)).
Proof.
  revert r. induction col as [|a col IH]; intros r; simpl; constructor.
  - rewrite pow2_add. ring.
  - apply IH.
Qed.

Lemma nth_scale_cols r c cols j : nth j (scale_cols r c cols) [] = scale_col r (nth j c 0%Z) (nth j cols []).
Proof.
  revert c j. induction cols as [|col cols IH]; intros c j; simpl.
  - destruct j; reflexivity.
  - destruct j; simpl.
    + rewrite nth_hd. reflexivity.
    + rewrite IH, nth_tl. reflexivity.
Qed.

Lemma scale_cols_length r c cols : length (scale_cols r c cols) = length cols.
Proof. revert c. induction cols as [|col cols IH]; intros c; simpl; [reflexivity | rewrite IH; reflexivity]. Qed.

Lemma vzero_scaled p r n : Forall2 Qeq (vzero n) (vscale p (dscale r (vzero n))).
Proof.
  revert r. induction n as [|n IH]; intros r; simpl; constructor.
  - ring.
  - apply IH.
Qed.

Lemma unit_vec_scaled r m i :
  Forall2 Qeq (unit_vec m i) (vscale (pow2 (- nth i r 0%Z)) (dscale r (unit_vec m i))).
Proof.
  revert r i. induction m as [|m IH]; intros r i; simpl.
  - constructor.
  - destruct i as [|i]; simpl; constructor.
    + rewrite nth_hd, (Qmult_comm 1), Qmult_1_r. symmetry. apply pow2_opp_l.
    + apply vzero_scaled.
    + ring.
    + rewrite <- nth_tl. apply IH.
Qed.

Lemma basis_col_scaled r c p b :
  Forall2 Qeq (basis_col (scale r c p) b) (vscale (pow2 (bind_exp r c b)) (dscale r (basis_col p b))).
Proof.
  unfold basis_col, bind_exp. simpl. destruct (0 <=? b)%Z.
  - rewrite nth_scale_cols. apply scale_col_factor.
  - apply unit_vec_scaled.
Qed.

Lemma scaled_basis_factorisation r c p bind :
  Forall2 (Forall2 Qeq) (basis_matrix (scale r c p) bind)
          (cscale (dbind r c bind) (rscale r (basis_matrix p bind))).
Proof.
  unfold basis_matrix, dbind, rscale. induction bind as [|b bind IH]; simpl; constructor.
  - apply basis_col_scaled.
  - exact IH.
Qed.

(* the two transfer identities: products with the stored (scaled) basis in terms of the user's basis *)
Lemma mulv_scaled_basis r c p bind x i :
  vnth (mulv (basis_matrix (scale r c p) bind) x) i ==
  pow2 (nth i r 0%Z) * vnth (mulv (basis_matrix p bind) (dscale (dbind r c bind) x)) i.
Proof.
  rewrite (mulv_ext _ _ (scaled_basis_factorisation r c p bind)). apply vnth_mulv_scaled.
Qed.

Lemma vmul_scaled_basis r c p bind x j :
  vnth (vmul x (basis_matrix (scale r c p) bind)) j ==
  pow2 (nth j (dbind r c bind) 0%Z) * vnth (vmul (dscale r x) (basis_matrix p bind)) j.
Proof.
  rewrite (vmul_ext _ _ x (scaled_basis_factorisation r c p bind)). apply vnth_vmul_scaled.
Qed.

(* ------------------------------------------------------------------------------------------------ *)
(* column representation: the glue returns the exact answer for the user's matrix                    *)
(* ------------------------------------------------------------------------------------------------ *)

Section ColumnRep.
  Variables (p : lpmat) (r c : list Z) (bind : list Z).
  Let m := lm_rows p.
  Let B := basis_matrix p bind.
  Let Bs := basis_matrix (scale r c p) bind.          (* the matrix the solver has factorised *)
  Variables (solve coSolve : vec -> vec).
  Hypothesis solve_exact : forall b, length b = m -> veq (mulv Bs (solve b)) b.
  Hypothesis coSolve_exact : forall b, length b = m -> veq (vmul (coSolve b) Bs) b.
  Hypothesis bind_len : length bind = m.

  Lemma binv_col_unscale k :
    (k < m)%nat -> veq (mulv B (binv_col_colrep solve true r c m bind k)) (unit_vec m k).
  Proof.
    intros Hk i. unfold binv_col_colrep.
    set (rhs := vscale (pow2 (nth k r 0%Z)) (unit_vec m k)).
    assert (L : length rhs = m) by (unfold rhs, vscale; rewrite map_length; apply unit_vec_length).
    pose proof (solve_exact rhs L i) as H. unfold Bs in H. rewrite mulv_scaled_basis in H.
    unfold rhs in H. rewrite vnth_vscale in H.
    rewrite (unit_vec_diag (fun t => pow2 (nth t r 0%Z)) m k i) in H.
    apply (Qmult_inj_l _ _ (pow2 (nth i r 0%Z))); [apply pow2_nz | exact H].
  Qed.

  Lemma dbind_nth k : (k < m)%nat -> nth k (dbind r c bind) 0%Z = bind_exp r c (nth k bind 0%Z).
  Proof.
    intros Hk. unfold dbind. rewrite (nth_indep _ 0%Z (bind_exp r c 0%Z)) by (rewrite map_length; lia).
    apply map_nth.
  Qed.

  Lemma binv_row_unscale k :
    (k < m)%nat -> veq (vmul (binv_row_colrep coSolve true r c m bind k) B) (unit_vec m k).
  Proof.
    intros Hk j. unfold binv_row_colrep. rewrite <- (dbind_nth k Hk).
    set (rhs := vscale (pow2 (nth k (dbind r c bind) 0%Z)) (unit_vec m k)).
    assert (L : length rhs = m) by (unfold rhs, vscale; rewrite map_length; apply unit_vec_length).
    pose proof (coSolve_exact rhs L j) as H. unfold Bs in H. rewrite vmul_scaled_basis in H.
    unfold rhs in H at 2. rewrite vnth_vscale in H.
    rewrite (unit_vec_diag (fun t => pow2 (nth t (dbind r c bind) 0%Z)) m k j) in H.
    apply (Qmult_inj_l _ _ (pow2 (nth j (dbind r c bind) 0%Z))); [apply pow2_nz | exact H].
  Qed.

  Lemma binv_times_vec_unscale v :
    length v = m -> veq (mulv B (binv_times_vec_colrep solve true r c bind v)) v.
  Proof.
    intros Hv i. unfold binv_times_vec_colrep.
    assert (L : length (dscale r v) = m) by (rewrite dscale_length; exact Hv).
    pose proof (solve_exact _ L i) as H. unfold Bs in H. rewrite mulv_scaled_basis, vnth_dscale in H.
    rewrite (Qmult_comm (vnth v i)) in H.
    apply (Qmult_inj_l _ _ (pow2 (nth i r 0%Z))); [apply pow2_nz | exact H].
  Qed.

  Lemma mult_unscale v : veq (mult_colrep true r c Bs bind v) (mulv B v).
  Proof.
    intros i. unfold mult_colrep, Bs. rewrite vnth_dscale, mulv_scaled_basis, nth_zneg.
    rewrite (mulv_x_ext (basis_matrix p bind) _ v (dscale_inv_l (dbind r c bind) v) i). unfold B.
    rewrite (Qmult_comm (pow2 (nth i r 0%Z))), <- Qmult_assoc, pow2_opp_r. ring.
  Qed.

  Lemma multT_unscale v : veq (multT_colrep true r c Bs bind v) (vmul v B).
  Proof.
    intros j. unfold multT_colrep, Bs. rewrite vnth_dscale, vmul_scaled_basis, nth_zneg.
    rewrite (vmul_x_ext (basis_matrix p bind) _ v (dscale_inv_l r v) j). unfold B.
    rewrite (Qmult_comm (pow2 (nth j (dbind r c bind) 0%Z))), <- Qmult_assoc, pow2_opp_r. ring.
  Qed.
End ColumnRep.

(* ------------------------------------------------------------------------------------------------ *)
(* soundness of the checkers                                                                         *)
(* ------------------------------------------------------------------------------------------------ *)

Lemma all_zero_spec u : all_zero u = true -> forall i, vnth u i == 0.
Proof.
  unfold all_zero. induction u as [|a u IH]; intros H i.
  - rewrite vnth_nil. reflexivity.
  - simpl in H. apply andb_true_iff in H as [Ha Hu]. destruct i; simpl.
    + apply Qeq_bool_eq. exact Ha.
    + apply IH. exact Hu.
Qed.

Lemma veqb_sound u v : veqb u v = true -> veq u v.
Proof.
  revert v. induction u as [|a u IH]; intros v H i.
  - simpl in H. rewrite vnth_nil. symmetry. apply all_zero_spec. exact H.
  - destruct v as [|b v].
    + rewrite vnth_nil. apply all_zero_spec. exact H.
    + simpl in H. apply andb_true_iff in H as [Hab Huv]. destruct i; simpl.
      * apply Qeq_bool_eq. exact Hab.
      * apply IH. exact Huv.
Qed.

Lemma all_zero_complete u : (forall i, vnth u i == 0) -> all_zero u = true.
Proof.
  unfold all_zero. induction u as [|a u IH]; intros H; simpl; [reflexivity|].
  apply andb_true_iff. split.
  - apply Qeq_eq_bool. exact (H 0%nat).
  - apply IH. intros i. exact (H (S i)).
Qed.

Lemma veqb_complete u v : veq u v -> veqb u v = true.
Proof.
  revert v. induction u as [|a u IH]; intros v H.
  - simpl. apply all_zero_complete. intros i. rewrite <- (H i), vnth_nil. reflexivity.
  - destruct v as [|b v].
    + apply all_zero_complete. intros i. rewrite (H i), vnth_nil. reflexivity.
    + simpl. apply andb_true_iff. split.
      * apply Qeq_eq_bool. exact (H 0%nat).
      * apply IH. intros i. exact (H (S i)).
Qed.

Lemma wf_bind_spec p bind : wf_bind p bind = true -> length bind = lm_rows p /\ forall b, In b bind -> bind_ok p b = true.
Proof.
  unfold wf_bind. intros H. apply andb_true_iff in H as [H1 H2]. split.
  - apply Nat.eqb_eq. exact H1.
  - apply forallb_forall. exact H2.
Qed.

Lemma check_binv_col_sound p bind col k :
  check_binv_col p bind col k = true ->
  wf_bind p bind = true /\ (k < lm_rows p)%nat /\ veq (mulv (basis_matrix p bind) col) (unit_vec (lm_rows p) k).
Proof.
  unfold check_binv_col. intros H. apply andb_true_iff in H as [H H3]. apply andb_true_iff in H as [H1 H2].
  repeat split; [exact H1 | apply Nat.ltb_lt; exact H2 | apply veqb_sound; exact H3].
Qed.

Lemma check_binv_row_sound p bind row k :
  check_binv_row p bind row k = true ->
  wf_bind p bind = true /\ (k < lm_rows p)%nat /\ veq (vmul row (basis_matrix p bind)) (unit_vec (lm_rows p) k).
Proof.
  unfold check_binv_row. intros H. apply andb_true_iff in H as [H H3]. apply andb_true_iff in H as [H1 H2].
  repeat split; [exact H1 | apply Nat.ltb_lt; exact H2 | apply veqb_sound; exact H3].
Qed.

Lemma check_solve_sound p bind rhs sol :
  check_solve p bind rhs sol = true -> wf_bind p bind = true /\ veq (mulv (basis_matrix p bind) sol) rhs.
Proof.
  unfold check_solve. intros H. apply andb_true_iff in H as [H1 H2]. split; [exact H1 | apply veqb_sound; exact H2].
Qed.

Lemma check_mult_sound p bind v out :
  check_mult p bind v out = true -> wf_bind p bind = true /\ veq out (mulv (basis_matrix p bind) v).
Proof.
  unfold check_mult. intros H. apply andb_true_iff in H as [H1 H2]. split; [exact H1 | apply veqb_sound; exact H2].
Qed.

Lemma check_multT_sound p bind v out :
  check_multT p bind v out = true -> wf_bind p bind = true /\ veq out (vmul v (basis_matrix p bind)).
Proof.
  unfold check_multT. intros H. apply andb_true_iff in H as [H1 H2]. split; [exact H1 | apply veqb_sound; exact H2].
Qed.

(* tolerance versions *)
Lemma qmax_ge_r a b : b <= qmax a b.
Proof.
  unfold qmax. destruct (Qle_bool a b) eqn:E.
  - apply Qle_refl.
  - destruct (Qlt_le_dec b a) as [L|L]; [apply Qlt_le_weak; exact L|].
    apply Qle_bool_iff in L. congruence.
Qed.

Lemma norm_inf_nonneg v : 0 <= norm_inf v.
Proof.
  induction v as [|a v IH]; simpl; [apply Qle_refl|].
  eapply Qle_trans; [exact IH | apply qmax_ge_r].
Qed.

Lemma tol_nonneg eps nB nx nb : 0 <= eps -> 0 <= nB -> 0 <= nx -> 0 <= nb -> 0 <= eps * (1 + nB * nx + nb).
Proof. intros. assert (0 <= nB * nx) by (apply Qmult_le_0_compat; assumption). apply Qmult_le_0_compat; lra. Qed.

Lemma tol_right_nonneg eps B x b : 0 <= eps -> 0 <= tol_right eps B x b.
Proof. intros H. unfold tol_right, norm_inf_mat. apply tol_nonneg; auto using norm_inf_nonneg. Qed.

Lemma tol_left_nonneg eps B x b : 0 <= eps -> 0 <= tol_left eps B x b.
Proof. intros H. unfold tol_left, norm_one_mat. apply tol_nonneg; auto using norm_inf_nonneg. Qed.

Lemma all_small_spec t u : 0 <= t -> forallb (fun a => Qle_bool (Qabs a) t) u = true -> forall i, Qabs (vnth u i) <= t.
Proof.
  intros Ht. induction u as [|a u IH]; intros H i.
  - rewrite vnth_nil. exact Ht.
  - simpl in H. apply andb_true_iff in H as [Ha Hu]. destruct i; simpl.
    + apply Qle_bool_iff. exact Ha.
    + apply IH. exact Hu.
Qed.

Lemma vclose_sound t u v : 0 <= t -> vclose t u v = true -> forall i, Qabs (vnth u i - vnth v i) <= t.
Proof.
  intros Ht. revert v. induction u as [|a u IH]; intros v H i.
  - simpl in H. rewrite vnth_nil.
    assert (E : 0 - vnth v i == - vnth v i) by ring. rewrite E, Qabs_opp. apply all_small_spec; assumption.
  - destruct v as [|b v].
    + rewrite vnth_nil. assert (E : vnth (a :: u) i - 0 == vnth (a :: u) i) by ring. rewrite E.
      apply all_small_spec; assumption.
    + simpl in H. apply andb_true_iff in H as [Hab Huv]. destruct i; simpl.
      * apply Qle_bool_iff. exact Hab.
      * apply IH. exact Huv.
Qed.

Lemma check_binv_col_tol_sound eps p bind col k :
  0 <= eps -> check_binv_col_tol eps p bind col k = true ->
  wf_bind p bind = true /\ (k < lm_rows p)%nat /\
  forall i, Qabs (vnth (mulv (basis_matrix p bind) col) i - vnth (unit_vec (lm_rows p) k) i)
            <= tol_right eps (basis_matrix p bind) col (unit_vec (lm_rows p) k).
Proof.
  unfold check_binv_col_tol. intros He H. apply andb_true_iff in H as [H H3]. apply andb_true_iff in H as [H1 H2].
  repeat split; [exact H1 | apply Nat.ltb_lt; exact H2 |].
  apply vclose_sound; [apply tol_right_nonneg; exact He | exact H3].
Qed.

Lemma check_binv_row_tol_sound eps p bind row k :
  0 <= eps -> check_binv_row_tol eps p bind row k = true ->
  wf_bind p bind = true /\ (k < lm_rows p)%nat /\
  forall j, Qabs (vnth (vmul row (basis_matrix p bind)) j - vnth (unit_vec (lm_rows p) k) j)
            <= tol_left eps (basis_matrix p bind) row (unit_vec (lm_rows p) k).
Proof.
  unfold check_binv_row_tol. intros He H. apply andb_true_iff in H as [H H3]. apply andb_true_iff in H as [H1 H2].
  repeat split; [exact H1 | apply Nat.ltb_lt; exact H2 |].
  apply vclose_sound; [apply tol_left_nonneg; exact He | exact H3].
Qed.

Lemma check_solve_tol_sound eps p bind rhs sol :
  0 <= eps -> check_solve_tol eps p bind rhs sol = true ->
  wf_bind p bind = true /\
  forall i, Qabs (vnth (mulv (basis_matrix p bind) sol) i - vnth rhs i) <= tol_right eps (basis_matrix p bind) sol rhs.
Proof.
  unfold check_solve_tol. intros He H. apply andb_true_iff in H as [H1 H2]. split; [exact H1|].
  apply vclose_sound; [apply tol_right_nonneg; exact He | exact H2].
Qed.

Lemma check_mult_tol_sound eps p bind v out :
  0 <= eps -> check_mult_tol eps p bind v out = true ->
  wf_bind p bind = true /\
  forall i, Qabs (vnth out i - vnth (mulv (basis_matrix p bind) v) i) <= tol_right eps (basis_matrix p bind) v out.
Proof.
  unfold check_mult_tol. intros He H. apply andb_true_iff in H as [H1 H2]. split; [exact H1|].
  apply vclose_sound; [apply tol_right_nonneg; exact He | exact H2].
Qed.

Lemma check_multT_tol_sound eps p bind v out :
  0 <= eps -> check_multT_tol eps p bind v out = true ->
  wf_bind p bind = true /\
  forall j, Qabs (vnth out j - vnth (vmul v (basis_matrix p bind)) j) <= tol_left eps (basis_matrix p bind) v out.
Proof.
  unfold check_multT_tol. intros He H. apply andb_true_iff in H as [H1 H2]. split; [exact H1|].
  apply vclose_sound; [apply tol_left_nonneg; exact He | exact H2].
Qed.

(* the sparse index list *)
Lemma nonzero_from_spec coef k i :
  In i (nonzero_from k coef) <-> (k <= i < k + length coef)%nat /\ ~ vnth coef (i - k) == 0.
Proof.
  revert k. induction coef as [|a coef IH]; intros k; simpl.
  - split; [tauto | intros [H _]; lia].
  - destruct (Qeq_bool a 0) eqn:E.
    + rewrite IH. split.
      * intros [H1 H2]. split; [lia|]. replace (i - k)%nat with (S (i - S k)) by lia. exact H2.
      * intros [H1 H2]. destruct (Nat.eq_dec i k) as [->|Hne].
        -- rewrite Nat.sub_diag in H2. exfalso. apply H2. apply Qeq_bool_eq. exact E.
        -- replace (i - k)%nat with (S (i - S k)) in H2 by lia. split; [lia | exact H2].
    + simpl. rewrite IH. split.
      * intros [->|[H1 H2]].
        -- split; [lia|]. rewrite Nat.sub_diag. apply Qeq_bool_neq. exact E.
        -- split; [lia|]. replace (i - k)%nat with (S (i - S k)) by lia. exact H2.
      * intros [H1 H2]. destruct (Nat.eq_dec i k) as [->|Hne]; [left; reflexivity | right].
        replace (i - k)%nat with (S (i - S k)) in H2 by lia. split; [lia | exact H2].
Qed.

Lemma nat_list_eqb_eq a b : nat_list_eqb a b = true -> a = b.
Proof.
  revert b. induction a as [|x a IH]; intros [|y b] H; simpl in H; try discriminate; [reflexivity|].
  apply andb_true_iff in H as [H1 H2]. apply Nat.eqb_eq in H1. subst. f_equal. apply IH. exact H2.
Qed.

Lemma check_inds_sound coef inds :
  check_inds coef inds = true -> forall i, In i inds <-> (i < length coef)%nat /\ ~ vnth coef i == 0.
Proof.
  unfold check_inds. intros H i. apply nat_list_eqb_eq in H. subst inds.
  rewrite nonzero_from_spec, Nat.sub_0_r. split; intros [H1 H2]; (split; [lia | exact H2]).
Qed.

(* ------------------------------------------------------------------------------------------------ *)
(* row representation: getBasisInd names only existing rows / columns, multBasisTranspose is right   *)
(* ------------------------------------------------------------------------------------------------ *)

Lemma bind_rowrep_ok m n ids b :
  In b (bind_rowrep m n ids) ->
  ((b < 0)%Z /\ (Z.to_nat (-1 - b) < m)%nat) \/ ((0 <= b)%Z /\ (Z.to_nat b < n)%nat).
Proof.
  unfold bind_rowrep. intros H. apply in_app_or in H as [H|H]; apply in_map_iff in H as (t & <- & Ht);
    apply filter_In in Ht as [Ht _]; apply in_seq in Ht.
  - left. split; [lia|]. replace (-1 - (-1 - Z.of_nat t))%Z with (Z.of_nat t) by lia. rewrite Nat2Z.id. lia.
  - right. split; [lia|]. rewrite Nat2Z.id. lia.
Qed.

Lemma map_F2 (f g : Z -> Q) l : (forall b, In b l -> f b == g b) -> Forall2 Qeq (map f l) (map g l).
Proof.
  induction l as [|b l IH]; intros H; simpl; constructor.
  - apply H. left. reflexivity.
  - apply IH. intros b' Hb'. apply H. right. exact Hb'.
Qed.

Lemma multT_rowrep_plain r c ps ids x :
  veq (multT_rowrep false r c ps ids x) (vmul x (basis_matrix ps (bind_rowrep (lm_rows ps) (lm_ncols ps) ids))).
Proof.
  intros i. unfold multT_rowrep, vmul, basis_matrix. rewrite map_map. apply vnth_F2. apply map_F2.
  intros b Hb. unfold basis_col. apply bind_rowrep_ok in Hb as [[H1 H2]|[H1 H2]].
  - assert (E : (0 <=? b)%Z = false) by (apply Z.leb_gt; exact H1).
    assert (E' : (b <? 0)%Z = true) by (apply Z.ltb_lt; exact H1).
    rewrite E, E'. symmetry. apply dot_unit. exact H2.
  - assert (E : (0 <=? b)%Z = true) by (apply Z.leb_le; exact H1).
    assert (E' : (b <? 0)%Z = false) by (apply Z.ltb_ge; exact H1).
    rewrite E, E'. reflexivity.
Qed.

Lemma col_unscale_scale r cj col :
  Forall2 Qeq (dscale (zneg r) (vscale (pow2 (- cj)) (scale_col r cj col))) col.
Proof.
  revert r. induction col as [|a col IH]; intros r; simpl; constructor.
  - destruct r as [|e r]; cbn [zneg map hd].
    + rewrite pow2_add. change (pow2 0) with 1.
      setoid_replace (pow2 (- cj) * (a * (1 * pow2 cj)) * 1) with (a * (pow2 cj * pow2 (- cj))) by ring.
      rewrite pow2_opp_r. ring.
    + rewrite pow2_add.
      setoid_replace (pow2 (- cj) * (a * (pow2 e * pow2 cj)) * pow2 (- e))
        with (a * (pow2 e * pow2 (- e)) * (pow2 cj * pow2 (- cj))) by ring.
      rewrite !pow2_opp_r. ring.
  - destruct r as [|e r]; cbn [zneg map tl]; [exact (IH []) | exact (IH r)].
Qed.

Lemma multT_rowrep_unscale r c p ids x :
  veq (multT_rowrep true r c (scale r c p) ids x)
      (vmul x (basis_matrix p (bind_rowrep (lm_rows p) (lm_ncols p) ids))).
Proof.
  intros i. unfold multT_rowrep, vmul, basis_matrix. rewrite map_map.
  replace (lm_ncols (scale r c p)) with (lm_ncols p) by (unfold lm_ncols; simpl; rewrite scale_cols_length; reflexivity).
  replace (lm_rows (scale r c p)) with (lm_rows p) by reflexivity.
  apply vnth_F2. apply map_F2.
  intros b Hb. unfold basis_col. apply bind_rowrep_ok in Hb as [[H1 H2]|[H1 H2]].
  - assert (E : (0 <=? b)%Z = false) by (apply Z.leb_gt; exact H1).
    assert (E' : (b <? 0)%Z = true) by (apply Z.ltb_lt; exact H1).
    rewrite E, E'. symmetry. apply dot_unit. exact H2.
  - assert (E : (0 <=? b)%Z = true) by (apply Z.leb_le; exact H1).
    assert (E' : (b <? 0)%Z = false) by (apply Z.ltb_ge; exact H1).
    rewrite E, E'. apply dot_F2_r. unfold lp_col_unscaled. simpl. rewrite nth_scale_cols. apply col_unscale_scale.
Qed.

(* ------------------------------------------------------------------------------------------------ *)
(* row representation: the complement identity behind getBasisInverseRowReal                         *)
(* ------------------------------------------------------------------------------------------------ *)

(* the row basis names each row / column at most once, and only existing ones *)
Definition ids_ok (p : lpmat) (ids : list bid) : Prop :=
  NoDup ids /\
  forall id, In id ids -> match id with BRow i => (i < lm_rows p)%nat | BCol j => (j < lm_ncols p)%nat end.

(* contributions of the row vectors / of the unit vector of column j to  (M y)_j *)
Fixpoint rowsum (ids : list bid) (y col : vec) : Q :=
  match ids with
  | [] => 0
  | BRow i :: rest => vnth y 0 * vnth col i + rowsum rest (tl y) col
  | BCol _ :: rest => rowsum rest (tl y) col
  end.
Fixpoint colsum (ids : list bid) (y : vec) (j : nat) : Q :=
  match ids with
  | [] => 0
  | BCol j' :: rest => (if Nat.eqb j' j then vnth y 0 else 0) + colsum rest (tl y) j
  | BRow _ :: rest => colsum rest (tl y) j
  end.

Lemma rowsum_nil ids col : rowsum ids [] col == 0.
Proof. induction ids as [|[i|j] ids IH]; simpl; try reflexivity; rewrite IH; ring. Qed.

Lemma colsum_nil ids j : colsum ids [] j == 0.
Proof.
  induction ids as [|[i|j'] ids IH]; simpl; try reflexivity; try exact IH.
  rewrite IH. destruct (Nat.eqb j' j); ring.
Qed.

Lemma vnth_lp_row p i j : vnth (lp_row p i) j == vnth (nth j (lm_cols p) []) i.
Proof.
  unfold lp_row. generalize (lm_cols p) as cols. intros cols. revert j.
  induction cols as [|col cols IH]; intros j; simpl.
  - destruct j; rewrite ?vnth_nil; reflexivity.
  - destruct j; simpl; [reflexivity | apply IH].
Qed.

Lemma vnth_rb_matrix p ids y j :
  (j < lm_ncols p)%nat ->
  vnth (mulv (rb_matrix p ids) y) j == rowsum ids y (nth j (lm_cols p) []) + colsum ids y j.
Proof.
  intros Hj. unfold mulv, rb_matrix. revert y. induction ids as [|id ids IH]; intros y.
  - simpl. ring.
  - destruct y as [|yi y].
    + cbn [map tmat_vec]. rewrite vnth_nil.
      destruct id as [i|j']; cbn [rowsum colsum tl]; rewrite ?rowsum_nil, ?colsum_nil, ?vnth_nil.
      * ring.
      * destruct (Nat.eqb j' j); ring.
    + cbn [map tmat_vec]. rewrite vnth_vadd, vnth_vscale, IH.
      destruct id as [i|j']; cbn [rb_vec rowsum colsum tl vnth].
      * rewrite vnth_lp_row. ring.
      * destruct (Nat.eqb j' j) eqn:E.
        -- apply Nat.eqb_eq in E. subst j'. rewrite vnth_unit_same by exact Hj. ring.
        -- apply Nat.eqb_neq in E. rewrite vnth_unit_other by (intro; apply E; auto). ring.
Qed.

Lemma colsum_not_basic ids y j : is_col_basic ids j = false -> colsum ids y j == 0.
Proof.
  revert y. induction ids as [|[i|j'] ids IH]; intros y H; simpl in *.
  - reflexivity.
  - apply IH. exact H.
  - apply orb_false_iff in H as [H1 H2]. rewrite H1, IH by exact H2. ring.
Qed.

Lemma is_row_basic_In ids i : is_row_basic ids i = true <-> In (BRow i) ids.
Proof.
  induction ids as [|[i'|j] ids IH]; simpl.
  - split; [discriminate | tauto].
  - rewrite orb_true_iff, IH, Nat.eqb_eq. split.
    + intros [H|H]; [left; congruence | right; exact H].
    + intros [H|H]; [left; congruence | right; exact H].
  - rewrite IH. split; [auto | intros [H|H]; [discriminate | exact H]].
Qed.

(* vset *)
Lemma vset_length i a v : length (vset i a v) = length v.
Proof. revert i. induction v as [|b v IH]; intros [|i]; simpl; auto. Qed.

Lemma vnth_vset_other i a v k : k <> i -> vnth (vset i a v) k = vnth v k.
Proof.
  revert i k. induction v as [|b v IH]; intros i k H.
  - destruct i; reflexivity.
  - destruct i as [|i]; destruct k as [|k]; simpl; try reflexivity; try lia. apply IH. lia.
Qed.

Lemma vnth_vset_same i a v : (i < length v)%nat -> vnth (vset i a v) i = a.
Proof.
  revert i. induction v as [|b v IH]; intros i H; simpl in *; [lia|].
  destruct i; simpl; [reflexivity | apply IH; lia].
Qed.

Lemma dot_vset i a acc col :
  (i < length acc)%nat -> dot (vset i a acc) col == dot acc col + (a - vnth acc i) * vnth col i.
Proof.
  revert i col. induction acc as [|b acc IH]; intros i col H; simpl in *; [lia|].
  destruct i as [|i]; destruct col as [|c col]; simpl; try ring.
  rewrite IH by lia. ring.
Qed.

(* the scatter loop, plain branch *)
Lemma scatter_not_basic r ids y acc i :
  is_row_basic ids i = false -> vnth (scatter_rows false r ids y acc) i == vnth acc i.
Proof.
  revert y acc. induction ids as [|[i'|j] ids IH]; intros y acc H; simpl in *.
  - reflexivity.
  - apply orb_false_iff in H as [H1 H2]. rewrite IH by exact H2.
    apply Nat.eqb_neq in H1. rewrite vnth_vset_other by (intro; apply H1; auto). reflexivity.
  - apply IH. exact H.
Qed.

Lemma scatter_length sc r ids y acc : length (scatter_rows sc r ids y acc) = length acc.
Proof.
  revert y acc. induction ids as [|[i|j] ids IH]; intros y acc; simpl; auto.
  rewrite IH. apply vset_length.
Qed.

Lemma scatter_dot r ids y acc col :
  NoDup ids ->
  (forall i, In (BRow i) ids -> (i < length acc)%nat /\ vnth acc i == 0) ->
  dot (scatter_rows false r ids y acc) col == dot acc col + rowsum ids y col.
Proof.
  revert y acc. induction ids as [|[i|j] ids IH]; intros y acc ND H; simpl.
  - ring.
  - inversion ND as [|x l Hnin ND']; subst.
    destruct (H i (or_introl eq_refl)) as [Hi Hz].
    rewrite IH.
    + rewrite dot_vset by exact Hi. rewrite Hz. ring.
    + exact ND'.
    + intros i' Hi'. rewrite vset_length.
      destruct (H i' (or_intror Hi')) as [A Bz]. split; [exact A|].
      rewrite vnth_vset_other; [exact Bz|]. intro E. subst i'. apply Hnin. exact Hi'.
  - inversion ND as [|x l Hnin ND']; subst. apply IH; [exact ND'|].
    intros i Hi. apply H. right. exact Hi.
Qed.

(* getBasisInd in row representation, with the membership information *)
Lemma bind_rowrep_spec m n ids b :
  In b (bind_rowrep m n ids) ->
  ((b < 0)%Z /\ (Z.to_nat (-1 - b) < m)%nat /\ is_row_basic ids (Z.to_nat (-1 - b)) = false) \/
  ((0 <= b)%Z /\ (Z.to_nat b < n)%nat /\ is_col_basic ids (Z.to_nat b) = false).
Proof.
  unfold bind_rowrep. intros H. apply in_app_or in H as [H|H]; apply in_map_iff in H as (t & <- & Ht);
    apply filter_In in Ht as [Ht Hf]; apply in_seq in Ht; apply negb_true_iff in Hf.
  - left. replace (-1 - (-1 - Z.of_nat t))%Z with (Z.of_nat t) by lia. rewrite Nat2Z.id. repeat split; [lia | lia | exact Hf].
  - right. rewrite Nat2Z.id. repeat split; [lia | lia | exact Hf].
Qed.

Lemma NoDup_app_disjoint (A : Type) (l1 l2 : list A) :
  NoDup l1 -> NoDup l2 -> (forall x, In x l1 -> ~ In x l2) -> NoDup (l1 ++ l2).
Proof.
  induction l1 as [|a l1 IH]; intros N1 N2 D; simpl; [exact N2|].
  inversion N1 as [|x l Hn N1']; subst. constructor.
  - intro H. apply in_app_or in H as [H|H]; [exact (Hn H) | exact (D a (or_introl eq_refl) H)].
  - apply IH; [exact N1' | exact N2 | intros x Hx; apply D; right; exact Hx].
Qed.

Lemma bind_rowrep_NoDup m n ids : NoDup (bind_rowrep m n ids).
Proof.
  unfold bind_rowrep. apply NoDup_app_disjoint.
  - apply Injective_map_NoDup; [intros x y E; lia | apply NoDup_filter, seq_NoDup].
  - apply Injective_map_NoDup; [intros x y E; lia | apply NoDup_filter, seq_NoDup].
  - intros x H1 H2. apply in_map_iff in H1 as (t1 & <- & _). apply in_map_iff in H2 as (t2 & E & _). lia.
Qed.

Lemma vnth_unit_eq m k i : (k < m)%nat -> vnth (unit_vec m k) i == (if Nat.eqb i k then 1 else 0).
Proof.
  intros Hk. destruct (Nat.eqb i k) eqn:E.
  - apply Nat.eqb_eq in E. subst. apply vnth_unit_same. exact Hk.
  - apply Nat.eqb_neq in E. apply vnth_unit_other. exact E.
Qed.

(* the result vector of the ROW-representation branch of getBasisInverseRowReal as a function of the solve result y,
   with the unit entry generalised to lam (lam = 1 in the plain branch, 2^-r_i0 before the final row scaling in the
   scaled branch) *)
Definition rowrep_row_coef (r : list Z) (ps : lpmat) (ids : list bid) (bk : Z) (lam : Q) (y : vec) : vec :=
  let z := scatter_rows false r ids y (vzero (lm_rows ps)) in
  if (bk <? 0)%Z then vset (Z.to_nat (-1 - bk)) lam z else z.

Definition rowrep_row_rhs_ok (ps : lpmat) (bk : Z) (lam : Q) (rhs : vec) : Prop :=
  forall j, (j < lm_ncols ps)%nat ->
    vnth rhs j == (if (bk <? 0)%Z then - lam * vnth (nth j (lm_cols ps) []) (Z.to_nat (-1 - bk))
                   else lam * (if Nat.eqb j (Z.to_nat bk) then 1 else 0)).

Section RowRepInverseRowCore.
  Variables (ps : lpmat) (ids : list bid) (r : list Z).
  Let m := lm_rows ps.
  Let n := lm_ncols ps.
  Let bind := bind_rowrep m n ids.
  Let B := basis_matrix ps bind.
  Hypothesis Hids : ids_ok ps ids.

  Lemma zero_acc_ok : forall i, In (BRow i) ids -> (i < length (vzero m))%nat /\ vnth (vzero m) i == 0.
  Proof.
    intros i Hi. rewrite vzero_length. split; [exact (proj2 Hids _ Hi) | apply vnth_vzero].
  Qed.

  (* for every column j that is not in the row basis: <scatter(y), column j> = (M y)_j *)
  Lemma scatter_col y j :
    (j < n)%nat -> is_col_basic ids j = false ->
    dot (scatter_rows false r ids y (vzero m)) (nth j (lm_cols ps) []) == vnth (mulv (rb_matrix ps ids) y) j.
  Proof.
    intros Hj Hc. rewrite scatter_dot; [| exact (proj1 Hids) | exact zero_acc_ok].
    rewrite vnth_rb_matrix by exact Hj. rewrite colsum_not_basic by exact Hc.
    rewrite dot_comm, dot_vzero. ring.
  Qed.

  Lemma rowrep_row_core k lam y rhs :
    (k < length bind)%nat ->
    (forall j, (j < n)%nat -> vnth (mulv (rb_matrix ps ids) y) j == vnth rhs j) ->
    rowrep_row_rhs_ok ps (nth k bind 0%Z) lam rhs ->
    forall t, vnth (vmul (rowrep_row_coef r ps ids (nth k bind 0%Z) lam y) B) t == lam * vnth (unit_vec (length bind) k) t.
  Proof.
    intros Hk Hy Hrhs t. rewrite vnth_vmul.
    destruct (Nat.lt_ge_cases t (length bind)) as [Ht|Ht].
    2:{ unfold B, basis_matrix. rewrite (nth_overflow (map (basis_col ps) bind) []) by (rewrite map_length; exact Ht).
        rewrite dot_nil_r. rewrite vnth_unit_other by lia. ring. }
    rewrite (vnth_unit_eq _ _ t Hk).
    unfold B, basis_matrix. rewrite (nth_indep (map (basis_col ps) bind) [] (basis_col ps 0%Z)) by (rewrite map_length; exact Ht).
    rewrite map_nth.
    set (bt := nth t bind 0%Z). set (bk := nth k bind 0%Z). fold bk in Hrhs.
    assert (Hbt : In bt bind) by (apply nth_In; exact Ht).
    assert (Hbk : In bk bind) by (apply nth_In; exact Hk).
    assert (Heq : bt = bk <-> t = k).
    { split; [|intros ->; reflexivity]. intros E. apply (proj1 (NoDup_nth bind 0%Z) (bind_rowrep_NoDup m n ids)); assumption. }
    unfold rowrep_row_coef. fold m.
    unfold rowrep_row_rhs_ok in Hrhs. fold n in Hrhs.
    apply bind_rowrep_spec in Hbk as [(K1 & K2 & K3)|(K1 & K2 & K3)];
      apply bind_rowrep_spec in Hbt as [(T1 & T2 & T3)|(T1 & T2 & T3)].
    - (* row k is a slack i0, column t is a slack *)
      assert (E1 : (bk <? 0)%Z = true) by (apply Z.ltb_lt; exact K1). rewrite E1.
      unfold basis_col. assert (E2 : (0 <=? bt)%Z = false) by (apply Z.leb_gt; exact T1). rewrite E2. fold m.
      rewrite dot_unit by exact T2.
      destruct (Nat.eqb t k) eqn:Etk.
      + apply Nat.eqb_eq in Etk. apply Heq in Etk. rewrite Etk.
        rewrite vnth_vset_same by (rewrite scatter_length, vzero_length; exact K2). ring.
      + apply Nat.eqb_neq in Etk.
        rewrite vnth_vset_other by (intro E; apply Etk, Heq; lia).
        rewrite scatter_not_basic by exact T3. rewrite vnth_vzero. ring.
    - (* row k is a slack i0, column t is an LP column j *)
      assert (E1 : (bk <? 0)%Z = true) by (apply Z.ltb_lt; exact K1). rewrite E1 in *.
      unfold basis_col. assert (E2 : (0 <=? bt)%Z = true) by (apply Z.leb_le; exact T1). rewrite E2.
      assert (Etk : Nat.eqb t k = false) by (apply Nat.eqb_neq; intro E; apply Heq in E; lia). rewrite Etk.
      rewrite dot_vset by (rewrite scatter_length, vzero_length; exact K2).
      rewrite scatter_not_basic by exact K3. rewrite vnth_vzero.
      rewrite scatter_col by assumption.
      rewrite (Hy _ T2), (Hrhs _ T2). ring.
    - (* row k is an LP column j0, column t is a slack *)
      assert (E1 : (bk <? 0)%Z = false) by (apply Z.ltb_ge; exact K1). rewrite E1.
      unfold basis_col. assert (E2 : (0 <=? bt)%Z = false) by (apply Z.leb_gt; exact T1). rewrite E2. fold m.
      assert (Etk : Nat.eqb t k = false) by (apply Nat.eqb_neq; intro E; apply Heq in E; lia). rewrite Etk.
      rewrite dot_unit by exact T2. rewrite scatter_not_basic by exact T3. rewrite vnth_vzero. ring.
    - (* both LP columns *)
      assert (E1 : (bk <? 0)%Z = false) by (apply Z.ltb_ge; exact K1). rewrite E1 in *.
      unfold basis_col. assert (E2 : (0 <=? bt)%Z = true) by (apply Z.leb_le; exact T1). rewrite E2.
      rewrite scatter_col by assumption.
      rewrite (Hy _ T2), (Hrhs _ T2).
      destruct (Nat.eqb t k) eqn:Etk.
      + apply Nat.eqb_eq in Etk. apply Heq in Etk. rewrite Etk, Nat.eqb_refl. reflexivity.
      + apply Nat.eqb_neq in Etk.
        assert (E3 : Nat.eqb (Z.to_nat bt) (Z.to_nat bk) = false).
        { apply Nat.eqb_neq. intro E. apply Etk, Heq. lia. }
        rewrite E3. reflexivity.
  Qed.
End RowRepInverseRowCore.

(* plain branch *)
Lemma binv_row_rowrep_plain ps ids r c solve k :
  ids_ok ps ids ->
  (forall b, length b = lm_ncols ps -> veq (mulv (rb_matrix ps ids) (solve b)) b) ->
  let bind := bind_rowrep (lm_rows ps) (lm_ncols ps) ids in
  (k < length bind)%nat ->
  veq (vmul (binv_row_rowrep solve false r c ps ids k) (basis_matrix ps bind)) (unit_vec (length bind) k).
Proof.
  intros Hids Hs bind Hk t.
  assert (G : forall y rhs,
             (forall j, (j < lm_ncols ps)%nat -> vnth (mulv (rb_matrix ps ids) y) j == vnth rhs j) ->
             rowrep_row_rhs_ok ps (nth k bind 0%Z) 1 rhs ->
             vnth (vmul (rowrep_row_coef r ps ids (nth k bind 0%Z) 1 y) (basis_matrix ps bind)) t
             == vnth (unit_vec (length bind) k) t).
  { intros y rhs Hy Hr. pose proof (rowrep_row_core ps ids r Hids k 1 y rhs Hk Hy Hr t) as H.
    unfold bind. rewrite H. ring. }
  unfold binv_row_rowrep. fold bind. unfold rowrep_row_coef in G.
  destruct (nth k bind 0%Z <? 0)%Z eqn:E.
  - eapply G.
    + intros j Hj. apply Hs. unfold vscale, lp_row. rewrite !map_length. reflexivity.
    + intros j Hj. rewrite E. rewrite vnth_vscale, vnth_lp_row. ring.
  - eapply G.
    + intros j Hj. apply Hs. apply unit_vec_length.
    + intros j Hj. rewrite E.
      assert (Hin : In (nth k bind 0%Z) bind) by (apply nth_In; exact Hk).
      apply bind_rowrep_spec in Hin as [(K1 & _)|(K1 & K2 & _)]; [apply Z.ltb_ge in E; lia|].
      rewrite (vnth_unit_eq _ _ j K2). ring.
Qed.

(* scaled branch: the loop multiplies every scattered entry by 2^r_i *)
Lemma vset_dscale r i a a' acc acc' :
  a' == a * pow2 (nth i r 0%Z) -> Forall2 Qeq acc (dscale r acc') ->
  Forall2 Qeq (vset i a' acc) (dscale r (vset i a acc')).
Proof.
  intros Ha. revert r i acc Ha. induction acc' as [|b acc' IH]; intros r i acc Ha H.
  - simpl in H. inversion H; subst. destruct i; constructor.
  - simpl in H. inversion H as [|x y l l' Hxy Hl]; subst. destruct i as [|i]; simpl.
    + constructor; [rewrite Ha, nth_hd; reflexivity | exact Hl].
    + constructor; [exact Hxy|]. apply IH; [rewrite nth_tl; exact Ha | exact Hl].
Qed.

Lemma scatter_true_dscale r ids y acc acc' :
  Forall2 Qeq acc (dscale r acc') ->
  Forall2 Qeq (scatter_rows true r ids y acc) (dscale r (scatter_rows false r ids y acc')).
Proof.
  revert y acc acc'. induction ids as [|[i|j] ids IH]; intros y acc acc' H; simpl.
  - exact H.
  - apply IH. apply vset_dscale; [reflexivity | exact H].
  - apply IH. exact H.
Qed.

Lemma vzero_dscale r n : Forall2 Qeq (vzero n) (dscale r (vzero n)).
Proof.
  revert r. induction n as [|n IH]; intros r; simpl; constructor; [ring | apply IH].
Qed.

Lemma nth_dbind r c bind k : (k < length bind)%nat -> nth k (dbind r c bind) 0%Z = bind_exp r c (nth k bind 0%Z).
Proof.
  intros Hk. unfold dbind. rewrite (nth_indep _ 0%Z (bind_exp r c 0%Z)) by (rewrite map_length; exact Hk).
  apply map_nth.
Qed.

Lemma lm_ncols_scale r c p : lm_ncols (scale r c p) = lm_ncols p.
Proof. unfold lm_ncols. simpl. apply scale_cols_length. Qed.

Lemma binv_row_rowrep_unscale p ids r c solve k :
  ids_ok p ids ->
  (forall b, length b = lm_ncols p -> veq (mulv (rb_matrix (scale r c p) ids) (solve b)) b) ->
  let bind := bind_rowrep (lm_rows p) (lm_ncols p) ids in
  (k < length bind)%nat ->
  veq (vmul (binv_row_rowrep solve true r c (scale r c p) ids k) (basis_matrix p bind)) (unit_vec (length bind) k).
Proof.
  intros Hids Hs bind Hk t.
  set (ps := scale r c p).
  assert (Hids' : ids_ok ps ids).
  { destruct Hids as [N R]. split; [exact N|]. intros id Hid. specialize (R id Hid). destruct id; [exact R|].
    unfold ps. rewrite lm_ncols_scale. exact R. }
  assert (En : lm_ncols ps = lm_ncols p) by apply lm_ncols_scale.
  assert (Em : lm_rows ps = lm_rows p) by reflexivity.
  set (bk := nth k bind 0%Z).
  set (lam := pow2 (bind_exp r c bk)).
  (* what the core lemma gives for the stored LP, transferred to the user's matrix *)
  assert (G : forall y rhs,
             (forall j, (j < lm_ncols p)%nat -> vnth (mulv (rb_matrix ps ids) y) j == vnth rhs j) ->
             rowrep_row_rhs_ok ps bk lam rhs ->
             vnth (vmul (dscale r (rowrep_row_coef r ps ids bk lam y)) (basis_matrix p bind)) t
             == vnth (unit_vec (length bind) k) t).
  { intros y rhs Hy Hr.
    pose proof (rowrep_row_core ps ids r Hids' k lam y rhs) as H.
    rewrite En, Em in H. fold bind in H. fold bk in H.
    specialize (H Hk Hy Hr t). unfold ps in H. rewrite vmul_scaled_basis in H. fold ps in H.
    unfold lam in H at 2. unfold bk in H at 2. rewrite <- (nth_dbind r c bind k Hk) in H.
    rewrite (unit_vec_diag (fun s => pow2 (nth s (dbind r c bind) 0%Z)) (length bind) k t) in H.
    apply (Qmult_inj_l _ _ (pow2 (nth t (dbind r c bind) 0%Z))); [apply pow2_nz | exact H]. }
  unfold binv_row_rowrep. fold ps. rewrite En, Em. fold bind. fold bk.
  unfold rowrep_row_coef in G. unfold lam, bind_exp in G.
  destruct (bk <? 0)%Z eqn:E.
  - assert (E' : (0 <=? bk)%Z = false) by (apply Z.leb_gt; apply Z.ltb_lt; exact E). rewrite E' in G.
    set (i0 := Z.to_nat (-1 - bk)) in *.
    set (y := solve _).
    rewrite (vmul_x_ext (basis_matrix p bind) _ (dscale r (vset i0 (pow2 (- nth i0 r 0%Z)) (scatter_rows false r ids y (vzero (lm_rows ps)))))).
    + eapply G.
      * intros j Hj. unfold y. apply Hs. unfold vscale, lp_row. rewrite !map_length. apply scale_cols_length.
      * intros j Hj. rewrite E. rewrite !vnth_vscale, vnth_lp_row. unfold i0. ring.
    + apply vset_dscale; [symmetry; apply pow2_opp_l | apply scatter_true_dscale, vzero_dscale].
  - assert (E' : (0 <=? bk)%Z = true) by (apply Z.leb_le; apply Z.ltb_ge; exact E). rewrite E' in G.
    set (j0 := Z.to_nat bk) in *.
    set (y := solve _).
    rewrite (vmul_x_ext (basis_matrix p bind) _ (dscale r (scatter_rows false r ids y (vzero (lm_rows ps))))).
    + eapply G.
      * intros j Hj. unfold y. apply Hs. unfold vscale. rewrite map_length. apply unit_vec_length.
      * intros j Hj. rewrite E. rewrite vnth_vscale.
        assert (Hin : In bk bind) by (apply nth_In; exact Hk).
        apply bind_rowrep_spec in Hin as [(K1 & _)|(K1 & K2 & _)]; [apply Z.ltb_ge in E; lia|].
        fold j0 in K2. rewrite (vnth_unit_eq _ _ j K2). reflexivity.
    + apply scatter_true_dscale, vzero_dscale.
Qed.

(* ------------------------------------------------------------------------------------------------ *)
(* row representation: the complement identity in the other direction (coSolve: R x = rhs)           *)
(* ------------------------------------------------------------------------------------------------ *)

(* finite sums over an index interval *)
Fixpoint sum_from (s n : nat) (f : nat -> Q) : Q :=
  match n with
  | O => 0
  | S n' => f s + sum_from (S s) n' f
  end.

Lemma sum_from_ext s n f g : (forall j, (s <= j < s + n)%nat -> f j == g j) -> sum_from s n f == sum_from s n g.
Proof.
  revert s. induction n as [|n IH]; intros s H; simpl; [reflexivity|].
  rewrite (H s) by lia. rewrite IH; [reflexivity|]. intros j Hj. apply H. lia.
Qed.

Lemma sum_from_shift s n f : sum_from (S s) n f == sum_from s n (fun j => f (S j)).
Proof. revert s. induction n as [|n IH]; intros s; simpl; [reflexivity | rewrite IH; reflexivity]. Qed.

Lemma sum_from_zero s n f : (forall j, (s <= j < s + n)%nat -> f j == 0) -> sum_from s n f == 0.
Proof.
  revert s. induction n as [|n IH]; intros s H; simpl; [reflexivity|].
  rewrite (H s) by lia. rewrite IH; [ring|]. intros j Hj. apply H. lia.
Qed.

(* a sum with a single non-zero term *)
Lemma sum_from_single s n f i :
  (forall j, j <> i -> (s <= j < s + n)%nat -> f j == 0) ->
  sum_from s n f == (if (Nat.leb s i && Nat.ltb i (s + n))%bool then f i else 0).
Proof.
  revert s. induction n as [|n IH]; intros s H; simpl.
  - replace (Nat.ltb i (s + 0)) with (Nat.ltb i s) by (f_equal; lia).
    destruct (Nat.leb s i) eqn:A; destruct (Nat.ltb i s) eqn:B; simpl; try reflexivity.
    apply Nat.leb_le in A. apply Nat.ltb_lt in B. lia.
  - rewrite IH by (intros j Hj Hr; apply H; [exact Hj | lia]).
    destruct (Nat.eq_dec s i) as [->|Hne].
    + replace (Nat.leb (S i) i) with false by (symmetry; apply Nat.leb_gt; lia). simpl.
      rewrite Nat.leb_refl. replace (Nat.ltb i (i + S n)) with true by (symmetry; apply Nat.ltb_lt; lia). simpl. ring.
    + rewrite (H s Hne) by lia.
      replace (Nat.ltb i (S s + n)) with (Nat.ltb i (s + S n)) by (f_equal; lia).
      destruct (Nat.leb s i) eqn:A; destruct (Nat.leb (S s) i) eqn:B; simpl; try ring.
      * apply Nat.leb_le in A. apply Nat.leb_gt in B. lia.
      * apply Nat.leb_gt in A. apply Nat.leb_le in B. lia.
Qed.

Lemma dot_as_sum u v : dot u v == sum_from 0 (length v) (fun j => vnth u j * vnth v j).
Proof.
  revert u. induction v as [|b v IH]; intros u; simpl.
  - rewrite dot_nil_r. reflexivity.
  - destruct u as [|a u]; simpl.
    + rewrite sum_from_zero; [ring|]. intros j _. rewrite ?vnth_nil. ring.
    + rewrite sum_from_shift. simpl. rewrite <- IH. reflexivity.
Qed.

(* B x for columns and entries given by the same index list *)
Lemma mulv_map_filter (P : nat -> bool) (g : nat -> vec) (f : nat -> Q) s n i :
  vnth (mulv (map g (filter P (seq s n))) (map f (filter P (seq s n)))) i ==
  sum_from s n (fun j => if P j then f j * vnth (g j) i else 0).
Proof.
  unfold mulv. revert s. induction n as [|n IH]; intros s; simpl.
  - reflexivity.
  - destruct (P s); simpl.
    + rewrite vnth_vadd, vnth_vscale, IH. reflexivity.
    + rewrite IH. ring.
Qed.

Lemma mulv_app A1 A2 x1 x2 i :
  length A1 = length x1 -> vnth (mulv (A1 ++ A2) (x1 ++ x2)) i == vnth (mulv A1 x1) i + vnth (mulv A2 x2) i.
Proof.
  unfold mulv. revert x1. induction A1 as [|a A1 IH]; intros x1 H; destruct x1 as [|t x1]; simpl in *; try discriminate.
  - ring.
  - rewrite !vnth_vadd, IH by lia. ring.
Qed.

Lemma is_col_basic_In ids j : is_col_basic ids j = true <-> In (BCol j) ids.
Proof.
  induction ids as [|[i|j'] ids IH]; simpl.
  - split; [discriminate | tauto].
  - rewrite IH. split; [auto | intros [H|H]; [discriminate | exact H]].
  - rewrite orb_true_iff, IH, Nat.eqb_eq. split.
    + intros [H|H]; [left; congruence | right; exact H].
    + intros [H|H]; [left; congruence | right; exact H].
Qed.

Lemma row_pos_spec ids k d : In (BRow k) ids -> (row_pos ids k < length ids)%nat /\ nth (row_pos ids k) ids d = BRow k.
Proof.
  induction ids as [|[i|j] ids IH]; simpl; intros H; [tauto | |].
  - destruct (Nat.eqb i k) eqn:E.
    + apply Nat.eqb_eq in E. subst. split; [lia | reflexivity].
    + destruct H as [H|H]; [apply Nat.eqb_neq in E; congruence|]. destruct (IH H) as [A B]. split; [lia | exact B].
  - destruct H as [H|H]; [discriminate|]. destruct (IH H) as [A B]. split; [lia | exact B].
Qed.

Lemma lp_row_length p i : length (lp_row p i) = lm_ncols p.
Proof. unfold lp_row, lm_ncols. apply map_length. Qed.

Lemma wf_lp_col_short p j i : wf_lp p = true -> (lm_rows p <= i)%nat -> vnth (nth j (lm_cols p) []) i == 0.
Proof.
  unfold wf_lp. intros H Hi. rewrite forallb_forall in H.
  destruct (Nat.lt_ge_cases j (length (lm_cols p))) as [Hj|Hj].
  - specialize (H _ (nth_In _ [] Hj)). cbv beta in H. apply Nat.eqb_eq in H.
    assert (G : forall (col : vec) i', (length col <= i')%nat -> vnth col i' == 0).
    { clear. induction col as [|a col IH]; intros i' Hi'; [rewrite ?vnth_nil; reflexivity|].
      destruct i'; simpl in *; [lia | apply IH; lia]. }
    apply G. apply (Nat.le_trans _ (lm_rows p)); [|exact Hi]. apply Nat.eq_le_incl. exact H.
  - rewrite nth_overflow by exact Hj. rewrite ?vnth_nil. reflexivity.
Qed.

Lemma map_F2_nat (f g : nat -> vec) l : (forall a, Forall2 Qeq (f a) (g a)) -> Forall2 (Forall2 Qeq) (map f l) (map g l).
Proof. intros H. induction l as [|a l IH]; simpl; constructor; [apply H | exact IH]. Qed.

Lemma map_F2q_nat (f g : nat -> Q) l : (forall a, f a == g a) -> Forall2 Qeq (map f l) (map g l).
Proof. intros H. induction l as [|a l IH]; simpl; constructor; [apply H | exact IH]. Qed.

(* the result vector of the coSolve-based ROW-representation branches as a function of the solve result x:
   entry for a basic slack idx: w_idx - <row idx, x>;  for a basic column idx: x_idx *)
Definition rowrep_col_coef (ps : lpmat) (bind : list Z) (w x : vec) : vec :=
  map (fun b => if (b <? 0)%Z then vnth w (Z.to_nat (-1 - b)) - dot (lp_row ps (Z.to_nat (-1 - b))) x
                else vnth x (Z.to_nat b)) bind.

Section RowRepCoSolveCore.
  Variables (ps : lpmat) (ids : list bid).
  Let m := lm_rows ps.
  Let n := lm_ncols ps.
  Let bind := bind_rowrep m n ids.
  Let B := basis_matrix ps bind.
  Hypothesis Hids : ids_ok ps ids.
  Hypothesis Hwf : wf_lp ps = true.
  Variables (x rhs w : vec).
  (* R x = rhs, position by position; the right-hand side vanishes at the positions of the column bounds *)
  Hypothesis Hx : forall t, (t < length ids)%nat -> dot x (rb_vec ps (nth t ids (BCol 0))) == vnth rhs t.
  Hypothesis Hrhs_col : forall t j, (t < length ids)%nat -> nth t ids (BCol 0) = BCol j -> vnth rhs t == 0.

  Lemma x_zero_col_basic j : is_col_basic ids j = true -> vnth x j == 0.
  Proof.
    intros H. apply is_col_basic_In in H. pose proof (proj2 Hids _ H) as Hj. simpl in Hj.
    destruct (In_nth _ _ (BCol 0) H) as (t & Ht & Et).
    pose proof (Hx t Ht) as E. rewrite Et in E. simpl in E. rewrite dot_unit in E by exact Hj.
    rewrite E. apply (Hrhs_col t j Ht Et).
  Qed.

  Lemma rowrep_cosolve_core i :
    vnth (mulv B (rowrep_col_coef ps bind w x)) i ==
    dot x (lp_row ps i) +
    (if (Nat.ltb i m && negb (is_row_basic ids i))%bool then vnth w i - dot (lp_row ps i) x else 0).
  Proof.
    unfold B, basis_matrix, rowrep_col_coef, bind, bind_rowrep. rewrite !map_app, !map_map.
    rewrite mulv_app by (rewrite !map_length; reflexivity).
    (* the slack part *)
    rewrite (mulv_ext _ (map (fun i' => unit_vec m i') (filter (fun i0 => negb (is_row_basic ids i0)) (seq 0 m)))).
    2:{ apply map_F2_nat. intros a.
        unfold basis_col. replace (0 <=? -1 - Z.of_nat a)%Z with false by (symmetry; apply Z.leb_gt; lia).
        replace (-1 - (-1 - Z.of_nat a))%Z with (Z.of_nat a) by lia. rewrite Nat2Z.id. apply F2_refl. }
    rewrite (mulv_x_ext _ _ (map (fun i' => vnth w i' - dot (lp_row ps i') x) (filter (fun i0 => negb (is_row_basic ids i0)) (seq 0 m)))).
    2:{ apply map_F2q_nat. intros a.
        replace (-1 - Z.of_nat a <? 0)%Z with true by (symmetry; apply Z.ltb_lt; lia).
        replace (-1 - (-1 - Z.of_nat a))%Z with (Z.of_nat a) by lia. rewrite Nat2Z.id. reflexivity. }
    rewrite (mulv_map_filter (fun i0 => negb (is_row_basic ids i0)) (fun i' => unit_vec m i')).
    (* the column part *)
    rewrite (mulv_ext _ (map (fun j => nth j (lm_cols ps) []) (filter (fun j0 => negb (is_col_basic ids j0)) (seq 0 n)))).
    2:{ apply map_F2_nat. intros a.
        unfold basis_col. replace (0 <=? Z.of_nat a)%Z with true by (symmetry; apply Z.leb_le; lia). rewrite Nat2Z.id. apply F2_refl. }
    rewrite (mulv_x_ext _ _ (map (fun j => vnth x j) (filter (fun j0 => negb (is_col_basic ids j0)) (seq 0 n)))).
    2:{ apply map_F2q_nat. intros a.
        replace (Z.of_nat a <? 0)%Z with false by (symmetry; apply Z.ltb_ge; lia). rewrite Nat2Z.id. reflexivity. }
    rewrite (mulv_map_filter (fun j0 => negb (is_col_basic ids j0)) (fun j => nth j (lm_cols ps) [])).
    (* evaluate the two sums *)
    rewrite (sum_from_single 0 m _ i).
    2:{ intros j Hj _. destruct (negb (is_row_basic ids j)); [|reflexivity]. rewrite vnth_unit_other by (intro; apply Hj; auto). ring. }
    rewrite (sum_from_ext 0 n _ (fun j => vnth x j * vnth (lp_row ps i) j)).
    2:{ intros j _. rewrite vnth_lp_row. destruct (is_col_basic ids j) eqn:E; simpl; [|reflexivity].
        rewrite (x_zero_col_basic j E). ring. }
    replace (sum_from 0 n (fun j => vnth x j * vnth (lp_row ps i) j))
      with (sum_from 0 (length (lp_row ps i)) (fun j => vnth x j * vnth (lp_row ps i) j)) by (rewrite lp_row_length; reflexivity).
    rewrite <- dot_as_sum.
    rewrite Qplus_comm. apply Qplus_comp; [reflexivity|].
    change (0 + m)%nat with m. change (Nat.leb 0 i) with true. cbn [andb].
    destruct (Nat.ltb i m) eqn:Lt; simpl; [|reflexivity].
    destruct (is_row_basic ids i); simpl; [reflexivity|].
    apply Nat.ltb_lt in Lt. rewrite (vnth_unit_same _ _ Lt). ring.
  Qed.

  (* the value of (B coef)_i: the right-hand side entry for a row of the row basis, w_i for the other rows *)
  Lemma rowrep_cosolve_row_basic i t :
    (t < length ids)%nat -> nth t ids (BCol 0) = BRow i ->
    vnth (mulv B (rowrep_col_coef ps bind w x)) i == vnth rhs t.
  Proof.
    intros Ht Et. rewrite rowrep_cosolve_core.
    assert (Hin : In (BRow i) ids) by (rewrite <- Et; apply nth_In; exact Ht).
    apply is_row_basic_In in Hin. rewrite Hin. rewrite andb_false_r.
    pose proof (Hx t Ht) as E. rewrite Et in E. simpl in E. rewrite E. ring.
  Qed.

  Lemma rowrep_cosolve_not_row_basic i :
    (i < m)%nat -> is_row_basic ids i = false -> vnth (mulv B (rowrep_col_coef ps bind w x)) i == vnth w i.
  Proof.
    intros Hi Hn. rewrite rowrep_cosolve_core. rewrite Hn.
    replace (Nat.ltb i m) with true by (symmetry; apply Nat.ltb_lt; exact Hi). simpl.
    rewrite (dot_comm x). ring.
  Qed.

  Lemma rowrep_cosolve_beyond i :
    (m <= i)%nat -> vnth (mulv B (rowrep_col_coef ps bind w x)) i == 0.
  Proof.
    intros Hi. rewrite rowrep_cosolve_core.
    replace (Nat.ltb i m) with false by (symmetry; apply Nat.ltb_ge; exact Hi). simpl.
    rewrite dot_as_sum, sum_from_zero; [ring|]. intros j _. rewrite vnth_lp_row, (wf_lp_col_short ps j i Hwf Hi). ring.
  Qed.
End RowRepCoSolveCore.

Lemma vnth_beyond (v : vec) i : (length v <= i)%nat -> vnth v i == 0.
Proof.
  revert i. induction v as [|a v IH]; intros i Hi; [rewrite ?vnth_nil; reflexivity|].
  destruct i; simpl in *; [lia | apply IH; lia].
Qed.

Lemma nth_rb_matrix ps ids t : (t < length ids)%nat -> nth t (rb_matrix ps ids) [] = rb_vec ps (nth t ids (BCol 0)).
Proof.
  intros Ht. unfold rb_matrix. rewrite (nth_indep _ [] (rb_vec ps (BCol 0))) by (rewrite map_length; exact Ht).
  apply map_nth.
Qed.

Lemma vnth_map_ids (f : bid -> Q) ids t : (t < length ids)%nat -> vnth (map f ids) t == f (nth t ids (BCol 0)).
Proof.
  revert t. induction ids as [|id ids IH]; intros t Ht; simpl in *; [lia|].
  destruct t; simpl; [reflexivity | apply IH; lia].
Qed.

(* every index i < m is either outside the row basis or sits at a position t of it *)
Lemma row_basic_cases ids i :
  is_row_basic ids i = false \/ exists t, (t < length ids)%nat /\ nth t ids (BCol 0) = BRow i.
Proof.
  destruct (is_row_basic ids i) eqn:E; [right | left; reflexivity].
  apply is_row_basic_In in E. destruct (In_nth _ _ (BCol 0) E) as (t & Ht & Et). exists t. split; assumption.
Qed.

(* assembled answers from a vector x that satisfies the row system position by position *)
Lemma rowrep_col_from_x ps ids x k :
  ids_ok ps ids -> wf_lp ps = true -> length ids = lm_ncols ps -> (k < lm_rows ps)%nat ->
  In (BRow k) ids ->
  (forall t, (t < length ids)%nat ->
     dot x (rb_vec ps (nth t ids (BCol 0))) == vnth (unit_vec (lm_ncols ps) (row_pos ids k)) t) ->
  veq (mulv (basis_matrix ps (bind_rowrep (lm_rows ps) (lm_ncols ps) ids))
            (rowrep_col_coef ps (bind_rowrep (lm_rows ps) (lm_ncols ps) ids) [] x))
      (unit_vec (lm_rows ps) k).
Proof.
  intros Hids Hwf Hlen Hk Ek Hx i.
  destruct (row_pos_spec ids k (BCol 0) Ek) as [Hpos Epos].
  set (index := row_pos ids k) in *.
  assert (Hc : forall t j, (t < length ids)%nat -> nth t ids (BCol 0) = BCol j -> vnth (unit_vec (lm_ncols ps) index) t == 0).
  { intros t j Ht Et. apply vnth_unit_other. intro E. subst t. rewrite Epos in Et. discriminate. }
  destruct (Nat.lt_ge_cases i (lm_rows ps)) as [Hi|Hi].
  - destruct (row_basic_cases ids i) as [Hn|(t & Ht & Et)].
    + rewrite (rowrep_cosolve_not_row_basic ps ids Hids x _ [] Hx Hc i Hi Hn). rewrite vnth_nil.
      symmetry. apply vnth_unit_other. intro E. subst i. apply is_row_basic_In in Ek. congruence.
    + rewrite (rowrep_cosolve_row_basic ps ids Hids x _ [] Hx Hc i t Ht Et).
      destruct (Nat.eq_dec t index) as [->|Hne].
      * rewrite Epos in Et. injection Et as <-.
        rewrite !vnth_unit_same; [reflexivity | exact Hk | rewrite <- Hlen; exact Hpos].
      * rewrite vnth_unit_other by exact Hne. symmetry. apply vnth_unit_other. intro E. subst i.
        apply Hne. apply (proj1 (NoDup_nth ids (BCol 0)) (proj1 Hids)); [exact Ht | exact Hpos | congruence].
  - rewrite (rowrep_cosolve_beyond ps ids Hids Hwf x _ [] Hx Hc i Hi).
    symmetry. apply vnth_unit_other. lia.
Qed.

Lemma rowrep_unit_case ps ids k :
  ids_ok ps ids -> wf_lp ps = true -> (k < lm_rows ps)%nat -> is_row_basic ids k = false ->
  veq (mulv (basis_matrix ps (bind_rowrep (lm_rows ps) (lm_ncols ps) ids))
            (map (fun b => if Z.eqb b (-1 - Z.of_nat k) then 1 else 0) (bind_rowrep (lm_rows ps) (lm_ncols ps) ids)))
      (unit_vec (lm_rows ps) k).
Proof.
  intros Hids Hwf Hk Ek i.
  rewrite (mulv_x_ext _ _ (rowrep_col_coef ps (bind_rowrep (lm_rows ps) (lm_ncols ps) ids) (unit_vec (lm_rows ps) k) [])).
  2:{ unfold rowrep_col_coef. apply map_F2. intros b Hb.
      apply bind_rowrep_spec in Hb as [(K1 & K2 & _)|(K1 & K2 & _)].
      - replace (b <? 0)%Z with true by (symmetry; apply Z.ltb_lt; exact K1).
        rewrite dot_nil_r.
        destruct (Z.eqb b (-1 - Z.of_nat k)) eqn:E.
        + apply Z.eqb_eq in E. replace (Z.to_nat (-1 - b)) with k by lia. rewrite vnth_unit_same by exact Hk. ring.
        + apply Z.eqb_neq in E. rewrite vnth_unit_other by lia. ring.
      - replace (b <? 0)%Z with false by (symmetry; apply Z.ltb_ge; exact K1).
        replace (Z.eqb b (-1 - Z.of_nat k)) with false by (symmetry; apply Z.eqb_neq; lia).
        rewrite vnth_nil. reflexivity. }
  assert (Hx : forall t, (t < length ids)%nat -> dot [] (rb_vec ps (nth t ids (BCol 0))) == vnth [] t).
  { intros t _. rewrite vnth_nil. reflexivity. }
  assert (Hc : forall t j, (t < length ids)%nat -> nth t ids (BCol 0) = BCol j -> vnth [] t == 0).
  { intros t j _ _. rewrite vnth_nil. reflexivity. }
  destruct (Nat.lt_ge_cases i (lm_rows ps)) as [Hi|Hi].
  - destruct (row_basic_cases ids i) as [Hn|(t & Ht & Et)].
    + rewrite (rowrep_cosolve_not_row_basic ps ids Hids [] [] _ Hx Hc i Hi Hn). reflexivity.
    + rewrite (rowrep_cosolve_row_basic ps ids Hids [] [] _ Hx Hc i t Ht Et). rewrite vnth_nil.
      symmetry. apply vnth_unit_other. intro E. subst i.
      assert (Hin : In (BRow k) ids) by (rewrite <- Et; apply nth_In; exact Ht).
      apply is_row_basic_In in Hin. congruence.
  - rewrite (rowrep_cosolve_beyond ps ids Hids Hwf [] [] _ Hx Hc i Hi).
    symmetry. apply vnth_unit_other. lia.
Qed.

Definition row_rhs (v : vec) (ids : list bid) : vec :=
  map (fun id => match id with BRow i0 => vnth v i0 | BCol _ => 0 end) ids.

Lemma rowrep_solve_from_x ps ids y v :
  ids_ok ps ids -> wf_lp ps = true -> length v = lm_rows ps ->
  (forall t, (t < length ids)%nat -> dot y (rb_vec ps (nth t ids (BCol 0))) == vnth (row_rhs v ids) t) ->
  veq (mulv (basis_matrix ps (bind_rowrep (lm_rows ps) (lm_ncols ps) ids))
            (rowrep_col_coef ps (bind_rowrep (lm_rows ps) (lm_ncols ps) ids) v y)) v.
Proof.
  intros Hids Hwf Hv Hx i.
  assert (Hc : forall t j, (t < length ids)%nat -> nth t ids (BCol 0) = BCol j -> vnth (row_rhs v ids) t == 0).
  { intros t j Ht Et. unfold row_rhs. rewrite (vnth_map_ids _ ids t Ht), Et. reflexivity. }
  destruct (Nat.lt_ge_cases i (lm_rows ps)) as [Hi|Hi].
  - destruct (row_basic_cases ids i) as [Hn|(t & Ht & Et)].
    + apply (rowrep_cosolve_not_row_basic ps ids Hids y _ v Hx Hc i Hi Hn).
    + rewrite (rowrep_cosolve_row_basic ps ids Hids y _ v Hx Hc i t Ht Et).
      unfold row_rhs. rewrite (vnth_map_ids _ ids t Ht), Et. reflexivity.
  - rewrite (rowrep_cosolve_beyond ps ids Hids Hwf y _ v Hx Hc i Hi).
    symmetry. apply vnth_beyond. lia.
Qed.

(* getBasisInverseColReal, ROW representation, plain branch *)
Lemma binv_col_rowrep_plain ps ids r c coSolve k :
  ids_ok ps ids -> wf_lp ps = true -> length ids = lm_ncols ps ->
  (forall b, length b = lm_ncols ps -> veq (vmul (coSolve b) (rb_matrix ps ids)) b) ->
  (k < lm_rows ps)%nat ->
  veq (mulv (basis_matrix ps (bind_rowrep (lm_rows ps) (lm_ncols ps) ids)) (binv_col_rowrep coSolve false r c ps ids k))
      (unit_vec (lm_rows ps) k).
Proof.
  intros Hids Hwf Hlen Hs Hk i. unfold binv_col_rowrep.
  destruct (is_row_basic ids k) eqn:Ek; cbn [negb].
  - apply is_row_basic_In in Ek.
    set (x := coSolve (unit_vec (lm_ncols ps) (row_pos ids k))).
    rewrite (mulv_x_ext _ _ (rowrep_col_coef ps (bind_rowrep (lm_rows ps) (lm_ncols ps) ids) [] x)).
    2:{ unfold rowrep_col_coef. apply map_F2. intros b _. destruct (b <? 0)%Z; [rewrite vnth_nil; ring | reflexivity]. }
    apply (rowrep_col_from_x ps ids x k Hids Hwf Hlen Hk Ek).
    intros t Ht. rewrite <- (nth_rb_matrix ps ids t Ht), <- vnth_vmul. apply Hs. apply unit_vec_length.
  - apply (rowrep_unit_case ps ids k Hids Hwf Hk Ek).
Qed.

(* getBasisInverseTimesVecReal, ROW representation, plain branch *)
Lemma binv_times_vec_rowrep_plain ps ids r c coSolve v :
  ids_ok ps ids -> wf_lp ps = true -> length ids = lm_ncols ps ->
  (forall b, length b = lm_ncols ps -> veq (vmul (coSolve b) (rb_matrix ps ids)) b) ->
  length v = lm_rows ps ->
  veq (mulv (basis_matrix ps (bind_rowrep (lm_rows ps) (lm_ncols ps) ids)) (binv_times_vec_rowrep coSolve false r c ps ids v)) v.
Proof.
  intros Hids Hwf Hlen Hs Hv. unfold binv_times_vec_rowrep. cbn iota.
  apply (rowrep_solve_from_x ps ids _ v Hids Hwf Hv).
  intros t Ht. rewrite <- (nth_rb_matrix ps ids t Ht), <- vnth_vmul. apply Hs. unfold row_rhs. rewrite map_length. exact Hlen.
Qed.

(* ------------------------------------------------------------------------------------------------ *)
(* the three repaired ROW-representation branches return the answer for the user's matrix            *)
(* ------------------------------------------------------------------------------------------------ *)

Lemma F2_of_vnth (u v : vec) : length u = length v -> (forall i, vnth u i == vnth v i) -> Forall2 Qeq u v.
Proof.
  revert v. induction u as [|a u IH]; intros [|b v] L H; simpl in L; try discriminate; constructor.
  - exact (H 0%nat).
  - apply IH; [lia | intros i; exact (H (S i))].
Qed.

Lemma vnth_scale_col r cj col i : vnth (scale_col r cj col) i == vnth col i * pow2 (nth i r 0%Z) * pow2 cj.
Proof. rewrite (vnth_F2 _ _ (scale_col_factor r cj col) i), vnth_vscale, vnth_dscale. ring. Qed.

Lemma vnth_lp_row_scale r c p i j :
  vnth (lp_row (scale r c p) i) j == pow2 (nth i r 0%Z) * (vnth (lp_row p i) j * pow2 (nth j c 0%Z)).
Proof.
  rewrite !vnth_lp_row. simpl. rewrite nth_scale_cols, vnth_scale_col. ring.
Qed.

Lemma dot_lp_row_scale r c p i y :
  dot (lp_row (scale r c p) i) y == pow2 (nth i r 0%Z) * dot (lp_row p i) (dscale c y).
Proof.
  rewrite (dot_F2_l _ (vscale (pow2 (nth i r 0%Z)) (dscale c (lp_row p i)))).
  - rewrite dot_vscale_l, (dot_comm (dscale c (lp_row p i)) y), dot_dscale, dot_comm. reflexivity.
  - apply F2_of_vnth.
    + unfold vscale. rewrite map_length, dscale_length, !lp_row_length. apply lm_ncols_scale.
    + intros j. rewrite vnth_lp_row_scale, vnth_vscale, vnth_dscale. reflexivity.
Qed.

Lemma lp_row_unscaled_scale r c p i : Forall2 Qeq (lp_row_unscaled r c (scale r c p) i) (lp_row p i).
Proof.
  apply F2_of_vnth.
  - unfold lp_row_unscaled, vscale. rewrite dscale_length, map_length, !lp_row_length. apply lm_ncols_scale.
  - intros j. unfold lp_row_unscaled. rewrite vnth_dscale, vnth_vscale, vnth_lp_row_scale, nth_zneg.
    setoid_replace (pow2 (- nth i r 0%Z) * (pow2 (nth i r 0%Z) * (vnth (lp_row p i) j * pow2 (nth j c 0%Z))) * pow2 (- nth j c 0%Z))
      with (vnth (lp_row p i) j * (pow2 (nth i r 0%Z) * pow2 (- nth i r 0%Z)) * (pow2 (nth j c 0%Z) * pow2 (- nth j c 0%Z))) by ring.
    rewrite !pow2_opp_r. ring.
Qed.

Lemma ids_ok_scale r c p ids : ids_ok p ids -> ids_ok (scale r c p) ids.
Proof.
  intros [N R]. split; [exact N|]. intros id Hid. specialize (R id Hid). destruct id; [exact R|].
  rewrite lm_ncols_scale. exact R.
Qed.

(* multBasis, as patched *)
Lemma mult_rowrep_fixed_plain r c ps ids x :
  veq (mult_rowrep_fixed false r c ps ids x) (mulv (basis_matrix ps (bind_rowrep (lm_rows ps) (lm_ncols ps) ids)) x).
Proof. intros i. reflexivity. Qed.

Lemma mult_rowrep_fixed_unscale r c p ids x :
  veq (mult_rowrep_fixed true r c (scale r c p) ids x) (mulv (basis_matrix p (bind_rowrep (lm_rows p) (lm_ncols p) ids)) x).
Proof.
  intros i. unfold mult_rowrep_fixed. rewrite lm_ncols_scale. cbn [lm_rows scale].
  apply mulv_ext. unfold basis_matrix.
  induction (bind_rowrep (lm_rows p) (lm_ncols p) ids) as [|b l IH]; simpl; constructor; [|exact IH].
  unfold basis_col. destruct (0 <=? b)%Z.
  - unfold lp_col_unscaled. cbn [lm_cols scale]. rewrite nth_scale_cols. apply col_unscale_scale.
  - apply F2_refl.
Qed.

(* getBasisInverseTimesVecReal, as patched *)
Lemma binv_times_vec_rowrep_fixed_unscale p ids r c coSolve v :
  ids_ok p ids -> wf_lp p = true -> length ids = lm_ncols p ->
  (forall b, length b = lm_ncols p -> veq (vmul (coSolve b) (rb_matrix (scale r c p) ids)) b) ->
  length v = lm_rows p ->
  veq (mulv (basis_matrix p (bind_rowrep (lm_rows p) (lm_ncols p) ids))
            (binv_times_vec_rowrep_fixed coSolve true r c (scale r c p) ids v)) v.
Proof.
  intros Hids Hwf Hlen Hs Hv i. unfold binv_times_vec_rowrep_fixed. rewrite lm_ncols_scale. cbn [lm_rows scale]. cbn iota.
  set (ps := scale r c p).
  set (rowrhs := map (fun id => match id with BRow i0 => vnth v i0 * pow2 (nth i0 r 0%Z) | BCol _ => 0 end) ids).
  set (y' := coSolve rowrhs). set (y := dscale c y').
  assert (Hy' : forall t, (t < length ids)%nat -> dot y' (rb_vec ps (nth t ids (BCol 0))) == vnth rowrhs t).
  { intros t Ht. rewrite <- (nth_rb_matrix ps ids t Ht), <- vnth_vmul. apply Hs. unfold rowrhs. rewrite map_length. exact Hlen. }
  rewrite (mulv_x_ext _ _ (rowrep_col_coef p (bind_rowrep (lm_rows p) (lm_ncols p) ids) v y)).
  2:{ unfold rowrep_col_coef. apply map_F2. intros b _. destruct (b <? 0)%Z.
      - unfold ps. rewrite dot_lp_row_scale. fold y.
        setoid_replace (pow2 (nth (Z.to_nat (-1 - b)) r 0%Z) * dot (lp_row p (Z.to_nat (-1 - b))) y * pow2 (- nth (Z.to_nat (-1 - b)) r 0%Z))
          with (dot (lp_row p (Z.to_nat (-1 - b))) y * (pow2 (nth (Z.to_nat (-1 - b)) r 0%Z) * pow2 (- nth (Z.to_nat (-1 - b)) r 0%Z))) by ring.
        rewrite pow2_opp_r. ring.
      - unfold y. rewrite vnth_dscale. reflexivity. }
  apply (rowrep_solve_from_x p ids y v Hids Hwf Hv).
  intros t Ht. specialize (Hy' t Ht). unfold row_rhs. rewrite (vnth_map_ids _ ids t Ht).
  unfold rowrhs in Hy'. rewrite (vnth_map_ids _ ids t Ht) in Hy'.
  destruct (nth t ids (BCol 0)) as [i0|j] eqn:Et; cbn [rb_vec] in *.
  - unfold ps in Hy'. rewrite dot_comm, dot_lp_row_scale in Hy'. fold y in Hy'.
    rewrite (Qmult_comm (vnth v i0)) in Hy'. rewrite (dot_comm y).
    apply (Qmult_inj_l _ _ (pow2 (nth i0 r 0%Z))); [apply pow2_nz | exact Hy'].
  - assert (Hj : (j < lm_ncols p)%nat).
    { assert (Hin : In (BCol j) ids) by (rewrite <- Et; apply nth_In; exact Ht). exact (proj2 Hids _ Hin). }
    unfold ps in Hy'. rewrite lm_ncols_scale in Hy'. rewrite dot_unit in Hy' by exact Hj.
    rewrite dot_unit by exact Hj. unfold y. rewrite vnth_dscale, Hy'. ring.
Qed.

(* getBasisInverseColReal, as patched *)
Lemma binv_col_rowrep_fixed_unscale p ids r c coSolve k :
  ids_ok p ids -> wf_lp p = true -> length ids = lm_ncols p ->
  (forall b, length b = lm_ncols p -> veq (vmul (coSolve b) (rb_matrix (scale r c p) ids)) b) ->
  (k < lm_rows p)%nat ->
  veq (mulv (basis_matrix p (bind_rowrep (lm_rows p) (lm_ncols p) ids))
            (binv_col_rowrep_fixed coSolve true r c (scale r c p) ids k))
      (unit_vec (lm_rows p) k).
Proof.
  intros Hids Hwf Hlen Hs Hk. unfold binv_col_rowrep_fixed. rewrite lm_ncols_scale. cbn [lm_rows scale].
  destruct (is_row_basic ids k) eqn:Ek; cbn [negb].
  2:{ apply (rowrep_unit_case p ids k Hids Hwf Hk Ek). }
  intros i. apply is_row_basic_In in Ek. destruct (row_pos_spec ids k (BCol 0) Ek) as [Hpos Epos].
  set (ps := scale r c p). set (index := row_pos ids k) in *.
  set (rhs := vscale (pow2 (nth k r 0%Z)) (unit_vec (lm_ncols p) index)).
  set (x' := coSolve rhs). set (x := dscale c x').
  assert (Hx' : forall t, (t < length ids)%nat -> dot x' (rb_vec ps (nth t ids (BCol 0))) == vnth rhs t).
  { intros t Ht. rewrite <- (nth_rb_matrix ps ids t Ht), <- vnth_vmul. apply Hs. unfold rhs, vscale. rewrite map_length. apply unit_vec_length. }
  rewrite (mulv_x_ext _ _ (rowrep_col_coef p (bind_rowrep (lm_rows p) (lm_ncols p) ids) [] x)).
  2:{ unfold rowrep_col_coef. apply map_F2. intros b _. destruct (b <? 0)%Z; [|reflexivity].
      unfold ps. rewrite (dot_F2_l _ _ x (lp_row_unscaled_scale r c p (Z.to_nat (-1 - b)))). rewrite vnth_nil. ring. }
  apply (rowrep_col_from_x p ids x k Hids Hwf Hlen Hk Ek). fold index.
  intros t Ht. specialize (Hx' t Ht). unfold rhs in Hx'. rewrite vnth_vscale in Hx'.
  destruct (nth t ids (BCol 0)) as [i0|j] eqn:Et; cbn [rb_vec] in *.
  - unfold ps in Hx'. rewrite dot_comm, dot_lp_row_scale in Hx'. fold x in Hx'. rewrite (dot_comm x).
    destruct (Nat.eq_dec t index) as [->|Hne].
    + rewrite Epos in Et. injection Et as <-.
      apply (Qmult_inj_l _ _ (pow2 (nth k r 0%Z))); [apply pow2_nz | exact Hx'].
    + rewrite vnth_unit_other in * by exact Hne.
      apply (Qmult_inj_l _ _ (pow2 (nth i0 r 0%Z))); [apply pow2_nz |]. rewrite Hx'. ring.
  - assert (Hj : (j < lm_ncols p)%nat).
    { assert (Hin : In (BCol j) ids) by (rewrite <- Et; apply nth_In; exact Ht). exact (proj2 Hids _ Hin). }
    assert (Hne : t <> index) by (intro E; subst t; rewrite Epos in Et; discriminate).
    unfold ps in Hx'. rewrite lm_ncols_scale in Hx'. rewrite dot_unit in Hx' by exact Hj.
    rewrite dot_unit by exact Hj. rewrite vnth_unit_other in * by exact Hne.
    unfold x. rewrite vnth_dscale, Hx'. ring.
Qed.

(* ------------------------------------------------------------------------------------------------ *)
(* row representation: three branches whose faithful model does NOT return the answer for the user's *)
(* matrix although the inner solve is exact (witnesses evaluated by vm_compute)                      *)
(* ------------------------------------------------------------------------------------------------ *)

(* (a) getBasisInverseColReal, ROW representation, scaled LP, unscale = true.
       LP: one row, one column, a_00 = 1; scale exponents r = [1], c = [0] (stored entry 2); the row is in the row
       basis, i.e. column 0 is basic for the user: B = (1), B^-1 e_0 = (1).  The code returns (1/4). *)
Definition wa_p : lpmat := mkLPM 1 [[1]].
Definition wa_r : list Z := [1%Z].
Definition wa_c : list Z := [0%Z].
Definition wa_ids : list bid := [BRow 0].
Definition wa_coSolve (b : vec) : vec := [vnth b 0 * (1 # 2)].

Lemma wa_oracle_exact :
  forall b, length b = lm_ncols wa_p -> veq (vmul (wa_coSolve b) (rb_matrix (scale wa_r wa_c wa_p) wa_ids)) b.
Proof.
  intros [|b0 [|b1 b]] Hb; try discriminate Hb. intros [|i].
  - unfold wa_coSolve, vmul, rb_matrix, rb_vec, lp_row, scale, wa_p, wa_r, wa_c, wa_ids. cbn [map lm_cols lm_rows scale_cols scale_col hd tl vnth dot].
    change (pow2 (1 + 0)) with (2 # 1). ring.
  - reflexivity.
Qed.

Lemma binv_col_rowrep_scaled_wrong :
  ~ veq (mulv (basis_matrix wa_p (bind_rowrep 1 1 wa_ids))
              (binv_col_rowrep wa_coSolve true wa_r wa_c (scale wa_r wa_c wa_p) wa_ids 0))
        (unit_vec 1 0).
Proof. intro H. specialize (H 0%nat). vm_compute in H. discriminate H. Qed.

(* (b) getBasisInverseTimesVecReal, ROW representation, scaled LP, unscale = true.
       Same LP and exponents, but the column is in the row basis (non-basic for the user), so B = (e_0) = (1) and
       B^-1 v = v.  The code returns v * 2^-r_0. *)
Definition wb_ids : list bid := [BCol 0].
Definition wb_coSolve (b : vec) : vec := [vnth b 0].

Lemma wb_oracle_exact :
  forall b, length b = lm_ncols wa_p -> veq (vmul (wb_coSolve b) (rb_matrix (scale wa_r wa_c wa_p) wb_ids)) b.
Proof.
  intros [|b0 [|b1 b]] Hb; try discriminate Hb. intros [|i].
  - unfold wb_coSolve, vmul, rb_matrix, rb_vec, wb_ids. cbn. ring.
  - reflexivity.
Qed.

Lemma binv_times_vec_rowrep_scaled_wrong :
  ~ veq (mulv (basis_matrix wa_p (bind_rowrep 1 1 wb_ids))
              (binv_times_vec_rowrep wb_coSolve true wa_r wa_c (scale wa_r wa_c wa_p) wb_ids [1]))
        [1].
Proof. intro H. specialize (H 0%nat). vm_compute in H. discriminate H. Qed.

(* (c) multBasis, ROW representation (no scaling involved): two rows, one column, the column in the row basis, so
       both slacks are basic for the user, B = I and B (1,1) = (1,1).  The code returns (0,1). *)
Definition wc_p : lpmat := mkLPM 2 [[1; 1]].
Definition wc_ids : list bid := [BCol 0].

Lemma mult_rowrep_wrong :
  ~ veq (mult_rowrep wc_p wc_ids [1; 1]) (mulv (basis_matrix wc_p (bind_rowrep 2 1 wc_ids)) [1; 1]).
Proof. intro H. specialize (H 0%nat). vm_compute in H. discriminate H. Qed.

(* ------------------------------------------------------------------------------------------------ *)
(* a non-trivial instance of the hypotheses of Section ColumnRep                                     *)
(* ------------------------------------------------------------------------------------------------ *)

(* LP matrix (rows x columns) [[2,1,4],[1,3,-8]], exponents r = [1,-2], c = [-1,0,3]; basis = (slack of row 0, column 1) *)
Definition ex_p : lpmat := mkLPM 2 [[2; 1]; [1; 3]; [4; -8]].
Definition ex_r : list Z := [1%Z; (-2)%Z].
Definition ex_c : list Z := [(-1)%Z; 0%Z; 3%Z].
Definition ex_bind : list Z := [(-1)%Z; 1%Z].
(* the stored basis is [[1,0],[2,3/4]] (columns); its inverse has the columns [1,0] and [-8/3,4/3] *)
Definition ex_inv : mat := [[1; 0]; [-(8 # 3); 4 # 3]].
Definition ex_solve (b : vec) : vec := mulv ex_inv b.
Definition ex_coSolve (b : vec) : vec := vmul b ex_inv.

Lemma ex_solve_exact :
  forall b, length b = lm_rows ex_p -> veq (mulv (basis_matrix (scale ex_r ex_c ex_p) ex_bind) (ex_solve b)) b.
Proof.
  intros [|b0 [|b1 [|b2 b]]] Hb; try discriminate Hb.
  set (Bs := basis_matrix _ _). vm_compute in Bs. subst Bs. unfold ex_solve, ex_inv, mulv.
  intros [|[|i]]; cbn [tmat_vec vadd vscale map vnth]; try ring; destruct i; reflexivity.
Qed.

Lemma ex_coSolve_exact :
  forall b, length b = lm_rows ex_p -> veq (vmul (ex_coSolve b) (basis_matrix (scale ex_r ex_c ex_p) ex_bind)) b.
Proof.
  intros [|b0 [|b1 [|b2 b]]] Hb; try discriminate Hb.
  set (Bs := basis_matrix _ _). vm_compute in Bs. subst Bs. unfold ex_coSolve, ex_inv, vmul.
  intros [|[|i]]; cbn [map dot vnth]; try ring; destruct i; reflexivity.
Qed.

(* row basis of ex_p = [[2,1,4],[1,3,-8]]: the bounds of columns 0 and 2 and row 1; the user's basis is (slack 0, column 1) *)
Definition exr_ids : list bid := [BCol 0; BCol 2; BRow 1].
Definition exr_inv : mat := [[1; 0; 0]; [-(1 # 3); 8 # 3; 1 # 3]; [0; 1; 0]].
Definition exr_solve (b : vec) : vec := mulv exr_inv b.

Lemma exr_ids_ok : ids_ok ex_p exr_ids.
Proof.
  split.
  - repeat constructor; simpl; intuition discriminate.
  - intros id [H|[H|[H|[]]]]; subst; vm_compute; repeat constructor.
Qed.

Lemma exr_solve_exact : forall b, length b = lm_ncols ex_p -> veq (mulv (rb_matrix ex_p exr_ids) (exr_solve b)) b.
Proof.
  intros [|b0 [|b1 [|b2 [|b3 b]]]] Hb; try discriminate Hb.
  set (M := rb_matrix _ _). vm_compute in M. subst M. unfold exr_solve, exr_inv, mulv.
  intros [|[|[|i]]]; cbn [tmat_vec vadd vscale map vnth]; try ring; destruct i; reflexivity.
Qed.
