(* C06 - executable model of the REAL modification interface of SoPlexBase<double>.

   The LP is stored as the implementation stores it (SPxLPBase = LPRowSetBase + LPColSetBase): a row file and a
   column file of sparse vectors that mirror each other, the vectors of left/right-hand sides, the objective
   *as stored* (maxObj: negated when the LP's sense is MINIMIZE), lower/upper bounds and the sense of the LP.
   Every modifier follows the algorithm of the code (soplex.hpp <op>Real/_<op>Real, spxlpbase.h doAddRow, doAddCol,
   doRemoveRow, doRemoveRows, changeRow, changeCol, changeElement, changeSense, clear; classset.h remove(perm)).
   Element order inside a sparse vector is not an observable: the model conses where the code appends.
   Numbers are the exact doubles of Dbl.v; the model only copies, negates and compares them.
   No proofs in this file. *)
From Coq Require Import ZArith List Bool Arith.
From SV Require Import Dbl.
Import ListNotations.
Local Open Scope nat_scope.

(* ---------- numbers ---------- *)
Definition dzero : dbl := DFin 0 0.
(* C++  v != 0.0  *)
Definition dnz (v : dbl) : bool := match v with DFin Z0 _ => false | _ => true end.
(* C++  v * -1  (the sign of a zero is not an observable: zeros print as 0:0) *)
Definition dneg (v : dbl) : dbl :=
  match v with DNaN => DNaN | DPInf => DNInf | DNInf => DPInf | DFin m e => DFin (- m) e end.
Definition dabs (v : dbl) : dbl :=
  match v with DNInf => DPInf | DFin m e => DFin (Z.abs m) e | _ => v end.
(* isNotZero(v, eps) = spxAbs(v) > eps *)
Definition notzero (eps v : dbl) : bool := dlt eps (dabs v).
(* EPSILON_ZERO is a parameter with range [0,1] *)
Definition eps_ok (eps : dbl) : bool :=
  match eps with DFin m _ => (0 <=? m)%Z | DPInf => true | _ => false end.

(* ---------- lists ---------- *)
Fixpoint upd {A} (k : nat) (f : A -> A) (l : list A) : list A :=
  match l, k with
  | [], _ => []
  | x :: t, O => f x :: t
  | x :: t, S k' => x :: upd k' f t
  end.
Definition setn {A} (k : nat) (x : A) (l : list A) : list A := upd k (fun _ => x) l.

(* DataSet::remove(int): the last element moves into the hole *)
Definition move_last {A} (d : A) (k : nat) (l : list A) : list A :=
  let n := length l - 1 in
  if k =? n then firstn n l else setn k (nth n l d) (firstn n l).

(* ClassSet::remove(int perm[]), first loop: survivors are numbered consecutively, negative marks stay *)
Fixpoint newperm (perm : list Z) (j : Z) : list Z :=
  match perm with
  | [] => []
  | p :: t => if (0 <=? p)%Z then j :: newperm t (j + 1)%Z else p :: newperm t j
  end.
(* ... second loop / LPRowSetBase::remove(perm): stable compaction *)
Fixpoint keep {A} (perm : list Z) (l : list A) : list A :=
  match perm, l with
  | p :: t, x :: r => if (0 <=? p)%Z then x :: keep t r else keep t r
  | _, _ => []
  end.

(* SoPlexBase::_idxToPerm / _rangeToPerm *)
Definition idx_to_perm (n : nat) (idx : list nat) : list Z :=
  fold_left (fun p i => setn i (-1)%Z p) idx (map Z.of_nat (seq 0 n)).
Definition range_to_perm (n a b : nat) : list Z :=
  map (fun i => if (i <? a) || (b <? i) then Z.of_nat i else (-1)%Z) (seq 0 n).

(* ---------- sparse vectors ---------- *)
Definition svec := list (nat * dbl).
Definition shas (i : nat) (v : svec) : bool := existsb (fun p => fst p =? i) v.
Definition sfind (i : nat) (v : svec) : option dbl :=
  match find (fun p => fst p =? i) v with Some p => Some (snd p) | None => None end.
Definition sget (i : nat) (v : svec) : dbl := match sfind i v with Some x => x | None => dzero end.
Definition sdel (i : nat) (v : svec) : svec := filter (fun p => negb (fst p =? i)) v.
Definition sren (a b : nat) (v : svec) : svec := map (fun p => if fst p =? a then (b, snd p) else p) v.
Definition sset (i : nat) (x : dbl) (v : svec) : svec := map (fun p => if fst p =? i then (i, x) else p) v.
(* SVectorBase::operator= and SVectorBase::add drop exact zeros *)
Definition sclean (v : svec) : svec := filter (fun p => dnz (snd p)) v.
Definition maxidx1 (v : svec) : nat := fold_right (fun p a => Nat.max (S (fst p)) a) 0 v.
(* doRemoveRows / doRemoveCols: drop the removed indices, renumber the survivors *)
Definition sreindex (np : list Z) (v : svec) : svec :=
  flat_map (fun p => let q := nth (fst p) np (-1)%Z in
                     if (0 <=? q)%Z then [(Z.to_nat q, snd p)] else []) v.

(* ---------- a mirrored pair of files: P is the file whose vectors are added / removed / replaced, Sf the other ---------- *)
Definition file := list svec.

(* enter the nonzeros of vector number k of P into Sf (doAddRow / doAddCol / changeRow / changeCol: add2 per nonzero) *)
Definition scatter (k : nat) (v : svec) (Sf : file) : file :=
  fold_left (fun Sf p => upd (fst p) (cons (k, snd p)) Sf) v Sf.
(* delete index k from the Sf-vectors listed in v (doRemoveRow/changeRow first loop) *)
Definition unlink (k : nat) (v : svec) (Sf : file) : file :=
  fold_left (fun Sf p => upd (fst p) (sdel k) Sf) v Sf.
(* rename index a to b in the Sf-vectors listed in v (doRemoveRow second loop) *)
Definition relink (a b : nat) (v : svec) (Sf : file) : file :=
  fold_left (fun Sf p => upd (fst p) (sren a b) Sf) v Sf.

(* doAddRow/doAddCol: append the (zero-free copy of the) vector, create missing Sf-vectors, scatter.
   Returns the number g of implicitly created Sf-vectors. *)
Definition add_vec (P Sf : file) (v : svec) : file * file * nat :=
  let k := length P in
  let v' := sclean v in
  let g := maxidx1 v' - length Sf in
  (P ++ [v'], scatter k v' (Sf ++ repeat [] g), g).

(* doRemoveRow/doRemoveCol *)
Definition remove1 (P Sf : file) (k : nat) : file * file :=
  let last := length P - 1 in
  let S1 := unlink k (nth k P []) Sf in
  let S2 := if k =? last then S1 else relink last k (nth last P []) S1 in
  (move_last [] k P, S2).

(* doRemoveRows/doRemoveCols *)
Definition remove_perm (P Sf : file) (perm : list Z) : file * file * list Z :=
  let np := newperm perm 0 in
  (keep perm P, map (sreindex np) Sf, np).

(* changeRow/changeCol: empty vector k and unlink it, then enter the new nonzeros one by one *)
Definition fill (k : nat) (v : svec) (PS : file * file) : file * file :=
  fold_left (fun PS p => (upd k (cons p) (fst PS), upd (fst p) (cons (k, snd p)) (snd PS))) v PS.
Definition replace_vec (P Sf : file) (k : nat) (v : svec) : file * file :=
  fill k (sclean v) (setn k [] P, unlink k (nth k P []) Sf).

(* changeElement *)
Definition set_entry (eps : dbl) (P Sf : file) (k i : nat) (x : dbl) : file * file :=
  let present := shas i (nth k P []) && shas k (nth i Sf []) in
  if notzero eps x then
    if present then (upd k (sset i x) P, upd i (sset k x) Sf)
    else (upd k (cons (i, x)) P, upd i (cons (k, x)) Sf)
  else if present then (upd k (sdel i) P, upd i (sdel k) Sf)
  else (P, Sf).

(* ---------- the LP ---------- *)
Record lp := mkLP {
  lhs : list dbl; rhs : list dbl; rf : file;
  obj : list dbl;            (* as stored: maxObj *)
  lo : list dbl; up : list dbl; cf : file;
  lmax : bool                (* thesense = MAXIMIZE *)
}.

Definition empty_lp (mx : bool) : lp := mkLP [] [] [] [] [] [] [] mx.
Definition nrows (l : lp) : nat := length (rf l).
Definition ncols (l : lp) : nat := length (cf l).
Definition nnz (l : lp) : nat := fold_right (fun v a => length v + a) 0 (rf l).
(* objective as the user gave it / as objReal reports it *)
Definition sgn (mx : bool) (v : dbl) : dbl := if mx then v else dneg v.
Definition uobj (l : lp) : list dbl := map (sgn (lmax l)) (obj l).

Definition rowspec := (dbl * dbl * svec)%type.        (* lhs, rhs, row vector *)
Definition colspec := (dbl * dbl * dbl * svec)%type.  (* obj, lower, upper, column vector *)

(* default LPColBase: obj 0, bounds [0, +inf); default LPRowBase: 0 <= . <= +inf *)
Definition add_row (inf : dbl) (r : rowspec) (l : lp) : lp :=
  let '(a, b, v) := r in
  let '(P, Sf, g) := add_vec (rf l) (cf l) v in
  mkLP (lhs l ++ [a]) (rhs l ++ [b]) P
       (obj l ++ repeat dzero g) (lo l ++ repeat dzero g) (up l ++ repeat inf g) Sf (lmax l).

Definition add_col (inf : dbl) (c : colspec) (l : lp) : lp :=
  let '(o, a, b, v) := c in
  let '(P, Sf, g) := add_vec (cf l) (rf l) v in
  mkLP (lhs l ++ repeat dzero g) (rhs l ++ repeat inf g) Sf
       (obj l ++ [sgn (lmax l) o]) (lo l ++ [a]) (up l ++ [b]) P (lmax l).

Definition change_row (i : nat) (r : rowspec) (l : lp) : lp :=
  let '(a, b, v) := r in
  let '(P, Sf) := replace_vec (rf l) (cf l) i v in
  mkLP (setn i a (lhs l)) (setn i b (rhs l)) P (obj l) (lo l) (up l) Sf (lmax l).

Definition change_col (j : nat) (c : colspec) (l : lp) : lp :=
  let '(o, a, b, v) := c in
  let '(P, Sf) := replace_vec (cf l) (rf l) j v in
  mkLP (lhs l) (rhs l) Sf (setn j (sgn (lmax l) o) (obj l)) (setn j a (lo l)) (setn j b (up l)) P (lmax l).

Definition change_elem (eps : dbl) (i j : nat) (x : dbl) (l : lp) : lp :=
  let '(P, Sf) := set_entry eps (rf l) (cf l) i j x in
  mkLP (lhs l) (rhs l) P (obj l) (lo l) (up l) Sf (lmax l).

Definition remove_row (i : nat) (l : lp) : lp :=
  if i <? nrows l then
    let '(P, Sf) := remove1 (rf l) (cf l) i in
    mkLP (move_last dzero i (lhs l)) (move_last dzero i (rhs l)) P (obj l) (lo l) (up l) Sf (lmax l)
  else l.

Definition remove_col (j : nat) (l : lp) : lp :=
  if j <? ncols l then
    let '(P, Sf) := remove1 (cf l) (rf l) j in
    mkLP (lhs l) (rhs l) Sf (move_last dzero j (obj l)) (move_last dzero j (lo l)) (move_last dzero j (up l)) P (lmax l)
  else l.

Definition remove_rows (perm : list Z) (l : lp) : lp * list Z :=
  let '(P, Sf, np) := remove_perm (rf l) (cf l) perm in
  (mkLP (keep perm (lhs l)) (keep perm (rhs l)) P (obj l) (lo l) (up l) Sf (lmax l), np).

Definition remove_cols (perm : list Z) (l : lp) : lp * list Z :=
  let '(P, Sf, np) := remove_perm (cf l) (rf l) perm in
  (mkLP (lhs l) (rhs l) Sf (keep perm (obj l)) (keep perm (lo l)) (keep perm (up l)) P (lmax l), np).

Definition with_lhs (x : list dbl) (l : lp) := mkLP x (rhs l) (rf l) (obj l) (lo l) (up l) (cf l) (lmax l).
Definition with_rhs (x : list dbl) (l : lp) := mkLP (lhs l) x (rf l) (obj l) (lo l) (up l) (cf l) (lmax l).
Definition with_obj (x : list dbl) (l : lp) := mkLP (lhs l) (rhs l) (rf l) x (lo l) (up l) (cf l) (lmax l).
Definition with_lo (x : list dbl) (l : lp) := mkLP (lhs l) (rhs l) (rf l) (obj l) x (up l) (cf l) (lmax l).
Definition with_up (x : list dbl) (l : lp) := mkLP (lhs l) (rhs l) (rf l) (obj l) (lo l) x (cf l) (lmax l).

(* SPxLPBase::changeSense: negate the stored objective when the sense really changes *)
Definition change_sense (mx : bool) (l : lp) : lp :=
  mkLP (lhs l) (rhs l) (rf l) (if Bool.eqb mx (lmax l) then obj l else map dneg (obj l)) (lo l) (up l) (cf l) mx.

(* ---------- the solver object as far as C06 observes it ---------- *)
Record state := mkSt {
  L : lp;
  pmax : bool;      (* parameter OBJSENSE = MAXIMIZE *)
  eps : dbl;        (* EPSILON_ZERO *)
  inf : dbl;        (* soplex::infinity *)
  hasSol : bool;    (* hasSol() = hasPrimal() = hasDual() *)
  stat : Z          (* status(); UNKNOWN = 0 *)
}.

Inductive op :=
| AddRow (r : rowspec) | AddRows (rs : list rowspec) | AddCol (c : colspec) | AddCols (cs : list colspec)
| ChgRow (i : nat) (r : rowspec) | ChgCol (j : nat) (c : colspec)
| ChgLhs (i : nat) (v : dbl) | ChgLhsV (vs : list dbl)
| ChgRhs (i : nat) (v : dbl) | ChgRhsV (vs : list dbl)
| ChgRange (i : nat) (a b : dbl) | ChgRangeV (ls rs : list dbl)
| ChgLo (j : nat) (v : dbl) | ChgLoV (vs : list dbl)
| ChgUp (j : nat) (v : dbl) | ChgUpV (vs : list dbl)
| ChgBnd (j : nat) (a b : dbl) | ChgBndV (ls us : list dbl)
| ChgObj (j : nat) (v : dbl) | ChgObjV (vs : list dbl)
| ChgElem (i j : nat) (v : dbl)
| RemRow (i : nat) | RemRowsPerm (perm : list Z) | RemRowsIdx (idx : list nat) | RemRowRange (a b : nat)
| RemCol (j : nat) | RemColsPerm (perm : list Z) | RemColsIdx (idx : list nat) | RemColRange (a b : nat)
| ClearLP
| SetSense (mx : bool)
(* not modifications; the solver's answer enters as an oracle *)
| Optimize (st : Z) (hs : bool) | GetBasis | SetBasis | ClearBasis (st : Z).

(* the new LP and the perm array handed back to the caller (empty when the call has none) *)
Definition apply (s : state) (o : op) : lp * list Z :=
  let l := L s in
  match o with
  | AddRow r => (add_row (inf s) r l, [])
  | AddRows rs => (fold_left (fun l r => add_row (inf s) r l) rs l, [])
  | AddCol c => (add_col (inf s) c l, [])
  | AddCols cs => (fold_left (fun l c => add_col (inf s) c l) cs l, [])
  | ChgRow i r => (change_row i r l, [])
  | ChgCol j c => (change_col j c l, [])
  | ChgLhs i v => (with_lhs (setn i v (lhs l)) l, [])
  | ChgLhsV vs => (with_lhs vs l, [])
  | ChgRhs i v => (with_rhs (setn i v (rhs l)) l, [])
  | ChgRhsV vs => (with_rhs vs l, [])
  | ChgRange i a b => (with_rhs (setn i b (rhs l)) (with_lhs (setn i a (lhs l)) l), [])
  | ChgRangeV ls rs => (with_rhs rs (with_lhs ls l), [])
  | ChgLo j v => (with_lo (setn j v (lo l)) l, [])
  | ChgLoV vs => (with_lo vs l, [])
  | ChgUp j v => (with_up (setn j v (up l)) l, [])
  | ChgUpV vs => (with_up vs l, [])
  | ChgBnd j a b => (with_up (setn j b (up l)) (with_lo (setn j a (lo l)) l), [])
  | ChgBndV ls us => (with_up us (with_lo ls l), [])
  | ChgObj j v => (with_obj (setn j (sgn (lmax l) v) (obj l)) l, [])
  | ChgObjV vs => (with_obj (map (sgn (lmax l)) vs) l, [])
  | ChgElem i j v => (change_elem (eps s) i j v l, [])
  | RemRow i => (remove_row i l, [])
  | RemRowsPerm perm => remove_rows perm l
  | RemRowsIdx idx => remove_rows (idx_to_perm (nrows l) idx) l
  | RemRowRange a b => remove_rows (range_to_perm (nrows l) a b) l
  | RemCol j => (remove_col j l, [])
  | RemColsPerm perm => remove_cols perm l
  | RemColsIdx idx => remove_cols (idx_to_perm (ncols l) idx) l
  | RemColRange a b => remove_cols (range_to_perm (ncols l) a b) l
  | ClearLP => (empty_lp (pmax s), [])
  | SetSense mx => (change_sense mx l, [])
  | Optimize _ _ | GetBasis | SetBasis | ClearBasis _ => (l, [])
  end.

(* does the call go through _invalidateSolution?  (setIntParam(OBJSENSE, v) with its default argument init = true
   re-applies the value even when it does not change) *)
Definition modifies (o : op) : bool :=
  match o with
  | Optimize _ _ | GetBasis | SetBasis | ClearBasis _ => false
  | _ => true
  end.

Definition step (s : state) (o : op) : state * list Z :=
  match o with
  | Optimize st hs => (mkSt (L s) (pmax s) (eps s) (inf s) hs st, [])
  | ClearBasis st => (mkSt (L s) (pmax s) (eps s) (inf s) (hasSol s) st, [])
  | GetBasis | SetBasis => (s, [])
  | SetSense mx => (mkSt (change_sense mx (L s)) mx (eps s) (inf s) false 0%Z, [])
  | _ => let '(l, p) := apply s o in (mkSt l (pmax s) (eps s) (inf s) false 0%Z, p)
  end.

Definition run (s : state) (ops : list op) : state := fold_left (fun s o => fst (step s o)) ops s.

(* a new object after setIntParam(OBJSENSE, mx) *)
Definition init (mx : bool) (eps inf : dbl) : state := mkSt (empty_lp mx) mx eps inf false 0%Z.

(* clearLPReal as it is coded: SPxLPBase::clear() resets the sense of the LP to MAXIMIZE and nothing re-applies the
   OBJSENSE parameter, so the LP is optimised as a maximisation until the next setIntParam(OBJSENSE).  [step] above
   specifies the intended behaviour (the sense of the LP is the parameter); the difference is a reported defect. *)
Definition clear_as_coded (s : state) : state := mkSt (empty_lp true) (pmax s) (eps s) (inf s) false 0%Z.

(* ---------- which calls are inside the documented domain (everything else is undefined behaviour in the code) ---------- *)
Fixpoint nodupb (l : list nat) : bool :=
  match l with [] => true | x :: t => negb (existsb (Nat.eqb x) t) && nodupb t end.
Definition vec_ok (bound : option nat) (v : svec) : bool :=
  nodupb (map fst v) &&
  match bound with Some n => forallb (fun p => fst p <? n) v | None => true end.

Definition valid_op (m n : nat) (o : op) : bool :=
  match o with
  | AddRow (_, _, v) => vec_ok None v
  | AddRows rs => forallb (fun r => vec_ok None (snd r)) rs
  | AddCol (_, _, _, v) => vec_ok None v
  | AddCols cs => forallb (fun c => vec_ok None (snd c)) cs
  | ChgRow i (_, _, v) => (i <? m) && vec_ok (Some n) v
  | ChgCol j (_, _, _, v) => (j <? n) && vec_ok (Some m) v
  | ChgLhs i _ | ChgRhs i _ | ChgRange i _ _ | RemRow i => i <? m
  | ChgLhsV vs | ChgRhsV vs => length vs =? m
  | ChgRangeV ls rs => (length ls =? m) && (length rs =? m)
  | ChgLo j _ | ChgUp j _ | ChgBnd j _ _ | ChgObj j _ | RemCol j => j <? n
  | ChgLoV vs | ChgUpV vs | ChgObjV vs => length vs =? n
  | ChgBndV ls us => (length ls =? n) && (length us =? n)
  | ChgElem i j _ => (i <? m) && (j <? n)
  | RemRowsPerm perm => length perm =? m
  | RemColsPerm perm => length perm =? n
  | RemRowsIdx idx => forallb (fun i => i <? m) idx
  | RemColsIdx idx => forallb (fun j => j <? n) idx
  | RemRowRange _ _ | RemColRange _ _ | ClearLP | SetSense _
  | Optimize _ _ | GetBasis | SetBasis | ClearBasis _ => true
  end.
