(* C05 - model of the basis-inverse / basis-multiply queries of SoPlexBase<R> (src/soplex.hpp:
   getBasisInd, getBasisInverseRowReal, getBasisInverseColReal, getBasisInverseTimesVecReal, multBasis,
   multBasisTranspose).

   What is modelled
     - the USER's basis matrix: column k is LP column bind_k (bind_k >= 0) or the unit vector of row -1-bind_k
       (bind_k < 0), exactly the encoding getBasisInd returns;
     - power-of-two scaling of an LP matrix with row exponents r and column exponents c (a'_ij = a_ij * 2^(r_i+c_j));
     - the scaling GLUE of the five queries, i.e. the multiplications by powers of two that the code performs
       before and after the linear solve, for the COLUMN representation and for the ROW representation, each in
       the plain branch and in the "unscale && isScaled()" branch.  The statements of the code are mirrored one
       by one, including the ones that are wrong (see Properties_C05.v, the _refuted theorems);
     - getBasisInd for both representations as a function of the solver's basis order.
   What is NOT modelled: the LU factorisation and its solves.  They enter as ORACLES: functions [vec -> vec]
   (Section variables) that solve with the matrix stored in the solver -- the scaled basis in column
   representation (solve: B' x = b, coSolve: x^T B' = b^T), the n x n row basis in row representation.
   Numbers are exact rationals; "isNotZero(x, epsilon)" tests of the code are modelled as "x is not 0".

   Vectors are lists padded with zeros (Vec.v): all operations are total, equality is extensional ([veq]).
   Matrices are lists of COLUMNS:  B x = Vec.tmat_vec B x,   x^T B = map (dot x) B.
   No proofs in this file. *)
From Coq Require Import QArith Qabs List ZArith Bool Arith.
From SV Require Import Vec.
Import ListNotations.
Local Open Scope Q_scope.

Definition vec := list Q.
Definition mat := list vec.          (* list of COLUMNS *)

Definition pow2 (k : Z) : Q := Qpower (2 # 1) k.

Definition veq (u v : vec) : Prop := forall i : nat, vnth u i == vnth v i.

Definition vzero (n : nat) : vec := repeat 0 n.

Fixpoint unit_vec (m k : nat) : vec :=
  match m with
  | O => []
  | S m' => match k with
            | O => 1 :: vzero m'
            | S k' => 0 :: unit_vec m' k'
            end
  end.

(* B x  and  x^T B  for B a list of columns *)
Definition mulv (B : mat) (x : vec) : vec := tmat_vec B x.
Definition vmul (x : vec) (B : mat) : vec := map (dot x) B.

(* ------------------------------------------------------------------------------------------------ *)
(* the LP matrix and the user's basis matrix                                                         *)
(* ------------------------------------------------------------------------------------------------ *)

Record lpmat : Type := mkLPM { lm_rows : nat; lm_cols : mat }.

Definition lm_ncols (p : lpmat) : nat := length (lm_cols p).

(* bind entry b >= 0: LP column b;  b < 0: unit vector of row -1-b *)
Definition basis_col (p : lpmat) (b : Z) : vec :=
  if (0 <=? b)%Z then nth (Z.to_nat b) (lm_cols p) [] else unit_vec (lm_rows p) (Z.to_nat (-1 - b)).

Definition basis_matrix (p : lpmat) (bind : list Z) : mat := map (basis_col p) bind.

Definition bind_ok (p : lpmat) (b : Z) : bool :=
  if (0 <=? b)%Z then Nat.ltb (Z.to_nat b) (lm_ncols p) else Nat.ltb (Z.to_nat (-1 - b)) (lm_rows p).

Definition wf_bind (p : lpmat) (bind : list Z) : bool :=
  Nat.eqb (length bind) (lm_rows p) && forallb (bind_ok p) bind.

Definition wf_lp (p : lpmat) : bool := forallb (fun col => Nat.eqb (length col) (lm_rows p)) (lm_cols p).

(* ------------------------------------------------------------------------------------------------ *)
(* scaling by powers of two                                                                          *)
(* ------------------------------------------------------------------------------------------------ *)

(* entry i times 2^(es_i); the exponent list is padded with 0 *)
Fixpoint dscale (es : list Z) (v : vec) : vec :=
  match v with
  | [] => []
  | a :: v' => a * pow2 (hd 0%Z es) :: dscale (tl es) v'
  end.

(* column j of the scaled LP: a_ij * 2^(r_i + c_j) *)
Fixpoint scale_col (r : list Z) (cj : Z) (col : vec) : vec :=
  match col with
  | [] => []
  | a :: col' => a * pow2 (hd 0%Z r + cj) :: scale_col (tl r) cj col'
  end.

Fixpoint scale_cols (r c : list Z) (cols : mat) : mat :=
  match cols with
  | [] => []
  | col :: cs => scale_col r (hd 0%Z c) col :: scale_cols r (tl c) cs
  end.

Definition scale (r c : list Z) (p : lpmat) : lpmat := mkLPM (lm_rows p) (scale_cols r c (lm_cols p)).

(* D_r * B  and  B * D_d *)
Definition rscale (r : list Z) (B : mat) : mat := map (dscale r) B.
Fixpoint cscale (ds : list Z) (B : mat) : mat :=
  match B with
  | [] => []
  | col :: B' => vscale (pow2 (hd 0%Z ds)) col :: cscale (tl ds) B'
  end.

(* exponent of the k-th diagonal entry of D_bind: 2^(c_j) for a basic column j, 2^(-r_i) for a basic slack i *)
Definition bind_exp (r c : list Z) (b : Z) : Z :=
  if (0 <=? b)%Z then nth (Z.to_nat b) c 0%Z else (- nth (Z.to_nat (-1 - b)) r 0%Z)%Z.

Definition dbind (r c : list Z) (bind : list Z) : list Z := map (bind_exp r c) bind.

Definition zneg (es : list Z) : list Z := map Z.opp es.

(* ------------------------------------------------------------------------------------------------ *)
(* getBasisInd                                                                                       *)
(* ------------------------------------------------------------------------------------------------ *)

(* the solver's basis order: entry t is the id of the t-th basis vector *)
Inductive bid : Type := BRow (i : nat) | BCol (j : nat).

Definition bid_code (id : bid) : Z :=
  match id with BCol j => Z.of_nat j | BRow i => (-1 - Z.of_nat i)%Z end.

(* COLUMN representation: bind[i] = baseId(i) *)
Definition bind_colrep (ids : list bid) : list Z := map bid_code ids.

Definition is_row_basic (ids : list bid) (i : nat) : bool :=
  existsb (fun id => match id with BRow i' => Nat.eqb i' i | BCol _ => false end) ids.
Definition is_col_basic (ids : list bid) (j : nat) : bool :=
  existsb (fun id => match id with BCol j' => Nat.eqb j' j | BRow _ => false end) ids.

(* ROW representation: the complement of the row basis, rows first (ascending), then columns (ascending) *)
Definition bind_rowrep (m n : nat) (ids : list bid) : list Z :=
  map (fun i => (-1 - Z.of_nat i)%Z) (filter (fun i => negb (is_row_basic ids i)) (seq 0 m)) ++
  map Z.of_nat (filter (fun j => negb (is_col_basic ids j)) (seq 0 n)).

(* ------------------------------------------------------------------------------------------------ *)
(* rows of the stored LP, the row basis                                                              *)
(* ------------------------------------------------------------------------------------------------ *)

Definition lp_row (p : lpmat) (i : nat) : vec := map (fun col => vnth col i) (lm_cols p).

(* getRowVectorUnscaled / getColVectorUnscaled on a stored (scaled) LP: a'_ij * 2^(-r_i - c_j) *)
Definition lp_row_unscaled (r c : list Z) (p : lpmat) (i : nat) : vec :=
  dscale (zneg c) (vscale (pow2 (- nth i r 0%Z)) (lp_row p i)).
Definition lp_col_unscaled (r c : list Z) (p : lpmat) (j : nat) : vec :=
  dscale (zneg r) (vscale (pow2 (- nth j c 0%Z)) (nth j (lm_cols p) [])).

(* the vectors of the row basis (ROW representation): row i of the LP or the unit vector of column j, dimension n *)
Definition rb_vec (p : lpmat) (id : bid) : vec :=
  match id with BRow i => lp_row p i | BCol j => unit_vec (lm_ncols p) j end.
Definition rb_matrix (p : lpmat) (ids : list bid) : mat := map (rb_vec p) ids.

(* v with entry i replaced by a (no change beyond the end) *)
Fixpoint vset (i : nat) (a : Q) (v : vec) : vec :=
  match v, i with
  | [], _ => []
  | _ :: v', O => a :: v'
  | b :: v', S i' => b :: vset i' a v'
  end.

(* position of the first id equal to BRow i (length of the list if there is none) *)
Fixpoint row_pos (ids : list bid) (i : nat) : nat :=
  match ids with
  | [] => O
  | BRow i' :: rest => if Nat.eqb i' i then O else S (row_pos rest i)
  | BCol _ :: rest => S (row_pos rest i)
  end.

(* ------------------------------------------------------------------------------------------------ *)
(* the scaling glue of the five queries                                                              *)
(* ------------------------------------------------------------------------------------------------ *)

Section Glue.
  (* the oracles: SPxBasisBase::solve (M x = b) and SPxBasisBase::coSolve (x^T M = b^T) for the matrix M whose
     columns are the basis vectors stored in the solver *)
  Variable solve : vec -> vec.
  Variable coSolve : vec -> vec.

  (* sc = (unscale && _solver.isScaled());  r, c = the scale exponents;  m = numRows();
     ps = the LP stored in the solver (the scaled LP when it is scaled) *)

  (* ---------------- COLUMN representation; bind = getBasisInd = the basis order ---------------- *)

  Definition binv_row_colrep (sc : bool) (r c : list Z) (m : nat) (bind : list Z) (k : nat) : vec :=
    if sc then
      let rhs := vscale (pow2 (bind_exp r c (nth k bind 0%Z))) (unit_vec m k) in   (* rhs *= spxLdexp(1.0, scaleExp) *)
      dscale r (coSolve rhs)                                                        (* x.scaleValue(i, rowScaleExp(i)) *)
    else coSolve (unit_vec m k).

  Definition binv_col_colrep (sc : bool) (r c : list Z) (m : nat) (bind : list Z) (k : nat) : vec :=
    if sc then
      let rhs := vscale (pow2 (nth k r 0%Z)) (unit_vec m k) in
      dscale (dbind r c bind) (solve rhs)
    else solve (unit_vec m k).

  Definition binv_times_vec_colrep (sc : bool) (r c : list Z) (bind : list Z) (v : vec) : vec :=
    if sc then dscale (dbind r c bind) (solve (dscale r v)) else solve v.

  (* multBaseWith / multWithBase are plain products with the stored basis matrix Bs *)
  Definition mult_colrep (sc : bool) (r c : list Z) (Bs : mat) (bind : list Z) (v : vec) : vec :=
    if sc then dscale (zneg r) (mulv Bs (dscale (zneg (dbind r c bind)) v)) else mulv Bs v.

  Definition multT_colrep (sc : bool) (r c : list Z) (Bs : mat) (bind : list Z) (v : vec) : vec :=
    if sc then dscale (zneg (dbind r c bind)) (vmul (dscale (zneg r) v) Bs) else vmul v Bs.

  (* ---------------- ROW representation; ids = the row basis order (n entries) ---------------- *)

  (* "for i < numCols: if baseId(i) is a row: coef[number] = y[i] (scaled by 2^rowexp)" *)
  Fixpoint scatter_rows (sc : bool) (r : list Z) (ids : list bid) (y : vec) (coef : vec) : vec :=
    match ids with
    | [] => coef
    | BRow i :: rest =>
      let yi := vnth y 0 in
      scatter_rows sc r rest (tl y) (vset i (if sc then yi * pow2 (nth i r 0%Z) else yi) coef)
    | BCol _ :: rest => scatter_rows sc r rest (tl y) coef
    end.

  Definition binv_row_rowrep (sc : bool) (r c : list Z) (ps : lpmat) (ids : list bid) (k : nat) : vec :=
    let m := lm_rows ps in
    let n := lm_ncols ps in
    let bind := bind_rowrep m n ids in
    let b := nth k bind 0%Z in
    if (b <? 0)%Z then
      let i0 := Z.to_nat (-1 - b) in
      let rw := vscale (-1) (lp_row ps i0) in
      let rhs := if sc then vscale (pow2 (- nth i0 r 0%Z)) rw else rw in
      vset i0 1 (scatter_rows sc r ids (solve rhs) (vzero m))
    else
      let j := Z.to_nat b in
      let rhs := if sc then vscale (pow2 (nth j c 0%Z)) (unit_vec n j) else unit_vec n j in
      scatter_rows sc r ids (solve rhs) (vzero m).

  Definition binv_col_rowrep (sc : bool) (r c : list Z) (ps : lpmat) (ids : list bid) (k : nat) : vec :=
    let m := lm_rows ps in
    let n := lm_ncols ps in
    let bind := bind_rowrep m n ids in
    if negb (is_row_basic ids k) then
      map (fun b => if Z.eqb b (-1 - Z.of_nat k) then 1 else 0) bind
    else
      let index := row_pos ids k in
      (* scaled branch: "scaleExp = -getRowScaleExp(index)" with index the POSITION in the basis, and the loop
         "spxLdexp(x.value(i), scaleExp);" discards its result, so x is used as the solver returned it *)
      let x := if sc then coSolve (vscale (pow2 (- nth index r 0%Z)) (unit_vec n index))
               else coSolve (unit_vec n index) in
      map (fun b =>
             if (b <? 0)%Z then
               let idx := Z.to_nat (-1 - b) in
               if sc then (- dot (lp_row_unscaled r c ps idx) x) * pow2 (nth idx r 0%Z)
               else - dot (lp_row ps idx) x
             else
               let idx := Z.to_nat b in
               if sc then vnth x idx * pow2 (nth idx c 0%Z) else vnth x idx) bind.

  Definition binv_times_vec_rowrep (sc : bool) (r c : list Z) (ps : lpmat) (ids : list bid) (v : vec) : vec :=
    let m := lm_rows ps in
    let n := lm_ncols ps in
    let bind := bind_rowrep m n ids in
    let rowrhs := map (fun id => match id with
                                 | BRow i => if sc then vnth v i * pow2 (nth i r 0%Z) else vnth v i
                                 | BCol _ => 0
                                 end) ids in
    let y := coSolve rowrhs in
    map (fun b =>
           if (b <? 0)%Z then
             let idx := Z.to_nat (-1 - b) in
             let t := vnth v idx - dot (lp_row ps idx) y in
             if sc then t * pow2 (- nth idx r 0%Z) else t
           else
             let idx := Z.to_nat b in
             if sc then vnth y idx * pow2 (nth idx c 0%Z) else vnth y idx) bind.
End Glue.

(* multBasis, ROW representation.  The loop "y.add(x[i] * column)" uses DSVectorBase::add(const SVectorBase&), which
   CLEARS the vector before appending (dsvectorbase.h), and the scaled branch adds the unscaled column and then
   (no "else") the stored one: after the loop y holds the product of the LAST non-zero x[i] with the STORED column /
   unit vector only. *)
Definition pad (m : nat) (v : vec) : vec := map (vnth v) (seq 0 m).

Definition mult_rowrep (ps : lpmat) (ids : list bid) (x : vec) : vec :=
  let m := lm_rows ps in
  let bind := bind_rowrep m (lm_ncols ps) ids in
  fold_left (fun acc bx => if Qeq_bool (snd bx) 0 then acc else pad m (vscale (snd bx) (basis_col ps (fst bx))))
            (combine bind (pad m x)) (vzero m).

(* The three defective ROW-representation branches as repaired by /verif/proposed_fixes/C05-*.diff (the plain branches of
   the first two are unchanged):
     getBasisInverseColReal:       rhs = 2^(r_k) e_index, x.scaleValue(j, colScaleExp(j)) for every column j, then
                                   coef = -(unscaled row * x) for a basic slack and x_j for a basic column;
     getBasisInverseTimesVecReal:  only the activity of the stored row is multiplied by 2^(-r_idx), not v_idx;
     multBasis:                    dense accumulation  y += x_i * column,  with an "else" between the unscaled and the stored
                                   column. *)
Section GlueFixed.
  Variable coSolve : vec -> vec.

  Definition binv_col_rowrep_fixed (sc : bool) (r c : list Z) (ps : lpmat) (ids : list bid) (k : nat) : vec :=
    let m := lm_rows ps in
    let n := lm_ncols ps in
    let bind := bind_rowrep m n ids in
    if negb (is_row_basic ids k) then
      map (fun b => if Z.eqb b (-1 - Z.of_nat k) then 1 else 0) bind
    else
      let index := row_pos ids k in
      let x := if sc then dscale c (coSolve (vscale (pow2 (nth k r 0%Z)) (unit_vec n index)))
               else coSolve (unit_vec n index) in
      map (fun b =>
             if (b <? 0)%Z then
               let idx := Z.to_nat (-1 - b) in
               if sc then - dot (lp_row_unscaled r c ps idx) x else - dot (lp_row ps idx) x
             else vnth x (Z.to_nat b)) bind.

  Definition binv_times_vec_rowrep_fixed (sc : bool) (r c : list Z) (ps : lpmat) (ids : list bid) (v : vec) : vec :=
    let m := lm_rows ps in
    let n := lm_ncols ps in
    let bind := bind_rowrep m n ids in
    let rowrhs := map (fun id => match id with
                                 | BRow i => if sc then vnth v i * pow2 (nth i r 0%Z) else vnth v i
                                 | BCol _ => 0
                                 end) ids in
    let y := coSolve rowrhs in
    map (fun b =>
           if (b <? 0)%Z then
             let idx := Z.to_nat (-1 - b) in
             let act := dot (lp_row ps idx) y in
             vnth v idx - (if sc then act * pow2 (- nth idx r 0%Z) else act)
           else
             let idx := Z.to_nat b in
             if sc then vnth y idx * pow2 (nth idx c 0%Z) else vnth y idx) bind.
End GlueFixed.

Definition mult_rowrep_fixed (sc : bool) (r c : list Z) (ps : lpmat) (ids : list bid) (x : vec) : vec :=
  let bind := bind_rowrep (lm_rows ps) (lm_ncols ps) ids in
  mulv (map (fun b => if (0 <=? b)%Z
                      then (if sc then lp_col_unscaled r c ps (Z.to_nat b) else nth (Z.to_nat b) (lm_cols ps) [])
                      else unit_vec (lm_rows ps) (Z.to_nat (-1 - b))) bind) x.

(* multBasisTranspose, ROW representation *)
Definition multT_rowrep (sc : bool) (r c : list Z) (ps : lpmat) (ids : list bid) (x : vec) : vec :=
  let bind := bind_rowrep (lm_rows ps) (lm_ncols ps) ids in
  map (fun b =>
         if (b <? 0)%Z then vnth x (Z.to_nat (-1 - b))
         else if sc then dot x (lp_col_unscaled r c ps (Z.to_nat b))
              else dot x (nth (Z.to_nat b) (lm_cols ps) [])) bind.

(* ------------------------------------------------------------------------------------------------ *)
(* checkers                                                                                          *)
(* ------------------------------------------------------------------------------------------------ *)

Definition all_zero (u : vec) : bool := forallb (fun a => Qeq_bool a 0) u.

(* extensional equality of padded vectors *)
Fixpoint veqb (u v : vec) : bool :=
  match u, v with
  | [], _ => all_zero v
  | _, [] => all_zero u
  | a :: u', b :: v' => Qeq_bool a b && veqb u' v'
  end.

Fixpoint meqb (A B : mat) : bool :=
  match A, B with
  | [], [] => true
  | a :: A', b :: B' => veqb a b && meqb A' B'
  | _, _ => false
  end.

Definition lp_eqb (p q : lpmat) : bool := Nat.eqb (lm_rows p) (lm_rows q) && meqb (lm_cols p) (lm_cols q).

(* exact checks against the basis matrix of p named by bind *)
Definition check_binv_col (p : lpmat) (bind : list Z) (col : vec) (k : nat) : bool :=
  wf_bind p bind && Nat.ltb k (lm_rows p) && veqb (mulv (basis_matrix p bind) col) (unit_vec (lm_rows p) k).
Definition check_binv_row (p : lpmat) (bind : list Z) (row : vec) (k : nat) : bool :=
  wf_bind p bind && Nat.ltb k (lm_rows p) && veqb (vmul row (basis_matrix p bind)) (unit_vec (lm_rows p) k).
Definition check_solve (p : lpmat) (bind : list Z) (rhs sol : vec) : bool :=
  wf_bind p bind && veqb (mulv (basis_matrix p bind) sol) rhs.
Definition check_mult (p : lpmat) (bind : list Z) (v out : vec) : bool :=
  wf_bind p bind && veqb out (mulv (basis_matrix p bind) v).
Definition check_multT (p : lpmat) (bind : list Z) (v out : vec) : bool :=
  wf_bind p bind && veqb out (vmul v (basis_matrix p bind)).

(* tolerance versions: every entry within  eps * (1 + |B|_inf * |x|_inf + |b|_inf)  *)
Definition qmax (a b : Q) : Q := if Qle_bool a b then b else a.
Definition norm_inf (v : vec) : Q := fold_right (fun a m => qmax (Qabs a) m) 0 v.
Definition mabs (B : mat) : mat := map (map Qabs) B.
(* max row sum of |B| *)
Definition norm_inf_mat (B : mat) : Q := norm_inf (mulv (mabs B) (repeat 1 (length B))).
(* max column sum of |B| *)
Definition norm_one_mat (B : mat) : Q := norm_inf (map (fun col => fold_right (fun a s => Qabs a + s) 0 col) B).

Fixpoint vclose (t : Q) (u v : vec) : bool :=
  match u, v with
  | [], _ => forallb (fun b => Qle_bool (Qabs b) t) v
  | _, [] => forallb (fun a => Qle_bool (Qabs a) t) u
  | a :: u', b :: v' => Qle_bool (Qabs (a - b)) t && vclose t u' v'
  end.

Definition tol_right (eps : Q) (B : mat) (x b : vec) : Q := eps * (1 + norm_inf_mat B * norm_inf x + norm_inf b).
Definition tol_left (eps : Q) (B : mat) (x b : vec) : Q := eps * (1 + norm_one_mat B * norm_inf x + norm_inf b).

Definition check_binv_col_tol (eps : Q) (p : lpmat) (bind : list Z) (col : vec) (k : nat) : bool :=
  let B := basis_matrix p bind in
  wf_bind p bind && Nat.ltb k (lm_rows p) &&
  vclose (tol_right eps B col (unit_vec (lm_rows p) k)) (mulv B col) (unit_vec (lm_rows p) k).
Definition check_binv_row_tol (eps : Q) (p : lpmat) (bind : list Z) (row : vec) (k : nat) : bool :=
  let B := basis_matrix p bind in
  wf_bind p bind && Nat.ltb k (lm_rows p) &&
  vclose (tol_left eps B row (unit_vec (lm_rows p) k)) (vmul row B) (unit_vec (lm_rows p) k).
Definition check_solve_tol (eps : Q) (p : lpmat) (bind : list Z) (rhs sol : vec) : bool :=
  let B := basis_matrix p bind in
  wf_bind p bind && vclose (tol_right eps B sol rhs) (mulv B sol) rhs.
Definition check_mult_tol (eps : Q) (p : lpmat) (bind : list Z) (v out : vec) : bool :=
  let B := basis_matrix p bind in
  wf_bind p bind && vclose (tol_right eps B v out) out (mulv B v).
Definition check_multT_tol (eps : Q) (p : lpmat) (bind : list Z) (v out : vec) : bool :=
  let B := basis_matrix p bind in
  wf_bind p bind && vclose (tol_left eps B v out) out (vmul v B).

(* two vectors agree within eps * (1 + |u|_inf)  (model prediction against the implementation) *)
Definition check_close (eps : Q) (u v : vec) : bool := vclose (eps * (1 + norm_inf u)) u v.

(* the sparse index output: inds (sorted ascending by the caller) lists exactly the non-zero positions of coef *)
Fixpoint nonzero_from (k : nat) (coef : vec) : list nat :=
  match coef with
  | [] => []
  | a :: rest => if Qeq_bool a 0 then nonzero_from (S k) rest else k :: nonzero_from (S k) rest
  end.
Fixpoint nat_list_eqb (a b : list nat) : bool :=
  match a, b with
  | [], [] => true
  | x :: a', y :: b' => Nat.eqb x y && nat_list_eqb a' b'
  | _, _ => false
  end.
Definition check_inds (coef : vec) (inds : list nat) : bool := nat_list_eqb inds (nonzero_from 0 coef).

(* M * Minv = I and Minv * M = I (validates the exact oracle handed to the glue models by the check) *)
Fixpoint ident (n : nat) : mat :=
  match n with
  | O => []
  | S n' => (1 :: vzero n') :: map (cons 0) (ident n')
  end.
Definition mat_mul (A B : mat) : mat := map (mulv A) B.
Definition is_inverse (M Minv : mat) : bool :=
  Nat.eqb (length M) (length Minv) &&
  meqb (mat_mul M Minv) (ident (length M)) && meqb (mat_mul Minv M) (ident (length M)).
(* the oracle built from a validated inverse *)
Definition solve_with (Minv : mat) (b : vec) : vec := mulv Minv b.
Definition cosolve_with (Minv : mat) (b : vec) : vec := vmul b Minv.
