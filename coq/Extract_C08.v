(* Extraction of the post-solve step models (C08): replayed against SPxMainSM<double> by checks/C08.py *)
From Coq Require Extraction.
From Coq Require Import ExtrOcamlBasic QArith List.
From SV Require Import Vec PostsolveModel.

Extraction "../extract/C08/model.ml" execute run_steps tol_cmps exact_cmps count_basic Qred.
