(* C06 - lemmas about LPOpsModel: the row file and the column file always mirror each other (induction over
   operation lists), every call commutes with the abstraction to a dense LP, the renumbering after removals, the
   invalidation of cached solutions, and the sense of the LP. *)
From Coq Require Import ZArith List Bool Arith Lia.
From SV Require Import Dbl LPOpsModel.
Import ListNotations.
Local Open Scope nat_scope.

Lemma modify_invalidates_l : forall s o, modifies o = true ->
  hasSol (fst (step s o)) = false /\ stat (fst (step s o)) = 0%Z.
Proof.
  intros s o H. destruct o; try discriminate H;
  try (unfold step; destruct (apply s _); simpl; auto; fail).
  simpl. auto.
Qed.

(* ---------- lists ---------- *)
Lemma upd_length {A} k (f : A -> A) l : length (upd k f l) = length l.
Proof. revert k; induction l as [|x t IH]; intros [|k]; simpl; auto. Qed.

Lemma nth_upd_eq {A} k (f : A -> A) l d : k < length l -> nth k (upd k f l) d = f (nth k l d).
Proof. revert k; induction l as [|x t IH]; intros [|k] H; simpl in *; try lia; auto. apply IH; lia. Qed.

Lemma nth_upd_neq {A} k j (f : A -> A) l d : k <> j -> nth j (upd k f l) d = nth j l d.
Proof. revert k j; induction l as [|x t IH]; intros [|k] [|j] H; simpl; auto; try lia. Qed.

Lemma upd_oob {A} k (f : A -> A) l : length l <= k -> upd k f l = l.
Proof. revert k; induction l as [|x t IH]; intros [|k] H; simpl in *; auto; try lia. f_equal. apply IH; lia. Qed.

Lemma In_upd {A} k (f : A -> A) l x : In x (upd k f l) -> In x l \/ exists y, In y l /\ x = f y.
Proof.
  revert k; induction l as [|a t IH]; intros [|k] H; simpl in *; auto.
  - destruct H as [H|H]; [right; exists a; auto | auto].
  - destruct H as [H|H]; auto. destruct (IH _ H) as [H1|[y [H1 H2]]]; auto. right; exists y; auto.
Qed.

Lemma nth_In_or_default {A} (l : list A) k d : k < length l -> In (nth k l d) l.
Proof. apply nth_In. Qed.

Lemma nth_nil_oob (F : file) k : length F <= k -> nth k F [] = [].
Proof. intros; apply nth_overflow; auto. Qed.

Lemma setn_length {A} k (x : A) l : length (setn k x l) = length l.
Proof. apply upd_length. Qed.

(* ---------- sparse vectors ---------- *)
Definition idx (v : svec) := map fst v.

Lemma In_idx i x (v : svec) : In (i, x) v -> In i (idx v).
Proof. intros H. apply (in_map fst) in H. exact H. Qed.

Lemma idx_In i (v : svec) : In i (idx v) -> exists x, In (i, x) v.
Proof. unfold idx. rewrite in_map_iff. intros [[j x] [H1 H2]]. simpl in H1; subst. eauto. Qed.

Lemma In_sdel i j x v : In (j, x) (sdel i v) <-> j <> i /\ In (j, x) v.
Proof.
  unfold sdel. rewrite filter_In. simpl. rewrite negb_true_iff, Nat.eqb_neq. tauto.
Qed.

Lemma idx_sdel i j v : In j (idx (sdel i v)) <-> j <> i /\ In j (idx v).
Proof.
  split.
  - intros H. apply idx_In in H. destruct H as [x H]. apply In_sdel in H. destruct H; split; auto. eapply In_idx; eauto.
  - intros [H1 H2]. apply idx_In in H2. destruct H2 as [x H2]. apply (In_idx j x). apply In_sdel; auto.
Qed.

Lemma NoDup_map_filter {A B} (f : A -> B) p l : NoDup (map f l) -> NoDup (map f (filter p l)).
Proof.
  induction l as [|a t IH]; simpl; intros H; auto. inversion H; subst.
  destruct (p a); simpl; auto. constructor; auto.
  intros C. apply H2. rewrite in_map_iff in *. destruct C as [y [E1 E2]]. apply filter_In in E2. exists y; tauto.
Qed.

Lemma NoDup_sdel i v : NoDup (idx v) -> NoDup (idx (sdel i v)).
Proof. apply NoDup_map_filter. Qed.

Lemma NoDup_sclean v : NoDup (idx v) -> NoDup (idx (sclean v)).
Proof. apply NoDup_map_filter. Qed.

Lemma In_sclean j x v : In (j, x) (sclean v) <-> In (j, x) v /\ dnz x = true.
Proof. unfold sclean. rewrite filter_In. simpl. tauto. Qed.

Lemma sdel_notin i v : ~ In i (idx v) -> sdel i v = v.
Proof.
  induction v as [|[j x] t IH]; simpl; intros H; auto.
  destruct (Nat.eqb_spec j i); simpl.
  - subst. exfalso; apply H; auto.
  - f_equal. apply IH. tauto.
Qed.

Lemma idx_sset i x v : idx (sset i x v) = idx v.
Proof.
  unfold idx, sset. rewrite map_map. apply map_ext_in. intros [j y] _. simpl.
  destruct (Nat.eqb_spec j i); simpl; auto.
Qed.

Lemma In_sset i x j y v : In (j, y) (sset i x v) <-> (j = i /\ y = x /\ In i (idx v)) \/ (j <> i /\ In (j, y) v).
Proof.
  unfold sset. rewrite in_map_iff. split.
  - intros [[a b] [H1 H2]]. simpl in H1. destruct (Nat.eqb_spec a i).
    + inversion H1; subst. left. repeat split; auto. eapply In_idx; eauto.
    + inversion H1; subst. right; auto.
  - intros [[H1 [H2 H3]]|[H1 H2]].
    + subst. apply idx_In in H3. destruct H3 as [z H3]. exists (i, z). simpl. rewrite Nat.eqb_refl. auto.
    + exists (j, y). simpl. destruct (Nat.eqb_spec j i); try contradiction. auto.
Qed.

Lemma shas_spec i v : shas i v = true <-> In i (idx v).
Proof.
  unfold shas. rewrite existsb_exists. split.
  - intros [[j x] [H1 H2]]. simpl in H2. apply Nat.eqb_eq in H2. subst. eapply In_idx; eauto.
  - intros H. apply idx_In in H. destruct H as [x H]. exists (i, x). simpl. rewrite Nat.eqb_refl. auto.
Qed.

Lemma sfind_In i x v : NoDup (idx v) -> (sfind i v = Some x <-> In (i, x) v).
Proof.
  unfold sfind. induction v as [|[j y] t IH]; simpl; intros ND.
  - split; [discriminate | tauto].
  - inversion ND; subst. destruct (Nat.eqb_spec j i).
    + subst. split.
      * intros E; inversion E; auto.
      * intros [E|E]; [inversion E; auto|]. exfalso. apply H1. eapply In_idx; eauto.
    + rewrite (IH H2). split; auto. intros [E|E]; auto. inversion E; contradiction.
Qed.

Lemma sfind_None i v : sfind i v = None <-> ~ In i (idx v).
Proof.
  unfold sfind. induction v as [|[j y] t IH]; simpl.
  - tauto.
  - destruct (Nat.eqb_spec j i).
    + subst. split; [discriminate | intros H; exfalso; apply H; auto].
    + rewrite IH. split; intros H; [intros [C|C]; auto | auto].
Qed.

(* the dense value is determined by membership *)
Lemma sget_In i x v : NoDup (idx v) -> In (i, x) v -> sget i v = x.
Proof. intros ND H. unfold sget. apply (sfind_In i x v ND) in H. now rewrite H. Qed.

Lemma sget_notin i v : ~ In i (idx v) -> sget i v = dzero.
Proof. intros H. unfold sget. apply sfind_None in H. now rewrite H. Qed.

Lemma sget_ext v w : NoDup (idx v) -> NoDup (idx w) -> (forall i x, In (i, x) v <-> In (i, x) w) ->
  forall i, sget i v = sget i w.
Proof.
  intros N1 N2 H i. unfold sget. destruct (sfind i v) eqn:E1.
  - apply (sfind_In _ _ _ N1) in E1. apply H in E1. apply (sfind_In _ _ _ N2) in E1. now rewrite E1.
  - destruct (sfind i w) eqn:E2; auto. apply (sfind_In _ _ _ N2) in E2. apply H in E2.
    apply sfind_None in E1. exfalso. apply E1. eapply In_idx; eauto.
Qed.

Lemma In_sren a b j x v : In (j, x) (sren a b v) <-> (j = b /\ In (a, x) v) \/ (j <> a /\ In (j, x) v).
Proof.
  unfold sren. rewrite in_map_iff. split.
  - intros [[c y] [H1 H2]]. simpl in H1. destruct (Nat.eqb_spec c a).
    + inversion H1; subst. left; auto.
    + inversion H1; subst. right; auto.
  - intros [[H1 H2]|[H1 H2]].
    + subst. exists (a, x). simpl. rewrite Nat.eqb_refl. auto.
    + exists (j, x). simpl. destruct (Nat.eqb_spec j a); try contradiction. auto.
Qed.

Lemma NoDup_sren a b v : NoDup (idx v) -> ~ In b (idx v) -> NoDup (idx (sren a b v)).
Proof.
  induction v as [|[j y] t IH]; simpl; intros ND NB; auto. inversion ND; subst.
  assert (~ In b (idx t)) as NB' by (intros C; apply NB; auto).
  destruct (Nat.eqb_spec j a); simpl.
  - subst. constructor; auto.
    intros C. apply idx_In in C. destruct C as [x C]. apply In_sren in C.
    destruct C as [[_ C]|[C1 C2]].
    + apply H1. eapply In_idx; eauto.
    + apply NB'. eapply In_idx; eauto.
  - constructor; auto.
    intros C. apply idx_In in C. destruct C as [x C]. apply In_sren in C.
    destruct C as [[C1 C2]|[C1 C2]].
    + subst. apply NB. auto.
    + apply H1. eapply In_idx; eauto.
Qed.

Lemma sren_same a v : sren a a v = v.
Proof.
  unfold sren. induction v as [|[j y] t IH]; simpl; auto. rewrite IH.
  destruct (Nat.eqb_spec j a); subst; auto.
Qed.

Lemma In_sreindex np q x v :
  In (q, x) (sreindex np v) <-> exists j, In (j, x) v /\ (0 <= nth j np (-1))%Z /\ q = Z.to_nat (nth j np (-1)%Z).
Proof.
  unfold sreindex. rewrite in_flat_map. split.
  - intros [[j y] [H1 H2]]. simpl in H2. destruct (Z.leb_spec 0 (nth j np (-1)%Z)); simpl in H2; try tauto.
    destruct H2 as [H2|[]]. inversion H2; subst. exists j; auto.
  - intros [j [H1 [H2 H3]]]. exists (j, x). split; auto. simpl.
    destruct (Z.leb_spec 0 (nth j np (-1)%Z)); try lia. subst. simpl; auto.
Qed.

(* ---------- folds of updates over a file ---------- *)
Definition foldupd (g : nat * dbl -> svec -> svec) (v : svec) (F : file) : file :=
  fold_left (fun F p => upd (fst p) (g p) F) v F.

Lemma foldupd_length g v F : length (foldupd g v F) = length F.
Proof. revert F; induction v as [|p t IH]; intros F; simpl; auto. unfold foldupd in *. simpl. rewrite IH. apply upd_length. Qed.

Definition sfindp (i : nat) (v : svec) : option (nat * dbl) := find (fun p => fst p =? i) v.

Lemma sfindp_notin i v : ~ In i (idx v) -> sfindp i v = None.
Proof.
  induction v as [|[j y] t IH]; simpl; intros H; auto.
  destruct (Nat.eqb_spec j i); [subst; exfalso; apply H; auto|]. apply IH. tauto.
Qed.

(* with distinct indices every S-vector is touched at most once *)
Lemma nth_foldupd g v F i : NoDup (idx v) -> (forall p, In p v -> fst p < length F) ->
  nth i (foldupd g v F) [] = match sfindp i v with Some p => g p (nth i F []) | None => nth i F [] end.
Proof.
  revert F; induction v as [|[j y] t IH]; intros F ND RG; simpl; auto.
  inversion ND; subst. unfold foldupd in *. simpl.
  rewrite IH; auto.
  2:{ intros p Hp. rewrite upd_length. apply RG. right; auto. }
  destruct (Nat.eqb_spec j i).
  - subst. rewrite sfindp_notin; auto. apply nth_upd_eq. apply (RG (i, y)). left; auto.
  - rewrite nth_upd_neq; auto.
Qed.

Lemma sfindp_sfind i v : sfind i v = match sfindp i v with Some p => Some (snd p) | None => None end.
Proof. reflexivity. Qed.

Lemma sfindp_Some i v p : sfindp i v = Some p -> In p v /\ fst p = i.
Proof. unfold sfindp. intros H. apply find_some in H. destruct H as [H1 H2]. apply Nat.eqb_eq in H2. auto. Qed.

Lemma sfindp_None i v : sfindp i v = None -> ~ In i (idx v).
Proof.
  intros H C. apply idx_In in C. destruct C as [x C].
  unfold sfindp in H. apply (find_none _ _ H) in C. simpl in C. rewrite Nat.eqb_refl in C. discriminate.
Qed.

Lemma nth_scatter k v F i : NoDup (idx v) -> (forall p, In p v -> fst p < length F) ->
  nth i (scatter k v F) [] = match sfind i v with Some x => (k, x) :: nth i F [] | None => nth i F [] end.
Proof.
  intros ND RG. change (scatter k v F) with (foldupd (fun p => cons (k, snd p)) v F).
  rewrite nth_foldupd; auto. rewrite sfindp_sfind. destruct (sfindp i v); auto.
Qed.

Lemma nth_unlink k v F i : NoDup (idx v) -> (forall p, In p v -> fst p < length F) ->
  nth i (unlink k v F) [] = if shas i v then sdel k (nth i F []) else nth i F [].
Proof.
  intros ND RG. change (unlink k v F) with (foldupd (fun _ => sdel k) v F).
  rewrite nth_foldupd; auto. destruct (sfindp i v) eqn:E.
  - apply sfindp_Some in E. destruct E as [E1 E2]. destruct p as [j y]; simpl in E2; subst.
    assert (shas i v = true) as -> by (apply shas_spec; eapply In_idx; eauto). auto.
  - apply sfindp_None in E. destruct (shas i v) eqn:E2; auto. apply shas_spec in E2. contradiction.
Qed.

Lemma nth_relink a b v F i : NoDup (idx v) -> (forall p, In p v -> fst p < length F) ->
  nth i (relink a b v F) [] = if shas i v then sren a b (nth i F []) else nth i F [].
Proof.
  intros ND RG. change (relink a b v F) with (foldupd (fun _ => sren a b) v F).
  rewrite nth_foldupd; auto. destruct (sfindp i v) eqn:E.
  - apply sfindp_Some in E. destruct E as [E1 E2]. destruct p as [j y]; simpl in E2; subst.
    assert (shas i v = true) as -> by (apply shas_spec; eapply In_idx; eauto). auto.
  - apply sfindp_None in E. destruct (shas i v) eqn:E2; auto. apply shas_spec in E2. contradiction.
Qed.

Lemma scatter_length k v F : length (scatter k v F) = length F.
Proof. apply (foldupd_length (fun p => cons (k, snd p))). Qed.
Lemma unlink_length k v F : length (unlink k v F) = length F.
Proof. apply (foldupd_length (fun _ => sdel k)). Qed.
Lemma relink_length a b v F : length (relink a b v F) = length F.
Proof. apply (foldupd_length (fun _ => sren a b)). Qed.

Lemma upd_upd {A} k (f g : A -> A) l : upd k f (upd k g l) = upd k (fun x => f (g x)) l.
Proof. revert k; induction l as [|x t IH]; intros [|k]; simpl; auto. f_equal; auto. Qed.

Lemma upd_ext {A} k (f g : A -> A) l : (forall x, f x = g x) -> upd k f l = upd k g l.
Proof. intros H. revert k; induction l as [|x t IH]; intros [|k]; simpl; auto; f_equal; auto. Qed.

Lemma fill_eq k v P S : fill k v (P, S) = (upd k (fun w => rev v ++ w) P, scatter k v S).
Proof.
  revert P S; induction v as [|p t IH]; intros P S.
  - simpl. f_equal. clear. revert k; induction P as [|x r IH]; intros [|k]; simpl; auto. f_equal; auto.
  - unfold fill in *. simpl. rewrite IH. f_equal. rewrite upd_upd. apply upd_ext. intros w.
    rewrite <- app_assoc. reflexivity.
Qed.

(* ---------- the mirror invariant ---------- *)
Record Mir (P S : file) : Prop := mkMir {
  mir_eq : forall k i x, In (i, x) (nth k P []) <-> In (k, x) (nth i S []);
  mir_ndP : forall k, NoDup (idx (nth k P []));
  mir_ndS : forall i, NoDup (idx (nth i S []));
  mir_nz : forall k i x, In (i, x) (nth k P []) -> dnz x = true
}.

Lemma Mir_sym P S : Mir P S -> Mir S P.
Proof.
  intros [E N1 N2 Z]. constructor; auto.
  - intros k i x. symmetry. apply E.
  - intros k i x H. apply E in H. eapply Z; eauto.
Qed.

Lemma In_nth_lt (F : file) k (p : nat * dbl) : In p (nth k F []) -> k < length F.
Proof. intros H. destruct (Nat.lt_ge_cases k (length F)); auto. rewrite nth_overflow in H; auto. destruct H. Qed.

Lemma mir_bound P S k i x : Mir P S -> In (i, x) (nth k P []) -> k < length P /\ i < length S.
Proof.
  intros M H. split.
  - eapply In_nth_lt; eauto.
  - apply (mir_eq _ _ M) in H. eapply In_nth_lt; eauto.
Qed.

Lemma mir_idx_bound P S k i : Mir P S -> In i (idx (nth k P [])) -> k < length P /\ i < length S.
Proof. intros M H. apply idx_In in H. destruct H as [x H]. eapply mir_bound; eauto. Qed.

Lemma mir_idx P S k i : Mir P S -> (In i (idx (nth k P [])) <-> In k (idx (nth i S []))).
Proof.
  intros M. split; intros H; apply idx_In in H; destruct H as [x H].
  - apply (mir_eq _ _ M) in H. eapply In_idx; eauto.
  - apply (mir_eq _ _ M) in H. eapply In_idx; eauto.
Qed.

Lemma nth_nil_nil k : nth k (@nil svec) [] = [].
Proof. destruct k; reflexivity. Qed.

Lemma Mir_nil : Mir [] [].
Proof.
  constructor; intros; rewrite ?nth_nil_nil in *; simpl in *; try tauto; try constructor.
Qed.

(* dense entries seen from either file agree *)
Lemma mir_sget P S k i : Mir P S -> sget i (nth k P []) = sget k (nth i S []).
Proof.
  intros M. unfold sget.
  destruct (sfind i (nth k P [])) eqn:E1.
  - apply sfind_In in E1; [|apply (mir_ndP _ _ M)]. apply (mir_eq _ _ M) in E1.
    apply sfind_In in E1; [|apply (mir_ndS _ _ M)]. now rewrite E1.
  - apply sfind_None in E1. destruct (sfind k (nth i S [])) eqn:E2; auto.
    apply sfind_In in E2; [|apply (mir_ndS _ _ M)]. apply (mir_eq _ _ M) in E2.
    exfalso; apply E1. eapply In_idx; eauto.
Qed.

(* ---------- nth of appended files ---------- *)
Lemma nth_app_repeat_nil (F : file) g i : nth i (F ++ repeat [] g) [] = nth i F [].
Proof.
  destruct (Nat.lt_ge_cases i (length F)).
  - apply app_nth1; auto.
  - rewrite app_nth2; auto. rewrite (nth_overflow F); auto.
    destruct (Nat.lt_ge_cases (i - length F) g).
    + apply nth_repeat.
    + apply nth_overflow. rewrite repeat_length; auto.
Qed.

Lemma maxidx1_cons q t : maxidx1 (q :: t) = Nat.max (S (fst q)) (maxidx1 t).
Proof. reflexivity. Qed.

Lemma maxidx1_bound v p : In p v -> fst p < maxidx1 v.
Proof.
  induction v as [|q t IH]; intros H; [destruct H|]. rewrite maxidx1_cons. destruct H as [H|H].
  - subst. lia.
  - specialize (IH H). lia.
Qed.

(* ---------- add_vec ---------- *)
Lemma add_vec_Mir P S v : Mir P S -> NoDup (idx v) ->
  let '(P', S', g) := add_vec P S v in
  Mir P' S' /\ P' = P ++ [sclean v] /\ length S' = length S + g.
Proof.
  intros M ND. unfold add_vec.
  set (k := length P). set (v' := sclean v). set (g := maxidx1 v' - length S).
  set (S1 := S ++ repeat [] g).
  assert (ND' : NoDup (idx v')) by (apply NoDup_sclean; auto).
  assert (RG : forall p, In p v' -> fst p < length S1).
  { intros p Hp. apply maxidx1_bound in Hp. unfold S1. rewrite app_length, repeat_length. unfold g. lia. }
  assert (NS : forall i, nth i (scatter k v' S1) [] =
                         match sfind i v' with Some x => (k, x) :: nth i S [] | None => nth i S [] end).
  { intros i. rewrite nth_scatter; auto. unfold S1. rewrite nth_app_repeat_nil. auto. }
  assert (NK : forall i x, ~ In (k, x) (nth i S [])).
  { intros i x C. apply (mir_eq _ _ M) in C. apply In_nth_lt in C. unfold k in C. lia. }
  split; [|split; auto].
  2:{ rewrite scatter_length. unfold S1. rewrite app_length, repeat_length. auto. }
  constructor.
  - intros a i x. rewrite NS.
    destruct (Nat.lt_trichotomy a k) as [H|[H|H]].
    + rewrite app_nth1 by (unfold k in H; auto).
      rewrite (mir_eq _ _ M). destruct (sfind i v'); simpl; [|tauto].
      split; auto. intros [C|C]; auto. inversion C; lia.
    + subst a. unfold k at 1. rewrite nth_middle.
      destruct (sfind i v') eqn:E.
      * apply sfind_In in E; auto. simpl. split.
        -- intros Hx. left. f_equal. eapply (sfind_In i) in Hx; auto. eapply (sfind_In i) in E; auto. congruence.
        -- intros [C|C]; [inversion C; subst; auto | exfalso; eapply NK; eauto].
      * split.
        -- intros Hx. apply sfind_None in E. exfalso; apply E. eapply In_idx; eauto.
        -- intros C. exfalso; eapply NK; eauto.
    + rewrite nth_overflow by (rewrite app_length; simpl; unfold k in H; lia).
      split; [intros []|]. intros C. exfalso.
      assert (In (a, x) (nth i S [])) as C'.
      { destruct (sfind i v'); auto. destruct C as [C|C]; auto. inversion C; lia. }
      apply (mir_eq _ _ M) in C'. apply In_nth_lt in C'. unfold k in H. lia.
  - intros a. destruct (Nat.lt_trichotomy a k) as [H|[H|H]].
    + rewrite app_nth1 by (unfold k in H; auto). apply (mir_ndP _ _ M).
    + subst a. unfold k. rewrite nth_middle. auto.
    + rewrite nth_overflow by (rewrite app_length; simpl; unfold k in H; lia). constructor.
  - intros i. rewrite NS. destruct (sfind i v'); [|apply (mir_ndS _ _ M)].
    simpl. constructor; [|apply (mir_ndS _ _ M)].
    intros C. apply idx_In in C. destruct C as [x C]. eapply NK; eauto.
  - intros a i x. destruct (Nat.lt_trichotomy a k) as [H|[H|H]].
    + rewrite app_nth1 by (unfold k in H; auto). apply (mir_nz _ _ M).
    + subst a. unfold k. rewrite nth_middle. intros Hx. apply In_sclean in Hx. tauto.
    + rewrite nth_overflow by (rewrite app_length; simpl; unfold k in H; lia). intros [].
Qed.

(* ---------- move_last ---------- *)
Lemma nth_firstn {A} n (l : list A) i d : i < n -> nth i (firstn n l) d = nth i l d.
Proof.
  revert n i; induction l as [|x t IH]; intros [|n] [|i] H; simpl; auto; try lia. apply IH; lia.
Qed.

Lemma move_last_length {A} (d : A) k l : k < length l -> length (move_last d k l) = length l - 1.
Proof.
  intros H. unfold move_last. destruct (Nat.eqb_spec k (length l - 1)).
  - rewrite firstn_length. lia.
  - rewrite setn_length, firstn_length. lia.
Qed.

(* single removal: the last element moves into the hole, all others keep their number *)
Lemma nth_move_last {A} (d : A) k l i : k < length l ->
  nth i (move_last d k l) d =
  if length l - 1 <=? i then d else if i =? k then nth (length l - 1) l d else nth i l d.
Proof.
  intros H. unfold move_last. set (n := length l - 1).
  destruct (Nat.leb_spec n i) as [L|L].
  - destruct (Nat.eqb_spec k n).
    + apply nth_overflow. rewrite firstn_length. lia.
    + apply nth_overflow. rewrite setn_length, firstn_length. lia.
  - destruct (Nat.eqb_spec k n).
    + subst k. destruct (Nat.eqb_spec i n); try lia. apply nth_firstn; auto.
    + unfold setn. destruct (Nat.eqb_spec i k).
      * subst i. rewrite nth_upd_eq; auto. rewrite firstn_length. lia.
      * rewrite nth_upd_neq; auto. apply nth_firstn; auto.
Qed.

(* ---------- remove1 ---------- *)
Lemma remove1_S P S k : Mir P S -> k < length P ->
  forall i, nth i (snd (remove1 P S k)) [] = sren (length P - 1) k (sdel k (nth i S [])).
Proof.
  intros M H i. unfold remove1. simpl. set (last := length P - 1).
  assert (RGk : forall p, In p (nth k P []) -> fst p < length S).
  { intros [j y] Hp. simpl. eapply mir_bound; eauto. }
  assert (U : forall i, nth i (unlink k (nth k P []) S) [] = sdel k (nth i S [])).
  { intros j. rewrite nth_unlink; auto; [|apply (mir_ndP _ _ M)].
    destruct (shas j (nth k P [])) eqn:E; auto.
    symmetry. apply sdel_notin. intros C. apply (mir_idx _ _ _ _ (Mir_sym _ _ M)) in C.
    apply shas_spec in C. congruence. }
  destruct (Nat.eqb_spec k last).
  - subst k. rewrite sren_same. apply U.
  - rewrite nth_relink.
    + rewrite U. destruct (shas i (nth last P [])) eqn:E; auto.
      symmetry. assert (~ In last (idx (sdel k (nth i S [])))) as NI.
      { intros C. apply idx_sdel in C. destruct C as [_ C].
        apply (mir_idx _ _ _ _ (Mir_sym _ _ M)) in C. apply shas_spec in C. congruence. }
      clear - NI. induction (sdel k (nth i S [])) as [|[j y] t IH]; simpl; auto.
      destruct (Nat.eqb_spec j last).
      * subst. exfalso; apply NI; simpl; auto.
      * f_equal. apply IH. intros C; apply NI; simpl; auto.
    + apply (mir_ndP _ _ M).
    + intros [j y] Hp. rewrite unlink_length. simpl. eapply mir_bound; eauto.
Qed.

Lemma remove1_Mir P S k : Mir P S -> k < length P ->
  Mir (fst (remove1 P S k)) (snd (remove1 P S k)) /\
  fst (remove1 P S k) = move_last [] k P /\ length (snd (remove1 P S k)) = length S.
Proof.
  intros M H. pose proof (remove1_S P S k M H) as NS.
  split; [|split].
  2:{ reflexivity. }
  2:{ unfold remove1; simpl. destruct (k =? length P - 1); rewrite ?relink_length, unlink_length; auto. }
  set (last := length P - 1) in *.
  assert (NP : forall a, nth a (fst (remove1 P S k)) [] =
                         if last <=? a then [] else if a =? k then nth last P [] else nth a P []).
  { intros a. unfold remove1; simpl. apply nth_move_last; auto. }
  constructor.
  - intros a i x. rewrite NS, NP. rewrite In_sren. rewrite !In_sdel.
    destruct (Nat.leb_spec last a) as [L|L].
    + split; [intros []|]. intros [[E1 [E2 E3]]|[E1 [E2 E3]]].
      * subst a. unfold last in L. lia.
      * apply (mir_eq _ _ M) in E3. apply In_nth_lt in E3. unfold last in *. lia.
    + destruct (Nat.eqb_spec a k).
      * subst a. rewrite (mir_eq _ _ M). split.
        -- intros Hx. left. repeat split; auto. lia.
        -- intros [[_ [_ Hx]]|[_ [C _]]]; auto. contradiction.
      * rewrite (mir_eq _ _ M). split.
        -- intros Hx. right. repeat split; auto. lia.
        -- intros [[C _]|[_ [_ Hx]]]; auto. contradiction.
  - intros a. rewrite NP. destruct (last <=? a); [constructor|]. destruct (a =? k); apply (mir_ndP _ _ M).
  - intros i. rewrite NS. apply NoDup_sren.
    + apply NoDup_sdel. apply (mir_ndS _ _ M).
    + intros C. apply idx_sdel in C. tauto.
  - intros a i x. rewrite NP. destruct (last <=? a); [intros []|]. destruct (a =? k); apply (mir_nz _ _ M).
Qed.

(* ---------- replace_vec ---------- *)
Lemma idx_rev (v : svec) : idx (rev v) = rev (idx v).
Proof. unfold idx. apply map_rev. Qed.

Lemma replace_vec_Mir P S k v : Mir P S -> k < length P -> NoDup (idx v) ->
  (forall p, In p v -> fst p < length S) ->
  Mir (fst (replace_vec P S k v)) (snd (replace_vec P S k v)) /\
  fst (replace_vec P S k v) = setn k (rev (sclean v)) P /\ length (snd (replace_vec P S k v)) = length S.
Proof.
  intros M H ND RG. unfold replace_vec. rewrite fill_eq. simpl.
  set (v' := sclean v).
  assert (ND' : NoDup (idx v')) by (apply NoDup_sclean; auto).
  assert (RG' : forall p, In p v' -> fst p < length S).
  { intros p Hp. apply RG. destruct p. apply In_sclean in Hp. tauto. }
  assert (RGk : forall p, In p (nth k P []) -> fst p < length S).
  { intros [j y] Hp. simpl. eapply mir_bound; eauto. }
  assert (U : forall i, nth i (unlink k (nth k P []) S) [] = sdel k (nth i S [])).
  { intros j. rewrite nth_unlink; auto; [|apply (mir_ndP _ _ M)].
    destruct (shas j (nth k P [])) eqn:E; auto.
    symmetry. apply sdel_notin. intros C. apply (mir_idx _ _ _ _ (Mir_sym _ _ M)) in C.
    apply shas_spec in C. congruence. }
  assert (EP : upd k (fun w => rev v' ++ w) (setn k [] P) = setn k (rev v') P).
  { unfold setn. rewrite upd_upd. apply upd_ext. intros. apply app_nil_r. }
  rewrite EP.
  assert (NS : forall i, nth i (scatter k v' (unlink k (nth k P []) S)) [] =
               match sfind i v' with Some x => (k, x) :: sdel k (nth i S []) | None => sdel k (nth i S []) end).
  { intros i. rewrite nth_scatter; auto.
    - rewrite U. auto.
    - intros p Hp. rewrite unlink_length. auto. }
  assert (NP : forall a, nth a (setn k (rev v') P) [] = if a =? k then rev v' else nth a P []).
  { intros a. unfold setn. destruct (Nat.eqb_spec a k).
    - subst. apply nth_upd_eq; auto.
    - apply nth_upd_neq; auto. }
  split; [|split; auto].
  2:{ rewrite scatter_length, unlink_length. auto. }
  constructor.
  - intros a i x. rewrite NS, NP. destruct (Nat.eqb_spec a k).
    + subst a. rewrite <- in_rev. destruct (sfind i v') eqn:E.
      * apply sfind_In in E; auto. simpl. rewrite In_sdel. split.
        -- intros Hx. left. f_equal. apply (sfind_In i) in Hx; auto. apply (sfind_In i) in E; auto. congruence.
        -- intros [C|[C _]]; [inversion C; subst; auto | contradiction].
      * rewrite In_sdel. split.
        -- intros Hx. apply sfind_None in E. exfalso; apply E. eapply In_idx; eauto.
        -- intros [C _]. contradiction.
    + rewrite (mir_eq _ _ M). destruct (sfind i v'); simpl; rewrite In_sdel.
      * split; [intros Hx; right; auto|]. intros [C|[_ C]]; auto. inversion C; congruence.
      * tauto.
  - intros a. rewrite NP. destruct (a =? k); [|apply (mir_ndP _ _ M)].
    rewrite idx_rev. apply NoDup_rev. auto.
  - intros i. rewrite NS. destruct (sfind i v').
    + simpl. constructor; [|apply NoDup_sdel, (mir_ndS _ _ M)].
      intros C. apply idx_sdel in C. tauto.
    + apply NoDup_sdel, (mir_ndS _ _ M).
  - intros a i x. rewrite NP. destruct (a =? k); [|apply (mir_nz _ _ M)].
    rewrite <- in_rev. intros Hx. apply In_sclean in Hx. tauto.
Qed.

(* ---------- set_entry ---------- *)
Lemma eps_ok_notzero eps x : eps_ok eps = true -> notzero eps x = true -> dnz x = true.
Proof.
  unfold notzero, eps_ok. destruct x as [| | |m e]; simpl; auto.
  destruct m; simpl; auto. destruct eps as [| | |m1 e1]; simpl; try discriminate; auto.
  intros H. unfold dcmp_fin. rewrite Z.mul_0_l.
  destruct (Z.compare_spec (m1 * 2 ^ (e1 - Z.min e1 e)) 0) as [E|E|E]; try discriminate.
  apply Z.leb_le in H. assert (0 <= 2 ^ (e1 - Z.min e1 e))%Z by (apply Z.pow_nonneg; lia). nia.
Qed.

Lemma nth_upd_nil k (f : svec -> svec) (F : file) j : f [] = [] ->
  nth j (upd k f F) [] = if j =? k then f (nth j F []) else nth j F [].
Proof.
  intros Hf. destruct (Nat.eqb_spec j k).
  - subst. destruct (Nat.lt_ge_cases k (length F)).
    + apply nth_upd_eq; auto.
    + rewrite upd_oob; auto. rewrite nth_overflow; auto.
  - apply nth_upd_neq; auto.
Qed.

Lemma nth_upd_lt k (f : svec -> svec) (F : file) j : k < length F ->
  nth j (upd k f F) [] = if j =? k then f (nth j F []) else nth j F [].
Proof.
  intros H. destruct (Nat.eqb_spec j k).
  - subst. apply nth_upd_eq; auto.
  - apply nth_upd_neq; auto.
Qed.

Lemma set_entry_Mir eps P S k i x : Mir P S -> eps_ok eps = true -> k < length P -> i < length S ->
  Mir (fst (set_entry eps P S k i x)) (snd (set_entry eps P S k i x)) /\
  length (fst (set_entry eps P S k i x)) = length P /\ length (snd (set_entry eps P S k i x)) = length S.
Proof.
  intros M EO HK HI. unfold set_entry.
  assert (PR : shas i (nth k P []) && shas k (nth i S []) = shas i (nth k P [])).
  { destruct (shas i (nth k P [])) eqn:E; simpl; auto. apply shas_spec. apply shas_spec in E.
    apply (mir_idx _ _ _ _ M); auto. }
  rewrite PR. clear PR.
  destruct (notzero eps x) eqn:NZ; destruct (shas i (nth k P [])) eqn:HP; simpl;
    rewrite ?upd_length; (split; [|auto]).
  - (* overwrite *)
    apply shas_spec in HP. assert (HS := HP). apply (mir_idx _ _ _ _ M) in HS.
    constructor.
    + intros a b y. rewrite !nth_upd_lt by auto. pose proof (mir_eq _ _ M a b y) as Q.
      destruct (Nat.eqb_spec a k), (Nat.eqb_spec b i); subst; rewrite ?In_sset; intuition congruence.
    + intros a. rewrite nth_upd_lt by auto. destruct (a =? k); [rewrite idx_sset|]; apply (mir_ndP _ _ M).
    + intros b. rewrite nth_upd_lt by auto. destruct (b =? i); [rewrite idx_sset|]; apply (mir_ndS _ _ M).
    + intros a b y. rewrite nth_upd_lt by auto. destruct (Nat.eqb_spec a k); [|apply (mir_nz _ _ M)].
      subst. rewrite In_sset. intros [[_ [E _]]|[_ H]].
      * subst. eapply eps_ok_notzero; eauto.
      * eapply (mir_nz _ _ M); eauto.
  - (* new entry *)
    assert (NP : ~ In i (idx (nth k P []))) by (intros C; apply shas_spec in C; congruence).
    assert (NS : ~ In k (idx (nth i S []))) by (intros C; apply NP; apply (mir_idx _ _ _ _ M); auto).
    assert (NP' : forall y, ~ In (i, y) (nth k P [])) by (intros y C; apply NP; eapply In_idx; eauto).
    assert (NS' : forall y, ~ In (k, y) (nth i S [])) by (intros y C; apply NS; eapply In_idx; eauto).
    constructor.
    + intros a b y. rewrite !nth_upd_lt by auto. pose proof (mir_eq _ _ M a b y) as Q.
      destruct (Nat.eqb_spec a k), (Nat.eqb_spec b i); subst; simpl.
      * specialize (NP' y). specialize (NS' y). split; intros [E|H]; try tauto; inversion E; subst; left; reflexivity.
      * split; [intros [E|H]; [inversion E; congruence | tauto] | tauto].
      * split; [tauto | intros [E|H]; [inversion E; congruence | tauto]].
      * tauto.
    + intros a. rewrite nth_upd_lt by auto. destruct (a =? k) eqn:E; [|apply (mir_ndP _ _ M)].
      apply Nat.eqb_eq in E; subst. simpl. constructor; auto. apply (mir_ndP _ _ M).
    + intros b. rewrite nth_upd_lt by auto. destruct (b =? i) eqn:E; [|apply (mir_ndS _ _ M)].
      apply Nat.eqb_eq in E; subst. simpl. constructor; auto. apply (mir_ndS _ _ M).
    + intros a b y. rewrite nth_upd_lt by auto. destruct (Nat.eqb_spec a k); [|apply (mir_nz _ _ M)].
      subst. simpl. intros [E|H].
      * inversion E; subst. eapply eps_ok_notzero; eauto.
      * eapply (mir_nz _ _ M); eauto.
  - (* delete *)
    constructor.
    + intros a b y. rewrite !nth_upd_lt by auto. pose proof (mir_eq _ _ M a b y) as Q.
      destruct (Nat.eqb_spec a k), (Nat.eqb_spec b i); subst; rewrite ?In_sdel; intuition congruence.
    + intros a. rewrite nth_upd_lt by auto. destruct (a =? k); [apply NoDup_sdel|]; apply (mir_ndP _ _ M).
    + intros b. rewrite nth_upd_lt by auto. destruct (b =? i); [apply NoDup_sdel|]; apply (mir_ndS _ _ M).
    + intros a b y. rewrite nth_upd_lt by auto. destruct (a =? k); [|apply (mir_nz _ _ M)].
      rewrite In_sdel. intros [_ H]. eapply (mir_nz _ _ M); eauto.
  - auto.
Qed.

(* ---------- newperm / keep: the renumbering of survivors ---------- *)
Lemma newperm_length perm c : length (newperm perm c) = length perm.
Proof. revert c; induction perm as [|p t IH]; intros c; simpl; auto. destruct (0 <=? p)%Z; simpl; rewrite IH; auto. Qed.

Lemma keep_length_le {A} perm (l : list A) : length (keep perm l) <= length l.
Proof.
  revert l; induction perm as [|p t IH]; intros [|x r]; simpl; auto; try lia.
  destruct (0 <=? p)%Z; simpl; specialize (IH r); lia.
Qed.

(* removed elements keep their negative mark *)
Lemma newperm_neg perm c j : (nth j perm (-1) < 0)%Z -> nth j (newperm perm c) (-1)%Z = nth j perm (-1)%Z.
Proof.
  revert c j; induction perm as [|p t IH]; intros c [|j] H; simpl in *; auto.
  - destruct (Z.leb_spec 0 p); simpl; auto; lia.
  - destruct (Z.leb_spec 0 p); simpl; auto.
Qed.

(* a survivor is found at its new number *)
Lemma newperm_keep {A} perm (l : list A) c j d : length perm = length l -> j < length perm ->
  (0 <= nth j perm (-1))%Z ->
  exists q, nth j (newperm perm c) (-1)%Z = (c + Z.of_nat q)%Z /\ q < length (keep perm l) /\
            nth q (keep perm l) d = nth j l d.
Proof.
  revert l c j; induction perm as [|p t IH]; intros [|x r] c [|j] HL HJ HP; simpl in *; try lia.
  - destruct (Z.leb_spec 0 p); try lia. exists 0. simpl. split; [lia|]. split; [lia|auto].
  - destruct (Z.leb_spec 0 p).
    + destruct (IH r (c + 1)%Z j) as [q [E1 [E2 E3]]]; auto; try lia.
      exists (S q). simpl. split; [lia|]. split; [lia|auto].
    + destruct (IH r c j) as [q [E1 [E2 E3]]]; auto; try lia.
      exists q. auto.
Qed.

(* every element of the compacted list is a survivor *)
Lemma keep_from {A} perm (l : list A) c q : length perm = length l -> q < length (keep perm l) ->
  exists j, j < length perm /\ (0 <= nth j perm (-1))%Z /\ nth j (newperm perm c) (-1)%Z = (c + Z.of_nat q)%Z.
Proof.
  revert l c q; induction perm as [|p t IH]; intros [|x r] c q HL HQ; simpl in *; try lia.
  destruct (Z.leb_spec 0 p).
  - destruct q as [|q].
    + exists 0. simpl. repeat split; try lia.
    + simpl in HQ. destruct (IH r (c + 1)%Z q) as [j [E1 [E2 E3]]]; auto; try lia.
      exists (S j). simpl. repeat split; try lia.
  - destruct (IH r c q) as [j [E1 [E2 E3]]]; auto; try lia.
    exists (S j). simpl. repeat split; try lia.
Qed.

Lemma newperm_ge perm c j : j < length perm -> (0 <= nth j perm (-1))%Z -> (c <= nth j (newperm perm c) (-1))%Z.
Proof.
  intros H1 H2. destruct (newperm_keep perm perm c j 0%Z eq_refl H1 H2) as [q [E _]]. lia.
Qed.

(* survivors keep their relative order *)
Lemma newperm_mono perm c j1 j2 : j1 < j2 -> j2 < length perm ->
  (0 <= nth j1 perm (-1))%Z -> (0 <= nth j2 perm (-1))%Z ->
  (nth j1 (newperm perm c) (-1) < nth j2 (newperm perm c) (-1))%Z.
Proof.
  revert c j1 j2; induction perm as [|p t IH]; intros c [|j1] [|j2] H12 HL H1 H2; simpl in *; try lia.
  - destruct (Z.leb_spec 0 p); try lia. simpl.
    pose proof (newperm_ge t (c + 1)%Z j2). lia.
  - destruct (Z.leb_spec 0 p); simpl; apply IH; auto; lia.
Qed.

Lemma newperm_inj perm c j1 j2 : j1 < length perm -> j2 < length perm ->
  (0 <= nth j1 perm (-1))%Z -> (0 <= nth j2 perm (-1))%Z ->
  nth j1 (newperm perm c) (-1)%Z = nth j2 (newperm perm c) (-1)%Z -> j1 = j2.
Proof.
  intros L1 L2 H1 H2 E. destruct (Nat.lt_trichotomy j1 j2) as [H|[H|H]]; auto.
  - pose proof (newperm_mono perm c j1 j2 H L2 H1 H2). lia.
  - pose proof (newperm_mono perm c j2 j1 H L1 H2 H1). lia.
Qed.

Lemma newperm_sign perm c j : (0 <= c)%Z -> ((0 <= nth j (newperm perm c) (-1))%Z <-> (0 <= nth j perm (-1))%Z).
Proof.
  intros HC. destruct (Nat.lt_ge_cases j (length perm)) as [L|L].
  - destruct (Z.leb_spec 0 (nth j perm (-1)%Z)) as [H|H].
    + pose proof (newperm_ge perm c j L H). lia.
    + rewrite newperm_neg; auto. lia.
  - rewrite !nth_overflow; try lia. rewrite newperm_length; auto.
Qed.

(* ---------- remove_perm ---------- *)
Lemma NoDup_sreindex np v : NoDup (idx v) ->
  (forall j1 j2, In j1 (idx v) -> In j2 (idx v) -> (0 <= nth j1 np (-1))%Z -> nth j1 np (-1)%Z = nth j2 np (-1)%Z -> j1 = j2) ->
  NoDup (idx (sreindex np v)).
Proof.
  induction v as [|[j y] t IH]; intros ND INJ; simpl; [constructor|].
  inversion ND as [|? ? NI NDt]; subst.
  assert (NoDup (idx (sreindex np t))) as IHt.
  { apply IH; auto. intros j1 j2 G1 G2. apply INJ; simpl; auto. }
  unfold sreindex in *. simpl. destruct (Z.leb_spec 0 (nth j np (-1)%Z)); simpl; auto.
  constructor; auto. intros C. apply idx_In in C. destruct C as [x C].
  apply In_sreindex in C. destruct C as [j' [C1 [C2 C3]]].
  assert (j = j').
  { apply INJ; simpl; auto. right. eapply In_idx; eauto. lia. }
  subst j'. apply NI. eapply In_idx; eauto.
Qed.

Lemma remove_perm_Mir P S perm : Mir P S -> length perm = length P ->
  let '(P', S', np) := remove_perm P S perm in
  Mir P' S' /\ P' = keep perm P /\ length S' = length S /\ np = newperm perm 0.
Proof.
  intros M HL. unfold remove_perm. set (np := newperm perm 0%Z).
  split; [|split; [auto|split; [apply map_length|auto]]].
  assert (NS : forall i, nth i (map (sreindex np) S) [] = sreindex np (nth i S [])).
  { intros i. change (@nil (nat * dbl)) with (sreindex np []) at 1. apply map_nth. }
  constructor.
  - intros q i x. rewrite NS, In_sreindex. split.
    + intros H. assert (QL := In_nth_lt _ _ _ H).
      destruct (keep_from perm P 0%Z q HL QL) as [j [E1 [E2 E3]]].
      destruct (newperm_keep perm P 0%Z j [] HL E1 E2) as [q' [F1 [F2 F3]]].
      assert (q' = q) by (rewrite E3 in F1; lia). subst q'.
      exists j. rewrite F3 in H. apply (mir_eq _ _ M) in H. split; auto. unfold np. rewrite E3. split; lia.
    + intros [j [H1 [H2 H3]]]. apply (mir_eq _ _ M) in H1. assert (JL := In_nth_lt _ _ _ H1).
      rewrite <- HL in JL. assert (0 <= nth j perm (-1))%Z as KP by (apply (newperm_sign perm 0%Z j); auto; lia).
      destruct (newperm_keep perm P 0%Z j [] HL JL KP) as [q' [F1 [F2 F3]]].
      fold np in F1. assert (q = q') by lia. subst q'. rewrite F3. auto.
  - intros q. destruct (Nat.lt_ge_cases q (length (keep perm P))) as [QL|QL].
    + destruct (keep_from perm P 0%Z q HL QL) as [j [E1 [E2 E3]]].
      destruct (newperm_keep perm P 0%Z j [] HL E1 E2) as [q' [F1 [F2 F3]]].
      assert (q' = q) by lia. subst q'. rewrite F3. apply (mir_ndP _ _ M).
    + rewrite nth_overflow; auto. constructor.
  - intros i. rewrite NS. apply NoDup_sreindex; [apply (mir_ndS _ _ M)|].
    intros j1 j2 H1 H2 H3 H4.
    assert (J1 : j1 < length perm).
    { rewrite HL. apply (mir_idx_bound S P i j1 (Mir_sym _ _ M) H1). }
    assert (J2 : j2 < length perm).
    { rewrite HL. apply (mir_idx_bound S P i j2 (Mir_sym _ _ M) H2). }
    unfold np in *. apply (newperm_inj perm 0%Z); auto.
    * apply (newperm_sign perm 0%Z j1); auto; lia.
    * apply (newperm_sign perm 0%Z j2); auto; try lia.
  - intros q i x H. assert (QL := In_nth_lt _ _ _ H).
    destruct (keep_from perm P 0%Z q HL QL) as [j [E1 [E2 E3]]].
    destruct (newperm_keep perm P 0%Z j [] HL E1 E2) as [q' [F1 [F2 F3]]].
    assert (q' = q) by lia. subst q'. rewrite F3 in H. eapply (mir_nz _ _ M); eauto.
Qed.

(* ---------- invariant of the LP ---------- *)
Record LInv (l : lp) : Prop := mkLInv {
  li_mir : Mir (rf l) (cf l);
  li_lhs : length (lhs l) = length (rf l);
  li_rhs : length (rhs l) = length (rf l);
  li_obj : length (obj l) = length (cf l);
  li_lo : length (lo l) = length (cf l);
  li_up : length (up l) = length (cf l)
}.

Lemma nodupb_spec l : nodupb l = true -> NoDup l.
Proof.
  induction l as [|x t IH]; simpl; intros H; [constructor|].
  apply andb_true_iff in H. destruct H as [H1 H2]. constructor; auto.
  intros C. apply negb_true_iff in H1. assert (existsb (Nat.eqb x) t = true); [|congruence].
  apply existsb_exists. exists x. split; auto. apply Nat.eqb_refl.
Qed.

Lemma vec_ok_nodup b v : vec_ok b v = true -> NoDup (idx v).
Proof. unfold vec_ok. intros H. apply andb_true_iff in H. apply nodupb_spec. tauto. Qed.

Lemma vec_ok_bound n v : vec_ok (Some n) v = true -> forall p, In p v -> fst p < n.
Proof.
  unfold vec_ok. intros H p Hp. apply andb_true_iff in H. destruct H as [_ H].
  rewrite forallb_forall in H. apply H in Hp. apply Nat.ltb_lt; auto.
Qed.

Lemma keep_length_eq {A B} perm (l1 : list A) (l2 : list B) : length l1 = length l2 ->
  length (keep perm l1) = length (keep perm l2).
Proof.
  revert l1 l2; induction perm as [|p t IH]; intros [|x r] [|y s] H; simpl in *; auto; try lia.
  destruct (0 <=? p)%Z; simpl; auto.
Qed.

Lemma move_last_length_eq {A B} (d1 : A) (d2 : B) k l1 l2 : length l1 = length l2 -> k < length l1 ->
  length (move_last d1 k l1) = length (move_last d2 k l2).
Proof. intros H K. rewrite !move_last_length; lia. Qed.

Lemma add_row_LInv inf r l : LInv l -> NoDup (idx (snd r)) -> LInv (add_row inf r l).
Proof.
  intros I ND. destruct r as [[a b] v]. unfold add_row. simpl in ND.
  pose proof (add_vec_Mir (rf l) (cf l) v (li_mir _ I) ND) as H.
  destruct (add_vec (rf l) (cf l) v) as [[P S] g]. destruct H as [M [EP ES]].
  destruct I. constructor; simpl; auto; subst P; rewrite ?app_length, ?repeat_length; simpl; lia.
Qed.

Lemma add_col_LInv inf c l : LInv l -> NoDup (idx (snd c)) -> LInv (add_col inf c l).
Proof.
  intros I ND. destruct c as [[[o a] b] v]. unfold add_col. simpl in ND.
  pose proof (add_vec_Mir (cf l) (rf l) v (Mir_sym _ _ (li_mir _ I)) ND) as H.
  destruct (add_vec (cf l) (rf l) v) as [[P S] g]. destruct H as [M [EP ES]].
  destruct I. constructor; simpl; auto; [apply Mir_sym; auto|..]; subst P;
    rewrite ?app_length, ?repeat_length; simpl; lia.
Qed.

Lemma change_row_LInv i r l : LInv l -> i < nrows l -> NoDup (idx (snd r)) ->
  (forall p, In p (snd r) -> fst p < ncols l) -> LInv (change_row i r l).
Proof.
  intros I HI ND RG. destruct r as [[a b] v]. unfold change_row. simpl in ND, RG.
  pose proof (replace_vec_Mir (rf l) (cf l) i v (li_mir _ I) HI ND RG) as H.
  destruct (replace_vec (rf l) (cf l) i v) as [P S]. simpl in H. destruct H as [M [EP ES]].
  destruct I. constructor; simpl; auto; subst P; rewrite ?setn_length; lia.
Qed.

Lemma change_col_LInv j c l : LInv l -> j < ncols l -> NoDup (idx (snd c)) ->
  (forall p, In p (snd c) -> fst p < nrows l) -> LInv (change_col j c l).
Proof.
  intros I HI ND RG. destruct c as [[[o a] b] v]. unfold change_col. simpl in ND, RG.
  pose proof (replace_vec_Mir (cf l) (rf l) j v (Mir_sym _ _ (li_mir _ I)) HI ND RG) as H.
  destruct (replace_vec (cf l) (rf l) j v) as [P S]. simpl in H. destruct H as [M [EP ES]].
  destruct I. constructor; simpl; auto; [apply Mir_sym; auto|..]; subst P; rewrite ?setn_length; lia.
Qed.

Lemma change_elem_LInv eps i j x l : LInv l -> eps_ok eps = true -> i < nrows l -> j < ncols l ->
  LInv (change_elem eps i j x l).
Proof.
  intros I EO HI HJ. unfold change_elem.
  pose proof (set_entry_Mir eps (rf l) (cf l) i j x (li_mir _ I) EO HI HJ) as H.
  destruct (set_entry eps (rf l) (cf l) i j x) as [P S]. simpl in H. destruct H as [M [EP ES]].
  destruct I. constructor; simpl; auto; lia.
Qed.

Lemma remove_row_LInv i l : LInv l -> LInv (remove_row i l).
Proof.
  intros I. unfold remove_row. destruct (Nat.ltb_spec i (nrows l)) as [HI|HI]; auto.
  pose proof (remove1_Mir (rf l) (cf l) i (li_mir _ I) HI) as H.
  destruct (remove1 (rf l) (cf l) i) as [P S]. simpl in H. destruct H as [M [EP ES]].
  destruct I. unfold nrows in HI. constructor; simpl; auto; try lia; subst P;
    apply move_last_length_eq; auto; lia.
Qed.

Lemma remove_col_LInv j l : LInv l -> LInv (remove_col j l).
Proof.
  intros I. unfold remove_col. destruct (Nat.ltb_spec j (ncols l)) as [HI|HI]; auto.
  pose proof (remove1_Mir (cf l) (rf l) j (Mir_sym _ _ (li_mir _ I)) HI) as H.
  destruct (remove1 (cf l) (rf l) j) as [P S]. simpl in H. destruct H as [M [EP ES]].
  destruct I. unfold ncols in HI. constructor; simpl; auto; [apply Mir_sym; auto|try lia..]; subst P;
    apply move_last_length_eq; auto; lia.
Qed.

Lemma remove_rows_LInv perm l : LInv l -> length perm = nrows l -> LInv (fst (remove_rows perm l)).
Proof.
  intros I HL. unfold remove_rows.
  pose proof (remove_perm_Mir (rf l) (cf l) perm (li_mir _ I) HL) as H.
  destruct (remove_perm (rf l) (cf l) perm) as [[P S] np]. destruct H as [M [EP [ES _]]].
  destruct I. constructor; simpl; auto; try lia; subst P; apply keep_length_eq; auto.
Qed.

Lemma remove_cols_LInv perm l : LInv l -> length perm = ncols l -> LInv (fst (remove_cols perm l)).
Proof.
  intros I HL. unfold remove_cols.
  pose proof (remove_perm_Mir (cf l) (rf l) perm (Mir_sym _ _ (li_mir _ I)) HL) as H.
  destruct (remove_perm (cf l) (rf l) perm) as [[P S] np]. destruct H as [M [EP [ES _]]].
  destruct I. constructor; simpl; auto; [apply Mir_sym; auto|try lia..]; subst P; apply keep_length_eq; auto.
Qed.

Lemma idx_to_perm_length n idx : length (idx_to_perm n idx) = n.
Proof.
  unfold idx_to_perm.
  assert (forall l : list Z, length (fold_left (fun p i => setn i (-1)%Z p) idx l) = length l) as H.
  { induction idx as [|i t IH]; intros l; simpl; auto. rewrite IH. apply setn_length. }
  rewrite H, map_length, seq_length. auto.
Qed.

Lemma range_to_perm_length n a b : length (range_to_perm n a b) = n.
Proof. unfold range_to_perm. rewrite map_length, seq_length. auto. Qed.

Lemma empty_LInv mx : LInv (empty_lp mx).
Proof. constructor; simpl; auto. apply Mir_nil. Qed.

Lemma fold_add_row_LInv inf rs l : LInv l -> forallb (fun r => vec_ok None (snd r)) rs = true ->
  LInv (fold_left (fun l r => add_row inf r l) rs l).
Proof.
  revert l; induction rs as [|r t IH]; intros l I H; simpl in *; auto.
  apply andb_true_iff in H. destruct H as [H1 H2]. apply IH; auto.
  apply add_row_LInv; auto. eapply vec_ok_nodup; eauto.
Qed.

Lemma fold_add_col_LInv inf cs l : LInv l -> forallb (fun c => vec_ok None (snd c)) cs = true ->
  LInv (fold_left (fun l c => add_col inf c l) cs l).
Proof.
  revert l; induction cs as [|c t IH]; intros l I H; simpl in *; auto.
  apply andb_true_iff in H. destruct H as [H1 H2]. apply IH; auto.
  apply add_col_LInv; auto. eapply vec_ok_nodup; eauto.
Qed.

Definition SInv (s : state) : Prop := LInv (L s) /\ eps_ok (eps s) = true.

Lemma apply_LInv s o : SInv s -> valid_op (nrows (L s)) (ncols (L s)) o = true -> LInv (fst (apply s o)).
Proof.
  intros [I EO] V. pose proof I as I0. destruct I as [M H1 H2 H3 H4 H5].
  destruct o; simpl in V |- *;
    repeat match goal with
           | r : rowspec |- _ => destruct r as [[? ?] ?]
           | c : colspec |- _ => destruct c as [[[? ?] ?] ?]
           | H : _ && _ = true |- _ => apply andb_true_iff in H; destruct H
           | H : (_ <? _) = true |- _ => apply Nat.ltb_lt in H
           | H : (_ =? _) = true |- _ => apply Nat.eqb_eq in H
           end;
    try (constructor; simpl; rewrite ?setn_length, ?map_length; auto; unfold nrows, ncols in *; congruence).
  - apply add_row_LInv; auto. eapply vec_ok_nodup; eauto.
  - apply fold_add_row_LInv; auto.
  - apply add_col_LInv; auto. eapply vec_ok_nodup; eauto.
  - apply fold_add_col_LInv; auto.
  - apply change_row_LInv; auto. eapply vec_ok_nodup; eauto. apply vec_ok_bound; auto.
  - apply change_col_LInv; auto. eapply vec_ok_nodup; eauto. apply vec_ok_bound; auto.
  - apply change_elem_LInv; auto.
  - apply remove_row_LInv; auto.
  - apply remove_rows_LInv; auto.
  - apply remove_rows_LInv; auto. apply idx_to_perm_length.
  - apply remove_rows_LInv; auto. apply range_to_perm_length.
  - apply remove_col_LInv; auto.
  - apply remove_cols_LInv; auto.
  - apply remove_cols_LInv; auto. apply idx_to_perm_length.
  - apply remove_cols_LInv; auto. apply range_to_perm_length.
  - apply empty_LInv.
  - unfold change_sense. constructor; simpl; auto. destruct (Bool.eqb mx (lmax (L s))); rewrite ?map_length; auto.
Qed.

Lemma step_SInv s o : SInv s -> valid_op (nrows (L s)) (ncols (L s)) o = true -> SInv (fst (step s o)).
Proof.
  intros I V. pose proof (apply_LInv s o I V) as A. destruct I as [I EO].
  destruct o; try (unfold step; destruct (apply s _); split; simpl in *; auto; fail);
    simpl; split; simpl; auto.
Qed.

(* validity of a whole history: every call is inside the documented domain when it is made *)
Fixpoint valid_run (s : state) (ops : list op) : bool :=
  match ops with
  | [] => true
  | o :: t => valid_op (nrows (L s)) (ncols (L s)) o && valid_run (fst (step s o)) t
  end.

Lemma run_SInv ops : forall s, SInv s -> valid_run s ops = true -> SInv (run s ops).
Proof.
  induction ops as [|o t IH]; intros s I V; simpl in *; auto.
  apply andb_true_iff in V. destruct V as [V1 V2]. apply IH; auto. apply step_SInv; auto.
Qed.

Lemma init_SInv mx eps inf : eps_ok eps = true -> SInv (init mx eps inf).
Proof. intros H. split; simpl; auto. apply empty_LInv. Qed.

(* ---------- dense view of a file ---------- *)
Definition dg (F : file) (k i : nat) : dbl := sget i (nth k F []).
(* dense view of a sparse vector handed to the interface (exact zeros are not stored) *)
Definition dvec (v : svec) (i : nat) : dbl := sget i (sclean v).

Lemma sget_nil i : sget i [] = dzero.
Proof. reflexivity. Qed.

Lemma sget_cons b i x w : sget b ((i, x) :: w) = if b =? i then x else sget b w.
Proof. unfold sget, sfind. simpl. rewrite (Nat.eqb_sym i b). destruct (b =? i); auto. Qed.

Lemma sget_sdel b i w : sget b (sdel i w) = if b =? i then dzero else sget b w.
Proof.
  induction w as [|[j y] t IH]; simpl.
  - destruct (b =? i); auto.
  - destruct (Nat.eqb_spec j i); simpl.
    + subst j. rewrite IH, sget_cons. destruct (b =? i); auto.
    + rewrite !sget_cons, IH. destruct (Nat.eqb_spec b i); auto.
      subst. destruct (Nat.eqb_spec i j); auto. congruence.
Qed.

Lemma sget_sset b i x w : sget b (sset i x w) = if (b =? i) && shas i w then x else sget b w.
Proof.
  induction w as [|[j y] t IH]; simpl.
  - rewrite andb_false_r. auto.
  - destruct (Nat.eqb_spec j i); simpl.
    + subst j. rewrite !sget_cons. destruct (Nat.eqb_spec b i); simpl; auto.
    + rewrite !sget_cons, IH. destruct (Nat.eqb_spec b j); auto.
      subst. destruct (Nat.eqb_spec j i); simpl; auto. congruence.
Qed.

Lemma sget_rev i w : NoDup (idx w) -> sget i (rev w) = sget i w.
Proof.
  intros ND. apply sget_ext; auto.
  - rewrite idx_rev. apply NoDup_rev; auto.
  - intros j x. symmetry. apply in_rev.
Qed.

Lemma dg_oob F k i : length F <= k -> dg F k i = dzero.
Proof. intros H. unfold dg. rewrite nth_overflow; auto. Qed.

Lemma dg_app_last P v k i : dg (P ++ [v]) k i = if k =? length P then sget i v else dg P k i.
Proof.
  unfold dg. destruct (Nat.lt_trichotomy k (length P)) as [H|[H|H]].
  - rewrite app_nth1; auto. destruct (Nat.eqb_spec k (length P)); auto; lia.
  - subst. rewrite nth_middle, Nat.eqb_refl. auto.
  - rewrite !nth_overflow; try lia. destruct (Nat.eqb_spec k (length P)); auto; lia. rewrite app_length; simpl; lia.
Qed.

Lemma dg_setn P k v a i : k < length P -> dg (setn k v P) a i = if a =? k then sget i v else dg P a i.
Proof.
  intros H. unfold dg, setn. destruct (Nat.eqb_spec a k).
  - subst. rewrite nth_upd_eq; auto.
  - rewrite nth_upd_neq; auto.
Qed.

Lemma dg_move_last P k a i : k < length P ->
  dg (move_last [] k P) a i = if length P - 1 <=? a then dzero else if a =? k then dg P (length P - 1) i else dg P a i.
Proof.
  intros H. unfold dg. rewrite nth_move_last; auto. unfold file, svec in *.
  destruct (length P - 1 <=? a); auto. destruct (a =? k); auto.
Qed.

(* the old numbers of the survivors, in order *)
Definition kept (perm : list Z) : list nat := keep perm (seq 0 (length perm)).

Lemma keep_map_seq {A} perm (l : list A) d s : length perm = length l ->
  keep perm l = map (fun j => nth (j - s) l d) (keep perm (seq s (length perm))).
Proof.
  revert l s; induction perm as [|p t IH]; intros [|x r] s H; simpl in *; auto; try lia.
  destruct (0 <=? p)%Z; simpl.
  - rewrite Nat.sub_diag. f_equal. rewrite (IH r (S s)) by lia.
    apply map_ext_in. intros j Hj.
    assert (S s <= j).
    { clear - Hj. revert Hj. generalize (S s) as a. generalize (length t) as n. clear.
      intros n a. revert a t. induction n as [|n IHn]; intros a t Hj.
      - destruct t; simpl in Hj; tauto.
      - destruct t as [|q t]; simpl in Hj; [tauto|]. destruct (0 <=? q)%Z.
        + destruct Hj as [Hj|Hj]; [lia|]. apply IHn in Hj. lia.
        + apply IHn in Hj. lia. }
    replace (j - s) with (S (j - S s)) by lia. reflexivity.
  - rewrite (IH r (S s)) by lia. apply map_ext_in. intros j Hj.
    assert (S s <= j).
    { clear - Hj. revert Hj. generalize (S s) as a. generalize (length t) as n. clear.
      intros n a. revert a t. induction n as [|n IHn]; intros a t Hj.
      - destruct t; simpl in Hj; tauto.
      - destruct t as [|q t]; simpl in Hj; [tauto|]. destruct (0 <=? q)%Z.
        + destruct Hj as [Hj|Hj]; [lia|]. apply IHn in Hj. lia.
        + apply IHn in Hj. lia. }
    replace (j - s) with (S (j - S s)) by lia. reflexivity.
Qed.

Lemma keep_kept {A} perm (l : list A) d : length perm = length l ->
  keep perm l = map (fun j => nth j l d) (kept perm).
Proof.
  intros H. rewrite (keep_map_seq perm l d 0 H). unfold kept. apply map_ext. intros j. f_equal. lia.
Qed.

Lemma nth_map_nth_error {A B} (f : A -> B) l q d :
  nth q (map f l) d = match nth_error l q with Some j => f j | None => d end.
Proof.
  revert q; induction l as [|x t IH]; intros [|q]; simpl; auto.
Qed.

Lemma dg_keep P perm q i : length perm = length P ->
  dg (keep perm P) q i = match nth_error (kept perm) q with Some j => dg P j i | None => dzero end.
Proof.
  intros H. unfold dg. rewrite (keep_kept perm P [] H).
  etransitivity; [apply f_equal; apply nth_map_nth_error|].
  destruct (nth_error (kept perm) q); reflexivity.
Qed.

(* ---------- the abstract (dense) LP and the specification of every call on it ---------- *)
Record alp := mkA {
  a_m : nat; a_n : nat;
  a_lhs : list dbl; a_rhs : list dbl;
  a_obj : list dbl;             (* objective as the user states it *)
  a_lo : list dbl; a_up : list dbl;
  a_max : bool;
  a_A : nat -> nat -> dbl      (* dense matrix; zero outside m x n *)
}.

Definition abs (l : lp) : alp :=
  mkA (nrows l) (ncols l) (lhs l) (rhs l) (uobj l) (lo l) (up l) (lmax l) (dg (rf l)).

Definition aeq (x y : alp) : Prop :=
  a_m x = a_m y /\ a_n x = a_n y /\ a_lhs x = a_lhs y /\ a_rhs x = a_rhs y /\ a_obj x = a_obj y /\
  a_lo x = a_lo y /\ a_up x = a_up y /\ a_max x = a_max y /\ forall i j, a_A x i j = a_A y i j.

Lemma aeq_refl x : aeq x x.
Proof. unfold aeq; repeat split; auto. Qed.

Definition s_add_row (inf : dbl) (r : rowspec) (x : alp) : alp :=
  let '(a, b, v) := r in
  let g := maxidx1 (sclean v) - a_n x in
  mkA (S (a_m x)) (a_n x + g) (a_lhs x ++ [a]) (a_rhs x ++ [b])
      (a_obj x ++ repeat dzero g) (a_lo x ++ repeat dzero g) (a_up x ++ repeat inf g) (a_max x)
      (fun i j => if i =? a_m x then dvec v j else a_A x i j).

Definition s_add_col (inf : dbl) (c : colspec) (x : alp) : alp :=
  let '(o, a, b, v) := c in
  let g := maxidx1 (sclean v) - a_m x in
  mkA (a_m x + g) (S (a_n x)) (a_lhs x ++ repeat dzero g) (a_rhs x ++ repeat inf g)
      (a_obj x ++ [o]) (a_lo x ++ [a]) (a_up x ++ [b]) (a_max x)
      (fun i j => if j =? a_n x then dvec v i else a_A x i j).

Definition s_change_row (i : nat) (r : rowspec) (x : alp) : alp :=
  let '(a, b, v) := r in
  mkA (a_m x) (a_n x) (setn i a (a_lhs x)) (setn i b (a_rhs x)) (a_obj x) (a_lo x) (a_up x) (a_max x)
      (fun k j => if k =? i then dvec v j else a_A x k j).

Definition s_change_col (j : nat) (c : colspec) (x : alp) : alp :=
  let '(o, a, b, v) := c in
  mkA (a_m x) (a_n x) (a_lhs x) (a_rhs x) (setn j o (a_obj x)) (setn j a (a_lo x)) (setn j b (a_up x)) (a_max x)
      (fun i k => if k =? j then dvec v i else a_A x i k).

Definition s_change_elem (eps : dbl) (i j : nat) (v : dbl) (x : alp) : alp :=
  mkA (a_m x) (a_n x) (a_lhs x) (a_rhs x) (a_obj x) (a_lo x) (a_up x) (a_max x)
      (fun r c => if (r =? i) && (c =? j) then (if notzero eps v then v else dzero) else a_A x r c).

Definition s_remove_row (i : nat) (x : alp) : alp :=
  if i <? a_m x then
    mkA (a_m x - 1) (a_n x) (move_last dzero i (a_lhs x)) (move_last dzero i (a_rhs x))
        (a_obj x) (a_lo x) (a_up x) (a_max x)
        (fun r c => if a_m x - 1 <=? r then dzero else if r =? i then a_A x (a_m x - 1) c else a_A x r c)
  else x.

Definition s_remove_col (j : nat) (x : alp) : alp :=
  if j <? a_n x then
    mkA (a_m x) (a_n x - 1) (a_lhs x) (a_rhs x)
        (move_last dzero j (a_obj x)) (move_last dzero j (a_lo x)) (move_last dzero j (a_up x)) (a_max x)
        (fun r c => if a_n x - 1 <=? c then dzero else if c =? j then a_A x r (a_n x - 1) else a_A x r c)
  else x.

Definition s_remove_rows (perm : list Z) (x : alp) : alp :=
  mkA (length (kept perm)) (a_n x) (keep perm (a_lhs x)) (keep perm (a_rhs x)) (a_obj x) (a_lo x) (a_up x) (a_max x)
      (fun q c => match nth_error (kept perm) q with Some i => a_A x i c | None => dzero end).

Definition s_remove_cols (perm : list Z) (x : alp) : alp :=
  mkA (a_m x) (length (kept perm)) (a_lhs x) (a_rhs x)
      (keep perm (a_obj x)) (keep perm (a_lo x)) (keep perm (a_up x)) (a_max x)
      (fun r q => match nth_error (kept perm) q with Some j => a_A x r j | None => dzero end).

Definition a_with_lhs v x := mkA (a_m x) (a_n x) v (a_rhs x) (a_obj x) (a_lo x) (a_up x) (a_max x) (a_A x).
Definition a_with_rhs v x := mkA (a_m x) (a_n x) (a_lhs x) v (a_obj x) (a_lo x) (a_up x) (a_max x) (a_A x).
Definition a_with_obj v x := mkA (a_m x) (a_n x) (a_lhs x) (a_rhs x) v (a_lo x) (a_up x) (a_max x) (a_A x).
Definition a_with_lo v x := mkA (a_m x) (a_n x) (a_lhs x) (a_rhs x) (a_obj x) v (a_up x) (a_max x) (a_A x).
Definition a_with_up v x := mkA (a_m x) (a_n x) (a_lhs x) (a_rhs x) (a_obj x) (a_lo x) v (a_max x) (a_A x).
Definition a_with_max b x := mkA (a_m x) (a_n x) (a_lhs x) (a_rhs x) (a_obj x) (a_lo x) (a_up x) b (a_A x).
Definition a_empty (mx : bool) := mkA 0 0 [] [] [] [] [] mx (fun _ _ => dzero).

(* the specification: what each call does to the dense LP *)
Definition spec_apply (inf eps : dbl) (pm : bool) (x : alp) (o : op) : alp :=
  match o with
  | AddRow r => s_add_row inf r x
  | AddRows rs => fold_left (fun x r => s_add_row inf r x) rs x
  | AddCol c => s_add_col inf c x
  | AddCols cs => fold_left (fun x c => s_add_col inf c x) cs x
  | ChgRow i r => s_change_row i r x
  | ChgCol j c => s_change_col j c x
  | ChgLhs i v => a_with_lhs (setn i v (a_lhs x)) x
  | ChgLhsV vs => a_with_lhs vs x
  | ChgRhs i v => a_with_rhs (setn i v (a_rhs x)) x
  | ChgRhsV vs => a_with_rhs vs x
  | ChgRange i a b => a_with_rhs (setn i b (a_rhs x)) (a_with_lhs (setn i a (a_lhs x)) x)
  | ChgRangeV ls rs => a_with_rhs rs (a_with_lhs ls x)
  | ChgLo j v => a_with_lo (setn j v (a_lo x)) x
  | ChgLoV vs => a_with_lo vs x
  | ChgUp j v => a_with_up (setn j v (a_up x)) x
  | ChgUpV vs => a_with_up vs x
  | ChgBnd j a b => a_with_up (setn j b (a_up x)) (a_with_lo (setn j a (a_lo x)) x)
  | ChgBndV ls us => a_with_up us (a_with_lo ls x)
  | ChgObj j v => a_with_obj (setn j v (a_obj x)) x
  | ChgObjV vs => a_with_obj vs x
  | ChgElem i j v => s_change_elem eps i j v x
  | RemRow i => s_remove_row i x
  | RemRowsPerm perm => s_remove_rows perm x
  | RemRowsIdx idx => s_remove_rows (idx_to_perm (a_m x) idx) x
  | RemRowRange a b => s_remove_rows (range_to_perm (a_m x) a b) x
  | RemCol j => s_remove_col j x
  | RemColsPerm perm => s_remove_cols perm x
  | RemColsIdx idx => s_remove_cols (idx_to_perm (a_n x) idx) x
  | RemColRange a b => s_remove_cols (range_to_perm (a_n x) a b) x
  | ClearLP => a_empty pm
  | SetSense mx => a_with_max mx x
  | Optimize _ _ | GetBasis | SetBasis | ClearBasis _ => x
  end.

(* ---------- small facts ---------- *)
Lemma dneg_invol v : dneg (dneg v) = v.
Proof. destruct v; simpl; auto. rewrite Z.opp_involutive. auto. Qed.

Lemma sgn_invol mx v : sgn mx (sgn mx v) = v.
Proof. destruct mx; simpl; auto. apply dneg_invol. Qed.

Lemma sgn_zero mx : sgn mx dzero = dzero.
Proof. destruct mx; reflexivity. Qed.

Lemma map_repeat' {A B} (f : A -> B) x n : map f (repeat x n) = repeat (f x) n.
Proof. induction n; simpl; auto. f_equal; auto. Qed.

Lemma map_upd {A B} (f : A -> B) k g g' l : (forall x, f (g x) = g' (f x)) -> map f (upd k g l) = upd k g' (map f l).
Proof. intros H. revert k; induction l as [|x t IH]; intros [|k]; simpl; auto; f_equal; auto. Qed.

Lemma map_move_last {A B} (f : A -> B) d k l : map f (move_last d k l) = move_last (f d) k (map f l).
Proof.
  unfold move_last. rewrite map_length. destruct (k =? length l - 1).
  - symmetry. apply firstn_map.
  - unfold setn. rewrite (map_upd f k (fun _ => nth (length l - 1) l d) (fun _ => nth (length l - 1) (map f l) (f d))).
    + f_equal. symmetry. apply firstn_map.
    + intros _. symmetry. apply map_nth.
Qed.

Lemma map_keep {A B} (f : A -> B) perm l : map f (keep perm l) = keep perm (map f l).
Proof.
  revert l; induction perm as [|p t IH]; intros [|x r]; simpl; auto.
  destruct (0 <=? p)%Z; simpl; rewrite IH; auto.
Qed.

Lemma uobj_app l1 mx x : map (sgn mx) (l1 ++ [sgn mx x]) = map (sgn mx) l1 ++ [x].
Proof. rewrite map_app. simpl. rewrite sgn_invol. auto. Qed.

Lemma kept_length {A} perm (l : list A) : length perm = length l -> length (keep perm l) = length (kept perm).
Proof. intros H. unfold kept. apply keep_length_eq. rewrite seq_length. auto. Qed.

Lemma dg_sym P S i k : Mir P S -> dg S i k = dg P k i.
Proof. intros M. unfold dg. symmetry. apply mir_sget; auto. Qed.

Ltac aeq_split := unfold aeq; simpl; repeat match goal with |- _ /\ _ => split end.
Ltac len_tac := unfold nrows, ncols in *; subst; simpl;
  rewrite ?setn_length, ?app_length, ?scatter_length, ?repeat_length, ?map_length; simpl; auto; try lia.

Lemma add_row_ref inf r l : LInv l -> NoDup (idx (snd r)) -> aeq (abs (add_row inf r l)) (s_add_row inf r (abs l)).
Proof.
  intros I ND. destruct r as [[a b] v]. simpl in ND. unfold add_row, s_add_row.
  pose proof (add_vec_Mir (rf l) (cf l) v (li_mir _ I) ND) as H.
  unfold add_vec in *. simpl in *. destruct H as [M [_ ES]].
  aeq_split; auto; unfold nrows, ncols, uobj; simpl.
  - rewrite app_length. simpl. lia.
  - rewrite map_app, map_repeat', sgn_zero. auto.
  - intros i j. rewrite dg_app_last. reflexivity.
Qed.

Lemma add_col_ref inf c l : LInv l -> NoDup (idx (snd c)) -> aeq (abs (add_col inf c l)) (s_add_col inf c (abs l)).
Proof.
  intros I ND. destruct c as [[[o a] b] v]. simpl in ND. unfold add_col, s_add_col.
  pose proof (add_vec_Mir (cf l) (rf l) v (Mir_sym _ _ (li_mir _ I)) ND) as H.
  unfold add_vec in *. simpl in *. destruct H as [M [_ ES]].
  aeq_split; auto; unfold nrows, ncols, uobj; simpl.
  - rewrite app_length. simpl. lia.
  - apply uobj_app.
  - intros i j. rewrite (dg_sym _ _ i j M). rewrite dg_app_last.
    destruct (j =? length (cf l)); auto. apply (dg_sym (rf l) (cf l)). apply (li_mir _ I).
Qed.

Lemma change_row_ref i r l : LInv l -> i < nrows l -> NoDup (idx (snd r)) ->
  (forall p, In p (snd r) -> fst p < ncols l) -> aeq (abs (change_row i r l)) (s_change_row i r (abs l)).
Proof.
  intros I HI ND RG. destruct r as [[a b] v]. simpl in ND, RG. unfold change_row, s_change_row.
  pose proof (replace_vec_Mir (rf l) (cf l) i v (li_mir _ I) HI ND RG) as H.
  destruct (replace_vec (rf l) (cf l) i v) as [P S]. simpl in H. destruct H as [M [EP ES]].
  aeq_split; auto; try solve [len_tac]; unfold nrows, ncols, uobj; simpl; subst P.
  - intros k j. rewrite dg_setn; auto. destruct (k =? i); auto.
    unfold dvec. apply sget_rev. apply NoDup_sclean; auto.
Qed.

Lemma change_col_ref j c l : LInv l -> j < ncols l -> NoDup (idx (snd c)) ->
  (forall p, In p (snd c) -> fst p < nrows l) -> aeq (abs (change_col j c l)) (s_change_col j c (abs l)).
Proof.
  intros I HI ND RG. destruct c as [[[o a] b] v]. simpl in ND, RG. unfold change_col, s_change_col.
  pose proof (replace_vec_Mir (cf l) (rf l) j v (Mir_sym _ _ (li_mir _ I)) HI ND RG) as H.
  destruct (replace_vec (cf l) (rf l) j v) as [P S]. simpl in H. destruct H as [M [EP ES]].
  aeq_split; auto; try solve [len_tac]; unfold nrows, ncols, uobj; simpl.
  - unfold setn. apply map_upd. intros _. apply sgn_invol.
  - intros i k. rewrite (dg_sym _ _ i k M). subst P. rewrite dg_setn; auto. destruct (k =? j).
    + unfold dvec. apply sget_rev. apply NoDup_sclean; auto.
    + apply (dg_sym (rf l) (cf l)). apply (li_mir _ I).
Qed.

Lemma dg_upd F k f a b : k < length F -> dg (upd k f F) a b = if a =? k then sget b (f (nth a F [])) else dg F a b.
Proof.
  intros H. unfold dg. destruct (Nat.eqb_spec a k).
  - subst. rewrite nth_upd_eq; auto.
  - rewrite nth_upd_neq; auto.
Qed.

Lemma change_elem_ref eps i j x l : LInv l -> eps_ok eps = true -> i < nrows l -> j < ncols l ->
  aeq (abs (change_elem eps i j x l)) (s_change_elem eps i j x (abs l)).
Proof.
  intros I EO HI HJ. unfold change_elem, s_change_elem.
  pose proof (set_entry_Mir eps (rf l) (cf l) i j x (li_mir _ I) EO HI HJ) as H.
  destruct (set_entry eps (rf l) (cf l) i j x) as [P S] eqn:E. simpl in H. destruct H as [M [EP ES]].
  aeq_split; auto. intros r c.
  unfold set_entry in E.
  assert (PR : shas j (nth i (rf l) []) && shas i (nth j (cf l) []) = shas j (nth i (rf l) [])).
  { destruct (shas j (nth i (rf l) [])) eqn:E1; simpl; auto. apply shas_spec. apply shas_spec in E1.
    apply (mir_idx _ _ _ _ (li_mir _ I)); auto. }
  rewrite PR in E. clear PR.
  destruct (notzero eps x); destruct (shas j (nth i (rf l) [])) eqn:HP; inversion E; subst; clear E.
  - rewrite dg_upd; auto. destruct (r =? i) eqn:E1; simpl; auto. apply Nat.eqb_eq in E1. subst r.
    rewrite sget_sset, HP, andb_true_r. reflexivity.
  - rewrite dg_upd; auto. destruct (r =? i) eqn:E1; simpl; auto. apply Nat.eqb_eq in E1. subst r.
    rewrite sget_cons. reflexivity.
  - rewrite dg_upd; auto. destruct (r =? i) eqn:E1; simpl; auto. apply Nat.eqb_eq in E1. subst r.
    rewrite sget_sdel. reflexivity.
  - destruct (r =? i) eqn:E1; simpl; auto. destruct (c =? j) eqn:E2; auto.
    apply Nat.eqb_eq in E1, E2. subst. unfold dg. apply sget_notin.
    intros C. apply shas_spec in C. congruence.
Qed.

Lemma remove_row_ref i l : LInv l -> aeq (abs (remove_row i l)) (s_remove_row i (abs l)).
Proof.
  intros I. unfold remove_row, s_remove_row. change (a_m (abs l)) with (nrows l). destruct (Nat.ltb_spec i (nrows l)) as [HI|HI]; [|apply aeq_refl].
  pose proof (remove1_Mir (rf l) (cf l) i (li_mir _ I) HI) as H.
  destruct (remove1 (rf l) (cf l) i) as [P S]. simpl in H. destruct H as [M [EP ES]].
  aeq_split; auto; unfold nrows, ncols, uobj in *; simpl; subst P.
  - apply move_last_length; auto.
  - intros r c. apply dg_move_last; auto.
Qed.

Lemma remove_col_ref j l : LInv l -> aeq (abs (remove_col j l)) (s_remove_col j (abs l)).
Proof.
  intros I. unfold remove_col, s_remove_col. change (a_n (abs l)) with (ncols l). destruct (Nat.ltb_spec j (ncols l)) as [HI|HI]; [|apply aeq_refl].
  pose proof (remove1_Mir (cf l) (rf l) j (Mir_sym _ _ (li_mir _ I)) HI) as H.
  destruct (remove1 (cf l) (rf l) j) as [P S]. simpl in H. destruct H as [M [EP ES]].
  aeq_split; auto; unfold nrows, ncols, uobj in *; simpl.
  - subst P. apply move_last_length; auto.
  - rewrite map_move_last, sgn_zero. auto.
  - intros r c. rewrite (dg_sym _ _ r c M). subst P. rewrite dg_move_last; auto.
    rewrite !(dg_sym (rf l) (cf l)) by apply (li_mir _ I). reflexivity.
Qed.

Lemma remove_rows_ref perm l : LInv l -> length perm = nrows l ->
  aeq (abs (fst (remove_rows perm l))) (s_remove_rows perm (abs l)).
Proof.
  intros I HL. unfold remove_rows, s_remove_rows.
  pose proof (remove_perm_Mir (rf l) (cf l) perm (li_mir _ I) HL) as H.
  destruct (remove_perm (rf l) (cf l) perm) as [[P S] np]. destruct H as [M [EP [ES _]]].
  aeq_split; auto; unfold nrows, ncols, uobj in *; simpl; subst P.
  - apply kept_length; auto.
  - intros q c. apply dg_keep; auto.
Qed.

Lemma remove_cols_ref perm l : LInv l -> length perm = ncols l ->
  aeq (abs (fst (remove_cols perm l))) (s_remove_cols perm (abs l)).
Proof.
  intros I HL. unfold remove_cols, s_remove_cols.
  pose proof (remove_perm_Mir (cf l) (rf l) perm (Mir_sym _ _ (li_mir _ I)) HL) as H.
  destruct (remove_perm (cf l) (rf l) perm) as [[P S] np]. destruct H as [M [EP [ES _]]].
  aeq_split; auto; unfold nrows, ncols, uobj in *; simpl.
  - subst P. apply kept_length; auto.
  - apply map_keep.
  - intros r q. rewrite (dg_sym _ _ r q M). subst P. rewrite dg_keep; auto.
    destruct (nth_error (kept perm) q); auto. apply (dg_sym (rf l) (cf l)). apply (li_mir _ I).
Qed.

Lemma aeq_trans x y z : aeq x y -> aeq y z -> aeq x z.
Proof.
  unfold aeq. intros (A1 & A2 & A3 & A4 & A5 & A6 & A7 & A8 & A9) (B1 & B2 & B3 & B4 & B5 & B6 & B7 & B8 & B9).
  repeat split; try congruence.
Qed.

Lemma aeq_sym x y : aeq x y -> aeq y x.
Proof.
  unfold aeq. intros (A1 & A2 & A3 & A4 & A5 & A6 & A7 & A8 & A9). repeat split; auto.
Qed.

Ltac cong_tac :=
  match goal with
  | H : aeq ?x ?y |- _ =>
    let A1 := fresh in let A2 := fresh in let A3 := fresh in let A4 := fresh in let A5 := fresh in
    let A6 := fresh in let A7 := fresh in let A8 := fresh in let A9 := fresh in
    destruct H as (A1 & A2 & A3 & A4 & A5 & A6 & A7 & A8 & A9);
    unfold aeq; simpl; rewrite <- ?A1, <- ?A2, <- ?A3, <- ?A4, <- ?A5, <- ?A6, <- ?A7, <- ?A8;
    repeat split; auto; intros;
    try (match goal with |- context [nth_error ?l ?q] => destruct (nth_error l q) end);
    rewrite ?A9; auto
  end.

Lemma s_add_row_cong inf r x y : aeq x y -> aeq (s_add_row inf r x) (s_add_row inf r y).
Proof. intros H. destruct r as [[a b] v]. unfold s_add_row. cong_tac. Qed.

Lemma s_add_col_cong inf c x y : aeq x y -> aeq (s_add_col inf c x) (s_add_col inf c y).
Proof. intros H. destruct c as [[[o a] b] v]. unfold s_add_col. cong_tac. Qed.

Lemma fold_s_add_row_cong inf rs : forall x y, aeq x y ->
  aeq (fold_left (fun x r => s_add_row inf r x) rs x) (fold_left (fun x r => s_add_row inf r x) rs y).
Proof. induction rs as [|r t IH]; intros x y H; simpl; auto. apply IH. apply s_add_row_cong; auto. Qed.

Lemma fold_s_add_col_cong inf cs : forall x y, aeq x y ->
  aeq (fold_left (fun x c => s_add_col inf c x) cs x) (fold_left (fun x c => s_add_col inf c x) cs y).
Proof. induction cs as [|c t IH]; intros x y H; simpl; auto. apply IH. apply s_add_col_cong; auto. Qed.

Lemma s_remove_row_cong i x y : aeq x y -> aeq (s_remove_row i x) (s_remove_row i y).
Proof.
  intros H. unfold s_remove_row. assert (a_m x = a_m y) as E by (destruct H; auto). rewrite <- E.
  destruct (i <? a_m x); auto. cong_tac.
Qed.

Lemma s_remove_col_cong j x y : aeq x y -> aeq (s_remove_col j x) (s_remove_col j y).
Proof.
  intros H. unfold s_remove_col. assert (a_n x = a_n y) as E by (destruct H as (_ & ? & _); auto). rewrite <- E.
  destruct (j <? a_n x); auto. cong_tac.
Qed.

Lemma s_remove_rows_cong p x y : aeq x y -> aeq (s_remove_rows p x) (s_remove_rows p y).
Proof. intros H. unfold s_remove_rows. cong_tac. Qed.

Lemma s_remove_cols_cong p x y : aeq x y -> aeq (s_remove_cols p x) (s_remove_cols p y).
Proof. intros H. unfold s_remove_cols. cong_tac. Qed.

Lemma spec_apply_cong inf eps pm x y o : aeq x y -> aeq (spec_apply inf eps pm x o) (spec_apply inf eps pm y o).
Proof.
  intros H.
  assert (a_m x = a_m y) as Em by (destruct H; auto).
  assert (a_n x = a_n y) as En by (destruct H as (_ & ? & _); auto).
  destruct o; simpl; auto; rewrite <- ?Em, <- ?En;
    first [ apply s_add_row_cong; solve [auto] | apply fold_s_add_row_cong; solve [auto]
          | apply s_add_col_cong; solve [auto] | apply fold_s_add_col_cong; solve [auto]
          | apply s_remove_row_cong; solve [auto] | apply s_remove_col_cong; solve [auto]
          | apply s_remove_rows_cong; solve [auto] | apply s_remove_cols_cong; solve [auto]
          | apply aeq_refl
          | repeat match goal with
                   | r : rowspec |- _ => destruct r as [[? ?] ?]
                   | c : colspec |- _ => destruct c as [[[? ?] ?] ?]
                   end;
            unfold s_change_row, s_change_col, s_change_elem,
              a_with_lhs, a_with_rhs, a_with_obj, a_with_lo, a_with_up, a_with_max, a_empty; cong_tac ].
Qed.

Lemma fold_add_row_ref inf rs : forall l x, LInv l -> aeq (abs l) x ->
  forallb (fun r => vec_ok None (snd r)) rs = true ->
  aeq (abs (fold_left (fun l r => add_row inf r l) rs l)) (fold_left (fun x r => s_add_row inf r x) rs x).
Proof.
  induction rs as [|r t IH]; intros l x I A V; simpl in *; auto.
  apply andb_true_iff in V. destruct V as [V1 V2]. apply vec_ok_nodup in V1. apply IH; auto.
  - apply add_row_LInv; auto.
  - eapply aeq_trans; [apply add_row_ref; auto|]. apply s_add_row_cong; auto.
Qed.

Lemma fold_add_col_ref inf cs : forall l x, LInv l -> aeq (abs l) x ->
  forallb (fun c => vec_ok None (snd c)) cs = true ->
  aeq (abs (fold_left (fun l c => add_col inf c l) cs l)) (fold_left (fun x c => s_add_col inf c x) cs x).
Proof.
  induction cs as [|c t IH]; intros l x I A V; simpl in *; auto.
  apply andb_true_iff in V. destruct V as [V1 V2]. apply vec_ok_nodup in V1. apply IH; auto.
  - apply add_col_LInv; auto.
  - eapply aeq_trans; [apply add_col_ref; auto|]. apply s_add_col_cong; auto.
Qed.

(* every call commutes with the abstraction to the dense LP *)
Lemma apply_refines s o : SInv s -> valid_op (nrows (L s)) (ncols (L s)) o = true ->
  aeq (abs (fst (apply s o))) (spec_apply (inf s) (eps s) (pmax s) (abs (L s)) o).
Proof.
  intros [I EO] V. pose proof I as I0. destruct I as [M H1 H2 H3 H4 H5].
  destruct o; simpl in V |- *;
    repeat match goal with
           | r : rowspec |- _ => destruct r as [[? ?] ?]
           | c : colspec |- _ => destruct c as [[[? ?] ?] ?]
           | H : _ && _ = true |- _ => apply andb_true_iff in H; destruct H
           | H : (_ <? _) = true |- _ => apply Nat.ltb_lt in H
           | H : (_ =? _) = true |- _ => apply Nat.eqb_eq in H
           end;
    first
      [ apply add_row_ref; [solve [auto] | eapply vec_ok_nodup; solve [eauto]]
      | apply fold_add_row_ref; [solve [auto] | apply aeq_refl | solve [auto]]
      | apply add_col_ref; [solve [auto] | eapply vec_ok_nodup; solve [eauto]]
      | apply fold_add_col_ref; [solve [auto] | apply aeq_refl | solve [auto]]
      | apply change_row_ref; [solve [auto] | solve [auto] | eapply vec_ok_nodup; solve [eauto] | apply vec_ok_bound; solve [auto]]
      | apply change_col_ref; [solve [auto] | solve [auto] | eapply vec_ok_nodup; solve [eauto] | apply vec_ok_bound; solve [auto]]
      | apply change_elem_ref; solve [auto]
      | apply remove_row_ref; solve [auto]
      | apply remove_col_ref; solve [auto]
      | apply remove_rows_ref; [solve [auto] | first [solve [auto] | apply idx_to_perm_length | apply range_to_perm_length]]
      | apply remove_cols_ref; [solve [auto] | first [solve [auto] | apply idx_to_perm_length | apply range_to_perm_length]]
      | idtac ].
  all: unfold aeq, abs, uobj, nrows, ncols; simpl; repeat split; auto.
  - unfold setn. apply map_upd. intros _. apply sgn_invol.
  - rewrite map_map. rewrite <- (map_id vs) at 2. apply map_ext. intros. apply sgn_invol.
  - intros i j. unfold dg. rewrite nth_nil_nil. reflexivity.
  - destruct mx, (lmax (L s)); simpl; auto; rewrite map_map;
      apply map_ext; intros; simpl; auto; rewrite ?dneg_invol; auto.
Qed.

(* ---------- whole histories ---------- *)
Definition astate := (alp * bool)%type.
Definition abs_state (s : state) : astate := (abs (L s), pmax s).
Definition spec_step (inf eps : dbl) (a : astate) (o : op) : astate :=
  (spec_apply inf eps (snd a) (fst a) o, match o with SetSense mx => mx | _ => snd a end).
Definition spec_run (inf eps : dbl) (a : astate) (ops : list op) : astate := fold_left (spec_step inf eps) ops a.
Definition aeqs (a b : astate) : Prop := aeq (fst a) (fst b) /\ snd a = snd b.

Lemma step_L s o : L (fst (step s o)) = fst (apply s o).
Proof. destruct o; simpl; auto; unfold step; destruct (apply s _) eqn:E; simpl; auto. Qed.

Lemma step_pmax s o : pmax (fst (step s o)) = match o with SetSense mx => mx | _ => pmax s end.
Proof. destruct o; simpl; auto; unfold step; destruct (apply s _); simpl; auto. Qed.

Lemma step_consts s o : inf (fst (step s o)) = inf s /\ eps (fst (step s o)) = eps s.
Proof. destruct o; simpl; auto; unfold step; destruct (apply s _); simpl; auto. Qed.

Lemma step_refines s o : SInv s -> valid_op (nrows (L s)) (ncols (L s)) o = true ->
  aeqs (abs_state (fst (step s o))) (spec_step (inf s) (eps s) (abs_state s) o).
Proof.
  intros I V. unfold aeqs, abs_state, spec_step. simpl. rewrite step_L, step_pmax. split; auto.
  apply apply_refines; auto.
Qed.

Lemma spec_step_cong inf eps a b o : aeqs a b -> aeqs (spec_step inf eps a o) (spec_step inf eps b o).
Proof.
  intros [H1 H2]. unfold aeqs, spec_step. simpl. rewrite H2. split; auto. apply spec_apply_cong; auto.
Qed.

Lemma run_refines ops : forall s a, SInv s -> valid_run s ops = true -> aeqs (abs_state s) a ->
  aeqs (abs_state (run s ops)) (spec_run (inf s) (eps s) a ops).
Proof.
  induction ops as [|o t IH]; intros s a I V A; simpl in *; auto.
  apply andb_true_iff in V. destruct V as [V1 V2].
  destruct (step_consts s o) as [E1 E2].
  assert (aeqs (abs_state (fst (step s o))) (spec_step (inf s) (eps s) a o)) as A'.
  { destruct (step_refines s o I V1) as [R1 R2]. destruct (spec_step_cong (inf s) (eps s) _ _ o A) as [C1 C2].
    split.
    + eapply aeq_trans; [exact R1 | exact C1].
    + rewrite R2. exact C2. }
  pose proof (IH (fst (step s o)) _ (step_SInv s o I V1) V2 A') as Q. rewrite E1, E2 in Q. exact Q.
Qed.

(* ---------- renumbering after a removal by permutation array / index list / range ---------- *)
Lemma nth_fold_setn idx : forall (p : list Z) i, i < length p ->
  nth i (fold_left (fun p k => setn k (-1)%Z p) idx p) (-1)%Z =
  if existsb (Nat.eqb i) idx then (-1)%Z else nth i p (-1)%Z.
Proof.
  induction idx as [|k t IH]; intros p i H; simpl; auto.
  rewrite IH by (rewrite setn_length; auto). unfold setn.
  destruct (Nat.eqb_spec i k).
  - subst. simpl. rewrite nth_upd_eq; auto. destruct (existsb (Nat.eqb k) t); auto.
  - simpl. rewrite nth_upd_neq; auto.
Qed.

Lemma nth_map_seq {B} (f : nat -> B) n i d : i < n -> nth i (map f (seq 0 n)) d = f i.
Proof.
  intros H. rewrite (nth_indep _ d (f 0)) by (rewrite map_length, seq_length; auto).
  rewrite map_nth, seq_nth; auto.
Qed.

Lemma idx_to_perm_spec n idx i : i < n ->
  nth i (idx_to_perm n idx) (-1)%Z = if existsb (Nat.eqb i) idx then (-1)%Z else Z.of_nat i.
Proof.
  intros H. unfold idx_to_perm. rewrite nth_fold_setn by (rewrite map_length, seq_length; auto).
  destruct (existsb (Nat.eqb i) idx); auto. apply nth_map_seq; auto.
Qed.

Lemma range_to_perm_spec n a b i : i < n ->
  nth i (range_to_perm n a b) (-1)%Z = if (i <? a) || (b <? i) then Z.of_nat i else (-1)%Z.
Proof.
  intros H. unfold range_to_perm. rewrite nth_map_seq; auto.
Qed.

(* the documented meaning of the perm array, for rows *)
Lemma remove_rows_spec perm l : LInv l -> length perm = nrows l ->
  let l' := fst (remove_rows perm l) in
  let np := snd (remove_rows perm l) in
  length np = length perm /\
  (* removed rows keep their negative mark *)
  (forall i, (nth i perm (-1) < 0)%Z -> nth i np (-1)%Z = nth i perm (-1)%Z) /\
  (* a surviving row is found at its new number: sides and row vector *)
  (forall i, i < length perm -> (0 <= nth i perm (-1))%Z ->
     exists q, nth i np (-1)%Z = Z.of_nat q /\ q < nrows l' /\
               nth q (lhs l') dzero = nth i (lhs l) dzero /\ nth q (rhs l') dzero = nth i (rhs l) dzero /\
               nth q (rf l') [] = nth i (rf l) []) /\
  (* survivors keep their relative order *)
  (forall i1 i2, i1 < i2 -> i2 < length perm -> (0 <= nth i1 perm (-1))%Z -> (0 <= nth i2 perm (-1))%Z ->
     (nth i1 np (-1) < nth i2 np (-1))%Z) /\
  (* nothing else is left *)
  (forall q, q < nrows l' -> exists i, i < length perm /\ (0 <= nth i perm (-1))%Z /\ nth i np (-1)%Z = Z.of_nat q).
Proof.
  intros I HL. unfold remove_rows, remove_perm. simpl. destruct I as [M H1 H2 H3 H4 H5]. unfold nrows in *. simpl.
  split; [apply newperm_length|]. split; [intros i; apply newperm_neg|]. split; [|split].
  - intros i Hi Hp.
    destruct (newperm_keep perm (rf l) 0%Z i [] HL Hi Hp) as [q [E1 [E2 E3]]].
    destruct (newperm_keep perm (lhs l) 0%Z i dzero (eq_trans HL (eq_sym H1)) Hi Hp) as [q1 [F1 [F2 F3]]].
    destruct (newperm_keep perm (rhs l) 0%Z i dzero (eq_trans HL (eq_sym H2)) Hi Hp) as [q2 [G1 [G2 G3]]].
    assert (q1 = q) by lia. assert (q2 = q) by lia. subst q1 q2.
    exists q. repeat split; auto.
  - intros i1 i2. apply newperm_mono.
  - intros q Hq. destruct (keep_from perm (rf l) 0%Z q HL Hq) as [i [E1 [E2 E3]]]. exists i. auto.
Qed.

(* the same for columns *)
Lemma remove_cols_spec perm l : LInv l -> length perm = ncols l ->
  let l' := fst (remove_cols perm l) in
  let np := snd (remove_cols perm l) in
  length np = length perm /\
  (forall j, (nth j perm (-1) < 0)%Z -> nth j np (-1)%Z = nth j perm (-1)%Z) /\
  (forall j, j < length perm -> (0 <= nth j perm (-1))%Z ->
     exists q, nth j np (-1)%Z = Z.of_nat q /\ q < ncols l' /\
               nth q (obj l') dzero = nth j (obj l) dzero /\ nth q (lo l') dzero = nth j (lo l) dzero /\
               nth q (up l') dzero = nth j (up l) dzero /\ nth q (cf l') [] = nth j (cf l) []) /\
  (forall j1 j2, j1 < j2 -> j2 < length perm -> (0 <= nth j1 perm (-1))%Z -> (0 <= nth j2 perm (-1))%Z ->
     (nth j1 np (-1) < nth j2 np (-1))%Z) /\
  (forall q, q < ncols l' -> exists j, j < length perm /\ (0 <= nth j perm (-1))%Z /\ nth j np (-1)%Z = Z.of_nat q).
Proof.
  intros I HL. unfold remove_cols, remove_perm. simpl. destruct I as [M H1 H2 H3 H4 H5]. unfold ncols in *. simpl.
  split; [apply newperm_length|]. split; [intros i; apply newperm_neg|]. split; [|split].
  - intros i Hi Hp.
    destruct (newperm_keep perm (cf l) 0%Z i [] HL Hi Hp) as [q [E1 [E2 E3]]].
    destruct (newperm_keep perm (obj l) 0%Z i dzero (eq_trans HL (eq_sym H3)) Hi Hp) as [q1 [F1 [F2 F3]]].
    destruct (newperm_keep perm (lo l) 0%Z i dzero (eq_trans HL (eq_sym H4)) Hi Hp) as [q2 [G1 [G2 G3]]].
    destruct (newperm_keep perm (up l) 0%Z i dzero (eq_trans HL (eq_sym H5)) Hi Hp) as [q3 [K1 [K2 K3]]].
    assert (q1 = q) by lia. assert (q2 = q) by lia. assert (q3 = q) by lia. subst q1 q2 q3.
    exists q. repeat split; auto.
  - intros i1 i2. apply newperm_mono.
  - intros q Hq. destruct (keep_from perm (cf l) 0%Z q HL Hq) as [i [E1 [E2 E3]]]. exists i. auto.
Qed.

(* removal by index list / by range hands back -1 for the removed elements *)
Lemma idx_removed_minus_one n idx i : i < n -> existsb (Nat.eqb i) idx = true ->
  nth i (newperm (idx_to_perm n idx) 0) (-1)%Z = (-1)%Z.
Proof.
  intros H E. rewrite newperm_neg; rewrite idx_to_perm_spec, E; auto. lia.
Qed.

Lemma range_removed_minus_one n a b i : i < n -> a <= i -> i <= b ->
  nth i (newperm (range_to_perm n a b) 0) (-1)%Z = (-1)%Z.
Proof.
  intros H Ha Hb. assert ((i <? a) || (b <? i) = false) as E.
  { apply orb_false_iff. split; apply Nat.ltb_ge; auto. }
  rewrite newperm_neg; rewrite range_to_perm_spec, E; auto. lia.
Qed.

(* ---------- single removal: the last element moves into the hole ---------- *)
Lemma remove_row_moves_last i l : LInv l -> i < nrows l ->
  let l' := remove_row i l in
  nrows l' = nrows l - 1 /\ ncols l' = ncols l /\
  (forall k, k < nrows l - 1 -> k <> i ->
     nth k (lhs l') dzero = nth k (lhs l) dzero /\ nth k (rhs l') dzero = nth k (rhs l) dzero /\
     nth k (rf l') [] = nth k (rf l) []) /\
  (i < nrows l - 1 ->
     nth i (lhs l') dzero = nth (nrows l - 1) (lhs l) dzero /\ nth i (rhs l') dzero = nth (nrows l - 1) (rhs l) dzero /\
     nth i (rf l') [] = nth (nrows l - 1) (rf l) []) /\
  obj l' = obj l /\ lo l' = lo l /\ up l' = up l.
Proof.
  intros I HI. unfold remove_row. assert (i <? nrows l = true) as -> by (apply Nat.ltb_lt; auto).
  pose proof (remove1_Mir (rf l) (cf l) i (li_mir _ I) HI) as H.
  destruct (remove1 (rf l) (cf l) i) as [P S]. simpl in H. destruct H as [M [EP ES]].
  destruct I as [M0 H1 H2 H3 H4 H5]. unfold nrows, ncols in *. simpl. subst P.
  split; [apply move_last_length; auto|]. split; auto. split; [|split; auto].
  - intros k Hk Hn. rewrite !nth_move_last by lia. rewrite H1, H2.
    destruct (Nat.leb_spec (length (rf l) - 1) k); try lia. destruct (Nat.eqb_spec k i); try lia. auto.
  - intros Hk. rewrite !nth_move_last by lia. rewrite H1, H2.
    destruct (Nat.leb_spec (length (rf l) - 1) i); try lia. rewrite Nat.eqb_refl. auto.
Qed.

Lemma remove_col_moves_last j l : LInv l -> j < ncols l ->
  let l' := remove_col j l in
  ncols l' = ncols l - 1 /\ nrows l' = nrows l /\
  (forall k, k < ncols l - 1 -> k <> j ->
     nth k (obj l') dzero = nth k (obj l) dzero /\ nth k (lo l') dzero = nth k (lo l) dzero /\
     nth k (up l') dzero = nth k (up l) dzero /\ nth k (cf l') [] = nth k (cf l) []) /\
  (j < ncols l - 1 ->
     nth j (obj l') dzero = nth (ncols l - 1) (obj l) dzero /\ nth j (lo l') dzero = nth (ncols l - 1) (lo l) dzero /\
     nth j (up l') dzero = nth (ncols l - 1) (up l) dzero /\ nth j (cf l') [] = nth (ncols l - 1) (cf l) []) /\
  lhs l' = lhs l /\ rhs l' = rhs l.
Proof.
  intros I HI. unfold remove_col. assert (j <? ncols l = true) as -> by (apply Nat.ltb_lt; auto).
  pose proof (remove1_Mir (cf l) (rf l) j (Mir_sym _ _ (li_mir _ I)) HI) as H.
  destruct (remove1 (cf l) (rf l) j) as [P S]. simpl in H. destruct H as [M [EP ES]].
  destruct I as [M0 H1 H2 H3 H4 H5]. unfold nrows, ncols in *. simpl. subst P.
  split; [apply move_last_length; auto|]. split; auto. split; [|split; auto].
  - intros k Hk Hn. rewrite !nth_move_last by lia. rewrite H3, H4, H5.
    destruct (Nat.leb_spec (length (cf l) - 1) k); try lia. destruct (Nat.eqb_spec k j); try lia. auto.
  - intros Hk. rewrite !nth_move_last by lia. rewrite H3, H4, H5.
    destruct (Nat.leb_spec (length (cf l) - 1) j); try lia. rewrite Nat.eqb_refl. auto.
Qed.

(* ---------- the sense of the LP is the OBJSENSE parameter ---------- *)
Lemma add_row_lmax inf r l : lmax (add_row inf r l) = lmax l.
Proof. destruct r as [[a b] v]. reflexivity. Qed.
Lemma add_col_lmax inf c l : lmax (add_col inf c l) = lmax l.
Proof. destruct c as [[[o a] b] v]. reflexivity. Qed.

Lemma fold_add_row_lmax inf rs : forall l, lmax (fold_left (fun l r => add_row inf r l) rs l) = lmax l.
Proof. induction rs as [|r t IH]; intros l; simpl; auto. rewrite IH. apply add_row_lmax. Qed.
Lemma fold_add_col_lmax inf cs : forall l, lmax (fold_left (fun l c => add_col inf c l) cs l) = lmax l.
Proof. induction cs as [|c t IH]; intros l; simpl; auto. rewrite IH. apply add_col_lmax. Qed.

Lemma apply_lmax s o : lmax (fst (apply s o)) =
  match o with SetSense mx => mx | ClearLP => pmax s | _ => lmax (L s) end.
Proof.
  destruct o; simpl; auto;
    repeat match goal with
           | r : rowspec |- _ => destruct r as [[? ?] ?]
           | c : colspec |- _ => destruct c as [[[? ?] ?] ?]
           end; auto.
  all: try apply fold_add_row_lmax; try apply fold_add_col_lmax;
    unfold change_row, change_col, replace_vec, change_elem, set_entry, remove_row, remove_col, remove_rows, remove_cols, remove_perm;
    repeat match goal with
           | |- context [fill ?k ?v ?ps] => destruct (fill k v ps)
           | |- context [if ?b then _ else _] => destruct b
           end; reflexivity.
Qed.

Lemma step_sense_sync s o : lmax (L s) = pmax s -> lmax (L (fst (step s o))) = pmax (fst (step s o)).
Proof.
  intros H. rewrite step_L, step_pmax, apply_lmax. destruct o; auto.
Qed.

Lemma run_sense_sync ops : forall s, lmax (L s) = pmax s -> lmax (L (run s ops)) = pmax (run s ops).
Proof. induction ops as [|o t IH]; intros s H; simpl; auto. apply IH. apply step_sense_sync; auto. Qed.

(* clearLPReal as coded breaks it *)
Lemma clear_as_coded_desync : exists s, lmax (L s) = pmax s /\ lmax (L (clear_as_coded s)) <> pmax (clear_as_coded s).
Proof. exists (init false dzero dzero). simpl. split; auto. discriminate. Qed.

(* ---------- corollaries in the form the property file states them ---------- *)
Lemma run_LInv_from_empty mx eps inf ops : eps_ok eps = true -> valid_run (init mx eps inf) ops = true ->
  LInv (L (run (init mx eps inf) ops)).
Proof. intros E V. exact (proj1 (run_SInv ops _ (init_SInv mx eps inf E) V)). Qed.

Lemma step_refines_L s o : SInv s -> valid_op (nrows (L s)) (ncols (L s)) o = true ->
  aeq (abs (L (fst (step s o)))) (spec_apply (inf s) (eps s) (pmax s) (abs (L s)) o).
Proof. intros I V. rewrite step_L. exact (apply_refines s o I V). Qed.

Lemma run_refines_self ops s : SInv s -> valid_run s ops = true ->
  aeqs (abs_state (run s ops)) (spec_run (inf s) (eps s) (abs_state s) ops).
Proof. intros I V. exact (run_refines ops s (abs_state s) I V (conj (aeq_refl _) eq_refl)). Qed.
