(* C06 - lemmas about LPOpsModel. *)
From Coq Require Import ZArith List Bool Arith Lia.
From SV Require Import Dbl LPOpsModel.
Import ListNotations.
Local Open Scope nat_scope.

Lemma modify_invalidates_l : forall s o, modifies o = true ->
  hasSol (fst (step s o)) = false /\ stat (fst (step s o)) = 0%Z.
Proof.
  intros s o H. destruct o; try discriminate H;
  try (unfold step; destruct (apply s _); simpl; auto; fail).
  simpl. auto.
Qed.
