(* C08 - lemmas about the post-solve step models (coq/PostsolveModel.v). *)
From Coq Require Import QArith Qabs List Bool Arith Lia Lqa Setoid.
From SV Require Import Vec LP Cert PostsolveModel.
Import ListNotations.
Local Open Scope Q_scope.

(* ---------- padded lists ---------- *)
Lemma nth_upd_same {A} (d : A) l i v : nth i (upd d l i v) d = v.
Proof.
  revert l; induction i as [|i IH]; intros [|a l]; simpl; auto.
Qed.

Lemma nth_upd_other {A} (d : A) l i k v : i <> k -> nth k (upd d l i v) d = nth k l d.
Proof.
  revert l k; induction i as [|i IH]; intros [|a l] [|k] H; simpl; try congruence; auto.
  - destruct k; reflexivity.
  - rewrite IH by congruence. destruct k; reflexivity.
Qed.

Lemma vnth_nth l i : vnth l i = nth i l 0.
Proof. revert i; induction l as [|a l IH]; intros [|i]; simpl; auto. Qed.

Lemma vnth_qupd_same l i v : vnth (qupd l i v) i = v.
Proof. rewrite vnth_nth. apply nth_upd_same. Qed.

Lemma vnth_qupd_other l i k v : i <> k -> vnth (qupd l i v) k = vnth l k.
Proof. intros H. rewrite !vnth_nth. now apply nth_upd_other. Qed.

Lemma snth_supd_same l i v : snth (supd l i v) i = v.
Proof. apply nth_upd_same. Qed.

Lemma snth_supd_other l i k v : i <> k -> snth (supd l i v) k = snth l k.
Proof. apply nth_upd_other. Qed.

(* ---------- finite sums over index ranges ---------- *)
Fixpoint sumn (n : nat) (f : nat -> Q) : Q := match n with O => 0 | S k => sumn k f + f k end.

Lemma sumn_ext n f g : (forall k, (k < n)%nat -> f k == g k) -> sumn n f == sumn n g.
Proof.
  induction n as [|n IH]; intros H; simpl; [reflexivity|].
  rewrite IH by (intros; apply H; lia). rewrite (H n) by lia. reflexivity.
Qed.

Lemma sumn_shift n f : sumn (S n) f == f 0%nat + sumn n (fun k => f (S k)).
Proof.
  induction n as [|n IH]; [simpl; ring|].
  change (sumn (S (S n)) f) with (sumn (S n) f + f (S n)). rewrite IH. simpl. ring.
Qed.

Lemma sumn_zero n f : (forall k, (k < n)%nat -> f k == 0) -> sumn n f == 0.
Proof.
  induction n as [|n IH]; intros H; simpl; [reflexivity|].
  rewrite IH by (intros; apply H; lia). rewrite (H n) by lia. ring.
Qed.

Lemma sumn_plus n f g : sumn n (fun k => f k + g k) == sumn n f + sumn n g.
Proof. induction n as [|n IH]; simpl; [ring|]. rewrite IH. ring. Qed.

Lemma sumn_scal n c f : sumn n (fun k => c * f k) == c * sumn n f.
Proof. induction n as [|n IH]; simpl; [ring|]. rewrite IH. ring. Qed.

(* a sum whose terms agree except at one index *)
Lemma sumn_change_one n f g j : (j < n)%nat -> (forall k, (k < n)%nat -> k <> j -> f k == g k) ->
  sumn n f == sumn n g + (f j - g j).
Proof.
  induction n as [|n IH]; intros Hj H; [lia|]. simpl.
  destruct (Nat.eq_dec j n) as [->|Hne].
  - rewrite (sumn_ext n f g) by (intros; apply H; lia). ring.
  - rewrite IH by (try lia; intros; apply H; lia). rewrite (H n) by lia. ring.
Qed.

(* a sum extended by zero terms *)
Lemma sumn_extend n m f : (n <= m)%nat -> (forall k, (n <= k < m)%nat -> f k == 0) -> sumn m f == sumn n f.
Proof.
  intros Hle. induction Hle as [|m Hle IH]; intros H; [reflexivity|].
  simpl. rewrite IH by (intros; apply H; lia). rewrite (H m) by lia. ring.
Qed.

Lemma vnth_beyond l k : (length l <= k)%nat -> vnth l k = 0.
Proof. revert k; induction l as [|a l IH]; intros [|k] H; simpl in *; try lia; auto. apply IH. lia. Qed.

Lemma dot_sumn u x : dot u x == sumn (length u) (fun k => vnth u k * vnth x k).
Proof.
  revert x; induction u as [|a u IH]; intros x; [reflexivity|].
  change (length (a :: u)) with (S (length u)). rewrite sumn_shift.
  destruct x as [|b x]; simpl.
  - rewrite sumn_zero by (intros; destruct u; simpl; ring). ring.
  - rewrite IH. reflexivity.
Qed.

Lemma dot_sumn_ge u x n : (length u <= n)%nat -> dot u x == sumn n (fun k => vnth u k * vnth x k).
Proof.
  intros H. rewrite dot_sumn. symmetry. apply sumn_extend; auto.
  intros k Hk. rewrite vnth_beyond by lia. ring.
Qed.

Lemma vnth_nil k : vnth [] k = 0.
Proof. destruct k; reflexivity. Qed.

Lemma tmat_vec_sumn A : forall y j, vnth (tmat_vec A y) j == sumn (length A) (fun i => vnth y i * vnth (nth i A []) j).
Proof.
  induction A as [|a A IH]; intros y j.
  - simpl. reflexivity.
  - change (length (a :: A)) with (S (length A)). rewrite sumn_shift.
    destruct y as [|yi y]; simpl tmat_vec.
    + rewrite !vnth_nil. rewrite sumn_zero by (intros; rewrite vnth_nil; ring). ring.
    + rewrite vnth_vadd, vnth_vscale, IH. reflexivity.
Qed.

(* ---------- removal with the last element moved into the hole ---------- *)
Lemma swap_remove_length {A} (d : A) i l : length (swap_remove d i l) = (length l - 1)%nat.
Proof. unfold swap_remove. now rewrite map_length, seq_length. Qed.

Lemma nth_map_seq {A} (f : nat -> A) d : forall len a k, (k < len)%nat -> nth k (map f (seq a len)) d = f (a + k)%nat.
Proof.
  induction len as [|len IH]; intros a k H; [lia|].
  destruct k as [|k]; simpl.
  - now rewrite Nat.add_0_r.
  - rewrite IH by lia. f_equal. lia.
Qed.

Lemma nth_swap_remove {A} (d : A) i l k : (k < length l - 1)%nat ->
  nth k (swap_remove d i l) d = if Nat.eqb k i then nth (length l - 1) l d else nth k l d.
Proof. intros H. unfold swap_remove. now rewrite nth_map_seq by lia. Qed.

Lemma vnth_swap_remove i u k : (k < length u - 1)%nat ->
  vnth (swap_remove 0 i u) k = if Nat.eqb k i then vnth u (length u - 1) else vnth u k.
Proof. intros H. rewrite !vnth_nth. now apply nth_swap_remove. Qed.

(* the sum identity behind every "correct the index, then restore the removed element" *)
Lemma sumn_swap n1 (c x : nat -> Q) j v : (j <= n1)%nat ->
  sumn (S n1) (fun k => c k * (if Nat.eqb k j then v else if Nat.eqb k n1 then x j else x k))
  == sumn n1 (fun k => (if Nat.eqb k j then c n1 else c k) * x k) + c j * v.
Proof.
  intros Hj.
  set (F := fun k => c k * (if Nat.eqb k j then v else if Nat.eqb k n1 then x j else x k)).
  set (G := fun k => (if Nat.eqb k j then c n1 else c k) * x k).
  change (sumn n1 F + F n1 == sumn n1 G + c j * v).
  destruct (Nat.eq_dec j n1) as [->|Hne].
  - assert (E1 : sumn n1 F == sumn n1 G).
    { apply sumn_ext. intros k Hk. unfold F, G. destruct (Nat.eqb_spec k n1); [lia|]. reflexivity. }
    rewrite E1. unfold F. rewrite Nat.eqb_refl. reflexivity.
  - assert (E1 : sumn n1 F == sumn n1 G + (F j - G j)).
    { apply sumn_change_one; [lia|]. intros k Hk Hkj. unfold F, G.
      destruct (Nat.eqb_spec k j); [lia|]. destruct (Nat.eqb_spec k n1); [lia|]. reflexivity. }
    rewrite E1. unfold F, G. rewrite !Nat.eqb_refl.
    destruct (Nat.eqb_spec n1 j); [lia|]. ring.
Qed.

(* x with the element of position j moved back to the last position n1 and v written to position j *)
Definition unswap (x : list Q) (j n1 : nat) (v : Q) : list Q :=
  qupd (if Nat.eqb j n1 then x else qupd x n1 (vnth x j)) j v.

Lemma vnth_unswap x j n1 v k :
  vnth (unswap x j n1 v) k = if Nat.eqb k j then v else if Nat.eqb k n1 then vnth x j else vnth x k.
Proof.
  unfold unswap. destruct (Nat.eqb_spec k j) as [->|Hkj].
  - apply vnth_qupd_same.
  - rewrite vnth_qupd_other by congruence.
    destruct (Nat.eqb_spec j n1) as [->|Hjn].
    + destruct (Nat.eqb_spec k n1); [congruence|reflexivity].
    + destruct (Nat.eqb_spec k n1) as [->|Hkn]; [apply vnth_qupd_same|].
      now rewrite vnth_qupd_other by congruence.
Qed.

Lemma dot_unswap u x j v : (j < length u)%nat ->
  dot u (unswap x j (length u - 1) v) == dot (swap_remove 0 j u) x + vnth u j * v.
Proof.
  intros Hj. rewrite !dot_sumn, swap_remove_length.
  destruct (length u) as [|n1] eqn:E; [lia|]. replace (S n1 - 1)%nat with n1 by lia.
  rewrite (sumn_ext (S n1) _ (fun k => vnth u k * (if Nat.eqb k j then v else if Nat.eqb k n1 then vnth x j else vnth x k)))
    by (intros; rewrite vnth_unswap; reflexivity).
  rewrite (sumn_swap n1 (vnth u) (vnth x) j v) by lia.
  apply Qplus_comp; [|reflexivity].
  apply sumn_ext. intros k Hk. rewrite vnth_swap_remove by (rewrite E; lia). rewrite E.
  replace (S n1 - 1)%nat with n1 by lia. reflexivity.
Qed.

Lemma tmat_vec_unswap A y i v j : (i < length A)%nat ->
  vnth (tmat_vec A (unswap y i (length A - 1) v)) j == vnth (tmat_vec (swap_remove [] i A) y) j + v * vnth (nth i A []) j.
Proof.
  intros Hi. rewrite !tmat_vec_sumn, swap_remove_length.
  destruct (length A) as [|m1] eqn:E; [lia|]. replace (S m1 - 1)%nat with m1 by lia.
  rewrite (sumn_ext (S m1) _ (fun k => vnth (nth k A []) j * (if Nat.eqb k i then v else if Nat.eqb k m1 then vnth y i else vnth y k)))
    by (intros; rewrite vnth_unswap; ring).
  rewrite (sumn_swap m1 (fun k => vnth (nth k A []) j) (vnth y) i v) by lia.
  rewrite (Qmult_comm v). apply Qplus_comp; [|reflexivity].
  apply sumn_ext. intros k Hk. rewrite nth_swap_remove by (rewrite E; lia). rewrite E.
  replace (S m1 - 1)%nat with m1 by lia. destruct (Nat.eqb k i); ring.
Qed.

(* ---------- sparse copies ---------- *)
Fixpoint sumseq (l : list nat) (f : nat -> Q) : Q := match l with [] => 0 | k :: r => f k + sumseq r f end.

Lemma sumseq_seq f : forall len a, sumseq (seq a len) f == sumn len (fun k => f (a + k)%nat).
Proof.
  induction len as [|len IH]; intros a; [reflexivity|].
  simpl seq. simpl sumseq. rewrite IH. rewrite sumn_shift. rewrite Nat.add_0_r.
  apply Qplus_comp; [reflexivity|]. apply sumn_ext. intros k _. now rewrite Nat.add_succ_r.
Qed.

Lemma sdot_app u v x : sdot (u ++ v) x == sdot u x + sdot v x.
Proof. induction u as [|[k a] u IH]; simpl; [ring|]. rewrite IH. ring. Qed.

Lemma sdot_sp_of f n x : sdot (sp_of f n) x == sumn n (fun k => f k * vnth x k).
Proof.
  unfold sp_of. transitivity (sumseq (seq 0 n) (fun k => f k * vnth x k)).
  - induction (seq 0 n) as [|k l IH]; [reflexivity|]. simpl flat_map. rewrite sdot_app, IH. simpl sumseq.
    apply Qplus_comp; [|reflexivity].
    destruct (Qeq_bool (f k) 0) eqn:E; simpl; [|ring]. apply Qeq_bool_iff in E. rewrite E. ring.
  - rewrite sumseq_seq. apply sumn_ext. intros; reflexivity.
Qed.

Lemma sdot_skip_app u v s x : sdot_skip (u ++ v) s x == sdot_skip u s x + sdot_skip v s x.
Proof. induction u as [|[k a] u IH]; simpl; [ring|]. rewrite IH. ring. Qed.

Lemma sdot_skip_sp_of f n s x : sdot_skip (sp_of f n) s x == sumn n (fun k => if Nat.eqb k s then 0 else f k * vnth x k).
Proof.
  unfold sp_of. transitivity (sumseq (seq 0 n) (fun k => if Nat.eqb k s then 0 else f k * vnth x k)).
  - induction (seq 0 n) as [|k l IH]; [reflexivity|]. simpl flat_map. rewrite sdot_skip_app, IH. simpl sumseq.
    apply Qplus_comp; [|reflexivity].
    destruct (Qeq_bool (f k) 0) eqn:E; simpl.
    + apply Qeq_bool_iff in E. destruct (Nat.eqb k s); [ring|]. rewrite E. ring.
    + destruct (Nat.eqb k s); ring.
  - rewrite sumseq_seq. apply sumn_ext. intros; reflexivity.
Qed.

Lemma sadd_app u v c s : sadd (u ++ v) c s = sadd v c (sadd u c s).
Proof. revert s; induction u as [|[k a] u IH]; intros s; simpl; auto. Qed.

Lemma vnth_sadd_notin u c : forall s k, ~ In k (map fst u) -> vnth (sadd u c s) k = vnth s k.
Proof.
  induction u as [|[i a] u IH]; intros s k H; simpl; auto.
  simpl in H. rewrite IH by tauto. apply vnth_qupd_other. tauto.
Qed.

Lemma vnth_sadd_sp_of f c : forall len a s k,
  vnth (sadd (flat_map (fun k => if Qeq_bool (f k) 0 then [] else [(k, f k)]) (seq a len)) c s) k
  == vnth s k + (if (Nat.leb a k && Nat.ltb k (a + len))%bool then f k * c else 0).
Proof.
  induction len as [|len IH]; intros a s k.
  - simpl. destruct (Nat.leb_spec a k), (Nat.ltb_spec k (a + 0)); simpl; try ring; lia.
  - simpl seq. simpl flat_map. rewrite sadd_app, IH. cbv beta.
    destruct (Nat.eq_dec k a) as [->|Hne].
    + destruct (Nat.leb_spec (S a) a); [lia|]. simpl andb.
      destruct (Nat.leb_spec a a); [|lia]. destruct (Nat.ltb_spec a (a + S len)); [|lia]. simpl andb.
      destruct (Qeq_bool (f a) 0) eqn:E; simpl.
      * apply Qeq_bool_iff in E. rewrite E. ring.
      * rewrite vnth_qupd_same. ring.
    + destruct (Qeq_bool (f a) 0); simpl sadd; [|rewrite vnth_qupd_other by congruence];
      destruct (Nat.leb_spec (S a) k), (Nat.leb_spec a k), (Nat.ltb_spec k (S a + len)), (Nat.ltb_spec k (a + S len)); simpl; try ring; lia.
Qed.

Lemma vnth_sadd_sp n f c s k : vnth (sadd (sp_of f n) c s) k == vnth s k + (if Nat.ltb k n then f k * c else 0).
Proof. unfold sp_of. rewrite vnth_sadd_sp_of. simpl. reflexivity. Qed.

(* ---------- access to the reduced LPs ---------- *)
Lemma activity_sumn P i x : wf_lp P -> (i < nrows P)%nat -> activity P i x == sumn (ncols P) (fun k => coef P i k * vnth x k).
Proof. intros W Hi. unfold activity. apply dot_sumn_ge. rewrite W by auto. lia. Qed.

Lemma matrix_length P : length (matrix P) = nrows P.
Proof. unfold matrix, nrows. apply map_length. Qed.

Lemma nth_matrix P i : nth i (matrix P) [] = r_coef (rowi P i).
Proof. unfold matrix, rowi. change [] with (r_coef drow). apply map_nth. Qed.

Lemma tvec_sumn P y j : vnth (tmat_vec (matrix P) y) j == sumn (nrows P) (fun i => vnth y i * coef P i j).
Proof. rewrite tmat_vec_sumn, matrix_length. apply sumn_ext. intros i _. rewrite nth_matrix. reflexivity. Qed.

Lemma matrix_remove_row P i : matrix (red_remove_row P i) = swap_remove [] i (matrix P).
Proof.
  unfold matrix, red_remove_row, swap_remove; simpl. rewrite map_map, map_length.
  apply map_ext. intros k. change [] with (r_coef drow). rewrite !map_nth. destruct (Nat.eqb k i); reflexivity.
Qed.

Lemma nrows_remove_row P i : nrows (red_remove_row P i) = (nrows P - 1)%nat.
Proof. unfold nrows, red_remove_row; simpl. apply swap_remove_length. Qed.

Lemma rowi_remove_row P i k : (k < nrows P - 1)%nat ->
  rowi (red_remove_row P i) k = if Nat.eqb k i then rowi P (nrows P - 1) else rowi P k.
Proof. intros H. unfold rowi, red_remove_row; simpl. now apply nth_swap_remove. Qed.

(* status lists *)
Definition sunswap (l : list vstat) (j n1 : nat) (v : vstat) : list vstat :=
  supd (if Nat.eqb j n1 then l else supd l n1 (snth l j)) j v.

Lemma snth_sunswap l j n1 v k :
  snth (sunswap l j n1 v) k = if Nat.eqb k j then v else if Nat.eqb k n1 then snth l j else snth l k.
Proof.
  unfold sunswap. destruct (Nat.eqb_spec k j) as [->|Hkj].
  - apply snth_supd_same.
  - rewrite snth_supd_other by congruence.
    destruct (Nat.eqb_spec j n1) as [->|Hjn].
    + destruct (Nat.eqb_spec k n1); [congruence|reflexivity].
    + destruct (Nat.eqb_spec k n1) as [->|Hkn]; [apply snth_supd_same|].
      now rewrite snth_supd_other by congruence.
Qed.

Lemma cntb_ext l l' n : (forall k, (k < n)%nat -> snth l k = snth l' k) -> cntb l n = cntb l' n.
Proof.
  induction n as [|n IH]; intros H; simpl; auto. rewrite IH by (intros; apply H; lia). rewrite (H n) by lia. reflexivity.
Qed.

Definition b1 (v : vstat) : nat := if is_basic v then 1%nat else 0%nat.

Lemma cntb_change_one l l' j : forall n, (j < n)%nat -> (forall k, (k < n)%nat -> k <> j -> snth l' k = snth l k) ->
  (cntb l' n + b1 (snth l j) = cntb l n + b1 (snth l' j))%nat.
Proof.
  induction n as [|n IH]; intros Hj H; [lia|]. simpl cntb. fold (b1 (snth l' n)). fold (b1 (snth l n)).
  destruct (Nat.eq_dec j n) as [->|Hne].
  - rewrite (cntb_ext l' l n) by (intros; apply H; lia). lia.
  - rewrite (H n) by lia. assert (cntb l' n + b1 (snth l j) = cntb l n + b1 (snth l' j))%nat by (apply IH; [lia|intros; apply H; lia]). lia.
Qed.

(* counting after the index correction: positions < n1 other than j are unchanged, j gets v, n1 gets the old j *)
Lemma cntb_sunswap l j n1 v : (j <= n1)%nat -> cntb (sunswap l j n1 v) (S n1) = (cntb l n1 + b1 v)%nat.
Proof.
  intros Hj. simpl cntb. fold (b1 (snth (sunswap l j n1 v) n1)).
  destruct (Nat.eq_dec j n1) as [->|Hne].
  - rewrite snth_sunswap, Nat.eqb_refl.
    rewrite (cntb_ext _ l n1); [reflexivity|].
    intros k Hk. rewrite snth_sunswap. destruct (Nat.eqb_spec k n1); [lia|reflexivity].
  - rewrite snth_sunswap. destruct (Nat.eqb_spec n1 j); [lia|]. rewrite Nat.eqb_refl.
    assert (E : (cntb (sunswap l j n1 v) n1 + b1 (snth l j) = cntb l n1 + b1 (snth (sunswap l j n1 v) j))%nat).
    { apply cntb_change_one; [lia|]. intros k Hk Hkj. rewrite snth_sunswap.
      destruct (Nat.eqb_spec k j); [lia|]. destruct (Nat.eqb_spec k n1); [lia|reflexivity]. }
    rewrite snth_sunswap, Nat.eqb_refl in E. exact E.
Qed.

Lemma cntb_supd l j v n : (j < n)%nat -> (cntb (supd l j v) n + b1 (snth l j) = cntb l n + b1 v)%nat.
Proof.
  intros Hj. rewrite <- (snth_supd_same l j v) at 2. apply cntb_change_one; auto.
  intros k _ Hk. apply snth_supd_other. congruence.
Qed.

Lemma cntb_supd_beyond l j v n : (n <= j)%nat -> cntb (supd l j v) n = cntb l n.
Proof. intros H. apply cntb_ext. intros k Hk. apply snth_supd_other. lia. Qed.
