(* C08 - lemmas about the post-solve step models (coq/PostsolveModel.v). *)
From Coq Require Import QArith Qabs List Bool Arith Lia Lqa Setoid.
From SV Require Import Vec LP Cert PostsolveModel.
Import ListNotations.
Local Open Scope Q_scope.

(* ---------- padded lists ---------- *)
Lemma nth_upd_same {A} (d : A) l i v : nth i (upd d l i v) d = v.
Proof.
  revert l; induction i as [|i IH]; intros [|a l]; simpl; auto.
Qed.

Lemma nth_upd_other {A} (d : A) l i k v : i <> k -> nth k (upd d l i v) d = nth k l d.
Proof.
  revert l k; induction i as [|i IH]; intros [|a l] [|k] H; simpl; try congruence; auto.
  - destruct k; reflexivity.
  - rewrite IH by congruence. destruct k; reflexivity.
Qed.

Lemma vnth_nth l i : vnth l i = nth i l 0.
Proof. revert i; induction l as [|a l IH]; intros [|i]; simpl; auto. Qed.

Lemma vnth_qupd_same l i v : vnth (qupd l i v) i = v.
Proof. rewrite vnth_nth. apply nth_upd_same. Qed.

Lemma vnth_qupd_other l i k v : i <> k -> vnth (qupd l i v) k = vnth l k.
Proof. intros H. rewrite !vnth_nth. now apply nth_upd_other. Qed.

Lemma snth_supd_same l i v : snth (supd l i v) i = v.
Proof. apply nth_upd_same. Qed.

Lemma snth_supd_other l i k v : i <> k -> snth (supd l i v) k = snth l k.
Proof. apply nth_upd_other. Qed.
