(* C08 - lemmas about the post-solve step models (coq/PostsolveModel.v). *)
From Coq Require Import QArith Qabs List Bool Arith Lia Lqa Setoid.
From SV Require Import Vec LP Cert Cert_Proofs PostsolveModel.
Import ListNotations.
Local Open Scope Q_scope.

(* ---------- padded lists ---------- *)
Lemma nth_upd_same {A} (d : A) l i v : nth i (upd d l i v) d = v.
Proof.
  revert l; induction i as [|i IH]; intros [|a l]; simpl; auto.
Qed.

Lemma nth_upd_other {A} (d : A) l i k v : i <> k -> nth k (upd d l i v) d = nth k l d.
Proof.
  revert l k; induction i as [|i IH]; intros [|a l] [|k] H; simpl; try congruence; auto.
  - destruct k; reflexivity.
  - rewrite IH by congruence. destruct k; reflexivity.
Qed.

Lemma vnth_nth l i : vnth l i = nth i l 0.
Proof. revert i; induction l as [|a l IH]; intros [|i]; simpl; auto. Qed.

Lemma vnth_qupd_same l i v : vnth (qupd l i v) i = v.
Proof. rewrite vnth_nth. apply nth_upd_same. Qed.

Lemma vnth_qupd_other l i k v : i <> k -> vnth (qupd l i v) k = vnth l k.
Proof. intros H. rewrite !vnth_nth. now apply nth_upd_other. Qed.

Lemma snth_supd_same l i v : snth (supd l i v) i = v.
Proof. apply nth_upd_same. Qed.

Lemma snth_supd_other l i k v : i <> k -> snth (supd l i v) k = snth l k.
Proof. apply nth_upd_other. Qed.

(* ---------- finite sums over index ranges ---------- *)
Fixpoint sumn (n : nat) (f : nat -> Q) : Q := match n with O => 0 | S k => sumn k f + f k end.

Lemma sumn_ext n f g : (forall k, (k < n)%nat -> f k == g k) -> sumn n f == sumn n g.
Proof.
  induction n as [|n IH]; intros H; simpl; [reflexivity|].
  rewrite IH by (intros; apply H; lia). rewrite (H n) by lia. reflexivity.
Qed.

Lemma sumn_shift n f : sumn (S n) f == f 0%nat + sumn n (fun k => f (S k)).
Proof.
  induction n as [|n IH]; [simpl; ring|].
  change (sumn (S (S n)) f) with (sumn (S n) f + f (S n)). rewrite IH. simpl. ring.
Qed.

Lemma sumn_zero n f : (forall k, (k < n)%nat -> f k == 0) -> sumn n f == 0.
Proof.
  induction n as [|n IH]; intros H; simpl; [reflexivity|].
  rewrite IH by (intros; apply H; lia). rewrite (H n) by lia. ring.
Qed.

Lemma sumn_plus n f g : sumn n (fun k => f k + g k) == sumn n f + sumn n g.
Proof. induction n as [|n IH]; simpl; [ring|]. rewrite IH. ring. Qed.

Lemma sumn_scal n c f : sumn n (fun k => c * f k) == c * sumn n f.
Proof. induction n as [|n IH]; simpl; [ring|]. rewrite IH. ring. Qed.

(* a sum whose terms agree except at one index *)
Lemma sumn_change_one n f g j : (j < n)%nat -> (forall k, (k < n)%nat -> k <> j -> f k == g k) ->
  sumn n f == sumn n g + (f j - g j).
Proof.
  induction n as [|n IH]; intros Hj H; [lia|]. simpl.
  destruct (Nat.eq_dec j n) as [->|Hne].
  - rewrite (sumn_ext n f g) by (intros; apply H; lia). ring.
  - rewrite IH by (try lia; intros; apply H; lia). rewrite (H n) by lia. ring.
Qed.

(* a sum extended by zero terms *)
Lemma sumn_extend n m f : (n <= m)%nat -> (forall k, (n <= k < m)%nat -> f k == 0) -> sumn m f == sumn n f.
Proof.
  intros Hle. induction Hle as [|m Hle IH]; intros H; [reflexivity|].
  simpl. rewrite IH by (intros; apply H; lia). rewrite (H m) by lia. ring.
Qed.

Lemma vnth_beyond l k : (length l <= k)%nat -> vnth l k = 0.
Proof. revert k; induction l as [|a l IH]; intros [|k] H; simpl in *; try lia; auto. apply IH. lia. Qed.

Lemma dot_sumn u x : dot u x == sumn (length u) (fun k => vnth u k * vnth x k).
Proof.
  revert x; induction u as [|a u IH]; intros x; [reflexivity|].
  change (length (a :: u)) with (S (length u)). rewrite sumn_shift.
  destruct x as [|b x]; simpl.
  - rewrite sumn_zero by (intros; destruct u; simpl; ring). ring.
  - rewrite IH. reflexivity.
Qed.

Lemma dot_sumn_ge u x n : (length u <= n)%nat -> dot u x == sumn n (fun k => vnth u k * vnth x k).
Proof.
  intros H. rewrite dot_sumn. symmetry. apply sumn_extend; auto.
  intros k Hk. rewrite vnth_beyond by lia. ring.
Qed.

Lemma vnth_nil k : vnth [] k = 0.
Proof. destruct k; reflexivity. Qed.

Lemma tmat_vec_sumn A : forall y j, vnth (tmat_vec A y) j == sumn (length A) (fun i => vnth y i * vnth (nth i A []) j).
Proof.
  induction A as [|a A IH]; intros y j.
  - simpl. reflexivity.
  - change (length (a :: A)) with (S (length A)). rewrite sumn_shift.
    destruct y as [|yi y]; simpl tmat_vec.
    + rewrite !vnth_nil. rewrite sumn_zero by (intros; rewrite vnth_nil; ring). ring.
    + rewrite vnth_vadd, vnth_vscale, IH. reflexivity.
Qed.

(* ---------- removal with the last element moved into the hole ---------- *)
Lemma swap_remove_length {A} (d : A) i l : length (swap_remove d i l) = (length l - 1)%nat.
Proof. unfold swap_remove. now rewrite map_length, seq_length. Qed.

Lemma nth_map_seq {A} (f : nat -> A) d : forall len a k, (k < len)%nat -> nth k (map f (seq a len)) d = f (a + k)%nat.
Proof.
  induction len as [|len IH]; intros a k H; [lia|].
  destruct k as [|k]; simpl.
  - now rewrite Nat.add_0_r.
  - rewrite IH by lia. f_equal. lia.
Qed.

Lemma nth_swap_remove {A} (d : A) i l k : (k < length l - 1)%nat ->
  nth k (swap_remove d i l) d = if Nat.eqb k i then nth (length l - 1) l d else nth k l d.
Proof. intros H. unfold swap_remove. now rewrite nth_map_seq by lia. Qed.

Lemma vnth_swap_remove i u k : (k < length u - 1)%nat ->
  vnth (swap_remove 0 i u) k = if Nat.eqb k i then vnth u (length u - 1) else vnth u k.
Proof. intros H. rewrite !vnth_nth. now apply nth_swap_remove. Qed.

(* the sum identity behind every "correct the index, then restore the removed element" *)
Lemma sumn_swap n1 (c x : nat -> Q) j v : (j <= n1)%nat ->
  sumn (S n1) (fun k => c k * (if Nat.eqb k j then v else if Nat.eqb k n1 then x j else x k))
  == sumn n1 (fun k => (if Nat.eqb k j then c n1 else c k) * x k) + c j * v.
Proof.
  intros Hj.
  set (F := fun k => c k * (if Nat.eqb k j then v else if Nat.eqb k n1 then x j else x k)).
  set (G := fun k => (if Nat.eqb k j then c n1 else c k) * x k).
  change (sumn n1 F + F n1 == sumn n1 G + c j * v).
  destruct (Nat.eq_dec j n1) as [->|Hne].
  - assert (E1 : sumn n1 F == sumn n1 G).
    { apply sumn_ext. intros k Hk. unfold F, G. destruct (Nat.eqb_spec k n1); [lia|]. reflexivity. }
    rewrite E1. unfold F. rewrite Nat.eqb_refl. reflexivity.
  - assert (E1 : sumn n1 F == sumn n1 G + (F j - G j)).
    { apply sumn_change_one; [lia|]. intros k Hk Hkj. unfold F, G.
      destruct (Nat.eqb_spec k j); [lia|]. destruct (Nat.eqb_spec k n1); [lia|]. reflexivity. }
    rewrite E1. unfold F, G. rewrite !Nat.eqb_refl.
    destruct (Nat.eqb_spec n1 j); [lia|]. ring.
Qed.

(* x with the element of position j moved back to the last position n1 and v written to position j *)
Definition unswap (x : list Q) (j n1 : nat) (v : Q) : list Q :=
  qupd (if Nat.eqb j n1 then x else qupd x n1 (vnth x j)) j v.

Lemma vnth_unswap x j n1 v k :
  vnth (unswap x j n1 v) k = if Nat.eqb k j then v else if Nat.eqb k n1 then vnth x j else vnth x k.
Proof.
  unfold unswap. destruct (Nat.eqb_spec k j) as [->|Hkj].
  - apply vnth_qupd_same.
  - rewrite vnth_qupd_other by congruence.
    destruct (Nat.eqb_spec j n1) as [->|Hjn].
    + destruct (Nat.eqb_spec k n1); [congruence|reflexivity].
    + destruct (Nat.eqb_spec k n1) as [->|Hkn]; [apply vnth_qupd_same|].
      now rewrite vnth_qupd_other by congruence.
Qed.

Lemma dot_unswap u x j v : (j < length u)%nat ->
  dot u (unswap x j (length u - 1) v) == dot (swap_remove 0 j u) x + vnth u j * v.
Proof.
  intros Hj. rewrite !dot_sumn, swap_remove_length.
  destruct (length u) as [|n1] eqn:E; [lia|]. replace (S n1 - 1)%nat with n1 by lia.
  rewrite (sumn_ext (S n1) _ (fun k => vnth u k * (if Nat.eqb k j then v else if Nat.eqb k n1 then vnth x j else vnth x k)))
    by (intros; rewrite vnth_unswap; reflexivity).
  rewrite (sumn_swap n1 (vnth u) (vnth x) j v) by lia.
  apply Qplus_comp; [|reflexivity].
  apply sumn_ext. intros k Hk. rewrite vnth_swap_remove by (rewrite E; lia). rewrite E.
  replace (S n1 - 1)%nat with n1 by lia. reflexivity.
Qed.

Lemma tmat_vec_unswap A y i v j : (i < length A)%nat ->
  vnth (tmat_vec A (unswap y i (length A - 1) v)) j == vnth (tmat_vec (swap_remove [] i A) y) j + v * vnth (nth i A []) j.
Proof.
  intros Hi. rewrite !tmat_vec_sumn, swap_remove_length.
  destruct (length A) as [|m1] eqn:E; [lia|]. replace (S m1 - 1)%nat with m1 by lia.
  rewrite (sumn_ext (S m1) _ (fun k => vnth (nth k A []) j * (if Nat.eqb k i then v else if Nat.eqb k m1 then vnth y i else vnth y k)))
    by (intros; rewrite vnth_unswap; ring).
  rewrite (sumn_swap m1 (fun k => vnth (nth k A []) j) (vnth y) i v) by lia.
  rewrite (Qmult_comm v). apply Qplus_comp; [|reflexivity].
  apply sumn_ext. intros k Hk. rewrite nth_swap_remove by (rewrite E; lia). rewrite E.
  replace (S m1 - 1)%nat with m1 by lia. destruct (Nat.eqb k i); ring.
Qed.

(* ---------- sparse copies ---------- *)
Fixpoint sumseq (l : list nat) (f : nat -> Q) : Q := match l with [] => 0 | k :: r => f k + sumseq r f end.

Lemma sumseq_seq f : forall len a, sumseq (seq a len) f == sumn len (fun k => f (a + k)%nat).
Proof.
  induction len as [|len IH]; intros a; [reflexivity|].
  simpl seq. simpl sumseq. rewrite IH. rewrite sumn_shift. rewrite Nat.add_0_r.
  apply Qplus_comp; [reflexivity|]. apply sumn_ext. intros k _. now rewrite Nat.add_succ_r.
Qed.

Lemma sdot_app u v x : sdot (u ++ v) x == sdot u x + sdot v x.
Proof. induction u as [|[k a] u IH]; simpl; [ring|]. rewrite IH. ring. Qed.

Lemma sdot_sp_of f n x : sdot (sp_of f n) x == sumn n (fun k => f k * vnth x k).
Proof.
  unfold sp_of. transitivity (sumseq (seq 0 n) (fun k => f k * vnth x k)).
  - induction (seq 0 n) as [|k l IH]; [reflexivity|]. simpl flat_map. rewrite sdot_app, IH. simpl sumseq.
    apply Qplus_comp; [|reflexivity].
    destruct (Qeq_bool (f k) 0) eqn:E; simpl; [|ring]. apply Qeq_bool_iff in E. rewrite E. ring.
  - rewrite sumseq_seq. apply sumn_ext. intros; reflexivity.
Qed.

Lemma sdot_skip_app u v s x : sdot_skip (u ++ v) s x == sdot_skip u s x + sdot_skip v s x.
Proof. induction u as [|[k a] u IH]; simpl; [ring|]. rewrite IH. ring. Qed.

Lemma sdot_skip_sp_of f n s x : sdot_skip (sp_of f n) s x == sumn n (fun k => if Nat.eqb k s then 0 else f k * vnth x k).
Proof.
  unfold sp_of. transitivity (sumseq (seq 0 n) (fun k => if Nat.eqb k s then 0 else f k * vnth x k)).
  - induction (seq 0 n) as [|k l IH]; [reflexivity|]. simpl flat_map. rewrite sdot_skip_app, IH. simpl sumseq.
    apply Qplus_comp; [|reflexivity].
    destruct (Qeq_bool (f k) 0) eqn:E; simpl.
    + apply Qeq_bool_iff in E. destruct (Nat.eqb k s); [ring|]. rewrite E. ring.
    + destruct (Nat.eqb k s); ring.
  - rewrite sumseq_seq. apply sumn_ext. intros; reflexivity.
Qed.

Lemma sadd_app u v c s : sadd (u ++ v) c s = sadd v c (sadd u c s).
Proof. revert s; induction u as [|[k a] u IH]; intros s; simpl; auto. Qed.

Lemma vnth_sadd_notin u c : forall s k, ~ In k (map fst u) -> vnth (sadd u c s) k = vnth s k.
Proof.
  induction u as [|[i a] u IH]; intros s k H; simpl; auto.
  simpl in H. rewrite IH by tauto. apply vnth_qupd_other. tauto.
Qed.

Lemma vnth_sadd_sp_of f c : forall len a s k,
  vnth (sadd (flat_map (fun k => if Qeq_bool (f k) 0 then [] else [(k, f k)]) (seq a len)) c s) k
  == vnth s k + (if (Nat.leb a k && Nat.ltb k (a + len))%bool then f k * c else 0).
Proof.
  induction len as [|len IH]; intros a s k.
  - simpl. destruct (Nat.leb_spec a k), (Nat.ltb_spec k (a + 0)); simpl; try ring; lia.
  - simpl seq. simpl flat_map. rewrite sadd_app, IH. cbv beta.
    destruct (Nat.eq_dec k a) as [->|Hne].
    + destruct (Nat.leb_spec (S a) a); [lia|]. simpl andb.
      destruct (Nat.leb_spec a a); [|lia]. destruct (Nat.ltb_spec a (a + S len)); [|lia]. simpl andb.
      destruct (Qeq_bool (f a) 0) eqn:E; simpl.
      * apply Qeq_bool_iff in E. rewrite E. ring.
      * rewrite vnth_qupd_same. ring.
    + destruct (Qeq_bool (f a) 0); simpl sadd; [|rewrite vnth_qupd_other by congruence];
      destruct (Nat.leb_spec (S a) k), (Nat.leb_spec a k), (Nat.ltb_spec k (S a + len)), (Nat.ltb_spec k (a + S len)); simpl; try ring; lia.
Qed.

Lemma vnth_sadd_sp n f c s k : vnth (sadd (sp_of f n) c s) k == vnth s k + (if Nat.ltb k n then f k * c else 0).
Proof. unfold sp_of. rewrite vnth_sadd_sp_of. simpl. reflexivity. Qed.

(* ---------- access to the reduced LPs ---------- *)
Lemma activity_sumn P i x : wf_lp P -> (i < nrows P)%nat -> activity P i x == sumn (ncols P) (fun k => coef P i k * vnth x k).
Proof. intros W Hi. unfold activity. apply dot_sumn_ge. rewrite W by auto. lia. Qed.

Lemma matrix_length P : length (matrix P) = nrows P.
Proof. unfold matrix, nrows. apply map_length. Qed.

Lemma nth_matrix P i : nth i (matrix P) [] = r_coef (rowi P i).
Proof. unfold matrix, rowi. change [] with (r_coef drow). apply map_nth. Qed.

Lemma tvec_sumn P y j : vnth (tmat_vec (matrix P) y) j == sumn (nrows P) (fun i => vnth y i * coef P i j).
Proof. rewrite tmat_vec_sumn, matrix_length. apply sumn_ext. intros i _. rewrite nth_matrix. reflexivity. Qed.

Lemma matrix_remove_row P i : matrix (red_remove_row P i) = swap_remove [] i (matrix P).
Proof.
  unfold matrix, red_remove_row, swap_remove; simpl. rewrite map_map, map_length.
  apply map_ext. intros k. change [] with (r_coef drow). rewrite !map_nth. destruct (Nat.eqb k i); reflexivity.
Qed.

Lemma nrows_remove_row P i : nrows (red_remove_row P i) = (nrows P - 1)%nat.
Proof. unfold nrows, red_remove_row; simpl. apply swap_remove_length. Qed.

Lemma rowi_remove_row P i k : (k < nrows P - 1)%nat ->
  rowi (red_remove_row P i) k = if Nat.eqb k i then rowi P (nrows P - 1) else rowi P k.
Proof. intros H. unfold rowi, red_remove_row; simpl. now apply nth_swap_remove. Qed.

(* status lists *)
Definition sunswap (l : list vstat) (j n1 : nat) (v : vstat) : list vstat :=
  supd (if Nat.eqb j n1 then l else supd l n1 (snth l j)) j v.

Lemma snth_sunswap l j n1 v k :
  snth (sunswap l j n1 v) k = if Nat.eqb k j then v else if Nat.eqb k n1 then snth l j else snth l k.
Proof.
  unfold sunswap. destruct (Nat.eqb_spec k j) as [->|Hkj].
  - apply snth_supd_same.
  - rewrite snth_supd_other by congruence.
    destruct (Nat.eqb_spec j n1) as [->|Hjn].
    + destruct (Nat.eqb_spec k n1); [congruence|reflexivity].
    + destruct (Nat.eqb_spec k n1) as [->|Hkn]; [apply snth_supd_same|].
      now rewrite snth_supd_other by congruence.
Qed.

Lemma cntb_ext l l' n : (forall k, (k < n)%nat -> snth l k = snth l' k) -> cntb l n = cntb l' n.
Proof.
  induction n as [|n IH]; intros H; simpl; auto. rewrite IH by (intros; apply H; lia). rewrite (H n) by lia. reflexivity.
Qed.

Definition b1 (v : vstat) : nat := if is_basic v then 1%nat else 0%nat.

Lemma cntb_change_one l l' j : forall n, (j < n)%nat -> (forall k, (k < n)%nat -> k <> j -> snth l' k = snth l k) ->
  (cntb l' n + b1 (snth l j) = cntb l n + b1 (snth l' j))%nat.
Proof.
  induction n as [|n IH]; intros Hj H; [lia|]. simpl cntb. fold (b1 (snth l' n)). fold (b1 (snth l n)).
  destruct (Nat.eq_dec j n) as [->|Hne].
  - rewrite (cntb_ext l' l n) by (intros; apply H; lia). lia.
  - rewrite (H n) by lia. assert (cntb l' n + b1 (snth l j) = cntb l n + b1 (snth l' j))%nat by (apply IH; [lia|intros; apply H; lia]). lia.
Qed.

(* counting after the index correction: positions < n1 other than j are unchanged, j gets v, n1 gets the old j *)
Lemma cntb_sunswap l j n1 v : (j <= n1)%nat -> cntb (sunswap l j n1 v) (S n1) = (cntb l n1 + b1 v)%nat.
Proof.
  intros Hj. simpl cntb. fold (b1 (snth (sunswap l j n1 v) n1)).
  destruct (Nat.eq_dec j n1) as [->|Hne].
  - rewrite snth_sunswap, Nat.eqb_refl.
    rewrite (cntb_ext _ l n1); [reflexivity|].
    intros k Hk. rewrite snth_sunswap. destruct (Nat.eqb_spec k n1); [lia|reflexivity].
  - rewrite snth_sunswap. destruct (Nat.eqb_spec n1 j); [lia|]. rewrite Nat.eqb_refl.
    assert (E : (cntb (sunswap l j n1 v) n1 + b1 (snth l j) = cntb l n1 + b1 (snth (sunswap l j n1 v) j))%nat).
    { apply cntb_change_one; [lia|]. intros k Hk Hkj. rewrite snth_sunswap.
      destruct (Nat.eqb_spec k j); [lia|]. destruct (Nat.eqb_spec k n1); [lia|reflexivity]. }
    rewrite snth_sunswap, Nat.eqb_refl in E. exact E.
Qed.

Lemma cntb_supd l j v n : (j < n)%nat -> (cntb (supd l j v) n + b1 (snth l j) = cntb l n + b1 v)%nat.
Proof.
  intros Hj. rewrite <- (snth_supd_same l j v) at 2. apply cntb_change_one; auto.
  intros k _ Hk. apply snth_supd_other. congruence.
Qed.

Lemma cntb_supd_beyond l j v n : (n <= j)%nat -> cntb (supd l j v) n = cntb l n.
Proof. intros H. apply cntb_ext. intros k Hk. apply snth_supd_other. lia. Qed.

(* ================================================================================================================= *)
(* FreeConstraintPS / EmptyConstraintPS: a row is restored                                                          *)
(* ================================================================================================================= *)
Definition restore_row (i oi : nat) (v yv : Q) (t : st) : st :=
  mkst (sx t) (unswap (sy t) i oi yv) (unswap (ss t) i oi v) (sr t) (scs t) (sunswap (srs t) i oi BASIC).

Lemma exec_FreeConstraint_eq i oi row ro t :
  exec_FreeConstraint i oi row ro t = restore_row i oi (sdot row (sx t)) ro t.
Proof.
  unfold exec_FreeConstraint, restore_row, fix_row_idx, unswap, sunswap, set_rs, set_y, set_s, gs, gy, grs.
  destruct (Nat.eqb i oi); reflexivity.
Qed.

Lemma exec_EmptyConstraint_eq i oi ro t : exec_EmptyConstraint i oi ro t = restore_row i oi 0 ro t.
Proof.
  unfold exec_EmptyConstraint, restore_row, fix_row_idx, unswap, sunswap, set_rs, set_y, set_s, gs, gy, grs.
  destruct (Nat.eqb i oi); reflexivity.
Qed.

Section RestoreRow.
  Variable P : lp.
  Variable i : nat.
  Hypothesis Hi : (i < nrows P)%nat.
  Let P' := red_remove_row P i.
  Let m1 := (nrows P - 1)%nat.

  Lemma restore_row_prim v t : v == activity P i (sx t) -> prim_ident P' t -> prim_ident P (restore_row i m1 v 0 t).
  Proof.
    intros Hv H k Hk. unfold gs, restore_row; cbn [ss sx]. rewrite vnth_unswap.
    destruct (Nat.eqb_spec k i) as [->|Hki]; [exact Hv|].
    destruct (Nat.eqb_spec k m1) as [->|Hkm].
    - assert (Hi' : (i < nrows P')%nat) by (unfold P'; rewrite nrows_remove_row; unfold m1 in *; lia).
      specialize (H i Hi'). unfold gs in H. rewrite H. unfold activity, P'.
      rewrite rowi_remove_row by (unfold m1 in *; lia). rewrite Nat.eqb_refl. reflexivity.
    - assert (Hk' : (k < nrows P')%nat) by (unfold P'; rewrite nrows_remove_row; unfold m1 in *; lia).
      specialize (H k Hk'). unfold gs in H. rewrite H. unfold activity, P'.
      rewrite rowi_remove_row by (unfold m1 in *; lia). destruct (Nat.eqb_spec k i); [lia|]. reflexivity.
  Qed.

  Lemma restore_row_dual v t : dual_ident P' t -> dual_ident P (restore_row i m1 v 0 t).
  Proof.
    intros H j Hj. unfold gr, restore_row; cbn [sr sy].
    specialize (H j Hj). unfold gr in H. rewrite H. unfold P' at 1. cbn [red_remove_row colj cols].
    unfold m1. rewrite <- matrix_length.
    rewrite tmat_vec_unswap by (rewrite matrix_length; exact Hi).
    unfold P'. rewrite matrix_remove_row. change (colj (red_remove_row P i) j) with (colj P j). ring.
  Qed.

  Lemma restore_row_feas v t : in_bounds (r_lhs (rowi P i)) (r_rhs (rowi P i)) v -> prim_feas P' t -> prim_feas P (restore_row i m1 v 0 t).
  Proof.
    intros Hv [Hc Hr]. split.
    - intros j Hj. apply (Hc j Hj).
    - intros k Hk. unfold gs, restore_row; cbn [ss]. rewrite vnth_unswap.
      destruct (Nat.eqb_spec k i) as [->|Hki]; [exact Hv|].
      destruct (Nat.eqb_spec k m1) as [->|Hkm].
      + assert (Hi' : (i < nrows P')%nat) by (unfold P'; rewrite nrows_remove_row; unfold m1 in *; lia).
        specialize (Hr i Hi'). unfold P' in Hr. rewrite rowi_remove_row in Hr by (unfold m1 in *; lia).
        rewrite Nat.eqb_refl in Hr. exact Hr.
      + assert (Hk' : (k < nrows P')%nat) by (unfold P'; rewrite nrows_remove_row; unfold m1 in *; lia).
        specialize (Hr k Hk'). unfold P' in Hr. rewrite rowi_remove_row in Hr by (unfold m1 in *; lia).
        destruct (Nat.eqb_spec k i); [lia|]. exact Hr.
  Qed.

  Lemma cs_prop_zero lo up v : cs_prop 0 lo up v.
  Proof. split; intros H; lra. Qed.

  Lemma restore_row_signs v t : dual_signs P' t -> dual_signs P (restore_row i m1 v 0 t).
  Proof.
    intros [Hc Hr]. split.
    - intros j Hj. apply (Hc j Hj).
    - intros k Hk. unfold gs, gy, restore_row; cbn [ss sy]. rewrite !vnth_unswap.
      destruct (Nat.eqb_spec k i) as [->|Hki]; [apply cs_prop_zero|].
      destruct (Nat.eqb_spec k m1) as [->|Hkm].
      + assert (Hi' : (i < nrows P')%nat) by (unfold P'; rewrite nrows_remove_row; unfold m1 in *; lia).
        specialize (Hr i Hi'). unfold P' in Hr. rewrite rowi_remove_row in Hr by (unfold m1 in *; lia).
        rewrite Nat.eqb_refl in Hr. exact Hr.
      + assert (Hk' : (k < nrows P')%nat) by (unfold P'; rewrite nrows_remove_row; unfold m1 in *; lia).
        specialize (Hr k Hk'). unfold P' in Hr. rewrite rowi_remove_row in Hr by (unfold m1 in *; lia).
        destruct (Nat.eqb_spec k i); [lia|]. exact Hr.
  Qed.

  Lemma restore_row_count v yv t : basis_count P' t -> basis_count P (restore_row i m1 v yv t).
  Proof.
    unfold basis_count, restore_row; cbn [scs srs]. unfold P'. rewrite nrows_remove_row. fold m1.
    change (ncols (red_remove_row P i)) with (ncols P). intros H.
    replace (nrows P) with (S m1) by (unfold m1; lia).
    rewrite cntb_sunswap by (unfold m1; lia). change (b1 BASIC) with 1%nat. lia.
  Qed.
End RestoreRow.

Lemma sdot_sp_row P i x : wf_lp P -> (i < nrows P)%nat -> sdot (sp_row P i) x == activity P i x.
Proof. intros W Hi. unfold sp_row. rewrite sdot_sp_of, activity_sumn by auto. reflexivity. Qed.

(* FreeConstraintPS *)
Lemma FreeConstraint_identities P i t : wf_lp P -> (i < nrows P)%nat ->
  prim_ident (red_remove_row P i) t /\ dual_ident (red_remove_row P i) t ->
  let t' := exec_FreeConstraint i (nrows P - 1) (sp_row P i) 0 t in prim_ident P t' /\ dual_ident P t'.
Proof.
  intros W Hi [H1 H2] t'. unfold t'. rewrite exec_FreeConstraint_eq. split.
  - apply restore_row_prim; auto. now apply sdot_sp_row.
  - now apply restore_row_dual.
Qed.

Lemma FreeConstraint_feasibility_and_signs P i t : (i < nrows P)%nat ->
  r_lhs (rowi P i) = None -> r_rhs (rowi P i) = None ->
  prim_feas (red_remove_row P i) t /\ dual_signs (red_remove_row P i) t ->
  let t' := exec_FreeConstraint i (nrows P - 1) (sp_row P i) 0 t in prim_feas P t' /\ dual_signs P t'.
Proof.
  intros Hi Hl Hr [H1 H2] t'. unfold t'. rewrite exec_FreeConstraint_eq. split.
  - apply restore_row_feas; auto. rewrite Hl, Hr. split; exact I.
  - now apply restore_row_signs.
Qed.

Lemma FreeConstraint_basis_count P i t : (i < nrows P)%nat ->
  basis_count (red_remove_row P i) t -> basis_count P (exec_FreeConstraint i (nrows P - 1) (sp_row P i) 0 t).
Proof. intros Hi H. rewrite exec_FreeConstraint_eq. now apply restore_row_count. Qed.

(* EmptyConstraintPS: row i has no entries and 0 lies between its sides (otherwise the verdict is INFEASIBLE) *)
Definition empty_row (P : lp) (i : nat) : Prop := forall j, coef P i j == 0.

Lemma EmptyConstraint_identities P i t : wf_lp P -> (i < nrows P)%nat -> empty_row P i ->
  prim_ident (red_remove_row P i) t /\ dual_ident (red_remove_row P i) t ->
  let t' := exec_EmptyConstraint i (nrows P - 1) 0 t in prim_ident P t' /\ dual_ident P t'.
Proof.
  intros W Hi He [H1 H2] t'. unfold t'. rewrite exec_EmptyConstraint_eq. split.
  - apply restore_row_prim; auto. rewrite activity_sumn by auto. symmetry. apply sumn_zero.
    intros k _. cbv beta. pose proof (He k) as E. rewrite E. ring.
  - now apply restore_row_dual.
Qed.

Lemma EmptyConstraint_feasibility_and_signs P i t : (i < nrows P)%nat ->
  in_bounds (r_lhs (rowi P i)) (r_rhs (rowi P i)) 0 ->
  prim_feas (red_remove_row P i) t /\ dual_signs (red_remove_row P i) t ->
  let t' := exec_EmptyConstraint i (nrows P - 1) 0 t in prim_feas P t' /\ dual_signs P t'.
Proof.
  intros Hi Hb [H1 H2] t'. unfold t'. rewrite exec_EmptyConstraint_eq. split.
  - now apply restore_row_feas.
  - now apply restore_row_signs.
Qed.

Lemma EmptyConstraint_basis_count P i t : (i < nrows P)%nat ->
  basis_count (red_remove_row P i) t -> basis_count P (exec_EmptyConstraint i (nrows P - 1) 0 t).
Proof. intros Hi H. rewrite exec_EmptyConstraint_eq. now apply restore_row_count. Qed.

(* ================================================================================================================= *)
(* FixVariablePS                                                                                                     *)
(* ================================================================================================================= *)
Definition fixvar_status (c : cmps) (val lower upper : Q) : vstat :=
  if Qeq_bool lower upper then FIXED
  else if eqrel_e c val lower then ON_LOWER else if eqrel_e c val upper then ON_UPPER else ZERO.

Lemma fixvar_status_nonbasic c val lower upper : is_basic (fixvar_status c val lower upper) = false.
Proof. unfold fixvar_status. destruct (Qeq_bool lower upper), (eqrel_e c val lower), (eqrel_e c val upper); reflexivity. Qed.

Lemma exec_FixVariable_eq c j oj val obj lower upper col t :
  exec_FixVariable c j oj val obj lower upper true col t =
  mkst (unswap (sx t) j oj val) (sy t) (sadd col val (ss t)) (unswap (sr t) j oj (obj - sdot col (sy t)))
       (sunswap (scs t) j oj (fixvar_status c val lower upper)) (srs t).
Proof.
  unfold exec_FixVariable, fixvar_status, fix_col_idx, unswap, sunswap, set_x, set_r, set_cs, set_svec, gx, gr, gcs.
  destruct (Nat.eqb j oj), (Qeq_bool lower upper); reflexivity.
Qed.

Section FixVariable.
  Variable P : lp.
  Variable j : nat.
  Variable val : Q.
  Hypothesis W : wf_lp P.
  Hypothesis Hj : (j < ncols P)%nat.
  Let P' := red_FixVariable P j val.
  Let n1 := (ncols P - 1)%nat.

  Lemma ncols_FixVariable : ncols P' = n1.
  Proof. unfold P', ncols, red_FixVariable; cbn [cols]. apply swap_remove_length. Qed.

  Lemma nrows_FixVariable : nrows P' = nrows P.
  Proof. unfold P', nrows, red_FixVariable; cbn [rows]. apply map_length. Qed.

  Lemma colj_FixVariable k : (k < n1)%nat -> colj P' k = if Nat.eqb k j then colj P n1 else colj P k.
  Proof. intros H. unfold P', colj, red_FixVariable; cbn [cols]. now apply nth_swap_remove. Qed.

  Lemma rowi_FixVariable i :
    rowi P' i = {| r_lhs := shift_side (r_lhs (rowi P i)) (coef P i j * val);
                   r_coef := swap_remove 0 j (r_coef (rowi P i));
                   r_rhs := shift_side (r_rhs (rowi P i)) (coef P i j * val) |}.
  Proof.
    unfold P', rowi, red_FixVariable; cbn [rows].
    set (f := fun rw => {| r_lhs := shift_side (r_lhs rw) (vnth (r_coef rw) j * val);
                           r_coef := swap_remove 0 j (r_coef rw);
                           r_rhs := shift_side (r_rhs rw) (vnth (r_coef rw) j * val) |}).
    change drow with (f drow) at 1. rewrite map_nth. reflexivity.
  Qed.

  Lemma coef_FixVariable i k : (i < nrows P)%nat -> (k < n1)%nat ->
    coef P' i k = if Nat.eqb k j then coef P i n1 else coef P i k.
  Proof.
    intros Hi Hk. unfold coef at 1. rewrite rowi_FixVariable. cbn [r_coef].
    rewrite vnth_swap_remove by (rewrite W by auto; exact Hk). rewrite W by auto. reflexivity.
  Qed.

  Variable c : cmps.
  Variables lower upper : Q.
  Let exec t := exec_FixVariable c j n1 val (c_obj (colj P j)) lower upper true (sp_col P j) t.

  Lemma FixVariable_prim t : prim_ident P' t -> prim_ident P (exec t).
  Proof.
    intros H i Hi. unfold exec. rewrite exec_FixVariable_eq. unfold gs; cbn [ss sx].
    unfold sp_col. rewrite vnth_sadd_sp. destruct (Nat.ltb_spec i (nrows P)); [|lia].
    assert (Hi' : (i < nrows P')%nat) by (rewrite nrows_FixVariable; exact Hi).
    specialize (H i Hi'). unfold gs in H. rewrite H. unfold activity. rewrite rowi_FixVariable. cbn [r_coef].
    unfold n1. rewrite <- (W i Hi). rewrite dot_unswap by (rewrite W by auto; exact Hj). unfold coef. reflexivity.
  Qed.

  Lemma FixVariable_dual t : dual_ident P' t -> dual_ident P (exec t).
  Proof.
    intros H k Hk. unfold exec. rewrite exec_FixVariable_eq. unfold gr; cbn [sr sy]. rewrite vnth_unswap.
    rewrite tvec_sumn.
    destruct (Nat.eqb_spec k j) as [->|Hkj].
    - unfold sp_col. rewrite sdot_sp_of. apply Qplus_comp; [reflexivity|]. apply Qopp_comp.
      apply sumn_ext. intros i _. ring.
    - assert (G : forall k', (k' < n1)%nat -> vnth (sr t) k' ==
                c_obj (colj P' k') - sumn (nrows P) (fun i => vnth (sy t) i * coef P' i k')).
      { intros k' Hk'. assert (Hk'' : (k' < ncols P')%nat) by (rewrite ncols_FixVariable; exact Hk').
        specialize (H k' Hk''). unfold gr in H. rewrite H, tvec_sumn, nrows_FixVariable. reflexivity. }
      destruct (Nat.eqb_spec k n1) as [->|Hkn].
      + assert (Hj1 : (j < n1)%nat) by (unfold n1 in *; lia).
        rewrite (G j Hj1). rewrite colj_FixVariable by exact Hj1. rewrite Nat.eqb_refl.
        apply Qplus_comp; [reflexivity|]. apply Qopp_comp. apply sumn_ext. intros i Hi.
        rewrite coef_FixVariable by auto. rewrite Nat.eqb_refl. reflexivity.
      + assert (Hk1 : (k < n1)%nat) by (unfold n1 in *; lia).
        rewrite (G k Hk1). rewrite colj_FixVariable by exact Hk1. destruct (Nat.eqb_spec k j); [lia|].
        apply Qplus_comp; [reflexivity|]. apply Qopp_comp. apply sumn_ext. intros i Hi.
        rewrite coef_FixVariable by auto. destruct (Nat.eqb_spec k j); [lia|]. reflexivity.
  Qed.

  Lemma in_bounds_shift lo up d v : in_bounds (shift_side lo d) (shift_side up d) v -> in_bounds lo up (v + d).
  Proof. unfold in_bounds. destruct lo, up; simpl; intros [A B]; split; auto; lra. Qed.

  Lemma cs_prop_shift k lo up d v : cs_prop k (shift_side lo d) (shift_side up d) v -> cs_prop k lo up (v + d).
  Proof.
    unfold cs_prop. intros [A B]. split; intros Hk.
    - specialize (A Hk). destruct lo; simpl in *; [lra|exact A].
    - specialize (B Hk). destruct up; simpl in *; [lra|exact B].
  Qed.

  Lemma FixVariable_feas t : in_bounds (c_lo (colj P j)) (c_up (colj P j)) val -> prim_feas P' t -> prim_feas P (exec t).
  Proof.
    intros Hv [Hc Hr]. unfold exec. rewrite exec_FixVariable_eq. split.
    - intros k Hk. unfold gx; cbn [sx]. rewrite vnth_unswap.
      destruct (Nat.eqb_spec k j) as [->|Hkj]; [exact Hv|].
      destruct (Nat.eqb_spec k n1) as [->|Hkn].
      + assert (Hj1 : (j < n1)%nat) by (unfold n1 in *; lia).
        assert (Hj2 : (j < ncols P')%nat) by (rewrite ncols_FixVariable; exact Hj1).
        specialize (Hc j Hj2). rewrite colj_FixVariable in Hc by exact Hj1. rewrite Nat.eqb_refl in Hc. exact Hc.
      + assert (Hk1 : (k < n1)%nat) by (unfold n1 in *; lia).
        assert (Hk2 : (k < ncols P')%nat) by (rewrite ncols_FixVariable; exact Hk1).
        specialize (Hc k Hk2). rewrite colj_FixVariable in Hc by exact Hk1. destruct (Nat.eqb_spec k j); [lia|]. exact Hc.
    - intros i Hi. unfold gs; cbn [ss]. unfold sp_col.
      assert (Hi' : (i < nrows P')%nat) by (rewrite nrows_FixVariable; exact Hi).
      specialize (Hr i Hi'). rewrite rowi_FixVariable in Hr. cbn [r_lhs r_rhs] in Hr. apply in_bounds_shift in Hr.
      unfold in_bounds, gs in *. destruct Hr as [A B].
      assert (E : vnth (sadd (sp_of (fun i0 => coef P i0 j) (nrows P)) val (ss t)) i == vnth (ss t) i + coef P i j * val).
      { rewrite vnth_sadd_sp. destruct (Nat.ltb_spec i (nrows P)); [reflexivity|lia]. }
      split.
      + destruct (r_lhs (rowi P i)); simpl in *; [|exact I]. rewrite E. exact A.
      + destruct (r_rhs (rowi P i)); simpl in *; [|exact I]. rewrite E. exact B.
  Qed.

  (* when may column j be fixed at val: its bounds coincide with val, or the column is empty and val is the bound its
     cost pushes it to (removeEmpty) *)
  Definition fix_justified : Prop :=
    (exists l u, c_lo (colj P j) = Some l /\ c_up (colj P j) = Some u /\ l == val /\ u == val) \/
    ((forall i, coef P i j == 0) /\ cs_prop (c_obj (colj P j)) (c_lo (colj P j)) (c_up (colj P j)) val).

  Lemma FixVariable_signs t : fix_justified -> dual_signs P' t -> dual_signs P (exec t).
  Proof.
    intros Hjust [Hc Hr]. unfold exec. rewrite exec_FixVariable_eq. split.
    - intros k Hk. unfold gx, gr; cbn [sx sr sy]. rewrite !vnth_unswap.
      destruct (Nat.eqb_spec k j) as [->|Hkj].
      + destruct Hjust as [(l & u & El & Eu & E1 & E2)|[Hz Hcs]].
        * rewrite El, Eu. split; intros _; assumption.
        * assert (E : c_obj (colj P j) - sdot (sp_col P j) (sy t) == c_obj (colj P j)).
          { unfold sp_col. rewrite sdot_sp_of. rewrite sumn_zero; [ring|]. intros i _. cbv beta. pose proof (Hz i) as Ez. rewrite Ez. ring. }
          unfold cs_prop in *. rewrite E. exact Hcs.
      + destruct (Nat.eqb_spec k n1) as [->|Hkn].
        * assert (Hj1 : (j < n1)%nat) by (unfold n1 in *; lia).
          assert (Hj2 : (j < ncols P')%nat) by (rewrite ncols_FixVariable; exact Hj1).
          specialize (Hc j Hj2). rewrite colj_FixVariable in Hc by exact Hj1. rewrite Nat.eqb_refl in Hc. exact Hc.
        * assert (Hk1 : (k < n1)%nat) by (unfold n1 in *; lia).
          assert (Hk2 : (k < ncols P')%nat) by (rewrite ncols_FixVariable; exact Hk1).
          specialize (Hc k Hk2). rewrite colj_FixVariable in Hc by exact Hk1. destruct (Nat.eqb_spec k j); [lia|]. exact Hc.
    - intros i Hi. unfold gs, gy; cbn [ss sy]. unfold sp_col.
      assert (Hi' : (i < nrows P')%nat) by (rewrite nrows_FixVariable; exact Hi).
      specialize (Hr i Hi'). rewrite rowi_FixVariable in Hr. cbn [r_lhs r_rhs] in Hr. apply cs_prop_shift in Hr.
      unfold gs, gy in Hr.
      assert (E : vnth (sadd (sp_of (fun i0 => coef P i0 j) (nrows P)) val (ss t)) i == vnth (ss t) i + coef P i j * val).
      { rewrite vnth_sadd_sp. destruct (Nat.ltb_spec i (nrows P)); [reflexivity|lia]. }
      unfold cs_prop in *. destruct Hr as [A B]. split; intros Hk.
      + specialize (A Hk). destruct (r_lhs (rowi P i)); [|exact A]. rewrite E. exact A.
      + specialize (B Hk). destruct (r_rhs (rowi P i)); [|exact B]. rewrite E. exact B.
  Qed.

  Lemma FixVariable_count t : basis_count P' t -> basis_count P (exec t).
  Proof.
    unfold basis_count, exec. rewrite exec_FixVariable_eq; cbn [scs srs].
    rewrite ncols_FixVariable, nrows_FixVariable. intros H.
    replace (ncols P) with (S n1) by (unfold n1; lia).
    rewrite cntb_sunswap by (unfold n1; lia). unfold b1. rewrite fixvar_status_nonbasic. lia.
  Qed.

  Lemma objvec_FixVariable : objvec P' = swap_remove 0 j (objvec P).
  Proof.
    unfold objvec, P', red_FixVariable, swap_remove; cbn [cols]. rewrite map_map, map_length.
    apply map_ext. intros k. change 0 with (c_obj dcol). rewrite !map_nth. destruct (Nat.eqb k j); reflexivity.
  Qed.

  Lemma FixVariable_objective t : objective P (sx (exec t)) == objective P' (sx t).
  Proof.
    unfold exec. rewrite exec_FixVariable_eq; cbn [sx]. unfold objective. rewrite objvec_FixVariable.
    change (offset P') with (offset P + c_obj (colj P j) * val). unfold n1.
    replace (ncols P) with (length (objvec P)) by (unfold objvec, ncols; apply map_length).
    rewrite dot_unswap by (unfold objvec; rewrite map_length; exact Hj).
    assert (E : vnth (objvec P) j = c_obj (colj P j)).
    { unfold objvec, colj. rewrite vnth_nth. change 0 with (c_obj dcol). apply map_nth. }
    rewrite E. ring.
  Qed.
End FixVariable.

(* ================================================================================================================= *)
(* FixBoundsPS: the bounds of column j had been collapsed to val (dominated / weakly dominated column, empty column,  *)
(* duplicate column); only the status of the column is restored                                                      *)
(* ================================================================================================================= *)
Section FixBounds.
  Variable P : lp.
  Variable j : nat.
  Variable val : Q.
  Hypothesis Hj : (j < ncols P)%nat.
  Let P' := red_FixBounds P j val.

  Lemma length_upd {A} (d : A) l i v : (i < length l)%nat -> length (upd d l i v) = length l.
  Proof. revert i; induction l as [|a l IH]; intros [|i] H; simpl in *; try lia; auto. rewrite IH; lia. Qed.

  Lemma ncols_FixBounds : ncols P' = ncols P.
  Proof. unfold P', ncols, red_FixBounds; cbn [cols]. apply length_upd. exact Hj. Qed.

  Lemma colj_FixBounds k : colj P' k = if Nat.eqb k j then {| c_obj := c_obj (colj P j); c_lo := Some val; c_up := Some val |} else colj P k.
  Proof.
    unfold P', colj, red_FixBounds; cbn [cols]. destruct (Nat.eqb_spec k j) as [Ekj|H]; [subst k|].
    - apply nth_upd_same.
    - apply nth_upd_other. congruence.
  Qed.

  Lemma c_obj_FixBounds k : c_obj (colj P' k) = c_obj (colj P k).
  Proof. rewrite colj_FixBounds. destruct (Nat.eqb_spec k j) as [Ekj|]; [subst k|]; reflexivity. Qed.

  Variable s : vstat.
  Let exec t := exec_FixBounds j s t.

  Lemma FixBounds_identities t : prim_ident P' t /\ dual_ident P' t -> prim_ident P (exec t) /\ dual_ident P (exec t).
  Proof.
    intros [H1 H2]. split.
    - intros i Hi. apply (H1 i Hi).
    - intros k Hk. assert (Hk' : (k < ncols P')%nat) by (rewrite ncols_FixBounds; exact Hk).
      specialize (H2 k Hk'). rewrite c_obj_FixBounds in H2. exact H2.
  Qed.

  (* the value the column was fixed at lies within its original bounds *)
  Lemma FixBounds_feas t : in_bounds (c_lo (colj P j)) (c_up (colj P j)) val -> prim_feas P' t -> prim_feas P (exec t).
  Proof.
    intros Hv [Hc Hr]. split.
    - intros k Hk. assert (Hk' : (k < ncols P')%nat) by (rewrite ncols_FixBounds; exact Hk).
      specialize (Hc k Hk'). rewrite colj_FixBounds in Hc. unfold exec, exec_FixBounds, gx, set_cs in *; cbn [sx] in *.
      destruct (Nat.eqb_spec k j) as [Ekj|]; [subst k|exact Hc].
      cbn [c_lo c_up] in Hc. destruct Hc as [A B]. simpl in A, B.
      assert (E : vnth (sx t) j == val) by lra.
      destruct Hv as [A' B']. split.
      + destruct (c_lo (colj P j)); simpl in *; [lra|exact I].
      + destruct (c_up (colj P j)); simpl in *; [lra|exact I].
    - intros i Hi. apply (Hr i Hi).
  Qed.

  (* signs: the reductions that use FixBoundsPS fix a column at the bound its reduced cost is forced to have a sign
     for.  The dominated-column case: cost < 0 and every row entry pushes the reduced cost further down *)
  Definition dominated_up : Prop :=
    c_obj (colj P j) < 0 /\ c_up (colj P j) = Some val /\
    forall i, (i < nrows P)%nat -> (0 < coef P i j -> r_rhs (rowi P i) = None) /\ (coef P i j < 0 -> r_lhs (rowi P i) = None).
  Definition dominated_lo : Prop :=
    0 < c_obj (colj P j) /\ c_lo (colj P j) = Some val /\
    forall i, (i < nrows P)%nat -> (0 < coef P i j -> r_lhs (rowi P i) = None) /\ (coef P i j < 0 -> r_rhs (rowi P i) = None).

  Lemma sumn_nonneg n f : (forall k, (k < n)%nat -> 0 <= f k) -> 0 <= sumn n f.
  Proof.
    induction n as [|n IH]; intros H; simpl; [lra|].
    assert (0 <= sumn n f) by (apply IH; intros; apply H; lia). assert (0 <= f n) by (apply H; lia). lra.
  Qed.

  Lemma row_sign_pos t i : dual_signs P' t -> (i < nrows P)%nat -> r_rhs (rowi P i) = None -> 0 <= gy t i.
  Proof.
    intros [_ Hr] Hi E. specialize (Hr i Hi). change (rowi P' i) with (rowi P i) in Hr. destruct Hr as [_ B].
    rewrite E in B. destruct (Qlt_le_dec (gy t i) 0); [exfalso; auto|assumption].
  Qed.
  Lemma row_sign_neg t i : dual_signs P' t -> (i < nrows P)%nat -> r_lhs (rowi P i) = None -> gy t i <= 0.
  Proof.
    intros [_ Hr] Hi E. specialize (Hr i Hi). change (rowi P' i) with (rowi P i) in Hr. destruct Hr as [A _].
    rewrite E in A. destruct (Qlt_le_dec 0 (gy t i)); [exfalso; auto|assumption].
  Qed.

  Lemma FixBounds_signs t : dominated_up \/ dominated_lo -> prim_feas P' t -> dual_ident P' t -> dual_signs P' t -> dual_signs P (exec t).
  Proof.
    intros Hdom [Hfc _] Hid Hs. pose proof Hs as [Hc Hr]. split; [|intros i Hi; apply (Hr i Hi)].
    intros k Hk. assert (Hk' : (k < ncols P')%nat) by (rewrite ncols_FixBounds; exact Hk).
    specialize (Hc k Hk'). rewrite colj_FixBounds in Hc. unfold exec, exec_FixBounds, gx, gr, set_cs in *; cbn [sx sr] in *.
    destruct (Nat.eqb_spec k j) as [Ekj|]; [subst k|exact Hc]. clear Hc.
    assert (Hj' : (j < ncols P')%nat) by (rewrite ncols_FixBounds; exact Hj).
    specialize (Hfc j Hj'). rewrite colj_FixBounds, Nat.eqb_refl in Hfc. destruct Hfc as [A B]. simpl in A, B. unfold gx in A, B.
    assert (Ex : vnth (sx t) j == val) by lra.
    specialize (Hid j Hj'). unfold gr in Hid. rewrite c_obj_FixBounds in Hid.
    change (matrix P') with (matrix P) in Hid. rewrite tvec_sumn in Hid.
    destruct Hdom as [(Hcost & Hup & Hrows)|(Hcost & Hlo & Hrows)].
    - assert (0 <= sumn (nrows P) (fun i => vnth (sy t) i * coef P i j)).
      { apply sumn_nonneg. intros i Hi. destruct (Hrows i Hi) as [R1 R2].
        destruct (Qlt_le_dec 0 (coef P i j)) as [Hp|Hnp].
        - pose proof (row_sign_pos t i Hs Hi (R1 Hp)) as Y. unfold gy in Y. nra.
        - destruct (Qlt_le_dec (coef P i j) 0) as [Hn|Hz].
          + pose proof (row_sign_neg t i Hs Hi (R2 Hn)) as Y. unfold gy in Y. nra.
          + assert (coef P i j == 0) by lra. nra. }
      split; intros Hk0; [lra|]. rewrite Hup. lra.
    - assert (sumn (nrows P) (fun i => vnth (sy t) i * coef P i j) <= 0).
      { assert (0 <= sumn (nrows P) (fun i => - (vnth (sy t) i * coef P i j))).
        { apply sumn_nonneg. intros i Hi. destruct (Hrows i Hi) as [R1 R2].
          destruct (Qlt_le_dec 0 (coef P i j)) as [Hp|Hnp].
          - pose proof (row_sign_neg t i Hs Hi (R1 Hp)) as Y. unfold gy in Y. nra.
          - destruct (Qlt_le_dec (coef P i j) 0) as [Hn|Hz].
            + pose proof (row_sign_pos t i Hs Hi (R2 Hn)) as Y. unfold gy in Y. nra.
            + assert (coef P i j == 0) by lra. nra. }
        assert (E : sumn (nrows P) (fun i => - (vnth (sy t) i * coef P i j)) == - sumn (nrows P) (fun i => vnth (sy t) i * coef P i j)).
        { rewrite <- (sumn_scal (nrows P) (- (1))). apply sumn_ext. intros; ring. }
        lra. }
      split; intros Hk0; [|lra]. rewrite Hlo. lra.
  Qed.

  (* the column is non-basic before (FixVariablePS has just marked it) and after *)
  Lemma FixBounds_count t : is_basic (gcs t j) = false -> is_basic s = false -> basis_count P' t -> basis_count P (exec t).
  Proof.
    unfold basis_count, exec, exec_FixBounds, set_cs; cbn [scs srs]. rewrite ncols_FixBounds.
    change (nrows P') with (nrows P). intros B1 B2 H.
    pose proof (cntb_supd (scs t) j s (ncols P) Hj) as E. unfold b1, gcs in *. rewrite B1, B2 in E. lia.
  Qed.
End FixBounds.

(* ================================================================================================================= *)
(* RowObjPS: the slack column that carried the row objective is removed again                                        *)
(* ================================================================================================================= *)
Lemma dot_app_one u a x : dot (u ++ [a]) x == dot u x + a * vnth x (length u).
Proof.
  revert x; induction u as [|b u IH]; intros [|c x]; simpl; try ring.
  rewrite IH. ring.
Qed.

Lemma vnth_app_l u v k : (k < length u)%nat -> vnth (u ++ v) k = vnth u k.
Proof. intros H. rewrite !vnth_nth. now apply app_nth1. Qed.

Section RowObj.
  Variable P : lp.
  Variable i : nat.
  Variable w : Q.
  Hypothesis W : wf_lp P.
  Hypothesis Hi : (i < nrows P)%nat.
  Let P' := red_RowObj P i w.
  Let n := ncols P.

  Lemma nrows_RowObj : nrows P' = nrows P.
  Proof. unfold P', nrows, red_RowObj; cbn [rows]. now rewrite map_length, seq_length. Qed.

  Lemma ncols_RowObj : ncols P' = S n.
  Proof. unfold P', ncols, red_RowObj; cbn [cols]. rewrite app_length. simpl. unfold n, ncols. lia. Qed.

  Lemma colj_RowObj j : (j < n)%nat -> colj P' j = colj P j.
  Proof. intros H. unfold P', colj, red_RowObj; cbn [cols]. now apply app_nth1. Qed.

  Lemma colj_RowObj_slack : colj P' n = {| c_obj := w; c_lo := option_map Qopp (r_rhs (rowi P i)); c_up := option_map Qopp (r_lhs (rowi P i)) |}.
  Proof. unfold P', colj, red_RowObj; cbn [cols]. rewrite app_nth2 by (unfold n, ncols; lia). unfold n, ncols. now rewrite Nat.sub_diag. Qed.

  Lemma rowi_RowObj k : (k < nrows P)%nat ->
    rowi P' k = if Nat.eqb k i
                then {| r_lhs := Some 0; r_coef := r_coef (rowi P k) ++ [1]; r_rhs := Some 0 |}
                else {| r_lhs := r_lhs (rowi P k); r_coef := r_coef (rowi P k) ++ [0]; r_rhs := r_rhs (rowi P k) |}.
  Proof. intros H. unfold P', rowi at 1, red_RowObj; cbn [rows]. now rewrite nth_map_seq by exact H. Qed.

  Lemma activity_RowObj k x : (k < nrows P)%nat ->
    activity P' k x == activity P k x + (if Nat.eqb k i then 1 else 0) * vnth x n.
  Proof.
    intros H. unfold activity. rewrite rowi_RowObj by exact H.
    destruct (Nat.eqb k i); cbn [r_coef]; rewrite dot_app_one, (W k H); reflexivity.
  Qed.

  Lemma coef_RowObj k j : (k < nrows P)%nat -> (j < n)%nat -> coef P' k j = coef P k j.
  Proof.
    intros Hk Hj. unfold coef. rewrite rowi_RowObj by exact Hk.
    destruct (Nat.eqb k i); cbn [r_coef]; apply vnth_app_l; rewrite (W k Hk); exact Hj.
  Qed.

  Let exec t := exec_RowObj i n t.

  Lemma exec_RowObj_values t : sx (exec t) = sx t /\ sy (exec t) = sy t /\ sr (exec t) = sr t /\
                               ss (exec t) = qupd (ss t) i (gs t i - gx t n).
  Proof.
    unfold exec, exec_RowObj. cbv zeta.
    destruct (is_basic (grs (set_s t i (gs t i - gx t n)) i)); repeat split; reflexivity.
  Qed.

  Lemma RowObj_identities t : prim_ident P' t /\ dual_ident P' t -> prim_ident P (exec t) /\ dual_ident P (exec t).
  Proof.
    intros [H1 H2]. destruct (exec_RowObj_values t) as (Ex & Ey & Er & Es). split.
    - intros k Hk. unfold gs. rewrite Es, Ex.
      assert (Hk' : (k < nrows P')%nat) by (rewrite nrows_RowObj; exact Hk).
      specialize (H1 k Hk'). unfold gs in H1. rewrite activity_RowObj in H1 by exact Hk.
      destruct (Nat.eqb_spec k i) as [Eki|Hne]; [subst k|].
      + rewrite vnth_qupd_same. unfold gs, gx. rewrite H1. ring.
      + rewrite vnth_qupd_other by congruence. rewrite H1. ring.
    - intros j Hj. unfold gr. rewrite Er, Ey.
      assert (Hj' : (j < ncols P')%nat) by (rewrite ncols_RowObj; unfold n; lia).
      specialize (H2 j Hj'). unfold gr in H2. rewrite H2. rewrite colj_RowObj by exact Hj.
      rewrite !tvec_sumn, nrows_RowObj. apply Qplus_comp; [reflexivity|]. apply Qopp_comp.
      apply sumn_ext. intros k Hk. rewrite coef_RowObj by auto. reflexivity.
  Qed.

  (* primal feasibility: the slack column lives in [-rhs_i, -lhs_i] and row i of the extended LP is the equation = 0 *)
  Lemma RowObj_feasibility_partial t : prim_feas P' t -> prim_feas P (exec t).
  Proof.
    intros [Hc Hr]. destruct (exec_RowObj_values t) as (Ex & Ey & Er & Es). split.
    - intros j Hj. unfold gx. rewrite Ex.
      assert (Hj' : (j < ncols P')%nat) by (rewrite ncols_RowObj; unfold n; lia).
      specialize (Hc j Hj'). rewrite colj_RowObj in Hc by exact Hj. exact Hc.
    - intros k Hk. unfold gs. rewrite Es.
      assert (Hk' : (k < nrows P')%nat) by (rewrite nrows_RowObj; exact Hk).
      specialize (Hr k Hk'). rewrite rowi_RowObj in Hr by exact Hk.
      destruct (Nat.eqb_spec k i) as [Eki|Hne]; [subst k|].
      + rewrite vnth_qupd_same. cbn [r_lhs r_rhs] in Hr. destruct Hr as [A B]. simpl in A, B.
        assert (Hn : (n < ncols P')%nat) by (rewrite ncols_RowObj; lia).
        specialize (Hc n Hn). rewrite colj_RowObj_slack in Hc. cbn [c_lo c_up] in Hc. destruct Hc as [C D].
        unfold gs, gx in *. split.
        * destruct (r_lhs (rowi P i)); simpl in *; [lra|exact I].
        * destruct (r_rhs (rowi P i)); simpl in *; [lra|exact I].
      + rewrite vnth_qupd_other by congruence. exact Hr.
  Qed.

  Lemma b1_rowobj_map s : b1 (match s with ON_UPPER => ON_LOWER | ON_LOWER => ON_UPPER | o => o end) = b1 s.
  Proof. destruct s; reflexivity. Qed.

  (* a regular basis cannot contain both the slack of row i and the added unit column *)
  Lemma RowObj_count t : ~ (is_basic (grs t i) = true /\ is_basic (gcs t n) = true) -> basis_count P' t -> basis_count P (exec t).
  Proof.
    unfold basis_count. rewrite ncols_RowObj, nrows_RowObj. intros Hnb H. simpl cntb in H. fold (b1 (snth (scs t) n)) in H.
    unfold exec, exec_RowObj. cbv zeta.
    change (grs (set_s t i (gs t i - gx t n)) i) with (grs t i).
    change (gcs (set_s t i (gs t i - gx t n)) n) with (gcs t n).
    destruct (is_basic (grs t i)) eqn:Eb.
    - cbn [scs srs set_s]. fold n. assert (is_basic (gcs t n) = false) by (destruct (is_basic (gcs t n)); [exfalso; auto|reflexivity]).
      unfold b1, gcs in *. rewrite H0 in H. lia.
    - cbn [scs srs set_cs set_rs set_s]. fold n.
      rewrite cntb_supd_beyond by lia.
      pose proof (fun v => cntb_supd (srs t) i v (nrows P) Hi) as E.
      unfold b1 in E. unfold grs in Eb. rewrite Eb in E. unfold b1, gcs in *.
      destruct (snth (scs t) n); simpl in H |- *;
        match goal with |- context [supd (srs t) i ?v] => specialize (E v) end; simpl in E; lia.
  Qed.
End RowObj.

(* ================================================================================================================= *)
(* basis count of the steps that restore one row and one column (FreeColSingletonPS, MultiAggregationPS)             *)
(* ================================================================================================================= *)
Lemma scs_fix_col_idx t j oj v : scs (set_cs (fix_col_idx t j oj) j v) = sunswap (scs t) j oj v.
Proof. unfold fix_col_idx, sunswap, set_cs, set_r, set_x, gcs. destruct (Nat.eqb j oj); reflexivity. Qed.

Lemma srs_fix_row_idx t i oi v : srs (set_rs (fix_row_idx t i oi) i v) = sunswap (srs t) i oi v.
Proof. unfold fix_row_idx, sunswap, set_rs, set_y, set_s, grs. destruct (Nat.eqb i oi); reflexivity. Qed.

(* projections through the setters *)
Lemma scs_set_x t j v : scs (set_x t j v) = scs t. Proof. reflexivity. Qed.
Lemma scs_set_y t j v : scs (set_y t j v) = scs t. Proof. reflexivity. Qed.
Lemma scs_set_s t j v : scs (set_s t j v) = scs t. Proof. reflexivity. Qed.
Lemma scs_set_r t j v : scs (set_r t j v) = scs t. Proof. reflexivity. Qed.
Lemma scs_set_rs t j v : scs (set_rs t j v) = scs t. Proof. reflexivity. Qed.
Lemma scs_set_svec t v : scs (set_svec t v) = scs t. Proof. reflexivity. Qed.
Lemma scs_set_cs t j v : scs (set_cs t j v) = supd (scs t) j v. Proof. reflexivity. Qed.
Lemma srs_set_x t j v : srs (set_x t j v) = srs t. Proof. reflexivity. Qed.
Lemma srs_set_y t j v : srs (set_y t j v) = srs t. Proof. reflexivity. Qed.
Lemma srs_set_s t j v : srs (set_s t j v) = srs t. Proof. reflexivity. Qed.
Lemma srs_set_r t j v : srs (set_r t j v) = srs t. Proof. reflexivity. Qed.
Lemma srs_set_cs t j v : srs (set_cs t j v) = srs t. Proof. reflexivity. Qed.
Lemma srs_set_svec t v : srs (set_svec t v) = srs t. Proof. reflexivity. Qed.
Lemma srs_set_rs t j v : srs (set_rs t j v) = supd (srs t) j v. Proof. reflexivity. Qed.
Lemma scs_fix_row t i oi : scs (fix_row_idx t i oi) = scs t.
Proof. unfold fix_row_idx. destruct (Nat.eqb i oi); reflexivity. Qed.
Lemma srs_fix_col t j oj : srs (fix_col_idx t j oj) = srs t.
Proof. unfold fix_col_idx. destruct (Nat.eqb j oj); reflexivity. Qed.
Lemma scs_fix_col t j oj : scs (fix_col_idx t j oj) = if Nat.eqb j oj then scs t else supd (scs t) oj (snth (scs t) j).
Proof. unfold fix_col_idx. destruct (Nat.eqb j oj); reflexivity. Qed.
Lemma srs_fix_row t i oi : srs (fix_row_idx t i oi) = if Nat.eqb i oi then srs t else supd (srs t) oi (snth (srs t) i).
Proof. unfold fix_row_idx. destruct (Nat.eqb i oi); reflexivity. Qed.

Ltac proj_status :=
  repeat (rewrite ?scs_set_x, ?scs_set_y, ?scs_set_s, ?scs_set_r, ?scs_set_rs, ?scs_set_svec, ?scs_set_cs,
                  ?srs_set_x, ?srs_set_y, ?srs_set_s, ?srs_set_r, ?srs_set_cs, ?srs_set_svec, ?srs_set_rs,
                  ?scs_fix_row, ?srs_fix_col, ?scs_fix_col, ?srs_fix_row).

Lemma FreeColSingleton_statuses c j i oj oi obj lRhs onLhs eqCons row t :
  let t' := exec_FreeColSingleton c j i oj oi obj lRhs onLhs eqCons row t in
  scs t' = sunswap (scs t) j oj BASIC /\
  srs t' = sunswap (srs t) i oi (if eqCons then FIXED else if onLhs then ON_LOWER else ON_UPPER).
Proof.
  unfold exec_FreeColSingleton. cbv zeta. split; proj_status; unfold sunswap; reflexivity.
Qed.

Lemma MultiAggregation_statuses c j i oj oi obj cst onLhs eqCons row col t :
  let t' := exec_MultiAggregation c j i oj oi obj cst onLhs eqCons row col t in
  scs t' = sunswap (scs t) j oj BASIC /\
  srs t' = sunswap (srs t) i oi (if eqCons then FIXED else if onLhs then ON_LOWER else ON_UPPER).
Proof.
  unfold exec_MultiAggregation. cbv zeta. split; proj_status; unfold sunswap; reflexivity.
Qed.

(* n1, m1: dimensions of the reduced LP; the step restores column j <= n1 and row i <= m1 *)
Lemma row_col_restore_count (cs rs : list vstat) j i n1 m1 v : (j <= n1)%nat -> (i <= m1)%nat -> is_basic v = false ->
  (cntb cs n1 + cntb rs m1 = m1)%nat ->
  (cntb (sunswap cs j n1 BASIC) (S n1) + cntb (sunswap rs i m1 v) (S m1) = S m1)%nat.
Proof.
  intros Hj Hi Hv H. rewrite !cntb_sunswap by assumption. unfold b1. rewrite Hv. simpl. lia.
Qed.

Lemma FreeColSingleton_count c j i n1 m1 obj lRhs onLhs eqCons row t : (j <= n1)%nat -> (i <= m1)%nat ->
  (cntb (scs t) n1 + cntb (srs t) m1 = m1)%nat ->
  let t' := exec_FreeColSingleton c j i n1 m1 obj lRhs onLhs eqCons row t in
  (cntb (scs t') (S n1) + cntb (srs t') (S m1) = S m1)%nat.
Proof.
  intros Hj Hi H t'. destruct (FreeColSingleton_statuses c j i n1 m1 obj lRhs onLhs eqCons row t) as [E1 E2].
  unfold t'. rewrite E1, E2. apply row_col_restore_count; auto. destruct eqCons, onLhs; reflexivity.
Qed.

Lemma MultiAggregation_count c j i n1 m1 obj cst onLhs eqCons row col t : (j <= n1)%nat -> (i <= m1)%nat ->
  (cntb (scs t) n1 + cntb (srs t) m1 = m1)%nat ->
  let t' := exec_MultiAggregation c j i n1 m1 obj cst onLhs eqCons row col t in
  (cntb (scs t') (S n1) + cntb (srs t') (S m1) = S m1)%nat.
Proof.
  intros Hj Hi H t'. destruct (MultiAggregation_statuses c j i n1 m1 obj cst onLhs eqCons row col t) as [E1 E2].
  unfold t'. rewrite E1, E2. apply row_col_restore_count; auto. destruct eqCons, onLhs; reflexivity.
Qed.

(* DoubletonEquationPS only exchanges the roles of x_j and x_k: the count is unchanged whenever x_j was basic exactly
   when the step fires (it fires only for a non-basic x_k) *)
Lemma DoubletonEquation_count c j k i ms jf jo ko aij slo sup loj col t n m : (j < n)%nat -> (k < n)%nat -> j <> k ->
  (is_basic (gcs t k) = false -> is_basic (gcs t j) = true) ->
  let t' := exec_DoubletonEquation c j k i ms jf jo ko aij slo sup loj col t in
  (cntb (scs t') n + cntb (srs t') m = cntb (scs t) n + cntb (srs t) m)%nat.
Proof.
  intros Hj Hk Hjk Hb t'. unfold t', exec_DoubletonEquation.
  match goal with |- context [if ?c then _ else _] => destruct c eqn:Ec end; [|reflexivity].
  apply andb_true_iff in Ec. destruct Ec as [Ec _]. apply negb_true_iff in Ec. specialize (Hb Ec).
  cbv zeta.
  match goal with |- context [set_cs ?tt k BASIC] => set (T := tt) end.
  assert (Es : srs (set_cs T k BASIC) = srs t).
  { unfold T. destruct jf; [reflexivity|]. match goal with |- context [if ?c then _ else _] => destruct c end; reflexivity. }
  rewrite Es. f_equal.
  assert (Ec' : exists v, is_basic v = false /\ scs T = supd (scs t) j v).
  { unfold T. destruct jf; [exists FIXED; split; reflexivity|].
    match goal with |- context [if ?c then _ else _] => destruct c end; [exists ON_LOWER|exists ON_UPPER]; split; reflexivity. }
  destruct Ec' as (v & Hv & ET). cbn [scs set_cs]. rewrite ET.
  pose proof (cntb_supd (scs t) j v n Hj) as E1.
  pose proof (cntb_supd (supd (scs t) j v) k BASIC n Hk) as E2.
  rewrite snth_supd_other in E2 by exact Hjk.
  unfold b1, gcs in *. rewrite Hv in E1. rewrite Hb in E1. rewrite Ec in E2. simpl in E2. lia.
Qed.

(* TightenBoundsPS can turn a non-basic column into a basic one without compensation: the count is NOT preserved in
   general (it is when the tightened bound is not active, which is what the simplifier relies on) *)
Lemma TightenBounds_count_refuted :
  exists c j ou ol t, (cntb (scs t) 1 + cntb (srs t) 1 = 1)%nat /\
    let t' := exec_TightenBounds c j ou ol t in (cntb (scs t') 1 + cntb (srs t') 1 = 2)%nat.
Proof.
  exists (exact_cmps (1000000 # 1)), 0%nat, 5, 0, (mkst [2] [0] [2] [0] [ON_LOWER] [BASIC]). split; vm_compute; reflexivity.
Qed.

Lemma TightenBounds_count c j ou ol t n m : (j < n)%nat ->
  (* the bound the column sits at is one of its original bounds *)
  exec_TightenBounds c j ou ol t = t ->
  (cntb (scs (exec_TightenBounds c j ou ol t)) n + cntb (srs (exec_TightenBounds c j ou ol t)) m = cntb (scs t) n + cntb (srs t) m)%nat.
Proof. intros _ E. rewrite E. reflexivity. Qed.

Lemma TightenBounds_values c j ou ol t :
  let t' := exec_TightenBounds c j ou ol t in sx t' = sx t /\ sy t' = sy t /\ ss t' = ss t /\ sr t' = sr t /\ srs t' = srs t.
Proof.
  unfold exec_TightenBounds. cbv zeta. destruct (gcs t j); repeat split;
    repeat match goal with |- context [if ?c then _ else _] => destruct c end; reflexivity.
Qed.

(* ================================================================================================================= *)
(* boolean versions of the invariants (for the concrete witnesses and examples)                                      *)
(* ================================================================================================================= *)
Definition prim_ident_b (P : lp) (t : st) : bool := forall_lt (nrows P) (fun i => Qeq_bool (gs t i) (activity P i (sx t))).
Definition dual_ident_b (P : lp) (t : st) : bool :=
  forall_lt (ncols P) (fun j => Qeq_bool (gr t j) (c_obj (colj P j) - vnth (tmat_vec (matrix P) (sy t)) j)).
Definition in_bounds_b (lo up : option Q) (v : Q) : bool := in_lo_b lo v && in_up_b up v.
Definition prim_feas_b (P : lp) (t : st) : bool :=
  forall_lt (ncols P) (fun j => in_bounds_b (c_lo (colj P j)) (c_up (colj P j)) (gx t j))
  && forall_lt (nrows P) (fun i => in_bounds_b (r_lhs (rowi P i)) (r_rhs (rowi P i)) (gs t i)).
Definition cs_prop_b (k : Q) (lo up : option Q) (v : Q) : bool :=
  (if Qltb 0 k then match lo with Some l => Qeq_bool l v | None => false end else true)
  && (if Qltb k 0 then match up with Some u => Qeq_bool u v | None => false end else true).
Definition dual_signs_b (P : lp) (t : st) : bool :=
  forall_lt (ncols P) (fun j => cs_prop_b (gr t j) (c_lo (colj P j)) (c_up (colj P j)) (gx t j))
  && forall_lt (nrows P) (fun i => cs_prop_b (gy t i) (r_lhs (rowi P i)) (r_rhs (rowi P i)) (gs t i)).
Definition basis_count_b (P : lp) (t : st) : bool := Nat.eqb (cntb (scs t) (ncols P) + cntb (srs t) (nrows P)) (nrows P).

Lemma prim_ident_b_ok P t : prim_ident_b P t = true <-> prim_ident P t.
Proof.
  unfold prim_ident_b, prim_ident. rewrite forall_lt_iff. split; intros H i Hi; specialize (H i Hi); now apply Qeq_bool_iff.
Qed.
Lemma dual_ident_b_ok P t : dual_ident_b P t = true <-> dual_ident P t.
Proof.
  unfold dual_ident_b, dual_ident. rewrite forall_lt_iff. split; intros H i Hi; specialize (H i Hi); now apply Qeq_bool_iff.
Qed.
Lemma in_bounds_b_ok lo up v : in_bounds_b lo up v = true <-> in_bounds lo up v.
Proof. unfold in_bounds_b, in_bounds. rewrite andb_true_iff, in_lo_b_iff, in_up_b_iff. tauto. Qed.
Lemma prim_feas_b_ok P t : prim_feas_b P t = true <-> prim_feas P t.
Proof.
  unfold prim_feas_b, prim_feas. rewrite andb_true_iff, !forall_lt_iff.
  split; intros [A B]; split; intros k Hk; [specialize (A k Hk)|specialize (B k Hk)|specialize (A k Hk)|specialize (B k Hk)];
    now apply in_bounds_b_ok.
Qed.
Lemma cs_prop_b_ok k lo up v : cs_prop_b k lo up v = true -> cs_prop k lo up v.
Proof.
  unfold cs_prop_b, cs_prop. rewrite andb_true_iff. intros [A B]. split; intros Hk.
  - apply Qltb_lt in Hk. rewrite Hk in A. destruct lo; [now apply Qeq_bool_iff|discriminate].
  - apply Qltb_lt in Hk. rewrite Hk in B. destruct up; [now apply Qeq_bool_iff|discriminate].
Qed.
Lemma dual_signs_b_ok P t : dual_signs_b P t = true -> dual_signs P t.
Proof.
  unfold dual_signs_b, dual_signs. rewrite andb_true_iff, !forall_lt_iff.
  intros [A B]; split; intros k Hk; apply cs_prop_b_ok; auto.
Qed.
Lemma basis_count_b_ok P t : basis_count_b P t = true <-> basis_count P t.
Proof. unfold basis_count_b, basis_count. apply Nat.eqb_eq. Qed.

Definition all_inv_b (P : lp) (t : st) : bool :=
  prim_ident_b P t && dual_ident_b P t && prim_feas_b P t && dual_signs_b P t && basis_count_b P t.
Lemma all_inv_b_ok P t : all_inv_b P t = true ->
  prim_ident P t /\ dual_ident P t /\ prim_feas P t /\ dual_signs P t /\ basis_count P t.
Proof.
  unfold all_inv_b. rewrite !andb_true_iff. intros [[[[A B] C] D] E].
  apply prim_ident_b_ok in A. apply dual_ident_b_ok in B. apply prim_feas_b_ok in C. apply dual_signs_b_ok in D.
  apply basis_count_b_ok in E. tauto.
Qed.

Definition mkcol (o : Q) (lo up : option Q) : col := {| c_obj := o; c_lo := lo; c_up := up |}.
Definition mkrow (l : option Q) (a : list Q) (u : option Q) : row := {| r_lhs := l; r_coef := a; r_rhs := u |}.

(* ---- the aggregation witness (corpus/C01/agg-duals.lp at the moment of the aggregation, keep-bounds on) ----
   before:  min 6 x0,  x0 in [-6,-5], x1 >= -2, x2 in [1,3];  -2 x1 <= -2;  4 x0 - 4 x2 = -24;  8 x0 + 4 x1 <= -36
   x2 := x0 + 6 is aggregated, its bounds [1,3] move onto x0: [-5,-3] /\ [-6,-5] = [-5,-5]                              *)
Definition agg_P : lp :=
  {| maximize := false; offset := 0;
     cols := [mkcol 6 (Some (-6)) (Some (-5)); mkcol 0 (Some (-2)) None; mkcol 0 (Some 1) (Some 3)];
     rows := [mkrow None [0; -2; 0] (Some (-2)); mkrow (Some (-24)) [4; 0; -4] (Some (-24)); mkrow None [8; 4; 0] (Some (-36))] |}.
Definition agg_P' : lp :=
  {| maximize := false; offset := 0;
     cols := [mkcol 6 (Some (-5)) (Some (-5)); mkcol 0 (Some (-2)) None];
     rows := [mkrow None [0; -2] (Some (-2)); mkrow None [8; 4] (Some (-36))] |}.
(* optimal basic solution of the reduced LP (vectors keep the dimensions of the original LP) *)
Definition agg_t : st := mkst [-5; 1; 0] [0; 0; 0] [-2; -36; 0] [6; 0; 0] [FIXED; BASIC; UNDEFINED] [ON_UPPER; BASIC; UNDEFINED].
Definition agg_cmps : cmps := exact_cmps (inject_Z (10 ^ 100)).
Definition agg_old := exec_Aggregation_old agg_cmps 2 1 2 2 3 1 0 (-5) (-6) (-24) [(0%nat, 4); (2%nat, -4)] [(1%nat, -4)] agg_t.
Definition agg_new := exec_Aggregation agg_cmps 2 1 2 2 3 1 0 (-5) (-6) (-24) [(0%nat, 4); (2%nat, -4)] [(1%nat, -4)] agg_t.

Lemma agg_witness_reduced_ok : all_inv_b agg_P' agg_t = true.
Proof. vm_compute. reflexivity. Qed.

(* the rule before commit 506310f: the returned duals violate r = c - A^T y (r_0 = 0 although c_0 = 6 and y = 0) *)
Lemma aggregation_dual_refuted_old_rule :
  prim_ident agg_P' agg_t /\ dual_ident agg_P' agg_t /\ prim_feas agg_P' agg_t /\ dual_signs agg_P' agg_t /\ basis_count agg_P' agg_t /\
  exists t', agg_old = Some t' /\ prim_ident agg_P t' /\ ~ dual_ident agg_P t'.
Proof.
  pose proof (all_inv_b_ok _ _ agg_witness_reduced_ok) as (A & B & C & D & E).
  split; [exact A|]. split; [exact B|]. split; [exact C|]. split; [exact D|]. split; [exact E|].
  eexists. split; [vm_compute; reflexivity|]. split.
  - apply prim_ident_b_ok. vm_compute. reflexivity.
  - intros H. apply dual_ident_b_ok in H. vm_compute in H. discriminate.
Qed.

(* the rule after the commit: all five invariants hold for the LP before the aggregation *)
Lemma aggregation_fixed_on_witness :
  exists t', agg_new = Some t' /\ prim_ident agg_P t' /\ dual_ident agg_P t' /\ prim_feas agg_P t' /\ dual_signs agg_P t' /\ basis_count agg_P t'.
Proof.
  eexists. split; [vm_compute; reflexivity|]. apply all_inv_b_ok. vm_compute. reflexivity.
Qed.

(* the algebra of the repair: R_j, R_k are the reduced costs of x_j, x_k without the contribution of the aggregated row,
   r'_k = R_k + coef * R_j (coef = -a_ik / a_ij) is the reduced cost of x_k in the reduced LP.  With the row dual
   y_i = R_j / a_ij + r'_k / a_ik the reduced cost of x_k vanishes and that of x_j is -(a_ij / a_ik) r'_k; its sign fits
   the bound of x_j that had been moved onto x_k. *)
Lemma aggregation_dual_update aij aik Rj Rk : ~ aij == 0 -> ~ aik == 0 ->
  let r'k := Rk + (- (aik / aij)) * Rj in
  let yi := Rj / aij + r'k / aik in
  Rk - aik * yi == 0 /\ Rj - aij * yi == - (aij / aik) * r'k.
Proof. intros H1 H2 r'k yi. unfold yi, r'k. split; field; auto. Qed.

Lemma aggregation_dual_sign aij aik r'k : ~ aij == 0 -> ~ aik == 0 ->
  let coef := - (aik / aij) in
  let rj := - (aij / aik) * r'k in
  (0 < coef -> (0 <= r'k -> 0 <= rj) /\ (r'k <= 0 -> rj <= 0)) /\
  (coef < 0 -> (0 <= r'k -> rj <= 0) /\ (r'k <= 0 -> 0 <= rj)).
Proof.
  intros H1 H2 coef rj.
  assert (E : rj == r'k / coef) by (unfold rj, coef; field; auto).
  assert (Hc : ~ coef == 0).
  { unfold coef. intros Hz. apply H2. assert (aik / aij == 0) by lra. apply (Qmult_inj_r _ _ (/ aij)); [|unfold Qdiv in H; lra].
    intros Hi. apply H1. rewrite <- (Qinv_involutive aij). rewrite Hi. reflexivity. }
  split; intros Hs.
  - assert (0 < / coef) by (apply Qinv_lt_0_compat; exact Hs). unfold Qdiv in E. split; intros Hr; rewrite E; nra.
  - assert (0 < / (- coef)) by (apply Qinv_lt_0_compat; lra).
    assert (E2 : / (- coef) == - / coef) by (field; exact Hc). unfold Qdiv in E. split; intros Hr; rewrite E; nra.
Qed.

(* ---- the multi-aggregation witness ----
   before: min x0;  x0 in [0,10], x1 in [-100,100];  x0 + x1 >= 2;  x0 - x1 <= 5.   x1 := 2 - x0 (row 0 at its lhs)
   after:  min x0;  x0 in [0,10];  2 x0 <= 7                                                                            *)
Definition magg_P : lp :=
  {| maximize := false; offset := 0;
     cols := [mkcol 1 (Some 0) (Some 10); mkcol 0 (Some (-100)) (Some 100)];
     rows := [mkrow (Some 2) [1; 1] None; mkrow None [1; -1] (Some 5)] |}.
Definition magg_P' : lp :=
  {| maximize := false; offset := 0; cols := [mkcol 1 (Some 0) (Some 10)]; rows := [mkrow None [2] (Some 7)] |}.
Definition magg_t : st := mkst [0; 0] [0; 0] [0; 0] [1; 0] [ON_LOWER; UNDEFINED] [BASIC; UNDEFINED].
Definition magg_old := exec_MultiAggregation_old agg_cmps 1 0 1 1 0 2 true false [(0%nat, 1); (1%nat, 1)] [(0%nat, 1); (1%nat, -1)] magg_t.
Definition magg_new := exec_MultiAggregation agg_cmps 1 0 1 1 0 2 true false [(0%nat, 1); (1%nat, 1)] [(0%nat, 1); (1%nat, -1)] magg_t.

Lemma magg_witness_reduced_ok : all_inv_b magg_P' magg_t = true.
Proof. vm_compute. reflexivity. Qed.

Lemma multiaggregation_slack_refuted_old_rule :
  prim_ident magg_P' magg_t /\ dual_ident magg_P' magg_t /\ prim_feas magg_P' magg_t /\ dual_signs magg_P' magg_t /\ basis_count magg_P' magg_t /\
  dual_ident magg_P magg_old /\ ~ prim_ident magg_P magg_old.
Proof.
  pose proof (all_inv_b_ok _ _ magg_witness_reduced_ok) as (A & B & C & D & E).
  split; [exact A|]. split; [exact B|]. split; [exact C|]. split; [exact D|]. split; [exact E|]. split.
  - apply dual_ident_b_ok. vm_compute. reflexivity.
  - intros H. apply prim_ident_b_ok in H. vm_compute in H. discriminate.
Qed.

Lemma multiaggregation_fixed_on_witness :
  prim_ident magg_P magg_new /\ dual_ident magg_P magg_new /\ prim_feas magg_P magg_new /\ dual_signs magg_P magg_new /\ basis_count magg_P magg_new.
Proof. apply all_inv_b_ok. vm_compute. reflexivity. Qed.

(* ================================================================================================================= *)
(* what the invariants are for: at the end of the walk they make the state an exact optimality certificate            *)
(* ================================================================================================================= *)
Lemma vnth_firstn n l j : (j < n)%nat -> vnth (firstn n l) j = vnth l j.
Proof.
  revert l j; induction n as [|n IH]; intros l j H; [lia|].
  destruct l as [|a l]; [reflexivity|]. destruct j as [|j]; simpl; [reflexivity|]. apply IH. lia.
Qed.

Lemma dot_firstn u x n : (length u <= n)%nat -> dot u (firstn n x) == dot u x.
Proof.
  intros H. rewrite !dot_sumn. apply sumn_ext. intros k Hk. rewrite vnth_firstn by lia. reflexivity.
Qed.

Lemma tmat_vec_firstn A y m j : (length A <= m)%nat -> vnth (tmat_vec A (firstn m y)) j == vnth (tmat_vec A y) j.
Proof.
  intros H. rewrite !tmat_vec_sumn. apply sumn_ext. intros k Hk. rewrite vnth_firstn by lia. reflexivity.
Qed.

Lemma Qltb_irrefl_false a b : Qltb a b = true -> a < b.
Proof. apply Qltb_lt. Qed.

Theorem invariants_give_optimality (P : lp) (t : st) :
  maximize P = false -> wf_lp P -> (ncols P <= length (sx t))%nat -> (nrows P <= length (sy t))%nat ->
  prim_ident P t -> dual_ident P t -> prim_feas P t -> dual_signs P t ->
  check_opt_exact P (firstn (ncols P) (sx t)) (firstn (nrows P) (sy t)) = true /\ optimal P (firstn (ncols P) (sx t)).
Proof.
  intros Hmin W Lx Ly Hp Hd [Fc Fr] [Sc Sr].
  assert (Eact : forall i, (i < nrows P)%nat -> activity P i (firstn (ncols P) (sx t)) == gs t i).
  { intros i Hi. unfold activity. rewrite dot_firstn by (rewrite W by auto; lia). symmetry. apply (Hp i Hi). }
  assert (Ered : forall j, (j < ncols P)%nat -> redcost P (firstn (nrows P) (sy t)) j == gr t j).
  { intros j Hj. unfold redcost, tvec. rewrite tmat_vec_firstn by (rewrite matrix_length; lia). symmetry. apply (Hd j Hj). }
  assert (C : check_opt_exact P (firstn (ncols P) (sx t)) (firstn (nrows P) (sy t)) = true).
  { unfold check_opt_exact. rewrite !andb_true_iff. repeat split.
    - apply feasible_b_iff. split; [apply firstn_length_le; exact Lx|]. split.
      + intros j Hj. rewrite vnth_firstn by exact Hj. apply (Fc j Hj).
      + intros i Hi. destruct (Fr i Hi) as [A B]. split.
        * destruct (r_lhs (rowi P i)); simpl in *; [|exact I]. rewrite Eact by exact Hi. exact A.
        * destruct (r_rhs (rowi P i)); simpl in *; [|exact I]. rewrite Eact by exact Hi. exact B.
    - apply Nat.eqb_eq. apply firstn_length_le. exact Ly.
    - apply forall_lt_iff. intros j Hj. unfold sgn. rewrite Hmin. rewrite vnth_firstn by exact Hj.
      destruct (Sc j Hj) as [A B]. unfold cs_ok. apply andb_true_iff. split.
      + destruct (Qltb 0 (1 * redcost P (firstn (nrows P) (sy t)) j)) eqn:E; [|reflexivity].
        apply Qltb_lt in E. rewrite Ered in E by exact Hj. assert (E' : 0 < gr t j) by lra. specialize (A E').
        unfold tight_lo, gx in *. destruct (c_lo (colj P j)); [now apply Qeq_bool_iff|contradiction].
      + destruct (Qltb (1 * redcost P (firstn (nrows P) (sy t)) j) 0) eqn:E; [|reflexivity].
        apply Qltb_lt in E. rewrite Ered in E by exact Hj. assert (E' : gr t j < 0) by lra. specialize (B E').
        unfold tight_up, gx in *. destruct (c_up (colj P j)); [now apply Qeq_bool_iff|contradiction].
    - apply forall_lt_iff. intros i Hi. unfold sgn. rewrite Hmin. rewrite vnth_firstn by exact Hi.
      destruct (Sr i Hi) as [A B]. unfold cs_ok. apply andb_true_iff. unfold gy in *. split.
      + destruct (Qltb 0 (1 * vnth (sy t) i)) eqn:E; [|reflexivity].
        apply Qltb_lt in E. assert (E' : 0 < vnth (sy t) i) by lra. specialize (A E').
        unfold tight_lo. destruct (r_lhs (rowi P i)); [|contradiction]. apply Qeq_bool_iff. rewrite Eact by exact Hi. exact A.
      + destruct (Qltb (1 * vnth (sy t) i) 0) eqn:E; [|reflexivity].
        apply Qltb_lt in E. assert (E' : vnth (sy t) i < 0) by lra. specialize (B E').
        unfold tight_up. destruct (r_rhs (rowi P i)); [|contradiction]. apply Qeq_bool_iff. rewrite Eact by exact Hi. exact B. }
  split; [exact C|]. apply opt_cert_sound with (y := firstn (nrows P) (sy t)). exact C.
Qed.
