(* Lemmas about the settings-line tokeniser: a line assigns something only if it contains '=' (and ':'). *)
From Coq Require Import ZArith Bool List Lia.
Import ListNotations.
From SV Require Import SettingsLexer.
Local Open Scope Z_scope.

(* [suffix r l]: r is a tail of l *)
Inductive suffix {A} : list A -> list A -> Prop :=
| suffix_refl l : suffix l l
| suffix_cons a r l : suffix r l -> suffix r (a :: l).

Lemma suffix_in {A} (x : A) r l : suffix r l -> In x r -> In x l.
Proof. induction 1 as [|a r l H IH]; intros Hin; [exact Hin | right; apply IH; exact Hin]. Qed.

Lemma suffix_trans {A} (a b c : list A) : suffix a b -> suffix b c -> suffix a c.
Proof. intros Hab Hbc; induction Hbc as [|x b c H IH]; [exact Hab | apply suffix_cons; apply IH; exact Hab]. Qed.

Lemma skipws_suffix l : suffix (skipws l) l.
Proof.
  induction l as [|c r IH]; cbn [skipws]; [apply suffix_refl|].
  destruct (is_blank c); [apply suffix_cons; exact IH | apply suffix_refl].
Qed.

Lemma span_tok_suffix sep l : suffix (snd (span_tok sep l)) l.
Proof.
  induction l as [|c r IH]; cbn [span_tok]; [apply suffix_refl|].
  destruct (is_blank c || is_eol c || (c =? sep)); [apply suffix_refl|].
  destruct (span_tok sep r) as [t rest]; cbn [snd] in *; apply suffix_cons; exact IH.
Qed.

Lemma expect_sep_in sep rest r : expect_sep sep rest = Some r -> In sep rest /\ suffix r rest.
Proof.
  unfold expect_sep; destruct rest as [|c r0]; [discriminate|].
  destruct (c =? sep) eqn:E.
  - intros H; injection H as <-; apply Z.eqb_eq in E; subst c; split; [left; reflexivity | apply suffix_cons, suffix_refl].
  - pose proof (skipws_suffix r0) as Hs; destruct (skipws r0) as [|c' r'] eqn:E2; [discriminate|].
    destruct (c' =? sep) eqn:E3; [|discriminate].
    intros H; injection H as <-; apply Z.eqb_eq in E3; subst c'; split.
    + right; apply (suffix_in _ _ _ Hs); left; reflexivity.
    + apply suffix_cons; apply (suffix_trans _ (sep :: r')); [apply suffix_cons, suffix_refl | exact Hs].
Qed.

(* a line that is split into three tokens contains ':' and, behind it, '=' *)
Lemma tokenise_ok_has_separators line ty name val :
  tokenise line = TOk ty name val -> In 58 (cstr line) /\ In 61 (cstr line).
Proof.
  unfold tokenise.
  pose proof (skipws_suffix (cstr line)) as H0; set (l0 := skipws (cstr line)) in *.
  destruct (at_end l0); [discriminate|].
  pose proof (span_tok_suffix 58 l0) as H1; destruct (span_tok 58 l0) as [ty' r1]; cbn [snd] in H1.
  destruct (expect_sep 58 r1) as [r2|] eqn:E1; [|discriminate].
  apply expect_sep_in in E1 as [Hc H2].
  pose proof (skipws_suffix r2) as H3; set (l1 := skipws r2) in *.
  destruct (at_end l1); [discriminate|].
  pose proof (span_tok_suffix 61 l1) as H4; destruct (span_tok 61 l1) as [name' r3]; cbn [snd] in H4.
  destruct (expect_sep 61 r3) as [r4|] eqn:E2; [|discriminate].
  apply expect_sep_in in E2 as [He _].
  intros _; split.
  - apply (suffix_in _ _ _ H0), (suffix_in _ _ _ H1); exact Hc.
  - apply (suffix_in _ _ _ H0), (suffix_in _ _ _ H1), (suffix_in _ _ _ H2), (suffix_in _ _ _ H3), (suffix_in _ _ _ H4); exact He.
Qed.

Lemma tokenise_without_eq line : ~ In 61 (cstr line) -> tokenise line = TBlank \/ tokenise line = TError.
Proof.
  intros Hn; destruct (tokenise line) as [| |ty name val] eqn:E; [left; reflexivity | right; reflexivity|].
  exfalso; apply Hn; exact (proj2 (tokenise_ok_has_separators _ _ _ _ E)).
Qed.

(* the C string ends at the first NUL: what follows it in the buffer is not part of the line *)
Lemma cstr_app_nul a b : ~ In 0 a -> cstr (a ++ 0 :: b) = a.
Proof.
  induction a as [|c r IH]; cbn [cstr app]; intros Hn; [reflexivity|].
  destruct (c =? 0) eqn:E; [apply Z.eqb_eq in E; subst c; exfalso; apply Hn; left; reflexivity|].
  f_equal; apply IH; intros Hin; apply Hn; right; exact Hin.
Qed.

Lemma cstr_idem_nonul a : ~ In 0 a -> cstr a = a.
Proof.
  induction a as [|c r IH]; cbn [cstr]; intros Hn; [reflexivity|].
  destruct (c =? 0) eqn:E; [apply Z.eqb_eq in E; subst c; exfalso; apply Hn; left; reflexivity|].
  f_equal; apply IH; intros Hin; apply Hn; right; exact Hin.
Qed.

Lemma tokenise_cstr line : tokenise line = tokenise (cstr line).
Proof.
  unfold tokenise.
  assert (H : cstr (cstr line) = cstr line).
  { induction line as [|c r IH]; cbn [cstr]; [reflexivity|]. destruct (c =? 0) eqn:E; cbn [cstr]; [reflexivity|]. rewrite E, IH; reflexivity. }
  rewrite H; reflexivity.
Qed.

(* what the line buffer holds behind the terminator (left-overs of earlier lines) is invisible *)
Lemma tokenise_ignores_buffer_tail a b : ~ In 0 a -> tokenise (a ++ 0 :: b) = tokenise a.
Proof.
  intros Hn; rewrite (tokenise_cstr (a ++ 0 :: b)), (tokenise_cstr a), cstr_app_nul, cstr_idem_nonul by exact Hn; reflexivity.
Qed.
