(* C12 - soundness of the executable rounding check [nearest_doubleb] of LiteralModel.v:
   what it accepts is a closest finite binary64 number. *)
From Coq Require Import ZArith QArith Qabs Qpower Bool List Lia Lqa Setoid.
From SV Require Import Dbl LiteralModel.
Local Open Scope Z_scope.

(* ---------------------------------------------------------------- integer facts about the binary64 grid *)

(* no multiple of 2^k' (k' >= k) lies strictly between two consecutive multiples of 2^k *)
Lemma no_multiple_between a m' k k' :
  0 <= k <= k' -> a * 2 ^ k < m' * 2 ^ k' -> m' * 2 ^ k' < (a + 1) * 2 ^ k -> False.
Proof.
  intros Hk H1 H2. replace k' with ((k' - k) + k) in * by lia.
  rewrite Z.pow_add_r in * by lia.
  assert (0 < 2 ^ k) as P by (apply Z.pow_pos_nonneg; lia).
  set (M := m' * 2 ^ (k' - k)) in *. rewrite Z.mul_assoc in H1, H2. fold M in H1, H2.
  assert (a < M) by nia. assert (M < a + 1) by nia. lia.
Qed.

(* a 53-bit mantissa at a smaller exponent stays below a normalised mantissa *)
Lemma small_exponent_below a m' k k' :
  0 <= k' < k -> Z.abs m' < 2 ^ 53 -> 2 ^ 52 <= a -> m' * 2 ^ k' < a * 2 ^ k.
Proof.
  intros Hk Hm Ha.
  assert (0 < 2 ^ k') as P' by (apply Z.pow_pos_nonneg; lia).
  assert (2 ^ k = 2 ^ (k - k' - 1) * 2 * 2 ^ k') as E.
  { replace k with ((k - k' - 1) + 1 + k') at 1 by lia. rewrite !Z.pow_add_r by lia. reflexivity. }
  assert (1 <= 2 ^ (k - k' - 1)) as Q1.
  { assert (0 < 2 ^ (k - k' - 1)) by (apply Z.pow_pos_nonneg; lia). lia. }
  rewrite E. assert (m' < 2 ^ 53) by lia.
  assert (m' * 2 ^ k' < 2 ^ 53 * 2 ^ k') by nia.
  assert (2 ^ 53 * 2 ^ k' <= a * (2 ^ (k - k' - 1) * 2 * 2 ^ k')); [|lia].
  change (2 ^ 53) with (2 ^ 52 * 2). nia.
Qed.

Definition units (m e : Z) : Z := m * 2 ^ (e + 1074).

Definition pred_units (am e : Z) : Z :=
  if am =? 0 then -1 else let (lm, le) := pred_mag am e in units lm le.

(* the grid gap: every double is at or below the lower neighbour, equal, or at or above the upper neighbour *)
Lemma grid_gap am e m' e' :
  0 <= am -> -1074 <= e -> (e = -1074 \/ 2 ^ 52 <= am) ->
  Z.abs m' < 2 ^ 53 -> -1074 <= e' ->
  units m' e' <= pred_units am e \/ units m' e' = units am e \/ units (am + 1) e <= units m' e'.
Proof.
  intros Ham He Hc Hm' He'. unfold pred_units, units.
  set (k := e + 1074). set (k' := e' + 1074). assert (0 <= k) by lia. assert (0 <= k') by lia.
  set (u' := m' * 2 ^ k').
  destruct (Z_lt_le_dec (am * 2 ^ k) u') as [Hup|Hup].
  - (* above *)
    right. right. destruct (Z_lt_le_dec u' ((am + 1) * 2 ^ k)) as [H2|H2]; [|exact H2]. exfalso.
    destruct (Z_lt_le_dec k' k) as [Hk|Hk].
    + assert (2 ^ 52 <= am) as Hn by (destruct Hc; [lia|assumption]).
      pose proof (small_exponent_below am m' k k' ltac:(lia) Hm' Hn). unfold u' in Hup. lia.
    + apply (no_multiple_between am m' k k'); auto; lia.
  - destruct (Z.eq_dec u' (am * 2 ^ k)) as [Heq|Hne]; [right; left; exact Heq|].
    left. assert (u' < am * 2 ^ k) as Hlt by lia.
    destruct (am =? 0) eqn:Z0.
    + apply Z.eqb_eq in Z0. subst am. lia.
    + apply Z.eqb_neq in Z0. unfold pred_mag.
      destruct ((am =? 2 ^ 52) && (-1074 <? e)) eqn:B.
      * apply andb_true_iff in B as [B1 B2]. apply Z.eqb_eq in B1. apply Z.ltb_lt in B2.
        replace (e - 1 + 1074) with (k - 1) by lia.
        destruct (Z_le_gt_dec u' ((2 ^ 53 - 1) * 2 ^ (k - 1))) as [H3|H3]; [exact H3|]. exfalso.
        assert (am * 2 ^ k = (2 ^ 53 - 1 + 1) * 2 ^ (k - 1)) as E.
        { rewrite B1. replace k with ((k - 1) + 1) at 1 by lia. rewrite Z.pow_add_r by lia.
          change (2 ^ 53 - 1 + 1) with (2 ^ 52 * 2). change (2 ^ 1) with 2. ring. }
        destruct (Z_lt_le_dec k' (k - 1)) as [Hk|Hk].
        -- assert (2 ^ 52 <= 2 ^ 53 - 1) as Hn by (vm_compute; discriminate).
           pose proof (small_exponent_below (2 ^ 53 - 1) m' (k - 1) k' ltac:(lia) Hm' Hn). unfold u' in H3. lia.
        -- apply (no_multiple_between (2 ^ 53 - 1) m' (k - 1) k'); fold u'; lia.
      * destruct (Z_le_gt_dec u' ((am - 1) * 2 ^ k)) as [H3|H3]; [exact H3|]. exfalso.
        destruct (Z_lt_le_dec k' k) as [Hk|Hk].
        -- assert (2 ^ 52 <= am) as Hn by (destruct Hc; [lia|assumption]).
           assert (am <> 2 ^ 52) as Hne2.
           { intros E. rewrite E, Z.eqb_refl in B. cbn in B. apply Z.ltb_ge in B. lia. }
           pose proof (small_exponent_below (am - 1) m' k k' ltac:(lia) Hm' ltac:(lia)). unfold u' in H3. lia.
        -- apply (no_multiple_between (am - 1) m' k k'); fold u'; try lia.
Qed.

(* ---------------------------------------------------------------- dyadic values as rationals *)

Local Open Scope Q_scope.

Lemma two_nz : ~ inject_Z 2 == 0.
Proof. intros H. discriminate H. Qed.

Lemma dyadic_pow m e : dyadic_val m e == inject_Z m * (inject_Z 2) ^ e.
Proof.
  unfold dyadic_val. destruct (0 <=? e)%Z eqn:E.
  - apply Z.leb_le in E. rewrite inject_Z_mult, Zpower_Qpower by lia. reflexivity.
  - apply Z.leb_gt in E. rewrite Qmake_Qdiv. unfold Qdiv.
    assert (0 < 2 ^ (- e))%Z as P by (apply Z.pow_pos_nonneg; lia).
    rewrite Z2Pos.id by exact P. rewrite Zpower_Qpower by lia.
    replace e with (- - e)%Z at 2 by lia. rewrite (Qpower_opp (inject_Z 2) (- e)). reflexivity.
Qed.

Definition ulp_min : Q := (inject_Z 2) ^ (-1074).

Lemma ulp_min_pos : 0 < ulp_min.
Proof. unfold ulp_min. apply Qpower_0_lt. reflexivity. Qed.

Lemma dyadic_units m e : (-1074 <= e)%Z -> dyadic_val m e == inject_Z (units m e) * ulp_min.
Proof.
  intros H. rewrite dyadic_pow. unfold units, ulp_min.
  rewrite inject_Z_mult, Zpower_Qpower by lia.
  rewrite <- Qmult_assoc, <- Qpower_plus by exact two_nz.
  replace (e + 1074 + -1074)%Z with e by lia. reflexivity.
Qed.

Lemma units_le_val a b : (a <= b)%Z -> inject_Z a * ulp_min <= inject_Z b * ulp_min.
Proof.
  intros H. apply Qmult_le_compat_r; [now rewrite <- Zle_Qle|]. apply Qlt_le_weak, ulp_min_pos.
Qed.

Lemma units_lt_val a b : (a < b)%Z -> inject_Z a * ulp_min < inject_Z b * ulp_min.
Proof.
  intros H. apply Qmult_lt_compat_r; [apply ulp_min_pos|]. now rewrite <- Zlt_Qlt.
Qed.

(* ---------------------------------------------------------------- distances *)

Lemma far_above a x y z : x < y -> y <= z -> Qabs (a - x) <= Qabs (a - y) -> Qabs (a - x) <= Qabs (a - z).
Proof.
  intros H1 H2 H3. destruct (Qlt_le_dec y a) as [Ha|Ha].
  - exfalso. rewrite (Qabs_pos (a - x)), (Qabs_pos (a - y)) in H3 by lra. lra.
  - rewrite (Qabs_neg (a - y)) in H3 by lra. rewrite (Qabs_neg (a - z)) by lra. lra.
Qed.

Lemma far_below a x y z : y < x -> z <= y -> Qabs (a - x) <= Qabs (a - y) -> Qabs (a - x) <= Qabs (a - z).
Proof.
  intros H1 H2 H3. destruct (Qlt_le_dec a y) as [Ha|Ha].
  - exfalso. rewrite (Qabs_neg (a - x)), (Qabs_neg (a - y)) in H3 by lra. lra.
  - rewrite (Qabs_pos (a - y)) in H3 by lra. rewrite (Qabs_pos (a - z)) by lra. lra.
Qed.

Lemma qleb_le a b : qleb a b = true -> a <= b.
Proof. unfold qleb. intros H. apply Qle_alt. destruct (a ?= b); congruence. Qed.

Lemma qltb_le a b : qltb a b = true -> a <= b.
Proof. unfold qltb. intros H. apply Qle_alt. destruct (a ?= b); congruence. Qed.

Lemma nd_core_facts aq am e :
  nd_core aq am e = true ->
  dist aq am e <= dist aq (am + 1) e /\
  dist aq am e <= (let '(lm, le) := if (am =? 0)%Z then ((-1)%Z, (-1074)%Z) else pred_mag am e in dist aq lm le).
Proof.
  unfold nd_core. destruct (if (am =? 0)%Z then ((-1)%Z, (-1074)%Z) else pred_mag am e) as [lm le].
  intros H. apply andb_true_iff in H as [H1 H2]. split.
  - apply orb_true_iff in H1 as [H|H]; [now apply qltb_le|]. apply andb_true_iff in H as [H _]. now apply qleb_le.
  - apply orb_true_iff in H2 as [H|H]; [now apply qltb_le|]. apply andb_true_iff in H as [H _]. now apply qleb_le.
Qed.

(* the value of the lower neighbour in units *)
Lemma pred_val am e :
  (0 <= am)%Z -> (-1074 <= e)%Z -> (e = -1074 \/ 2 ^ 52 <= am)%Z ->
  (let '(lm, le) := if (am =? 0)%Z then ((-1)%Z, (-1074)%Z) else pred_mag am e in dyadic_val lm le)
  == inject_Z (pred_units am e) * ulp_min.
Proof.
  intros Ha He Hc. unfold pred_units. destruct (am =? 0)%Z eqn:Z0.
  - rewrite dyadic_units by lia. unfold units. reflexivity.
  - unfold pred_mag. destruct ((am =? 2 ^ 52)%Z && (-1074 <? e)%Z) eqn:B.
    + apply andb_true_iff in B as [_ B2]. apply Z.ltb_lt in B2. rewrite dyadic_units by lia. reflexivity.
    + rewrite dyadic_units by lia. reflexivity.
Qed.

Lemma pred_units_lt am e :
  (0 <= am)%Z -> (-1074 <= e)%Z -> (pred_units am e < units am e)%Z.
Proof.
  intros Ha He. unfold pred_units, units. destruct (am =? 0)%Z eqn:Z0.
  - apply Z.eqb_eq in Z0. subst. lia.
  - unfold pred_mag. destruct ((am =? 2 ^ 52)%Z && (-1074 <? e)%Z) eqn:B.
    + apply andb_true_iff in B as [B1 B2]. apply Z.eqb_eq in B1. apply Z.ltb_lt in B2. unfold units.
      replace (e + 1074)%Z with ((e - 1 + 1074) + 1)%Z by lia. rewrite (Z.pow_add_r 2 (e - 1 + 1074) 1) by lia.
      assert (0 < 2 ^ (e - 1 + 1074))%Z as PP by (apply Z.pow_pos_nonneg; lia). rewrite B1.
      set (P := (2 ^ (e - 1 + 1074))%Z) in *.
      assert (2 ^ 53 = 9007199254740992)%Z as E53 by reflexivity.
      assert (2 ^ 52 = 4503599627370496)%Z as E52 by reflexivity.
      assert (2 ^ 1 = 2)%Z as E1 by reflexivity.
      rewrite E52, E53, E1. lia.
    + unfold units. assert (0 < 2 ^ (e + 1074))%Z by (apply Z.pow_pos_nonneg; lia). nia.
Qed.

(* core: a canonical non-negative candidate that is not farther than its two neighbours is closest *)
Lemma nd_core_closest aq am e :
  (0 <= am)%Z -> canonicalb am e = true -> nd_core aq am e = true -> closest aq am e.
Proof.
  intros Ha Hc Hn. unfold canonicalb in Hc.
  apply andb_true_iff in Hc as [Hc C4]. apply andb_true_iff in Hc as [Hc C3]. apply andb_true_iff in Hc as [C1 C2].
  apply Z.ltb_lt in C1. apply Z.leb_le in C2. apply Z.leb_le in C3.
  assert (e = -1074 \/ 2 ^ 52 <= am)%Z as Hcan.
  { apply orb_true_iff in C4 as [C|C]; [left; now apply Z.eqb_eq|right; apply Z.leb_le in C; lia]. }
  split; [repeat split; auto|].
  intros m' e' (D1 & D2 & D3).
  destruct (nd_core_facts aq am e Hn) as [Hu Hl]. unfold dist in Hu, Hl.
  pose proof (pred_val am e Ha C2 Hcan) as PV.
  destruct (if (am =? 0)%Z then ((-1)%Z, (-1074)%Z) else pred_mag am e) as [lm le].
  rewrite PV in Hl. rewrite (dyadic_units (am + 1) e C2) in Hu. rewrite (dyadic_units am e C2) in Hu, Hl |- *.
  rewrite (dyadic_units m' e' D2).
  pose proof (pred_units_lt am e Ha C2) as PL.
  assert (units am e < units (am + 1) e)%Z as UL.
  { unfold units. assert (0 < 2 ^ (e + 1074))%Z by (apply Z.pow_pos_nonneg; lia). nia. }
  destruct (grid_gap am e m' e' Ha C2 Hcan D1 D2) as [G|[G|G]].
  - apply (far_below aq _ (inject_Z (pred_units am e) * ulp_min)); auto.
    + now apply units_lt_val.
    + now apply units_le_val.
  - rewrite G. apply Qle_refl.
  - apply (far_above aq _ (inject_Z (units (am + 1) e) * ulp_min)); auto.
    + now apply units_lt_val.
    + now apply units_le_val.
Qed.

(* ---------------------------------------------------------------- sign symmetry and normalisation *)

Lemma dyadic_opp m e : dyadic_val (- m) e == - dyadic_val m e.
Proof. rewrite !dyadic_pow, inject_Z_opp. ring. Qed.

Lemma closest_opp q m e : closest q m e -> closest (- q) (- m) e.
Proof.
  intros [(D1 & D2 & D3) H]. split.
  - repeat split; auto. now rewrite Z.abs_opp.
  - intros m' e' (E1 & E2 & E3).
    assert (is_double (- m') e') as D' by (repeat split; auto; now rewrite Z.abs_opp).
    specialize (H (- m')%Z e' D'). rewrite dyadic_opp in H |- *.
    setoid_replace (- q - - dyadic_val m e) with (- (q - dyadic_val m e)) by ring.
    setoid_replace (- q - dyadic_val m' e') with (- (q - - dyadic_val m' e')) by ring.
    now rewrite !Qabs_opp.
Qed.

Lemma closest_Qeq q q' m e : q == q' -> closest q m e -> closest q' m e.
Proof.
  intros E [D H]. split; auto. intros m' e' D'. specialize (H m' e' D'). now rewrite <- E.
Qed.

Lemma dyadic_double m e : dyadic_val (2 * m) (e - 1) == dyadic_val m e.
Proof.
  rewrite !dyadic_pow, inject_Z_mult.
  replace e with ((e - 1) + 1)%Z at 2 by lia. rewrite Qpower_plus by exact two_nz.
  change ((inject_Z 2) ^ 1) with (inject_Z 2). ring.
Qed.

Lemma dyadic_half m e : Z.even m = true -> dyadic_val (m / 2) (e + 1) == dyadic_val m e.
Proof.
  intros H. apply Z.even_spec in H as [c Hc]. subst m. rewrite Z.mul_comm, Z.div_mul by lia.
  rewrite <- (dyadic_double c (e + 1)). replace (e + 1 - 1)%Z with e by lia. rewrite Z.mul_comm. reflexivity.
Qed.

Lemma norm_up_val fuel m e : let (m', e') := norm_up fuel m e in dyadic_val m' e' == dyadic_val m e.
Proof.
  revert m e. induction fuel as [|f IH]; intros m e; cbn [norm_up]; [reflexivity|].
  destruct ((Z.abs m <? 2 ^ 52)%Z && (-1074 <? e)%Z); [|reflexivity].
  specialize (IH (2 * m)%Z (e - 1)%Z). destruct (norm_up f (2 * m) (e - 1)) as [m' e'].
  rewrite IH. apply dyadic_double.
Qed.

Lemma norm_down_val fuel m e : let (m', e') := norm_down fuel m e in dyadic_val m' e' == dyadic_val m e.
Proof.
  revert m e. induction fuel as [|f IH]; intros m e; cbn [norm_down]; [reflexivity|].
  destruct ((2 ^ 53 <=? Z.abs m)%Z && Z.even m) eqn:B1.
  - apply andb_true_iff in B1 as [_ Ev]. specialize (IH (m / 2)%Z (e + 1)%Z).
    destruct (norm_down f (m / 2) (e + 1)) as [m' e']. rewrite IH. now apply dyadic_half.
  - destruct ((e <? -1074)%Z && Z.even m) eqn:B2; [|reflexivity].
    apply andb_true_iff in B2 as [_ Ev]. specialize (IH (m / 2)%Z (e + 1)%Z).
    destruct (norm_down f (m / 2) (e + 1)) as [m' e']. rewrite IH. now apply dyadic_half.
Qed.

Lemma dyadic_zero e : dyadic_val 0 e == 0.
Proof. rewrite dyadic_pow. change (inject_Z 0) with 0. ring. Qed.

Lemma normalise_val m0 e0 : let (m, e) := normalise m0 e0 in dyadic_val m e == dyadic_val m0 e0.
Proof.
  unfold normalise. destruct (m0 =? 0)%Z eqn:Z0.
  - apply Z.eqb_eq in Z0. subst. now rewrite !dyadic_zero.
  - pose proof (norm_down_val 2200 m0 e0) as H1. destruct (norm_down 2200 m0 e0) as [m1 e1].
    pose proof (norm_up_val 2200 m1 e1) as H2. destruct (norm_up 2200 m1 e1) as [m e].
    now rewrite H2.
Qed.

Theorem nearest_doubleb_sound q m0 e0 :
  nearest_doubleb q m0 e0 = true -> exists m e, dyadic_val m e == dyadic_val m0 e0 /\ closest q m e.
Proof.
  unfold nearest_doubleb. pose proof (normalise_val m0 e0) as HV. destruct (normalise m0 e0) as [m e].
  intros H. apply andb_true_iff in H as [Hc Hn]. exists m, e. split; auto.
  destruct (0 <=? m)%Z eqn:S.
  - apply Z.leb_le in S. rewrite Z.abs_eq in Hn by lia. apply nd_core_closest; auto.
  - apply Z.leb_gt in S. rewrite Z.abs_neq in Hn by lia.
    assert (canonicalb (- m) e = true) as Hc' by (unfold canonicalb in *; now rewrite Z.abs_opp).
    pose proof (nd_core_closest (- q) (- m)%Z e ltac:(lia) Hc' Hn) as C.
    apply closest_opp in C. rewrite Z.opp_involutive in C.
    apply (closest_Qeq (- - q)); auto. ring.
Qed.

(* ---------------------------------------------------------------- underflow and overflow shortcuts *)

Lemma half_ulp : ulp_min == 2 * (1 # (2 ^ 1075)).
Proof. vm_compute. reflexivity. Qed.

Theorem underflowsb_sound q : underflowsb q = true -> closest q 0 (-1074).
Proof.
  unfold underflowsb. intros H. apply qleb_le in H. set (h := 1 # (2 ^ 1075)) in *.
  apply Qabs_Qle_condition in H as [H1 H2].
  split.
  - repeat split; cbn; lia.
  - intros m' e' (D1 & D2 & D3). rewrite dyadic_zero, (dyadic_units m' e' D2).
    set (u' := units m' e'). pose proof half_ulp as HU. fold h in HU.
    destruct (Z.eq_dec u' 0) as [E|E].
    + rewrite E. change (inject_Z 0) with 0. setoid_replace (q - 0 * ulp_min) with (q - 0) by ring. apply Qle_refl.
    + assert (Qabs (q - 0) <= h) as Hq by (apply Qabs_Qle_condition; split; lra).
      apply (Qle_trans _ h); auto.
      destruct (Z_lt_le_dec u' 0) as [L|L].
      * assert (u' <= -1)%Z as L3 by lia. apply units_le_val in L3.
        change (inject_Z (-1)) with (-1) in L3.
        rewrite (Qabs_pos (q - inject_Z u' * ulp_min)); lra.
      * assert (1 <= u')%Z as L3 by lia. apply units_le_val in L3. change (inject_Z 1) with 1 in L3.
        rewrite (Qabs_neg (q - inject_Z u' * ulp_min)); lra.
Qed.
