(* Extraction of the stop-logic model of C16 (ExtrOcamlBasic only; Z, positive, Q stay the extracted inductive types). *)
From Coq Require Extraction.
From Coq Require Import ExtrOcamlBasic ZArith QArith List.
From SV Require Import LimitsModel.

(* extract/zutil.ml converts nat as well: keep the type in the extracted module *)
Definition events_left (r : result) : nat := List.length (rest r).

Extraction "../extract/C16/model.ml" events_left run run_from outer no_limits iter_budget time_budget time_limit_reached
  is_solve_stopped rat_round.
