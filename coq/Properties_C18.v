(* C18 - distinct solver objects can be used concurrently.  Partial: the logic that a model can carry. *)
From Coq Require Import List String Bool.
From SV Require Import GlobalsModel Globals_Proofs.
From SVG Require Import Gen_Globals.
Import ListNotations.

(* Every object with static storage duration that the compiled library defines is const, thread-local, or written only
   during (thread-safe) static / guarded initialisation - regenerated from the object files of the current tree. *)
Theorem C18_shared_state_immutable : globals_harmless gen_globals = true.
Proof. vm_compute. reflexivity. Qed.
Print Assumptions C18_shared_state_immutable.

(* Steps of different threads that write only cells of their own object commute ... *)
Theorem C18_disjoint_steps_commute :
  forall (m : mem) (a b : step), well_scoped a -> well_scoped b -> actor a <> actor b ->
    forall c, apply (apply m a) b c = apply (apply m b) a c.
Proof. exact steps_commute. Qed.
Print Assumptions C18_disjoint_steps_commute.

(* ... and for EVERY interleaving of such steps (any number of threads, any schedule) each thread observes on its own
   object exactly what it observes when its steps run alone. *)
Theorem C18_every_interleaving_equals_running_alone :
  forall (l : list step) (m m' : mem) i, Forall well_scoped l -> (forall k, m (Own i k) = m' (Own i k)) ->
    forall k, run m l (Own i k) = run m' (mine i l) (Own i k).
Proof. exact interleaving_invisible. Qed.
Print Assumptions C18_every_interleaving_equals_running_alone.

Example C18_ex_globals_nonempty : List.length gen_globals <> 0.
Proof. vm_compute. discriminate. Qed.
Example C18_ex_interleaving :
  let l := [ {| actor := 1; target := Own 1 0; value := 5 |}; {| actor := 2; target := Own 2 0; value := 7 |};
             {| actor := 1; target := Own 1 1; value := 6 |} ] in
  Forall well_scoped l /\ run (fun _ => 0) l (Own 1 1) = 6 /\ run (fun _ => 0) l (Own 2 0) = 7.
Proof. simpl. repeat split; repeat constructor; reflexivity. Qed.
