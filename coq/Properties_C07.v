(* C07 - The floating-point LP and the rational LP never drift apart.
 Property theorems only; each is closed by [exact] of a lemma of Sync_Proofs.v.

 Vocabulary (SyncModel.v / Sync_Proofs.v):
   state, op, step, run     the solver object as far as C07 observes it (real LP with exact dyadic entries, optional
                            rational LP over Q, _rowTypes/_colTypes, SYNCMODE, INFTY, OBJSENSE, EPSILON_ZERO) and the
                            calls: OR (real interface), OQ (rational interface, with the GMP entry points where they
                            differ), SyncReal, SyncRat, ExactSolveSync (the copy optimize() makes before an exact solve
                            in SYNCMODE_ONLYREAL), SetMode, SetInfty, SetSense, SetOffset
   rnd : rkind -> Q -> dy   the oracle for Rational -> double (RConv: conversion operator, RGetD: mpq_get_d)
   adj d q                  d is a double and no double lies beyond d in the direction of q up to q itself:
                            d is q, or the largest double below q, or the smallest double above q
   valid_op / valid_run     the call is inside the documented domain in the state in which it is made
   InSync s                 the rational LP exists; the real LP has the same dimensions and sense and each of its
                            entries (sides, bounds, objective, matrix, offset) is adjacent to the rational entry; the
                            type arrays are the classification of the rational bounds with threshold INFTY
   Inv s                    every entry of the real LP is a double, sides/bounds vectors have matching lengths, and a
                            rational LP exists outside SYNCMODE_ONLYREAL
   benign s o               the call avoids the mechanisms by which the code itself breaks the relation (see the
                            refutation theorems): a nonzero vector entry beyond the current dimension whose double
                            image is 0, changeElement with a value at the epsilon threshold (every call of the real
                            interface is benign), the GMP addCol entry points when the sense of the LPs
                            differs from the OBJSENSE parameter
   spec_step / spec_run     what a call means for a rational LP alone: every argument stored verbatim, a double
                            argument as its exact value (no mode, no real LP, no rounding, no epsilon, no types) *)
From Coq Require Import ZArith QArith List Bool.
From SV Require Import SyncModel Sync_Proofs.
Import ListNotations.
Local Open Scope nat_scope.

(* the only assumption about the conversions, made by every theorem that mentions [oracle_ok]: they return a double
 adjacent to the rational *)
Definition oracle_ok (rnd : rkind -> Q -> dy) : Prop := forall k q, adj (rnd k q) q.

(* ---------------------------------------------------------------------------------------------------------
   every reachable state is well formed (all modes, every call of the domain) *)
Theorem C07_invariant_step : forall rnd, oracle_ok rnd -> forall s o, Inv s -> valid_op rnd s o = true -> Inv (step rnd s o).
Proof. exact step_Inv. Qed.
Print Assumptions C07_invariant_step.

(* ---------------------------------------------------------------------------------------------------------
   auto_preserves_InSync: every benign call made in SYNCMODE_AUTO, through either interface, keeps the two LPs in
   sync (partial: "benign"; the excluded calls do break the relation, see the refutations) *)
Theorem C07_auto_preserves_InSync_partial :
  forall rnd, oracle_ok rnd -> forall s o, mode s = Auto -> InSync s -> valid_op rnd s o = true -> benign rnd s o -> o <> SetMode OnlyReal ->
    InSync (step rnd s o).
Proof. exact auto_step_preserves. Qed.
Print Assumptions C07_auto_preserves_InSync_partial.

(* ... hence after any history of such calls *)
Theorem C07_auto_history_InSync_partial :
  forall rnd, oracle_ok rnd -> forall ops s, mode s = Auto -> InSync s -> hist_ok rnd s ops ->
    InSync (run rnd s ops) /\ mode (run rnd s ops) = Auto.
Proof. exact auto_history. Qed.
Print Assumptions C07_auto_history_InSync_partial.

(* ... and the rational LP is exactly the denotation of the history: what was entered, verbatim (partial:
   changeElement calls must store their value, i.e. not fall under the epsilon / underflow rule) *)
Theorem C07_auto_rational_holds_entered_numbers_partial :
  forall rnd, oracle_ok rnd -> forall ops s q, mode s = Auto -> InSync s -> ql s = Some q -> hist_ok rnd s ops -> hist_kept rnd s ops ->
    ql (run rnd s ops) = Some (spec_run (pmax s) q ops).
Proof. exact exact_history. Qed.
Print Assumptions C07_auto_rational_holds_entered_numbers_partial.

(* switching from ONLYREAL to AUTO starts such a history: the rational LP is the exact image of the real LP *)
Theorem C07_onlyreal_to_auto_exact_copy :
  forall rnd s, mode s = OnlyReal -> Inv s ->
    ql (step rnd s (SetMode Auto)) = Some (lp_map d2q (rl s)) /\ rl (step rnd s (SetMode Auto)) = rl s /\
    InSync (step rnd s (SetMode Auto)) /\ mode (step rnd s (SetMode Auto)) = Auto.
Proof. exact onlyreal_to_auto_copy. Qed.
Print Assumptions C07_onlyreal_to_auto_exact_copy.

(* ---------------------------------------------------------------------------------------------------------
   manual_sync_establishes: in SYNCMODE_MANUAL, syncLPRational makes the rational LP the exact image of the real
   LP (whatever happened before) and recomputes the types; syncLPReal makes the real LP the rounded image of the
   rational LP (partial: the type arrays are not recomputed, so they must already match) *)
Theorem C07_manual_syncLPRational_establishes :
  forall rnd s, mode s = Manual -> Inv s ->
    ql (step rnd s SyncRat) = Some (lp_map d2q (rl s)) /\ rl (step rnd s SyncRat) = rl s /\ InSync (step rnd s SyncRat).
Proof. exact manual_syncLPRational. Qed.
Print Assumptions C07_manual_syncLPRational_establishes.

Theorem C07_manual_syncLPReal_establishes_partial :
  forall rnd, oracle_ok rnd -> forall s q, mode s = Manual -> ql s = Some q -> types_ok s q -> WF2 q ->
    rl (step rnd s SyncReal) = lp_map (rnd RConv) q /\ ql (step rnd s SyncReal) = Some q /\ InSync (step rnd s SyncReal).
Proof. exact manual_syncLPReal. Qed.
Print Assumptions C07_manual_syncLPReal_establishes_partial.

(* ---------------------------------------------------------------------------------------------------------
   onlyreal_sync_exact_copy: what an exact solve does first in SYNCMODE_ONLYREAL *)
Theorem C07_onlyreal_sync_exact_copy :
  forall rnd s, mode s = OnlyReal -> Inv s ->
    ql (step rnd s ExactSolveSync) = Some (lp_map d2q (rl s)) /\ rl (step rnd s ExactSolveSync) = rl s /\
    InSync (step rnd s ExactSolveSync).
Proof. exact onlyreal_exact_solve_copy. Qed.
Print Assumptions C07_onlyreal_sync_exact_copy.

(* ---------------------------------------------------------------------------------------------------------
   the classification used by the exact solver always matches the rational bounds: outside SYNCMODE_ONLYREAL (where
   the arrays are not maintained and every way out recomputes them) the type arrays are the classification of the
   rational bounds with threshold INFTY, in every state reachable by valid calls of either interface in any mode *)
Theorem C07_types_always_match :
  forall rnd s o, Inv s -> TypesInv s -> valid_op rnd s o = true -> TypesInv (step rnd s o).
Proof. exact types_always. Qed.
Print Assumptions C07_types_always_match.

(* its parts: every call of the rational interface (AUTO and MANUAL), the real interface outside AUTO ... *)
Theorem C07_types_match_after_rational_call :
  forall rnd s qo, mode s <> OnlyReal -> Inv s -> TypesOK s -> valid_op rnd s (OQ qo) = true -> TypesOK (step rnd s (OQ qo)).
Proof. exact types_step_rational. Qed.
Print Assumptions C07_types_match_after_rational_call.

Theorem C07_types_untouched_by_real_call_outside_auto :
  forall rnd s ro, mode s <> Auto -> TypesOK s -> TypesOK (step rnd s (OR ro)).
Proof. exact types_step_real_not_auto. Qed.
Print Assumptions C07_types_untouched_by_real_call_outside_auto.

(* ... and the two statements that were refuted before changeRow/Col/Range/BoundsReal classified with the INFTY parameter
   and before setIntParam(SYNCMODE, MANUAL) recomputed the arrays when it comes from ONLYREAL; the former witnesses: *)
(* setRealParam(INFTY,1e20); changeRangeReal(0,-1e30,1): _rowTypes and the rational bounds both say UPPER *)
Theorem C07_types_match_with_small_infty :
  forall rnd, valid_run rnd init hist_gap = true /\ mode (run rnd init hist_gap) = Auto /\
              TypesOK (run rnd init hist_gap) /\ rty (run rnd init hist_gap) = [TUpper].
Proof. exact gap_types_ok. Qed.
Print Assumptions C07_types_match_with_small_infty.

(* AUTO, add a row, ONLYREAL, MANUAL, addRowRational(1 <= 2 x0 <= 1): the row is FIXED in _rowTypes *)
Theorem C07_types_match_after_onlyreal_to_manual :
  forall rnd, valid_run rnd init hist_stale = true /\ mode (run rnd init hist_stale) = Manual /\
              TypesOK (run rnd init hist_stale) /\ rty (run rnd init hist_stale) = [TFixed].
Proof. exact stale_types_ok. Qed.
Print Assumptions C07_types_match_after_onlyreal_to_manual.

Theorem C07_types_recomputed_on_onlyreal_to_manual :
  forall rnd s, mode s = OnlyReal -> TypesOK (step rnd s (SetMode Manual)).
Proof. exact onlyreal_to_manual_types. Qed.
Print Assumptions C07_types_recomputed_on_onlyreal_to_manual.

(* ---------------------------------------------------------------------------------------------------------
   refuted for every oracle: calls that are valid and still break the statement of the property *)
(* MANUAL, addColReal, AUTO: setIntParam(SYNCMODE, AUTO) does not synchronise when it comes from MANUAL *)
Theorem C07_in_sync_on_entering_auto_from_manual_refuted :
  forall rnd, exists h, valid_run rnd init h = true /\ mode (run rnd init h) = Auto /\ ~ InSync (run rnd init h).
Proof. exact (fun rnd => ex_intro _ hist_manual_auto (manual_auto_refutes rnd)). Qed.
Print Assumptions C07_in_sync_on_entering_auto_from_manual_refuted.

(* changeElementRational(0,0,1e-20) / changeElementReal(0,0,1e-20): the entry is deleted from the rational LP *)
Theorem C07_rational_holds_entered_element_refuted :
  forall rnd, valid_run rnd init hist_elem_eps = true /\
    exists q, ql (run rnd init hist_elem_eps) = Some q /\
              ~ (nth 0 (nth 0 (mat q) []) qzero == 1 # 100000000000000000000)%Q.
Proof. exact elem_eps_refutes. Qed.
Print Assumptions C07_rational_holds_entered_element_refuted.

Theorem C07_rational_holds_entered_real_element_refuted :
  forall rnd, valid_run rnd init hist_elem_eps_real = true /\
    exists q, ql (run rnd init hist_elem_eps_real) = Some q /\ ~ (nth 0 (nth 0 (mat q) []) qzero == d2q d1em20)%Q.
Proof. exact elem_eps_real_refutes. Qed.
Print Assumptions C07_rational_holds_entered_real_element_refuted.

(* changeElementRational(0,0,const mpq_t pointer to 1e-330) (formerly deleted from the rational LP because the zero test
   was made on mpq_get_d): the rational LP holds the number *)
Theorem C07_rational_holds_entered_gmp_element :
  forall rnd, valid_run rnd init hist_elem_gmp_tiny = true /\
    exists q, ql (run rnd init hist_elem_gmp_tiny) = Some q /\ nth 0 (nth 0 (mat q) []) qzero = Qmake 1 (10 ^ 330).
Proof. exact elem_gmp_tiny_kept. Qed.
Print Assumptions C07_rational_holds_entered_gmp_element.

(* every call of the real interface is benign *)
Theorem C07_real_interface_always_benign : forall rnd s ro, benign rnd s (OR ro).
Proof. exact benign_real. Qed.
Print Assumptions C07_real_interface_always_benign.

(* ---------------------------------------------------------------------------------------------------------
 refuted for the conversions as the linked libraries perform them (rnd_impl: nearest-even for the conversion
 operator, truncation for mpq_get_d; compared with the libraries on every run of the check) *)
(* changeElementRational(0,0,const mpq_t pointer to 1e-20): stays in the rational LP (as entered), deleted from the real LP
   by the epsilon rule of SPxLPBase<double>::changeElement *)
Theorem C07_auto_gmp_element_in_sync_refuted :
exists h, valid_run rnd_impl init h = true /\ mode (run rnd_impl init h) = Auto /\ ~ InSync (run rnd_impl init h).
Proof. exact (ex_intro _ hist_elem_gmp elem_gmp_refutes). Qed.
Print Assumptions C07_auto_gmp_element_in_sync_refuted.

(* addRowRational with entries {0: 1/3, 3: 1e-400} on a one-column LP: 4 rational columns, 1 real column *)
Theorem C07_auto_dimensions_agree_refuted :
exists h, valid_run rnd_impl init h = true /\ mode (run rnd_impl init h) = Auto /\ ~ InSync (run rnd_impl init h).
Proof. exact (ex_intro _ hist_underflow underflow_refutes). Qed.
Print Assumptions C07_auto_dimensions_agree_refuted.

(* ---------------------------------------------------------------------------------------------------------
   sense: in every reachable state (SenseOK holds for a new object) both LPs have the sense of the OBJSENSE parameter;
   in particular the sense condition in "benign" for the GMP addCol entry points always holds *)
Theorem C07_sense_follows_parameter : forall rnd s o, SenseOK s -> SenseOK (step rnd s o).
Proof. exact step_SenseOK. Qed.
Print Assumptions C07_sense_follows_parameter.

(* ---------------------------------------------------------------------------------------------------------
   the assumption about the conversions can be met: truncation towards zero, saturating at the largest double *)
Theorem C07_oracle_assumption_satisfiable : oracle_ok rnd_sat.
Proof. exact rnd_sat_adj. Qed.
Print Assumptions C07_oracle_assumption_satisfiable.

(* ---------------------------------------------------------------------------------------------------------
   Examples: the hypotheses are satisfiable by non-trivial states and histories, and what the theorems say there. *)
Example ex_init_types : TypesInv init.
Proof. exact TypesInv_init. Qed.

Example ex_init_sense : SenseOK init.
Proof. exact SenseOK_init. Qed.

Example ex_init_inv : Inv init.
Proof.
  split; [exact RealOK_empty|]. split; [apply WF2_empty|]. split; [discriminate|]. intros H. now elim H.
Qed.

(* a new object switched to SYNCMODE_AUTO *)
Definition s_auto : state := step rnd_sat init (SetMode Auto).
Example ex_auto_start : InSync s_auto /\ mode s_auto = Auto.
Proof. destruct (C07_onlyreal_to_auto_exact_copy rnd_sat init eq_refl ex_init_inv) as (_ & _ & H1 & H2). now split. Qed.

(* both interfaces interleaved: a column from each side, rows with non-representable fractions (1/3, 22/7, 1/10) and an
   implicitly created column, an infinite side, the GMP element and right-hand-side entry points, a sense change, a removal *)
Definition dh : dy := (1%Z, (-1)%Z).
Definition ex_ops : list op :=
  [ OR (RAddCol (dI 1, dI 0, dinf, []));
    OQ (QAddCol false ((1 # 3)%Q, 0%Q, 2%Q, []));
    OR (RAddRow (dI (-1), dI 5, [(0, dI 1); (1, dh)]));
    OQ (QAddRow false ((-1 # 3)%Q, (10 # 3)%Q, [(0, (1 # 3)%Q); (2, (22 # 7)%Q)]));
    OQ (QLhs 0 (1 # 10)%Q);
    OR (RRange 1 (dneg dinf) (dI 7));
    OQ (QElem true 0 1 (1 # 3)%Q);
    OQ (QAddRow false (0%Q, 1%Q, [(1, (1 # 7)%Q)]));
    SetSense false;
    OQ (QObj 0 (1 # 7)%Q);
    OR (RRemRow 0);
    SetOffset dh;
    OQ (GRhsV [(9 # 2)%Q]);
    OR (RElem 0 0 (dI 3)) ].

Example ex_hist_ok : hist_ok rnd_sat s_auto ex_ops.
Proof. unfold ex_ops. cbn [hist_ok]. vm_compute. repeat split; auto. Qed.

Example ex_hist_kept : hist_kept rnd_sat s_auto ex_ops.
Proof. unfold ex_ops. cbn [hist_kept]. vm_compute. repeat split; auto. Qed.

Example ex_result_in_sync : InSync (run rnd_sat s_auto ex_ops) /\ mode (run rnd_sat s_auto ex_ops) = Auto.
Proof.
  destruct ex_auto_start as [H1 H2].
  exact (C07_auto_history_InSync_partial rnd_sat C07_oracle_assumption_satisfiable ex_ops s_auto H2 H1 ex_hist_ok).
Qed.

(* the final state: 2 rows, 3 columns in both LPs; the last row moved into the hole (0 <= . <= 9/2), the other one is free
   below (UPPER) *)
Example ex_result_shape :
  let s := run rnd_sat s_auto ex_ops in
  (nrows (rl s), ncols (rl s)) = (2, 3) /\ option_map (fun q => (nrows q, ncols q)) (ql s) = Some (2, 3) /\
  rty s = [TBoxed; TUpper] /\ cty s = [TLower; TBoxed; TLower].
Proof. vm_compute. repeat split; reflexivity. Qed.

(* SYNCMODE_MANUAL: the two LPs are edited independently and then synchronised in either direction *)
Definition ex_manual_ops : list op :=
  [ SetMode Manual; OR (RAddCol (dI 1, dI 0, dinf, [])); OQ (QAddCol false ((1 # 3)%Q, (-1 # 7)%Q, 2%Q, [])) ].
Example ex_manual_valid : valid_run rnd_sat init ex_manual_ops = true /\ mode (run rnd_sat init ex_manual_ops) = Manual.
Proof. vm_compute. split; reflexivity. Qed.
Example ex_manual_inv : Inv (run rnd_sat init ex_manual_ops).
Proof.
  unfold ex_manual_ops, run. cbn [fold_left].
  repeat (apply (C07_invariant_step rnd_sat C07_oracle_assumption_satisfiable); [|vm_compute; reflexivity]).
  exact ex_init_inv.
Qed.
(* before the sync the rational LP has the rational column only; afterwards it is the exact image of the real LP *)
Example ex_manual_syncRat :
  let s := run rnd_sat init ex_manual_ops in
  option_map (@mobj Q) (ql s) = Some [(1 # 3)%Q] /\
  ql (step rnd_sat s SyncRat) = Some (lp_map d2q (rl s)) /\ InSync (step rnd_sat s SyncRat).
Proof.
  split; [vm_compute; reflexivity|].
  destruct (C07_manual_syncLPRational_establishes rnd_sat (run rnd_sat init ex_manual_ops)
              (proj2 ex_manual_valid) ex_manual_inv) as (H1 & _ & H3).
  now split.
Qed.
