(* C07 - property theorems (under construction: replaced by the full set once Sync_Proofs.v is complete) *)
From Coq Require Import ZArith QArith List.
From SV Require Import SyncModel.

Theorem C07_init_has_no_rational_lp : ql init = None /\ mode init = OnlyReal.
Proof. split; reflexivity. Qed.
Print Assumptions C07_init_has_no_rational_lp.
