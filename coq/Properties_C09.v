(* C09 - Scaling is invisible: power-of-two exact, never leaks into what the user sees.
   Property theorems only; each is closed by [exact] of a lemma of Scaling_Proofs.v (or, for the two refutations,
   by a computed witness).  Exact level: all LPs of every size over Q with tagged infinite sides/bounds, all
   integer exponent vectors (of any length; a missing exponent is 0).  Binary64 level: doubles as mantissa/exponent
   pairs, ldexp with IEEE-754 rounding/overflow, "infinite" as the code tests it (>= 1e100). *)
From Coq Require Import ZArith QArith List Bool Lia.
From SV Require Import Dbl ScalingModel Scaling_Proofs.
Import ListNotations.
Local Open Scope Z_scope.

(* ---- exact level ------------------------------------------------------------------------------------------ *)

(* un-scaling a scaled LP reproduces every objective entry, bound, side, row objective and coefficient *)
Theorem C09_unscale_scale_id : forall (r c : list Z) (p : lpQ), lp_eq (unscale r c (apply_scaling r c p)) p.
Proof. exact unscale_scale_id_lemma. Qed.
Print Assumptions C09_unscale_scale_id.

(* re-scaling with the same exponents (what _reapplyPersistentScaling relies on) is the inverse as well *)
Theorem C09_scale_unscale_id : forall (r c : list Z) (p : lpQ), lp_eq (apply_scaling r c (unscale r c p)) p.
Proof. exact scale_unscale_id_lemma. Qed.
Print Assumptions C09_scale_unscale_id.

(* every *Unscaled getter on the scaled LP returns the original datum *)
Theorem C09_getters_see_original : forall (r c : list Z) (p : lpQ),
  (forall i j, coefUnscaled r c (apply_scaling r c p) i j == coef p i j)%Q /\
  (forall j, maxObjUnscaled c (apply_scaling r c p) j == nth j (obj p) 0)%Q /\
  (forall j, ext_eq (lowerUnscaled c (apply_scaling r c p) j) (nth j (lo p) NInf)) /\
  (forall j, ext_eq (upperUnscaled c (apply_scaling r c p) j) (nth j (up p) PInf)) /\
  (forall i, ext_eq (lhsUnscaled r (apply_scaling r c p) i) (nth i (lhs p) NInf)) /\
  (forall i, ext_eq (rhsUnscaled r (apply_scaling r c p) i) (nth i (rhs p) PInf)) /\
  (forall i, Forall2 Qeq (getRowUnscaled r c (apply_scaling r c p) i) (nth i (mat p) [])).
Proof. exact getters_see_original_lemma. Qed.
Print Assumptions C09_getters_see_original.

(* a point is feasible for the scaled LP iff its image under unscalePrimal is feasible for the user's LP *)
Theorem C09_scaled_feasibility_transfer : forall (r c : list Z) (p : lpQ) (x : list Q),
  feasible (apply_scaling r c p) x <-> feasible p (unscalePrimal c x).
Proof. exact scaled_feasibility_transfer_lemma. Qed.
Print Assumptions C09_scaled_feasibility_transfer.

(* s = A x is preserved by unscaleSlacks / unscalePrimal *)
Theorem C09_unscale_slacks : forall (r c : list Z) (p : lpQ) (x s : list Q),
  Forall2 Qeq s (mat_vec (mat (apply_scaling r c p)) x) ->
  Forall2 Qeq (unscaleSlacks r s) (mat_vec (mat p) (unscalePrimal c x)).
Proof. exact unscale_slacks_lemma. Qed.
Print Assumptions C09_unscale_slacks.

(* d = c - A^T y is preserved by unscaleRedCost / unscaleDual *)
Theorem C09_unscale_redcost : forall (r c : list Z) (p : lpQ) (y d : list Q),
  (forall j, nth j d 0 == nth j (obj (apply_scaling r c p)) 0 - col_dot (mat (apply_scaling r c p)) y j)%Q ->
  forall j, (nth j (unscaleRedCost c d) 0 == nth j (obj p) 0 - col_dot (mat p) (unscaleDual r y) j)%Q.
Proof. exact unscale_redcost_lemma. Qed.
Print Assumptions C09_unscale_redcost.

(* the objective value of a scaled-space point equals the user's objective at the unscaled point *)
Theorem C09_unscale_objective : forall (r c : list Z) (p : lpQ) (x : list Q),
  (dot (obj (apply_scaling r c p)) x == dot (obj p) (unscalePrimal c x))%Q.
Proof. exact unscale_objective_lemma. Qed.
Print Assumptions C09_unscale_objective.

(* primal rays: row activities of the scaled ray are those of the unscaled ray times 2^r_i > 0 (so every sign
   condition of a recession direction transfers), and the objective along the ray is the same *)
Theorem C09_unscale_primalray : forall (r c : list Z) (p : lpQ) (ray : list Q),
  Forall2 Qeq (mat_vec (mat (apply_scaling r c p)) ray)
              (map_exp (fun ri v => qldexp v ri) r (mat_vec (mat p) (unscalePrimalray c ray))) /\
  (dot (obj (apply_scaling r c p)) ray == dot (obj p) (unscalePrimalray c ray))%Q.
Proof. exact unscale_primalray_lemma. Qed.
Print Assumptions C09_unscale_primalray.

(* Farkas multipliers: (A'^T y')_j = 2^c_j (A^T unscaleDualray y')_j with 2^c_j > 0, and y'.side' = y.side *)
Theorem C09_unscale_dualray : forall (r c : list Z) (p : lpQ) (y : list Q) (j : nat),
  (col_dot (mat (apply_scaling r c p)) y j == qldexp (col_dot (mat p) (unscaleDualray r y) j) (nth j c 0%Z))%Q.
Proof. exact unscale_dualray_lemma. Qed.
Print Assumptions C09_unscale_dualray.

Theorem C09_unscale_side_product : forall (r : list Z) (b y : list Q),
  (dot (map_exp (fun ri v => qldexp v ri) r b) y == dot b (unscaleDual r y))%Q.
Proof. exact dot_scale_side. Qed.
Print Assumptions C09_unscale_side_product.

(* data changed or added while scaled: storing scaleX(datum) with the current exponents is the same as scaling
   the changed user LP (any exponent e may be chosen for a new row / column) ... *)
Theorem C09_stored_after_change : forall (r c : list Z) (p : lpQ),
  (forall j v, apply_scaling r c (set_obj j v p) = set_obj j (scaleObj c j v) (apply_scaling r c p)) /\
  (forall j v, apply_scaling r c (set_lower j v p) = set_lower j (scaleLower c j v) (apply_scaling r c p)) /\
  (forall j v, apply_scaling r c (set_upper j v p) = set_upper j (scaleUpper c j v) (apply_scaling r c p)) /\
  (forall i v, apply_scaling r c (set_lhs i v p) = set_lhs i (scaleLhs r i v) (apply_scaling r c p)) /\
  (forall i v, apply_scaling r c (set_rhs i v p) = set_rhs i (scaleRhs r i v) (apply_scaling r c p)) /\
  (forall i j v, apply_scaling r c (set_elem i j v p) = set_elem i j (scaleElement r c i j v) (apply_scaling r c p)) /\
  (forall e l u ro row, lp_wf r c p ->
     apply_scaling (r ++ [e]) c (add_row l u ro row p)
     = add_row (ext_ldexp l e) (ext_ldexp u e) (qldexp ro e) (scale_row e c row) (apply_scaling r c p)) /\
  (forall e o l u col, lp_wf r c p -> length col = length r ->
     apply_scaling r (c ++ [e]) (add_col 0%Q o l u col p)
     = add_col 0%Q (qldexp o e) (ext_ldexp l (- e)) (ext_ldexp u (- e)) (scale_col e r col) (apply_scaling r c p)).
Proof.
  intros r c p.
  exact (conj (change_obj_consistent r c p) (conj (change_lower_consistent r c p) (conj (change_upper_consistent r c p)
        (conj (change_lhs_consistent r c p) (conj (change_rhs_consistent r c p) (conj (change_element_consistent r c p)
        (conj (add_row_consistent r c p) (add_col_consistent r c p)))))))).
Qed.
Print Assumptions C09_stored_after_change.

(* ... and therefore un-scales to the user's datum *)
Theorem C09_add_under_scaling_consistent : forall (r c : list Z) (p : lpQ),
  (forall j v, lp_eq (unscale r c (set_obj j (scaleObj c j v) (apply_scaling r c p))) (set_obj j v p)) /\
  (forall j v, lp_eq (unscale r c (set_lower j (scaleLower c j v) (apply_scaling r c p))) (set_lower j v p)) /\
  (forall j v, lp_eq (unscale r c (set_upper j (scaleUpper c j v) (apply_scaling r c p))) (set_upper j v p)) /\
  (forall i v, lp_eq (unscale r c (set_lhs i (scaleLhs r i v) (apply_scaling r c p))) (set_lhs i v p)) /\
  (forall i v, lp_eq (unscale r c (set_rhs i (scaleRhs r i v) (apply_scaling r c p))) (set_rhs i v p)) /\
  (forall i j v, lp_eq (unscale r c (set_elem i j (scaleElement r c i j v) (apply_scaling r c p))) (set_elem i j v p)) /\
  (forall e l u ro row, lp_wf r c p ->
     lp_eq (unscale (r ++ [e]) c (add_row (ext_ldexp l e) (ext_ldexp u e) (qldexp ro e) (scale_row e c row) (apply_scaling r c p)))
           (add_row l u ro row p)) /\
  (forall e o l u col, lp_wf r c p -> length col = length r ->
     lp_eq (unscale r (c ++ [e]) (add_col 0%Q (qldexp o e) (ext_ldexp l (- e)) (ext_ldexp u (- e)) (scale_col e r col) (apply_scaling r c p)))
           (add_col 0%Q o l u col p)).
Proof. exact add_under_scaling_consistent_lemma. Qed.
Print Assumptions C09_add_under_scaling_consistent.

(* a concrete 2x2 instance: dimensions agree, scaling is not the identity, a feasible point transfers *)
Definition ex_lp : lpQ :=
  mkLP [3 # 1; (-1) # 4]%Q [Fin 0; NInf] [Fin (5 # 1); PInf] [Fin (1 # 8); NInf] [PInf; Fin (64 # 1)]
       [0; 0]%Q [[1024 # 1; 1 # 16]; [0; 3 # 1]]%Q.
Definition ex_r : list Z := [-7; 2].
Definition ex_c : list Z := [-3; 4].
Definition ex_x : list Q := [1 # 1; 1 # 16]%Q.
Example ex_wf : lp_wf ex_r ex_c ex_lp.
Proof. unfold lp_wf, ex_lp; cbn; repeat split; auto. Qed.
Example ex_scaled_coef : (coef (apply_scaling ex_r ex_c ex_lp) 0 0 == 1)%Q.
Proof. vm_compute. reflexivity. Qed.
Example ex_feasible : feasible ex_lp (unscalePrimal ex_c ex_x).
Proof. vm_compute. intuition discriminate. Qed.
Example ex_feasible_scaled : feasible (apply_scaling ex_r ex_c ex_lp) ex_x.
Proof. apply C09_scaled_feasibility_transfer. exact ex_feasible. Qed.

(* ---- binary64 level ----------------------------------------------------------------------------------------- *)

(* ldexp on a double is exact when no bit is shifted out below 2^-1074 and the result stays below 2^1024 *)
Theorem C09_ldexp_exact_in_range : forall m e k : Z,
  representable m e -> m <> 0 -> EMIN <= e + k -> Z.abs m * 2 ^ (e + k - EMIN) < 2 ^ (EOVER - EMIN) ->
  ldexp_ieee (DFin m e) k = DFin m (e + k) /\ representable m (e + k).
Proof. exact ldexp_exact_in_range_lemma. Qed.
Print Assumptions C09_ldexp_exact_in_range.

(* the two tests that keep ldexp_ieee cheap for absurd exponents (certain overflow, certain underflow to zero) do not
   change its value: it coincides with the plain definition by cases (round below 2^-1074, overflow at 2^1024, else exact) *)
Theorem C09_ldexp_shortcuts_agree : forall (x : dbl) (k : Z), ldexp_ieee x k = ldexp_ieee_plain x k.
Proof. exact ldexp_shortcuts_agree. Qed.
Print Assumptions C09_ldexp_shortcuts_agree.

(* in particular when the result is a normal double (2^-1022 <= |m| 2^(e+k)) *)
Theorem C09_normal_result_loses_no_bit : forall m e' : Z, Z.abs m < 2 ^ PREC -> normal m e' -> EMIN <= e'.
Proof. exact normal_no_bits_lost. Qed.
Print Assumptions C09_normal_result_loses_no_bit.

(* outside the guard: 3 * 2^-1073 scaled by 2^-2 is rounded in the subnormal range and does not come back *)
Example subnormal_counter_case :
  ldexp_ieee (ldexp_ieee (DFin 3 (-1073)) (-2)) 2 = DFin 2 (-1072) /\ deq (DFin 2 (-1072)) (DFin 3 (-1073)) = false.
Proof. vm_compute. split; reflexivity. Qed.
Example subnormal_counter_case_outside_guard : ~ fin_ok 3 (-1073) (-2).
Proof. unfold fin_ok, EMIN. intros [H|H]; lia. Qed.
Example subnormal_lp_not_restored :
  let p := mkLP [DFin 1 0] [DFin 0 0] [DPInf] [DNInf] [DFin 1 0] [DFin 0 0] [[DFin 3 (-1073)]] in
  d_unscale [-2] [0] (d_apply_scaling [-2] [0] p) <> p.
Proof. vm_compute. intros H. discriminate H. Qed.
(* overflow is the other way out of the guard *)
Example overflow_counter_case : ldexp_ieee (DFin 1 1000) 24 = DPInf.
Proof. vm_compute. reflexivity. Qed.

(* bit-for-bit round trip of the stored LP, for all exponent vectors, under the stated guard *)
Theorem C09_d_unscale_scale_id : forall (r c : list Z) (p : lpD),
  d_in_range r c p -> d_unscale r c (d_apply_scaling r c p) = p.
Proof. exact d_unscale_scale_id_lemma. Qed.
Print Assumptions C09_d_unscale_scale_id.

(* getters that test every entry for infinity (all single-index getters; the objective getters) return the
   original datum bit for bit *)
Theorem C09_d_getters_see_original : forall (r c : list Z) (p : lpD),
  d_in_range r c p ->
  let s := d_apply_scaling r c p in
  d_getLowerUnscaled_guarded c s = lo p /\ d_getUpperUnscaled_guarded c s = up p /\
  d_getLhsUnscaled_guarded r s = lhs p /\ d_getRhsUnscaled_guarded r s = rhs p /\
  d_getMaxObjUnscaled c s = obj p /\
  (forall j, (j < length (lo p))%nat -> d_lowerUnscaled c s j = nth j (lo p) DNaN) /\
  (forall j, (j < length (up p))%nat -> d_upperUnscaled c s j = nth j (up p) DNaN) /\
  (forall i, (i < length (lhs p))%nat -> d_lhsUnscaled r s i = nth i (lhs p) DNaN) /\
  (forall i, (i < length (rhs p))%nat -> d_rhsUnscaled r s i = nth i (rhs p) DNaN) /\
  (forall j, (j < length (obj p))%nat -> d_maxObjUnscaled c s j = nth j (obj p) DNaN).
Proof. exact d_getters_see_original_lemma. Qed.
Print Assumptions C09_d_getters_see_original.

(* the stored double LP denotes the exact scaling of the LP the user's doubles denote: the exact-level theorems
   (feasibility transfer, slack / reduced-cost identities, objective) speak about what is stored *)
Theorem C09_d_apply_refines : forall (r c : list Z) (p : lpD),
  d_in_range r c p -> lp_eq (abs_lp (d_apply_scaling r c p)) (apply_scaling r c (abs_lp p)).
Proof. exact d_apply_refines_lemma. Qed.
Print Assumptions C09_d_apply_refines.

(* the guard is satisfiable by a non-trivial LP (entries 2^-40 .. 2^40, an infinite bound, non-zero exponents) *)
Definition ex_dlp : lpD :=
  mkLP [DFin 3 (-40); DFin (-5) 38] [DFin 0 0; dninf] [dinf; DFin 7 20] [DFin 1 (-12); DNInf] [DPInf; DFin 9 30]
       [DFin 0 0; DFin 0 0] [[DFin 1 40; DFin 3 (-40)]; [DFin 0 0; DFin (-11) 5]].
Example ex_d_in_range : d_in_range [-39; 3] [12; -44] ex_dlp.
Proof.
  unfold d_in_range, lp_all, ex_dlp; cbn [obj lo up lhs rhs robj mat all_exp hd tl].
  unfold val_ok, lower_ok, upper_ok, dninf, dinf, fin_ok, EMIN, EOVER.
  repeat split; try (left; reflexivity); try (right; repeat split; vm_compute; congruence);
    try (vm_compute; congruence).
Qed.
Example ex_d_roundtrip : d_unscale [-39; 3] [12; -44] (d_apply_scaling [-39; 3] [12; -44] ex_dlp) = ex_dlp.
Proof. apply C09_d_unscale_scale_id. exact ex_d_in_range. Qed.
Example ex_d_scaled_changes : d_apply_scaling [-39; 3] [12; -44] ex_dlp <> ex_dlp.
Proof. vm_compute. intros H. discriminate H. Qed.

(* ---- where the code as written departs from the property (faithful models of the vector overloads) ---------- *)

(* SPxScaler::getUpperUnscaled / getLowerUnscaled / getLhsUnscaled / getRhsUnscaled (VectorBase&) apply ldexp to every
   entry without testing for infinity: an LP inside the guard whose upper bound is +infinity (1e100) is reported
   with a finite upper bound 1e100 * 2^-3 as soon as the column exponent is -3 *)
Theorem C09_vector_getters_see_original_refuted :
  exists (c : list Z) (p : lpD),
    d_in_range [] c p /\ nth 0 (up p) DNaN = dinf /\
    d_upperUnscaled c (d_apply_scaling [] c p) 0 = dinf /\
    dlt (nth 0 (d_getUpperUnscaled c (d_apply_scaling [] c p)) DNaN) dinf = true.
Proof.
  exists [-3], (mkLP [DFin 1 0] [DFin 0 0] [dinf] [] [] [] []).
  split; [|vm_compute; repeat split; reflexivity].
  unfold d_in_range, lp_all; cbn [obj lo up lhs rhs robj mat all_exp hd tl].
  unfold val_ok, lower_ok, upper_ok, dninf, dinf, fin_ok, EMIN, EOVER.
  repeat split; try (left; reflexivity); try (right; repeat split; vm_compute; congruence);
    try (vm_compute; congruence).
Qed.
Print Assumptions C09_vector_getters_see_original_refuted.

(* SPxLPBase::changeLower / changeUpper / changeLhs / changeRhs (const VectorBase&, scale = true) call scaleLower ...
   on every entry without testing for infinity: a lower bound -infinity (-1e100) is stored as the finite bound
   -1e100 * 2^-3 when the column exponent is 3, whereas the single-index overload stores -1e100 *)
Theorem C09_vector_change_keeps_infinite_bounds_refuted :
  exists (c : list Z) (v : list dbl),
    nth 0 v DNaN = dninf /\ d_changeLower1 c 0 dninf = dninf /\
    dlt dninf (nth 0 (d_changeLower_vec c v) DNaN) = true.
Proof. exists [3], [dninf]. vm_compute. repeat split; reflexivity. Qed.
Print Assumptions C09_vector_change_keeps_infinite_bounds_refuted.
